(* C06 - lemmas about Model/Layout.v and Model/KeyDeriv.v.  Statements used by Props/C06.v. *)
From Coq Require Import NArith List Bool Arith Lia ZifyN ZifyNat ZifyBool.
From Verif Require Import Model.Layout.
Import ListNotations.
Local Open Scope N_scope.

(* ------------------------------------------------------------------ little-endian scalars *)
Lemma le_enc_length w v : length (le_enc w v) = w.
Proof. revert v; induction w as [|w IH]; intros v; cbn; [reflexivity|]. rewrite IH. reflexivity. Qed.

Lemma le_dec_enc w : forall v, v < 256 ^ N.of_nat w -> le_dec (le_enc w v) = v.
Proof.
  induction w as [|w IH]; intros v Hv.
  - cbn in *. lia.
  - cbn [le_enc le_dec]. rewrite IH.
    + pose proof (N.div_mod v 256 ltac:(lia)) as E. lia.
    + rewrite Nat2N.inj_succ, N.pow_succ_r' in Hv. apply N.div_lt_upper_bound; lia.
Qed.

Lemma zeros_length n : length (zeros n) = n.
Proof. induction n; cbn; congruence. Qed.

Lemma enc_elems_length w v : length (enc_elems w v) = (w * length v)%nat.
Proof.
  unfold enc_elems. induction v as [|x v IH]; cbn; [lia|].
  rewrite app_length, le_enc_length, IH. lia.
Qed.

Lemma firstn_app_exact {A} (a b : list A) n : length a = n -> firstn n (a ++ b) = a.
Proof. intros <-. rewrite firstn_app, Nat.sub_diag, firstn_all. cbn. apply app_nil_r. Qed.

Lemma skipn_app_exact {A} (a b : list A) n : length a = n -> skipn n (a ++ b) = b.
Proof. intros <-. rewrite skipn_app, Nat.sub_diag, skipn_all. reflexivity. Qed.

Lemma take_elems_enc w v rest :
  Forall (fun x => x < 256 ^ N.of_nat w) v ->
  take_elems w (length v) (enc_elems w v ++ rest) = v.
Proof.
  induction v as [|x v IH]; intros Hf; [reflexivity|].
  inversion Hf as [|? ? Hx Hv]; subst.
  cbn [length take_elems]. unfold enc_elems in *. cbn [flat_map]. rewrite <- app_assoc.
  rewrite firstn_app_exact by apply le_enc_length.
  rewrite skipn_app_exact by apply le_enc_length.
  rewrite le_dec_enc by assumption. f_equal. apply IH. assumption.
Qed.

(* ------------------------------------------------------------------ Go round trip *)
Lemma go_roundtrip_gen g : forall vs rest, fits g vs -> decode_go g (encode_go g vs ++ rest) = vs.
Proof.
  induction g as [|f g IH]; intros vs rest Hf.
  - cbn in *. subst. reflexivity.
  - cbn [encode_go decode_go fits] in *. destruct (fpad f) eqn:Ep.
    + rewrite <- app_assoc. rewrite skipn_app_exact by apply zeros_length. apply IH. exact Hf.
    + destruct vs as [|v vs]; [contradiction|]. destruct Hf as (Hl & Hv & Hr).
      rewrite <- app_assoc. f_equal.
      * rewrite <- Hl. apply take_elems_enc. exact Hv.
      * rewrite skipn_app_exact by (rewrite enc_elems_length, Hl; reflexivity). apply IH. exact Hr.
Qed.

Lemma go_roundtrip g vs : fits g vs -> decode_go g (encode_go g vs) = vs.
Proof. intros H. rewrite <- (app_nil_r (encode_go g vs)). apply go_roundtrip_gen. exact H. Qed.

(* ------------------------------------------------------------------ sequential reads = offset reads *)
Definition decode_sig (l : list (nat * nat * nat)) (bs : bytes) : values :=
  map (fun t => let '(o, w, c) := t in read_field o w c bs) l.

Lemma skipn_skipn' {A} (l : list A) a b : skipn a (skipn b l) = skipn (b + a) l.
Proof.
  revert l; induction b as [|b IH]; intros l; cbn; [reflexivity|].
  destruct l as [|x l]; [destruct a; reflexivity|]. apply IH.
Qed.

Lemma take_elems_read w cnt : forall start bs,
  take_elems w cnt (skipn start bs) = read_field start w cnt bs.
Proof.
  unfold read_field. induction cnt as [|k IH]; intros start bs; [reflexivity|].
  cbn [take_elems seq map]. f_equal.
  - unfold read_at. rewrite Nat.mul_0_l, Nat.add_0_r. reflexivity.
  - rewrite skipn_skipn', IH. rewrite <- seq_shift, map_map. apply map_ext. intros i.
    unfold read_at. f_equal. f_equal. f_equal. lia.
Qed.

Lemma decode_go_sig g : forall start bs,
  decode_go g (skipn start bs) = decode_sig (sig_go start g) bs.
Proof.
  induction g as [|f g IH]; intros start bs; [reflexivity|].
  cbn [decode_go sig_go]. rewrite skipn_skipn'. destruct (fpad f).
  - apply IH.
  - cbn [decode_sig map]. f_equal; [apply take_elems_read|apply IH].
Qed.

Lemma decode_c_sig c bs : decode_c c bs = decode_sig (sig_c c) bs.
Proof.
  induction c as [|f c IH]; [reflexivity|]. cbn [decode_c sig_c]. destruct (fpad f); [exact IH|].
  cbn [decode_sig map]. f_equal. exact IH.
Qed.

Lemma trip_eqb_eq a b : trip_eqb a b = true -> a = b.
Proof.
  destruct a as ((a1, a2), a3), b as ((b1, b2), b3). cbn.
  rewrite !andb_true_iff, !Nat.eqb_eq. intros ((-> & ->) & ->). reflexivity.
Qed.

Lemma sig_eqb_eq a : forall b, sig_eqb a b = true -> a = b.
Proof.
  induction a as [|x a IH]; intros [|y b]; cbn; try congruence.
  rewrite andb_true_iff. intros (H1 & H2). f_equal; [apply trip_eqb_eq; exact H1|apply IH; exact H2].
Qed.

(* ------------------------------------------------------------------ the two once-and-for-all theorems *)
(* read-back direction: whatever bytes the kernel side holds (of any length), the Go reader and the C
   member reads see the same values in the same members *)
Theorem fields_ok_read g c : fields_ok g c = true -> forall bs, decode_go g bs = decode_c c bs.
Proof.
  intros H bs. unfold fields_ok in H. apply sig_eqb_eq in H.
  change bs with (skipn 0 bs) at 1. rewrite decode_go_sig, H, decode_c_sig. reflexivity.
Qed.

(* write direction: what Go marshals is read back by the C declaration member for member *)
Theorem fields_ok_write g c : fields_ok g c = true -> forall vs, fits g vs -> decode_c c (encode_go g vs) = vs.
Proof. intros H vs Hf. rewrite <- (fields_ok_read g c H). apply go_roundtrip. exact Hf. Qed.

Lemma layout_ok_fields p : layout_ok p = true -> fields_ok (pgo p) (pc p) = true.
Proof. unfold layout_ok. rewrite !andb_true_iff. tauto. Qed.

Lemma record_ok_fields p : record_ok p = true -> fields_ok (pgo p) (pc p) = true.
Proof. unfold record_ok. rewrite !andb_true_iff. tauto. Qed.

Theorem layout_ok_write p : layout_ok p = true ->
  forall vs, fits (pgo p) vs -> decode_c (pc p) (encode_go (pgo p) vs) = vs.
Proof. intros H. apply fields_ok_write. apply layout_ok_fields. exact H. Qed.

Theorem layout_ok_read p : layout_ok p = true -> forall bs, decode_go (pgo p) bs = decode_c (pc p) bs.
Proof. intros H. apply fields_ok_read. apply layout_ok_fields. exact H. Qed.

Lemma encode_go_length g : forall vs, fits g vs -> length (encode_go g vs) = go_size g.
Proof.
  induction g as [|f g IH]; intros vs Hf; [reflexivity|].
  cbn [encode_go go_size fold_right fits] in *. destruct (fpad f).
  - rewrite app_length, zeros_length, IH by exact Hf. reflexivity.
  - destruct vs as [|v vs]; [contradiction|]. destruct Hf as (Hl & _ & Hr).
    rewrite app_length, enc_elems_length, Hl, IH by exact Hr. reflexivity.
Qed.

(* the marshalled size is the size the map declares (cilium refuses anything else) *)
Theorem layout_ok_size p : layout_ok p = true ->
  forall vs, fits (pgo p) vs -> length (encode_go (pgo p) vs) = pdecl p.
Proof.
  intros H vs Hf. rewrite encode_go_length by exact Hf.
  unfold layout_ok in H. rewrite !andb_true_iff, !Nat.eqb_eq in H.
  repeat match goal with X : _ /\ _ |- _ => destruct X end. lia.
Qed.

Lemma fitsb_fits g : forall vs, fitsb g vs = true -> fits g vs.
Proof.
  induction g as [|f g IH]; intros vs H; cbn in *.
  - destruct vs; [reflexivity|discriminate].
  - destruct (fpad f); [apply IH; exact H|].
    destruct vs as [|v vs]; [discriminate|]. rewrite !andb_true_iff in H. destruct H as ((H1 & H2) & H3).
    split; [apply Nat.eqb_eq; exact H1|]. split; [|apply IH; exact H3].
    rewrite forallb_forall in H2. apply Forall_forall. intros x Hx. apply N.ltb_lt. apply H2. exact Hx.
Qed.

(* ================================================================== key derivations *)
From Verif Require Import Base.Word Model.KeyDeriv.

Lemma le_enc_step k r b : b < 256 -> le_enc (S k) (r * 256 + b) = b :: le_enc k r.
Proof.
  intros Hb. cbn [le_enc]. f_equal.
  - rewrite N.add_comm, N.mod_add by lia. apply N.mod_small. exact Hb.
  - f_equal. rewrite N.add_comm, N.div_add by lia. rewrite N.div_small by exact Hb. reflexivity.
Qed.

Lemma le_enc_zero k : le_enc k 0 = zeros k.
Proof. induction k as [|k IH]; [reflexivity|]. cbn [le_enc zeros]. f_equal. exact IH. Qed.

Lemma land_disjoint a b k : a mod 2 ^ k = 0 -> b < 2 ^ k -> N.land a b = 0.
Proof.
  intros Ha Hb. apply N.bits_inj. intros n. rewrite N.land_spec, N.bits_0.
  destruct (N.lt_ge_cases n k) as [Hn|Hn].
  - assert (E : a = 2 ^ k * (a / 2 ^ k)) by (pose proof (N.div_mod a (2 ^ k) ltac:(apply N.pow_nonzero; lia)); lia).
    rewrite E, N.mul_comm, N.mul_pow2_bits_low by exact Hn. reflexivity.
  - replace b with (b mod 2 ^ k) by (apply N.mod_small; exact Hb).
    rewrite N.mod_pow2_bits_high by exact Hn. apply andb_false_r.
Qed.

Lemma lor_disjoint a b k : a mod 2 ^ k = 0 -> b < 2 ^ k -> N.lor a b = a + b.
Proof.
  intros Ha Hb. pose proof (land_disjoint a b k Ha Hb) as H0.
  rewrite (N.add_nocarry_lxor a b H0). symmetry. apply N.lxor_lor. exact H0.
Qed.

Lemma shl64_small b n : b * 2 ^ n < W64 -> shl64 b n = b * 2 ^ n.
Proof. intros H. unfold shl64. rewrite wrap64_mod, N.shiftl_mul_pow2. apply N.mod_small. exact H. Qed.

Lemma lor_shl8 r b : r < 2 ^ 56 -> b < 256 -> N.lor (shl64 r 8) b = r * 256 + b.
Proof.
  intros Hr Hb. rewrite shl64_small by (unfold W64; change (2 ^ 8) with 256; change (2 ^ 56) with 72057594037927936 in Hr; lia).
  change (2 ^ 8) with 256. apply (lor_disjoint _ _ 8).
  - change (2 ^ 8) with 256. apply N.mod_mul. lia.
  - exact Hb.
Qed.

Definition mac48 (b0 b1 b2 b3 b4 b5 : N) : N := ((((b0 * 256 + b1) * 256 + b2) * 256 + b3) * 256 + b4) * 256 + b5.

Lemma mac_loop_val b0 b1 b2 b3 b4 b5 :
  b0 < 256 -> b1 < 256 -> b2 < 256 -> b3 < 256 -> b4 < 256 -> b5 < 256 ->
  mac_loop [b0; b1; b2; b3; b4; b5] = mac48 b0 b1 b2 b3 b4 b5.
Proof.
  intros H0 H1 H2 H3 H4 H5. unfold mac_loop, mac48. cbn [firstn fold_left].
  change (2 ^ 56) with 72057594037927936 in *.
  rewrite (lor_shl8 0 b0) by (try exact H0; change (2 ^ 56) with 72057594037927936; lia). rewrite N.mul_0_l, N.add_0_l.
  rewrite (lor_shl8 b0 b1) by (try assumption; change (2 ^ 56) with 72057594037927936; lia).
  rewrite (lor_shl8 _ b2) by (try assumption; change (2 ^ 56) with 72057594037927936; lia).
  rewrite (lor_shl8 _ b3) by (try assumption; change (2 ^ 56) with 72057594037927936; lia).
  rewrite (lor_shl8 _ b4) by (try assumption; change (2 ^ 56) with 72057594037927936; lia).
  rewrite (lor_shl8 _ b5) by (try assumption; change (2 ^ 56) with 72057594037927936; lia).
  reflexivity.
Qed.

Lemma key_u64_mac48 b0 b1 b2 b3 b4 b5 :
  b0 < 256 -> b1 < 256 -> b2 < 256 -> b3 < 256 -> b4 < 256 -> b5 < 256 ->
  key_u64 (mac48 b0 b1 b2 b3 b4 b5) = [b5; b4; b3; b2; b1; b0; 0; 0].
Proof.
  intros H0 H1 H2 H3 H4 H5. unfold key_u64, mac48.
  rewrite !le_enc_step by assumption.
  replace b0 with (0 * 256 + b0) at 1 by lia. rewrite le_enc_step by assumption. reflexivity.
Qed.

Lemma mac_or6_val b0 b1 b2 b3 b4 b5 :
  b0 < 256 -> b1 < 256 -> b2 < 256 -> b3 < 256 -> b4 < 256 -> b5 < 256 ->
  mac_or6 [b0; b1; b2; b3; b4; b5] = mac48 b0 b1 b2 b3 b4 b5.
Proof.
  intros H0 H1 H2 H3 H4 H5. unfold mac_or6, mac48. cbn [nth].
  rewrite !shl64_small by (unfold W64; cbn; lia).
  change (2 ^ 40) with 1099511627776. change (2 ^ 32) with 4294967296. change (2 ^ 24) with 16777216.
  change (2 ^ 16) with 65536. change (2 ^ 8) with 256.
  rewrite (lor_disjoint (b0 * 1099511627776) _ 40) by (change (2 ^ 40) with 1099511627776; first [apply N.mod_mul; lia|lia]).
  replace (b0 * 1099511627776 + b1 * 4294967296) with ((b0 * 256 + b1) * 4294967296) by lia.
  rewrite (lor_disjoint _ (b2 * 16777216) 32) by (change (2 ^ 32) with 4294967296; first [apply N.mod_mul; lia|lia]).
  replace ((b0 * 256 + b1) * 4294967296 + b2 * 16777216) with (((b0 * 256 + b1) * 256 + b2) * 16777216) by lia.
  rewrite (lor_disjoint _ (b3 * 65536) 24) by (change (2 ^ 24) with 16777216; first [apply N.mod_mul; lia|lia]).
  replace (((b0 * 256 + b1) * 256 + b2) * 16777216 + b3 * 65536) with ((((b0 * 256 + b1) * 256 + b2) * 256 + b3) * 65536) by lia.
  rewrite (lor_disjoint _ (b4 * 256) 16) by (change (2 ^ 16) with 65536; first [apply N.mod_mul; lia|lia]).
  replace ((((b0 * 256 + b1) * 256 + b2) * 256 + b3) * 65536 + b4 * 256) with (((((b0 * 256 + b1) * 256 + b2) * 256 + b3) * 256 + b4) * 256) by lia.
  rewrite (lor_disjoint _ b5 8) by (change (2 ^ 8) with 256; first [apply N.mod_mul; lia|lia]).
  reflexivity.
Qed.

Definition wf_bytes_n (n : nat) (l : bytes) : Prop := List.length l = n /\ Forall (fun b => b < 256) l.

Ltac destruct_bytes H :=
  let Hl := fresh "Hl" in let Hf := fresh "Hf" in
  destruct H as (Hl & Hf);
  repeat match goal with
         | l : bytes |- _ => destruct l as [|? l]; cbn in Hl; try discriminate Hl
         | l : list N |- _ => destruct l as [|? l]; cbn in Hl; try discriminate Hl
         end;
  repeat match goal with X : Forall _ (_ :: _) |- _ => inversion X; clear X; subst end.

(* MAC -> 64-bit key: both Go helpers and both C helpers produce the same 8 bytes, for every MAC *)
Theorem mac_key_agree mac : wf_bytes_n 6 mac ->
  go_mac_key_ebpf mac = c_mac_key_dhcp mac /\ go_mac_key_antispoof mac = c_mac_key_antispoof mac /\
  go_mac_key_ebpf mac = spec_mac_key mac /\ go_mac_key_antispoof mac = spec_mac_key mac.
Proof.
  intros H. destruct_bytes H.
  unfold go_mac_key_ebpf, c_mac_key_dhcp, go_mac_key_antispoof, c_mac_key_antispoof,
    go_mac_u64_ebpf, c_mac_u64_dhcp, go_mac_u64_antispoof, c_mac_u64_antispoof, spec_mac_key.
  cbn [List.length Nat.ltb Nat.leb].
  rewrite mac_loop_val, mac_or6_val, key_u64_mac48 by assumption. cbn. repeat split; reflexivity.
Qed.

(* IPv4: every Go helper writes the address byte-REVERSED relative to the wire order the C reads *)
Lemma be_val4 a b c d : be_val [a; b; c; d] = ((a * 256 + b) * 256 + c) * 256 + d.
Proof. unfold be_val. cbn [fold_left]. rewrite N.mul_0_l, N.add_0_l. reflexivity. Qed.

Theorem go_ip_bytes_reversed ip : wf_bytes_n 4 ip -> go_ip_bytes ip = rev ip.
Proof.
  intros H. destruct_bytes H. unfold go_ip_bytes, go_ip_u32_be. rewrite be_val4.
  rewrite !le_enc_step by assumption.
  match goal with |- context [le_enc 1 ?x] => replace x with (0 * 256 + x) by lia end.
  rewrite le_enc_step by assumption. reflexivity.
Qed.

Lemma go_ip_u32_qos_be ip : wf_bytes_n 4 ip -> go_ip_u32_qos ip = go_ip_u32_be ip.
Proof.
  intros H. destruct_bytes H. unfold go_ip_u32_qos, go_ip_u32_be. rewrite be_val4. cbn [nth].
  rewrite !N.shiftl_mul_pow2. change (2 ^ 24) with 16777216. change (2 ^ 16) with 65536. change (2 ^ 8) with 256.
  unfold W32. rewrite !N.mod_small by lia.
  rewrite (lor_disjoint (_ * 16777216) _ 24) by (change (2 ^ 24) with 16777216; first [apply N.mod_mul; lia|lia]).
  match goal with |- N.lor (N.lor (?a * 16777216 + ?b * 65536) _) _ = _ =>
    replace (a * 16777216 + b * 65536) with ((a * 256 + b) * 65536) by lia end.
  rewrite (lor_disjoint (_ * 65536) _ 16) by (change (2 ^ 16) with 65536; first [apply N.mod_mul; lia|lia]).
  match goal with |- N.lor (?a * 65536 + ?b * 256) _ = _ =>
    replace (a * 65536 + b * 256) with ((a * 256 + b) * 256) by lia end.
  rewrite (lor_disjoint (_ * 256) _ 8) by (change (2 ^ 8) with 256; first [apply N.mod_mul; lia|lia]).
  reflexivity.
Qed.

Theorem go_ip_bytes_qos_reversed ip : wf_bytes_n 4 ip -> go_ip_bytes_qos ip = rev ip.
Proof. intros H. unfold go_ip_bytes_qos. rewrite go_ip_u32_qos_be by exact H. apply go_ip_bytes_reversed. exact H. Qed.

Theorem ipv4_key_agree_iff ip : wf_bytes_n 4 ip -> (go_ip_bytes ip = c_ip_bytes ip <-> ip_palin ip = true).
Proof.
  intros H. rewrite go_ip_bytes_reversed by exact H. destruct_bytes H. unfold c_ip_bytes, ip_palin. cbn [rev app].
  rewrite andb_true_iff, !N.eqb_eq. split.
  - intros E. inversion E. subst. split; reflexivity.
  - intros (-> & ->). reflexivity.
Qed.

Theorem ipv4_key_agree_partial ip : wf_bytes_n 4 ip -> ip_palin ip = true ->
  go_ip_bytes ip = c_ip_bytes ip /\ go_ip_bytes_qos ip = c_ip_bytes ip.
Proof.
  intros H Hp. split.
  - apply ipv4_key_agree_iff; assumption.
  - unfold go_ip_bytes_qos. rewrite go_ip_u32_qos_be by exact H. apply ipv4_key_agree_iff; assumption.
Qed.

Theorem ipv4_key_agree_refuted :
  ~ (forall ip, wf_bytes_n 4 ip -> go_ip_bytes ip = c_ip_bytes ip) /\
  ~ (forall ip, wf_bytes_n 4 ip -> go_ip_bytes_qos ip = c_ip_bytes ip).
Proof.
  assert (W : wf_bytes_n 4 [10; 0; 0; 1]) by (split; [reflexivity|repeat constructor; lia]).
  split; intros H; specialize (H [10; 0; 0; 1] W); vm_compute in H; discriminate H.
Qed.

(* circuit-id *)
Lemma map_const_zeros m : forall s, map (fun _ : nat => 0) (seq s m) = zeros m.
Proof. induction m as [|m IH]; intros s; [reflexivity|]. cbn. f_equal. apply IH. Qed.

Lemma cid_loop cid : forall m, (List.length cid <= m)%nat ->
  map (fun i => if Nat.ltb i (List.length cid) then nth i cid 0 else 0) (seq 0 m) = cid ++ zeros (m - List.length cid).
Proof.
  induction cid as [|x cid IH]; intros m Hm.
  - cbn [List.length]. rewrite Nat.sub_0_r. cbn [app]. rewrite <- (map_const_zeros m 0%nat). apply map_ext. intros i. reflexivity.
  - destruct m as [|m]; [cbn in Hm; lia|]. cbn [List.length] in *. cbn [seq map]. cbn [Nat.ltb Nat.leb nth app].
    f_equal. rewrite Nat.sub_succ. rewrite <- seq_shift, map_map. rewrite <- (IH m) by lia. apply map_ext. intros i.
    change (Nat.ltb (S i) (S (List.length cid))) with (Nat.ltb i (List.length cid)). reflexivity.
Qed.

Theorem circuit_key_agree_partial cid : cid_guard cid = true -> c_cid_key cid = Some (go_cid_key cid).
Proof.
  unfold cid_guard, c_cid_key, go_cid_key. intros H. rewrite H.
  rewrite andb_true_iff in H. destruct H as (_ & H). apply Nat.leb_le in H.
  f_equal. rewrite cid_loop by exact H. rewrite firstn_all2 by exact H. reflexivity.
Qed.

Theorem circuit_key_long_no_c_key cid : (CID_LEN < List.length cid)%nat ->
  c_cid_key cid = None /\ go_cid_key cid = firstn CID_LEN cid.
Proof.
  intros H. unfold c_cid_key, go_cid_key. split.
  - replace (Nat.leb (List.length cid) CID_LEN) with false by (symmetry; apply Nat.leb_gt; exact H). rewrite andb_false_r. reflexivity.
  - replace (CID_LEN - List.length cid)%nat with 0%nat by lia. apply app_nil_r.
Qed.

Theorem circuit_key_agree_refuted : ~ (forall cid, cid <> [] -> c_cid_key cid = Some (go_cid_key cid)).
Proof. intros H. specialize (H (repeat 65 33) ltac:(discriminate)). vm_compute in H. discriminate H. Qed.

(* VLAN pair: for every pair of VLAN ids and every priority/DEI bits in the tags *)
Lemma land_4095 p v : v < 4096 -> N.land (p * 4096 + v) 4095 = v.
Proof.
  intros H. change 4095 with (N.ones 12). rewrite N.land_ones. change (2 ^ 12) with 4096.
  rewrite N.add_comm, N.mod_add by lia. apply N.mod_small. exact H.
Qed.

Theorem vlan_key_agree s c p1 p2 : s < 4096 -> c < 4096 ->
  c_vlan_key (p1 * 4096 + s) (p2 * 4096 + c) = go_vlan_key s c.
Proof. intros Hs Hc. unfold c_vlan_key, go_vlan_key. rewrite !land_4095 by assumption. reflexivity. Qed.

(* ALG port key *)
Theorem alg_key_agree port proto : port < 65536 -> proto < 256 ->
  go_alg_key port proto = c_alg_key port proto /\ alg_u32 port proto = port * 65536 + proto.
Proof.
  intros Hp Hq. split; [reflexivity|]. unfold alg_u32. rewrite N.shiftl_mul_pow2. change (2 ^ 16) with 65536.
  unfold W32. rewrite N.mod_small by lia. apply (lor_disjoint _ _ 16); change (2 ^ 16) with 65536; [apply N.mod_mul; lia|lia].
Qed.

(* LPM key *)
Theorem lpm_key_agree_refuted :
  exists plen net src, wf_bytes_n 4 net /\ wf_bytes_n 4 src /\ in_prefix plen net src = true /\
    lpm_entry_matches (go_lpm_key plen net) (c_lpm_lookup src) = false.
Proof.
  exists 8, [10; 0; 0; 0], [10; 1; 2; 3].
  repeat split; try reflexivity; repeat constructor; lia.
Qed.

Lemma le_dec_firstn_enc w v rest : v < 256 ^ N.of_nat w -> le_dec (firstn w (le_enc w v ++ rest)) = v.
Proof. intros H. rewrite firstn_app_exact by apply le_enc_length. apply le_dec_enc. exact H. Qed.

Theorem lpm_key_agree_partial plen net src : plen <= 32 -> wf_bytes_n 4 net -> ip_palin net = true ->
  lpm_entry_matches (go_lpm_key plen net) (c_lpm_lookup src) = in_prefix plen net src.
Proof.
  intros Hp Hn Hpal. unfold lpm_entry_matches, go_lpm_key, c_lpm_lookup, in_prefix, c_ip_bytes.
  rewrite (proj1 (ipv4_key_agree_partial net Hn Hpal)). unfold c_ip_bytes.
  rewrite le_dec_firstn_enc by (cbn; lia).
  rewrite !skipn_app_exact by apply le_enc_length.
  replace (plen <=? 32) with true by (symmetry; apply N.leb_le; exact Hp). reflexivity.
Qed.

(* ================================================================== Model vs acceptor (refinement inside the guard) *)
From Verif Require Import Model.LayoutCheck.

Lemma l_eqb_refl a : l_eqb a a = true.
Proof. induction a as [|x a IH]; cbn; [reflexivity|]. rewrite N.eqb_refl. exact IH. Qed.
Lemma ll_eqb_refl a : ll_eqb a a = true.
Proof. induction a as [|x a IH]; cbn; [reflexivity|]. rewrite l_eqb_refl. exact IH. Qed.

Lemma layout_ok_xfer p : layout_ok p = true -> xfer_ok false p = true.
Proof.
  unfold layout_ok, xfer_ok. rewrite !andb_true_iff, !Nat.eqb_eq. intros H.
  repeat match goal with X : _ /\ _ |- _ => destruct X end. split; [lia|assumption].
Qed.

(* every value a correct pair can carry: the Model's own output is accepted (write direction) *)
Theorem model_put_accepted p vs : layout_ok p = true -> fits (pgo p) vs ->
  accept tt (OPut false p vs) (snd (fst (step tt (OPut false p vs)))) = inl tt.
Proof.
  intros H Hf. cbn [step fst snd accept]. rewrite (layout_ok_xfer p H). cbn [b2n pair_ok].
  rewrite H, (layout_ok_write p H vs Hf), ll_eqb_refl, (layout_ok_size p H vs Hf), Nat.eqb_refl. reflexivity.
Qed.

(* every byte string: the Model's own read-back is accepted *)
Theorem model_get_accepted p bs : layout_ok p = true ->
  accept tt (OGet false p bs) (snd (fst (step tt (OGet false p bs)))) = inl tt.
Proof.
  intros H. cbn [step fst snd accept]. rewrite (layout_ok_xfer p H). cbn [b2n pair_ok].
  rewrite H, (layout_ok_read p H bs), ll_eqb_refl. reflexivity.
Qed.

(* and a pair that is not ok is rejected whatever was observed: the monitor cannot miss a bad declaration *)
Theorem bad_pair_rejected p vs r : layout_ok p = false -> accept tt (OPut false p vs) r = inr CL_WRITE.
Proof.
  intros H. cbn [accept pair_ok]. rewrite H.
  destruct r as [|[|ok [|? ?]] [|bs [|? ?]]]; reflexivity.
Qed.

Lemma all_pairs_ok_in ps p : all_pairs_ok ps = true -> In p ps -> is_record p = false -> layout_ok p = true.
Proof.
  unfold all_pairs_ok. rewrite forallb_forall. intros H Hin Hr. specialize (H p Hin). unfold pair_ok in H. rewrite Hr in H. exact H.
Qed.

(* ================================================================== MAC of any length; two-branch circuit-id extraction *)
Lemma mac_key_agree_ge6 mac : (6 <= List.length mac)%nat -> Forall (fun b => b < 256) mac ->
  go_mac_key_ebpf mac = c_mac_key_dhcp_chaddr mac /\ go_mac_key_ebpf mac = spec_mac_key (firstn 6 mac).
Proof.
  intros Hl Hf.
  destruct mac as [|b0 [|b1 [|b2 [|b3 [|b4 [|b5 rest]]]]]]; cbn in Hl; try lia.
  repeat match goal with X : Forall _ (_ :: _) |- _ => inversion X; clear X; subst end.
  unfold go_mac_key_ebpf, c_mac_key_dhcp_chaddr, go_mac_u64_ebpf, c_mac_u64_dhcp, spec_mac_key.
  change (Nat.ltb (List.length (b0 :: b1 :: b2 :: b3 :: b4 :: b5 :: rest)) 6) with false. cbv iota.
  change (mac_loop (b0 :: b1 :: b2 :: b3 :: b4 :: b5 :: rest)) with (mac_loop [b0; b1; b2; b3; b4; b5]).
  change (mac_loop (chaddr_of (b0 :: b1 :: b2 :: b3 :: b4 :: b5 :: rest))) with (mac_loop [b0; b1; b2; b3; b4; b5]).
  rewrite mac_loop_val, key_u64_mac48 by assumption. split; reflexivity.
Qed.

Lemma mac_key_short_zero mac : (List.length mac < 6)%nat -> go_mac_key_ebpf mac = zeros 8.
Proof.
  intros H. unfold go_mac_key_ebpf, go_mac_u64_ebpf, key_u64.
  replace (Nat.ltb (List.length mac) 6) with true by (symmetry; apply Nat.ltb_lt; exact H). apply le_enc_zero.
Qed.

Lemma mac_key_short_refuted :
  ~ (forall mac, (List.length mac <= 16)%nat -> Forall (fun b => b < 256) mac -> go_mac_key_ebpf mac = c_mac_key_dhcp_chaddr mac).
Proof. intros H. specialize (H [1] ltac:(cbn; lia) ltac:(repeat constructor; lia)). vm_compute in H. discriminate H. Qed.

Lemma antispoof_add_only_len6 mac :
  (List.length mac <> 6)%nat -> go_mac_antispoof_add mac = None.
Proof. intros H. unfold go_mac_antispoof_add. replace (Nat.eqb (List.length mac) 6) with false by (symmetry; apply Nat.eqb_neq; exact H). reflexivity. Qed.

Lemma key_at_embedded opts off cid : (List.length cid <= CID_LEN)%nat -> embedded opts off cid ->
  key_at opts off (List.length cid) = go_cid_key cid.
Proof.
  intros Hl He. unfold key_at, go_cid_key. rewrite firstn_all2 by exact Hl. rewrite <- (cid_loop cid CID_LEN Hl).
  apply map_ext. intros i. destruct (Nat.ltb i (List.length cid)) eqn:E; [|reflexivity].
  apply He. apply Nat.ltb_lt. exact E.
Qed.

Lemma cid_guard_len cid : cid_guard cid = true -> (0 < List.length cid <= CID_LEN)%nat.
Proof. unfold cid_guard. rewrite andb_true_iff, Nat.ltb_lt, Nat.leb_le. tauto. Qed.

Lemma cid_len_ok_true cid dataoff avail : cid_guard cid = true -> (dataoff + List.length cid <= avail)%nat ->
  cid_len_ok (N.of_nat (List.length cid)) dataoff avail = true.
Proof.
  intros Hg Hb. apply cid_guard_len in Hg. unfold cid_len_ok. rewrite Nat2N.id.
  rewrite !andb_true_iff, N.ltb_lt, N.leb_le, Nat.leb_le. unfold CID_LEN in *. lia.
Qed.

Theorem extract_branch1_agree opts avail cid :
  (64 <= avail)%nat -> ob opts 3 = 82 -> 4 <= ob opts 4 -> (5 + N.to_nat (ob opts 4) <= avail)%nat -> ob opts 5 = 1 ->
  ob opts 6 = N.of_nat (List.length cid) -> cid_guard cid = true -> (7 + List.length cid <= avail)%nat -> embedded opts 7 cid ->
  c_extract_cid opts avail = Some (go_cid_key cid).
Proof.
  intros Ha H3 H4 H4b H5 H6 Hg Hb He. unfold c_extract_cid, extract_b1.
  replace (Nat.leb 64 avail) with true by (symmetry; apply Nat.leb_le; exact Ha).
  rewrite H3, H5, H6. cbn [N.eqb Pos.eqb].
  replace (4 <=? ob opts 4) with true by (symmetry; apply N.leb_le; exact H4).
  replace (Nat.leb (5 + N.to_nat (ob opts 4)) avail) with true by (symmetry; apply Nat.leb_le; exact H4b).
  cbn [andb]. rewrite cid_len_ok_true by assumption. rewrite Nat2N.id.
  rewrite key_at_embedded by (try exact He; apply cid_guard_len in Hg; lia). reflexivity.
Qed.

Lemma extract_at_none opts avail q : ob opts q <> 82 -> extract_at opts avail q = None.
Proof. intros H. unfold extract_at. replace (ob opts q =? 82) with false by (symmetry; apply N.eqb_neq; exact H). reflexivity. Qed.

Lemma extract_at_some opts avail p cid :
  ob opts p = 82 -> (p + 8 <= avail)%nat -> 4 <= ob opts (p + 1) -> ob opts (p + 2) = 1 ->
  ob opts (p + 3) = N.of_nat (List.length cid) -> cid_guard cid = true -> (p + 4 + List.length cid <= avail)%nat ->
  embedded opts (p + 4) cid -> extract_at opts avail p = Some (go_cid_key cid).
Proof.
  intros H0 Hb H1 H2 H3 Hg Hb2 He. unfold extract_at. rewrite H0, H2, H3. cbn [N.eqb Pos.eqb].
  replace (Nat.leb (p + 8) avail) with true by (symmetry; apply Nat.leb_le; exact Hb).
  replace (4 <=? ob opts (p + 1)) with true by (symmetry; apply N.leb_le; exact H1).
  cbn [andb]. rewrite cid_len_ok_true by assumption. rewrite Nat2N.id.
  rewrite key_at_embedded by (try exact He; apply cid_guard_len in Hg; lia). reflexivity.
Qed.

Theorem extract_branch2_agree opts avail p cid :
  In p scan_positions -> (64 <= avail)%nat -> ob opts 3 <> 82 ->
  (forall q, In q scan_positions -> (q < p)%nat -> ob opts q <> 82) ->
  ob opts p = 82 -> (p + 8 <= avail)%nat -> 4 <= ob opts (p + 1) -> ob opts (p + 2) = 1 ->
  ob opts (p + 3) = N.of_nat (List.length cid) -> cid_guard cid = true -> (p + 4 + List.length cid <= avail)%nat ->
  embedded opts (p + 4) cid -> c_extract_cid opts avail = Some (go_cid_key cid).
Proof.
  intros Hin Ha H3 Hq H0 Hb H1 H2 Hn Hg Hb2 He. unfold c_extract_cid, extract_b1.
  replace (Nat.leb 64 avail) with true by (symmetry; apply Nat.leb_le; exact Ha).
  replace (ob opts 3 =? 82) with false by (symmetry; apply N.eqb_neq; exact H3).
  pose proof (extract_at_some opts avail p cid H0 Hb H1 H2 Hn Hg Hb2 He) as Hs.
  unfold scan_positions in *. cbn [In] in Hin.
  repeat (destruct Hin as [<-|Hin];
    [cbn [extract_scan]; rewrite ?extract_at_none by (apply Hq; [cbn; tauto|lia]); rewrite Hs; reflexivity|]).
  contradiction.
Qed.

(* an option 82 that holds nothing but a one-byte circuit-id is skipped by the program (opt82_len >= 4) *)
Lemma extract_short_option_refuted :
  cid_guard [65] = true /\ c_extract_cid [53; 1; 1; 82; 3; 1; 1; 65; 255] 312 = None /\ go_cid_key [65] <> zeros 32.
Proof. vm_compute. repeat split; discriminate. Qed.
