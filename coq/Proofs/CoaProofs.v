(* Lemmas for C15: the Model of the listener (Model/Coa.v, checked Go-slice operations on the
   4096-byte receive buffer, digest queries as [Hash] nodes) computes the reference semantics of
   Model/CoaSpec.v, for every digest function, secret, handler, stale buffer content and datagram. *)
From Coq Require Import ZArith NArith List Bool Lia ZifyN ZifyNat ZifyBool.
From Verif Require Import Base.Word Model.Coa Model.CoaSpec.
Import ListNotations.
Local Open Scope nat_scope.

(* ---------- list facts ---------- *)
Lemma nth_error_skipn' {A} (l : list A) a i : nth_error (skipn a l) i = nth_error l (a + i).
Proof. revert l; induction a as [|a IH]; intros [|x l]; cbn; auto. destruct i; reflexivity. Qed.

Lemma nth_error_firstn' {A} (l : list A) k i : i < k -> nth_error (firstn k l) i = nth_error l i.
Proof.
  revert k l; induction i as [|i IH]; intros [|k] [|x l] Hlt; cbn; try lia; auto.
  apply IH. lia.
Qed.

Lemma nth_error_of_firstn_eq {A} (l1 l2 : list A) k i :
  firstn k l1 = firstn k l2 -> i < k -> nth_error l1 i = nth_error l2 i.
Proof.
  intros E Hlt. rewrite <- (nth_error_firstn' l1 k i Hlt), <- (nth_error_firstn' l2 k i Hlt), E. reflexivity.
Qed.

Lemma skipn_nth_error_cons {A} (l : list A) i x : nth_error l i = Some x -> skipn i l = x :: skipn (S i) l.
Proof.
  revert l; induction i as [|i IH]; intros [|y l] E; cbn in *; try discriminate.
  - inversion E; reflexivity.
  - apply IH; exact E.
Qed.

Lemma skipn_skipn' {A} (l : list A) x y : skipn x (skipn y l) = skipn (y + x) l.
Proof. revert l; induction y as [|y IH]; intros l; cbn; [reflexivity|]. destruct l; [destruct x; reflexivity|apply IH]. Qed.

Lemma firstn_firstn_le {A} (l : list A) i j : i <= j -> firstn i (firstn j l) = firstn i l.
Proof. intros. rewrite firstn_firstn. f_equal. lia. Qed.

Lemma firstn_skipn_sub {A} (l1 l2 : list A) a m k :
  firstn k l1 = firstn k l2 -> a + m <= k -> firstn m (skipn a l1) = firstn m (skipn a l2).
Proof.
  intros E Hle. rewrite !firstn_skipn_comm.
  rewrite <- (firstn_firstn_le l1 (a + m) k Hle), <- (firstn_firstn_le l2 (a + m) k Hle), E. reflexivity.
Qed.

Lemma bytes_eqb_sym a b : bytes_eqb a b = bytes_eqb b a.
Proof.
  destruct (bytes_eqb a b) eqn:E1; destruct (bytes_eqb b a) eqn:E2; auto.
  - apply bytes_eqb_eq in E1. subst. rewrite (proj2 (bytes_eqb_eq b b) eq_refl) in E2. discriminate.
  - apply bytes_eqb_eq in E2. subst. rewrite (proj2 (bytes_eqb_eq a a) eq_refl) in E1. discriminate.
Qed.

(* ---------- the receive buffer ---------- *)
Lemma recv_n_le dg : recv_n dg <= BUFSZ /\ recv_n dg <= length dg.
Proof. unfold recv_n. lia. Qed.

Lemma recv_arr_length stale dg : length (recv_arr stale dg) = BUFSZ.
Proof.
  unfold recv_arr. rewrite firstn_length, !app_length, repeat_length. lia.
Qed.

Lemma recv_arr_prefix stale dg : firstn (recv_n dg) (recv_arr stale dg) = firstn (recv_n dg) dg.
Proof.
  unfold recv_arr. pose proof (recv_n_le dg) as [H1 H2].
  rewrite firstn_firstn_le by exact H1.
  rewrite firstn_app. rewrite firstn_length. replace (Nat.min (recv_n dg) (length dg)) with (recv_n dg) by lia.
  rewrite Nat.sub_diag. cbn [firstn]. rewrite app_nil_r. apply firstn_firstn_le. lia.
Qed.

Lemma recv_arr_nth stale dg i : i < recv_n dg -> nth_error (recv_arr stale dg) i = Some (nth i dg 0%N).
Proof.
  intros Hlt. rewrite (nth_error_of_firstn_eq _ dg (recv_n dg) i (recv_arr_prefix stale dg) Hlt).
  apply nth_error_nth'. pose proof (recv_n_le dg). lia.
Qed.

Lemma recv_arr_sub stale dg a m : a + m <= recv_n dg ->
  firstn m (skipn a (recv_arr stale dg)) = firstn m (skipn a dg).
Proof. intros. eapply firstn_skipn_sub; [apply recv_arr_prefix|assumption]. Qed.

(* ---------- authenticator comparison ---------- *)
Lemma cmp_loop_spec a : forall e i, i + length a <= length e ->
  cmp_loop a e i = Some (bytes_eqb a (firstn (length a) (skipn i e))).
Proof.
  induction a as [|x a IH]; intros e i Hle; cbn [cmp_loop length firstn].
  - reflexivity.
  - cbn [length] in Hle.
    destruct (nth_error e i) as [y|] eqn:E.
    + rewrite (skipn_nth_error_cons e i y E). cbn [firstn bytes_eqb].
      destruct (N.eqb x y); cbn [andb]; [apply IH; lia|reflexivity].
    + apply nth_error_None in E. lia.
Qed.

Lemma digest16_length d : length (digest16 d) = 16.
Proof. unfold digest16. rewrite firstn_length, app_length, repeat_length. lia. Qed.

(* ---------- attribute parsing ---------- *)
Lemma parse_loop_list fuel : forall data offset,
  offset <= len data -> len data <= length (arr data) ->
  parse_loop fuel data offset = parse_list fuel (skipn offset (sl_bytes data)).
Proof.
  induction fuel as [|f IH]; intros data offset Ho Hc; cbn [parse_loop parse_list]; [reflexivity|].
  assert (Hlen : length (sl_bytes data) = len data) by (unfold sl_bytes; rewrite firstn_length; lia).
  destruct (Nat.leb (offset + 2) (len data)) eqn:E2.
  - apply Nat.leb_le in E2.
    assert (N0 : nth_error (arr data) offset = nth_error (sl_bytes data) offset)
      by (unfold sl_bytes; symmetry; apply nth_error_firstn'; lia).
    assert (N1 : nth_error (arr data) (offset + 1) = nth_error (sl_bytes data) (offset + 1))
      by (unfold sl_bytes; symmetry; apply nth_error_firstn'; lia).
    destruct (nth_error (sl_bytes data) offset) as [t|] eqn:Et;
      [|apply nth_error_None in Et; lia].
    destruct (nth_error (sl_bytes data) (offset + 1)) as [al|] eqn:Eal;
      [|apply nth_error_None in Eal; lia].
    unfold sl_idx. replace (Nat.ltb offset (len data)) with true by (symmetry; apply Nat.ltb_lt; lia).
    replace (Nat.ltb (offset + 1) (len data)) with true by (symmetry; apply Nat.ltb_lt; lia).
    rewrite N0, N1.
    rewrite (skipn_nth_error_cons _ _ _ Et).
    replace (S offset) with (offset + 1) by lia.
    rewrite (skipn_nth_error_cons _ _ _ Eal).
    replace (S (offset + 1)) with (offset + 2) by lia.
    set (rest := skipn (offset + 2) (sl_bytes data)).
    assert (Hrest : length rest = len data - (offset + 2)) by (unfold rest; rewrite skipn_length; lia).
    cbn [length]. rewrite Hrest.
    set (alen := N.to_nat al).
    replace (Nat.ltb (len data) (offset + alen)) with (Nat.ltb (S (S (len data - (offset + 2)))) alen)
      by (apply eq_true_iff_eq; rewrite !Nat.ltb_lt; lia).
    destruct (Nat.ltb alen 2 || Nat.ltb (S (S (len data - (offset + 2)))) alen) eqn:Eg; [reflexivity|].
    apply orb_false_elim in Eg. destruct Eg as [Eg1 Eg2].
    apply Nat.ltb_ge in Eg1. apply Nat.ltb_ge in Eg2.
    unfold sl_range.
    replace (Nat.leb (offset + 2) (offset + alen) && Nat.leb (offset + alen) (length (arr data))) with true
      by (symmetry; apply andb_true_intro; split; apply Nat.leb_le; lia).
    rewrite IH by (cbn [len arr]; lia).
    replace (skipn (offset + alen) (sl_bytes data)) with (skipn (alen - 2) rest)
      by (unfold rest; rewrite skipn_skipn'; f_equal; lia).
    replace (sl_bytes {| arr := skipn (offset + 2) (arr data); len := offset + alen - (offset + 2) |})
      with (firstn (alen - 2) rest); [reflexivity|].
    unfold rest, sl_bytes. cbn [arr len].
    replace (offset + alen - (offset + 2)) with (alen - 2) by lia.
    rewrite !firstn_skipn_comm. rewrite firstn_firstn_le by lia. reflexivity.
  - apply Nat.leb_gt in E2.
    destruct (skipn offset (sl_bytes data)) as [|t [|al rest]] eqn:Es; try reflexivity.
    assert (length (skipn offset (sl_bytes data)) >= 2) by (rewrite Es; cbn; lia).
    rewrite skipn_length in H. lia.
Qed.

Lemma parse_list_fuel fuel : forall l, length l < fuel -> parse_list fuel l <> PPanic.
Proof.
  induction fuel as [|f IH]; intros l Hlt; [lia|].
  cbn [parse_list]. destruct l as [|t [|al rest]]; try discriminate.
  destruct (Nat.ltb (N.to_nat al) 2 || Nat.ltb (length (t :: al :: rest)) (N.to_nat al)); [discriminate|].
  specialize (IH (skipn (N.to_nat al - 2) rest)).
  assert (Hl : length (skipn (N.to_nat al - 2) rest) < f) by (rewrite skipn_length; cbn [length] in Hlt; lia).
  specialize (IH Hl).
  destruct (parse_list f (skipn (N.to_nat al - 2) rest)); try discriminate. contradiction.
Qed.

Lemma attrs_parse_no_panic l : attrs_parse l <> PPanic.
Proof. apply parse_list_fuel. lia. Qed.

(* ---------- checked slice operations that succeed ---------- *)
Lemma sl_idx_ok s i x : i < len s -> nth_error (arr s) i = Some x -> sl_idx s i = Some x.
Proof. intros Hl E. unfold sl_idx. replace (Nat.ltb i (len s)) with true by (symmetry; apply Nat.ltb_lt; lia). exact E. Qed.
Lemma sl_range_ok s a b : a <= b -> b <= length (arr s) ->
  sl_range s a b = Some {| arr := skipn a (arr s); len := b - a |}.
Proof.
  intros H1 H2. unfold sl_range.
  replace (Nat.leb a b && Nat.leb b (length (arr s))) with true
    by (symmetry; apply andb_true_intro; split; apply Nat.leb_le; lia). reflexivity.
Qed.
Lemma sl_to_ok s b : b <= length (arr s) -> sl_to s b = Some {| arr := arr s; len := b |}.
Proof. intros H1. unfold sl_to. replace (Nat.leb b (length (arr s))) with true by (symmetry; apply Nat.leb_le; lia). reflexivity. Qed.
Lemma sl_from_ok s a : a <= len s -> sl_from s a = Some {| arr := skipn a (arr s); len := len s - a |}.
Proof. intros H1. unfold sl_from. replace (Nat.leb a (len s)) with true by (symmetry; apply Nat.leb_le; lia). reflexivity. Qed.
Lemma sl_from_fail s a : len s < a -> sl_from s a = None.
Proof. intros H1. unfold sl_from. replace (Nat.leb a (len s)) with false by (symmetry; apply Nat.leb_gt; lia). reflexivity. Qed.

(* ---------- the loop body ---------- *)
Section Main.
  Variable fixed : bool.
  Variable secret : bytes.
  Variable coa_set dm_set : bool.
  Variable handler : N -> request -> hresp.
  Variable H : bytes -> bytes.

  Definition unfixed_panics (dg : bytes) : bool := Nat.leb 20 (s_n dg) && Nat.ltb (s_len dg) 20.

  Lemma run_send_response code ident reqauth r k :
    run H (send_response secret code ident reqauth r k) = run H (k (respond secret H code ident reqauth r)).
  Proof. reflexivity. Qed.

  Lemma coa_process_eq stale dg :
    coa_process fixed secret coa_set dm_set handler H stale dg =
    if negb fixed && unfixed_panics dg then Panic
    else coa_reference secret coa_set dm_set handler H dg.
  Proof.
    unfold coa_process, coa_prog, loop_body, coa_reference, unfixed_panics, s_complete.
    set (A := recv_arr stale dg). set (n := recv_n dg).
    assert (HA : length A = 4096) by apply recv_arr_length.
    assert (Hn : n = s_n dg) by reflexivity. rewrite <- Hn.
    pose proof (recv_n_le dg) as [Hn1 Hn2]. fold n in Hn1, Hn2. unfold BUFSZ in *.
    set (B := {| arr := A; len := 4096 |}).
    destruct (Nat.ltb n 20) eqn:E20.
    { apply Nat.ltb_lt in E20. replace (Nat.leb 20 n) with false by (symmetry; apply Nat.leb_gt; lia).
      cbn [andb negb]. rewrite andb_false_r. reflexivity. }
    apply Nat.ltb_ge in E20. replace (Nat.leb 20 n) with true by (symmetry; apply Nat.leb_le; lia).
    cbn [andb].
    assert (Nth : forall i, i < n -> nth_error A i = Some (nth i dg 0%N)) by (intros; apply recv_arr_nth; assumption).
    rewrite (sl_idx_ok B 0 (nth 0 dg 0%N)) by (cbn [len arr B]; first [lia | apply Nth; lia]). cbn [orp].
    rewrite (sl_idx_ok B 1 (nth 1 dg 0%N)) by (cbn [len arr B]; first [lia | apply Nth; lia]). cbn [orp].
    rewrite (sl_range_ok B 2 4) by (cbn [len arr B]; lia). cbn [orp].
    assert (E16 : be16_of {| arr := skipn 2 (arr B); len := 4 - 2 |} = Some (be16 (nth 2 dg 0%N) (nth 3 dg 0%N))).
    { unfold be16_of.
      rewrite (sl_idx_ok _ 1 (nth 3 dg 0%N)) by (cbn [len arr B]; first [lia | rewrite nth_error_skipn'; apply Nth; lia]).
      rewrite (sl_idx_ok _ 0 (nth 2 dg 0%N)) by (cbn [len arr B]; first [lia | rewrite nth_error_skipn'; apply Nth; lia]).
      reflexivity. }
    rewrite E16. cbn [orp].
    rewrite (sl_range_ok B 4 20) by (cbn [len arr B]; lia). cbn [orp].
    change (arr B) with A.
    fold (s_len dg). set (L := s_len dg).
    assert (KA : sl_bytes {| arr := skipn 4 A; len := 20 - 4 |} = s_auth dg).
    { unfold sl_bytes, s_auth. cbn [arr len B]. apply recv_arr_sub. fold n. lia. }
    destruct (Nat.ltb L 20) eqn:EL.
    - (* Length field below 20 *)
      apply Nat.ltb_lt in EL.
      replace (Nat.leb 20 L) with false by (symmetry; apply Nat.leb_gt; lia).
      cbn [andb negb]. destruct fixed; cbn [andb negb]; [reflexivity|].
      replace (Nat.ltb n L) with false by (symmetry; apply Nat.ltb_ge; lia).
      rewrite (sl_to_ok B L) by (cbn [len arr B]; lia). cbn [orp].
      unfold verify_req.
      rewrite sl_to_ok by (cbn [len arr B]; lia). cbn [orp].
      rewrite sl_from_fail by (cbn [len arr B]; lia). reflexivity.
    - apply Nat.ltb_ge in EL.
      replace (Nat.leb 20 L) with true by (symmetry; apply Nat.leb_le; lia).
      rewrite !andb_false_r. cbn [andb].
      destruct (Nat.ltb n L) eqn:EnL.
      { apply Nat.ltb_lt in EnL. replace (Nat.leb L n) with false by (symmetry; apply Nat.leb_gt; lia).
        reflexivity. }
      apply Nat.ltb_ge in EnL. replace (Nat.leb L n) with true by (symmetry; apply Nat.leb_le; lia).
      cbn [negb].
      rewrite (sl_to_ok B L) by (cbn [len arr B]; lia). cbn [orp].
      unfold verify_req.
      rewrite sl_to_ok by (cbn [len arr B]; lia). cbn [orp].
      rewrite sl_from_ok by (cbn [len arr B]; lia). cbn [orp run].
      rewrite KA.
      assert (K4 : sl_bytes {| arr := arr {| arr := arr B; len := L |}; len := 4 |} = firstn 4 dg).
      { unfold sl_bytes. cbn [arr len B]. pose proof (recv_arr_sub stale dg 0 4) as X. cbn [skipn] in X. apply X. fold n. lia. }
      assert (K20 : firstn (L - 20) (skipn 20 A) = s_attrs dg).
      { unfold s_attrs. fold L. apply recv_arr_sub. fold n. lia. }
      rewrite K4. unfold sl_bytes at 1. cbn [arr len B]. rewrite K20.
      fold (s_reqkey secret dg).
      assert (Hauth : length (s_auth dg) = 16).
      { unfold s_auth. rewrite firstn_length, skipn_length. lia. }
      rewrite cmp_loop_spec by (rewrite digest16_length, Hauth; lia).
      rewrite Hauth, skipn_O.
      replace (firstn 16 (digest16 (H (s_reqkey secret dg)))) with (digest16 (H (s_reqkey secret dg)))
        by (symmetry; rewrite <- (digest16_length (H (s_reqkey secret dg))) at 1; apply firstn_all).
      fold (req_verifies secret H dg).
      destruct (req_verifies secret H dg); cbn [negb run]; [|reflexivity].
      rewrite (sl_range_ok B 20 L) by (cbn [len arr B]; lia). cbn [orp len].
      rewrite parse_loop_list by (cbn [len arr B]; rewrite ?skipn_length; lia).
      rewrite skipn_O. unfold sl_bytes at 1. cbn [arr len B]. rewrite K20.
      assert (Hal : length (s_attrs dg) = L - 20).
      { unfold s_attrs. fold L. rewrite firstn_length, skipn_length. lia. }
      unfold attrs_parse. rewrite Hal.
      pose proof (attrs_parse_no_panic (s_attrs dg)) as NP. unfold attrs_parse in NP. rewrite Hal in NP.
      destruct (parse_list (S (L - 20)) (s_attrs dg)) as [| |attrs]; cbn [run]; try reflexivity; [contradiction|].
      unfold dispatch, ref_dispatch, s_code. rewrite KA.
      destruct (N.eqb (nth 0 dg 0%N) 43); [rewrite run_send_response; reflexivity|].
      destruct (N.eqb (nth 0 dg 0%N) 40); [rewrite run_send_response; reflexivity|reflexivity].
  Qed.
End Main.

(* ---------- corollaries: the property clauses ---------- *)
Section Clauses.
  Variable secret : bytes.
  Variable coa_set dm_set : bool.
  Variable handler : N -> request -> hresp.
  Variable H : bytes -> bytes.

  Local Notation proc fixed := (coa_process fixed secret coa_set dm_set handler H).
  Local Notation ref := (coa_reference secret coa_set dm_set handler H).

  (* the listener's decision, as the code takes it *)
  Definition acted_on (dg : bytes) : Prop :=
    s_complete dg = true /\ req_verifies secret H dg = true /\
    (exists attrs, attrs_parse (s_attrs dg) = POk attrs) /\ s_isreq dg = true.

  Lemma model_is_reference stale dg : proc true stale dg = ref dg.
  Proof. rewrite coa_process_eq. reflexivity. Qed.

  Lemma reference_cases dg :
    (ref dg = Drop /\ ~ acted_on dg) \/
    (exists attrs, attrs_parse (s_attrs dg) = POk attrs /\ acted_on dg /\ ref dg = ref_dispatch secret coa_set dm_set handler H dg attrs
                   /\ exists called req resp, ref dg = Handle (s_code dg) called req resp).
  Proof.
    unfold coa_reference, acted_on.
    destruct (s_complete dg); cbn [negb]; [|left; split; [reflexivity|intros (X & _); discriminate]].
    destruct (req_verifies secret H dg); cbn [negb]; [|left; split; [reflexivity|intros (_ & X & _); discriminate]].
    destruct (attrs_parse (s_attrs dg)) as [| |attrs] eqn:EP;
      try (left; split; [reflexivity|intros (_ & _ & (a & X) & _); discriminate]).
    unfold ref_dispatch, s_isreq.
    destruct (N.eqb (s_code dg) 43) eqn:E43.
    { right. exists attrs. apply N.eqb_eq in E43. rewrite E43. cbn [N.eqb orb].
      repeat split; eauto. }
    destruct (N.eqb (s_code dg) 40) eqn:E40.
    { right. exists attrs. apply N.eqb_eq in E40. rewrite E40.
      repeat split; eauto. }
    left. split; [reflexivity|]. cbn [orb]. intros (_ & _ & _ & X); discriminate.
  Qed.

  Lemma handle_iff stale dg :
    (exists c called req resp, proc true stale dg = Handle c called req resp) <-> acted_on dg.
  Proof.
    rewrite model_is_reference. destruct (reference_cases dg) as [[E NA]|(attrs & EP & A & _ & (called & req & resp & E))].
    - rewrite E. split; [intros (c & ca & rq & rs & X); discriminate|intros; contradiction].
    - rewrite E. split; [intros _; exact A|intros _; eauto].
  Qed.

  Lemma otherwise_dropped stale dg : ~ acted_on dg -> proc true stale dg = Drop.
  Proof.
    rewrite model_is_reference. destruct (reference_cases dg) as [[E NA]|(attrs & EP & A & _)]; [auto|contradiction].
  Qed.

  Lemma no_panic stale dg : proc true stale dg <> Panic.
  Proof.
    rewrite model_is_reference. destruct (reference_cases dg) as [[E NA]|(attrs & EP & A & _ & (called & req & resp & E))];
      rewrite E; discriminate.
  Qed.

  Lemma stale_independent s1 s2 dg : proc true s1 dg = proc true s2 dg.
  Proof. rewrite !model_is_reference. reflexivity. Qed.

  (* the tree before the fix *)
  Lemma unfixed_panic_iff stale dg : proc false stale dg = Panic <-> unfixed_panics dg = true.
  Proof.
    rewrite coa_process_eq. cbn [negb andb]. destruct (unfixed_panics dg); [split; reflexivity|].
    split; [|discriminate]. intros E. exfalso. revert E. rewrite <- (model_is_reference stale). apply no_panic.
  Qed.

  Lemma unfixed_same_when_length_ok stale dg : unfixed_panics dg = false -> proc false stale dg = proc true stale dg.
  Proof. intros E. rewrite !coa_process_eq, E. reflexivity. Qed.

  (* responses *)
  Lemma respond_shape code ident reqauth r :
    let resp := respond secret H code ident reqauth r in
    nth 0 resp 0%N = code /\ nth 1 resp 0%N = ident /\
    firstn 4 resp = resp_hdr code ident (resp_attrs r) /\
    skipn 20 resp = resp_attrs r /\
    firstn 16 (skipn 4 resp) = digest16 (H (firstn 4 resp ++ reqauth ++ skipn 20 resp ++ secret)) /\
    length resp = 20 + length (resp_attrs r).
  Proof.
    cbn zeta. unfold respond, resp_hdr. cbn [be_bytes].
    set (a := resp_attrs r).
    set (hdr := [code; ident] ++ _).
    assert (Hh : exists b1 b2, hdr = [code; ident; b1; b2]) by (eexists; eexists; reflexivity).
    destruct Hh as (b1 & b2 & Hh). clearbody hdr. subst hdr.
    set (hdr := [code; ident; b1; b2]).
    set (d := digest16 (H (hdr ++ reqauth ++ a ++ secret))).
    assert (Hd : length d = 16) by apply digest16_length.
    assert (E4 : firstn 4 (hdr ++ d ++ a) = hdr) by reflexivity.
    assert (S4 : skipn 4 (hdr ++ d ++ a) = d ++ a) by reflexivity.
    assert (S20 : skipn 20 (hdr ++ d ++ a) = a).
    { change 20 with (4 + 16). rewrite <- skipn_skipn', S4. rewrite skipn_app, <- Hd, skipn_all, Nat.sub_diag. reflexivity. }
    repeat split; try reflexivity; try assumption.
    - rewrite E4, S20, S4. rewrite firstn_app, <- Hd, firstn_all, Nat.sub_diag. cbn [firstn]. rewrite app_nil_r. reflexivity.
    - rewrite !app_length, Hd. reflexivity.
  Qed.

  Lemma response_props stale dg c called req resp :
    proc true stale dg = Handle c called req resp ->
    c = s_code dg /\ (c = 40%N \/ c = 43%N) /\
    called = (if N.eqb c 43 then coa_set else dm_set) /\
    nth 1 resp 0%N = nth 1 dg 0%N /\
    (nth 0 resp 0%N = (c + 1)%N \/ nth 0 resp 0%N = (c + 2)%N) /\
    firstn 16 (skipn 4 resp) = digest16 (H (s_respkey secret dg resp)) /\
    ((N.of_nat (length resp) < 65536)%N -> s_len resp = length resp) /\
    20 <= length resp.
  Proof.
    rewrite model_is_reference.
    destruct (reference_cases dg) as [[E NA]|(attrs & EP & A & ED & _)]; [rewrite E; discriminate|].
    rewrite ED. unfold ref_dispatch, s_respkey.
    assert (LF : forall code ident reqauth r, let rs := respond secret H code ident reqauth r in
                 (N.of_nat (length rs) < 65536)%N -> s_len rs = length rs).
    { intros code ident reqauth r rs Hlt.
      destruct (respond_shape code ident reqauth r) as (_ & _ & F4 & _ & _ & FL). fold rs in F4, FL.
      unfold s_len.
      assert (N2 : nth 2 rs 0%N = nth 2 (firstn 4 rs) 0%N).
      { destruct rs as [|x0 [|x1 [|x2 [|x3 tl]]]]; reflexivity. }
      assert (N3 : nth 3 rs 0%N = nth 3 (firstn 4 rs) 0%N).
      { destruct rs as [|x0 [|x1 [|x2 [|x3 tl]]]]; reflexivity. }
      rewrite N2, N3, F4. unfold resp_hdr. cbn [be_bytes app nth]. unfold be16.
      rewrite FL in Hlt |- *. set (v := N.of_nat (20 + length (resp_attrs r))).
      assert (Hv : (v < 65536)%N) by lia.
      change (256 ^ N.of_nat 1)%N with 256%N. change (256 ^ N.of_nat 0)%N with 1%N.
      rewrite N.div_1_r.
      assert (E1 : ((v / 256) mod 256 = v / 256)%N).
      { apply N.mod_small. apply N.div_lt_upper_bound; lia. }
      rewrite E1. pose proof (N.div_mod v 256) as DM.
      assert (v = 256 * (v / 256) + v mod 256)%N by (apply DM; lia). lia. }
    destruct (N.eqb (s_code dg) 43) eqn:E43.
    - intros X. inversion X; subst. apply N.eqb_eq in E43.
      match goal with |- context [respond secret H ?cd ?id ?ra ?r] =>
        destruct (respond_shape cd id ra r) as (R0 & R1 & R4 & R20 & RA & RL); pose proof (LF cd id ra r) as RF end.
      cbn zeta in *. repeat split; auto; [|lia].
      rewrite R0. destruct (h_ok _); [left|right]; reflexivity.
    - destruct (N.eqb (s_code dg) 40) eqn:E40; [|discriminate].
      intros X. inversion X; subst. apply N.eqb_eq in E40.
      match goal with |- context [respond secret H ?cd ?id ?ra ?r] =>
        destruct (respond_shape cd id ra r) as (R0 & R1 & R4 & R20 & RA & RL); pose proof (LF cd id ra r) as RF end.
      cbn zeta in *. repeat split; auto; [|lia].
      rewrite R0. destruct (h_ok _); [left|right]; reflexivity.
  Qed.

  (* strict TLV tiling (the monitor's well-formedness) implies that the code's parser succeeds *)
  Lemma tlv_parse f1 : forall f2 l, length l < f1 -> length l < f2 -> s_tlv f1 l = true ->
    exists a, parse_list f2 l = POk a.
  Proof.
    induction f1 as [|f1 IH]; intros f2 l H1 H2 T; [lia|].
    destruct f2 as [|f2]; [lia|].
    cbn [s_tlv] in T. cbn [parse_list].
    destruct l as [|t [|al rest]]; [eexists; reflexivity|discriminate|].
    apply andb_prop in T. destruct T as [T T3]. apply andb_prop in T. destruct T as [T1 T2].
    apply N.leb_le in T1. apply Nat.leb_le in T2. cbn [length] in *.
    replace (Nat.ltb (N.to_nat al) 2 || Nat.ltb (S (S (length rest))) (N.to_nat al)) with false
      by (symmetry; apply orb_false_intro; apply Nat.ltb_ge; lia).
    destruct (IH f2 (skipn (N.to_nat al - 2) rest)) as (a & Ea); try (rewrite skipn_length; lia); [exact T3|].
    rewrite Ea. eexists; reflexivity.
  Qed.

  Lemma wf_parses dg : s_wf dg = true -> exists a, attrs_parse (s_attrs dg) = POk a.
  Proof. intros W. unfold attrs_parse. eapply tlv_parse; [| |exact W]; lia. Qed.

  (* Model ⊑ monitor: the trace monitor accepts what the Model does with any datagram (guard: the
     response the handler's answer leads to is shorter than 65536 bytes, so its Length field is exact) *)
  Lemma monitor_accepts_model stale dg hr tbl fl ma :
    (forall c called req resp, proc true stale dg = Handle c called req resp ->
                               (N.of_nat (length resp) < 65536)%N) ->
    let ss := {| s_secret := secret; s_coa_set := coa_set; s_dm_set := dm_set |} in
    accept (fun k => Some (H k)) ss
           {| o_dg := dg; o_hr := hr; o_authentic := s_complete dg && req_verifies secret H dg;
              o_tbl := tbl; o_md5 := fl; o_ma := ma |}
           (obs_of (proc true stale dg)) = inl ss.
  Proof.
    intros G ss. unfold accept. cbn [o_dg o_authentic s_secret s_coa_set s_dm_set ss].
    pose proof (response_props stale dg) as RP.
    rewrite model_is_reference in *.
    destruct (reference_cases dg) as [[E NA]|(attrs & EP & A & _ & (called & req & resp & E))].
    - rewrite E. cbn [obs_of]. unfold acted_on in NA.
      destruct (s_complete dg) eqn:EC; cbn [negb andb]; [|reflexivity].
      rewrite (bytes_eqb_sym (digest16 (H (s_reqkey secret dg))) (s_auth dg)).
      fold (req_verifies secret H dg).
      destruct (req_verifies secret H dg) eqn:EV; cbn [Bool.eqb negb andb]; [|reflexivity].
      destruct (s_isreq dg) eqn:EI; cbn [negb]; [|reflexivity].
      cbn [forallb negb length Nat.eqb Nat.leb andb].
      destruct (s_wf dg) eqn:EW.
      { exfalso. apply NA. repeat split; auto. apply wf_parses; exact EW. }
      cbn [andb]. destruct (if N.eqb (s_code dg) 43 then coa_set else dm_set); reflexivity.
    - rewrite E in *. cbn [obs_of]. destruct A as (EC & EV & _ & EI).
      rewrite EC. cbn [negb andb].
      rewrite (bytes_eqb_sym (digest16 (H (s_reqkey secret dg))) (s_auth dg)).
      fold (req_verifies secret H dg). rewrite EV, EI. cbn [Bool.eqb negb andb].
      destruct (RP _ _ _ _ eq_refl) as (_ & Hc & Hcalled & Hid & Hcode & Hauth & Hlen & H20).
      specialize (Hlen (G _ _ _ _ eq_refl)).
      assert (Hinst : called = (if N.eqb (s_code dg) 43 then coa_set else dm_set)) by exact Hcalled.
      set (inst := if N.eqb (s_code dg) 43 then coa_set else dm_set) in *.
      assert (Hf : forallb (fun c : N * request => N.eqb (fst c) (s_code dg)) (if called then [(s_code dg, req)] else []) = true).
      { destruct called; cbn [forallb fst andb]; rewrite ?N.eqb_refl; reflexivity. }
      rewrite Hf. cbn [negb length Nat.eqb Nat.leb].
      assert (Hl : length (if called then [(s_code dg, req)] else []) = if inst then 1 else 0)
        by (rewrite Hinst; destruct inst; reflexivity).
      rewrite Hl. rewrite Nat.eqb_refl, Nat.leb_refl. cbn [andb negb]. rewrite andb_false_r.
      replace (Nat.leb (if inst then 1 else 0) 1) with true by (destruct inst; reflexivity).
      cbn [negb resps_ok]. unfold resp_ok.
      replace (Nat.leb 20 (length resp)) with true by (symmetry; apply Nat.leb_le; exact H20).
      rewrite Hid, N.eqb_refl. cbn [negb].
      replace (N.eqb (nth 0 resp 0%N) (s_code dg + 1) || N.eqb (nth 0 resp 0%N) (s_code dg + 2)) with true
        by (symmetry; apply orb_true_iff; destruct Hcode as [X|X]; [left|right]; apply N.eqb_eq; exact X).
      rewrite Hlen, Nat.eqb_refl. cbn [negb].
      rewrite <- Hauth. rewrite (proj2 (bytes_eqb_eq _ _) eq_refl). reflexivity.
  Qed.

  (* the response the Model emits, judged as a byte string by the Spec's wire-level predicate *)
  Lemma response_wire stale dg c called req resp :
    proc true stale dg = Handle c called req resp ->
    (N.of_nat (length resp) < 65536)%N -> resp_wire_ok H secret dg resp = true.
  Proof.
    intros E G. destruct (response_props stale dg c called req resp E)
      as (Hc & _ & _ & Hid & Hcode & Hauth & Hlen & H20).
    specialize (Hlen G). unfold resp_wire_ok. subst c.
    replace (Nat.leb 20 (length resp)) with true by (symmetry; apply Nat.leb_le; exact H20).
    rewrite Hid, N.eqb_refl.
    replace (N.eqb (nth 0 resp 0%N) (s_code dg + 1) || N.eqb (nth 0 resp 0%N) (s_code dg + 2)) with true
      by (symmetry; apply orb_true_iff; destruct Hcode as [X|X]; [left|right]; apply N.eqb_eq; exact X).
    rewrite Hlen, Nat.eqb_refl, <- Hauth. cbn [andb]. apply bytes_eqb_eq. reflexivity.
  Qed.
End Clauses.

Lemma wellformed_attributes_parse dg : s_wf dg = true -> exists a, attrs_parse (s_attrs dg) = POk a.
Proof. exact (wf_parses (fun _ _ => coa_default) (fun x => x) dg). Qed.

(* witness for the tree before the fix: 20 zero-ish bytes with Length field 19 *)
Definition k15a_witness : bytes := [43; 1; 0; 19; 0;0;0;0;0;0;0;0;0;0;0;0;0;0;0;0]%N.
Lemma unfixed_panics_on_witness : forall secret cs ds handler H stale,
  coa_process false secret cs ds handler H stale k15a_witness = Panic.
Proof. intros. apply unfixed_panic_iff. reflexivity. Qed.

(* non-vacuity: with the constant-zero digest, a 20-byte Disconnect-Request with zero authenticator is acted on *)
Definition ex_dg : bytes := [40; 7; 0; 20; 0;0;0;0;0;0;0;0;0;0;0;0;0;0;0;0]%N.
Lemma ex_acted_on : acted_on [115%N] (fun _ => []) ex_dg.
Proof. unfold acted_on. repeat split; try reflexivity. exists []. reflexivity. Qed.
Lemma ex_not_acted_on : ~ acted_on [115%N] (fun _ => [1%N]) ex_dg.
Proof. unfold acted_on. intros (_ & X & _). vm_compute in X. discriminate. Qed.
