(* Lemmas for C15 (Model/Coa.v). *)
From Coq Require Import ZArith NArith List Bool Lia ZifyN ZifyNat ZifyBool.
From Verif Require Import Base.Word Model.Coa Model.CoaSpec.
Import ListNotations.
Local Open Scope N_scope.

Lemma short_datagram_dropped : forall fixed secret cs ds handler H stale dg,
  (length dg < 20)%nat -> coa_process fixed secret cs ds handler H stale dg = Drop.
Proof.
  intros. unfold coa_process, coa_prog, loop_body.
  assert (E : Nat.ltb (recv_n dg) 20 = true).
  { apply Nat.ltb_lt. unfold recv_n, BUFSZ. lia. }
  rewrite E. reflexivity.
Qed.
