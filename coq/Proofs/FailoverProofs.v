(* Proofs for C14 (Model/Failover.v against the monitor Model/FailoverSpec.v).
   Method: the monitor's state is a projection [abs] of the Model's state ([snext_abs]); each clause
   is a boolean on (monitor state, event, observation); per-step lemmas show it false from every
   state satisfying a small invariant, and [monitor_gen] lifts them to all event lists. *)
From Coq Require Import ZArith NArith List Bool Lia ZifyN ZifyNat ZifyBool.
From Verif Require Import Base.Check Model.HealthHyst Model.Failover Model.FailoverSpec.
Import ListNotations.
Local Open Scope N_scope.

Definition xabs (c : config) (x : exec) : kind * role :=
  (x_kind x, match x_kind x with FO => Active | FB => c_orig c end).
Definition abs (c : config) (s : state) : sstate :=
  mkSS (now s) (healthy s) (h_cf s) (h_cs s) (healthy s) (since s) (role_ s) (map (xabs c) (inflight s)).
Definition nxt (c : config) (s : state) (e : ev) : state := fst (fst (step c s e)).
Definition obs (c : config) (s : state) (e : ev) : out := snd (fst (step c s e)).

Lemma map_remove_nth {A B} (f : A -> B) : forall i l, map f (remove_nth i l) = remove_nth i (map f l).
Proof. induction i; destruct l; cbn; auto. now rewrite IHi. Qed.

Ltac dm := match goal with
  | |- context [match ?x with _ => _ end] =>
      lazymatch x with context [match _ with _ => _ end] => fail | _ => destruct x eqn:? end
  end.
Ltac rwb := repeat match goal with H : (_ <=? _) = _ |- _ => rewrite H end.
Ltac unf := unfold step_core, health_ev, goes_down, goes_up, deliver_down, deliver_up, fo_start, fb_start, finish, set_fo, set_fb, set_st, stop.

Lemma remove_nth_none {A} : forall i (l : list A), nth_error l i = None -> remove_nth i l = l.
Proof. induction i; destruct l; cbn; intros; try congruence. f_equal; auto. Qed.

Lemma snext_abs : forall c s e, snext c (abs c s) e (obs c s e) = abs c (nxt c s e).
Proof.
  intros c s e. unfold obs, nxt, step.
  destruct s as [r st0 h hcf hcs nw fo0 fb0 foz fbz infl ni nc nx nf sn].
  destruct h, e; unf; cbn.
  all: repeat (dm; cbn); unfold abs, snext, shyst, hyst_step; cbn; rwb; cbn; rewrite ?map_app, ?map_remove_nth; cbn; try reflexivity.
  all: rewrite remove_nth_none; auto; rewrite nth_error_map, Heqo; reflexivity.
Qed.

Lemma has_kind_abs c k l : has_kind k (map (xabs c) l) = existsb (fun x => kind_eqb (x_kind x) k) l.
Proof. unfold has_kind. induction l; cbn; auto. now rewrite IHl. Qed.

(* ---------- clause 0 and 1: hold at every step from every state ---------- *)
Lemma returned_abs c s e :
  returned (abs c s) e = match e with
                         | CbReturn i true => option_map (xabs c) (nth_error (inflight s) (N.to_nat i))
                         | _ => None end.
Proof. destruct e; cbn; auto. destruct ok; auto. apply nth_error_map. Qed.

Lemma role_eqb_refl r : role_eqb r r = true. Proof. destruct r; reflexivity. Qed.
Lemma role_eqb_eq a b : role_eqb a b = true <-> a = b.
Proof. destruct a, b; cbn; split; congruence. Qed.

Ltac start s e :=
  destruct s as [r st0 h hcf hcs nw fo0 fb0 foz fbz infl ni nc nx nf sn];
  destruct e; unf; cbn.
Ltac go := repeat (dm; cbn in * ); rewrite ?role_eqb_refl in *; cbn in *.

Lemma step_v0 : forall c s e, v0 (abs c s) e (obs c s e) = false.
Proof.
  intros c s e. unfold v0. rewrite returned_abs. unfold obs, step.
  start s e.
  all: go; try reflexivity; try congruence.
  all: try (destruct r; cbn in *; congruence).
Qed.

Lemma step_v1 : forall c s e, v1 (abs c s) e (obs c s e) = false.
Proof.
  intros c s e. unfold v1, obs, step. start s e.
  all: go; try reflexivity; try congruence.
Qed.

(* clause 6: the Model's health report changes only as the hysteresis over the check results allows *)
Lemma step_v6 : forall c s e, v6 c (abs c s) e (obs c s e) = false.
Proof.
  intros c s e. unfold v6, obs, step. start s e.
  all: unfold shyst, hyst_step; cbn.
  all: destruct h; go; rwb; cbn; try reflexivity; try congruence.
Qed.

Lemma step_v9 : forall c s e, v9 e (obs c s e) = false.
Proof.
  intros c s e. unfold v9, obs, step. start s e.
  all: go; try reflexivity; try congruence.
Qed.

(* plain form of clause 0, from any state *)
Lemma role_change_needs_callback_ok : forall c s e,
  role_ (nxt c s e) <> role_ s ->
  exists i x, e = CbReturn i true /\ nth_error (inflight s) (N.to_nat i) = Some x /\
              role_ (nxt c s e) = snd (xabs c x).
Proof.
  intros c s e. unfold nxt, step, xabs. start s e.
  all: go; try congruence.
  all: intros _; eexists _, _; repeat split; try eassumption; rewrite ?Heqk; reflexivity.
Qed.

(* ---------- clause 4: never stuck ---------- *)
Definition isk (k : kind) (x : exec) : bool := kind_eqb (x_kind x) k.
Definition inv4 (s : state) : bool :=
  match st s with
  | InProgress => existsb (isk FO) (inflight s)
  | Pending => is_some (fo s)
  | FailbackPending => is_some (fb s) || existsb (isk FB) (inflight s)
  | _ => true
  end.

Lemma step_inv4 : forall c s e, inv4 s = true -> inv4 (nxt c s e) = true.
Proof.
  intros c s e. unfold inv4, nxt, step. start s e.
  all: intros H; destruct st0; cbn in *.
  all: go; rewrite ?existsb_app; cbn; rewrite ?orb_true_r; auto; try congruence.
Qed.

Lemma obs_observe c s e : exists l hv cb r, obs c s e = observe (nxt c s e) l hv cb r.
Proof.
  unfold obs, nxt, step. destruct (step_core c s e) as [[[[s1 l] cb] r] mk]. cbn. eauto.
Qed.

Lemma v4_of_inv4 c s l hv cb r : inv4 s = true -> v4 (abs c s) (observe s l hv cb r) = false.
Proof.
  unfold inv4, v4, abs, observe. cbn -[has_kind]. rewrite !has_kind_abs. fold (isk FO) (isk FB).
  destruct (st s); intros H; rewrite ?H; cbn; auto.
Qed.

(* ---------- clause 2 under the timer-atomic guard ---------- *)
Definition inv2 (c : config) (s : state) : Prop :=
  match fo s with
  | Some D => st s <> InProgress /\ (st s = Pending -> healthy s = false /\ since s + c_delay c = D)
  | None => True
  end.

Lemma step_inv2 : forall c s e, not_stale s e = true -> inv2 c s -> inv2 c (nxt c s e).
Proof.
  intros c s e. unfold inv2, nxt, step. start s e.
  all: intros G H; try discriminate G; destruct st0; cbn in *.
  all: go; try tauto; try (intuition congruence).
  all: try (split; [congruence | intros _; split; [reflexivity | lia]]).
Qed.

Lemma step_v2 : forall c s e, not_stale s e = true -> inv2 c s -> v2 c (abs c s) e (obs c s e) = false.
Proof.
  intros c s e. unfold inv2, v2, obs, step. start s e.
  all: intros G H; try discriminate G; try reflexivity.
  all: go; try reflexivity; try congruence.
  all: destruct H as [H1 H2]; try congruence; destruct (H2 eq_refl) as [H3 H4]; subst; cbn;
       apply negb_false_iff, N.leb_le; apply N.leb_le in Heqb; lia.
Qed.

(* ---------- clause 3 under the serial guard ---------- *)
Definition inv3 (c : config) (s : state) : Prop :=
  (length (inflight s) <= 1)%nat /\
  (forall x, In x (inflight s) -> x_kind x = FO -> role_ s = Standby) /\
  (st s = Pending \/ st s = InProgress -> role_ s = Standby) /\
  (role_ s = Standby -> c_orig c = Standby).

Lemma step_v3 : forall c s e, inv3 c s -> v3 (abs c s) (obs c s e) = false.
Proof.
  intros c s e (HL & HF & HP & HR). unfold v3, obs, step. revert HL HF HP HR. start s e.
  all: intros HL HF HP HR; destruct r, st0; cbn in *; go; try reflexivity; try discriminate.
  all: try (exfalso; clear - HP; intuition congruence).
  all: try (apply nth_error_In in Heqo; discriminate (HF _ Heqo Heqk)).
  all: try (rewrite (HR eq_refl) in *; discriminate).
Qed.

Lemma remove_nth_single {A} : forall i (l : list A) x,
  (length l <= 1)%nat -> nth_error l i = Some x -> remove_nth i l = [].
Proof.
  intros i l x HL H. destruct l as [|a [|b l]]; cbn in *; try lia.
  - destruct i; discriminate.
  - destruct i; cbn in *; auto. destruct i; discriminate.
Qed.

Lemma step_inv3 : forall c s e, serial_step c s e = true -> inv3 c s -> inv3 c (nxt c s e).
Proof.
  intros c s e G (HL & HF & HP & HR). unfold serial_step in G. apply Nat.leb_le in G. fold (nxt c s e) in G.
  split; [exact G|]. revert G HL HF HP HR. unfold nxt, step. start s e.
  all: intros G HL HF HP HR.
  all: destruct r, st0; cbn in *; go; try discriminate.
  all: try (rewrite (remove_nth_single _ _ _ HL Heqo)).
  all: try (split; [|split]; [assumption | assumption | assumption]).
  all: try (split; [|split]; [assumption | intuition congruence | assumption]).
  all: try (split; [|split]; [ intros x [] | intuition congruence | intuition congruence ]).
  all: try (split; [|split]; [ intros x Hx Hk; apply in_app_or in Hx; destruct Hx as [Hx|[Hx|[]]];
                               [eapply HF; eauto | subst x; try discriminate Hk; try reflexivity; apply HP; auto ]
                             | intuition congruence | assumption ]).
Qed.

(* ---------- clause 5 under the quiet-failback guard ---------- *)
Definition inv5 (s : state) : Prop := existsb (isk FB) (inflight s) = true -> healthy s = true.

Lemma existsb_remove_nth {A} (f : A -> bool) : forall i l,
  existsb f (remove_nth i l) = true -> existsb f l = true.
Proof.
  induction i; destruct l; cbn; auto; intros H.
  - rewrite H. apply orb_true_r.
  - apply orb_true_iff in H. destruct H as [H|H]; [rewrite H; auto|]. rewrite (IHi _ H). apply orb_true_r.
Qed.
Lemma nth_error_existsb {A} (f : A -> bool) : forall i l x,
  nth_error l i = Some x -> f x = true -> existsb f l = true.
Proof.
  induction i; destruct l; cbn; intros x H Hf; try discriminate.
  - injection H as ->. now rewrite Hf.
  - rewrite (IHi _ _ H Hf). apply orb_true_r.
Qed.

Lemma step_inv5 : forall c s e, quiet_fb c s e = true -> inv5 s -> inv5 (nxt c s e).
Proof.
  intros c s e. unfold inv5, quiet_fb, nxt, step. fold (isk FB). start s e.
  all: intros G H; go; rewrite ?existsb_app; cbn; rewrite ?orb_false_r; auto; try congruence.
  all: try (intros H1; apply existsb_remove_nth in H1; auto).
  all: try (apply negb_true_iff in G; congruence).
  all: intros H1; rewrite H1 in G; discriminate G.
Qed.

Lemma step_v5 : forall c s e, inv5 s -> v5 (abs c s) e (obs c s e) = false.
Proof.
  intros c s e. unfold inv5, v5. rewrite returned_abs. unfold obs, step. start s e.
  all: intros H; go; try reflexivity; try congruence.
  all: unfold xabs in *.
  all: try (rewrite Heqk1 in *; discriminate).
  all: try (rewrite Heqk0 in *; discriminate).
  all: rewrite H; [rewrite ?orb_true_r; reflexivity | eapply nth_error_existsb; eauto; unfold isk; rewrite ?Heqk1, ?Heqk0, ?Heqk; reflexivity].
Qed.

(* ---------- the monitor over whole runs ---------- *)
Lemma filter_flag (m : N -> bool) b k : filter m (flag b k) = if b && m k then [k] else [].
Proof. destruct b; cbn; auto. Qed.

Lemma filter_only k c ss e o :
  In k [0; 1; 2; 3; 4; 5; 6; 9] ->
  filter (only k) (viol c ss e o) =
  flag (match k with 0 => v0 ss e o | 1 => v1 ss e o | 2 => v2 c ss e o | 3 => v3 ss o
                | 4 => v4 (snext c ss e o) o | 5 => v5 ss e o | 6 => v6 c ss e o | _ => v9 e o end) k.
Proof.
  intros Hk. unfold viol. rewrite !filter_app, !filter_flag. unfold only.
  cbn in Hk. repeat (destruct Hk as [<- | Hk]; [cbn; rewrite ?andb_false_r, ?andb_true_r; cbn;
     rewrite ?app_nil_r; unfold flag; reflexivity|]). destruct Hk.
Qed.

Lemma monitor_gen (m : N -> bool) (P : state -> ev -> bool) (I : state -> Prop) c :
  (forall s e, I s -> P s e = true ->
               I (nxt c s e) /\ filter m (viol c (abs c s) e (obs c s e)) = []) ->
  forall evs s, I s -> run_ok P c s evs = true -> monitor m c s (abs c s) evs = None.
Proof.
  intros Hstep. induction evs as [|e tl IH]; intros s HI HG; [reflexivity|].
  cbn in HG. apply andb_true_iff in HG. destruct HG as [HP HG].
  destruct (Hstep s e HI HP) as [HI' HV].
  cbn. pose proof (snext_abs c s e) as HS. unfold obs, nxt in *.
  destruct (step c s e) as [[s' o] mk]. cbn in *. unfold accept_m. rewrite HV, HS. apply IH; auto.
Qed.

Definition always (_ : state) (_ : ev) : bool := true.
Lemma run_ok_always c s evs : run_ok always c s evs = true.
Proof. revert s; induction evs; cbn; auto. Qed.

Lemma sinit_abs c : sinit c = abs c (init c). Proof. reflexivity. Qed.

Theorem mon_role_changes_only_after_callback_ok : forall c evs,
  monitor (only 0) c (init c) (sinit c) evs = None.
Proof.
  intros. rewrite sinit_abs. apply (monitor_gen (only 0) always (fun _ => True)); auto using run_ok_always.
  intros s e _ _. split; auto. rewrite filter_only by (cbn; auto). now rewrite step_v0.
Qed.

Theorem mon_failback_only_if_partner_healthy : forall c evs,
  monitor (only 1) c (init c) (sinit c) evs = None.
Proof.
  intros. rewrite sinit_abs. apply (monitor_gen (only 1) always (fun _ => True)); auto using run_ok_always.
  intros s e _ _. split; auto. rewrite filter_only by (cbn; auto). now rewrite step_v1.
Qed.

Theorem mon_health_report_sound : forall c evs,
  monitor (only 6) c (init c) (sinit c) evs = None.
Proof.
  intros. rewrite sinit_abs. apply (monitor_gen (only 6) always (fun _ => True)); auto using run_ok_always.
  intros s e _ _. split; auto. rewrite filter_only by (cbn; tauto). now rewrite step_v6.
Qed.

Theorem mon_never_stuck : forall c evs, monitor (only 4) c (init c) (sinit c) evs = None.
Proof.
  intros. rewrite sinit_abs.
  apply (monitor_gen (only 4) always (fun s => inv4 s = true)); auto using run_ok_always.
  intros s e HI _. pose proof (step_inv4 c s e HI) as HI'. split; auto.
  rewrite filter_only by (cbn; tauto). rewrite snext_abs.
  destruct (obs_observe c s e) as (l & hv & cb & r & ->). now rewrite v4_of_inv4.
Qed.

Theorem mon_sustained_down_partial : forall c evs,
  run_ok not_stale c (init c) evs = true -> monitor (only 2) c (init c) (sinit c) evs = None.
Proof.
  intros c evs G. rewrite sinit_abs.
  apply (monitor_gen (only 2) not_stale (inv2 c)); auto; [|exact I].
  intros s e HI HP. split; [apply step_inv2; auto|].
  rewrite filter_only by (cbn; tauto). now rewrite step_v2.
Qed.

Lemma inv3_init c : inv3 c (init c).
Proof. unfold inv3, init; cbn. repeat split; auto; try tauto. intuition discriminate. Qed.

Theorem mon_one_completed_partial : forall c evs,
  run_ok (serial_step c) c (init c) evs = true -> monitor (only 3) c (init c) (sinit c) evs = None.
Proof.
  intros c evs G. rewrite sinit_abs.
  apply (monitor_gen (only 3) (serial_step c) (inv3 c)); auto using inv3_init.
  intros s e HI HP. split; [apply step_inv3; auto|].
  rewrite filter_only by (cbn; tauto). now rewrite step_v3.
Qed.

Theorem mon_failback_completes_healthy_partial : forall c evs,
  run_ok (quiet_fb c) c (init c) evs = true -> monitor (only 5) c (init c) (sinit c) evs = None.
Proof.
  intros c evs G. rewrite sinit_abs.
  apply (monitor_gen (only 5) (quiet_fb c) inv5); auto; [|discriminate].
  intros s e HI HP. split; [apply step_inv5; auto|].
  rewrite filter_only by (cbn; tauto). now rewrite step_v5.
Qed.

(* all guards together: the complete monitor (the one the harness runs) never rejects the Model *)
Definition all_guards (c : config) (s : state) (e : ev) : bool :=
  not_stale s e && serial_step c s e && quiet_fb c s e.

Theorem mon_all_partial : forall c evs,
  run_ok (all_guards c) c (init c) evs = true -> monitor (fun _ => true) c (init c) (sinit c) evs = None.
Proof.
  intros c evs G. rewrite sinit_abs.
  apply (monitor_gen (fun _ => true) (all_guards c)
           (fun s => inv4 s = true /\ inv2 c s /\ inv3 c s /\ inv5 s)); auto.
  2: { repeat split; auto using inv3_init; try exact I; cbn; try tauto; try discriminate. intuition discriminate. }
  intros s e (H4 & H2 & H3 & H5) HP. unfold all_guards in HP.
  apply andb_true_iff in HP. destruct HP as [HP G5]. apply andb_true_iff in HP. destruct HP as [G2 G3].
  pose proof (step_inv4 c s e H4) as H4'.
  split; [repeat split; auto using step_inv2, step_inv5; apply step_inv3; auto|].
  assert (E : forall l, filter (fun _ : N => true) l = l) by (induction l; cbn; congruence).
  rewrite E. unfold viol. rewrite step_v0, step_v1, step_v2, step_v3, step_v5, step_v6, step_v9 by auto.
  rewrite snext_abs. destruct (obs_observe c s e) as (l & hv & cb & r & ->). rewrite v4_of_inv4 by auto. reflexivity.
Qed.

(* the statement in terms of what the harness evaluates (Base/Check.v) *)
Lemma monitor_is_check m c : forall evs s ss i,
  monitor m c s ss evs = None ->
  accept_trace (accept_m m c) i ss
    (map (fun x => (fst (fst x), snd (fst x))) (model_trace (step c) s evs)) = (0, 0).
Proof.
  induction evs as [|e tl IH]; intros s ss i H; [reflexivity|].
  cbn in *. destruct (step c s e) as [[s' o] mk]. cbn.
  destruct (accept_m m c ss e o); [apply IH; auto | discriminate].
Qed.

(* reachable-state form of clause 4 *)
Lemma run_inv4 c : forall evs s, inv4 s = true -> inv4 (run c s evs) = true.
Proof. induction evs; cbn; auto. intros s H. apply IHevs. apply (step_inv4 c s a H). Qed.

Theorem in_progress_has_execution : forall c evs,
  st (run c (init c) evs) = InProgress ->
  exists x, In x (inflight (run c (init c) evs)) /\ x_kind x = FO.
Proof.
  intros c evs H. pose proof (run_inv4 c evs (init c) eq_refl) as HI. unfold inv4 in HI. rewrite H in HI.
  apply existsb_exists in HI. destruct HI as (x & Hx & Hk). exists x. split; auto.
  unfold isk in Hk. destruct (x_kind x); auto; discriminate.
Qed.

(* ---------- refutations (witnesses evaluated by vm_compute) ---------- *)
Definition cfg0 : config := Build_config 10 12 true Standby 1 1.
Definition w_stale : list ev := [Down; Advance 10; Up; Down; StaleFO].
Definition w_double : list ev :=
  [Down; Advance 10; Up; Down; Advance 10; FireFO; StaleFO; CbReturn 0 true; CbReturn 0 true].
Definition w_overlap : list ev :=
  [Down; Advance 10; FireFO; CbReturn 0 true; Up; Advance 12; FireFB; Down; Tick; Up; Advance 12; FireFB;
   CbReturn 0 true; Down; Advance 10; FireFO; CbReturn 0 true; Up; Down; Advance 10; FireFO;
   CbReturn 0 true; CbReturn 0 true].
Definition w_fb_down : list ev :=
  [Down; Advance 10; FireFO; CbReturn 0 true; Up; Advance 12; FireFB; Down; CbReturn 0 true].

Theorem sustained_down_refuted : exists c evs, monitor (only 2) c (init c) (sinit c) evs = Some 2.
Proof. exists cfg0, w_stale. vm_compute. reflexivity. Qed.
Theorem one_completed_refuted_stale : exists c evs, monitor (only 3) c (init c) (sinit c) evs = Some 3.
Proof. exists cfg0, w_double. vm_compute. reflexivity. Qed.
Theorem one_completed_refuted_atomic : exists c evs,
  run_ok not_stale c (init c) evs = true /\ monitor (only 3) c (init c) (sinit c) evs = Some 3.
Proof. exists cfg0, w_overlap. split; vm_compute; reflexivity. Qed.
Theorem failback_completes_healthy_refuted : exists c evs,
  run_ok not_stale c (init c) evs = true /\ monitor (only 5) c (init c) (sinit c) evs = Some 5.
Proof. exists cfg0, w_fb_down. split; vm_compute; reflexivity. Qed.

(* non-vacuity: a guarded history that promotes, fails back, and is monitored throughout *)
Definition h_ok : list ev :=
  [Down; Advance 9; Up; Down; Advance 10; FireFO; Advance 3; CbReturn 0 true; Up; Advance 12; FireFB;
   CbReturn 0 true; ForceFO; CbReturn 0 false; Down; Advance 11; FireFO; CbReturn 0 true].
Lemma h_ok_guards : run_ok (all_guards cfg0) cfg0 (init cfg0) h_ok = true /\
  role_ (run cfg0 (init cfg0) h_ok) = Active /\ n_comp (run cfg0 (init cfg0) h_ok) = 2 /\
  n_fb (run cfg0 (init cfg0) h_ok) = 1 /\ n_canc (run cfg0 (init cfg0) h_ok) = 1.
Proof. vm_compute. repeat split; reflexivity. Qed.
