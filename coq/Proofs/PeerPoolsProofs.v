(* Lemmas about Model/PeerPools.v: a cluster of PeerPool nodes, each over the free-list Model. *)
From Coq Require Import NArith List Bool Lia.
From Verif Require Import Model.PoolMap Model.PoolSpec Model.FreeList Model.Srv6Pool Model.PeerPools
  Proofs.PoolMapProofs Proofs.FreeListProofs Proofs.Srv6PoolProofs.
Import ListNotations.
Local Open Scope N_scope.

Lemma in_upd_nth {A} i (x y : A) l : In y (upd_nth i x l) -> y = x \/ In y l.
Proof.
  revert i. induction l as [|z tl IH]; intros i; destruct i as [|k]; cbn; try tauto.
  - intros [<-|H]; [left; reflexivity|right; right; exact H].
  - intros [<-|H]; [right; left; reflexivity|]. destruct (IH k H) as [->|H']; [left; reflexivity|right; right; exact H'].
Qed.

Lemma PInv_empty : PInv (finit true []).
Proof. apply PInv_init. constructor. Qed.

Lemma node_cases s i : node s i = finit true [] \/ In (node s i) (pp_nodes s).
Proof. unfold node. destruct (nth_in_or_default (N.to_nat i) (pp_nodes s) (finit true [])); [right|left]; assumption. Qed.

Definition AllInv (s : ppst) : Prop := forall f, In f (pp_nodes s) -> PInv f.

Lemma node_inv s i : AllInv s -> PInv (node s i).
Proof. intros H. destruct (node_cases s i) as [->|Hin]; [apply PInv_empty|apply H; exact Hin]. Qed.

Lemma step_alloc_next f h : fst (fst (FreeList.step f (Alloc h))) = next f (Alloc h).
Proof. reflexivity. Qed.

Lemma pstep_inv s o : AllInv s -> AllInv (pnext s o).
Proof.
  intros H. unfold pnext. destruct o as [n h|n h|n h|n|n m b]; cbn [pstep].
  - pose proof (PInv_next_alloc _ h (node_inv s (healthy_owner s n h) H)) as [HP _]. unfold next in HP.
    destruct (FreeList.step (node s (healthy_owner s n h)) (Alloc h)) as [[f' r] mk]. cbn [fst] in HP.
    destruct r; cbn [fst]; try exact H.
    intros f Hin. cbn [set_node pp_nodes] in Hin. destruct (in_upd_nth _ _ _ _ Hin) as [->|Hin']; [exact HP|apply H; exact Hin'].
  - pose proof (PInv_next_release _ h (node_inv s (healthy_owner s n h) H)) as [HP _]. unfold next in HP.
    destruct (FreeList.step (node s (healthy_owner s n h)) (Release h)) as [[f' r] mk]. cbn [fst] in HP. cbn [fst].
    intros f Hin. cbn [set_node pp_nodes] in Hin. destruct (in_upd_nth _ _ _ _ Hin) as [->|Hin']; [exact HP|apply H; exact Hin'].
  - destruct (static_owner s h =? n); [destruct (aget h (f_alloc (node s n)))|]; exact H.
  - exact H.
  - exact H.
Qed.

Lemma init_inv univs rank : Forall (@NoDup N) univs -> AllInv (pp_init univs rank).
Proof.
  intros Hall f Hin. cbn [pp_init pp_nodes] in Hin. apply in_map_iff in Hin as (u & <- & Hu).
  apply PInv_init. rewrite Forall_forall in Hall. apply Hall. exact Hu.
Qed.

(* every node's pool keeps the free-list invariant and conservation, whatever the routing did *)
Lemma prun_inv univs rank ops : Forall (@NoDup N) univs -> AllInv (prun univs rank ops).
Proof.
  intros Hall. unfold prun.
  assert (G : forall s, AllInv s -> AllInv (fold_left pnext ops s)).
  { induction ops as [|o tl IH]; intros s Hs; cbn [fold_left]; [exact Hs|]. apply IH, pstep_inv, Hs. }
  apply G, init_inv, Hall.
Qed.

(* ---------- the guard: no marker raised ---------- *)
Fixpoint pquiet_from (s : ppst) (ops : list pop) : bool :=
  match ops with
  | [] => true
  | o :: tl => match snd (pstep s o) with [] => pquiet_from (pnext s o) tl | _ => false end
  end.
Definition pquiet (univs : list (list N)) (rank : list (N * list N)) (ops : list pop) : bool :=
  pquiet_from (pp_init univs rank) ops.

(* every allocation on every node belongs to a subscriber that was told an address and has not released *)
Definition Held (s : ppst) : Prop :=
  forall f, In f (pp_nodes s) -> forall h u, aget h (f_alloc f) = Some u -> In h (pp_live s).

Lemma in_rm h x l : x <> h -> In x l -> In x (rm h l).
Proof. intros Hne Hin. unfold rm. apply filter_In. split; [exact Hin|]. apply negb_true_iff, N.eqb_neq. exact Hne. Qed.

Lemma existsb_false {A} (p : A -> bool) l : existsb p l = false -> forall x, In x l -> p x = false.
Proof.
  intros H x Hin. destruct (p x) eqn:E; [|reflexivity]. assert (existsb p l = true) by (apply existsb_exists; eauto). congruence.
Qed.

Lemma node_entries s i h u : Held s -> aget h (f_alloc (node s i)) = Some u -> In h (pp_live s).
Proof.
  intros H Hg. destruct (node_cases s i) as [E|Hin]; [rewrite E in Hg; cbn in Hg; discriminate|]. eapply H; eauto.
Qed.

Lemma pstep_held s o : AllInv s -> Held s -> snd (pstep s o) = [] -> Held (pnext s o).
Proof.
  intros HI H. unfold pnext. destruct o as [n h|n h|n h|n|n m b]; cbn [pstep].
  - set (w := healthy_owner s n h).
    pose proof (pl_alloc_props (node s w) h) as Hp. unfold pl_alloc in Hp.
    destruct (FreeList.step (node s w) (Alloc h)) as [[f' r] mk] eqn:E.
    destruct r as [u| | | | | | ]; cbn [fst snd]; intros _; try exact H.
    specialize (Hp f' (Some u) (node_inv s w HI) eq_refl). destruct Hp as (_ & _ & Hother & _).
    intros f Hin h' u' Hg. cbn [set_node pp_nodes pp_live] in *.
    destruct (N.eq_dec h' h) as [->|Hne]; [left; reflexivity|]. right. apply in_rm; [exact Hne|].
    destruct (in_upd_nth _ _ _ _ Hin) as [->|Hin'].
    + rewrite Hother in Hg by exact Hne. eapply node_entries; eauto.
    + eapply H; eauto.
  - set (w := healthy_owner s n h).
    pose proof (pl_release_props (node s w) h (node_inv s w HI)) as (_ & _ & _ & Hother & _).
    unfold pl_release in Hother.
    destruct (FreeList.step (node s w) (Release h)) as [[f' r] mk] eqn:E. cbn [fst snd] in *.
    destruct (held_any _ h) eqn:Eh; [discriminate|]. intros _.
    intros f Hin h' u' Hg. cbn [set_node pp_nodes pp_live] in *.
    destruct (N.eq_dec h' h) as [->|Hne].
    + pose proof (existsb_false _ _ Eh f Hin) as Hf. cbn beta in Hf. unfold ahas in Hf. rewrite Hg in Hf. discriminate.
    + apply in_rm; [exact Hne|]. destruct (in_upd_nth _ _ _ _ Hin) as [->|Hin'].
      * rewrite Hother in Hg by exact Hne. eapply node_entries; eauto.
      * eapply H; eauto.
  - destruct (static_owner s h =? n); [destruct (aget h (f_alloc (node s n)))|]; intros _; exact H.
  - intros _. exact H.
  - intros _. exact H.
Qed.

Lemma pquiet_held univs rank ops : Forall (@NoDup N) univs -> pquiet univs rank ops = true ->
  Held (prun univs rank ops).
Proof.
  intros Hall. unfold pquiet, prun.
  assert (G : forall s, AllInv s -> Held s -> pquiet_from s ops = true -> Held (fold_left pnext ops s)).
  { induction ops as [|o tl IH]; intros s Hi Hh Hq; cbn [fold_left]; [exact Hh|]. cbn [pquiet_from] in Hq.
    destruct (snd (pstep s o)) eqn:Em; [|discriminate].
    apply IH; [apply pstep_inv; exact Hi|apply pstep_held; assumption|exact Hq]. }
  apply G; [apply init_inv, Hall|intros f Hin h u Hg; cbn [pp_init pp_nodes] in Hin;
    apply in_map_iff in Hin as (x & <- & _); cbn in Hg; discriminate].
Qed.

(* ---------- refuted without the guard (known finding K05h, marker 508) ---------- *)
Lemma release_misrouted_refuted :
  let univs := [[11; 12]; [21; 22]] in let rank := [(1, [1; 0])] in
  let ops := [PAlloc 0 1; PHealth 0 1 false; PRelease 0 1] in
  snd (fst (pstep (prun univs rank [PAlloc 0 1; PHealth 0 1 false]) (PRelease 0 1))) = OOk /\
  pp_live (prun univs rank ops) = [] /\
  aget 1 (f_alloc (node (prun univs rank ops) 1)) = Some 21 /\
  pquiet univs rank ops = false.
Proof. vm_compute. repeat split; reflexivity. Qed.

Lemma pquiet_example :
  let univs := [[11; 12]; [21; 22]] in let rank := [(1, [1; 0]); (2, [0; 1])] in
  let ops := [PAlloc 0 1; PAlloc 1 2; PRelease 1 1; PHealth 0 1 false; PAlloc 0 1; PRelease 0 1; PHealth 0 1 true; PAlloc 1 1] in
  pquiet univs rank ops = true /\ pp_live (prun univs rank ops) = [1; 2] /\
  aget 1 (f_alloc (node (prun univs rank ops) 1)) = Some 22 /\ aget 2 (f_alloc (node (prun univs rank ops) 0)) = Some 11.
Proof. vm_compute. repeat split; reflexivity. Qed.
