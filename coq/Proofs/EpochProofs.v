(* Lemmas about Model/Epoch.v. *)
From Coq Require Import NArith ZArith List Bool Lia ZifyN ZifyNat ZifyBool.
From Verif Require Import Base.Word Model.PoolMap Model.Geometry Model.PoolSpec Model.Epoch
  Proofs.PoolMapProofs.
Import ListNotations.
Local Open Scope N_scope.

(* ---- arithmetic of the 2-bit distance ---- *)
Lemma dist_age e tg : tg <= e -> (e mod 4 + 4 - tg mod 4) mod 4 = (e - tg) mod 4.
Proof.
  intros H. pose proof (N.mod_lt e 4 ltac:(lia)). pose proof (N.mod_lt tg 4 ltac:(lia)).
  pose proof (N.div_mod e 4 ltac:(lia)). pose proof (N.div_mod tg 4 ltac:(lia)).
  set (a := e mod 4) in *. set (b := tg mod 4) in *. set (q := e / 4) in *. set (r := tg / 4) in *.
  assert (Hq : r <= q) by lia.
  destruct (N.le_gt_cases b a).
  - replace (e - tg) with ((a - b) + (q - r) * 4) by lia. rewrite N.mod_add by lia.
    replace (a + 4 - b) with ((a - b) + 1 * 4) by lia. rewrite N.mod_add by lia. reflexivity.
  - assert (r < q) by lia.
    replace (e - tg) with ((a + 4 - b) + (q - r - 1) * 4) by lia. rewrite N.mod_add by lia. reflexivity.
Qed.

Lemma gen_minus2 e : 2 <= e -> (e mod 4 + 2) mod 4 = (e - 2) mod 4.
Proof.
  intros H. rewrite N.add_mod_idemp_l by lia. replace (e + 2) with ((e - 2) + 1 * 4) by lia.
  rewrite N.mod_add by lia. reflexivity.
Qed.

Lemma scanFP_some p ok i j : scanFP p ok i = Some j -> i <= j /\ j < i + Npos p /\ ok j = true.
Proof.
  revert i. induction p as [q IH|q IH|]; intros i; cbn [scanFP].
  - destruct (ok i) eqn:E.
    + intros [= <-]. repeat split; [lia|lia|exact E].
    + destruct (scanFP q ok (i + 1)) eqn:E1.
      * intros [= <-]. apply IH in E1. lia.
      * intros H. apply IH in H. lia.
  - destruct (scanFP q ok i) eqn:E1.
    + intros [= <-]. apply IH in E1. lia.
    + intros H. apply IH in H. lia.
  - destruct (ok i) eqn:E; [|discriminate]. intros [= <-]. repeat split; [lia|lia|exact E].
Qed.

Lemma scanFP_none p ok i : scanFP p ok i = None -> forall k, i <= k -> k < i + Npos p -> ok k = false.
Proof.
  revert i. induction p as [q IH|q IH|]; intros i; cbn [scanFP].
  - destruct (ok i) eqn:E; [discriminate|].
    destruct (scanFP q ok (i + 1)) eqn:E1; [discriminate|]. intros H k Hk1 Hk2.
    destruct (N.eq_dec k i) as [->|Hne]; [exact E|].
    destruct (N.lt_ge_cases k (i + 1 + Npos q)) as [Hlt|Hge].
    + apply (IH _ E1); lia.
    + apply (IH _ H); lia.
  - destruct (scanFP q ok i) eqn:E1; [discriminate|]. intros H k Hk1 Hk2.
    destruct (N.lt_ge_cases k (i + Npos q)) as [Hlt|Hge].
    + apply (IH _ E1); lia.
    + apply (IH _ H); lia.
  - destruct (ok i) eqn:E; [discriminate|]. intros _ k Hk1 Hk2. assert (k = i) by lia. subst. exact E.
Qed.

Lemma scanF_some n ok i j : scanF n ok i = Some j -> i <= j /\ j < i + n /\ ok j = true.
Proof. destruct n; cbn; [discriminate|apply scanFP_some]. Qed.
Lemma scanF_none n ok i : scanF n ok i = None -> forall k, i <= k -> k < i + n -> ok k = false.
Proof. destruct n; cbn; [intros _ k; lia|apply scanFP_none]. Qed.

(* ---- state accessors under updates ---- *)
Lemma egen_set s i g tg j : egen (set_gen s i g tg) j = if i =? j then g else egen s j.
Proof.
  unfold egen, set_gen; cbn [e_gens]. destruct (N.eqb_spec i j) as [->|Hne].
  - rewrite aget_aset_eq. reflexivity.
  - rewrite aget_aset_ne by assumption. reflexivity.
Qed.
Lemma etg_set s i g tg j : etg (set_gen s i g tg) j = if i =? j then tg else etg s j.
Proof.
  unfold etg, set_gen; cbn [e_tgen]. destruct (N.eqb_spec i j) as [->|Hne].
  - rewrite aget_aset_eq. reflexivity.
  - rewrite aget_aset_ne by assumption. reflexivity.
Qed.
Lemma free_set s i g tg j : slot_free (set_gen s i g tg) j = if i =? j then gen_free s g else slot_free s j.
Proof. unfold slot_free. rewrite egen_set. destruct (i =? j); reflexivity. Qed.

Lemma etg_maps s sb rv hint j : etg (set_maps s sb rv hint) j = etg s j.
Proof. reflexivity. Qed.
Lemma ep_maps s sb rv hint : e_epoch (set_maps s sb rv hint) = e_epoch s.
Proof. reflexivity. Qed.
Lemma ep_gen s i g tg : e_epoch (set_gen s i g tg) = e_epoch s.
Proof. reflexivity. Qed.

Definition eage (s : estate) (i : N) : N := e_epoch s - etg s i.

Record EInv (s : estate) : Prop := {
  ei_wfs : awf (e_subs s);
  ei_wfr : awf (e_rev s);
  ei_bij : forall h i, aget h (e_subs s) = Some i <-> aget i (e_rev s) = Some h;
  ei_held : forall i h, aget i (e_rev s) = Some h ->
              usable_slot s i = true /\ i < e_total s /\ slot_free s i = false;
  ei_gen : forall i, egen s i = etg s i mod 4;
  ei_tg : forall i, etg s i <= e_epoch s;
  ei_ep : 2 <= e_epoch s;
  ei_old : e_grace s = 1 -> forall i, aget i (e_rev s) = None -> 2 <= eage s i }.

Lemma slot_free_age s i : EInv s -> slot_free s i = (grace8 s <? eage s i mod 4).
Proof.
  intros H. unfold slot_free, gen_free, cur_gen, eage. rewrite (ei_gen _ H).
  rewrite dist_age by apply (ei_tg _ H). reflexivity.
Qed.

Lemma gen_free_cur s : gen_free s (cur_gen s) = false.
Proof.
  unfold gen_free. replace (cur_gen s + 4 - cur_gen s) with 4 by lia. cbn. apply N.ltb_ge. lia.
Qed.

Lemma einit_inv base ppl pl grace : EInv (einit base ppl pl grace).
Proof.
  constructor; cbn; try constructor; try (intros; discriminate); try lia.
  all: try (intros; split; discriminate).
  all: try (intros _ i _; unfold eage, etg; cbn; lia).
Qed.

(* touching a held slot (Allocate by its holder, Renew) *)
Lemma inv_touch s h i : EInv s -> aget h (e_subs s) = Some i -> EInv (set_gen s i (cur_gen s) (e_epoch s)).
Proof.
  intros H Hh. pose proof (proj1 (ei_bij _ H h i) Hh) as Hr.
  constructor; cbn [set_gen e_subs e_rev e_epoch e_total e_grace]; try apply H.
  - intros j h' Hj. destruct (ei_held _ H j h' Hj) as (Hu & Hlt & Hf). repeat split; try assumption.
    rewrite free_set. destruct (i =? j); [apply gen_free_cur|exact Hf].
  - intros j. rewrite egen_set, etg_set. destruct (i =? j); [reflexivity|apply H].
  - intros j. rewrite etg_set. destruct (i =? j); [lia|apply H].
  - intros Hg j Hj. unfold eage. rewrite etg_set. destruct (N.eqb_spec i j) as [->|Hne]; [congruence|].
    apply (ei_old _ H Hg j Hj).
Qed.

Lemma inv_add s h i hint : EInv s -> aget h (e_subs s) = None -> usable_slot s i = true -> i < e_total s ->
  slot_free s i = true ->
  EInv (set_maps (set_gen s i (cur_gen s) (e_epoch s)) (aset h i (e_subs s)) (aset i h (e_rev s)) hint).
Proof.
  intros H Hh Hu Hlt Hfree.
  assert (Hri : aget i (e_rev s) = None).
  { destruct (aget i (e_rev s)) as [x|] eqn:E; [|reflexivity].
    destruct (ei_held _ H i x E) as (_ & _ & Hf). congruence. }
  constructor; cbn [set_maps set_gen e_subs e_rev e_epoch e_total e_grace e_gens e_tgen]; try apply H.
  - apply awf_aset, H.
  - apply awf_aset, H.
  - intros h0 i0. destruct (N.eq_dec h h0) as [<-|Hne]; destruct (N.eq_dec i i0) as [<-|Hni].
    + rewrite !aget_aset_eq. tauto.
    + rewrite aget_aset_eq, aget_aset_ne by assumption. split; [intros [= ?]; contradiction|].
      intros Hx. apply (ei_bij _ H) in Hx. congruence.
    + rewrite aget_aset_eq, aget_aset_ne by assumption. split; [|intros [= ?]; contradiction].
      intros Hx. apply (ei_bij _ H) in Hx. congruence.
    + rewrite !aget_aset_ne by assumption. apply H.
  - intros j h'. change (slot_free _ j) with (slot_free (set_gen s i (cur_gen s) (e_epoch s)) j).
    change (usable_slot _ j) with (usable_slot s j). rewrite free_set.
    destruct (N.eqb_spec i j) as [<-|Hne].
    + intros _. repeat split; try assumption. apply gen_free_cur.
    + rewrite aget_aset_ne by assumption. apply H.
  - intros j. change (egen _ j) with (egen (set_gen s i (cur_gen s) (e_epoch s)) j).
    change (etg _ j) with (etg (set_gen s i (cur_gen s) (e_epoch s)) j).
    rewrite egen_set, etg_set. destruct (i =? j); [reflexivity|apply H].
  - intros j. change (etg _ j) with (etg (set_gen s i (cur_gen s) (e_epoch s)) j).
    rewrite etg_set. destruct (i =? j); [lia|apply H].
  - intros Hg j. unfold eage. cbn [e_epoch set_maps set_gen]. change (etg _ j) with (etg (set_gen s i (cur_gen s) (e_epoch s)) j).
    rewrite etg_set. destruct (N.eqb_spec i j) as [<-|Hne]; [rewrite aget_aset_eq; discriminate|].
    rewrite aget_aset_ne by assumption. apply (ei_old _ H Hg j).
Qed.

Lemma inv_release s h i hint : EInv s -> aget h (e_subs s) = Some i ->
  EInv (set_maps (set_gen s i ((cur_gen s + 2) mod 4) (e_epoch s - 2)) (adel h (e_subs s)) (adel i (e_rev s)) hint).
Proof.
  intros H Hh. pose proof (proj1 (ei_bij _ H h i) Hh) as Hr. pose proof (ei_ep _ H) as Hep.
  constructor; cbn [set_maps set_gen e_subs e_rev e_epoch e_total e_grace e_gens e_tgen]; try apply H.
  - apply awf_adel, H.
  - apply awf_adel, H.
  - intros h0 i0. destruct (N.eq_dec h h0) as [<-|Hne]; destruct (N.eq_dec i i0) as [<-|Hni].
    + rewrite !aget_adel_eq. split; discriminate.
    + rewrite aget_adel_eq, aget_adel_ne by assumption. split; [discriminate|].
      intros Hx. apply (ei_bij _ H) in Hx. congruence.
    + rewrite aget_adel_eq, aget_adel_ne by assumption. split; [|discriminate].
      intros Hx. apply (ei_bij _ H) in Hx. congruence.
    + rewrite !aget_adel_ne by assumption. apply H.
  - intros j h'. change (slot_free _ j) with (slot_free (set_gen s i ((cur_gen s + 2) mod 4) (e_epoch s - 2)) j).
    change (usable_slot _ j) with (usable_slot s j). rewrite free_set.
    destruct (N.eqb_spec i j) as [<-|Hne]; [rewrite aget_adel_eq; discriminate|].
    rewrite aget_adel_ne by assumption. apply H.
  - intros j. change (egen _ j) with (egen (set_gen s i ((cur_gen s + 2) mod 4) (e_epoch s - 2)) j).
    change (etg _ j) with (etg (set_gen s i ((cur_gen s + 2) mod 4) (e_epoch s - 2)) j).
    rewrite egen_set, etg_set. destruct (i =? j); [|apply H].
    unfold cur_gen. apply gen_minus2. exact Hep.
  - intros j. change (etg _ j) with (etg (set_gen s i ((cur_gen s + 2) mod 4) (e_epoch s - 2)) j).
    rewrite etg_set. destruct (i =? j); [lia|apply H].
  - intros Hg j. unfold eage. cbn [e_epoch set_maps set_gen].
    change (etg _ j) with (etg (set_gen s i ((cur_gen s + 2) mod 4) (e_epoch s - 2)) j).
    rewrite etg_set. destruct (N.eqb_spec i j) as [<-|Hne]; [intros _; lia|].
    rewrite aget_adel_ne by assumption. apply (ei_old _ H Hg j).
Qed.

Lemma inv_advance s : EInv s -> EInv (cleanup (bump s)).
Proof.
  intros H. set (s1 := bump s).
  assert (Hfree1 : forall i, slot_free (cleanup s1) i = slot_free s1 i) by reflexivity.
  constructor; unfold cleanup; cbn [set_maps e_subs e_rev e_epoch e_total e_grace e_gens e_tgen].
  - apply awf_filter. apply H.
  - apply awf_filter. apply H.
  - intros h i. change (e_subs s1) with (e_subs s). change (e_rev s1) with (e_rev s).
    rewrite (aget_filter_val (fun v => negb (slot_free s1 v))) by apply H.
    rewrite (aget_filter_key (fun k => negb (slot_free s1 k))).
    split.
    + destruct (aget h (e_subs s)) as [v|] eqn:E; [|discriminate].
      destruct (slot_free s1 v) eqn:Ef; cbn [negb]; [discriminate|]. intros [= <-]. rewrite Ef. cbn [negb].
      apply H. exact E.
    + destruct (slot_free s1 i) eqn:Ef; cbn [negb]; [discriminate|]. intros Hr. apply (ei_bij _ H) in Hr.
      rewrite Hr, Ef. reflexivity.
  - intros i h. change (e_rev s1) with (e_rev s).
    rewrite (aget_filter_key (fun k => negb (slot_free s1 k))).
    destruct (slot_free s1 i) eqn:Ef; cbn [negb]; [discriminate|]. intros Hr.
    destruct (ei_held _ H i h Hr) as (Hu & Hlt & _). repeat split; assumption.
  - intros i. apply H.
  - intros i. change (etg _ i) with (etg s i). pose proof (ei_tg _ H i). cbn. lia.
  - pose proof (ei_ep _ H). cbn. lia.
  - intros Hg i. change (e_rev s1) with (e_rev s).
    rewrite (aget_filter_key (fun k => negb (slot_free s1 k))).
    unfold eage. change (etg _ i) with (etg s i). cbn [e_epoch s1 bump].
    pose proof (ei_tg _ H i) as Htg.
    destruct (slot_free s1 i) eqn:Ef; cbn [negb].
    + (* the slot is free at the new epoch: its distance exceeds grace = 1 *)
      intros _. revert Ef. unfold slot_free, gen_free, cur_gen, grace8. change (egen s1 i) with (egen s i).
      rewrite (ei_gen _ H). change (e_epoch s1) with (e_epoch s + 1). cbn [e_grace s1 bump].
      rewrite dist_age by lia. assert (Hg' : e_grace s = 1) by exact Hg. rewrite Hg'.
      intros Hd. apply N.ltb_lt in Hd. change (1 mod 256) with 1 in Hd.
      pose proof (N.mod_le (e_epoch s + 1 - etg s i) 4 ltac:(lia)).
      change (2 <= e_epoch s + 1 - etg s i). lia.
    + intros Hr. assert (Hg' : e_grace s = 1) by exact Hg. pose proof (ei_old _ H Hg' i Hr) as Ho.
      unfold eage in Ho. change (2 <= e_epoch s + 1 - etg s i). lia.
Qed.

Definition next (s : estate) (o : op) : estate := fst (fst (step s o)).

Lemma slot_at_lt s k : 0 < e_total s -> slot_at s k < e_total s.
Proof. intros H. unfold slot_at. apply N.mod_lt. lia. Qed.

Lemma find_slot_some s i : find_slot s = Some i ->
  usable_slot s i = true /\ slot_free s i = true /\ i < e_total s.
Proof.
  unfold find_slot. destruct (scanF _ _ 0) as [k|] eqn:E; [|discriminate]. intros [= <-].
  apply scanF_some in E as (_ & Hk & Hok). apply andb_prop in Hok as [Hu Hf].
  repeat split; try assumption. apply slot_at_lt. lia.
Qed.

Lemma step_inv s o : EInv s -> EInv (next s o).
Proof.
  intros H. unfold next.
  destruct o as [h|h a pl|h a pl|h|a pl|h| |h|a pl|a pl| | ]; cbn [step]; try exact H.
  - destruct (aget h (e_subs s)) as [i|] eqn:Eh; cbn [fst].
    + eapply inv_touch; eauto.
    + destruct (find_slot s) as [i|] eqn:Ef; cbn [fst]; [|exact H].
      apply find_slot_some in Ef as (Hu & Hf & Hlt). apply inv_add; assumption.
  - destruct (aget h (e_subs s)) as [i|] eqn:Eh; cbn [fst]; [|exact H]. apply inv_release; assumption.
  - destruct (aget h (e_subs s)) as [i|] eqn:Eh; cbn [fst]; [|exact H]. eapply inv_touch; eauto.
  - cbn [fst]. apply inv_advance. exact H.
  - destruct (aget h (e_subs s)) as [i|]; [destruct (slot_free s i)|]; exact H.
  - destruct (eindex s a) as [i|]; [|exact H]. destruct (aget i (e_rev s)); [destruct (slot_free s i)|]; exact H.
Qed.

Definition erun (base ppl pl grace : N) (ops : list op) : estate := fold_left next ops (einit base ppl pl grace).

Lemma fold_inv ops : forall s, EInv s -> EInv (fold_left next ops s).
Proof. induction ops as [|o tl IH]; intros s Hs; cbn [fold_left]; [exact Hs|]. apply IH, step_inv, Hs. Qed.

Lemma erun_inv base ppl pl grace ops : EInv (erun base ppl pl grace ops).
Proof. apply fold_inv, einit_inv. Qed.

(* ================= property lemmas ================= *)
Definition outp (s : estate) (o : op) : out := snd (fst (step s o)).
Definition is_adv (o : op) : bool := match o with Advance => true | _ => false end.
Definition is_rel (h : N) (o : op) : bool := match o with Release h' => h' =? h | _ => false end.
Definition advances (l : list op) : N := N.of_nat (length (filter is_adv l)).

Lemma epoch_unique s h1 h2 i : EInv s -> aget h1 (e_subs s) = Some i -> aget h2 (e_subs s) = Some i -> h1 = h2.
Proof. intros H H1 H2. apply (ei_bij _ H) in H1, H2. congruence. Qed.

Lemma epoch_held_in_range s h i : EInv s -> e_total s < W64 -> aget h (e_subs s) = Some i ->
  0 < i /\ i + 1 < e_total s.
Proof.
  intros H Ht Hh. apply (ei_bij _ H) in Hh. destruct (ei_held _ H i h Hh) as (Hu & Hlt & _).
  unfold usable_slot in Hu. apply andb_prop in Hu as [H0 H1].
  destruct (N.eqb_spec i 0); [discriminate|]. destruct (N.eqb_spec i (sub64 (e_total s) 1)) as [|Hne]; [discriminate|].
  split; [lia|]. unfold sub64 in Hne. rewrite !wrap64_mod in Hne.
  destruct (N.eq_dec (i + 1) (e_total s)) as [Heq|]; [|lia].
  exfalso. apply Hne. change (1 mod W64) with 1. replace (e_total s + W64 - 1) with (i + 1 * W64) by lia.
  rewrite N.mod_add by discriminate. symmetry. apply N.mod_small. lia.
Qed.

Lemma next_cfg s o : e_total (next s o) = e_total s /\ e_grace (next s o) = e_grace s /\ e_base (next s o) = e_base s.
Proof.
  unfold next. destruct o as [h|h a pl|h a pl|h|a pl|h| |h|a pl|a pl| | ]; cbn [step]; try (repeat split; reflexivity);
  repeat match goal with
         | |- context [match ?x with _ => _ end] => destruct x
         end; repeat split; reflexivity.
Qed.

Lemma fold_cfg ops : forall s, e_total (fold_left next ops s) = e_total s /\ e_grace (fold_left next ops s) = e_grace s
  /\ e_base (fold_left next ops s) = e_base s.
Proof.
  induction ops as [|o tl IH]; intros s; cbn [fold_left]; [repeat split; reflexivity|].
  destruct (IH (next s o)) as (A & B & C). destruct (next_cfg s o) as (A' & B' & C').
  rewrite A, B, C. repeat split; assumption.
Qed.

Lemma erun_total_lt base ppl pl grace ops : e_total (erun base ppl pl grace ops) < W64.
Proof. unfold erun. destruct (fold_cfg ops (einit base ppl pl grace)) as (A & _). rewrite A. unfold einit; cbn [e_total]. apply wrap64_lt. Qed.

(* stability: a holder that asks again gets the same unit, keeps it, and its lease is renewed *)
Lemma epoch_stable s h i : EInv s -> aget h (e_subs s) = Some i ->
  outp s (Alloc h) = OUnit (eunit s i) /\ outp s (Lookup h) = OUnit (eunit s i) /\
  aget h (e_subs (next s (Alloc h))) = Some i /\ eage (next s (Alloc h)) i = 0.
Proof.
  intros H Hh. pose proof (proj1 (ei_bij _ H h i) Hh) as Hr. destruct (ei_held _ H i h Hr) as (_ & _ & Hf).
  unfold outp, next. cbn [step]. rewrite Hh, Hf. cbn [fst snd set_gen e_subs]. repeat split; try assumption.
  unfold eage. rewrite etg_set, N.eqb_refl. cbn [e_epoch set_gen]. lia.
Qed.

Lemma epoch_alloc_answer s h u : EInv s -> outp s (Alloc h) = OUnit u ->
  exists i, aget h (e_subs (next s (Alloc h))) = Some i /\ u = eunit s i.
Proof.
  intros H. unfold outp, next. cbn [step]. destruct (aget h (e_subs s)) as [i|] eqn:Eh.
  - cbn [fst snd]. intros [= <-]. exists i. split; [exact Eh|reflexivity].
  - destruct (find_slot s) as [i|]; cbn [fst snd]; [|discriminate]. intros [= <-]. exists i.
    cbn [set_maps e_subs]. rewrite aget_aset_eq. split; reflexivity.
Qed.

(* one step keeps a lease whose age stays within grace *)
Lemma keep_step s o h i : EInv s -> aget h (e_subs s) = Some i -> e_grace s < 256 ->
  is_rel h o = false -> eage s i + (if is_adv o then 1 else 0) <= e_grace s ->
  aget h (e_subs (next s o)) = Some i /\ eage (next s o) i <= eage s i + (if is_adv o then 1 else 0).
Proof.
  intros H Hh Hg Hrel Hage. pose proof (proj1 (ei_bij _ H h i) Hh) as Hr.
  destruct (ei_held _ H i h Hr) as (_ & _ & Hf).
  unfold next. destruct o as [h'|h' a pl|h' a pl|h'|a pl|h'| |h'|a pl|a pl| | ]; cbn [step is_adv is_rel] in *;
    try (cbn [fst]; split; [exact Hh|lia]).
  - (* Alloc h' *)
    destruct (aget h' (e_subs s)) as [i'|] eqn:Eh'; cbn [fst].
    + cbn [set_gen e_subs]. split; [exact Hh|]. unfold eage. rewrite etg_set. cbn [e_epoch set_gen].
      destruct (i' =? i); unfold eage in *; lia.
    + destruct (find_slot s) as [i'|] eqn:Ef; cbn [fst]; [|split; [exact Hh|lia]].
      apply find_slot_some in Ef as (_ & Hf' & _).
      assert (Hne : i' <> i) by (intros ->; congruence).
      assert (Hhne : h' <> h) by (intros ->; congruence).
      cbn [set_maps e_subs]. rewrite aget_aset_ne by assumption. split; [exact Hh|].
      unfold eage. rewrite etg_maps, ep_maps, ep_gen, etg_set.
      destruct (N.eqb_spec i' i); [contradiction|]. unfold eage in *. lia.
  - (* Release h' *)
    destruct (N.eq_dec h' h) as [->|Hhne]; [rewrite N.eqb_refl in Hrel; discriminate Hrel|].
    destruct (aget h' (e_subs s)) as [i'|] eqn:Eh'; cbn [fst]; [|split; [exact Hh|lia]].
    assert (Hne : i' <> i). { intros ->. apply Hhne. eapply epoch_unique; eauto. }
    cbn [set_maps e_subs]. rewrite aget_adel_ne by assumption. split; [exact Hh|].
    unfold eage. rewrite etg_maps, ep_maps, ep_gen, etg_set.
    destruct (N.eqb_spec i' i); [contradiction|]. unfold eage in *. lia.
  - (* Renew h' *)
    destruct (aget h' (e_subs s)) as [i'|] eqn:Eh'; cbn [fst]; [|split; [exact Hh|lia]].
    cbn [set_gen e_subs]. split; [exact Hh|]. unfold eage. rewrite etg_set. cbn [e_epoch set_gen].
    destruct (i' =? i); unfold eage in *; lia.
  - (* Advance *)
    cbn [fst]. unfold cleanup. cbn [set_maps e_subs]. change (e_subs (bump s)) with (e_subs s).
    rewrite (aget_filter_val (fun v => negb (slot_free (bump s) v))) by apply H. rewrite Hh.
    assert (Hnf : slot_free (bump s) i = false).
    { unfold slot_free, gen_free, cur_gen, grace8. change (egen (bump s) i) with (egen s i).
      rewrite (ei_gen _ H). cbn [bump e_epoch e_grace]. pose proof (ei_tg _ H i).
      rewrite dist_age by lia. rewrite (N.mod_small (e_grace s)) by lia.
      apply N.ltb_ge. unfold eage in Hage.
      pose proof (N.mod_le (e_epoch s + 1 - etg s i) 4 ltac:(lia)). lia. }
    rewrite Hnf. cbn [negb]. split; [reflexivity|].
    unfold eage. cbn [set_maps e_epoch bump]. change (etg _ i) with (etg s i).
    pose proof (ei_tg _ H i). lia.
  - (* Lookup *) destruct (aget h' (e_subs s)) as [i'|]; [destruct (slot_free s i')|]; cbn [fst]; split; try exact Hh; lia.
  - (* LookupUnit *)
    destruct (eindex s a) as [i'|]; [|cbn [fst]; split; [exact Hh|lia]].
    destruct (aget i' (e_rev s)); [destruct (slot_free s i')|]; cbn [fst]; split; try exact Hh; lia.
Qed.

(* a lease is not reclaimed while it is renewed within grace: after any operations containing at most
   grace - age AdvanceEpoch steps (and no Release by the holder itself) the holder still has its slot *)
Lemma keep_fold more : forall s h i, EInv s -> aget h (e_subs s) = Some i -> e_grace s < 256 ->
  forallb (fun o => negb (is_rel h o)) more = true -> eage s i + advances more <= e_grace s ->
  aget h (e_subs (fold_left next more s)) = Some i.
Proof.
  induction more as [|o tl IH]; intros s h i H Hh Hg Hrel Hage; cbn [fold_left]; [exact Hh|].
  cbn [forallb] in Hrel. apply andb_prop in Hrel as [Hr1 Hr2]. apply negb_true_iff in Hr1.
  assert (Hadv : advances (o :: tl) = (if is_adv o then 1 else 0) + advances tl).
  { unfold advances. cbn [filter]. destruct (is_adv o); cbn [length]; lia. }
  rewrite Hadv in Hage.
  destruct (keep_step s o h i H Hh Hg Hr1 ltac:(lia)) as [Hk Ha].
  destruct (next_cfg s o) as (_ & Hgr & _).
  apply IH; [apply step_inv; exact H|exact Hk|rewrite Hgr; exact Hg|exact Hr2|rewrite Hgr; lia].
Qed.

Lemma epoch_renew_protects base ppl pl grace ops h i more :
  let s := erun base ppl pl grace ops in
  aget h (e_subs s) = Some i -> e_grace s < 256 ->
  forallb (fun o => negb (is_rel h o)) more = true -> advances more <= e_grace s ->
  aget h (e_subs (erun base ppl pl grace (ops ++ Renew h :: more))) = Some i.
Proof.
  intros s Hh Hg Hrel Hadv. unfold erun. rewrite fold_left_app. cbn [fold_left]. fold (erun base ppl pl grace ops). fold s.
  pose proof (erun_inv base ppl pl grace ops) as H. fold s in H.
  assert (Hs' : next s (Renew h) = set_gen s i (cur_gen s) (e_epoch s)) by (unfold next; cbn [step]; rewrite Hh; reflexivity).
  apply keep_fold.
  - apply step_inv. exact H.
  - rewrite Hs'. exact Hh.
  - destruct (next_cfg s (Renew h)) as (_ & Hgr & _). rewrite Hgr. exact Hg.
  - exact Hrel.
  - destruct (next_cfg s (Renew h)) as (_ & Hgr & _). rewrite Hgr. rewrite Hs'.
    unfold eage. rewrite etg_set, N.eqb_refl. cbn [set_gen e_epoch]. lia.
Qed.

(* ---- exhaustion / release under the guard "grace = 1 and no usable slot's true age has reached 4" ---- *)
Definition ages_ok (s : estate) : bool :=
  (e_grace s =? 1) &&
  match scanF (e_total s) (fun i => usable_slot s i && (4 <=? eage s i)) 0 with None => true | Some _ => false end.

Lemma slot_at_onto s i : i < e_total s -> exists k, k < e_total s /\ slot_at s k = i.
Proof.
  intros Hi. set (T := e_total s) in *. set (hm := e_hint s mod T).
  assert (Hhm : hm < T) by (apply N.mod_lt; lia).
  unfold slot_at. fold T.
  destruct (N.le_gt_cases hm i) as [Hle|Hgt].
  - exists (i - hm). split; [lia|]. rewrite <- N.add_mod_idemp_l by lia. fold hm.
    replace (hm + (i - hm)) with i by lia. apply N.mod_small. exact Hi.
  - exists (i + T - hm). split; [lia|]. rewrite <- N.add_mod_idemp_l by lia. fold hm.
    replace (hm + (i + T - hm)) with (i + 1 * T) by lia. rewrite N.mod_add by lia. apply N.mod_small. exact Hi.
Qed.

Lemma epoch_exhausted_only_if_full s h : EInv s -> ages_ok s = true ->
  outp s (Alloc h) = OErr 1 ->
  forall i, usable_slot s i = true -> i < e_total s -> exists h', aget h' (e_subs s) = Some i.
Proof.
  intros H Hok Hout i Hu Hi. apply andb_prop in Hok as [Hg Hages]. apply N.eqb_eq in Hg.
  destruct (scanF (e_total s) (fun i => usable_slot s i && (4 <=? eage s i)) 0) eqn:Ea; [discriminate|]. clear Hages.
  pose proof (scanF_none _ _ _ Ea i ltac:(lia) ltac:(lia)) as Hyoung. cbv beta in Hyoung. rewrite Hu in Hyoung.
  cbn [andb] in Hyoung. apply N.leb_gt in Hyoung. clear Ea.
  revert Hout. unfold outp. cbn [step]. destruct (aget h (e_subs s)); [discriminate|].
  unfold find_slot.
  destruct (scanF (e_total s) (fun k => let i := slot_at s k in usable_slot s i && slot_free s i) 0) as [k|] eqn:Es;
    [discriminate|]. intros _.
  destruct (slot_at_onto s i Hi) as (k & Hk & Hki).
  pose proof (scanF_none _ _ _ Es k ltac:(lia) ltac:(lia)) as Hnone. cbv beta zeta in Hnone. rewrite Hki, Hu in Hnone.
  cbn [andb] in Hnone.
  destruct (aget i (e_rev s)) as [h'|] eqn:Er; [exists h'; apply (ei_bij _ H); exact Er|]. exfalso.
  pose proof (ei_old _ H Hg i Er) as Hold.
  rewrite (slot_free_age s i H) in Hnone. unfold grace8 in Hnone. rewrite Hg in Hnone.
  rewrite (N.mod_small (eage s i) 4) in Hnone by lia. change (1 mod 256) with 1 in Hnone.
  apply N.ltb_ge in Hnone. lia.
Qed.

Lemma epoch_release_frees s h i : EInv s -> e_grace s = 1 -> aget h (e_subs s) = Some i ->
  outp s (Release h) = OOk /\ aget i (e_rev (next s (Release h))) = None /\
  slot_free (next s (Release h)) i = true /\ (forall h', aget h' (e_subs (next s (Release h))) <> Some i).
Proof.
  intros H Hg Hh. pose proof (step_inv s (Release h) H) as H'.
  unfold outp, next in *. cbn [step] in *. rewrite Hh in *. cbn [fst snd] in *.
  split; [reflexivity|]. split; [cbn [set_maps e_rev]; apply aget_adel_eq|]. split.
  - change (slot_free _ i) with (slot_free (set_gen s i ((cur_gen s + 2) mod 4) (e_epoch s - 2)) i).
    rewrite free_set, N.eqb_refl. unfold gen_free, grace8. rewrite Hg. change (1 mod 256) with 1.
    apply N.ltb_lt. pose proof (N.mod_lt (e_epoch s) 4 ltac:(lia)). unfold cur_gen.
    set (c := e_epoch s mod 4) in *.
    assert (Hc : c = 0 \/ c = 1 \/ c = 2 \/ c = 3) by lia.
    destruct Hc as [Hc|[Hc|[Hc|Hc]]]; rewrite Hc; vm_compute; reflexivity.
  - intros h' Hx. apply (ei_bij _ H') in Hx. cbn [set_maps e_rev] in Hx. rewrite aget_adel_eq in Hx. discriminate.
Qed.

(* ---- refutations (2-bit generation wrap; grace >= 2) ---- *)
Definition w_base : N := 167772160.   (* 10.0.0.0/30: usable slots 1 and 2 *)
Lemma epoch_wrap_refuted :
  let s := erun w_base 30 32 1 [Advance; Advance] in outp s (Alloc 0) = OErr 1 /\ e_subs s = [].
Proof. vm_compute. split; reflexivity. Qed.

Lemma epoch_release_then_two_advances_refuted :
  let s := erun w_base 30 32 1 [Alloc 1; Alloc 2; Release 1; Advance; Renew 2; Advance; Renew 2] in
  outp s (Alloc 3) = OErr 1 /\ asize (e_subs s) = 1 /\ aget 1 (e_subs s) = None.
Proof. vm_compute. repeat split; reflexivity. Qed.

Lemma epoch_grace3_never_free_refuted :
  forall n, let s := fold_left next (repeat Advance n) (einit w_base 30 32 3) in
  (n <= 8)%nat -> outp s (Alloc 0) = OErr 1 /\ e_subs s = [].
Proof.
  intros n; cbv zeta. do 9 (destruct n as [|n]; [intros _; vm_compute; split; reflexivity|]).
  intros H. exfalso. lia.
Qed.

Lemma epoch_stats_wrap_refuted :
  let s := erun w_base 30 32 1 [Advance; Advance] in outp s Stats = OStats 2 2 2 2 /\ e_subs s = [].
Proof. vm_compute. split; reflexivity. Qed.

(* the guard is satisfiable by a non-trivial history *)
Lemma epoch_guard_example :
  let s := erun w_base 30 32 1 [Alloc 1; Alloc 2; Advance; Renew 1; Release 2; Alloc 3; Advance; Renew 1; Renew 3] in
  ages_ok s = true /\ outp s (Alloc 4) = OErr 1 /\ asize (e_subs s) = 2.
Proof. vm_compute. repeat split; reflexivity. Qed.

(* ---- the same statements over every history [erun] (used by Props/C01.v, Props/C05.v) ---- *)
Section Run.
Variables (base ppl pl grace : N) (ops : list op).
Let s := erun base ppl pl grace ops.

Lemma epoch_unique_run h1 h2 i : aget h1 (e_subs s) = Some i -> aget h2 (e_subs s) = Some i -> h1 = h2.
Proof. apply epoch_unique, erun_inv. Qed.

Lemma epoch_in_range_run h i : aget h (e_subs s) = Some i -> 0 < i /\ i + 1 < e_total s.
Proof. apply epoch_held_in_range; [apply erun_inv|apply erun_total_lt]. Qed.

Lemma epoch_stable_run h i : aget h (e_subs s) = Some i ->
  outp s (Alloc h) = OUnit (eunit s i) /\ outp s (Lookup h) = OUnit (eunit s i) /\
  aget h (e_subs (next s (Alloc h))) = Some i /\ eage (next s (Alloc h)) i = 0.
Proof. apply epoch_stable, erun_inv. Qed.

Lemma epoch_answer_run h u : outp s (Alloc h) = OUnit u ->
  exists i, aget h (e_subs (next s (Alloc h))) = Some i /\ u = eunit s i.
Proof. apply epoch_alloc_answer, erun_inv. Qed.

Lemma epoch_exhausted_run h : ages_ok s = true -> outp s (Alloc h) = OErr 1 ->
  forall i, usable_slot s i = true -> i < e_total s -> exists h', aget h' (e_subs s) = Some i.
Proof. apply epoch_exhausted_only_if_full, erun_inv. Qed.

Lemma epoch_release_run h i : e_grace s = 1 -> aget h (e_subs s) = Some i ->
  outp s (Release h) = OOk /\ aget i (e_rev (next s (Release h))) = None /\
  slot_free (next s (Release h)) i = true /\ (forall h', aget h' (e_subs (next s (Release h))) <> Some i).
Proof. apply epoch_release_frees, erun_inv. Qed.
End Run.

(* the address of a slot is base + slot for every pool geometry ParseCIDR can produce *)
From Verif Require Import Proofs.GeometryProofs.
Lemma epoch_unit_is_addition base ppl pl grace ops i :
  ppl <= pl -> pl <= 32 -> base < 4294967296 -> base mod 2 ^ (32 - ppl) = 0 ->
  i < e_total (erun base ppl pl grace ops) ->
  eunit (erun base ppl pl grace ops) i = base + i /\ base + i < base + 2 ^ (32 - ppl).
Proof.
  intros H1 H2 Hb Hal Hi. unfold erun in *. destruct (fold_cfg ops (einit base ppl pl grace)) as (Ht & _ & Hbase).
  rewrite Ht in Hi. unfold eunit. rewrite Hbase. cbn [einit e_total e_base] in *.
  assert (Htot : wrap64 (N.shiftl 1 (pl - ppl)) = 2 ^ (pl - ppl)).
  { rewrite N.shiftl_1_l, wrap64_mod. apply N.mod_small. unfold W64. change 18446744073709551616 with (2 ^ 64).
    apply N.pow_lt_mono_r; lia. }
  rewrite Htot in Hi.
  assert (Hle : 2 ^ (pl - ppl) <= 2 ^ (32 - ppl)) by (apply N.pow_le_mono_r; lia).
  split; [|lia]. apply (nocarry_is_addition base i (32 - ppl)); try assumption; lia.
Qed.
