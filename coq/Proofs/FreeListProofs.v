(* Lemmas about Model/FreeList.v (one parametric model, five implementations). *)
From Coq Require Import NArith List Bool Lia ZifyN ZifyNat ZifyBool Permutation.
From Verif Require Import Base.Word Model.PoolMap Model.Geometry Model.PoolSpec Model.FreeList
  Proofs.PoolMapProofs.
Import ListNotations.
Local Open Scope N_scope.

Record FInv (s : fstate) : Prop := {
  fi_nd : NoDup (f_avail s);
  fi_wf : awf (f_alloc s);
  fi_inj : forall h1 h2 u, aget h1 (f_alloc s) = Some u -> aget h2 (f_alloc s) = Some u -> h1 = h2;
  fi_dis : forall h u, aget h (f_alloc s) = Some u -> ~ In u (f_avail s);
  fi_av : forall u, In u (f_avail s) -> In u (f_univ s);
  fi_al : forall h u, aget h (f_alloc s) = Some u -> In u (f_univ s) }.

(* conservation: nothing leaks (idempotent pools) *)
Definition FCons (s : fstate) : Prop :=
  forall u, In u (f_univ s) -> In u (f_avail s) \/ (exists h, aget h (f_alloc s) = Some u) \/ In u (f_unav s).

Lemma finit_inv idem univ : NoDup univ -> FInv (finit idem univ) /\ FCons (finit idem univ).
Proof.
  intros Hnd. split; [constructor; cbn; auto; try (intros; discriminate); constructor|].
  intros u Hu. left. exact Hu.
Qed.

Lemma remove_first_in x y l : In y (remove_first x l) -> In y l.
Proof.
  induction l as [|z tl IH]; cbn; [tauto|]. destruct (N.eqb_spec z x); [tauto|]. cbn. tauto.
Qed.
Lemma remove_first_nodup x l : NoDup l -> NoDup (remove_first x l).
Proof.
  induction l as [|z tl IH]; cbn; [auto|]. intros H. inversion H as [|? ? Hni Hnd]; subst.
  destruct (N.eqb_spec z x); [exact Hnd|]. constructor; [|auto]. intros Hin. apply Hni. eapply remove_first_in; eauto.
Qed.
Lemma remove_first_keep x y l : y <> x -> In y l -> In y (remove_first x l).
Proof.
  intros Hne. induction l as [|z tl IH]; cbn; [tauto|]. destruct (N.eqb_spec z x) as [->|Hzx].
  - intros [->|H]; [contradiction|exact H].
  - cbn. intros [->|H]; [left; reflexivity|right; auto].
Qed.
Lemma remove_first_gone x l : NoDup l -> ~ In x (remove_first x l).
Proof.
  induction l as [|z tl IH]; cbn; [tauto|]. intros H. inversion H as [|? ? Hni Hnd]; subst.
  destruct (N.eqb_spec z x) as [->|Hzx]; [exact Hni|]. cbn. intros [->|Hin]; [contradiction|]. apply IH; assumption.
Qed.

Lemma memN_in x l : memN x l = true <-> In x l.
Proof.
  unfold memN. rewrite existsb_exists. split.
  - intros [y [Hy He]]. apply N.eqb_eq in He. subst. exact Hy.
  - intros H. exists x. split; [exact H|apply N.eqb_refl].
Qed.

Lemma holder_of_some u m h : awf m -> holder_of u m = Some h -> aget h m = Some u.
Proof.
  intros Hw. unfold holder_of. destruct (find _ m) as [[h' u']|] eqn:E; [|discriminate]. intros [= <-].
  apply find_some in E as [Hin He]. cbn in He. apply N.eqb_eq in He. subst. apply in_aget; assumption.
Qed.
Lemma holder_of_none u m h : holder_of u m = None -> aget h m <> Some u.
Proof.
  unfold holder_of. destruct (find _ m) eqn:E; [discriminate|]. intros _ Hg.
  apply aget_in in Hg. pose proof (find_none _ _ E _ Hg) as Hn. cbn in Hn. rewrite N.eqb_refl in Hn. discriminate.
Qed.

Definition next (s : fstate) (o : op) : fstate := fst (fst (step s o)).
Definition outp (s : fstate) (o : op) : out := snd (fst (step s o)).

Ltac fsimpl := unfold fupd; cbn [f_idem f_univ f_avail f_alloc f_revm f_unav].

(* pop the head for a holder that has nothing *)
Lemma inv_pop s h u tl rv : FInv s -> f_avail s = u :: tl -> aget h (f_alloc s) = None ->
  FInv (fupd s tl (aset h u (f_alloc s)) rv (f_unav s)).
Proof.
  intros H Hav Hh. pose proof (fi_nd _ H) as Hnd. rewrite Hav in Hnd. inversion Hnd as [|? ? Hni Hnd']; subst.
  constructor; fsimpl.
  - exact Hnd'.
  - apply awf_aset, H.
  - intros h1 h2 u0. destruct (N.eq_dec h h1) as [<-|H1]; destruct (N.eq_dec h h2) as [<-|H2]; auto.
    + rewrite aget_aset_eq, aget_aset_ne by assumption. intros [= <-] Hx. exfalso.
      apply (fi_dis _ H _ _ Hx). rewrite Hav. left; reflexivity.
    + rewrite aget_aset_eq, aget_aset_ne by assumption. intros Hx [= <-]. exfalso.
      apply (fi_dis _ H _ _ Hx). rewrite Hav. left; reflexivity.
    + rewrite !aget_aset_ne by assumption. apply H.
  - intros h0 u0. destruct (N.eq_dec h h0) as [<-|Hne].
    + rewrite aget_aset_eq. intros [= <-]. exact Hni.
    + rewrite aget_aset_ne by assumption. intros Hx Hin. apply (fi_dis _ H _ _ Hx). rewrite Hav. right; exact Hin.
  - intros u0 Hin. apply (fi_av _ H). rewrite Hav. right; exact Hin.
  - intros h0 u0. destruct (N.eq_dec h h0) as [<-|Hne].
    + rewrite aget_aset_eq. intros [= <-]. apply (fi_av _ H). rewrite Hav. left; reflexivity.
    + rewrite aget_aset_ne by assumption. apply H.
Qed.

Lemma inv_push s h u rv : FInv s -> aget h (f_alloc s) = Some u ->
  FInv (fupd s (f_avail s ++ [u]) (adel h (f_alloc s)) rv (f_unav s)).
Proof.
  intros H Hh. constructor; fsimpl.
  - eapply Permutation_NoDup; [apply Permutation_cons_append|]. constructor; [exact (fi_dis _ H _ _ Hh)|apply H].
  - apply awf_adel, H.
  - intros h1 h2 u0. destruct (N.eq_dec h h1) as [<-|H1]; [rewrite aget_adel_eq; discriminate|].
    destruct (N.eq_dec h h2) as [<-|H2]; [rewrite aget_adel_eq; discriminate|].
    rewrite !aget_adel_ne by assumption. apply H.
  - intros h0 u0. destruct (N.eq_dec h h0) as [<-|Hne]; [rewrite aget_adel_eq; discriminate|].
    rewrite aget_adel_ne by assumption. intros Hx Hin. apply in_app_or in Hin as [Hin|[<-|[]]].
    + exact (fi_dis _ H _ _ Hx Hin).
    + apply Hne. symmetry. eapply (fi_inj _ H); eauto.
  - intros u0 Hin. apply in_app_or in Hin as [Hin|[<-|[]]]; [apply H; exact Hin|eapply (fi_al _ H); eauto].
  - intros h0 u0. destruct (N.eq_dec h h0) as [<-|Hne]; [rewrite aget_adel_eq; discriminate|].
    rewrite aget_adel_ne by assumption. apply H.
Qed.

Lemma inv_take s h a rv : FInv s -> In a (f_avail s) -> aget h (f_alloc s) = None ->
  FInv (fupd s (remove_first a (f_avail s)) (aset h a (f_alloc s)) rv (f_unav s)).
Proof.
  intros H Ha Hh. constructor; fsimpl.
  - apply remove_first_nodup, H.
  - apply awf_aset, H.
  - intros h1 h2 u0. destruct (N.eq_dec h h1) as [<-|H1]; destruct (N.eq_dec h h2) as [<-|H2]; auto.
    + rewrite aget_aset_eq, aget_aset_ne by assumption. intros [= <-] Hx. exfalso. exact (fi_dis _ H _ _ Hx Ha).
    + rewrite aget_aset_eq, aget_aset_ne by assumption. intros Hx [= <-]. exfalso. exact (fi_dis _ H _ _ Hx Ha).
    + rewrite !aget_aset_ne by assumption. apply H.
  - intros h0 u0. destruct (N.eq_dec h h0) as [<-|Hne].
    + rewrite aget_aset_eq. intros [= <-]. apply remove_first_gone, H.
    + rewrite aget_aset_ne by assumption. intros Hx Hin. apply (fi_dis _ H _ _ Hx). eapply remove_first_in; eauto.
  - intros u0 Hin. apply (fi_av _ H). eapply remove_first_in; eauto.
  - intros h0 u0. destruct (N.eq_dec h h0) as [<-|Hne].
    + rewrite aget_aset_eq. intros [= <-]. apply (fi_av _ H). exact Ha.
    + rewrite aget_aset_ne by assumption. apply H.
Qed.

Lemma inv_mark s a rv un : FInv s ->
  FInv (fupd s (remove_first a (f_avail s)) (filter (fun p => negb (snd p =? a)) (f_alloc s)) rv un).
Proof.
  intros H.
  assert (Hget : forall h u, aget h (filter (fun p => negb (snd p =? a)) (f_alloc s)) = Some u ->
                             aget h (f_alloc s) = Some u /\ u <> a).
  { intros h u. rewrite (aget_filter_val (fun v => negb (v =? a))) by apply H.
    destruct (aget h (f_alloc s)) as [v|]; [|discriminate]. destruct (N.eqb_spec v a); cbn [negb]; [discriminate|].
    intros [= <-]. split; [reflexivity|assumption]. }
  constructor; fsimpl.
  - apply remove_first_nodup, H.
  - apply awf_filter, H.
  - intros h1 h2 u H1 H2. apply Hget in H1 as [H1 _]. apply Hget in H2 as [H2 _]. eapply (fi_inj _ H); eauto.
  - intros h u Hx Hin. apply Hget in Hx as [Hx _]. apply (fi_dis _ H _ _ Hx). eapply remove_first_in; eauto.
  - intros u Hin. apply (fi_av _ H). eapply remove_first_in; eauto.
  - intros h u Hx. apply Hget in Hx as [Hx _]. eapply (fi_al _ H); eauto.
Qed.

Ltac triv := (split; [assumption|split; [assumption|reflexivity]]).

Lemma step_inv s o : f_idem s = true -> FInv s -> FInv (next s o) /\ f_idem (next s o) = true /\ f_univ (next s o) = f_univ s.
Proof.
  intros Hid H. unfold next.
  destruct o as [h|h a pl|h a pl|h|a pl|h| |h|a pl|a pl| | ]; cbn [step]; try triv.
  - rewrite Hid. destruct (aget h (f_alloc s)) as [u|] eqn:Eh; [triv|].
    destruct (f_avail s) as [|u tl] eqn:Ea; [triv|]. cbn [fst]. split; [|split; [assumption|reflexivity]].
    eapply inv_pop; eauto.
  - destruct (aget h (f_alloc s)) as [cur|] eqn:Eh; [triv|].
    destruct (memN a (f_avail s)) eqn:Em; [|triv]. cbn [fst]. split; [|split; [assumption|reflexivity]].
    apply inv_take; [exact H|apply memN_in; exact Em|exact Eh].
  - destruct (aget h (f_alloc s)) as [u|] eqn:Eh; [|triv]. cbn [fst]. split; [|split; [assumption|reflexivity]].
    apply inv_push; assumption.
  - destruct (holder_of a (f_alloc s)) as [h|] eqn:Eh; [|triv]. cbn [fst]. split; [|split; [assumption|reflexivity]].
    apply inv_push; [exact H|]. eapply holder_of_some; [apply H|exact Eh].
  - destruct (aget h (f_alloc s)); triv.
  - cbn [fst]. split; [|split; [assumption|reflexivity]]. apply inv_mark. exact H.
Qed.

Lemma step_cons s o : f_idem s = true -> FInv s -> FCons s -> FCons (next s o).
Proof.
  intros Hid H Hc. unfold next.
  destruct o as [h|h a pl|h a pl|h|a pl|h| |h|a pl|a pl| | ]; cbn [step]; try exact Hc.
  - rewrite Hid. destruct (aget h (f_alloc s)) as [u|] eqn:Eh; [exact Hc|].
    destruct (f_avail s) as [|u tl] eqn:Ea; [exact Hc|]. cbn [fst]. intros u0 Hu0. fsimpl.
    destruct (Hc u0 Hu0) as [Hin|[[h' Hh']|Hun]].
    + rewrite Ea in Hin. destruct Hin as [<-|Hin]; [right; left; exists h; apply aget_aset_eq|left; exact Hin].
    + right; left. exists h'. rewrite aget_aset_ne; [exact Hh'|]. intros <-. congruence.
    + right; right; exact Hun.
  - destruct (aget h (f_alloc s)) as [cur|] eqn:Eh; [exact Hc|].
    destruct (memN a (f_avail s)) eqn:Em; [|exact Hc]. cbn [fst]. intros u0 Hu0. fsimpl.
    destruct (Hc u0 Hu0) as [Hin|[[h' Hh']|Hun]].
    + destruct (N.eq_dec u0 a) as [->|Hne]; [right; left; exists h; apply aget_aset_eq|].
      left. apply remove_first_keep; assumption.
    + right; left. exists h'. rewrite aget_aset_ne; [exact Hh'|]. intros <-. congruence.
    + right; right; exact Hun.
  - destruct (aget h (f_alloc s)) as [u|] eqn:Eh; [|exact Hc]. cbn [fst]. intros u0 Hu0. fsimpl.
    destruct (Hc u0 Hu0) as [Hin|[[h' Hh']|Hun]].
    + left. apply in_or_app. left; exact Hin.
    + destruct (N.eq_dec h h') as [<-|Hne].
      * left. apply in_or_app. right. left. congruence.
      * right; left. exists h'. rewrite aget_adel_ne by assumption. exact Hh'.
    + right; right; exact Hun.
  - destruct (holder_of a (f_alloc s)) as [h|] eqn:Eh; [|exact Hc]. cbn [fst]. intros u0 Hu0. fsimpl.
    apply holder_of_some in Eh; [|apply H].
    destruct (Hc u0 Hu0) as [Hin|[[h' Hh']|Hun]].
    + left. apply in_or_app. left; exact Hin.
    + destruct (N.eq_dec h h') as [<-|Hne].
      * left. apply in_or_app. right. left. congruence.
      * right; left. exists h'. rewrite aget_adel_ne by assumption. exact Hh'.
    + right; right; exact Hun.
  - destruct (aget h (f_alloc s)); exact Hc.
  - cbn [fst]. intros u0 Hu0. fsimpl.
    destruct (N.eq_dec u0 a) as [->|Hne].
    { right; right. destruct (memN a (f_unav s)) eqn:Em; [apply memN_in; exact Em|left; reflexivity]. }
    destruct (Hc u0 Hu0) as [Hin|[[h' Hh']|Hun]].
    + left. apply remove_first_keep; assumption.
    + right; left. exists h'. rewrite (aget_filter_val (fun v => negb (v =? a))) by apply H. rewrite Hh'.
      destruct (N.eqb_spec u0 a); [contradiction|reflexivity].
    + right; right. destruct (memN a (f_unav s)); [exact Hun|right; exact Hun].
Qed.

Definition frun (univ : list N) (ops : list op) : fstate := fold_left next ops (finit true univ).

Lemma frun_all univ ops : NoDup univ ->
  FInv (frun univ ops) /\ FCons (frun univ ops) /\ f_idem (frun univ ops) = true /\ f_univ (frun univ ops) = univ.
Proof.
  intros Hnd. unfold frun.
  assert (Hgen : forall s, FInv s -> FCons s -> f_idem s = true ->
            FInv (fold_left next ops s) /\ FCons (fold_left next ops s) /\ f_idem (fold_left next ops s) = true /\
            f_univ (fold_left next ops s) = f_univ s).
  { induction ops as [|o tl IH]; intros s Hi Hc Hid; cbn [fold_left]; [split; [assumption|split; [assumption|split; [assumption|reflexivity]]]|].
    destruct (step_inv s o Hid Hi) as (Hi' & Hid' & Hu'). pose proof (step_cons s o Hid Hi Hc) as Hc'.
    destruct (IH _ Hi' Hc' Hid') as (A & B & C & D). split; [exact A|split; [exact B|split; [exact C|rewrite D; exact Hu']]]. }
  destruct (finit_inv true univ Hnd) as [Hi Hc]. apply Hgen; [exact Hi|exact Hc|reflexivity].
Qed.

(* ================= property lemmas, for every universe without duplicates and every history ========= *)
Section Props.
Variables (univ : list N) (ops : list op).
Hypothesis Hnd : NoDup univ.
Let s := frun univ ops.

Lemma freelist_unique h1 h2 u : aget h1 (f_alloc s) = Some u -> aget h2 (f_alloc s) = Some u -> h1 = h2.
Proof. destruct (frun_all univ ops Hnd) as (Hi & _). apply (fi_inj _ Hi). Qed.

Lemma freelist_in_range h u : aget h (f_alloc s) = Some u -> In u univ.
Proof. destruct (frun_all univ ops Hnd) as (Hi & _ & _ & Hu). intros H. rewrite <- Hu. eapply (fi_al _ Hi); eauto. Qed.

Lemma freelist_stable h u : aget h (f_alloc s) = Some u -> step s (Alloc h) = (s, OUnit u, []).
Proof. destruct (frun_all univ ops Hnd) as (_ & _ & Hid & _). intros H. cbn [step]. fold s in Hid. rewrite Hid, H. reflexivity. Qed.

Lemma freelist_answer h u : outp s (Alloc h) = OUnit u -> aget h (f_alloc (next s (Alloc h))) = Some u.
Proof.
  destruct (frun_all univ ops Hnd) as (_ & _ & Hid & _). fold s in Hid. unfold outp, next. cbn [step]. rewrite Hid.
  destruct (aget h (f_alloc s)) as [u0|] eqn:Eh; [cbn [fst snd]; intros [= <-]; exact Eh|].
  destruct (f_avail s) as [|u0 tl]; cbn [fst snd]; [discriminate|]. intros [= <-]. fsimpl. apply aget_aset_eq.
Qed.

(* exhaustion only when every unit of the universe is held or was declared unavailable *)
Lemma freelist_exhausted_only_if_full h : outp s (Alloc h) = OErr 1 ->
  forall u, In u univ -> (exists h', aget h' (f_alloc s) = Some u) \/ In u (f_unav s).
Proof.
  destruct (frun_all univ ops Hnd) as (_ & Hc & Hid & Hu). fold s in Hc, Hid, Hu. unfold outp. cbn [step]. rewrite Hid.
  destruct (aget h (f_alloc s)); [discriminate|]. destruct (f_avail s) as [|u0 tl] eqn:Ea; [|discriminate].
  intros _ u Hin. rewrite <- Hu in Hin. destruct (Hc u Hin) as [Hav|[Hh|Hun]]; [rewrite Ea in Hav; destruct Hav|left; exact Hh|right; exact Hun].
Qed.

(* a release puts the unit back on the free list; a non-empty free list serves any new holder *)
Lemma freelist_release_returns h u : aget h (f_alloc s) = Some u ->
  In u (f_avail (next s (Release h))) /\ forall h', aget h' (f_alloc (next s (Release h))) <> Some u.
Proof.
  destruct (frun_all univ ops Hnd) as (Hi & _). fold s in Hi. intros H. unfold next. cbn [step]. rewrite H. cbn [fst]. fsimpl.
  split; [apply in_or_app; right; left; reflexivity|].
  intros h'. destruct (N.eq_dec h h') as [<-|Hne]; [rewrite aget_adel_eq; discriminate|].
  rewrite aget_adel_ne by assumption. intros Hx. apply Hne. eapply (fi_inj _ Hi); eauto.
Qed.

Lemma freelist_nonempty_serves h : f_avail s <> [] -> exists u, outp s (Alloc h) = OUnit u.
Proof.
  intros Hne. unfold outp. cbn [step]. destruct (if f_idem s then aget h (f_alloc s) else None); [eexists; reflexivity|].
  destruct (f_avail s); [contradiction|eexists; reflexivity].
Qed.

Lemma freelist_stats_exact : outp s Stats = OStats (asize (f_alloc s)) (asize (f_alloc s) + N.of_nat (length (f_avail s))) 0 0.
Proof. reflexivity. Qed.
End Props.

(* pppoe.IPPool before fix 9686c62 (f_idem = false): stability and no-leak refuted *)
Lemma freelist_nonidem_refuted :
  let s := fold_left next [Alloc 1; Alloc 1] (finit false [10; 11]) in
  aget 1 (f_alloc s) = Some 11 /\ outp (fold_left next [Alloc 1] (finit false [10; 11])) (Alloc 1) = OUnit 11 /\
  outp s (Alloc 2) = OErr 1 /\ (forall h, aget h (f_alloc s) <> Some 10).
Proof.
  cbv zeta. split; [vm_compute; reflexivity|]. split; [vm_compute; reflexivity|]. split; [vm_compute; reflexivity|].
  intros h. assert (E : f_alloc (fold_left next [Alloc 1; Alloc 1] (finit false [10; 11])) = [(1, 11)]) by (vm_compute; reflexivity).
  rewrite E. cbn [aget]. destruct (1 =? h); discriminate.
Qed.

(* the universes of the two list-walking constructors have no duplicates, for every base and length *)
Lemma nseq_in a n x : In x (nseq a n) <-> a <= x /\ x < a + N.of_nat n.
Proof.
  revert a. induction n as [|k IH]; intros a; cbn [nseq In]; [lia|]. rewrite IH. lia.
Qed.
Lemma nseq_nodup a n : NoDup (nseq a n).
Proof.
  revert a. induction n as [|k IH]; intros a; cbn [nseq]; constructor; [|apply IH].
  rewrite nseq_in. lia.
Qed.
Lemma v6addr_univ_nodup base ppl : NoDup (v6addr_univ base ppl).
Proof. apply nseq_nodup. Qed.
Lemma pppoe_univ_nodup base ppl gw : NoDup (pppoe_univ base ppl gw).
Proof. unfold pppoe_univ. apply NoDup_filter, nseq_nodup. Qed.

(* ... and lie strictly inside the CIDR (network address excluded) *)
Lemma v6addr_univ_in_range base ppl u : In u (v6addr_univ base ppl) -> base < u /\ u < base + 2 ^ (128 - ppl).
Proof.
  unfold v6addr_univ. rewrite nseq_in. intros [H1 H2]. rewrite N2Nat.id in H2.
  assert (0 < 2 ^ (128 - ppl)) by (apply N.neq_0_lt_0, N.pow_nonzero; discriminate).
  pose proof (N.le_min_r 1000 (2 ^ (128 - ppl) - 1)). lia.
Qed.
Lemma pppoe_univ_in_range base ppl gw u : In u (pppoe_univ base ppl gw) ->
  base < u /\ u < base + 2 ^ (32 - ppl) /\ u <> gw.
Proof.
  unfold pppoe_univ. rewrite filter_In, nseq_in. intros [[H1 H2] Hf]. rewrite N2Nat.id in H2.
  assert (0 < 2 ^ (32 - ppl)) by (apply N.neq_0_lt_0, N.pow_nonzero; discriminate).
  apply andb_prop in Hf as [Hg _]. destruct (N.eqb_spec u gw); [discriminate|]. lia.
Qed.

Lemma v6addr_universe base ppl :
  NoDup (v6addr_univ base ppl) /\ forall u, In u (v6addr_univ base ppl) -> base < u /\ u < base + 2 ^ (128 - ppl).
Proof. split; [apply v6addr_univ_nodup|apply v6addr_univ_in_range]. Qed.
Lemma pppoe_universe base ppl gw :
  NoDup (pppoe_univ base ppl gw) /\
  forall u, In u (pppoe_univ base ppl gw) -> base < u /\ u < base + 2 ^ (32 - ppl) /\ u <> gw.
Proof. split; [apply pppoe_univ_nodup|apply pppoe_univ_in_range]. Qed.
