(* C08 clause 7 ("counters reported exactly, with the fetch-failure fallback spelled out") holds on
   every trace of the Model: all histories, all outage patterns, all crash points, all patterns of
   counter-fetcher failure.  Model/AcctSpec.v [holds7]. *)
From Coq Require Import ZArith NArith List Bool Lia ZifyN ZifyNat ZifyBool.
From Verif Require Import Base.Check Model.Gigaword Model.Acct Model.AcctSpec Proofs.AcctProofs.
Import ListNotations.
Local Open Scope N_scope.

Definition ctr_of (se : sess) : N * N := (s_lin se, s_lout se).
Definition Z (f : sess) : Prop := ctr_of f = (0, 0).
Definition SessOK (al : list (N * (N * N))) (l : list sess) : Prop :=
  Forall (fun se => ctr_of se = last_of (s_id se) al) l.
Definition FileOK (al : list (N * (N * N))) (l : list sess) : Prop :=
  Forall (fun f => ctr_of f = (0, 0) \/ ctr_of f = last_of (s_id f) al) l.
Definition QOK (sent : list (N * N * (N * N))) (q : req) : Prop :=
  q_st q = ST_START \/ was_sent (q_sid q) (q_st q) (q_in q, q_out q) sent = true.

Definition non_interim (o : op) : Prop := match o with InterimTick _ _ _ _ _ => False | _ => True end.

(* ---- small facts ---- *)
Lemma pair_eqb_refl c : pair_eqb c c = true.
Proof. unfold pair_eqb. rewrite !N.eqb_refl. reflexivity. Qed.

Lemma last_of_hd s c l : last_of s ((s, c) :: l) = c.
Proof. unfold last_of. cbn. rewrite N.eqb_refl. reflexivity. Qed.
Lemma last_of_tl s t c l : t <> s -> last_of s ((t, c) :: l) = last_of s l.
Proof. intros H. unfold last_of. cbn. apply N.eqb_neq in H. rewrite H. reflexivity. Qed.

Lemma was_sent_cons s st c e l : was_sent s st c l = true -> was_sent s st c (e :: l) = true.
Proof. unfold was_sent. cbn. intros ->. apply orb_true_r. Qed.
Lemma was_sent_hd s st c l : was_sent s st c ((s, st, c) :: l) = true.
Proof. unfold was_sent. cbn. rewrite !N.eqb_refl, pair_eqb_refl. reflexivity. Qed.
Lemma QOK_cons e l q : QOK l q -> QOK (e :: l) q.
Proof. intros [H|H]; [left; exact H|right; apply was_sent_cons; exact H]. Qed.
Lemma QOK_hd l q : QOK ((q_sid q, q_st q, (q_in q, q_out q)) :: l) q.
Proof. right. apply was_sent_hd. Qed.

Lemma find_sess_id s l se : find_sess s l = Some se -> s_id se = s /\ In se l.
Proof. intros E. apply find_some in E. destruct E as [Hi He]. apply N.eqb_eq in He. auto. Qed.
Lemma find_sess_in s l : In s (map s_id l) -> exists se, find_sess s l = Some se.
Proof.
  induction l as [|h t IH]; cbn; [tauto|]. intros [E|Hin].
  - subst. rewrite N.eqb_refl. eauto.
  - destruct (s_id h =? s); eauto.
Qed.
Lemma find_sess_none s l : find_sess s l = None -> Forall (fun h => s_id h <> s) l.
Proof.
  intros E. apply Forall_forall. intros h Hin Hid. unfold find_sess in E.
  apply (find_none _ _ E) in Hin. apply N.eqb_neq in Hin. contradiction.
Qed.
Lemma find_sess_put se l : exists se', find_sess (s_id se) (put_sess se l) = Some se'.
Proof.
  induction l as [|h t IH]; cbn; [rewrite N.eqb_refl; eauto|].
  destruct (s_id se <? s_id h); [cbn; rewrite N.eqb_refl; eauto|].
  destruct (s_id se =? s_id h) eqn:E; cbn; [rewrite N.eqb_refl; eauto|].
  rewrite N.eqb_sym, E. exact IH.
Qed.
Lemma del_put se l : del_sess (s_id se) (put_sess se l) = del_sess (s_id se) l.
Proof.
  unfold del_sess. induction l as [|h t IH]; cbn; [rewrite N.eqb_refl; reflexivity|].
  destruct (s_id se <? s_id h); [cbn; rewrite N.eqb_refl; reflexivity|].
  destruct (s_id se =? s_id h) eqn:E; cbn.
  - rewrite N.eqb_refl, N.eqb_sym, E. reflexivity.
  - rewrite N.eqb_sym, E. cbn. rewrite IH. reflexivity.
Qed.

(* fetchCounters, when the session is in the table and the table agrees with the monitor *)
Lemma fetch_ok al fe s ci co l : SessOK al l -> (exists se, find_sess s l = Some se) ->
  fetch_ctr fe s ci co l = if memN s fe then last_of s al else (ci, co).
Proof.
  intros Hs [se E]. unfold fetch_ctr, memN. destruct (existsb (N.eqb s) fe); [|reflexivity].
  rewrite E. destruct (find_sess_id _ _ _ E) as [<- Hin]. unfold SessOK in Hs. rewrite Forall_forall in Hs.
  apply (Hs se Hin).
Qed.

(* ---- one record through the clause-7 monitor ---- *)
Definition ok7 (o : op) (a : aux) (s st : N) (c : N * N) : bool :=
  match o with
  | Stop _ _ cin cout fe _ _ => pair_eqb c (if memN s fe then last_of s (a_last a) else (cin, cout))
  | GracefulStop cs fe _ _ _ | InterimTick cs fe _ _ _ => pair_eqb c (if memN s fe then last_of s (a_last a) else src cs s)
  | ProcessQueued _ _ | RetryTick _ _ _ => was_sent s st c (a_sent a)
  | Restart _ _ _ => pair_eqb c (0, 0) || pair_eqb c (last_of s (a_last a))
  | _ => true
  end.
Definition last7 (o : op) (a : aux) (s st : N) (c : N * N) (ack : bool) : list (N * (N * N)) :=
  match o with
  | InterimTick _ _ _ _ _ => if ack && (st =? ST_INTERIM) then (s, c) :: a_last a else a_last a
  | _ => a_last a
  end.

Lemma ev7_wire o a q ack : q_st q <> ST_START ->
  ev7 o a (wire q, ack) =
  (ok7 o a (q_sid q) (q_st q) (q_in q, q_out q),
   mkA (last7 o a (q_sid q) (q_st q) (q_in q, q_out q) ack) ((q_sid q, q_st q, (q_in q, q_out q)) :: a_sent a)).
Proof.
  intros H. apply N.eqb_neq in H. unfold ev7, wire. cbn [w_st w_sid w_in w_out]. rewrite H. cbn [negb].
  rewrite !join_split. unfold ok7, last7. destruct o; reflexivity.
Qed.
Lemma ev7_start o a q ack : q_st q = ST_START -> ev7 o a (wire q, ack) = (true, a).
Proof. intros H. unfold ev7, wire. cbn [w_st]. rewrite H. reflexivity. Qed.
Lemma last7_ni o a s st c ack : non_interim o -> last7 o a s st c ack = a_last a.
Proof. destruct o; cbn; tauto. Qed.

Lemma run7_app o : forall es a a1 es', run7 o a es = (true, a1) -> run7 o a (es ++ es') = run7 o a1 es'.
Proof.
  induction es as [|e tl IH]; cbn; intros a a1 es' H; [inversion H; reflexivity|].
  destruct (ev7 o a e) as [ok a2]. destruct ok; [eauto|discriminate].
Qed.
Lemma run7_one o a e : run7 o a [e] = ev7 o a e.
Proof. cbn. destruct (ev7 o a e) as [[] ?]; reflexivity. Qed.

(* ---- the micro-state invariant ---- *)
Record R7 (a : aux) (x : ms) : Prop := mkR7 {
  r_sess : SessOK (a_last a) (x_sess x);
  r_files : FileOK (a_last a) (x_files x);
  r_pend : Forall (fun p => QOK (a_sent a) (p_req p)) (x_pend x);
  r_chan : Forall (fun e => QOK (a_sent a) (snd e)) (x_chan x);
  r_pjson : forall l, x_pjson x = Some l -> Forall (fun p => QOK (a_sent a) (p_req p)) l }.

Definition K7 (o : op) (a0 : aux) (Q : list req) (x : ms) : Prop :=
  exists a, run7 o a0 (x_ev x) = (true, a) /\ R7 a x /\ (non_interim o -> a_last a = a_last a0) /\
            Forall (QOK (a_sent a)) Q.

Definition PR (P : ms -> Prop) (r : ms + ms) : Prop := match r with inl y => P y | inr y => P y end.
Definition PL (P : ms -> Prop) (r : ms + ms) : Prop := match r with inl y => P y | inr _ => True end.

Lemma PR_bind (P Q : ms -> Prop) r f : PR P r -> (forall y, P y -> Q y) -> (forall y, P y -> PR Q (f y)) -> PR Q (bind r f).
Proof. destruct r; cbn; auto. Qed.
Lemma PL_bind (P Q : ms -> Prop) r f : PL P r -> (forall y, P y -> PL Q (f y)) -> PL Q (bind r f).
Proof. destruct r; cbn; auto. Qed.
Lemma PR_fold_m {A} (P : ms -> Prop) (f : A -> ms -> ms + ms) l :
  (forall a y, In a l -> P y -> PR P (f a y)) -> forall x, P x -> PR P (fold_m f l x).
Proof.
  induction l as [|a tl IH]; intros Hf x Hx; cbn; [exact Hx|].
  pose proof (Hf a x (or_introl eq_refl) Hx) as H1. destruct (f a x); cbn in H1; [|exact H1].
  apply IH; [|exact H1]. intros; apply Hf; [right|]; auto.
Qed.
Lemma PL_fold_m {A} (P : ms -> Prop) (f : A -> ms -> ms + ms) l :
  (forall a y, In a l -> P y -> PL P (f a y)) -> forall x, P x -> PL P (fold_m f l x).
Proof.
  induction l as [|a tl IH]; intros Hf x Hx; cbn; [exact Hx|].
  pose proof (Hf a x (or_introl eq_refl) Hx) as H1. destruct (f a x); cbn in H1; [|exact I].
  apply IH; [|exact H1]. intros; apply Hf; [right|]; auto.
Qed.
Lemma PR_ctick (P : ms -> Prop) x : P x -> (forall v, P x -> P (set_c v x)) -> PR P (ctick x).
Proof. intros H Hs. unfold ctick. destruct (x_c x =? 1); cbn; auto. Qed.
Lemma PL_ctick (P : ms -> Prop) x : P (set_c (N.pred (x_c x)) x) -> PL P (ctick x).
Proof. intros H. unfold ctick. destruct (x_c x =? 1); cbn; auto. Qed.

Lemma K7_chg o a0 Q Q' x x' : x_ev x' = x_ev x ->
  (forall a, R7 a x -> Forall (QOK (a_sent a)) Q -> R7 a x' /\ Forall (QOK (a_sent a)) Q') ->
  K7 o a0 Q x -> K7 o a0 Q' x'.
Proof. intros He Hr (a & H1 & H2 & H3 & H4). exists a. rewrite He. destruct (Hr a H2 H4). auto. Qed.
Lemma K7_same o a0 Q x x' : x_ev x' = x_ev x -> (forall a, R7 a x -> R7 a x') -> K7 o a0 Q x -> K7 o a0 Q x'.
Proof. intros He Hr. apply K7_chg; auto. Qed.

Lemma K7_set_c o a0 Q v x : K7 o a0 Q x -> K7 o a0 Q (set_c v x).
Proof. apply K7_same; [reflexivity|]. intros a [? ? ? ? ?]. constructor; auto. Qed.
Lemma K7_set_ret o a0 Q v x : K7 o a0 Q x -> K7 o a0 Q (set_ret v x).
Proof. apply K7_same; [reflexivity|]. intros a [? ? ? ? ?]. constructor; auto. Qed.
Lemma K7_mark o a0 Q b m x : K7 o a0 Q x -> K7 o a0 Q (mark b m x).
Proof. unfold mark. destruct b; [|auto]. apply K7_same; [reflexivity|]. intros a [? ? ? ? ?]. constructor; auto. Qed.
Lemma K7_ctick o a0 Q x : K7 o a0 Q x -> PR (K7 o a0 Q) (ctick x).
Proof. intros H. apply PR_ctick; [exact H|]. intros v. apply K7_set_c. Qed.
Lemma K7_set_sess o a0 Q f x : (forall al, SessOK al (x_sess x) -> SessOK al (f (x_sess x))) -> K7 o a0 Q x -> K7 o a0 Q (set_sess f x).
Proof. intros Hf. apply K7_same; [reflexivity|]. intros a [? ? ? ? ?]. constructor; cbn; auto. Qed.
Lemma K7_set_files o a0 Q f x : (forall al, FileOK al (x_files x) -> FileOK al (f (x_files x))) -> K7 o a0 Q x -> K7 o a0 Q (set_files f x).
Proof. intros Hf. apply K7_same; [reflexivity|]. intros a [? ? ? ? ?]. constructor; cbn; auto. Qed.
Lemma K7_set_pend o a0 Q f x :
  (forall sent, Forall (fun p => QOK sent (p_req p)) (x_pend x) -> Forall (fun p => QOK sent (p_req p)) (f (x_pend x))) ->
  K7 o a0 Q x -> K7 o a0 Q (set_pend f x).
Proof. intros Hf. apply K7_same; [reflexivity|]. intros a [? ? ? ? ?]. constructor; cbn; auto. Qed.

Lemma ev7_sent_mono o a e q : QOK (a_sent a) q -> QOK (a_sent (snd (ev7 o a e))) q.
Proof.
  destruct e as [w ack]. unfold ev7. destruct (w_st w =? ST_START); cbn; [auto|]. apply QOK_cons.
Qed.

(* one more record at the server *)
Lemma K7_event o a0 Q x x' e : K7 o a0 Q x -> x_ev x' = x_ev x ++ [e] ->
  (forall a, R7 a x -> (non_interim o -> a_last a = a_last a0) -> Forall (QOK (a_sent a)) Q ->
     fst (ev7 o a e) = true /\ R7 (snd (ev7 o a e)) x' /\ (non_interim o -> a_last (snd (ev7 o a e)) = a_last a)) ->
  K7 o a0 Q x'.
Proof.
  intros (a & Hr & HR & Hl & HQ) Hev H. destruct (H a HR Hl HQ) as (H1 & H2 & H3). exists (snd (ev7 o a e)). split.
  - rewrite Hev, (run7_app _ _ _ _ _ Hr), run7_one. destruct (ev7 o a e); cbn in *; subst; reflexivity.
  - split; [exact H2|]. split; [intros Hn; rewrite H3, Hl; auto|].
    eapply Forall_impl; [|exact HQ]. intros q. apply ev7_sent_mono.
Qed.

Lemma R7_mono a a' x : R7 a x -> a_last a' = a_last a ->
  (forall q', QOK (a_sent a) q' -> QOK (a_sent a') q') -> R7 a' x.
Proof.
  intros [H1 H2 H3 H4 H5] El Hm. constructor; rewrite ?El; auto.
  - eapply Forall_impl; [|exact H3]; cbn; auto.
  - eapply Forall_impl; [|exact H4]; cbn; auto.
  - intros l E. eapply Forall_impl; [|exact (H5 l E)]; cbn; auto.
Qed.

Lemma R7_raw a q ack x : R7 a x -> R7 a (raw_send q ack x).
Proof. intros [? ? ? ? ?]. constructor; auto. Qed.
Lemma R7_enqueue a q x : R7 a x -> QOK (a_sent a) q -> R7 a (enqueue q x).
Proof.
  intros [H1 H2 H3 H4 H5] Hq. constructor; cbn; auto.
  - apply Forall_app. split; [exact H3|]. constructor; [exact Hq|constructor].
  - apply Forall_app. split; [exact H4|]. constructor; [exact Hq|constructor].
Qed.
Lemma R7_send a q ack x : R7 a x -> QOK (a_sent a) q -> R7 a (send q ack x).
Proof. intros H Hq. unfold send. destruct ack; [apply R7_raw; exact H|apply R7_enqueue; [apply R7_raw; exact H|exact Hq]]. Qed.

Lemma ev_send q ack x : x_ev (send q ack x) = x_ev x ++ [(wire q, ack)].
Proof. unfold send. destruct ack; reflexivity. Qed.

(* a transmission inside an op that is not the interim scan; afterwards the request counts as sent *)
Lemma K7_raw_send o a0 Q q ack x : non_interim o -> K7 o a0 Q x ->
  (q_st q = ST_START \/
   forall a, R7 a x -> a_last a = a_last a0 -> Forall (QOK (a_sent a)) Q -> ok7 o a (q_sid q) (q_st q) (q_in q, q_out q) = true) ->
  K7 o a0 (q :: Q) (raw_send q ack x).
Proof.
  intros Hn (a & Hr & HR & Hl & HQ) Hq. specialize (Hl Hn).
  destruct (N.eq_dec (q_st q) ST_START) as [Es|Es].
  - exists a. cbn [raw_send x_ev]. rewrite (run7_app _ _ _ _ _ Hr), run7_one, (ev7_start o a q ack Es).
    split; [reflexivity|]. split; [apply R7_raw; exact HR|]. split; [auto|]. constructor; [left; exact Es|exact HQ].
  - destruct Hq as [Hq|Hq]; [contradiction|].
    exists (snd (ev7 o a (wire q, ack))). cbn [raw_send x_ev]. rewrite (run7_app _ _ _ _ _ Hr), run7_one.
    rewrite (ev7_wire o a q ack Es). cbn [fst snd]. rewrite (Hq a HR Hl HQ). split; [reflexivity|].
    split; [|split].
    + apply R7_raw. apply (R7_mono a); cbn; auto using last7_ni, QOK_cons.
    + intros _. cbn. rewrite last7_ni; auto.
    + cbn. constructor; [apply QOK_hd|]. eapply Forall_impl; [|exact HQ]. intros q'. apply QOK_cons.
Qed.

Lemma K7_drop o a0 Q Q' x : incl Q' Q -> K7 o a0 Q x -> K7 o a0 Q' x.
Proof.
  intros Hi. apply K7_chg; [reflexivity|]. intros a HR HQ. split; [exact HR|].
  apply Forall_forall. intros q Hq. rewrite Forall_forall in HQ. apply HQ, Hi, Hq.
Qed.

Lemma K7_send o a0 Q q ack x : non_interim o -> K7 o a0 Q x ->
  (q_st q = ST_START \/
   forall a, R7 a x -> a_last a = a_last a0 -> Forall (QOK (a_sent a)) Q -> ok7 o a (q_sid q) (q_st q) (q_in q, q_out q) = true) ->
  K7 o a0 Q (send q ack x).
Proof.
  intros Hn HK Hq. pose proof (K7_raw_send o a0 Q q ack x Hn HK Hq) as H. unfold send. destruct ack.
  - revert H. apply K7_drop. intros z Hz. right. exact Hz.
  - revert H. apply K7_chg; [reflexivity|]. intros a HR HQ. inversion HQ; subst. split; [apply R7_enqueue; assumption|assumption].
Qed.

(* ---- StartSession ---- *)
Lemma SessOK_put al se l : ctr_of se = last_of (s_id se) al -> SessOK al l -> SessOK al (put_sess se l).
Proof. intros H. apply (Forall_put_sess (fun h => ctr_of h = last_of (s_id h) al)). exact H. Qed.
Lemma FileOK_put al se l : (ctr_of se = (0, 0) \/ ctr_of se = last_of (s_id se) al) -> FileOK al l -> FileOK al (put_sess se l).
Proof. intros H. apply (Forall_put_sess (fun h => ctr_of h = (0, 0) \/ ctr_of h = last_of (s_id h) al)). exact H. Qed.

Lemma K7_do_start s id dn c a0 x (o := Start s id dn c) :
  last_of s (a_last a0) = (0, 0) -> K7 o a0 [] x -> PR (K7 o a0 []) (do_start s id dn x).
Proof.
  intros H0 HK. unfold do_start. destruct (find_sess s (x_sess x)); [cbn; apply K7_set_ret; exact HK|].
  destruct HK as (a & Hrun & HR & Hl & HQ). specialize (Hl I).
  eapply PR_bind with (P := K7 o a0 []); [|auto|].
  - apply K7_ctick. repeat apply K7_mark. apply K7_send; [exact I| |left; reflexivity].
    exists a. split; [exact Hrun|]. split; [|auto]. destruct HR as [? ? ? ? ?]. constructor; cbn; auto.
    apply SessOK_put; [|assumption]. cbn. rewrite Hl. symmetry. exact H0.
  - intros y Hy. apply K7_ctick. apply K7_set_files; [|exact Hy]. intros al. apply FileOK_put. left. reflexivity.
Qed.

(* ---- StopSession ---- *)
Lemma K7_do_stop s cause cin cout fe dn c a0 x (o := Stop s cause cin cout fe dn c) :
  K7 o a0 [] x -> PR (K7 o a0 []) (do_stop s cause cin cout fe dn x).
Proof.
  intros HK. unfold do_stop. destruct (find_sess s (x_sess x)) as [se0|] eqn:E; [|cbn; apply K7_set_ret; exact HK].
  destruct (find_sess_id _ _ _ E) as [Hid Hin].
  set (se := mkS s (s_ident se0) true cause (s_lin se0) (s_lout se0)).
  assert (HK2 : K7 o a0 [] (set_files (put_sess se) (set_sess (put_sess se) x))).
  { destruct HK as (a & Hrun & HR & Hl & HQ). exists a. split; [exact Hrun|]. split; [|auto].
    destruct HR as [H1 ? ? ? ?]. assert (Hc : ctr_of se = last_of (s_id se) (a_last a)).
    { unfold SessOK in H1. rewrite Forall_forall in H1. specialize (H1 se0 Hin). cbn. rewrite <- Hid in *. exact H1. }
    constructor; cbn; auto; [apply SessOK_put|apply FileOK_put]; auto. }
  unfold ctick at 1. destruct (x_c _ =? 1); [exact HK2|]. cbn [bind].
  match goal with |- PR _ (bind (ctick (send ?q _ ?x3)) _) => set (q0 := q); set (y3 := x3) end.
  assert (HK3 : K7 o a0 [] y3) by (apply K7_set_c; exact HK2).
  eapply PR_bind with (P := K7 o a0 []); [|auto|].
  - apply K7_ctick. apply K7_send; [exact I|exact HK3|]. right. intros a HR El _. cbn [q0 q_sid q_st q_in q_out ok7 o].
    assert (Hf : fetch_ctr fe s cin cout (x_sess y3) = if memN s fe then last_of s (a_last a) else (cin, cout)).
    { apply fetch_ok; [apply (r_sess _ _ HR)|]. cbn [y3 set_c set_files set_sess x_sess]. apply (find_sess_put se). }
    unfold y3 in Hf. rewrite <- surjective_pairing, Hf. apply pair_eqb_refl.
  - intros z Hz. apply K7_ctick, K7_mark. apply K7_set_files; [intros al; apply Forall_filter'|].
    apply K7_set_sess; [intros al; apply Forall_filter'|exact Hz].
Qed.

(* ---- processPendingRecord, queue step, retry scan ---- *)
Definition is_resend (o : op) : Prop := match o with ProcessQueued _ _ | RetryTick _ _ _ => True | _ => False end.

Lemma K7_process_rec o a0 Q maxr st q dn x : is_resend o -> In q Q -> K7 o a0 Q x ->
  PR (K7 o a0 Q) (process_rec maxr st q dn x).
Proof.
  intros Ho Hq HK. assert (Hn : non_interim o) by (destruct o; cbn in *; tauto).
  unfold process_rec. eapply PR_bind with (P := K7 o a0 Q); [|auto|].
  - apply K7_ctick. apply K7_drop with (Q := q :: Q); [intros z Hz; right; exact Hz|].
    apply K7_raw_send; [exact Hn|exact HK|].
    destruct (N.eq_dec (q_st q) ST_START) as [Es|Es]; [left; exact Es|right].
    intros a HR El HQ. rewrite Forall_forall in HQ. destruct (HQ q Hq) as [Hs|Hs]; [contradiction|].
    destruct o; cbn in Ho; try contradiction; exact Hs.
  - intros y Hy. cbn. destruct (acked dn q).
    + apply K7_set_pend; [intros sent; apply Forall_filter'|exact Hy].
    + destruct (find_pend st (x_pend y)); [|exact Hy]. destruct (maxr <=? p_retry p + 1).
      * apply K7_set_pend; [intros sent; apply Forall_filter'|exact Hy].
      * apply K7_set_pend; [|exact Hy]. intros sent H. unfold set_retry. apply Forall_map.
        eapply Forall_impl; [|exact H]. intros p0 Hp. cbn. destruct (p_stamp p0 =? st); exact Hp.
Qed.

Lemma K7_do_queue o a0 maxr dn x : is_resend o -> K7 o a0 [] x -> PR (K7 o a0 []) (do_queue maxr dn x).
Proof.
  intros Ho HK. unfold do_queue. destruct (x_chan x) as [|[st q] tl] eqn:E; [exact HK|].
  assert (H : PR (K7 o a0 [q]) (process_rec maxr st q dn (set_chan (fun _ => tl) x))).
  { apply K7_process_rec; [exact Ho|left; reflexivity|]. revert HK. apply K7_chg; [reflexivity|].
    intros a [H1 H2 H3 H4 H5] _. rewrite E in H4. inversion H4; subst.
    split; [constructor; cbn; auto|constructor; [assumption|constructor]]. }
  destruct (process_rec _ _ _ _ _); cbn in *; revert H; apply K7_drop; intros z [].
Qed.

Lemma K7_do_retry o a0 maxr dn order x : is_resend o -> K7 o a0 [] x -> PR (K7 o a0 []) (do_retry maxr dn order x).
Proof.
  intros Ho HK. unfold do_retry. set (l := pick_pos order (x_pend x)). set (Q := map p_req l).
  assert (HKQ : K7 o a0 Q x).
  { revert HK. apply K7_chg; [reflexivity|]. intros a HR _. split; [exact HR|]. unfold Q. apply Forall_map.
    apply (Forall_pick_pos (fun p => QOK (a_sent a) (p_req p))). apply (r_pend _ _ HR). }
  assert (H : PR (K7 o a0 Q) (fold_m (retry_one maxr dn) l x)).
  { apply PR_fold_m; [|exact HKQ]. intros p y Hp Hy. unfold retry_one.
    apply K7_process_rec; [exact Ho|unfold Q; apply in_map; exact Hp|apply K7_mark; exact Hy]. }
  destruct (fold_m _ _ _); cbn in *; revert H; apply K7_drop; intros z [].
Qed.

(* ---- orphan recovery ---- *)
Lemma K7_recover_one o a0 dn f x : (match o with Restart _ _ _ => True | _ => False end) ->
  (ctr_of f = (0, 0) \/ ctr_of f = last_of (s_id f) (a_last a0)) -> K7 o a0 [] x -> PR (K7 o a0 []) (recover_one dn f x).
Proof.
  intros Ho Hf HK. assert (Hn : non_interim o) by (destruct o; cbn in *; tauto).
  unfold recover_one. eapply PR_bind with (P := K7 o a0 []); [|auto|].
  - apply K7_ctick. apply K7_send; [exact Hn|exact HK|]. right. intros a HR El _. cbn [q_sid q_st q_in q_out].
    destruct o; cbn in Ho; try contradiction. cbn [ok7]. rewrite El. unfold ctr_of in Hf.
    destruct Hf as [E|E]; rewrite E, pair_eqb_refl; [reflexivity|apply orb_true_r].
  - intros y Hy. apply K7_ctick, K7_mark. apply K7_set_files; [intros al; apply Forall_filter'|exact Hy].
Qed.

Lemma K7_do_restart dn qperm c a0 x (o := Restart dn qperm c) :
  FileOK (a_last a0) (x_files x) -> K7 o a0 [] x -> PR (K7 o a0 []) (do_restart dn qperm x).
Proof.
  intros HF HK. unfold do_restart. eapply PR_bind with (P := K7 o a0 []); [|auto|].
  - apply PR_fold_m; [|exact HK]. intros f y Hin Hy. apply K7_recover_one; [exact I| |exact Hy].
    unfold FileOK in HF. rewrite Forall_forall in HF. apply HF, Hin.
  - intros y Hy. destruct (x_pjson y) as [l|] eqn:E; [|exact Hy].
    apply K7_ctick, K7_mark. revert Hy. apply K7_same; [reflexivity|]. intros a [H1 H2 H3 H4 H5]. pose proof (H5 l E) as Hl.
    constructor; cbn; auto.
    + apply Forall_app; split; assumption.
    + apply Forall_app; split; [assumption|]. apply Forall_map. cbn.
      apply (Forall_pick_pos (fun p => QOK (a_sent a) (p_req p))). exact Hl.
    + discriminate.
Qed.

(* ---- shutdown drain ---- *)
Lemma fold_raw_ev (bf : req -> bool) qs : forall x,
  fold_left (fun y q => raw_send q (bf q) y) qs x =
  mkX (x_sess x) (x_pend x) (x_chan x) (x_files x) (x_pjson x) (x_stamp x)
      (x_ev x ++ map (fun q => (wire q, bf q)) qs) (x_c x) (x_mk x) (x_ret x).
Proof.
  induction qs as [|q tl IH]; intros x; cbn; [rewrite app_nil_r; destruct x; reflexivity|].
  rewrite IH. unfold raw_send; cbn. rewrite <- app_assoc. reflexivity.
Qed.

Lemma K7_fold_raw o a0 (bf : req -> bool) qs : non_interim o ->
  (forall q a, In q qs -> a_last a = a_last a0 -> q_st q <> ST_START /\ ok7 o a (q_sid q) (q_st q) (q_in q, q_out q) = true) ->
  forall Q x, K7 o a0 Q x -> K7 o a0 (rev qs ++ Q) (fold_left (fun y q => raw_send q (bf q) y) qs x).
Proof.
  intros Hn. induction qs as [|q tl IH]; intros Hq Q x HK; cbn; [exact HK|].
  rewrite <- app_assoc. cbn. apply IH; [intros; apply Hq; [right|]; auto|].
  apply K7_raw_send; [exact Hn|exact HK|]. right. intros a _ El _. apply Hq; [left; reflexivity|exact El].
Qed.

Lemma K7_fold_enq o a0 Q l : incl l Q -> forall x, K7 o a0 Q x -> K7 o a0 Q (fold_left (fun y q => enqueue q y) l x).
Proof.
  induction l as [|q tl IH]; intros Hi x HK; cbn; [exact HK|]. apply IH; [intros z Hz; apply Hi; right; exact Hz|].
  revert HK. apply K7_chg; [reflexivity|]. intros a HR HQ. split; [|exact HQ]. apply R7_enqueue; [exact HR|].
  rewrite Forall_forall in HQ. apply HQ, Hi. left. reflexivity.
Qed.

Lemma K7_do_graceful cs fe dn qorder g a0 x (o := GracefulStop cs fe dn qorder g) :
  K7 o a0 [] x -> PR (K7 o a0 []) (do_graceful cs fe dn qorder g x).
Proof.
  intros HK. unfold do_graceful. set (qs := map (drain_req cs fe (x_sess x)) (x_sess x)).
  assert (HS : SessOK (a_last a0) (x_sess x)).
  { destruct HK as (a & _ & HR & Hl & _). rewrite <- (Hl I). apply (r_sess _ _ HR). }
  assert (Hq : forall q a, In q qs -> a_last a = a_last a0 ->
                 q_st q <> ST_START /\ ok7 o a (q_sid q) (q_st q) (q_in q, q_out q) = true).
  { intros q a Hin El. unfold qs in Hin. apply in_map_iff in Hin. destruct Hin as (se & <- & Hse).
    split; [discriminate|]. unfold drain_req. cbn [q_sid q_st q_in q_out ok7 o]. rewrite El.
    rewrite (fetch_ok (a_last a0) fe (s_id se) _ _ (x_sess x) HS (find_sess_in _ _ (in_map s_id _ _ Hse))).
    destruct (memN (s_id se) fe); cbn [fst snd]; [|rewrite <- surjective_pairing]; rewrite <- ?surjective_pairing; apply pair_eqb_refl. }
  assert (Hraw : forall bf, K7 o a0 qs (fold_left (fun y q => raw_send q (bf q) y) qs x)).
  { intros bf. pose proof (K7_fold_raw o a0 bf qs I Hq [] x HK) as H. revert H. apply K7_drop.
    intros z Hz. apply in_or_app. left. apply in_rev in Hz. exact Hz. }
  destruct ((g =? 1) && negb (match qs with [] => true | _ => false end)).
  - cbn [PR]. set (d := find (acked dn) qs).
    pose proof (Hraw (fun q => match d with Some q' => q_sid q =? q_sid q' | None => false end)) as H.
    rewrite fold_raw_ev in H. revert H. apply K7_drop. intros z [].
  - set (x1 := fold_left (fun y q => raw_send q (acked dn q) y) qs x).
    set (failed := pick q_sid qorder (filter (fun q => negb (acked dn q)) qs)).
    assert (H2 : K7 o a0 qs (fold_left (fun y q => enqueue q y) failed x1)).
    { apply K7_fold_enq; [|apply Hraw]. intros z Hz.
      assert (HF : Forall (fun q => In q qs) failed) by (apply Forall_pick, Forall_filter', Forall_forall; auto).
      rewrite Forall_forall in HF. auto. }
    set (x2 := fold_left (fun y q => enqueue q y) failed x1) in *.
    assert (H3 : K7 o a0 [] (mark (negb (match qs with [] => true | _ => false end)) 805 x2))
      by (apply K7_mark; revert H2; apply K7_drop; intros z []).
    set (x3 := mark _ 805 x2) in *.
    destruct (g =? 2); [exact H3|].
    match goal with |- PR _ (if _ then inr ?v else inl ?v) => assert (H4 : K7 o a0 [] v) end.
    { destruct (x_pend x3) eqn:E; [exact H3|]. revert H3. apply K7_same; [reflexivity|].
      intros a [H1 H2' H3' H4' H5']. constructor; cbn; auto. intros l0 El. inversion El; subst. rewrite <- E. exact H3'. }
    destruct (g =? 3); exact H4.
Qed.

(* ---- the interim scan: the only op that moves the "last accepted" values ---- *)
Definition KI (o : op) (a0 : aux) (F : list sess) (ids : list N) (x : ms) : Prop :=
  K7 o a0 [] x /\ x_files x = F /\ map s_id (x_sess x) = ids.

Lemma K7_interim_one cs fe dn dn' order c a0 F ids se x (o := InterimTick cs fe dn' order c) :
  Forall Z F -> In (s_id se) ids -> KI o a0 F ids x -> PR (KI o a0 F ids) (interim_one cs fe dn se x).
Proof.
  intros HZ Hin (HK & HF & Hids). unfold interim_one.
  set (sid := s_id se) in *. set (fc := fetch_ctr fe sid _ _ (x_sess x)).
  set (q := mkQ ST_INTERIM sid (s_ident se) (fst fc) (snd fc) 0). set (ack := acked dn q).
  apply PR_ctick; [|intros v (H1 & H2 & H3); split; [apply K7_set_c; exact H1|auto]].
  destruct HK as (a & Hrun & HR & _ & _).
  assert (Hfc : (fst fc, snd fc) = if memN sid fe then last_of sid (a_last a) else src cs sid).
  { rewrite <- surjective_pairing. unfold fc.
    rewrite (fetch_ok (a_last a) fe sid _ _ (x_sess x) (r_sess _ _ HR)); [|apply find_sess_in; rewrite Hids; exact Hin].
    destruct (memN sid fe); [reflexivity|symmetry; apply surjective_pairing]. }
  assert (Es : q_st q <> ST_START) by discriminate.
  pose proof (ev7_wire o a q ack Es) as Ev. cbn [q q_sid q_st q_in q_out ok7 last7 o] in Ev.
  rewrite Hfc, pair_eqb_refl in Ev. rewrite <- Hfc in Ev. change (ST_INTERIM =? ST_INTERIM) with true in Ev. rewrite andb_true_r in Ev.
  fold q in Ev.
  assert (Hx : forall y, x_ev y = x_ev x ++ [(wire q, ack)] ->
                 R7 (snd (ev7 o a (wire q, ack))) y -> x_files y = F -> map s_id (x_sess y) = ids -> KI o a0 F ids y).
  { intros y Hev HRy HFy Hiy. split; [|auto]. exists (snd (ev7 o a (wire q, ack))).
    rewrite Hev, (run7_app _ _ _ _ _ Hrun), run7_one, Ev. cbn [snd]. rewrite Ev in HRy. cbn [snd] in HRy.
    split; [reflexivity|]. split; [exact HRy|]. split; [intros []|constructor]. }
  rewrite Ev in Hx. cbn [snd] in Hx.
  destruct ack eqn:Eack; cbn [andb] in Hx.
  - (* acknowledged: the session's last known values move *)
    apply Hx; cbn; auto.
    destruct HR as [H1 H2 H3 H4 H5]. constructor; cbn.
    + apply Forall_map. eapply Forall_impl; [|exact H1]. intros h Hh. cbn.
      destruct (s_id h =? sid) eqn:Eh.
      * apply N.eqb_eq in Eh. cbn. rewrite Eh. rewrite last_of_hd. reflexivity.
      * apply N.eqb_neq in Eh. rewrite last_of_tl; [exact Hh|congruence].
    + rewrite HF. eapply Forall_impl; [|exact HZ]. intros f Hf. left. exact Hf.
    + eapply Forall_impl; [|exact H3]. intros p. apply QOK_cons.
    + eapply Forall_impl; [|exact H4]. intros e. apply QOK_cons.
    + intros l E. eapply Forall_impl; [|exact (H5 l E)]. intros p. apply QOK_cons.
    + rewrite map_map. rewrite <- Hids. apply map_ext. intros h. destruct (s_id h =? sid); reflexivity.
  - apply Hx; cbn; auto.
    apply R7_enqueue; [apply R7_raw; apply (R7_mono a); cbn; auto using QOK_cons|cbn; apply (QOK_hd (a_sent a) q)].
Qed.

Lemma K7_do_interim cs fe dn order c a0 x (o := InterimTick cs fe dn order c) :
  Forall Z (x_files x) -> K7 o a0 [] x -> PR (fun y => K7 o a0 [] y /\ x_files y = x_files x) (do_interim cs fe dn order x).
Proof.
  intros HZ HK. unfold do_interim.
  set (l := pick s_id order (filter (fun h => negb (s_pend h)) (x_sess x))).
  assert (Hl : Forall (fun se => In (s_id se) (map s_id (x_sess x))) l).
  { apply Forall_pick, Forall_filter', Forall_forall. intros h Hh. apply in_map. exact Hh. }
  assert (H : PR (KI o a0 (x_files x) (map s_id (x_sess x))) (fold_m (interim_one cs fe dn) l x)).
  { apply PR_fold_m; [|repeat split; auto]. intros se y Hse Hy. apply K7_interim_one; [exact HZ| |exact Hy].
    rewrite Forall_forall in Hl. apply Hl, Hse. }
  destruct (fold_m _ _ _); cbn in *; destruct H as (H1 & H2 & _); auto.
Qed.

(* ---- Model-only facts: session files of a live process between ops carry no counters ---- *)
Definition FZ (x : ms) : Prop := Forall Z (x_files x).

Lemma files_send q a x : x_files (send q a x) = x_files x.
Proof. unfold send; destruct a; reflexivity. Qed.
Lemma files_mark b m x : x_files (mark b m x) = x_files x.
Proof. unfold mark; destruct b; reflexivity. Qed.

Lemma Z_do_start s id dn x : FZ x -> PL FZ (do_start s id dn x).
Proof.
  intros H. unfold do_start. destruct (find_sess s (x_sess x)); [exact H|].
  eapply PL_bind with (P := FZ).
  - apply PL_ctick. unfold FZ. cbn. rewrite !files_mark, files_send. exact H.
  - intros y Hy. apply PL_ctick. unfold FZ in *. cbn. apply Forall_put_sess; [reflexivity|exact Hy].
Qed.

Lemma Z_do_stop s cause cin cout fe dn x : FZ x -> PL FZ (do_stop s cause cin cout fe dn x).
Proof.
  intros H. unfold do_stop. destruct (find_sess s (x_sess x)) as [se0|]; [|exact H].
  set (se := mkS s (s_ident se0) true cause (s_lin se0) (s_lout se0)).
  eapply PL_bind with (P := fun y => x_files y = put_sess se (x_files x)).
  - apply PL_ctick. reflexivity.
  - intros y Hy. eapply PL_bind with (P := fun z => x_files z = put_sess se (x_files x)).
    + apply PL_ctick. cbn. rewrite files_send. exact Hy.
    + intros z Hz. apply PL_ctick. unfold FZ. cbn [x_files set_c]. rewrite files_mark. cbn [x_files set_files set_sess]. rewrite Hz.
      pose proof (del_put se (x_files x)) as Hd. change (s_id se) with s in Hd. rewrite Hd. apply Forall_filter'. exact H.
Qed.

Lemma F_process_rec F maxr st q dn x : x_files x = F -> PL (fun y => x_files y = F) (process_rec maxr st q dn x).
Proof.
  intros H. unfold process_rec. eapply PL_bind with (P := fun y => x_files y = F); [apply PL_ctick; exact H|].
  intros y Hy. cbn. destruct (acked dn q); [exact Hy|]. destruct (find_pend _ _); [|exact Hy]. destruct (_ <=? _); exact Hy.
Qed.
Lemma F_do_queue maxr dn x : PL (fun y => x_files y = x_files x) (do_queue maxr dn x).
Proof. unfold do_queue. destruct (x_chan x) as [|[st q] tl]; [reflexivity|]. apply F_process_rec. reflexivity. Qed.
Lemma F_do_retry maxr dn order x : PL (fun y => x_files y = x_files x) (do_retry maxr dn order x).
Proof.
  unfold do_retry. apply PL_fold_m; [|reflexivity]. intros p y _ Hy. unfold retry_one. apply F_process_rec.
  rewrite files_mark. exact Hy.
Qed.

Lemma F_recover_one dn f x : PL (fun y => x_files y = del_sess (s_id f) (x_files x)) (recover_one dn f x).
Proof.
  unfold recover_one. eapply PL_bind with (P := fun y => x_files y = x_files x).
  - apply PL_ctick. cbn. apply files_send.
  - intros y Hy. apply PL_ctick. cbn. rewrite files_mark. cbn. rewrite Hy. reflexivity.
Qed.

Lemma rec_files dn l : forall x,
  PL (fun y => forall g, In g (x_files y) -> In g (x_files x) /\ ~ In (s_id g) (map s_id l)) (fold_m (recover_one dn) l x).
Proof.
  induction l as [|f tl IH]; intros x; cbn; [auto|].
  pose proof (F_recover_one dn f x) as H. destruct (recover_one dn f x) as [y|y]; cbn in H |- *; [|exact I].
  specialize (IH y). destruct (fold_m _ tl y) as [z|z]; cbn in *; [|exact I].
  intros g Hg. destruct (IH g Hg) as [H1 H2]. rewrite H in H1. unfold del_sess in H1. apply filter_In in H1.
  destruct H1 as [H1 H3]. split; [exact H1|]. intros [Ef|Ht]; [|contradiction].
  rewrite Ef, N.eqb_refl in H3. discriminate.
Qed.

Lemma Z_do_restart dn qperm x : PL FZ (do_restart dn qperm x).
Proof.
  unfold do_restart. eapply PL_bind with (P := fun y => x_files y = []).
  - pose proof (rec_files dn (x_files x) x) as H. destruct (fold_m _ _ _) as [y|y]; cbn in *; [|exact I].
    destruct (x_files y) as [|g tl] eqn:E; [reflexivity|]. exfalso.
    destruct (H g (or_introl eq_refl)) as [H1 H2]. apply H2, in_map, H1.
  - intros y Hy. destruct (x_pjson y); [|unfold PL, FZ; rewrite Hy; constructor].
    apply PL_ctick. unfold FZ. cbn. rewrite Hy. constructor.
Qed.

(* ---- state level ---- *)
Record J7 (s : state) (a : aux) : Prop := mkJ7 {
  j_sess : SessOK (a_last a) (st_sess s);
  j_files : FileOK (a_last a) (st_files s);
  j_pend : Forall (fun p => QOK (a_sent a) (p_req p)) (st_pend s);
  j_chan : Forall (fun e => QOK (a_sent a) (snd e)) (st_chan s);
  j_pjson : forall l, st_pjson s = Some l -> Forall (fun p => QOK (a_sent a) (p_req p)) l;
  j_zero : st_alive s = true -> Forall Z (st_files s) }.

Lemma K7_enter o a s c : J7 s a -> K7 o a [] (enter s c).
Proof.
  intros [? ? ? ? ? ?]. exists a. cbn. split; [reflexivity|]. split; [constructor; cbn; auto|].
  split; [reflexivity|constructor].
Qed.

Lemma leave_J7 o a0 s b r : PR (K7 o a0 []) r -> (b = false -> PL FZ r) ->
  exists a', run7 o a0 (o_ev (snd (fst (leave s b r)))) = (true, a') /\ J7 (fst (fst (leave s b r))) a'.
Proof.
  intros HK HZ. destruct r as [y|y]; cbn [leave PR] in *.
  - destruct HK as (a' & Hrun & [H1 H2 H3 H4 H5] & _ & _). exists a'. destruct b; cbn.
    + split; [exact Hrun|]. constructor; cbn; auto; try constructor. discriminate.
    + split; [exact Hrun|]. constructor; cbn; auto. intros _. apply (HZ eq_refl).
  - destruct HK as (a' & Hrun & [H1 H2 H3 H4 H5] & _ & _). exists a'. cbn.
    split; [exact Hrun|]. constructor; cbn; auto; try constructor. discriminate.
Qed.

Lemma step_J7 s a o : J7 s a ->
  exists a', run7 o (pre7 a o (snd (fst (step s o)))) (o_ev (snd (fst (step s o)))) = (true, a') /\
             J7 (fst (fst (step s o))) a'.
Proof.
  intros HJ.
  assert (Hstay : forall o' r', pre7 a o' r' = a -> (s, r', @nil N) = (s, view (o_ret r') [] s, []) -> o_ev r' = [] ->
            exists a', run7 o' (pre7 a o' r') (o_ev r') = (true, a') /\ J7 s a').
  { intros o' r' E _ Ee. rewrite E, Ee. exists a. split; [reflexivity|exact HJ]. }
  destruct o.
  - (* Start *)
    destruct (st_alive s) eqn:Ea; [|cbn [step]; rewrite Ea; cbn; exists a; split; [reflexivity|exact HJ]].
    destruct (find_sess s0 (st_sess s)) eqn:Ef.
    + cbn [step]. rewrite Ea. unfold do_start. cbn [enter x_sess]. rewrite Ef. cbn.
      exists a. split; [reflexivity|]. destruct HJ as [? ? ? ? ? ?]. constructor; cbn; auto.
    + pose proof (start_ran s s0 id dn c Ea Ef) as Hran. unfold pre7. rewrite Hran. clear Hran.
      set (a0 := mkA ((s0, (0, 0)) :: a_last a) (a_sent a)).
      assert (HJ0 : J7 s a0).
      { destruct HJ as [H1 H2 H3 H4 H5 H6]. constructor; cbn; auto.
        - pose proof (find_sess_none _ _ Ef) as Hne. unfold SessOK in *. rewrite Forall_forall in *.
          intros se Hin. rewrite last_of_tl; [apply H1; exact Hin|]. intros E. apply (Hne se Hin). auto.
        - eapply Forall_impl; [|exact (H6 Ea)]. intros f Hf. left. exact Hf. }
      cbn [step]. rewrite Ea. apply leave_J7.
      * apply K7_do_start; [apply last_of_hd|apply K7_enter; exact HJ0].
      * intros _. apply Z_do_start. unfold FZ. cbn. apply (j_zero _ _ HJ Ea).
  - (* Stop *)
    cbn [step pre7]. destruct (st_alive s) eqn:Ea; [|cbn; exists a; split; [reflexivity|exact HJ]].
    apply leave_J7; [apply K7_do_stop, K7_enter; exact HJ|].
    intros _. apply Z_do_stop. unfold FZ. cbn. apply (j_zero _ _ HJ Ea).
  - (* InterimTick *)
    cbn [step pre7]. destruct (st_alive s) eqn:Ea; [|cbn; exists a; split; [reflexivity|exact HJ]].
    assert (HZ : Forall Z (x_files (enter s c))) by (cbn; apply (j_zero _ _ HJ Ea)).
    pose proof (K7_do_interim cs fe dn order c a (enter s c) HZ (K7_enter _ _ _ _ HJ)) as H.
    apply leave_J7.
    + destruct (do_interim _ _ _ _ _); cbn in *; tauto.
    + intros _. destruct (do_interim _ _ _ _ _); cbn in *; [|exact I]. unfold FZ. destruct H as [_ ->]. exact HZ.
  - (* ProcessQueued *)
    cbn [step pre7]. destruct (st_alive s) eqn:Ea; [|cbn; exists a; split; [reflexivity|exact HJ]].
    apply leave_J7; [apply K7_do_queue; [exact I|apply K7_enter; exact HJ]|].
    intros _. pose proof (F_do_queue (st_maxr s) dn (enter s c)) as H. destruct (do_queue _ _ _); cbn in *; [|exact I].
    unfold FZ. rewrite H. apply (j_zero _ _ HJ Ea).
  - (* RetryTick *)
    cbn [step pre7]. destruct (st_alive s) eqn:Ea; [|cbn; exists a; split; [reflexivity|exact HJ]].
    apply leave_J7; [apply K7_do_retry; [exact I|apply K7_enter; exact HJ]|].
    intros _. pose proof (F_do_retry (st_maxr s) dn order (enter s c)) as H. destruct (do_retry _ _ _ _); cbn in *; [|exact I].
    unfold FZ. rewrite H. apply (j_zero _ _ HJ Ea).
  - (* GracefulStop *)
    cbn [step pre7]. destruct (st_alive s) eqn:Ea; [|cbn; exists a; split; [reflexivity|exact HJ]].
    apply leave_J7; [apply K7_do_graceful, K7_enter; exact HJ|discriminate].
  - (* Crash *)
    cbn [step pre7]. destruct (st_alive s) eqn:Ea; [|cbn; exists a; split; [reflexivity|exact HJ]].
    apply leave_J7; [cbn; apply K7_enter; exact HJ|intros _; exact I].
  - (* Restart *)
    cbn [step pre7]. destruct (st_alive s) eqn:Ea; [cbn; exists a; split; [reflexivity|exact HJ]|].
    apply leave_J7; [apply K7_do_restart; [cbn; apply (j_files _ _ HJ)|apply K7_enter; exact HJ]|].
    intros _. apply Z_do_restart.
  - (* Final *)
    cbn. exists a. split; [reflexivity|exact HJ].
Qed.

Theorem holds7_from : forall ops s a, J7 s a -> holds7 a (trace_from s ops) = true.
Proof.
  induction ops as [|o ops IH]; intros s a HJ; [reflexivity|]. rewrite trace_from_cons. cbn [holds7].
  destruct (step_J7 s a o HJ) as (a' & Hrun & HJ'). rewrite Hrun. cbn. apply IH. exact HJ'.
Qed.

Theorem clause7_all : forall maxr ops, holds7 ainit (trace maxr ops) = true.
Proof.
  intros. apply holds7_from. constructor; cbn; auto; try constructor. discriminate.
Qed.

(* the acceptor the harness runs: clauses 1-6 first, then clause 7 on the same step *)
Lemma accept7_sound st o r :
  match accept7 st o r with
  | inl st' => accept (fst st) o r = inl (fst st') /\ run7 o (pre7 (snd st) o r) (o_ev r) = (true, snd st')
  | inr k => accept (fst st) o r = inr k \/
             (k = 7 /\ (exists ss', accept (fst st) o r = inl ss') /\ fst (run7 o (pre7 (snd st) o r) (o_ev r)) = false)
  end.
Proof.
  unfold accept7. destruct (accept (fst st) o r) as [ss'|k]; [|left; reflexivity].
  destruct (run7 o (pre7 (snd st) o r) (o_ev r)) as [ok a'] eqn:E. destruct ok; cbn.
  - split; reflexivity.
  - right. split; [reflexivity|]. split; [eauto|reflexivity].
Qed.

(* non-vacuity *)
Definition w7 : list op :=
  [Start 1 (1, 2, 3) [] 0; Start 2 (4, 5, 6) [] 0;
   InterimTick [(1, (5368709137, 9663676419)); (2, (7, 4294967296))] [] [] [1; 2] 0;
   InterimTick [(1, (1, 1)); (2, (8, 8))] [1] [(2, 3)] [1; 2] 0;
   Stop 1 1 99 99 [1] [(1, 2)] 0; ProcessQueued [] 0; ProcessQueued [] 0;
   GracefulStop [(2, (18446744073709551615, 3))] [] [] [] 0].
(* what the server saw for session 1 after the first interim: the second interim and the Stop (twice:
   dropped, then re-sent from the queue) all report the LAST ACCEPTED values, not 0 and not 99 *)
Definition w7_reports : list (N * N * (N * N)) :=
  map (fun e => (w_st (fst e), w_sid (fst e), (join (w_in (fst e)), join (w_out (fst e)))))
      (flat_map (fun x : op * out => o_ev (snd x)) (trace 3 w7)).
Lemma w7_ok : w7_reports =
  [(1, 1, (0, 0)); (1, 2, (0, 0));
   (3, 1, (5368709137, 9663676419)); (3, 2, (7, 4294967296));
   (3, 1, (5368709137, 9663676419)); (3, 2, (8, 8));
   (2, 1, (5368709137, 9663676419)); (3, 2, (8, 8)); (2, 1, (5368709137, 9663676419));
   (2, 2, (18446744073709551615, 3))].
Proof. vm_compute. reflexivity. Qed.

(* the monitor is not vacuous: the same history with the Stop reporting 0,0 (what a StopSession that
   forgets the session before the counter fallback would send) is rejected *)
Definition zero_stop (e : wrec * bool) : wrec * bool :=
  if (w_st (fst e) =? ST_STOP) && (w_sid (fst e) =? 1)
  then (mkW (w_st (fst e)) (w_sid (fst e)) (w_ident (fst e)) (0, None) (0, None) (w_cause (fst e)), snd e) else e.
Definition w7_bad : list (op * out) :=
  map (fun x : op * out =>
         let r := snd x in (fst x, mkO (o_ret r) (map zero_stop (o_ev r)) (o_alive r) (o_sess r) (o_pend r) (o_chan r) (o_files r) (o_pjson r)))
      (trace 3 w7).
Lemma w7_bad_rejected : holds7 ainit w7_bad = false /\ holds 6 (sinit 3) w7_bad = true.
Proof. split; vm_compute; reflexivity. Qed.
