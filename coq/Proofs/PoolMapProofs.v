From Coq Require Import NArith List Bool Lia ZifyN ZifyNat ZifyBool.
From Verif Require Import Model.PoolMap.
Import ListNotations.
Local Open Scope N_scope.

Section M.
Context {V : Type}.
Implicit Types (m : amap V) (k : N) (v : V).

Lemma aget_in k v m : aget k m = Some v -> In (k, v) m.
Proof.
  induction m as [|[k' v'] tl IH]; cbn; [discriminate|].
  destruct (N.eqb_spec k' k) as [->|Hne]; [intros [= ->]; auto|auto].
Qed.

Lemma in_keys k v m : In (k, v) m -> In k (map fst m).
Proof. intros H. apply in_map_iff. exists (k, v). auto. Qed.

Lemma aget_none_keys k m : aget k m = None <-> ~ In k (map fst m).
Proof.
  induction m as [|[k' v'] tl IH]; cbn; [tauto|].
  destruct (N.eqb_spec k' k) as [->|Hne]; [split; [discriminate|intros H; exfalso; auto]|].
  rewrite IH. tauto.
Qed.

Lemma in_aget k v m : awf m -> In (k, v) m -> aget k m = Some v.
Proof.
  unfold awf. induction m as [|[k' v'] tl IH]; cbn; [tauto|].
  intros Hnd [Heq|Hin].
  - inversion Heq; subst. rewrite N.eqb_refl. reflexivity.
  - inversion Hnd as [|? ? Hni Hnd']; subst.
    destruct (N.eqb_spec k' k) as [->|Hne]; [exfalso; apply Hni; eapply in_keys; eauto|auto].
Qed.

Lemma adel_cons k k' v m :
  adel k ((k', v) :: m) = if k' =? k then adel k m else (k', v) :: adel k m.
Proof. unfold adel; cbn. destruct (k' =? k); reflexivity. Qed.

Lemma aget_adel_eq k m : aget k (adel k m) = None.
Proof.
  induction m as [|[k' v'] tl IH]; cbn; [reflexivity|].
  destruct (N.eqb_spec k' k) as [->|Hne]; cbn; [exact IH|].
  destruct (N.eqb_spec k' k); [contradiction|exact IH].
Qed.

Lemma aget_adel_ne k k' m : k <> k' -> aget k' (adel k m) = aget k' m.
Proof.
  intros Hne. induction m as [|[k2 v2] tl IH]; cbn; [reflexivity|].
  destruct (N.eqb_spec k2 k) as [->|Hne2]; cbn.
  - destruct (N.eqb_spec k k'); [contradiction|exact IH].
  - destruct (N.eqb_spec k2 k'); [reflexivity|exact IH].
Qed.

Lemma aget_aset_eq k v m : aget k (aset k v m) = Some v.
Proof. unfold aset; cbn. rewrite N.eqb_refl. reflexivity. Qed.

Lemma aget_aset_ne k k' v m : k <> k' -> aget k' (aset k v m) = aget k' m.
Proof.
  intros Hne. unfold aset; cbn. destruct (N.eqb_spec k k'); [contradiction|].
  apply aget_adel_ne; assumption.
Qed.

Lemma keys_adel k m x : In x (map fst (adel k m)) <-> In x (map fst m) /\ x <> k.
Proof.
  unfold adel. rewrite !in_map_iff. split.
  - intros [[a b] [<- Hin]]. apply filter_In in Hin as [Hin Hf]. cbn in *. split; [exists (a, b); auto|].
    destruct (N.eqb_spec a k); [discriminate|assumption].
  - intros [[[a b] [<- Hin]] Hne]. exists (a, b). split; [reflexivity|]. apply filter_In. split; [assumption|].
    cbn in *. destruct (N.eqb_spec a k); [contradiction|reflexivity].
Qed.

Lemma awf_adel k m : awf m -> awf (adel k m).
Proof.
  unfold awf. induction m as [|[k' v'] tl IH]; cbn; [auto|].
  intros Hnd. inversion Hnd as [|? ? Hni Hnd']; subst.
  destruct (N.eqb_spec k' k) as [->|Hne]; cbn; [auto|].
  constructor; [|auto]. intros Hin. apply keys_adel in Hin. tauto.
Qed.

Lemma awf_aset k v m : awf m -> awf (aset k v m).
Proof.
  intros H. unfold awf, aset; cbn. constructor; [|apply awf_adel; exact H].
  intros Hin. apply keys_adel in Hin. tauto.
Qed.

Lemma adel_none k m : aget k m = None -> adel k m = m.
Proof.
  induction m as [|[k' v'] tl IH]; cbn [aget]; [reflexivity|]. rewrite adel_cons.
  destruct (N.eqb_spec k' k) as [->|Hne]; [discriminate|]. intros H. rewrite IH by exact H. reflexivity.
Qed.

Lemma asize_adel_some k v m : awf m -> aget k m = Some v -> asize (adel k m) + 1 = asize m.
Proof.
  unfold awf, asize. induction m as [|[k' v'] tl IH]; cbn [aget]; [discriminate|].
  intros Hnd. inversion Hnd as [|? ? Hni Hnd']; subst.
  destruct (N.eqb_spec k' k) as [->|Hne].
  - intros _. rewrite adel_cons, N.eqb_refl.
    rewrite (adel_none k tl); [cbn [length]; lia|]. apply aget_none_keys. exact Hni.
  - intros Hg. rewrite adel_cons. destruct (N.eqb_spec k' k); [contradiction|]. cbn [length].
    specialize (IH Hnd' Hg). lia.
Qed.

Lemma asize_aset_none k v m : aget k m = None -> asize (aset k v m) = asize m + 1.
Proof. intros H. unfold aset, asize. rewrite adel_none by exact H. cbn [length]. lia. Qed.

Lemma asize_aset_some k v v0 m : awf m -> aget k m = Some v0 -> asize (aset k v m) = asize m.
Proof.
  intros Hw Hg. pose proof (asize_adel_some k v0 m Hw Hg) as H. unfold aset, asize in *. cbn [length]. lia.
Qed.

Lemma ahas_true k m : ahas k m = true <-> exists v, aget k m = Some v.
Proof.
  unfold ahas. destruct (aget k m) as [v|]; split; intros H; eauto; [discriminate|].
  destruct H as [? H]; discriminate.
Qed.
End M.

(* filtering by a predicate on keys / on values *)
Lemma aget_filter_key {V} (f : N -> bool) k (m : amap V) :
  aget k (filter (fun p => f (fst p)) m) = if f k then aget k m else None.
Proof.
  induction m as [|[k' v'] tl IH]; cbn [filter aget fst]; [destruct (f k); reflexivity|].
  destruct (f k') eqn:Ef; cbn [aget].
  - destruct (N.eqb_spec k' k) as [->|Hne]; [rewrite Ef; reflexivity|exact IH].
  - destruct (N.eqb_spec k' k) as [->|Hne]; [rewrite Ef in *; exact IH|exact IH].
Qed.

Lemma aget_filter_val {V} (f : V -> bool) k (m : amap V) : awf m ->
  aget k (filter (fun p => f (snd p)) m) =
  match aget k m with Some v => if f v then Some v else None | None => None end.
Proof.
  unfold awf. induction m as [|[k' v'] tl IH]; cbn [filter aget snd map fst]; [reflexivity|].
  intros Hnd. inversion Hnd as [|? ? Hni Hnd']; subst. specialize (IH Hnd').
  destruct (N.eqb_spec k' k) as [->|Hne].
  - destruct (f v') eqn:Ef; cbn [aget]; [rewrite N.eqb_refl; reflexivity|].
    rewrite IH. apply aget_none_keys in Hni. rewrite Hni. reflexivity.
  - destruct (f v'); cbn [aget]; [destruct (N.eqb_spec k' k); [contradiction|exact IH]|exact IH].
Qed.

Lemma awf_filter {V} (f : N * V -> bool) (m : amap V) : awf m -> awf (filter f m).
Proof.
  unfold awf. induction m as [|[k v] tl IH]; cbn [filter map fst]; [auto|].
  intros Hnd. inversion Hnd as [|? ? Hni Hnd']; subst. destruct (f (k, v)); cbn [map fst]; [|auto].
  constructor; [|auto]. intros Hin. apply Hni. apply in_map_iff in Hin as [[a b] [<- Hin]].
  apply filter_In in Hin as [Hin _]. apply in_map_iff. exists (a, b). auto.
Qed.
