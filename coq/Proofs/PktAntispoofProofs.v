(* C07 for bpf/antispoof.c (Model/TcAntispoofPkt.v) *)
From Coq Require Import NArith List Bool Lia ZifyN ZifyNat ZifyBool.
From Verif Require Import Base.Word Model.PktMonad Model.TcAntispoofPkt Proofs.PktMonadProofs.
Import ListNotations.
Local Open Scope N_scope.

Lemma inb_cmp_bytes n bl off : off + N.of_nat (length bl) <= n -> inb n (cmp_bytes bl off).
Proof.
  revert off; induction bl as [|b bl IH]; intros off H; cbn [cmp_bytes]; [apply inb_ret|].
  cbn [length] in H. apply inb_bind; [apply inb_rd8; lia|intro x]. destruct (x =? b); [apply IH; lia|apply inb_ret].
Qed.
Lemma pu_cmp_bytes f0 Act bl off : pu f0 Act (cmp_bytes bl off).
Proof.
  revert off; induction bl as [|b bl IH]; intros off; cbn [cmp_bytes]; [apply pu_ret|].
  apply pu_bind; [apply pu_rd8|intro x]. destruct (x =? b); [apply IH|apply pu_ret].
Qed.

Lemma inb_antispoof mp n : inb n (antispoof_body mp n).
Proof.
  unfold antispoof_body. cbv zeta. inb_go.
  all: try (apply inb_bind; [apply inb_cmp_bytes; pose proof (firstn_le_length 16 (skipn 4 l)); pkt_arith|intro; cbv beta]); inb_go.
Qed.

Theorem no_oob_antispoof : forall mp f, run (antispoof_ingress mp) f <> Fault.
Proof. intros. apply inb_run. unfold antispoof_ingress. apply inb_dl. apply inb_antispoof. Qed.

(* the program never stores: whatever it returns, the frame is the one it was given *)
Lemma pu_antispoof mp f0 : pu f0 False (antispoof_body mp (flen f0)).
Proof.
  unfold antispoof_body. cbv zeta. pu_go.
  all: try (apply pu_bind; [apply pu_cmp_bytes|intro; cbv beta]); pu_go.
Qed.

Theorem untouched_antispoof : forall mp f v f', run (antispoof_ingress mp) f = Done v f' -> f' = f.
Proof.
  intros mp f v f' H.
  assert (P : pu f False (antispoof_ingress mp)) by (unfold antispoof_ingress; apply pu_dl; apply pu_antispoof).
  destruct (pu_run _ _ _ _ _ P H) as [E|E]; [exact E|destruct E].
Qed.

Lemma vd_cmp_bytes S bl off : vd S (cmp_bytes bl off).
Proof.
  revert off; induction bl as [|b bl IH]; intros off; cbn [cmp_bytes]; [apply vd_ret|].
  apply vd_bind; [apply vd_rd8|intro x]. destruct (x =? b); [apply IH|apply vd_ret].
Qed.

Definition tc_ok_or_shot (v : N) : bool := (v =? TC_ACT_OK) || (v =? TC_ACT_SHOT).

Lemma vdr_antispoof mp n : vdr tc_ok_or_shot (antispoof_body mp n).
Proof.
  unfold antispoof_body. cbv zeta. vdr_go.
  all: try (apply vdr_bind; [apply vd_cmp_bytes|intro; cbv beta]); vdr_go.
Qed.

Theorem verdict_antispoof : forall mp f v f', run (antispoof_ingress mp) f = Done v f' -> v = TC_ACT_OK \/ v = TC_ACT_SHOT.
Proof.
  intros mp f v f' H.
  assert (P : vdr tc_ok_or_shot (antispoof_ingress mp)) by (unfold antispoof_ingress; apply vdr_dl; intro; apply vdr_antispoof).
  apply (vdr_run _ _ _ _ _ P) in H. unfold tc_ok_or_shot in H. apply orb_true_iff in H. rewrite !N.eqb_eq in H. exact H.
Qed.
