(* Reasoning rules for the checked-access monad (C07).

   [inb n m]      : run on a frame of length n, m never yields OOB and keeps the length
                    until it returns (n is the program's data_end - data; the rules for rd*/wr* demand off + w <= n,
                    which the proofs discharge with lia from the program's own `>? dl` tests).
   [pu f0 A m]    : started on f0 itself (or with A already established) m hands on / exits with f0
                    unchanged, unless A.  A is proved at the first store of every path.
   [np P m]       : m has no exit with a verdict satisfying P and does not return normally with
                    such a value either (used after the first store of the DHCP reply path). *)
From Coq Require Import NArith List Bool Lia ZifyN ZifyNat ZifyBool.
From Verif Require Import Base.Word Model.PktMonad.
Import ListNotations.
Local Open Scope N_scope.

(* ---- basic facts *)
Lemma has_bytes_spec n f : has_bytes n f = (n <=? flen f).
Proof.
  unfold has_bytes, flen. destruct n as [|p]; [symmetry; apply N.leb_le; lia|].
  remember (N.to_nat (N.pos p - 1)) as k eqn:Hk.
  assert (Hp : N.pos p = N.of_nat (S k)) by lia. rewrite Hp. clear Hk Hp p.
  revert f; induction k as [|k IH]; intros [|x f]; cbn [skipn length]; try reflexivity.
  - symmetry. apply N.leb_le. lia.
  - specialize (IH f). destruct (skipn k f) eqn:E.
    + symmetry in IH |- *. apply N.leb_gt in IH. apply N.leb_gt. cbn [length]. lia.
    + symmetry in IH |- *. apply N.leb_le in IH. apply N.leb_le. cbn [length]. lia.
Qed.

Lemma set_nth_length k v l : length (set_nth k v l) = length l.
Proof. revert k; induction l as [|x l IH]; intros [|k]; cbn; auto. Qed.
Lemma flen_setb off v f : flen (setb off v f) = flen f.
Proof. unfold flen, setb. now rewrite set_nth_length. Qed.
Lemma flen_set16 off v f : flen (set16 off v f) = flen f.
Proof. unfold set16. now rewrite !flen_setb. Qed.
Lemma flen_set32 off v f : flen (set32 off v f) = flen f.
Proof. unfold set32. now rewrite !flen_setb. Qed.

Lemma land15_le x : N.land x 15 <= 15.
Proof. change 15 with (N.ones 4) at 1. rewrite N.land_ones. pose proof (N.mod_lt x (2 ^ 4)). cbn in *. lia. Qed.

(* ---- inb *)
Definition inb {A} (n : N) (m : M A) : Prop :=
  forall f, flen f = n ->
  match m f with OOB => False | Val _ f' => flen f' = n | Exit _ _ => True end.

Lemma inb_ret {A} n (a : A) : inb n (ret a).
Proof. intros f H; exact H. Qed.
Lemma inb_exit {A} n v : inb n (@exit A v).
Proof. intros f H; exact I. Qed.
Lemma inb_bind {A B} n (m : M A) (k : A -> M B) :
  inb n m -> (forall a, inb n (k a)) -> inb n (bind m k).
Proof.
  intros Hm Hk f Hf. unfold bind. specialize (Hm f Hf). destruct (m f) as [a f'|v f'|]; auto.
  apply Hk; exact Hm.
Qed.
Lemma inb_rd8 n off : off + 1 <= n -> inb n (rd8 off).
Proof. intros H f Hf. unfold rd8. rewrite has_bytes_spec, Hf. destruct (off + 1 <=? n) eqn:E; [exact Hf|lia]. Qed.
Lemma inb_rd16 n off : off + 2 <= n -> inb n (rd16 off).
Proof. intros H f Hf. unfold rd16. rewrite has_bytes_spec, Hf. destruct (off + 2 <=? n) eqn:E; [exact Hf|lia]. Qed.
Lemma inb_rd32 n off : off + 4 <= n -> inb n (rd32 off).
Proof. intros H f Hf. unfold rd32. rewrite has_bytes_spec, Hf. destruct (off + 4 <=? n) eqn:E; [exact Hf|lia]. Qed.
Lemma inb_wr8 n off v : off + 1 <= n -> inb n (wr8 off v).
Proof. intros H f Hf. unfold wr8. rewrite has_bytes_spec, Hf. destruct (off + 1 <=? n) eqn:E; [now rewrite flen_setb|lia]. Qed.
Lemma inb_wr16 n off v : off + 2 <= n -> inb n (wr16 off v).
Proof. intros H f Hf. unfold wr16. rewrite has_bytes_spec, Hf. destruct (off + 2 <=? n) eqn:E; [now rewrite flen_set16|lia]. Qed.
Lemma inb_wr32 n off v : off + 4 <= n -> inb n (wr32 off v).
Proof. intros H f Hf. unfold wr32. rewrite has_bytes_spec, Hf. destruct (off + 4 <=? n) eqn:E; [now rewrite flen_set32|lia]. Qed.

Lemma inb_rd_bytes n k off : off + N.of_nat k <= n -> inb n (rd_bytes k off).
Proof.
  revert off; induction k as [|k IH]; intros off H; cbn [rd_bytes]; [apply inb_ret|].
  apply inb_bind; [apply inb_rd8; lia|intro b]. apply inb_bind; [apply IH; lia|intro tl; apply inb_ret].
Qed.
Lemma inb_wr_bytes n l off : off + N.of_nat (length l) <= n -> inb n (wr_bytes l off).
Proof.
  revert off; induction l as [|b l IH]; intros off H; cbn [wr_bytes]; [apply inb_ret|].
  cbn [length] in H. apply inb_bind; [apply inb_wr8; lia|intros _]. apply IH; lia.
Qed.
Lemma inb_wr_zero n k off : off + N.of_nat k <= n -> inb n (wr_zero k off).
Proof.
  revert off; induction k as [|k IH]; intros off H; cbn [wr_zero]; [apply inb_ret|].
  apply inb_bind; [apply inb_wr8; lia|intros _]. apply IH; lia.
Qed.

(* ---- pu *)
Definition pu {A} (f0 : frame) (Act : Prop) (m : M A) : Prop :=
  forall f, f = f0 \/ Act ->
  match m f with
  | OOB => True
  | Val _ f' => f' = f0 \/ Act
  | Exit _ f' => f' = f0 \/ Act
  end.

Lemma pu_act {A} f0 (Act : Prop) (m : M A) : Act -> pu f0 Act m.
Proof. intros HA f _. destruct (m f); auto. Qed.
Lemma pu_ret {A} f0 Act (a : A) : pu f0 Act (ret a).
Proof. intros f H; exact H. Qed.
Lemma pu_exit {A} f0 Act v : pu f0 Act (@exit A v).
Proof. intros f H; exact H. Qed.
Lemma pu_bind {A B} f0 Act (m : M A) (k : A -> M B) :
  pu f0 Act m -> (forall a, pu f0 Act (k a)) -> pu f0 Act (bind m k).
Proof.
  intros Hm Hk f Hf. unfold bind. specialize (Hm f Hf). destruct (m f) as [a f'|v f'|]; auto.
  apply Hk; exact Hm.
Qed.
(* a load tells the continuation which byte(s) of the ORIGINAL frame it got *)
Lemma pu_bind_rd8 {B} f0 Act off (k : N -> M B) :
  (forall x, x = getb off f0 -> pu f0 Act (k x)) -> pu f0 Act (bind (rd8 off) k).
Proof.
  intros Hk f [Hf|HA]; [subst f|apply pu_act; [exact HA|auto]].
  unfold bind, rd8. destruct (has_bytes (off + 1) f0); [|exact I]. apply Hk; auto.
Qed.
Lemma pu_bind_rd16 {B} f0 Act off (k : N -> M B) :
  (forall x, x = get16 off f0 -> pu f0 Act (k x)) -> pu f0 Act (bind (rd16 off) k).
Proof.
  intros Hk f [Hf|HA]; [subst f|apply pu_act; [exact HA|auto]].
  unfold bind, rd16. destruct (has_bytes (off + 2) f0); [|exact I]. apply Hk; auto.
Qed.
Lemma pu_bind_rd32 {B} f0 Act off (k : N -> M B) :
  (forall x, x = get32 off f0 -> pu f0 Act (k x)) -> pu f0 Act (bind (rd32 off) k).
Proof.
  intros Hk f [Hf|HA]; [subst f|apply pu_act; [exact HA|auto]].
  unfold bind, rd32. destruct (has_bytes (off + 4) f0); [|exact I]. apply Hk; auto.
Qed.
Lemma pu_rd8 f0 Act off : pu f0 Act (rd8 off).
Proof. intros f H. unfold rd8. destruct (has_bytes _ f); auto. Qed.
Lemma pu_rd16 f0 Act off : pu f0 Act (rd16 off).
Proof. intros f H. unfold rd16. destruct (has_bytes _ f); auto. Qed.
Lemma pu_rd32 f0 Act off : pu f0 Act (rd32 off).
Proof. intros f H. unfold rd32. destruct (has_bytes _ f); auto. Qed.
Lemma pu_rd_bytes f0 Act k off : pu f0 Act (rd_bytes k off).
Proof.
  revert off; induction k as [|k IH]; intros off; cbn [rd_bytes]; [apply pu_ret|].
  apply pu_bind; [apply pu_rd8|intro b]. apply pu_bind; [apply IH|intro; apply pu_ret].
Qed.

(* ---- np *)
Definition np {A} (P : N -> bool) (Q : A -> Prop) (m : M A) : Prop :=
  forall f, match m f with OOB => True | Val a _ => Q a | Exit v _ => P v = false end.

Lemma np_ret {A} P (Q : A -> Prop) a : Q a -> np P Q (ret a).
Proof. intros H f; exact H. Qed.
Lemma np_exit {A} P (Q : A -> Prop) v : P v = false -> np P Q (@exit A v).
Proof. intros H f; exact H. Qed.
Lemma np_bind {A B} P (Q1 : A -> Prop) (Q : B -> Prop) (m : M A) (k : A -> M B) :
  np P Q1 m -> (forall a, Q1 a -> np P Q (k a)) -> np P Q (bind m k).
Proof.
  intros Hm Hk f. unfold bind. specialize (Hm f). destruct (m f) as [a f'|v f'|]; auto.
  apply Hk; exact Hm.
Qed.
Lemma np_prim {A} P (m : M A) : (forall f, match m f with Exit _ _ => False | _ => True end) -> np P (fun _ => True) m.
Proof. intros H f. specialize (H f). destruct (m f); auto. contradiction. Qed.
Lemma np_rd8 P off : np P (fun _ => True) (rd8 off).
Proof. apply np_prim. intro f. unfold rd8. destruct (has_bytes _ f); exact I. Qed.
Lemma np_rd16 P off : np P (fun _ => True) (rd16 off).
Proof. apply np_prim. intro f. unfold rd16. destruct (has_bytes _ f); exact I. Qed.
Lemma np_rd32 P off : np P (fun _ => True) (rd32 off).
Proof. apply np_prim. intro f. unfold rd32. destruct (has_bytes _ f); exact I. Qed.
Lemma np_wr8 P off v : np P (fun _ => True) (wr8 off v).
Proof. apply np_prim. intro f. unfold wr8. destruct (has_bytes _ f); exact I. Qed.
Lemma np_wr16 P off v : np P (fun _ => True) (wr16 off v).
Proof. apply np_prim. intro f. unfold wr16. destruct (has_bytes _ f); exact I. Qed.
Lemma np_wr32 P off v : np P (fun _ => True) (wr32 off v).
Proof. apply np_prim. intro f. unfold wr32. destruct (has_bytes _ f); exact I. Qed.
Lemma np_weaken {A} P (Q Q' : A -> Prop) m : np P Q m -> (forall a, Q a -> Q' a) -> np P Q' m.
Proof. intros H HQ f. specialize (H f). destruct (m f); auto. Qed.
Lemma np_wr_bytes P l off : np P (fun _ => True) (wr_bytes l off).
Proof.
  revert off; induction l as [|b l IH]; intros off; cbn [wr_bytes]; [apply np_ret; exact I|].
  eapply np_bind; [apply np_wr8|intros _ _; apply IH].
Qed.
Lemma np_wr_zero P k off : np P (fun _ => True) (wr_zero k off).
Proof.
  revert off; induction k as [|k IH]; intros off; cbn [wr_zero]; [apply np_ret; exact I|].
  eapply np_bind; [apply np_wr8|intros _ _; apply IH].
Qed.

(* ---- from the predicates to statements about [run] *)
Lemma inb_run (m : M N) f : inb (flen f) m -> run m f <> Fault.
Proof. intros H. specialize (H f eq_refl). unfold run. destruct (m f); [discriminate|discriminate|contradiction]. Qed.
Lemma pu_run (m : M N) f Act v f' : pu f Act m -> run m f = Done v f' -> f' = f \/ Act.
Proof.
  intros H. specialize (H f (or_introl eq_refl)). unfold run. destruct (m f) as [a g|w g|]; intros E; inversion E; subst; auto.
Qed.

(* ---- structural rules used by the traversal tactics *)
Lemma inb_bind_assoc {A B C} n (m : M A) (k : A -> M B) (k2 : B -> M C) :
  inb n (bind m (fun a => bind (k a) k2)) -> inb n (bind (bind m k) k2).
Proof. intros H f Hf. specialize (H f Hf). unfold bind in *. destruct (m f); auto. Qed.
Lemma inb_bind_ret {A B} n (a : A) (k : A -> M B) : inb n (k a) -> inb n (bind (ret a) k).
Proof. intros H f Hf. exact (H f Hf). Qed.
Lemma inb_bind_exit {A B} n v (k : A -> M B) : inb n (bind (exit v) k).
Proof. intros f Hf. exact I. Qed.

Lemma pu_bind_assoc {A B C} f0 Act (m : M A) (k : A -> M B) (k2 : B -> M C) :
  pu f0 Act (bind m (fun a => bind (k a) k2)) -> pu f0 Act (bind (bind m k) k2).
Proof. intros H f Hf. specialize (H f Hf). unfold bind in *. destruct (m f); auto. Qed.
Lemma pu_bind_ret {A B} f0 Act (a : A) (k : A -> M B) : pu f0 Act (k a) -> pu f0 Act (bind (ret a) k).
Proof. intros H f Hf. exact (H f Hf). Qed.
Lemma pu_bind_exit {A B} f0 Act v (k : A -> M B) : pu f0 Act (bind (exit v) k).
Proof. intros f Hf. exact Hf. Qed.

Lemma np_bind_assoc {A B C} P (Q : C -> Prop) (m : M A) (k : A -> M B) (k2 : B -> M C) :
  np P Q (bind m (fun a => bind (k a) k2)) -> np P Q (bind (bind m k) k2).
Proof. intros H f. specialize (H f). unfold bind in *. destruct (m f); auto. Qed.
Lemma np_bind_ret {A B} P (Q : B -> Prop) (a : A) (k : A -> M B) : np P Q (k a) -> np P Q (bind (ret a) k).
Proof. intros H f. exact (H f). Qed.
Lemma np_bind_exit {A B} P (Q : B -> Prop) v (k : A -> M B) : P v = false -> np P Q (bind (exit v) k).
Proof. intros H f. exact H. Qed.
Lemma np_bind_prim {A B} P (Q : B -> Prop) (m : M A) (k : A -> M B) :
  np P (fun _ => True) m -> (forall a, np P Q (k a)) -> np P Q (bind m k).
Proof. intros Hm Hk. eapply np_bind; [exact Hm|intros a _; apply Hk]. Qed.

(* ---- arithmetic side conditions: the hypotheses are the program's own tests, as boolean
   equations ((off + n <? dl) = false ...); N.land x 15 is bounded by 15 *)
Ltac land_facts :=
  repeat match goal with
  | |- context [N.land ?x 15] =>
      lazymatch goal with H : N.land x 15 <= 15 |- _ => fail | _ => pose proof (land15_le x) end
  | _ : context [N.land ?x 15] |- _ =>
      lazymatch goal with H : N.land x 15 <= 15 |- _ => fail | _ => pose proof (land15_le x) end
  end.
Ltac firstn_facts :=
  repeat match goal with
  | |- context [length (firstn ?k ?l)] =>
      lazymatch goal with H : (length (firstn k l) <= k)%nat |- _ => fail | _ => pose proof (firstn_le_length k l) end
  end.
Ltac split_ifs :=
  repeat match goal with
  | H : context [if ?c then _ else _] |- _ => destruct c eqn:?
  | |- context [if ?c then _ else _] => destruct c eqn:?
  end.
Ltac pkt_arith :=
  land_facts; firstn_facts; cbn [N.of_nat Pos.of_succ_nat Pos.succ length] in *;
  first [lia | split_ifs; lia].

(* hooks: program-specific lemmas for the fixpoints (loops) a program uses *)
Ltac inb_extra := fail.
Ltac pu_extra := fail.
Ltac vd_extra := fail.

(* ---- traversal for inb *)
Ltac inb_step :=
  lazymatch goal with
  | |- inb _ (bind (bind _ _) _) => apply inb_bind_assoc
  | |- inb _ (bind (ret _) _) => apply inb_bind_ret; cbv beta match
  | |- inb _ (bind (exit _) _) => apply inb_bind_exit
  | |- inb _ (bind (rd8 _) _) => apply inb_bind; [apply inb_rd8; pkt_arith|intro; cbv beta]
  | |- inb _ (bind (rd16 _) _) => apply inb_bind; [apply inb_rd16; pkt_arith|intro; cbv beta]
  | |- inb _ (bind (rd32 _) _) => apply inb_bind; [apply inb_rd32; pkt_arith|intro; cbv beta]
  | |- inb _ (bind (wr8 _ _) _) => apply inb_bind; [apply inb_wr8; pkt_arith|intro; cbv beta]
  | |- inb _ (bind (wr16 _ _) _) => apply inb_bind; [apply inb_wr16; pkt_arith|intro; cbv beta]
  | |- inb _ (bind (wr32 _ _) _) => apply inb_bind; [apply inb_wr32; pkt_arith|intro; cbv beta]
  | |- inb _ (bind (rd_bytes _ _) _) => apply inb_bind; [apply inb_rd_bytes; pkt_arith|intro; cbv beta]
  | |- inb _ (bind (wr_bytes _ _) _) => apply inb_bind; [apply inb_wr_bytes; pkt_arith|intro; cbv beta]
  | |- inb _ (bind (wr_zero _ _) _) => apply inb_bind; [apply inb_wr_zero; pkt_arith|intro; cbv beta]
  | |- inb _ (bind (match ?c with _ => _ end) _) => destruct c eqn:?
  | |- inb _ (match ?c with _ => _ end) => destruct c eqn:?
  | |- inb _ (ret _) => apply inb_ret
  | |- inb _ (exit _) => apply inb_exit
  | |- inb _ (rd8 _) => apply inb_rd8; pkt_arith
  | |- inb _ (rd16 _) => apply inb_rd16; pkt_arith
  | |- inb _ (rd32 _) => apply inb_rd32; pkt_arith
  | |- inb _ (wr8 _ _) => apply inb_wr8; pkt_arith
  | |- inb _ (wr16 _ _) => apply inb_wr16; pkt_arith
  | |- inb _ (wr32 _ _) => apply inb_wr32; pkt_arith
  | |- inb _ (rd_bytes _ _) => apply inb_rd_bytes; pkt_arith
  | |- inb _ (wr_bytes _ _) => apply inb_wr_bytes; pkt_arith
  | |- inb _ (wr_zero _ _) => apply inb_wr_zero; pkt_arith
  | |- inb _ (bind _ _) => apply inb_bind; [inb_extra|intro; cbv beta]
  | |- inb _ _ => inb_extra
  end.
Ltac inb_go := repeat inb_step.
(* modular variant: a branching block in front of a continuation is proved on its own (the
   continuation then knows nothing about the path taken inside the block) *)
Ltac inb_stepm :=
  lazymatch goal with
  | |- inb _ (bind (match ?c with _ => _ end) _) => apply inb_bind; [|intro; cbv beta]
  | _ => inb_step
  end.
Ltac inb_gom := repeat inb_stepm.

(* ---- traversal for pu up to the first store (where the goal becomes the Act predicate) *)
Ltac pu_step :=
  lazymatch goal with
  | |- pu _ _ (bind (bind _ _) _) => apply pu_bind_assoc
  | |- pu _ _ (bind (ret _) _) => apply pu_bind_ret; cbv beta match
  | |- pu _ _ (bind (exit _) _) => apply pu_bind_exit
  | |- pu _ _ (bind (rd8 _) _) => apply pu_bind_rd8; intros ? ?; cbv beta
  | |- pu _ _ (bind (rd16 _) _) => apply pu_bind_rd16; intros ? ?; cbv beta
  | |- pu _ _ (bind (rd32 _) _) => apply pu_bind_rd32; intros ? ?; cbv beta
  | |- pu _ _ (bind (rd_bytes _ _) _) => apply pu_bind; [apply pu_rd_bytes|intro; cbv beta]
  | |- pu _ _ (bind (match ?c with _ => _ end) _) => destruct c eqn:?
  | |- pu _ _ (match ?c with _ => _ end) => destruct c eqn:?
  | |- pu _ _ (ret _) => apply pu_ret
  | |- pu _ _ (exit _) => apply pu_exit
  | |- pu _ _ (rd8 _) => apply pu_rd8
  | |- pu _ _ (rd16 _) => apply pu_rd16
  | |- pu _ _ (rd32 _) => apply pu_rd32
  | |- pu _ _ (rd_bytes _ _) => apply pu_rd_bytes
  | |- pu _ _ (bind _ _) => apply pu_bind; [pu_extra|intro; cbv beta]
  | |- pu _ _ _ => pu_extra
  end.
Ltac pu_go := repeat pu_step.
Ltac pu_stepm :=
  lazymatch goal with
  | |- pu _ _ (bind (match ?c with _ => _ end) _) => apply pu_bind; [|intro; cbv beta]
  | _ => pu_step
  end.
Ltac pu_gom := repeat pu_stepm.

(* programs take dl = data_end - data from the frame they are started on *)
Lemma inb_dl {A} n (body : N -> M A) : inb n (body n) -> inb n (fun f => body (flen f) f).
Proof. intros H f Hf. rewrite Hf. apply H; auto. Qed.
Lemma pu_dl {A} f0 Act (body : N -> M A) : pu f0 Act (body (flen f0)) -> pu f0 Act (fun f => body (flen f) f).
Proof.
  intros H f [Hf|HA]; [subst f; apply H; auto|].
  destruct (body (flen f) f); auto.
Qed.

(* ---- verdicts: every `return` of the program yields a value in S *)
Definition vd {A} (S : N -> bool) (m : M A) : Prop :=
  forall f, match m f with Exit v _ => S v = true | _ => True end.
Definition vdr (S : N -> bool) (m : M N) : Prop :=
  forall f, match m f with Exit v _ => S v = true | Val v _ => S v = true | OOB => True end.

Lemma vd_noexit {A} S (m : M A) : (forall f, match m f with Exit _ _ => False | _ => True end) -> vd S m.
Proof. intros H f. specialize (H f). destruct (m f); auto; try contradiction. Qed.
Lemma vd_ret {A} S (a : A) : vd S (ret a). Proof. intro f; exact I. Qed.
Lemma vd_exit {A} S v : S v = true -> vd S (@exit A v). Proof. intros H f; exact H. Qed.
Lemma vd_rd8 S off : vd S (rd8 off). Proof. apply vd_noexit. intro f. unfold rd8. destruct (has_bytes _ f); exact I. Qed.
Lemma vd_rd16 S off : vd S (rd16 off). Proof. apply vd_noexit. intro f. unfold rd16. destruct (has_bytes _ f); exact I. Qed.
Lemma vd_rd32 S off : vd S (rd32 off). Proof. apply vd_noexit. intro f. unfold rd32. destruct (has_bytes _ f); exact I. Qed.
Lemma vd_wr8 S off v : vd S (wr8 off v). Proof. apply vd_noexit. intro f. unfold wr8. destruct (has_bytes _ f); exact I. Qed.
Lemma vd_wr16 S off v : vd S (wr16 off v). Proof. apply vd_noexit. intro f. unfold wr16. destruct (has_bytes _ f); exact I. Qed.
Lemma vd_wr32 S off v : vd S (wr32 off v). Proof. apply vd_noexit. intro f. unfold wr32. destruct (has_bytes _ f); exact I. Qed.
Lemma vd_bind {A B} S (m : M A) (k : A -> M B) : vd S m -> (forall a, vd S (k a)) -> vd S (bind m k).
Proof. intros Hm Hk f. unfold bind. specialize (Hm f). destruct (m f) as [a g|v g|]; auto; try apply Hk. Qed.
Lemma vdr_bind {A} S (m : M A) (k : A -> M N) : vd S m -> (forall a, vdr S (k a)) -> vdr S (bind m k).
Proof. intros Hm Hk f. unfold bind. specialize (Hm f). destruct (m f) as [a g|v g|]; auto; try apply Hk. Qed.
Lemma vdr_ret S v : S v = true -> vdr S (ret v). Proof. intros H f; exact H. Qed.
Lemma vdr_exit S v : S v = true -> vdr S (exit v). Proof. intros H f; exact H. Qed.
Lemma vd_rd_bytes S k off : vd S (rd_bytes k off).
Proof.
  revert off; induction k as [|k IH]; intros off; cbn [rd_bytes]; [apply vd_ret|].
  apply vd_bind; [apply vd_rd8|intro]. apply vd_bind; [apply IH|intro; apply vd_ret].
Qed.
Lemma vd_wr_bytes S l off : vd S (wr_bytes l off).
Proof.
  revert off; induction l as [|b l IH]; intros off; cbn [wr_bytes]; [apply vd_ret|].
  apply vd_bind; [apply vd_wr8|intro; apply IH].
Qed.
Lemma vd_wr_zero S k off : vd S (wr_zero k off).
Proof.
  revert off; induction k as [|k IH]; intros off; cbn [wr_zero]; [apply vd_ret|].
  apply vd_bind; [apply vd_wr8|intro; apply IH].
Qed.
Lemma vd_bind_assoc {A B C} S (m : M A) (k : A -> M B) (k2 : B -> M C) :
  vd S (bind m (fun a => bind (k a) k2)) -> vd S (bind (bind m k) k2).
Proof. intros H f. specialize (H f). unfold bind in *. destruct (m f); auto. Qed.
Lemma vdr_bind_assoc {A B} S (m : M A) (k : A -> M B) (k2 : B -> M N) :
  vdr S (bind m (fun a => bind (k a) k2)) -> vdr S (bind (bind m k) k2).
Proof. intros H f. specialize (H f). unfold bind in *. destruct (m f); auto. Qed.
Lemma vdr_bind_ret {A} S (a : A) (k : A -> M N) : vdr S (k a) -> vdr S (bind (ret a) k).
Proof. intros H f. exact (H f). Qed.
Lemma vdr_bind_exit {A} S v (k : A -> M N) : S v = true -> vdr S (bind (exit v) k).
Proof. intros H f. exact H. Qed.
Lemma vdr_dl S (body : N -> M N) : (forall n, vdr S (body n)) -> vdr S (fun f => body (flen f) f).
Proof. intros H f. apply H. Qed.
Lemma vdr_run S (m : M N) f v f' : vdr S m -> run m f = Done v f' -> S v = true.
Proof. intros H. specialize (H f). unfold run. destruct (m f); intros E; inversion E; subst; auto. Qed.

Ltac vd_prim :=
  first [apply vd_rd8|apply vd_rd16|apply vd_rd32|apply vd_wr8|apply vd_wr16|apply vd_wr32
        |apply vd_rd_bytes|apply vd_wr_bytes|apply vd_wr_zero|vd_extra].
Ltac vdr_step :=
  lazymatch goal with
  | |- vdr _ (bind (bind _ _) _) => apply vdr_bind_assoc
  | |- vdr _ (bind (ret _) _) => apply vdr_bind_ret; cbv beta match
  | |- vdr _ (bind (exit _) _) => apply vdr_bind_exit; reflexivity
  | |- vdr _ (bind (match ?c with _ => _ end) _) => destruct c
  | |- vdr _ (match ?c with _ => _ end) => destruct c
  | |- vdr _ (bind _ _) => apply vdr_bind; [vd_prim|intro; cbv beta]
  | |- vdr _ (ret _) => apply vdr_ret; reflexivity
  | |- vdr _ (exit _) => apply vdr_exit; reflexivity
  end.
Ltac vdr_go := repeat vdr_step.
(* vd traversal (blocks that do not produce the final value) and the modular variant of vdr *)
Ltac vd_step :=
  lazymatch goal with
  | |- vd _ (bind (bind _ _) _) => apply vd_bind_assoc
  | |- vd _ (bind (match ?c with _ => _ end) _) => apply vd_bind; [|intro; cbv beta]
  | |- vd _ (match ?c with _ => _ end) => destruct c
  | |- vd _ (bind _ _) => apply vd_bind; [|intro; cbv beta]
  | |- vd _ (ret _) => apply vd_ret
  | |- vd _ (exit _) => apply vd_exit; reflexivity
  | |- vd _ _ => vd_prim
  end.
Ltac vd_go := repeat vd_step.
Ltac vdr_stepm :=
  lazymatch goal with
  | |- vdr _ (bind (match ?c with _ => _ end) _) => apply vdr_bind; [vd_go|intro; cbv beta]
  | _ => vdr_step
  end.
Ltac vdr_gom := repeat vdr_stepm.

(* ---- pq: a program whose stores are all followed by a non-pass verdict (DHCP fast path).
   Read-only blocks are discharged with pu ... False; from the first store on, np. *)
Definition is_xdp_pass (v : N) : bool := v =? XDP_PASS.
Definition pq (f0 : frame) (m : M N) : Prop :=
  forall f, f = f0 ->
  match m f with OOB => True | Val v f' => f' = f0 \/ v <> XDP_PASS | Exit v f' => f' = f0 \/ v <> XDP_PASS end.

Lemma pq_ret f0 v : pq f0 (ret v). Proof. intros f H; left; exact H. Qed.
Lemma pq_exit f0 v : pq f0 (exit v). Proof. intros f H; left; exact H. Qed.
Lemma pq_bind_ro {A} f0 (m : M A) (k : A -> M N) : pu f0 False m -> (forall a, pq f0 (k a)) -> pq f0 (bind m k).
Proof.
  intros Hm Hk f Hf. unfold bind. specialize (Hm f (or_introl Hf)).
  destruct (m f) as [a g|v g|]; auto.
  - destruct Hm as [E|[]]. apply Hk; exact E.
  - destruct Hm as [E|[]]. left; exact E.
Qed.
Lemma pq_bind_assoc {A B} f0 (m : M A) (k : A -> M B) (k2 : B -> M N) :
  pq f0 (bind m (fun a => bind (k a) k2)) -> pq f0 (bind (bind m k) k2).
Proof. intros H f Hf. specialize (H f Hf). unfold bind in *. destruct (m f); auto. Qed.
Lemma pq_bind_ret {A} f0 (a : A) (k : A -> M N) : pq f0 (k a) -> pq f0 (bind (ret a) k).
Proof. intros H f Hf. exact (H f Hf). Qed.
Lemma pq_bind_exit {A} f0 v (k : A -> M N) : pq f0 (bind (exit v) k).
Proof. intros f Hf. left; exact Hf. Qed.
Lemma pq_np f0 (m : M N) : np is_xdp_pass (fun v => is_xdp_pass v = false) m -> pq f0 m.
Proof.
  intros H f _. specialize (H f).
  destruct (m f) as [v g|v g|]; auto; right; intro E; subst v; discriminate.
Qed.
Lemma pq_dl f0 (body : N -> M N) : pq f0 (body (flen f0)) -> pq f0 (fun f => body (flen f) f).
Proof. intros H f Hf. subst f. apply H; reflexivity. Qed.
Lemma pq_run (m : M N) f v f' : pq f m -> run m f = Done v f' -> v = XDP_PASS -> f' = f.
Proof.
  intros H. specialize (H f eq_refl). unfold run.
  destruct (m f) as [a g|w g|]; intros E Hv; inversion E; subst; destruct H as [H|H]; auto; contradiction.
Qed.

Ltac pq_step :=
  lazymatch goal with
  | |- pq _ (bind (bind _ _) _) => apply pq_bind_assoc
  | |- pq _ (bind (ret _) _) => apply pq_bind_ret; cbv beta match
  | |- pq _ (bind (exit _) _) => apply pq_bind_exit
  | |- pq _ (bind _ _) => apply pq_bind_ro; [solve [pu_gom]|intro; cbv beta]
  | |- pq _ (match ?c with _ => _ end) => destruct c eqn:?
  | |- pq _ (ret _) => apply pq_ret
  | |- pq _ (exit _) => apply pq_exit
  end.
Ltac pq_go := repeat pq_step.

Ltac np_extra := fail.
Ltac np_prim :=
  first [apply np_rd8|apply np_rd16|apply np_rd32|apply np_wr8|apply np_wr16|apply np_wr32
        |apply np_wr_bytes|apply np_wr_zero|np_extra].
Ltac np_step :=
  lazymatch goal with
  | |- np _ _ (bind (bind _ _) _) => apply np_bind_assoc
  | |- np _ _ (bind (ret _) _) => apply np_bind_ret; cbv beta match
  | |- np _ _ (bind (exit _) _) => apply np_bind_exit; first [reflexivity|exfalso; pkt_arith]
  | |- np _ _ (bind (match ?c with _ => _ end) _) => destruct c eqn:?
  | |- np _ _ (match ?c with _ => _ end) => destruct c eqn:?
  | |- np _ _ (bind _ _) => apply np_bind_prim; [np_prim|intro; cbv beta]
  | |- np _ _ (exit _) => apply np_exit; first [reflexivity|exfalso; pkt_arith]
  | |- np _ _ _ => np_extra
  end.
Ltac np_go := repeat np_step.
