(* C20 — lemmas about Model/Indexes.v (primary map + secondary indexes). *)
From Coq Require Import ZArith NArith List Bool Lia ZifyN ZifyNat ZifyBool.
From Verif Require Import Base.Word Model.Keys Model.Indexes Proofs.KeysProofs.
Import ListNotations.
Local Open Scope N_scope.

Definition i_next (st : ist) (o : iop) : ist := fst (fst (i_step st o)).
Definition i_run (st : ist) (ops : list iop) : ist := fold_left i_next ops st.

(* forward and reverse agree: the index names an entity under key (i, k) exactly when that entity is
   stored and currently holds (i, k) in one of its indexed fields *)
Definition idx_agree (st : ist) : Prop :=
  forall i k id, get2 (i_idx st) i k = Some id <->
                 exists ks, aget (i_prim st) id = Some ks /\ In (i, k) ks.

(* ---- refutations on the unchanged code (each is replayed on the real store by the check) ---- *)
(* state.Store leases: two leases with one MAC, the newer one deleted *)
Theorem idx_agree_refuted_duplicate_key :
  exists ops, ~ idx_agree (i_run (i_init 1 [] []) ops).
Proof.
  exists [ICreate 0 [(0, 0); (1, 7)]; ICreate 1 [(0, 1); (1, 7)]; IDelete 1]. intros H.
  assert (X : get2 (i_idx (i_run (i_init 1 [] []) [ICreate 0 [(0, 0); (1, 7)]; ICreate 1 [(0, 1); (1, 7)]; IDelete 1])) 1 7 = Some 0).
  { apply (H 1 7 0). exists [(0, 0); (1, 7)]. split; [reflexivity|right; left; reflexivity]. }
  vm_compute in X. discriminate.
Qed.

(* state.Store sessions: UpdateSession changes the IPv4 field *)
Theorem idx_agree_refuted_update :
  exists ops, ~ idx_agree (i_run (i_init 2 [] []) ops).
Proof.
  exists [ICreate 0 [(0, 3); (1, 4)]; IUpdate 0 [(0, 3); (1, 5)]]. intros H.
  destruct (proj1 (H 1 4 0) eq_refl) as (ks & Hk & Hin). vm_compute in Hk. inversion Hk; subst.
  destruct Hin as [Hin|[Hin|[]]]; discriminate.
Qed.

(* subscriber.Manager: AssignAddress twice *)
Theorem idx_agree_refuted_reassign :
  exists ops, ~ idx_agree (i_run (i_init 4 [] []) ops).
Proof.
  exists [ICreate 0 [(0, 1)]; IUpdate 0 [(1, 4)]; IUpdate 0 [(1, 5)]]. intros H.
  destruct (proj1 (H 1 4 0) eq_refl) as (ks & Hk & Hin). vm_compute in Hk. inversion Hk; subst.
  destruct Hin as [Hin|[Hin|[]]]; discriminate.
Qed.

(* ---- the guarded part: fresh ids, keys no other entity holds, updates that keep the indexed fields ---- *)
Definition kmatch (i k : N) (x : N * N) : bool := (fst x =? i) && (snd x =? k).

Lemma kmatch_In i k ks : existsb (kmatch i k) ks = true <-> In (i, k) ks.
Proof.
  rewrite existsb_exists. split.
  - intros ([a b] & Hin & Hm). unfold kmatch in Hm; cbn in Hm. apply andb_true_iff in Hm.
    destruct Hm as [H1 H2]. apply N.eqb_eq in H1. apply N.eqb_eq in H2. subst. exact Hin.
  - intros H. exists (i, k). split; [exact H|]. unfold kmatch; cbn. rewrite !N.eqb_refl. reflexivity.
Qed.

Lemma get2_del2 (m : amap (amap N)) i k i' k' :
  get2 (del2 m i k) i' k' = if (i =? i') && (k =? k') then None else get2 m i' k'.
Proof.
  unfold del2, get2. destruct (aget m i) as [r|] eqn:Er.
  - rewrite aget_aset. destruct (i =? i') eqn:Ei; cbn; [|reflexivity].
    apply N.eqb_eq in Ei; subst i'. rewrite Er, aget_adel. reflexivity.
  - destruct (i =? i') eqn:Ei; cbn; [|reflexivity]. apply N.eqb_eq in Ei; subst i'. rewrite Er.
    destruct (k =? k'); reflexivity.
Qed.

Lemma get2_put_keys id ks : forall m i k,
  get2 (put_keys m id ks) i k = if existsb (kmatch i k) ks then Some id else get2 m i k.
Proof.
  induction ks as [|[a b] ks IH]; intros m i k; [reflexivity|].
  change (put_keys m id ((a, b) :: ks)) with (put_keys (set2 m a b id) id ks).
  rewrite IH, get2_set2. cbn [existsb]. unfold kmatch at 2; cbn [fst snd].
  destruct (existsb (kmatch i k) ks); [rewrite orb_true_r; reflexivity|]. rewrite orb_false_r. reflexivity.
Qed.

Lemma get2_del_keys ks : forall m i k,
  get2 (del_keys m ks) i k = if existsb (kmatch i k) ks then None else get2 m i k.
Proof.
  induction ks as [|[a b] ks IH]; intros m i k; [reflexivity|].
  change (del_keys m ((a, b) :: ks)) with (del_keys (del2 m a b) ks).
  rewrite IH, get2_del2. cbn [existsb]. unfold kmatch at 2; cbn [fst snd].
  destruct (existsb (kmatch i k) ks); [rewrite orb_true_r; reflexivity|]. rewrite orb_false_r. reflexivity.
Qed.

Lemma clobbers_false st id ks :
  clobbers st id ks = false -> forall i k e, In (i, k) ks -> get2 (i_idx st) i k = Some e -> e = id.
Proof.
  intros H i k e Hin Hg. unfold clobbers in H. rewrite <- not_true_iff_false in H.
  destruct (N.eq_dec e id) as [->|Hn]; [reflexivity|]. exfalso. apply H. apply existsb_exists.
  exists (i, k). split; [exact Hin|]. cbn. rewrite Hg. apply negb_true_iff. apply N.eqb_neq. exact Hn.
Qed.

(* installing entity id with keys ks on a state where id is not stored and none of the keys is taken *)
Lemma create_agree st id ks :
  idx_agree st -> aget (i_prim st) id = None -> clobbers st id ks = false ->
  idx_agree (i_with st (aset (i_prim st) id ks) (put_keys (i_idx st) id ks)).
Proof.
  intros A Hfresh Hc i k e. cbn. rewrite get2_put_keys, aget_aset.
  destruct (existsb (kmatch i k) ks) eqn:Em.
  - apply kmatch_In in Em. split.
    + intros H; inversion H; subst. rewrite N.eqb_refl. exists ks. split; [reflexivity|exact Em].
    + intros (ks' & Hk & Hin). destruct (id =? e) eqn:E; [apply N.eqb_eq in E; congruence|].
      assert (Hg : get2 (i_idx st) i k = Some e) by (apply A; exists ks'; split; assumption).
      pose proof (clobbers_false st id ks Hc i k e Em Hg). subst. rewrite N.eqb_refl in E. discriminate.
  - assert (Hni : ~ In (i, k) ks) by (intros Hin; apply kmatch_In in Hin; congruence).
    destruct (id =? e) eqn:E.
    + apply N.eqb_eq in E; subst e. split.
      * intros H. apply A in H. destruct H as (ks' & Hk & _). congruence.
      * intros (ks' & Hk & Hin). inversion Hk; subst. contradiction.
    + apply A.
Qed.

Lemma delete_agree st id old :
  idx_agree st -> aget (i_prim st) id = Some old ->
  idx_agree (i_with st (adel (i_prim st) id) (del_keys (i_idx st) old)).
Proof.
  intros A Ho i k e. cbn. rewrite get2_del_keys, aget_adel.
  destruct (existsb (kmatch i k) old) eqn:Em.
  - apply kmatch_In in Em. split; [discriminate|]. intros (ks' & Hk & Hin).
    destruct (id =? e) eqn:E; [discriminate|]. apply N.eqb_neq in E.
    assert (H1 : get2 (i_idx st) i k = Some e) by (apply A; exists ks'; split; assumption).
    assert (H2 : get2 (i_idx st) i k = Some id) by (apply A; exists old; split; assumption).
    congruence.
  - assert (Hni : ~ In (i, k) old) by (intros Hin; apply kmatch_In in Hin; congruence).
    destruct (id =? e) eqn:E.
    + apply N.eqb_eq in E; subst e. split.
      * intros H. apply A in H. destruct H as (ks' & Hk & Hin). congruence.
      * intros (ks' & Hk & _). discriminate.
    + apply A.
Qed.

Definition i_guard (st : ist) (o : iop) : bool :=
  match o with
  | ICreate id ks => negb (amem (i_prim st) id) && negb (clobbers st id ks)
  | IUpdate id ks =>
      if i_kind st =? 4
      then match aget (i_prim st) id, ks with
           | Some old, [(1, ip)] => forallb (fun x => negb (fst x =? 1)) old && negb (clobbers st id ks)
           | _, _ => true
           end
      else false
  | IDelete _ => true
  end.

Fixpoint i_run_g (st : ist) (ops : list iop) : option ist :=
  match ops with
  | [] => Some st
  | o :: tl => if i_guard st o then i_run_g (i_next st o) tl else None
  end.

Lemma filter_all {A} (f : A -> bool) l : forallb f l = true -> filter f l = l.
Proof.
  induction l as [|a l IH]; cbn; [reflexivity|]. intros H. apply andb_true_iff in H. destruct H as [Ha Hl].
  rewrite Ha, IH by exact Hl. reflexivity.
Qed.

Lemma i_step_agree st o : idx_agree st -> i_guard st o = true -> idx_agree (i_next st o).
Proof.
  intros A G. unfold i_next, i_step. destruct o as [id ks|id ks|id]; cbn in G.
  - apply andb_true_iff in G. destruct G as [G1 G2]. apply negb_true_iff in G1. apply negb_true_iff in G2.
    pose proof (proj1 (amem_false _ _) G1) as Hf.
    destruct (i_kind st =? 4) eqn:K4.
    + rewrite G1. destruct ks as [|[a b] [|? ?]]; try destruct a; cbn [fst snd i_out]; try exact A.
      destruct (amem _ b); cbn [fst snd i_out]; [exact A|]. apply create_agree; assumption.
    + destruct (i_kind st =? 5) eqn:K5.
      * rewrite G2. cbn. rewrite Hf. apply create_agree; assumption.
      * cbn. apply create_agree; assumption.
  - destruct (i_kind st =? 4) eqn:K4; [|discriminate].
    destruct (aget (i_prim st) id) as [old|] eqn:Eo; [|exact A].
    destruct (i_kind st =? 0) eqn:K0; [apply N.eqb_eq in K0; apply N.eqb_eq in K4; congruence|].
    destruct ks as [|[a ip] [|? ?]]; try destruct a as [|[?|?|]]; cbn [fst snd i_out]; try exact A.
    apply andb_true_iff in G. destruct G as [G1 G2]. apply negb_true_iff in G2. cbn.
    rewrite (filter_all _ _ G1).
    (* the session gains the key (1, ip): the same as re-installing it with old ++ [(1, ip)] *)
    intros i k e. cbn. rewrite get2_set2, aget_aset.
    destruct ((1 =? i) && (ip =? k)) eqn:Em.
    + apply andb_true_iff in Em. destruct Em as [E1 E2]. apply N.eqb_eq in E1. apply N.eqb_eq in E2. subst i k.
      split.
      * intros H; inversion H; subst. rewrite N.eqb_refl. exists (old ++ [(1, ip)]). split; [reflexivity|].
        apply in_or_app. right. left. reflexivity.
      * intros (ks' & Hk & Hin). destruct (id =? e) eqn:E; [apply N.eqb_eq in E; congruence|].
        assert (Hg : get2 (i_idx st) 1 ip = Some e) by (apply A; exists ks'; split; assumption).
        pose proof (clobbers_false st id [(1, ip)] G2 1 ip e (or_introl eq_refl) Hg). subst.
        rewrite N.eqb_refl in E. discriminate.
    + destruct (id =? e) eqn:E.
      * apply N.eqb_eq in E; subst e. split.
        -- intros H. apply A in H. destruct H as (ks' & Hk & Hin). rewrite Eo in Hk. inversion Hk; subst.
           exists (ks' ++ [(1, ip)]). split; [reflexivity|]. apply in_or_app. left. exact Hin.
        -- intros (ks' & Hk & Hin). inversion Hk; subst. apply in_app_or in Hin. destruct Hin as [Hin|[Hin|[]]].
           ++ apply A. exists old. split; assumption.
           ++ inversion Hin; subst. rewrite !N.eqb_refl in Em. discriminate.
      * apply A.
  - destruct (aget (i_prim st) id) as [old|] eqn:Eo; [|exact A]. cbn. apply delete_agree; assumption.
Qed.

Lemma i_run_agree ops : forall st st', idx_agree st -> i_run_g st ops = Some st' -> idx_agree st'.
Proof.
  induction ops as [|o ops IH]; intros st st' A H; cbn in H.
  - inversion H; subst; exact A.
  - destruct (i_guard st o) eqn:G; [|discriminate]. eapply IH; [|exact H]. apply i_step_agree; assumption.
Qed.

Theorem idx_agree_partial : forall kind ids probe ops st,
  i_run_g (i_init kind ids probe) ops = Some st -> idx_agree st.
Proof.
  intros kind ids probe ops st H. eapply i_run_agree; [|exact H].
  intros i k e. cbn. split; [discriminate|]. intros (ks & Hk & _). discriminate.
Qed.

(* non-vacuity: a guarded history with creations, an address assignment and a deletion *)
Example idx_guard_satisfiable :
  exists st, i_run_g (i_init 4 [] []) [ICreate 0 [(0, 1)]; ICreate 1 [(0, 2)]; IUpdate 0 [(1, 9)]; IDelete 1] = Some st /\
             get2 (i_idx st) 1 9 = Some 0.
Proof. eexists. split; vm_compute; reflexivity. Qed.
