(* C20 — lemmas about Model/Keys.v (VLAN allocator, QinQ mapper, PPPoE session ids, circuit-id key). *)
From Coq Require Import ZArith NArith List Bool Lia ZifyN ZifyNat ZifyBool.
From Verif Require Import Base.Word Model.Keys.
Import ListNotations.
Local Open Scope N_scope.

(* ------------------------------------------------------------------ association maps *)
Lemma aget_adel {V} (m : amap V) k k' : aget (adel m k) k' = if k =? k' then None else aget m k'.
Proof.
  induction m as [|[a v] m IH]; cbn.
  - destruct (k =? k'); reflexivity.
  - destruct (a =? k) eqn:E1.
    + apply N.eqb_eq in E1; subst a. rewrite IH. destruct (k =? k') eqn:E2; reflexivity.
    + cbn. rewrite IH. destruct (a =? k') eqn:E2; [|reflexivity].
      apply N.eqb_eq in E2; subst a. rewrite N.eqb_sym, E1. reflexivity.
Qed.

Lemma aget_aset {V} (m : amap V) k v k' : aget (aset m k v) k' = if k =? k' then Some v else aget m k'.
Proof. unfold aset; cbn. destruct (k =? k') eqn:E; [reflexivity|]. rewrite aget_adel, E. reflexivity. Qed.

Lemma amem_false {V} (m : amap V) k : amem m k = false <-> aget m k = None.
Proof. unfold amem. destruct (aget m k); split; congruence. Qed.

Lemma get2_set2 {V} (m : amap (amap V)) a b v a' b' :
  get2 (set2 m a b v) a' b' = if (a =? a') && (b =? b') then Some v else get2 m a' b'.
Proof.
  unfold get2, set2. rewrite aget_aset. destruct (a =? a') eqn:Ea; cbn.
  - apply N.eqb_eq in Ea; subst a'. destruct (b =? b') eqn:Eb; [reflexivity|].
    rewrite aget_adel, Eb. destruct (aget m a); reflexivity.
  - reflexivity.
Qed.

Lemma adel_nil_get {V} (u : amap V) b : adel u b = [] -> forall b', b' <> b -> aget u b' = None.
Proof.
  intros H b' Hn. assert (E : aget (adel u b) b' = aget u b').
  { rewrite aget_adel. destruct (b =? b') eqn:E; [apply N.eqb_eq in E; congruence|reflexivity]. }
  rewrite <- E, H. reflexivity.
Qed.

Lemma get2_vdel2 {V} (m : amap (amap V)) a b a' b' :
  get2 (vdel2 m a b) a' b' = if (a =? a') && (b =? b') then None else get2 m a' b'.
Proof.
  unfold vdel2, get2. destruct (aget m a) as [u|] eqn:Eu.
  - destruct (adel u b) as [|p u'] eqn:Ed.
    + rewrite aget_adel. destruct (a =? a') eqn:Ea; cbn.
      * apply N.eqb_eq in Ea; subst a'. rewrite Eu. destruct (b =? b') eqn:Eb; [reflexivity|].
        symmetry. apply (adel_nil_get u b Ed). intro; subst. rewrite N.eqb_refl in Eb. discriminate.
      * reflexivity.
    + rewrite <- Ed, aget_aset. destruct (a =? a') eqn:Ea; cbn.
      * apply N.eqb_eq in Ea; subst a'. rewrite Eu, aget_adel. reflexivity.
      * reflexivity.
  - destruct (a =? a') eqn:Ea; cbn; [|reflexivity].
    apply N.eqb_eq in Ea; subst a'. rewrite Eu. destruct (b =? b'); reflexivity.
Qed.

Arguments aset : simpl never.
Arguments set2 : simpl never.
Arguments vdel2 : simpl never.

Ltac case_eqb a b :=
  let E := fresh "E" in
  destruct (a =? b) eqn:E; [apply N.eqb_eq in E; subst|apply N.eqb_neq in E].

Ltac eqb_cases :=
  repeat match goal with
         | H : context [?a =? ?b] |- _ =>
             let E := fresh "E" in destruct (a =? b) eqn:E;
             [apply N.eqb_eq in E; try subst|apply N.eqb_neq in E]; cbn in H
         | |- context [?a =? ?b] =>
             let E := fresh "E" in destruct (a =? b) eqn:E;
             [apply N.eqb_eq in E; try subst|apply N.eqb_neq in E]; cbn
         end.

(* ------------------------------------------------------------------ qinq.Mapper *)
Definition q_next (st : qst) (o : qop) : qst := fst (fst (q_step st o)).
Definition q_run (st : qst) (ops : list qop) : qst := fold_left q_next ops st.

Record q_inv (st : qst) : Prop := {
  qi_bij : forall v id, aget (q_v2s st) v = Some id <-> aget (q_s2v st) id = Some v;
  qi_rng : forall v id, aget (q_v2s st) v = Some id -> exists s c, v = pk s c /\ q_valid (q_cfg st) s c = true }.

Lemma q_cfg_next st o : q_cfg (q_next st o) = q_cfg st.
Proof.
  unfold q_next, q_step. destruct o; cbn.
  - destruct (q_valid (q_cfg st) s c); cbn; [|reflexivity].
    destruct (aget (q_v2s st) (pk s c)) as [e|]; [destruct (e =? id)|]; reflexivity.
  - destruct (aget (q_v2s st) (pk s c)); reflexivity.
  - destruct (aget (q_s2v st) id); reflexivity.
Qed.

(* registering v for id on a consistent state: the new pair of maps *)
Lemma q_reg_inv st s c id :
  q_inv st -> q_valid (q_cfg st) s c = true ->
  (forall e, aget (q_v2s st) (pk s c) = Some e -> e = id) ->
  q_inv (q_with st (aset (match aget (q_s2v st) id with Some old => adel (q_v2s st) old | None => q_v2s st end) (pk s c) id)
                   (aset (q_s2v st) id (pk s c))).
Proof.
  intros [B R] Hv Hfree. split; cbn.
  - intros v i. rewrite !aget_aset.
    destruct (aget (q_s2v st) id) as [old|] eqn:Eo.
    + rewrite aget_adel. pose proof (proj2 (B old id) Eo) as Hold.
      destruct (pk s c =? v) eqn:E1; [apply N.eqb_eq in E1; subst v|apply N.eqb_neq in E1].
      * destruct (id =? i) eqn:E2; [apply N.eqb_eq in E2; subst i; tauto|apply N.eqb_neq in E2].
        split; [congruence|]. intros H. apply B in H. apply Hfree in H. congruence.
      * destruct (id =? i) eqn:E2; [apply N.eqb_eq in E2; subst i|apply N.eqb_neq in E2].
        -- destruct (old =? v) eqn:E3; [apply N.eqb_eq in E3; subst v|apply N.eqb_neq in E3].
           ++ split; [discriminate|congruence].
           ++ split; [intros H; apply B in H; congruence|congruence].
        -- destruct (old =? v) eqn:E3; [apply N.eqb_eq in E3; subst v|apply N.eqb_neq in E3].
           ++ split; [discriminate|]. intros H. apply B in H. congruence.
           ++ apply B.
    + destruct (pk s c =? v) eqn:E1; [apply N.eqb_eq in E1; subst v|apply N.eqb_neq in E1].
      * destruct (id =? i) eqn:E2; [apply N.eqb_eq in E2; subst i; tauto|apply N.eqb_neq in E2].
        split; [congruence|]. intros H. apply B in H. apply Hfree in H. congruence.
      * destruct (id =? i) eqn:E2; [apply N.eqb_eq in E2; subst i|apply N.eqb_neq in E2].
        -- split; [intros H; apply B in H; congruence|congruence].
        -- apply B.
  - intros v i. rewrite aget_aset.
    destruct (pk s c =? v) eqn:E1; [apply N.eqb_eq in E1; subst v; intros _; eauto|].
    destruct (aget (q_s2v st) id) as [old|]; [rewrite aget_adel; destruct (old =? v); [discriminate|]|]; apply R.
Qed.

Lemma q_unreg_inv st v id :
  q_inv st -> aget (q_v2s st) v = Some id ->
  q_inv (q_with st (adel (q_v2s st) v) (adel (q_s2v st) id)).
Proof.
  intros [B R] Hv. split; cbn.
  - intros v' i. rewrite !aget_adel.
    destruct (v =? v') eqn:E1; [apply N.eqb_eq in E1; subst v'|apply N.eqb_neq in E1];
    (destruct (id =? i) eqn:E2; [apply N.eqb_eq in E2; subst i|apply N.eqb_neq in E2]).
    + split; discriminate.
    + split; [discriminate|]. intros H. apply B in H. congruence.
    + split; [|discriminate]. intros H. apply B in H. apply B in Hv. congruence.
    + apply B.
  - intros v' i. rewrite aget_adel. destruct (v =? v'); [discriminate|apply R].
Qed.

Lemma q_step_inv st o : q_inv st -> q_inv (q_next st o).
Proof.
  intros I. unfold q_next, q_step. destruct o; cbn.
  - destruct (q_valid (q_cfg st) s c) eqn:Hv; cbn; [|exact I].
    destruct (aget (q_v2s st) (pk s c)) as [e|] eqn:He.
    + destruct (e =? id) eqn:Ee; cbn; [|exact I]. apply N.eqb_eq in Ee; subst e.
      apply q_reg_inv; auto. intros e H; congruence.
    + cbn. apply q_reg_inv; auto. intros e H; congruence.
  - destruct (aget (q_v2s st) (pk s c)) as [i|] eqn:He; cbn; [|exact I].
    apply q_unreg_inv; auto.
  - destruct (aget (q_s2v st) id) as [v|] eqn:He; cbn; [|exact I].
    apply q_unreg_inv; auto. apply (qi_bij st I). exact He.
Qed.

Lemma q_run_inv ops : forall st, q_inv st -> q_inv (q_run st ops).
Proof. induction ops as [|o ops IH]; intros st I; cbn; [exact I|]. apply IH, q_step_inv, I. Qed.

Lemma q_run_cfg ops : forall st, q_cfg (q_run st ops) = q_cfg st.
Proof.
  induction ops as [|o ops IH]; intros st; [reflexivity|].
  change (q_run st (o :: ops)) with (q_run (q_next st o) ops). rewrite IH. apply q_cfg_next.
Qed.

Lemma q_init_inv c subs probe : q_inv (q_init c subs probe).
Proof. split; cbn; intros; [split|]; discriminate. Qed.

Theorem qinq_bijective : forall c subs probe ops v id,
  let st := q_run (q_init c subs probe) ops in
  aget (q_v2s st) v = Some id <-> aget (q_s2v st) id = Some v.
Proof. intros. apply (qi_bij _ (q_run_inv ops _ (q_init_inv c subs probe))). Qed.

Theorem qinq_in_range : forall c subs probe ops v id,
  let st := q_run (q_init c subs probe) ops in
  aget (q_s2v st) id = Some v -> exists s x, v = pk s x /\ q_valid c s x = true.
Proof.
  intros c subs probe ops v id st H.
  pose proof (q_run_inv ops _ (q_init_inv c subs probe)) as I. fold st in I.
  apply (qi_bij st I) in H. destruct (qi_rng st I _ _ H) as (s & x & -> & Hv).
  exists s, x. split; [reflexivity|]. unfold st in Hv. rewrite q_run_cfg in Hv. exact Hv.
Qed.

(* release: the pair is free, its holder has none, nobody else is touched; and it can be registered again *)
Theorem qinq_unregister_frees : forall c subs probe ops s x,
  let st := q_run (q_init c subs probe) ops in
  let st' := q_next st (QUnreg s x) in
  aget (q_v2s st') (pk s x) = None /\
  (forall id, aget (q_s2v st) id <> Some (pk s x) -> aget (q_s2v st') id = aget (q_s2v st) id) /\
  (forall id, aget (q_s2v st) id = Some (pk s x) -> aget (q_s2v st') id = None) /\
  (forall id, q_valid c s x = true -> o_ret (snd (fst (q_step st' (QReg s x id)))) = RKey (pk s x)).
Proof.
  intros c subs probe ops s x st st'.
  pose proof (q_run_inv ops _ (q_init_inv c subs probe)) as I. fold st in I.
  assert (Hc : q_cfg st' = c) by (unfold st', st; rewrite q_cfg_next, q_run_cfg; reflexivity).
  assert (H1 : aget (q_v2s st') (pk s x) = None).
  { unfold st', q_next, q_step. destruct (aget (q_v2s st) (pk s x)) eqn:E; cbn; [|exact E].
    rewrite aget_adel, N.eqb_refl. reflexivity. }
  repeat split.
  - exact H1.
  - intros id Hn. unfold st', q_next, q_step. destruct (aget (q_v2s st) (pk s x)) as [i|] eqn:E; cbn; [|reflexivity].
    rewrite aget_adel. destruct (i =? id) eqn:Ei; [|reflexivity]. apply N.eqb_eq in Ei; subst i.
    apply (qi_bij st I) in E. congruence.
  - intros id Hh. unfold st', q_next, q_step. pose proof (proj2 (qi_bij st I _ _) Hh) as E. rewrite E; cbn.
    rewrite aget_adel, N.eqb_refl. reflexivity.
  - intros id Hv. unfold q_step. rewrite Hc, Hv; cbn. rewrite H1. reflexivity.
Qed.

Theorem qinq_register_frame : forall c subs probe ops s x id id',
  let st := q_run (q_init c subs probe) ops in
  id' <> id -> aget (q_s2v (q_next st (QReg s x id))) id' = aget (q_s2v st) id'.
Proof.
  intros c subs probe ops s x id id' st Hn. unfold q_next, q_step.
  destruct (q_valid (q_cfg st) s x); cbn; [|reflexivity].
  destruct (aget (q_v2s st) (pk s x)) as [e|]; [destruct (e =? id)|]; cbn; try reflexivity;
  rewrite aget_aset; destruct (id =? id') eqn:E; try reflexivity; apply N.eqb_eq in E; congruence.
Qed.

(* ------------------------------------------------------------------ circuit-id key *)
Lemma ckey_length l : length (ckey l) = 32%nat.
Proof. unfold ckey, ckey_len. rewrite app_length, firstn_length, repeat_length. lia. Qed.

Lemma ckey_short l : (length l <= 32)%nat -> ckey l = l ++ repeat 0 (32 - length l).
Proof. intros H. unfold ckey, ckey_len. rewrite firstn_all2 by exact H. reflexivity. Qed.

Lemma tz_app_zero p : trailing_zero (p ++ [0]) = true.
Proof. unfold trailing_zero. rewrite rev_app_distr. reflexivity. Qed.

Lemma tz_cons x l : trailing_zero (x :: l) = false -> trailing_zero l = false.
Proof.
  unfold trailing_zero. cbn. destruct (rev l) as [|y t] eqn:E; [reflexivity|].
  cbn. destruct y; auto.
Qed.

Lemma all_zero_tz l : l <> [] -> Forall (fun x => x = 0) l -> trailing_zero l = true.
Proof.
  intros Hn Hz. destruct (exists_last Hn) as (p & z & ->).
  apply Forall_app in Hz. destruct Hz as [_ Hz]. inversion Hz; subst. apply tz_app_zero.
Qed.

Lemma repeat_zero_forall n : Forall (fun x => x = 0) (repeat 0 n).
Proof. induction n; cbn; constructor; auto. Qed.

Lemma pad_inj a : forall b n m,
  trailing_zero a = false -> trailing_zero b = false ->
  a ++ repeat 0 n = b ++ repeat 0 m -> a = b.
Proof.
  induction a as [|x a IH]; intros [|y b] n m Ha Hb H.
  - reflexivity.
  - exfalso. cbn in H. assert (Hz : Forall (fun x => x = 0) ((y :: b) ++ repeat 0 m)).
    { cbn. rewrite <- H. apply repeat_zero_forall. }
    apply Forall_app in Hz. destruct Hz as [Hz _].
    rewrite (all_zero_tz (y :: b)) in Hb; [discriminate|discriminate|exact Hz].
  - exfalso. cbn in H. assert (Hz : Forall (fun x => x = 0) ((x :: a) ++ repeat 0 n)).
    { cbn. rewrite H. apply repeat_zero_forall. }
    apply Forall_app in Hz. destruct Hz as [Hz _].
    rewrite (all_zero_tz (x :: a)) in Ha; [discriminate|discriminate|exact Hz].
  - cbn in H. inversion H; subst. f_equal. eapply IH; eauto using tz_cons.
Qed.

Theorem ckey_injective_partial : forall a b,
  (length a <= 32)%nat -> (length b <= 32)%nat ->
  trailing_zero a = false -> trailing_zero b = false ->
  ckey a = ckey b -> a = b.
Proof.
  intros a b La Lb Ta Tb H. rewrite !ckey_short in H by assumption. eapply pad_inj; eauto.
Qed.

Definition ckey_injective : Prop := forall a b, ckey a = ckey b -> a = b.

Theorem ckey_injective_refuted_padding : ~ ckey_injective.
Proof. intros H. specialize (H [1] [1; 0] eq_refl). discriminate. Qed.

(* truncation: two 33-byte circuit-ids that differ only in the last byte *)
Theorem ckey_injective_refuted_truncation :
  exists a b, length a = 33%nat /\ length b = 33%nat /\ trailing_zero a = false /\ trailing_zero b = false /\
              a <> b /\ ckey a = ckey b.
Proof.
  exists (repeat 7 32 ++ [1]), (repeat 7 32 ++ [2]). repeat split; try reflexivity.
  intros H. apply app_inv_head in H. discriminate.
Qed.

(* ------------------------------------------------------------------ pppoe.SessionManager *)
Definition s_next_st (st : sst) (o : sop) : sst := fst (fst (s_step st o)).
Definition s_run (st : sst) (ops : list sop) : sst := fold_left s_next_st ops st.

Definition sid (x : N * N * N) : N := snd (fst x).
Definition shold (x : N * N * N) : N := fst (fst x).
Definition smac (x : N * N * N) : N := snd x.

Record s_inv (st : sst) : Prop := {
  si_next : 1 <= s_next st <= 65535;
  si_ids : forall id x, aget (s_sess st) id = Some x -> 1 <= id <= 65535;
  si_live : forall x, In x (s_live st) -> aget (s_sess st) (sid x) = Some (shold x, smac x);
  si_sess : forall id h mac, aget (s_sess st) id = Some (h, mac) -> In (h, id, mac) (s_live st) }.

Lemma u16_lt x : u16 x < 65536.
Proof. unfold u16, W16. apply N.mod_lt. discriminate. Qed.

Lemma scan_id_spec fuel sess : forall n id,
  1 <= n <= 65535 -> scan_id fuel sess n = Some id -> aget sess id = None /\ 1 <= id <= 65535.
Proof.
  induction fuel as [|f IH]; intros n id Hn H; cbn in H; [discriminate|].
  destruct (amem sess n) eqn:E.
  - apply IH in H; [exact H|]. pose proof (u16_lt (n + 1)).
    destruct (u16 (n + 1) =? 0) eqn:E0; [lia|]. apply N.eqb_neq in E0. lia.
  - inversion H; subst. split; [apply amem_false; exact E|exact Hn].
Qed.

Lemma s_init_inv next pids pmacs : 1 <= next <= 65535 -> s_inv (s_init next pids pmacs).
Proof. intros H. split; cbn; try (intros; discriminate); try (intros; contradiction). exact H. Qed.

Lemma s_step_inv st o : s_inv st -> s_inv (s_next_st st o).
Proof.
  intros [Hn Hi Hl Hs]. unfold s_next_st, s_step. destruct o as [h mac|id|n].
  3: { destruct ((1 <=? n) && (n <=? 65535)) eqn:En; [|split; assumption].
       apply andb_true_iff in En. destruct En as [E1 E2]. split; cbn; try assumption. lia. }
  - destruct (session_cap <=? N.of_nat (length (s_sess st))); [split; assumption|].
    destruct (scan_id (N.to_nat 65536) (s_sess st) (s_next st)) as [id|] eqn:Es; [|split; assumption].
    destruct (scan_id_spec _ _ _ _ Hn Es) as [Hfree Hid]. cbn. split; cbn.
    + pose proof (u16_lt (id + 1)). destruct (u16 (id + 1) =? 0) eqn:E0; [lia|]. apply N.eqb_neq in E0. lia.
    + intros i x. rewrite aget_aset. destruct (id =? i) eqn:E; [apply N.eqb_eq in E; subst; intros _; exact Hid|apply Hi].
    + intros x Hx. rewrite aget_aset. apply in_app_or in Hx. destruct Hx as [Hx|[<-|[]]].
      * destruct (id =? sid x) eqn:E; [|apply Hl, Hx]. apply N.eqb_eq in E. subst id.
        rewrite (Hl x Hx) in Hfree. discriminate.
      * unfold sid, shold, smac; cbn. rewrite N.eqb_refl. reflexivity.
    + intros i h' m'. rewrite aget_aset. destruct (id =? i) eqn:E.
      * apply N.eqb_eq in E; subst i. intros H; inversion H; subst. apply in_or_app. right. left. reflexivity.
      * intros H. apply in_or_app. left. apply Hs, H.
  - destruct (aget (s_sess st) id) as [[h mac]|] eqn:E; cbn; split; cbn; try assumption.
    + intros i x. rewrite aget_adel. destruct (id =? i); [discriminate|apply Hi].
    + intros x Hx. apply filter_In in Hx. destruct Hx as [Hx Hne]. rewrite aget_adel.
      fold (sid x) in Hne. destruct (sid x =? id) eqn:E1; [discriminate|].
      rewrite N.eqb_sym, E1. apply Hl, Hx.
    + intros i h' m'. rewrite aget_adel. destruct (id =? i) eqn:E1; [discriminate|]. intros H.
      apply filter_In. split; [apply Hs, H|]. cbn. rewrite N.eqb_sym, E1. reflexivity.
    + intros x Hx. apply filter_In in Hx. apply Hl, Hx.
    + intros i h' m' H. apply filter_In. split; [apply Hs, H|]. cbn.
      destruct (i =? id) eqn:E1; [|reflexivity]. apply N.eqb_eq in E1; subst i. congruence.
Qed.

Lemma s_run_inv ops : forall st, s_inv st -> s_inv (s_run st ops).
Proof. induction ops as [|o ops IH]; intros st I; cbn; [exact I|]. apply IH, s_step_inv, I. Qed.

(* every live session has its own non-zero 16-bit id, and GetSession(id) returns that session *)
Theorem session_ids_unique : forall next pids pmacs ops,
  1 <= next <= 65535 ->
  let st := s_run (s_init next pids pmacs) ops in
  (forall x y, In x (s_live st) -> In y (s_live st) -> sid x = sid y -> x = y) /\
  (forall x, In x (s_live st) -> 1 <= sid x <= 65535 /\ aget (s_sess st) (sid x) = Some (shold x, smac x)) /\
  (forall id h mac, aget (s_sess st) id = Some (h, mac) -> In (h, id, mac) (s_live st)).
Proof.
  intros next pids pmacs ops Hn st.
  pose proof (s_run_inv ops _ (s_init_inv next pids pmacs Hn)) as [H1 H2 H3 H4]. fold st in H1, H2, H3, H4.
  split; [|split].
  - intros [[h i] m] [[h' i'] m'] Hx Hy E. pose proof (H3 _ Hx) as Ex. pose proof (H3 _ Hy) as Ey.
    unfold sid, shold, smac in *; cbn in *. subst i'. rewrite Ex in Ey. congruence.
  - intros x Hx. split; [eapply H2, H3, Hx|apply H3, Hx].
  - exact H4.
Qed.

(* a freshly created session never receives the id of a live one *)
Theorem session_create_fresh : forall next pids pmacs ops h mac id,
  1 <= next <= 65535 ->
  let st := s_run (s_init next pids pmacs) ops in
  o_ret (snd (fst (s_step st (SCreate h mac)))) = RKey id ->
  aget (s_sess st) id = None /\ 1 <= id <= 65535.
Proof.
  intros next pids pmacs ops h mac id Hn st H.
  pose proof (s_run_inv ops _ (s_init_inv next pids pmacs Hn)) as I. fold st in I.
  unfold s_step in H. destruct (session_cap <=? N.of_nat (length (s_sess st))); [discriminate|].
  destruct (scan_id (N.to_nat 65536) (s_sess st) (s_next st)) as [i|] eqn:Es; [|discriminate].
  cbn in H. inversion H; subst. eapply scan_id_spec; [apply (si_next st I)|exact Es].
Qed.

(* MAC index: refuted in general (two sessions from one MAC), proved when live sessions have distinct MACs *)
Definition s_guard (st : sst) (o : sop) : bool :=
  match o with
  | SCreate _ mac => negb (existsb (fun x => smac x =? mac) (s_live st))
  | SRemove _ => true
  | SSetNext _ => true
  end.
Fixpoint s_run_g (st : sst) (ops : list sop) : option sst :=
  match ops with
  | [] => Some st
  | o :: tl => if s_guard st o then s_run_g (s_next_st st o) tl else None
  end.

Definition mac_index_agrees (st : sst) : Prop :=
  forall x, In x (s_live st) -> aget (s_mac st) (smac x) = Some (sid x).

Theorem session_mac_index_agrees_refuted :
  exists ops, ~ mac_index_agrees (s_run (s_init 1 [] []) ops).
Proof.
  exists [SCreate 0 7; SCreate 1 7; SRemove 2]. intros H.
  specialize (H (0, 1, 7) (or_introl eq_refl)). vm_compute in H. discriminate.
Qed.

Record m_inv (st : sst) : Prop := {
  mi_s : s_inv st;
  mi_fwd : mac_index_agrees st;
  mi_rev : forall mac id, aget (s_mac st) mac = Some id -> exists h, In (h, id, mac) (s_live st);
  mi_nodup : forall x y, In x (s_live st) -> In y (s_live st) -> smac x = smac y -> x = y }.

Lemma m_step_inv st o : m_inv st -> s_guard st o = true -> m_inv (s_next_st st o).
Proof.
  intros [I F R D] G. pose proof (s_step_inv st o I) as I'.
  split; [exact I'| | |]; clear I';
  destruct I as [Hn Hi Hl Hs]; unfold s_next_st, s_step in *; destruct o as [h mac|id|n];
  try (unfold mac_index_agrees in *; destruct ((1 <=? n) && (n <=? 65535)); cbn; assumption).
  - destruct (session_cap <=? N.of_nat (length (s_sess st))); [exact F|].
    destruct (scan_id (N.to_nat 65536) (s_sess st) (s_next st)) as [id|] eqn:Es; [|exact F].
    cbn. intros x Hx. cbn in Hx |- *. rewrite aget_aset. apply in_app_or in Hx. destruct Hx as [Hx|[<-|[]]].
    + destruct (mac =? smac x) eqn:E; [|apply F, Hx]. apply N.eqb_eq in E. cbn in G.
      apply negb_true_iff in G. rewrite <- not_true_iff_false in G. exfalso. apply G.
      apply existsb_exists. exists x. split; [exact Hx|]. rewrite E. apply N.eqb_refl.
    + unfold smac, sid; cbn. rewrite N.eqb_refl. reflexivity.
  - destruct (aget (s_sess st) id) as [[h mac]|] eqn:E; cbn.
    + intros x Hx. cbn in Hx |- *. apply filter_In in Hx. destruct Hx as [Hx Hne]. rewrite aget_adel.
      destruct (mac =? smac x) eqn:E1; [|apply F, Hx]. apply N.eqb_eq in E1. exfalso.
      pose proof (Hs _ _ _ E) as Hin. pose proof (D _ _ Hin Hx E1) as Heq. subst x.
      unfold sid in Hne; cbn in Hne. rewrite N.eqb_refl in Hne. discriminate.
    + intros x Hx. cbn in Hx |- *. apply filter_In in Hx. apply F, Hx.
  - destruct (session_cap <=? N.of_nat (length (s_sess st))); [exact R|].
    destruct (scan_id (N.to_nat 65536) (s_sess st) (s_next st)) as [id|] eqn:Es; [|exact R].
    cbn. intros m i. rewrite aget_aset. destruct (mac =? m) eqn:E.
    + apply N.eqb_eq in E; subst m. intros H; inversion H; subst. exists h. apply in_or_app. right. left. reflexivity.
    + intros H. destruct (R _ _ H) as [h' Hh]. exists h'. apply in_or_app. left. exact Hh.
  - destruct (aget (s_sess st) id) as [[h mac]|] eqn:E; cbn.
    + intros m i. rewrite aget_adel. destruct (mac =? m) eqn:E1; [discriminate|]. intros H.
      destruct (R _ _ H) as [h' Hh]. exists h'. apply filter_In. split; [exact Hh|]. cbn.
      destruct (i =? id) eqn:E2; [|reflexivity]. apply N.eqb_eq in E2; subst i.
      pose proof (Hl _ Hh) as Hx. unfold sid, shold, smac in Hx; cbn in Hx. rewrite E in Hx. inversion Hx; subst.
      rewrite N.eqb_refl in E1. discriminate.
    + intros m i H. destruct (R _ _ H) as [h' Hh]. exists h'. apply filter_In. split; [exact Hh|]. cbn.
      destruct (i =? id) eqn:E2; [|reflexivity]. apply N.eqb_eq in E2; subst i.
      pose proof (Hl _ Hh) as Hx. unfold sid in Hx; cbn in Hx. congruence.
  - destruct (session_cap <=? N.of_nat (length (s_sess st))); [exact D|].
    destruct (scan_id (N.to_nat 65536) (s_sess st) (s_next st)) as [id|] eqn:Es; [|exact D].
    cbn. cbn in G. apply negb_true_iff in G.
    assert (Hno : forall x, In x (s_live st) -> smac x <> mac).
    { intros x Hx Heq. rewrite <- not_true_iff_false in G. apply G. apply existsb_exists. exists x.
      split; [exact Hx|]. rewrite Heq. apply N.eqb_refl. }
    intros x y Hx Hy Exy. apply in_app_or in Hx. apply in_app_or in Hy.
    destruct Hx as [Hx|[<-|[]]]; destruct Hy as [Hy|[<-|[]]].
    + apply D; assumption.
    + exfalso. apply (Hno x Hx). exact Exy.
    + exfalso. apply (Hno y Hy). symmetry. exact Exy.
    + reflexivity.
  - destruct (aget (s_sess st) id) as [[h mac]|] eqn:E; cbn;
    intros x y Hx Hy Exy; apply filter_In in Hx; apply filter_In in Hy; apply D; tauto.
Qed.

Lemma m_run_inv ops : forall st st', m_inv st -> s_run_g st ops = Some st' -> m_inv st'.
Proof.
  induction ops as [|o ops IH]; intros st st' I H; cbn in H.
  - inversion H; subst; exact I.
  - destruct (s_guard st o) eqn:G; [|discriminate]. eapply IH; [|exact H]. apply m_step_inv; assumption.
Qed.

Theorem session_mac_index_agrees_partial : forall next pids pmacs ops st,
  1 <= next <= 65535 ->
  s_run_g (s_init next pids pmacs) ops = Some st ->
  (forall x, In x (s_live st) -> aget (s_mac st) (smac x) = Some (sid x)) /\
  (forall mac id, aget (s_mac st) mac = Some id -> exists h, In (h, id, mac) (s_live st)).
Proof.
  intros next pids pmacs ops st Hn H.
  assert (I0 : m_inv (s_init next pids pmacs)).
  { split; [apply s_init_inv, Hn| | |]; unfold mac_index_agrees; cbn; try (intros; contradiction); intros; discriminate. }
  destruct (m_run_inv ops _ _ I0 H) as [_ F R _]. split; [exact F|exact R].
Qed.

Lemma s_run_g_run ops : forall st st', s_run_g st ops = Some st' -> st' = s_run st ops.
Proof.
  induction ops as [|o ops IH]; intros st st' H; cbn in H.
  - inversion H; reflexivity.
  - destruct (s_guard st o); [|discriminate]. apply IH, H.
Qed.

(* ------------------------------------------------------------------ nexus.VLANAllocator *)
Definition v_next (st : vst) (o : vop) : vst := fst (fst (v_step st o)).
Definition v_run (st : vst) (ops : list vop) : vst := fold_left v_next ops st.
Definition v_wf (c : vcfg) : Prop := v_ss c <= v_se c /\ v_cs c <= v_ce c.

Record v_inv (st : vst) : Prop := {
  vi_bij : forall n s c, aget (v_alloc st) n = Some (s, c) <-> get2 (v_usage st) s c = Some n;
  vi_rng : forall n s c, aget (v_alloc st) n = Some (s, c) -> in_s (v_cfg st) s = true /\ in_c (v_cfg st) c = true;
  vi_cur : v_ss (v_cfg st) <= v_cur st <= v_se (v_cfg st) }.

Lemma seqN_In n : forall a x, In x (seqN a n) <-> a <= x < a + N.of_nat n.
Proof.
  induction n as [|n IH]; intros a x; cbn -[N.of_nat]; [lia|].
  rewrite IH. lia.
Qed.

Lemma rangeN_In a e x : In x (rangeN a e) <-> a <= x <= e.
Proof.
  unfold rangeN. destruct (a <=? e) eqn:E.
  - rewrite seqN_In. lia.
  - cbn. lia.
Qed.

Lemma find_c_spec st s c :
  v_cs (v_cfg st) <= v_ce (v_cfg st) -> find_c st s = Some c ->
  in_c (v_cfg st) c = true /\ get2 (v_usage st) s c = None.
Proof.
  intros Hw H. unfold find_c in H. unfold get2, in_c. destruct (aget (v_usage st) s) as [u|] eqn:Eu.
  - apply find_some in H. destruct H as [Hin Hf]. apply rangeN_In in Hin.
    apply negb_true_iff, amem_false in Hf. split; [lia|exact Hf].
  - inversion H; subst. split; [lia|reflexivity].
Qed.

Lemma find_c_none st s x :
  find_c st s = None -> in_c (v_cfg st) x = true -> get2 (v_usage st) s x <> None.
Proof.
  intros H Hx. unfold find_c in H. unfold get2. destruct (aget (v_usage st) s) as [u|]; [|discriminate].
  pose proof (find_none _ _ H x) as Hn. unfold in_c in Hx.
  assert (Hin : In x (rangeN (v_cs (v_cfg st)) (v_ce (v_cfg st)))) by (apply rangeN_In; lia).
  apply Hn in Hin. apply negb_false_iff in Hin. unfold amem in Hin. destruct (aget u x); congruence.
Qed.

Lemma first_s_spec st l : forall s c, first_s st l = Some (s, c) -> In s l /\ find_c st s = Some c.
Proof.
  induction l as [|a l IH]; intros s c H; cbn in H; [discriminate|].
  destruct (find_c st a) as [c0|] eqn:E.
  - inversion H; subst. split; [left; reflexivity|exact E].
  - apply IH in H. destruct H; split; [right|]; assumption.
Qed.

Lemma first_s_none st l : first_s st l = None -> forall s, In s l -> find_c st s = None.
Proof.
  induction l as [|a l IH]; intros H s Hs; cbn in H; [contradiction|].
  destruct (find_c st a) eqn:E; [discriminate|]. destruct Hs as [<-|Hs]; [exact E|apply IH; assumption].
Qed.

Lemma find_avail_spec st s c :
  v_cs (v_cfg st) <= v_ce (v_cfg st) -> v_ss (v_cfg st) <= v_cur st <= v_se (v_cfg st) ->
  find_avail st = Some (s, c) ->
  in_s (v_cfg st) s = true /\ in_c (v_cfg st) c = true /\ get2 (v_usage st) s c = None.
Proof.
  intros Hw Hc H. unfold find_avail in H.
  destruct (first_s st (rangeN (v_cur st) (v_se (v_cfg st)))) as [[s0 c0]|] eqn:E1.
  - inversion H; subst. apply first_s_spec in E1. destruct E1 as [Hin Hf]. apply rangeN_In in Hin.
    apply find_c_spec in Hf; [|exact Hw]. unfold in_s. split; [lia|exact Hf].
  - apply first_s_spec in H. destruct H as [Hin Hf]. apply find_c_spec in Hf; [|exact Hw].
    destruct (v_cur st =? 0) eqn:E0; [contradiction|]. apply N.eqb_neq in E0. apply rangeN_In in Hin.
    unfold in_s. split; [lia|exact Hf].
Qed.

(* Exhausted is answered only when every pair of the configured ranges is held *)
Lemma find_avail_none st s x :
  v_ss (v_cfg st) <= v_cur st <= v_se (v_cfg st) ->
  find_avail st = None -> in_s (v_cfg st) s = true -> in_c (v_cfg st) x = true ->
  get2 (v_usage st) s x <> None.
Proof.
  intros Hc H Hs Hx. unfold find_avail in H.
  destruct (first_s st (rangeN (v_cur st) (v_se (v_cfg st)))) eqn:E1; [discriminate|].
  unfold in_s in Hs. destruct (v_cur st <=? s) eqn:Ec.
  - apply (find_c_none st s x); [|exact Hx]. apply (first_s_none _ _ E1). apply rangeN_In. lia.
  - apply (find_c_none st s x); [|exact Hx]. apply (first_s_none _ _ H).
    destruct (v_cur st =? 0) eqn:E0; [lia|]. apply rangeN_In. lia.
Qed.

Lemma v_record_inv st n s c :
  v_inv st -> in_s (v_cfg st) s = true -> in_c (v_cfg st) c = true ->
  get2 (v_usage st) s c = None -> aget (v_alloc st) n = None -> v_inv (v_record st n s c).
Proof.
  intros [B R C] Hs Hc Hfree Hn. split; cbn.
  - intros n' s' c'. rewrite aget_aset, get2_set2.
    case_eqb n n'; case_eqb s s'; try case_eqb c c'; cbn;
    first [apply B | split; intros H; solve [congruence | apply B in H; congruence]].
  - intros n' s' c'. rewrite aget_aset. destruct (n =? n'); [|apply R].
    intros H; inversion H; subst. split; assumption.
  - exact C.
Qed.

Lemma v_setcur_inv st cur :
  v_inv st -> v_ss (v_cfg st) <= cur <= v_se (v_cfg st) -> v_inv (v_with st (v_alloc st) (v_usage st) cur).
Proof. intros [B R C] H. split; cbn; assumption. Qed.

Lemma v_release_usage st n s c s' c' :
  aget (v_alloc st) n = Some (s, c) ->
  get2 (v_usage (v_release st n)) s' c' = if (s =? s') && (c =? c') then None else get2 (v_usage st) s' c'.
Proof. intros H. unfold v_release. rewrite H. cbn. apply get2_vdel2. Qed.

Lemma v_release_inv st n : v_inv st -> v_inv (v_release st n).
Proof.
  intros [B R C]. unfold v_release. destruct (aget (v_alloc st) n) as [[s c]|] eqn:E; [|split; assumption].
  pose proof (proj1 (B _ _ _) E) as E'.
  split; cbn.
  - intros n' s' c'. rewrite aget_adel, get2_vdel2.
    case_eqb n n'; case_eqb s s'; try case_eqb c c'; cbn;
    first [apply B | split; intros H; solve [congruence | apply B in H; congruence]].
  - intros n' s' c'. rewrite aget_adel. destruct (n =? n'); [discriminate|apply R].
  - exact C.
Qed.

Lemma v_release_cfg st n : v_cfg (v_release st n) = v_cfg st.
Proof. unfold v_release. destruct (aget (v_alloc st) n) as [[s c]|]; reflexivity. Qed.

Lemma v_release_none st n : aget (v_alloc (v_release st n)) n = None.
Proof.
  unfold v_release. destruct (aget (v_alloc st) n) as [[s c]|] eqn:E; [|exact E].
  cbn. rewrite aget_adel, N.eqb_refl. reflexivity.
Qed.

Lemma v_release_keeps_free st n s c :
  get2 (v_usage st) s c = None -> get2 (v_usage (v_release st n)) s c = None.
Proof.
  intros H. destruct (aget (v_alloc st) n) as [[s0 c0]|] eqn:E.
  - rewrite (v_release_usage st n s0 c0 s c E). destruct ((s0 =? s) && (c0 =? c)); [reflexivity|exact H].
  - unfold v_release. rewrite E. exact H.
Qed.

(* release n, then record (s, c) for n, on a state where (s, c) is free or held by n itself *)
Lemma v_rebind_inv st n s c :
  v_inv st -> in_s (v_cfg st) s = true -> in_c (v_cfg st) c = true ->
  (get2 (v_usage st) s c = None \/ get2 (v_usage st) s c = Some n) ->
  v_inv (v_record (v_release st n) n s c).
Proof.
  intros I Hs Hc Hfree. apply v_record_inv.
  - apply v_release_inv, I.
  - rewrite v_release_cfg. exact Hs.
  - rewrite v_release_cfg. exact Hc.
  - destruct Hfree as [H|H]; [apply v_release_keeps_free, H|].
    pose proof (proj2 (vi_bij st I n s c) H) as Ha.
    rewrite (v_release_usage st n s c s c Ha), !N.eqb_refl. reflexivity.
  - apply v_release_none.
Qed.

Lemma v_load1_inv acc r : v_inv (fst acc) -> v_inv (fst (v_load1 acc r)).
Proof.
  destruct acc as [st bad]. destruct r as [[n s] c]. cbn [fst]. intros I. unfold v_load1.
  destruct ((s =? 0) || (c =? 0)); [exact I|].
  destruct (in_s (v_cfg st) s && in_c (v_cfg st) c) eqn:Er; cbn [negb]; [|exact I].
  apply andb_true_iff in Er. destruct Er as [Hs Hc].
  destruct (get2 (v_usage st) s c) as [o|] eqn:Eo.
  - destruct (o =? n) eqn:E; [|exact I]. apply N.eqb_eq in E; subst o. cbn [fst].
    apply v_rebind_inv; auto.
  - cbn [fst]. apply v_rebind_inv; auto.
Qed.

Lemma v_load1_cfg acc r : v_cfg (fst (v_load1 acc r)) = v_cfg (fst acc).
Proof.
  destruct acc as [st bad]. destruct r as [[n s] c]. cbn [fst]. unfold v_load1.
  destruct ((s =? 0) || (c =? 0)); [reflexivity|].
  destruct (negb (in_s (v_cfg st) s && in_c (v_cfg st) c)); [reflexivity|].
  destruct (get2 (v_usage st) s c) as [o|]; [destruct (o =? n)|]; cbn [fst]; try reflexivity;
  unfold v_record; cbn; apply v_release_cfg.
Qed.

Lemma v_load_inv l : forall acc, v_inv (fst acc) ->
  v_inv (fst (fold_left v_load1 l acc)) /\ v_cfg (fst (fold_left v_load1 l acc)) = v_cfg (fst acc).
Proof.
  induction l as [|r l IH]; intros acc I; cbn; [split; [exact I|reflexivity]|].
  destruct (IH (v_load1 acc r) (v_load1_inv acc r I)) as [I' C'].
  split; [exact I'|]. rewrite C'. apply v_load1_cfg.
Qed.

Lemma v_step_inv st o :
  v_cs (v_cfg st) <= v_ce (v_cfg st) -> v_inv st -> v_inv (v_next st o) /\ v_cfg (v_next st o) = v_cfg st.
Proof.
  intros Hw I. unfold v_next, v_step. destruct o as [n|n s|n|l].
  - destruct (aget (v_alloc st) n) as [[s c]|] eqn:En; cbn; [split; [exact I|reflexivity]|].
    destruct (find_avail st) as [[s c]|] eqn:Ef; cbn; [|split; [exact I|reflexivity]].
    destruct (find_avail_spec st s c Hw (vi_cur st I) Ef) as (Hs & Hc & Hfree).
    split; [|reflexivity]. apply v_record_inv; cbn; auto.
    apply v_setcur_inv; [exact I|]. unfold in_s in Hs. lia.
  - destruct (in_s (v_cfg st) s) eqn:Hs; cbn; [|split; [exact I|reflexivity]].
    destruct (match aget (v_alloc st) n with Some (s0, c0) => if s0 =? s then Some c0 else None | None => None end);
      cbn; [split; [exact I|reflexivity]|].
    destruct (find_c st s) as [c|] eqn:Ef; cbn; [|split; [exact I|reflexivity]].
    destruct (find_c_spec st s c Hw Ef) as [Hc Hfree].
    split; [apply v_rebind_inv; auto|]. unfold v_record; cbn. apply v_release_cfg.
  - cbn. split; [apply v_release_inv, I|apply v_release_cfg].
  - destruct (fold_left v_load1 l (st, false)) as [st' bad] eqn:El. cbn.
    pose proof (v_load_inv l (st, false) I) as H. rewrite El in H. exact H.
Qed.

Lemma v_run_inv ops : forall st,
  v_cs (v_cfg st) <= v_ce (v_cfg st) -> v_inv st -> v_inv (v_run st ops) /\ v_cfg (v_run st ops) = v_cfg st.
Proof.
  induction ops as [|o ops IH]; intros st Hw I; [split; [exact I|reflexivity]|].
  change (v_run st (o :: ops)) with (v_run (v_next st o) ops).
  destruct (v_step_inv st o Hw I) as [I' C']. destruct (IH (v_next st o)) as [I'' C''].
  - rewrite C'. exact Hw.
  - exact I'.
  - split; [exact I''|]. rewrite C''. exact C'.
Qed.

Lemma v_init_inv c ntes probe : v_ss c <= v_se c -> v_inv (v_init c ntes probe).
Proof. intros H. split; cbn; try (intros; split; discriminate); try (intros; discriminate). lia. Qed.

(* after ANY sequence of Allocate / AllocateWithSTag / Release / LoadFromStore over non-empty ranges:
   allocations and the per-S-TAG usage maps are mutually inverse, and every held pair is in range *)
Theorem vlan_alloc_unique_in_range : forall c ntes probe ops,
  v_wf c ->
  let st := v_run (v_init c ntes probe) ops in
  (forall n s x, aget (v_alloc st) n = Some (s, x) <-> get2 (v_usage st) s x = Some n) /\
  (forall n s x, aget (v_alloc st) n = Some (s, x) -> in_s c s = true /\ in_c c x = true) /\
  (forall n n' s x, aget (v_alloc st) n = Some (s, x) -> aget (v_alloc st) n' = Some (s, x) -> n = n').
Proof.
  intros c ntes probe ops [Hs Hc] st.
  destruct (v_run_inv ops (v_init c ntes probe) Hc (v_init_inv c ntes probe Hs)) as [[B R C] E].
  fold st in B, R, C, E. cbn in E. split; [exact B|split].
  - intros n s x H. rewrite <- E. eapply R, H.
  - intros n n' s x H1 H2. apply B in H1. apply B in H2. congruence.
Qed.

(* Allocate answers Exhausted only when every pair of the configured ranges is held *)
Theorem vlan_exhausted_only_if_full : forall c ntes probe ops n,
  v_wf c ->
  let st := v_run (v_init c ntes probe) ops in
  o_ret (snd (fst (v_step st (VAlloc n)))) = RErr EExhausted ->
  forall s x, in_s c s = true -> in_c c x = true -> get2 (v_usage st) s x <> None.
Proof.
  intros c ntes probe ops n [Hs Hc] st H s x Hin Hix.
  destruct (v_run_inv ops (v_init c ntes probe) Hc (v_init_inv c ntes probe Hs)) as [I E].
  fold st in I, E. cbn in E. unfold v_step in H.
  destruct (aget (v_alloc st) n) as [[s0 c0]|]; [discriminate|].
  destruct (find_avail st) as [[s0 c0]|] eqn:Ef; [discriminate|].
  apply (find_avail_none st s x (vi_cur st I) Ef); rewrite E; assumption.
Qed.

(* Release: the NTE has no pair, its pair is free, nobody else changes; the pair can be handed out again *)
Theorem vlan_release_frees : forall c ntes probe ops n s x,
  v_wf c ->
  let st := v_run (v_init c ntes probe) ops in
  aget (v_alloc st) n = Some (s, x) ->
  let st' := v_next st (VRelease n) in
  aget (v_alloc st') n = None /\ get2 (v_usage st') s x = None /\
  (forall n', n' <> n -> aget (v_alloc st') n' = aget (v_alloc st) n') /\
  (forall s' x', (s', x') <> (s, x) -> get2 (v_usage st') s' x' = get2 (v_usage st) s' x').
Proof.
  intros c ntes probe ops n s x Hw st Ha st'. unfold st', v_next, v_step; cbn.
  split; [apply v_release_none|]. split; [|split].
  - rewrite (v_release_usage st n s x s x Ha), !N.eqb_refl. reflexivity.
  - intros n' Hn. unfold v_release. rewrite Ha; cbn. rewrite aget_adel.
    destruct (n =? n') eqn:E; [apply N.eqb_eq in E; congruence|reflexivity].
  - intros s' x' Hn. rewrite (v_release_usage st n s x s' x' Ha).
    destruct (s =? s') eqn:E1; [|reflexivity]. destruct (x =? x') eqn:E2; [|reflexivity].
    apply N.eqb_eq in E1. apply N.eqb_eq in E2. subst. congruence.
Qed.
