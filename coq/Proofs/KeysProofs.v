(* C20 — lemmas about Model/Keys.v (VLAN allocator, QinQ mapper, PPPoE session ids, circuit-id key). *)
From Coq Require Import ZArith NArith List Bool Lia ZifyN ZifyNat ZifyBool.
From Verif Require Import Base.Word Model.Keys.
Import ListNotations.
Local Open Scope N_scope.

(* ------------------------------------------------------------------ association maps *)
Lemma aget_adel {V} (m : amap V) k k' : aget (adel m k) k' = if k =? k' then None else aget m k'.
Proof.
  induction m as [|[a v] m IH]; cbn.
  - destruct (k =? k'); reflexivity.
  - destruct (a =? k) eqn:E1.
    + apply N.eqb_eq in E1; subst a. rewrite IH. destruct (k =? k') eqn:E2; reflexivity.
    + cbn. rewrite IH. destruct (a =? k') eqn:E2; [|reflexivity].
      apply N.eqb_eq in E2; subst a. rewrite N.eqb_sym, E1. reflexivity.
Qed.

Lemma aget_aset {V} (m : amap V) k v k' : aget (aset m k v) k' = if k =? k' then Some v else aget m k'.
Proof. unfold aset; cbn. destruct (k =? k') eqn:E; [reflexivity|]. rewrite aget_adel, E. reflexivity. Qed.

Lemma amem_false {V} (m : amap V) k : amem m k = false <-> aget m k = None.
Proof. unfold amem. destruct (aget m k); split; congruence. Qed.

Lemma get2_set2 {V} (m : amap (amap V)) a b v a' b' :
  get2 (set2 m a b v) a' b' = if (a =? a') && (b =? b') then Some v else get2 m a' b'.
Proof.
  unfold get2, set2. rewrite aget_aset. destruct (a =? a') eqn:Ea; cbn.
  - apply N.eqb_eq in Ea; subst a'. destruct (b =? b') eqn:Eb; [reflexivity|].
    rewrite aget_adel, Eb. destruct (aget m a); reflexivity.
  - reflexivity.
Qed.

Lemma adel_nil_get {V} (u : amap V) b : adel u b = [] -> forall b', b' <> b -> aget u b' = None.
Proof.
  intros H b' Hn. assert (E : aget (adel u b) b' = aget u b').
  { rewrite aget_adel. destruct (b =? b') eqn:E; [apply N.eqb_eq in E; congruence|reflexivity]. }
  rewrite <- E, H. reflexivity.
Qed.

Lemma get2_vdel2 {V} (m : amap (amap V)) a b a' b' :
  get2 (vdel2 m a b) a' b' = if (a =? a') && (b =? b') then None else get2 m a' b'.
Proof.
  unfold vdel2, get2. destruct (aget m a) as [u|] eqn:Eu.
  - destruct (adel u b) as [|p u'] eqn:Ed.
    + rewrite aget_adel. destruct (a =? a') eqn:Ea; cbn.
      * apply N.eqb_eq in Ea; subst a'. rewrite Eu. destruct (b =? b') eqn:Eb; [reflexivity|].
        symmetry. apply (adel_nil_get u b Ed). intro; subst. rewrite N.eqb_refl in Eb. discriminate.
      * reflexivity.
    + rewrite <- Ed, aget_aset. destruct (a =? a') eqn:Ea; cbn.
      * apply N.eqb_eq in Ea; subst a'. rewrite Eu, aget_adel. reflexivity.
      * reflexivity.
  - destruct (a =? a') eqn:Ea; cbn; [|reflexivity].
    apply N.eqb_eq in Ea; subst a'. rewrite Eu. destruct (b =? b'); reflexivity.
Qed.

Arguments aset : simpl never.
Arguments set2 : simpl never.
Arguments vdel2 : simpl never.

Ltac eqb_cases :=
  repeat match goal with
         | H : context [?a =? ?b] |- _ =>
             let E := fresh "E" in destruct (a =? b) eqn:E;
             [apply N.eqb_eq in E; try subst|apply N.eqb_neq in E]; cbn in H
         | |- context [?a =? ?b] =>
             let E := fresh "E" in destruct (a =? b) eqn:E;
             [apply N.eqb_eq in E; try subst|apply N.eqb_neq in E]; cbn
         end.

(* ------------------------------------------------------------------ qinq.Mapper *)
Definition q_next (st : qst) (o : qop) : qst := fst (fst (q_step st o)).
Definition q_run (st : qst) (ops : list qop) : qst := fold_left q_next ops st.

Record q_inv (st : qst) : Prop := {
  qi_bij : forall v id, aget (q_v2s st) v = Some id <-> aget (q_s2v st) id = Some v;
  qi_rng : forall v id, aget (q_v2s st) v = Some id -> exists s c, v = pk s c /\ q_valid (q_cfg st) s c = true }.

Lemma q_cfg_next st o : q_cfg (q_next st o) = q_cfg st.
Proof.
  unfold q_next, q_step. destruct o; cbn.
  - destruct (q_valid (q_cfg st) s c); cbn; [|reflexivity].
    destruct (aget (q_v2s st) (pk s c)) as [e|]; [destruct (e =? id)|]; reflexivity.
  - destruct (aget (q_v2s st) (pk s c)); reflexivity.
  - destruct (aget (q_s2v st) id); reflexivity.
Qed.

(* registering v for id on a consistent state: the new pair of maps *)
Lemma q_reg_inv st s c id :
  q_inv st -> q_valid (q_cfg st) s c = true ->
  (forall e, aget (q_v2s st) (pk s c) = Some e -> e = id) ->
  q_inv (q_with st (aset (match aget (q_s2v st) id with Some old => adel (q_v2s st) old | None => q_v2s st end) (pk s c) id)
                   (aset (q_s2v st) id (pk s c))).
Proof.
  intros [B R] Hv Hfree. split; cbn.
  - intros v i. rewrite !aget_aset.
    destruct (aget (q_s2v st) id) as [old|] eqn:Eo.
    + rewrite aget_adel. pose proof (proj2 (B old id) Eo) as Hold.
      destruct (pk s c =? v) eqn:E1; [apply N.eqb_eq in E1; subst v|apply N.eqb_neq in E1].
      * destruct (id =? i) eqn:E2; [apply N.eqb_eq in E2; subst i; tauto|apply N.eqb_neq in E2].
        split; [congruence|]. intros H. apply B in H. apply Hfree in H. congruence.
      * destruct (id =? i) eqn:E2; [apply N.eqb_eq in E2; subst i|apply N.eqb_neq in E2].
        -- destruct (old =? v) eqn:E3; [apply N.eqb_eq in E3; subst v|apply N.eqb_neq in E3].
           ++ split; [discriminate|congruence].
           ++ split; [intros H; apply B in H; congruence|congruence].
        -- destruct (old =? v) eqn:E3; [apply N.eqb_eq in E3; subst v|apply N.eqb_neq in E3].
           ++ split; [discriminate|]. intros H. apply B in H. congruence.
           ++ apply B.
    + destruct (pk s c =? v) eqn:E1; [apply N.eqb_eq in E1; subst v|apply N.eqb_neq in E1].
      * destruct (id =? i) eqn:E2; [apply N.eqb_eq in E2; subst i; tauto|apply N.eqb_neq in E2].
        split; [congruence|]. intros H. apply B in H. apply Hfree in H. congruence.
      * destruct (id =? i) eqn:E2; [apply N.eqb_eq in E2; subst i|apply N.eqb_neq in E2].
        -- split; [intros H; apply B in H; congruence|congruence].
        -- apply B.
  - intros v i. rewrite aget_aset.
    destruct (pk s c =? v) eqn:E1; [apply N.eqb_eq in E1; subst v; intros _; eauto|].
    destruct (aget (q_s2v st) id) as [old|]; [rewrite aget_adel; destruct (old =? v); [discriminate|]|]; apply R.
Qed.

Lemma q_unreg_inv st v id :
  q_inv st -> aget (q_v2s st) v = Some id ->
  q_inv (q_with st (adel (q_v2s st) v) (adel (q_s2v st) id)).
Proof.
  intros [B R] Hv. split; cbn.
  - intros v' i. rewrite !aget_adel.
    destruct (v =? v') eqn:E1; [apply N.eqb_eq in E1; subst v'|apply N.eqb_neq in E1];
    (destruct (id =? i) eqn:E2; [apply N.eqb_eq in E2; subst i|apply N.eqb_neq in E2]).
    + split; discriminate.
    + split; [discriminate|]. intros H. apply B in H. congruence.
    + split; [|discriminate]. intros H. apply B in H. apply B in Hv. congruence.
    + apply B.
  - intros v' i. rewrite aget_adel. destruct (v =? v'); [discriminate|apply R].
Qed.

Lemma q_step_inv st o : q_inv st -> q_inv (q_next st o).
Proof.
  intros I. unfold q_next, q_step. destruct o; cbn.
  - destruct (q_valid (q_cfg st) s c) eqn:Hv; cbn; [|exact I].
    destruct (aget (q_v2s st) (pk s c)) as [e|] eqn:He.
    + destruct (e =? id) eqn:Ee; cbn; [|exact I]. apply N.eqb_eq in Ee; subst e.
      apply q_reg_inv; auto. intros e H; congruence.
    + cbn. apply q_reg_inv; auto. intros e H; congruence.
  - destruct (aget (q_v2s st) (pk s c)) as [i|] eqn:He; cbn; [|exact I].
    apply q_unreg_inv; auto.
  - destruct (aget (q_s2v st) id) as [v|] eqn:He; cbn; [|exact I].
    apply q_unreg_inv; auto. apply (qi_bij st I). exact He.
Qed.

Lemma q_run_inv ops : forall st, q_inv st -> q_inv (q_run st ops).
Proof. induction ops as [|o ops IH]; intros st I; cbn; [exact I|]. apply IH, q_step_inv, I. Qed.

Lemma q_run_cfg ops : forall st, q_cfg (q_run st ops) = q_cfg st.
Proof.
  induction ops as [|o ops IH]; intros st; [reflexivity|].
  change (q_run st (o :: ops)) with (q_run (q_next st o) ops). rewrite IH. apply q_cfg_next.
Qed.

Lemma q_init_inv c subs probe : q_inv (q_init c subs probe).
Proof. split; cbn; intros; [split|]; discriminate. Qed.

Theorem qinq_bijective : forall c subs probe ops v id,
  let st := q_run (q_init c subs probe) ops in
  aget (q_v2s st) v = Some id <-> aget (q_s2v st) id = Some v.
Proof. intros. apply (qi_bij _ (q_run_inv ops _ (q_init_inv c subs probe))). Qed.

Theorem qinq_in_range : forall c subs probe ops v id,
  let st := q_run (q_init c subs probe) ops in
  aget (q_s2v st) id = Some v -> exists s x, v = pk s x /\ q_valid c s x = true.
Proof.
  intros c subs probe ops v id st H.
  pose proof (q_run_inv ops _ (q_init_inv c subs probe)) as I. fold st in I.
  apply (qi_bij st I) in H. destruct (qi_rng st I _ _ H) as (s & x & -> & Hv).
  exists s, x. split; [reflexivity|]. unfold st in Hv. rewrite q_run_cfg in Hv. exact Hv.
Qed.

(* release: the pair is free, its holder has none, nobody else is touched; and it can be registered again *)
Theorem qinq_unregister_frees : forall c subs probe ops s x,
  let st := q_run (q_init c subs probe) ops in
  let st' := q_next st (QUnreg s x) in
  aget (q_v2s st') (pk s x) = None /\
  (forall id, aget (q_s2v st) id <> Some (pk s x) -> aget (q_s2v st') id = aget (q_s2v st) id) /\
  (forall id, aget (q_s2v st) id = Some (pk s x) -> aget (q_s2v st') id = None) /\
  (forall id, q_valid c s x = true -> o_ret (snd (fst (q_step st' (QReg s x id)))) = RKey (pk s x)).
Proof.
  intros c subs probe ops s x st st'.
  pose proof (q_run_inv ops _ (q_init_inv c subs probe)) as I. fold st in I.
  assert (Hc : q_cfg st' = c) by (unfold st', st; rewrite q_cfg_next, q_run_cfg; reflexivity).
  assert (H1 : aget (q_v2s st') (pk s x) = None).
  { unfold st', q_next, q_step. destruct (aget (q_v2s st) (pk s x)) eqn:E; cbn; [|exact E].
    rewrite aget_adel, N.eqb_refl. reflexivity. }
  repeat split.
  - exact H1.
  - intros id Hn. unfold st', q_next, q_step. destruct (aget (q_v2s st) (pk s x)) as [i|] eqn:E; cbn; [|reflexivity].
    rewrite aget_adel. destruct (i =? id) eqn:Ei; [|reflexivity]. apply N.eqb_eq in Ei; subst i.
    apply (qi_bij st I) in E. congruence.
  - intros id Hh. unfold st', q_next, q_step. pose proof (proj2 (qi_bij st I _ _) Hh) as E. rewrite E; cbn.
    rewrite aget_adel, N.eqb_refl. reflexivity.
  - intros id Hv. unfold q_step. rewrite Hc, Hv; cbn. rewrite H1. reflexivity.
Qed.

Theorem qinq_register_frame : forall c subs probe ops s x id id',
  let st := q_run (q_init c subs probe) ops in
  id' <> id -> aget (q_s2v (q_next st (QReg s x id))) id' = aget (q_s2v st) id'.
Proof.
  intros c subs probe ops s x id id' st Hn. unfold q_next, q_step.
  destruct (q_valid (q_cfg st) s x); cbn; [|reflexivity].
  destruct (aget (q_v2s st) (pk s x)) as [e|]; [destruct (e =? id)|]; cbn; try reflexivity;
  rewrite aget_aset; destruct (id =? id') eqn:E; try reflexivity; apply N.eqb_eq in E; congruence.
Qed.
