(* C02, DHCPv4: weaker guards for the _partial theorems.

   [quiet4 c ops]   (dynamic, decidable by running the Model) no DISCOVER/REQUEST of the history
                    takes its "existing lease" from the circuit-ID index (ghost marker 0201 is
                    never raised).
   [guard4 ops]     (static) no relayed DISCOVER/REQUEST carries a circuit-id      ==> quiet4
   [cid_owned ops]  (static) every circuit-id of the history is used by one MAC only ==> quiet4
                    (relayed requests with option 82 are allowed: one subscriber line = one CPE MAC).

   The _partial theorems are transferred from guard4 to quiet4: a step on which the index lookup
   does not fire is the same step as that of the message with giaddr cleared ([unrelay]), because
   m_relay is read by [existing] only. *)
From Coq Require Import ZArith NArith List Lia ZifyN ZifyNat ZifyBool Bool.
From Verif Require Import Model.Dhcp4 Proofs.Dhcp4Proofs.
Import ListNotations.
Local Open Scope N_scope.

(* ---------- the dynamic guard ---------- *)
Definition fires (s : state4) (o : op4) : bool :=
  match o with
  | Discover m | Request m => match existing s m with Some (_, true) => true | _ => false end
  | _ => false
  end.

Fixpoint quiet_from (c : cfg4) (s : state4) (ops : list op4) : bool :=
  match ops with
  | [] => true
  | o :: tl => negb (fires s o) && quiet_from c (step4s c s o) tl
  end.
Definition quiet4 (c : cfg4) (ops : list op4) : bool := quiet_from c (init4 c) ops.

Definition unrelay_msg (m : msg4) : msg4 :=
  {| m_mac := m_mac m; m_req := m_req m; m_ci := m_ci m; m_relay := false; m_cid := m_cid m |}.
Definition unrelay (o : op4) : op4 :=
  match o with
  | Discover m => Discover (unrelay_msg m)
  | Request m => Request (unrelay_msg m)
  | _ => o
  end.

Lemma existing_unrelay s m :
  (match existing s m with Some (_, true) => true | _ => false end) = false ->
  existing s (unrelay_msg m) = existing s m.
Proof.
  unfold existing. cbn [m_mac m_relay m_cid unrelay_msg]. destruct (alookup (m_mac m) (leases s)); [reflexivity|].
  cbn [andb]. destruct (m_relay m && negb (m_cid m =? 0)); [|reflexivity].
  destruct (alookup (m_cid m) (cidx s)); [discriminate|reflexivity].
Qed.

Lemma step_unrelay c s o : fires s o = false -> step4 c s (unrelay o) = step4 c s o.
Proof.
  intro H. destruct o as [m|m|m|m|m|d|ord]; try reflexivity; cbn in H; cbn [unrelay step4];
    rewrite (existing_unrelay s m H); reflexivity.
Qed.

Lemma guard_unrelay ops : guard4 (map unrelay ops) = true.
Proof.
  unfold guard4. induction ops as [|o tl IH]; [reflexivity|]. cbn [map forallb]. rewrite IH, andb_true_r.
  destruct o; reflexivity.
Qed.

Lemma fold_unrelay c ops : forall s, quiet_from c s ops = true ->
  fold_left (step4s c) (map unrelay ops) s = fold_left (step4s c) ops s.
Proof.
  induction ops as [|o tl IH]; intros s H; [reflexivity|]. cbn in H. apply andb_true_iff in H. destruct H as [H1 H2].
  apply negb_true_iff in H1. cbn. unfold step4s at 2 4. rewrite (step_unrelay c s o H1). apply IH. exact H2.
Qed.

Lemma run_unrelay c ops : quiet4 c ops = true -> run4 c (map unrelay ops) = run4 c ops.
Proof. apply fold_unrelay. Qed.

Lemma quiet_from_app c a : forall s b,
  quiet_from c s (a ++ b) = quiet_from c s a && quiet_from c (fold_left (step4s c) a s) b.
Proof.
  induction a as [|o tl IH]; intros s b; [reflexivity|]. cbn. rewrite IH. now rewrite andb_assoc.
Qed.

Lemma quiet4_app c a b : quiet4 c (a ++ b) = true -> quiet4 c a = true /\ quiet_from c (run4 c a) b = true.
Proof. unfold quiet4, run4. rewrite quiet_from_app. apply andb_true_iff. Qed.

Lemma quiet_of_guard c ops : guard4 ops = true -> quiet4 c ops = true.
Proof.
  unfold quiet4. generalize (init4 c). induction ops as [|o tl IH]; intros s H; [reflexivity|].
  cbn in H. apply andb_true_iff in H. destruct H as [H1 H2]. cbn. rewrite (IH _ H2), andb_true_r.
  apply negb_true_iff. destruct o as [m|m|m|m|m|d|ord]; try reflexivity; cbn; rewrite (existing_guard s m H1);
    destruct (alookup (m_mac m) (leases s)); reflexivity.
Qed.

Lemma op_client_unrelay o : op_client (unrelay o) = op_client o.
Proof. destruct o; reflexivity. Qed.

(* ---------- the _partial theorems under the dynamic guard ---------- *)
Lemma v4_a_quiet c ops o s' r mk v c' :
  quiet4 c (ops ++ [o]) = true ->
  step4 c (run4 c ops) o = (s', r, mk) -> reply_val r = Some v -> c' <> op_client o ->
  ~ holds (run4 c ops) c' v.
Proof.
  intros Hq Hs Hv Hn. destruct (quiet4_app _ _ _ Hq) as [Hq1 Hq2]. cbn in Hq2. rewrite andb_true_r in Hq2.
  apply negb_true_iff in Hq2. rewrite <- (run_unrelay c ops Hq1) in *. rewrite <- (step_unrelay c _ o Hq2) in Hs.
  eapply v4_a_partial; eauto.
  - change [unrelay o] with (map unrelay [o]). rewrite <- map_app. apply guard_unrelay.
  - now rewrite op_client_unrelay.
Qed.

Lemma v4_b_quiet c ops m1 m2 l1 l2 :
  quiet4 c ops = true ->
  alookup m1 (leases (run4 c ops)) = Some l1 -> alookup m2 (leases (run4 c ops)) = Some l2 ->
  l_ip l1 = l_ip l2 -> m1 = m2.
Proof.
  intros Hq. rewrite <- (run_unrelay c ops Hq). apply v4_b_partial, guard_unrelay.
Qed.

Lemma v4_e_quiet c ops1 ops2 m l o s' r mk :
  quiet4 c (ops1 ++ Decline m :: ops2 ++ [o]) = true ->
  alookup (m_mac m) (leases (run4 c ops1)) = Some l -> m_req m = Some (l_ip l) ->
  step4 c (run4 c (ops1 ++ Decline m :: ops2)) o = (s', r, mk) ->
  reply_val r <> Some (l_ip l).
Proof.
  intros Hq Hl Hreq Hs.
  assert (Hq' : quiet4 c ((ops1 ++ Decline m :: ops2) ++ [o]) = true).
  { rewrite <- app_assoc. exact Hq. }
  destruct (quiet4_app _ _ _ Hq') as [Hq1 Hq2]. cbn in Hq2. rewrite andb_true_r in Hq2. apply negb_true_iff in Hq2.
  destruct (quiet4_app _ _ _ Hq1) as [Hq0 _].
  rewrite <- (run_unrelay c _ Hq1) in Hs, Hq2. rewrite <- (step_unrelay c _ o Hq2) in Hs.
  rewrite <- (run_unrelay c _ Hq0) in Hl. rewrite map_app in Hs. cbn [map unrelay] in Hs.
  eapply v4_e_partial; [|exact Hl|exact Hreq|exact Hs].
  assert (E : map unrelay ops1 ++ Decline m :: map unrelay ops2 ++ [unrelay o] = map unrelay (ops1 ++ Decline m :: ops2 ++ [o])).
  { rewrite map_app. cbn [map unrelay]. rewrite map_app. reflexivity. }
  rewrite E. apply guard_unrelay.
Qed.

Lemma v4_f_release_quiet c ops m l :
  quiet4 c ops = true -> alookup (m_mac m) (leases (run4 c ops)) = Some l ->
  let s' := step4s c (run4 c ops) (Release m) in
  alookup (m_mac m) (leases s') = None /\ (In (l_ip l) (avail s') \/ In (l_ip l) (unavail s')).
Proof.
  intros Hq. rewrite <- (run_unrelay c ops Hq). apply v4_f_release_partial, guard_unrelay.
Qed.

(* (f) expiry, second half: the address of every lease that has run out is, after the cleanup
   tick, on the free list again (or was declined) *)
Lemma expire_one_avail s m v : In v (avail s) \/ In v (unavail s) -> In v (avail (expire_one s m)) \/ In v (unavail (expire_one s m)).
Proof.
  unfold expire_one. destruct (alookup m (leases s)); [|auto]. destruct (l_exp l <=? now s); [|auto].
  unfold pool_release. cbn [alloc drop_lease avail unavail]. destruct (drop_first_val (l_ip l) (alloc s)); cbn; [|auto].
  intros [H|H]; [left; apply in_or_app; now left|now right].
Qed.
Lemma fold_expire_avail ms : forall s v, In v (avail s) \/ In v (unavail s) ->
  In v (avail (fold_left expire_one ms s)) \/ In v (unavail (fold_left expire_one ms s)).
Proof. induction ms as [|m tl IH]; cbn; intros s v H; [assumption|]. apply IH. now apply expire_one_avail. Qed.

Lemma expire_one_frees s m l : inv4 s -> alookup m (leases s) = Some l -> l_exp l <= now s ->
  In (l_ip l) (avail (expire_one s m)) \/ In (l_ip l) (unavail (expire_one s m)).
Proof.
  intros [Hp [L3 L4]] Hl He. unfold expire_one. rewrite Hl. apply N.leb_le in He. rewrite He.
  unfold pool_release. cbn [alloc drop_lease]. destruct (drop_first_val (l_ip l) (alloc s)) eqn:E; cbn.
  - left. apply in_or_app. right. now left.
  - apply drop_first_val_none in E. destruct (L3 _ _ Hl) as [H|H]; [exfalso; apply E; eapply lookup_in_vals; eauto|now right].
Qed.

Lemma expire_one_other s m m' l' : m' <> m -> alookup m' (leases s) = Some l' -> alookup m' (leases (expire_one s m)) = Some l'.
Proof.
  intros Hn Hl. unfold expire_one. destruct (alookup m (leases s)); [|assumption]. destruct (l_exp l <=? now s); [|assumption].
  rewrite pool_release_leases. cbn. now rewrite alookup_aremove_ne.
Qed.

Lemma fold_expire_frees ms : forall s m l, inv4 s -> In m ms -> alookup m (leases s) = Some l -> l_exp l <= now s ->
  In (l_ip l) (avail (fold_left expire_one ms s)) \/ In (l_ip l) (unavail (fold_left expire_one ms s)).
Proof.
  induction ms as [|x tl IH]; cbn; intros s m l Hi Hin Hl He; [contradiction|].
  destruct (N.eq_dec x m) as [->|Hn].
  - apply fold_expire_avail. now apply expire_one_frees.
  - destruct Hin as [->|Hin]; [congruence|]. apply (IH _ m l); auto.
    + now apply expire_one_inv.
    + apply expire_one_other; auto.
    + now rewrite expire_one_now.
Qed.

Lemma v4_f_expiry_frees c ops ord m l :
  quiet4 c ops = true -> alookup m (leases (run4 c ops)) = Some l -> l_exp l <= now (run4 c ops) ->
  let s' := step4s c (run4 c ops) (Cleanup ord) in
  alookup m (leases s') = None /\ (In (l_ip l) (avail s') \/ In (l_ip l) (unavail s')).
Proof.
  intros Hq Hl He. cbn zeta. split.
  - destruct (alookup m (leases (step4s c (run4 c ops) (Cleanup ord)))) as [l'|] eqn:E; [|reflexivity].
    pose proof (v4_f_expiry _ _ _ _ _ E) as Hlt. unfold step4s in E. cbn in E.
    apply fold_expire_keeps in E. destruct E as [E _]. rewrite Hl in E. inv E. lia.
  - unfold step4s. cbn. apply (fold_expire_frees _ _ m l); auto.
    + rewrite <- (run_unrelay c ops Hq). apply run_inv, guard_unrelay.
    + apply in_or_app. right. apply alookup_in in Hl. apply in_map_iff. exists (m, l). auto.
Qed.

(* ---------- the static guard: circuit-ids are never shared between MACs ---------- *)
Definition op_mac (o : op4) : N := op_client o.
Definition op_cid (o : op4) : N :=
  match o with Discover m | Request m | Release m | Decline m | Inform m => m_cid m | _ => 0 end.
Definition cid_owned (ops : list op4) : bool :=
  forallb (fun o1 => forallb (fun o2 => (op_cid o1 =? 0) || negb (op_cid o1 =? op_cid o2) || (op_mac o1 =? op_mac o2)) ops) ops.

Section Owned.
Variable P : N -> N -> Prop.     (* P m k: circuit-id k belongs to MAC m *)
Hypothesis Pfun : forall m m' k, P m k -> P m' k -> m = m'.

Definition op_P (o : op4) : Prop := op_cid o <> 0 -> P (op_mac o) (op_cid o).

Record cinv (s : state4) : Prop := {
  c_live : forall k o, alookup k (cidx s) = Some o ->
             k <> 0 /\ l_cid o = k /\ alookup (l_mac o) (leases s) = Some o;
  c_own : forall m l, alookup m (leases s) = Some l -> l_mac l = m /\ (l_cid l = 0 \/ P m (l_cid l)) }.

Lemma cinv_ext s s' : leases s' = leases s -> cidx s' = cidx s -> cinv s -> cinv s'.
Proof. intros E1 E2 [C1 C2]. constructor; rewrite ?E1, ?E2; auto. Qed.

Lemma lease4_eqb_refl l : lease4_eqb l l = true.
Proof. unfold lease4_eqb. now rewrite !N.eqb_refl. Qed.

Lemma cinv_drop_lease s m l : cinv s -> alookup m (leases s) = Some l -> cinv (drop_lease s m l).
Proof.
  intros [C1 C2] Hl. constructor; cbn [drop_lease leases cidx].
  - intros k o Hk.
    assert (Hk0 : alookup k (cidx s) = Some o /\ (l_cid l <> 0 -> k <> l_cid l)).
    { destruct (l_cid l =? 0) eqn:E0; [split; [assumption|]; intro H; apply N.eqb_eq in E0; contradiction|].
      apply alookup_aremove_some in Hk. tauto. }
    destruct Hk0 as [Hk0 Hne]. destruct (C1 _ _ Hk0) as (K0 & Kc & Kl). repeat split; auto.
    destruct (N.eq_dec (l_mac o) m) as [Em|Em].
    + exfalso. rewrite Em, Hl in Kl. inv Kl. apply Hne; congruence.
    + now rewrite alookup_aremove_ne.
  - intros m' l' H. apply alookup_aremove_some in H. apply C2. tauto.
Qed.

Lemma drop_old_sub cx ex cid k o : alookup k (drop_old_cid cx ex cid) = Some o -> alookup k cx = Some o.
Proof.
  unfold drop_old_cid. destruct ex as [e|]; [|auto].
  destruct (negb (l_cid (fst e) =? 0) && negb (l_cid (fst e) =? cid)); [|auto].
  destruct (alookup (l_cid (fst e)) cx); [|auto]. destruct (lease4_eqb l (fst e)); [|auto].
  intro H. apply alookup_aremove_some in H. tauto.
Qed.

(* the ACK of [m] with the table entry of its MAC (or none) as existing lease *)
Lemma cinv_do_ack c s m ip :
  cinv s -> op_P (Request m) ->
  let ex := match alookup (m_mac m) (leases s) with Some l => Some (l, false) | None => None end in
  cinv (do_ack c s m ex ip).
Proof.
  intros [C1 C2] HP ex. unfold op_P in HP. cbn [op_cid op_mac op_client] in HP.
  set (cid := if m_cid m =? 0 then match ex with Some e => l_cid (fst e) | None => 0 end else m_cid m).
  set (nl := {| l_mac := m_mac m; l_ip := ip; l_exp := now s + c_lt c; l_cid := cid |}).
  assert (Hcid : cid = 0 \/ P (m_mac m) cid).
  { subst cid. destruct (m_cid m =? 0) eqn:E0.
    - subst ex. destruct (alookup (m_mac m) (leases s)) as [l|] eqn:El; [|now left]. cbn. apply (C2 _ _ El).
    - right. apply HP. now apply N.eqb_neq. }
  constructor; unfold do_ack; fold cid; fold nl; cbn [leases cidx].
  - intros k o Hk.
    destruct (negb (cid =? 0) && (cid =? k)) eqn:Ek.
    + apply andb_true_iff in Ek. destruct Ek as [E1 E2]. apply negb_true_iff in E1. apply N.eqb_eq in E2. subst k.
      rewrite E1 in Hk. rewrite alookup_aset_eq in Hk. inv Hk. cbn. apply N.eqb_neq in E1.
      repeat split; auto. apply alookup_aset_eq.
    + assert (Hk1 : alookup k (drop_old_cid (cidx s) ex cid) = Some o /\ (cid <> 0 -> cid <> k)).
      { destruct (cid =? 0) eqn:E0; cbn in Ek.
        - split; [assumption|]. apply N.eqb_eq in E0. intro; contradiction.
        - apply N.eqb_neq in Ek. rewrite alookup_aset_ne in Hk by congruence. split; auto. }
      destruct Hk1 as [Hk1 Hne]. pose proof (drop_old_sub _ _ _ _ _ Hk1) as Hk0.
      destruct (C1 _ _ Hk0) as (K0 & Kc & Kl). repeat split; auto.
      destruct (N.eq_dec (l_mac o) (m_mac m)) as [Em|Em].
      * exfalso. rewrite Em in Kl. subst ex. rewrite Kl in Hk1. unfold drop_old_cid in Hk1. cbn [fst] in Hk1.
        assert (Hc : negb (l_cid o =? 0) && negb (l_cid o =? cid) = true).
        { apply andb_true_iff. split; apply negb_true_iff, N.eqb_neq; [congruence|].
          intro Hq. destruct (N.eq_dec cid 0) as [Hz|Hz]; [congruence|]. apply (Hne Hz). congruence. }
        rewrite Hc, Kc, Hk0, lease4_eqb_refl, alookup_aremove_eq in Hk1. discriminate.
      * rewrite alookup_aset_ne by assumption. assumption.
  - intros m' l' H. destruct (N.eq_dec m' (m_mac m)) as [->|Hn].
    + rewrite alookup_aset_eq in H. inv H. cbn. auto.
    + rewrite alookup_aset_ne in H by assumption. apply C2. assumption.
Qed.

Lemma pool_release_cidx s ip : cidx (pool_release s ip) = cidx s.
Proof. unfold pool_release. destruct (drop_first_val ip (alloc s)); reflexivity. Qed.

Lemma cinv_expire_one s m : cinv s -> cinv (expire_one s m).
Proof.
  intro H. unfold expire_one. destruct (alookup m (leases s)) eqn:E; [|assumption].
  destruct (l_exp l <=? now s); [|assumption].
  eapply cinv_ext; [apply pool_release_leases|apply pool_release_cidx|]. now apply cinv_drop_lease.
Qed.
Lemma cinv_fold_expire ms : forall s, cinv s -> cinv (fold_left expire_one ms s).
Proof. induction ms; cbn; auto using cinv_expire_one. Qed.

Lemma cinv_quiet s o : cinv s -> op_P o -> fires s o = false.
Proof.
  intros [C1 C2] HP.
  assert (H : forall m, op_P (Request m) -> match existing s m with Some (_, true) => true | _ => false end = false).
  { clear HP. intros m HP. unfold op_P in HP. cbn [op_cid op_mac op_client] in HP. unfold existing.
    destruct (alookup (m_mac m) (leases s)) eqn:El; [reflexivity|].
    destruct (m_relay m && negb (m_cid m =? 0)) eqn:Er; [|reflexivity].
    destruct (alookup (m_cid m) (cidx s)) as [o'|] eqn:Ec; [|reflexivity]. exfalso.
    apply andb_true_iff in Er. destruct Er as [_ Er]. apply negb_true_iff, N.eqb_neq in Er.
    destruct (C1 _ _ Ec) as (K0 & Kc & Kl). destruct (C2 _ _ Kl) as [_ [Hz|Hp]]; [congruence|].
    rewrite Kc in Hp. pose proof (Pfun _ _ _ Hp (HP Er)) as Hm. rewrite Hm in Kl. congruence. }
  destruct o; try reflexivity; cbn; apply H; exact HP.
Qed.

Lemma pool_reserve_lc s m ip s' : pool_reserve s m ip = Some s' -> leases s' = leases s /\ cidx s' = cidx s.
Proof.
  unfold pool_reserve. destruct (alookup m (alloc s)); [destruct (n =? ip); intro H; inv H; auto|].
  destruct (memN ip (avail s)); intro H; inv H; auto.
Qed.

Lemma cinv_step c s o : cinv s -> op_P o -> cinv (step4s c s o).
Proof.
  intros Hc HP. pose proof (cinv_quiet s o Hc HP) as Hq.
  unfold step4s. rewrite <- (step_unrelay c s o Hq).
  assert (Hex : forall m, existing s (unrelay_msg m) =
                          match alookup (m_mac m) (leases s) with Some l => Some (l, false) | None => None end).
  { intro m. unfold existing. cbn. destruct (alookup (m_mac m) (leases s)); reflexivity. }
  destruct o as [m|m|m|m|m|d|ord]; cbn [unrelay step4].
  - rewrite Hex. destruct (alookup (m_mac m) (leases s)) as [l|].
    + cbn [fst]. destruct (now s <? l_exp l); [assumption|].
      cbn [m_mac unrelay_msg]. destruct (pool_alloc (m_mac m) (alloc s) (avail s)) as [[[ip a'] v']|]; cbn; [|assumption].
      eapply cinv_ext; [| |exact Hc]; reflexivity.
    + cbn [m_mac unrelay_msg]. destruct (pool_alloc (m_mac m) (alloc s) (avail s)) as [[[ip a'] v']|]; cbn; [|assumption].
      eapply cinv_ext; [| |exact Hc]; reflexivity.
  - rewrite Hex.
    assert (HP' : op_P (Request (unrelay_msg m))) by exact HP.
    destruct (alookup (m_mac m) (leases s)) as [l|] eqn:El.
    + cbn [fst]. destruct (l_ip l =? requested (unrelay_msg m)); cbn; [|assumption].
      pose proof (cinv_do_ack c s (unrelay_msg m) (requested (unrelay_msg m)) Hc HP') as H.
      cbn zeta in H. cbn [m_mac unrelay_msg] in H. rewrite El in H. exact H.
    + destruct (negb (contains4 c (requested (unrelay_msg m)))); [assumption|].
      destruct (pool_reserve s (m_mac (unrelay_msg m)) (requested (unrelay_msg m))) as [s1|] eqn:Er; cbn; [|assumption].
      destruct (pool_reserve_lc _ _ _ _ Er) as [E1 E2].
      assert (Hc1 : cinv s1) by (eapply cinv_ext; eauto).
      pose proof (cinv_do_ack c s1 (unrelay_msg m) (requested (unrelay_msg m)) Hc1 HP') as H.
      cbn zeta in H. cbn [m_mac unrelay_msg] in H. rewrite E1, El in H. exact H.
  - destruct (alookup (m_mac m) (leases s)) eqn:El; cbn; [|assumption].
    eapply cinv_ext; [apply pool_release_leases|apply pool_release_cidx|]. now apply cinv_drop_lease.
  - destruct (alookup (m_mac m) (leases s)) eqn:El; cbn; [|assumption].
    pose proof (cinv_drop_lease _ _ _ Hc El) as H. destruct (m_req m); [|assumption].
    eapply cinv_ext; [| |exact H]; reflexivity.
  - assumption.
  - cbn. eapply cinv_ext; [| |exact Hc]; reflexivity.
  - cbn. now apply cinv_fold_expire.
Qed.

Lemma cinv_init c : cinv (init4 c).
Proof. constructor; cbn; intros; discriminate. Qed.

Lemma owned_quiet_from c ops : forall s, cinv s -> Forall op_P ops -> quiet_from c s ops = true /\ cinv (fold_left (step4s c) ops s).
Proof.
  induction ops as [|o tl IH]; intros s Hc Hf; [split; [reflexivity|assumption]|].
  inversion Hf as [|? ? Ho Htl]; subst. cbn. rewrite (cinv_quiet s o Hc Ho). cbn. apply IH; auto. now apply cinv_step.
Qed.
End Owned.

Definition owner_of (ops : list op4) (m k : N) : Prop :=
  exists o, In o ops /\ op_mac o = m /\ op_cid o = k /\ k <> 0.

Lemma owner_fun ops : cid_owned ops = true -> forall m m' k, owner_of ops m k -> owner_of ops m' k -> m = m'.
Proof.
  intros H m m' k (o1 & I1 & M1 & K1 & Z1) (o2 & I2 & M2 & K2 & _). unfold cid_owned in H.
  rewrite forallb_forall in H. specialize (H _ I1). rewrite forallb_forall in H. specialize (H _ I2).
  apply orb_true_iff in H. destruct H as [H|H]; [|apply N.eqb_eq in H; congruence].
  apply orb_true_iff in H. destruct H as [H|H]; [apply N.eqb_eq in H; congruence|].
  apply negb_true_iff, N.eqb_neq in H. congruence.
Qed.

Lemma owned_all ops : Forall (op_P (owner_of ops)) ops.
Proof.
  apply Forall_forall. intros o Ho Hz. exists o. auto.
Qed.

Lemma quiet_of_owned c ops : cid_owned ops = true -> quiet4 c ops = true.
Proof.
  intro H. apply (owned_quiet_from (owner_of ops) (owner_fun ops H) c ops (init4 c)); [apply cinv_init|apply owned_all].
Qed.

(* under the static guard every circuit-ID index entry is the live lease-table entry of its MAC
   (no stale lease object stays reachable through the index) *)
Lemma v4_index_live_owned c ops k o :
  cid_owned ops = true -> alookup k (cidx (run4 c ops)) = Some o ->
  l_cid o = k /\ alookup (l_mac o) (leases (run4 c ops)) = Some o.
Proof.
  intros H Hk.
  destruct (owned_quiet_from (owner_of ops) (owner_fun ops H) c ops (init4 c) (cinv_init _ c) (owned_all ops)) as [_ [C1 _]].
  destruct (C1 _ _ Hk) as (_ & A & B). split; assumption.
Qed.

(* ---------- non-vacuity ---------- *)
(* relayed DISCOVER/REQUEST with option 82, each circuit-id used by one MAC: guard4 is false,
   cid_owned holds; client 1 renews from another circuit (index entry of the old one goes) *)
Definition w_owned : list op4 :=
  [Discover (w_m 1 None true 1); Request (w_m 1 (Some 167773953) true 1);
   Discover (w_m 2 None true 2); Request (w_m 2 (Some 167773954) true 2);
   Request (w_m 1 (Some 167773953) true 3); Advance 101; Cleanup []; Discover (w_m 1 None true 1)].
Example owned_satisfiable :
  cid_owned w_owned = true /\ guard4 w_owned = false /\
  (exists l, alookup 2 (cidx (run4 w_cfg (firstn 5 w_owned))) = Some l /\ l_mac l = 2) /\
  alookup 1 (cidx (run4 w_cfg (firstn 5 w_owned))) = None.
Proof. split; [reflexivity|]. split; [reflexivity|]. split; [eexists; split; vm_compute; reflexivity|vm_compute; reflexivity]. Qed.

(* a circuit-id that changes hands after the first MAC's lease ended (CPE swap): not cid_owned,
   still quiet; and the K02a history is not quiet *)
Definition w_swap : list op4 :=
  [Discover (w_m 1 None true 1); Request (w_m 1 (Some 167773953) true 1); Release (w_m 1 None true 1);
   Discover (w_m 2 None true 1); Request (w_m 2 (Some 167773953) true 1)].
Example quiet_weaker :
  cid_owned w_swap = false /\ quiet4 w_cfg w_swap = true /\
  quiet4 w_cfg (w_ops ++ [Discover (w_m 2 None true 1)]) = false.
Proof. split; [reflexivity|]. split; vm_compute; reflexivity. Qed.
