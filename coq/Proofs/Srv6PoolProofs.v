(* Lemmas about Model/Srv6Pool.v: the DHCPv6 server's lease table composed with its two pools.
   The pools are FreeList states; their invariants come from Proofs/FreeListProofs.v. *)
From Coq Require Import NArith List Bool Lia ZifyN ZifyNat ZifyBool.
From Verif Require Import Model.PoolMap Model.PoolSpec Model.FreeList Model.Srv6Pool
  Proofs.PoolMapProofs Proofs.FreeListProofs.
Import ListNotations.
Local Open Scope N_scope.

(* ---------- one pool ---------- *)
Definition PInv (f : fstate) : Prop := FInv f /\ FCons f /\ f_idem f = true /\ f_unav f = [].

Lemma pl_alloc_next f d : fst (pl_alloc f d) = next f (Alloc d).
Proof. unfold pl_alloc, next. destruct (step f (Alloc d)) as [[f' o] mk]. destruct o; reflexivity. Qed.
Lemma pl_release_next f d : pl_release f d = next f (Release d).
Proof. reflexivity. Qed.

Lemma pl_alloc_cases f d : f_idem f = true ->
  (exists u, aget d (f_alloc f) = Some u /\ pl_alloc f d = (f, Some u)) \/
  (aget d (f_alloc f) = None /\ f_avail f = [] /\ pl_alloc f d = (f, None)) \/
  (exists u tl, aget d (f_alloc f) = None /\ f_avail f = u :: tl /\
     pl_alloc f d = (fupd f tl (aset d u (f_alloc f)) (aset u d (f_revm f)) (f_unav f), Some u)).
Proof.
  intros Hid. unfold pl_alloc. cbn [step]. rewrite Hid.
  destruct (aget d (f_alloc f)) as [u|] eqn:E.
  - left. exists u. split; reflexivity.
  - right. destruct (f_avail f) as [|u tl] eqn:Ea.
    + left. repeat split; reflexivity.
    + right. exists u, tl. repeat split; reflexivity.
Qed.

Lemma pl_release_cases f d :
  (aget d (f_alloc f) = None /\ pl_release f d = f) \/
  (exists u, aget d (f_alloc f) = Some u /\
     pl_release f d = fupd f (f_avail f ++ [u]) (adel d (f_alloc f)) (adel u (f_revm f)) (f_unav f)).
Proof.
  unfold pl_release. cbn [step]. destruct (aget d (f_alloc f)) as [u|] eqn:E.
  - right. exists u. split; reflexivity.
  - left. split; reflexivity.
Qed.

Lemma PInv_next_alloc f d : PInv f -> PInv (next f (Alloc d)) /\ f_univ (next f (Alloc d)) = f_univ f.
Proof.
  intros (Hi & Hc & Hid & Hun).
  destruct (step_inv f (Alloc d) Hid Hi) as (Hi' & Hid' & Hu').
  pose proof (step_cons f (Alloc d) Hid Hi Hc) as Hc'.
  split; [|exact Hu']. split; [exact Hi'|split; [exact Hc'|split; [exact Hid'|]]].
  unfold next. cbn [step]. rewrite Hid. destruct (aget d (f_alloc f)); [exact Hun|].
  destruct (f_avail f); exact Hun.
Qed.
Lemma PInv_next_release f d : PInv f -> PInv (next f (Release d)) /\ f_univ (next f (Release d)) = f_univ f.
Proof.
  intros (Hi & Hc & Hid & Hun).
  destruct (step_inv f (Release d) Hid Hi) as (Hi' & Hid' & Hu').
  pose proof (step_cons f (Release d) Hid Hi Hc) as Hc'.
  split; [|exact Hu']. split; [exact Hi'|split; [exact Hc'|split; [exact Hid'|]]].
  unfold next. cbn [step]. destruct (aget d (f_alloc f)); exact Hun.
Qed.

Lemma pl_alloc_props f d f' r : PInv f -> pl_alloc f d = (f', r) ->
  PInv f' /\ f_univ f' = f_univ f /\
  (forall d', d' <> d -> aget d' (f_alloc f') = aget d' (f_alloc f)) /\
  match r with
  | Some u => aget d (f_alloc f') = Some u /\ (forall u0, aget d (f_alloc f) = Some u0 -> u0 = u)
  | None => f' = f /\ aget d (f_alloc f) = None /\ f_avail f = []
  end.
Proof.
  intros HP E. pose proof (PInv_next_alloc f d HP) as [HP' Hu']. rewrite <- pl_alloc_next, E in HP', Hu'. cbn [fst] in HP', Hu'.
  split; [exact HP'|split; [exact Hu'|]].
  destruct HP as (_ & _ & Hid & _).
  destruct (pl_alloc_cases f d Hid) as [(u & Hg & Ep)|[(Hg & Ha & Ep)|(u & tl & Hg & Ha & Ep)]];
    rewrite Ep in E; injection E as <- <-.
  - split; [reflexivity|]. split; [exact Hg|]. intros u0 H0. congruence.
  - split; [reflexivity|]. repeat split; assumption.
  - cbn [fupd f_alloc]. split.
    + intros d' Hne. apply aget_aset_ne. congruence.
    + split; [apply aget_aset_eq|]. intros u0 H0. congruence.
Qed.

Lemma pl_release_props f d : PInv f ->
  PInv (pl_release f d) /\ f_univ (pl_release f d) = f_univ f /\
  aget d (f_alloc (pl_release f d)) = None /\
  (forall d', d' <> d -> aget d' (f_alloc (pl_release f d)) = aget d' (f_alloc f)) /\
  (forall u, aget d (f_alloc f) = Some u -> In u (f_avail (pl_release f d))).
Proof.
  intros HP. pose proof (PInv_next_release f d HP) as [HP' Hu']. rewrite <- pl_release_next in HP', Hu'.
  split; [exact HP'|split; [exact Hu'|]].
  destruct (pl_release_cases f d) as [(Hg & Ep)|(u & Hg & Ep)]; rewrite Ep.
  - split; [exact Hg|]. split; [reflexivity|]. intros u Hu. congruence.
  - cbn [fupd f_alloc f_avail]. split; [apply aget_adel_eq|]. split.
    + intros d' Hne. apply aget_adel_ne. congruence.
    + intros u0 H0. apply in_or_app. right. left. congruence.
Qed.

(* a unit on the free list is held by nobody *)
Lemma avail_not_held f u : PInv f -> In u (f_avail f) -> forall d, aget d (f_alloc f) <> Some u.
Proof. intros (Hi & _) Hin d Hg. exact (fi_dis _ Hi _ _ Hg Hin). Qed.

Lemma PInv_init univ : NoDup univ -> PInv (finit true univ).
Proof. intros Hnd. destruct (finit_inv true univ Hnd) as [Hi Hc]. split; [exact Hi|split; [exact Hc|split; reflexivity]]. Qed.

(* ---------- the server ---------- *)
Record SInv (k : k6) (s : sv6) : Prop := {
  si_a : PInv (v_a s);
  si_p : PInv (v_p s);
  si_ua : f_univ (v_a s) = k_ua k;
  si_up : f_univ (v_p s) = k_up k;
  (* what a lease records is allocated to its client in the pool *)
  si_la : forall d l u, aget d (v_l s) = Some l -> q_na l = Some u -> aget d (f_alloc (v_a s)) = Some u;
  si_lp : forall d l u, aget d (v_l s) = Some l -> q_pd l = Some u -> aget d (f_alloc (v_p s)) = Some u }.

(* every unit a pool holds was granted to its holder for a time that has not run out *)
Definition LiveP (now : N) (f : fstate) (g : amap N) : Prop :=
  forall d u, aget d (f_alloc f) = Some u -> exists t, aget d g = Some t /\ now <= t.
Definition Live (s : sv6) : Prop := LiveP (v_now s) (v_a s) (v_ga s) /\ LiveP (v_now s) (v_p s) (v_gp s).

Lemma SInv_init k : NoDup (k_ua k) -> NoDup (k_up k) -> SInv k (sv_init k).
Proof.
  intros Ha Hp. constructor; cbn; try reflexivity; try (apply PInv_init; assumption); intros; discriminate.
Qed.
Lemma Live_init k : Live (sv_init k).
Proof. split; intros d u H; cbn in H; discriminate. Qed.

Lemma get_lease_some s d l : aget d (v_l s) = Some l -> get_lease s d = l.
Proof. unfold get_lease. intros ->. reflexivity. Qed.
Lemma get_lease_none s d : aget d (v_l s) = None -> get_lease s d = {| q_na := None; q_pd := None |}.
Proof. unfold get_lease. intros ->. reflexivity. Qed.

Lemma get_lease_na k s d u : SInv k s -> q_na (get_lease s d) = Some u -> aget d (f_alloc (v_a s)) = Some u.
Proof.
  intros H. unfold get_lease. destruct (aget d (v_l s)) as [l|] eqn:E; [|discriminate]. intros Hq. eapply (si_la _ _ H); eauto.
Qed.
Lemma get_lease_pd k s d u : SInv k s -> q_pd (get_lease s d) = Some u -> aget d (f_alloc (v_p s)) = Some u.
Proof.
  intros H. unfold get_lease. destruct (aget d (v_l s)) as [l|] eqn:E; [|discriminate]. intros Hq. eapply (si_lp _ _ H); eauto.
Qed.

(* ---------- [serve]: one IA from one pool ---------- *)
Lemma serve_props on f g d until f' r g' : PInv f -> serve on f g d until = (f', r, g') ->
  PInv f' /\ f_univ f' = f_univ f /\
  (forall d', d' <> d -> aget d' (f_alloc f') = aget d' (f_alloc f)) /\
  (forall d', d' <> d -> aget d' g' = aget d' g) /\
  match r with
  | Some (Some u) => aget d (f_alloc f') = Some u /\ (forall u0, aget d (f_alloc f) = Some u0 -> u0 = u) /\
                     aget d g' = Some until
  | Some None => f' = f /\ g' = g /\ aget d (f_alloc f) = None /\ f_avail f = []
  | None => f' = f /\ g' = g
  end.
Proof.
  intros HP. unfold serve. destruct on.
  - destruct (pl_alloc f d) as [f1 r1] eqn:E. destruct (pl_alloc_props _ _ _ _ HP E) as (HP' & Hu & Ho & Hr).
    destruct r1 as [u|]; intros [= <- <- <-].
    + split; [exact HP'|split; [exact Hu|split; [exact Ho|split]]].
      * intros d' Hne. apply aget_aset_ne. congruence.
      * destruct Hr as [Hg Hs]. split; [exact Hg|split; [exact Hs|apply aget_aset_eq]].
    + destruct Hr as (-> & Hg & Ha). split; [exact HP|split; [reflexivity|split; [reflexivity|split; [reflexivity|]]]].
      repeat split; assumption.
  - intros [= <- <- <-]. split; [exact HP|split; [reflexivity|split; [reflexivity|split; [reflexivity|split; reflexivity]]]].
Qed.

(* the holder's own entry after [serve]: either what it was, or the unit just served *)
Lemma serve_own on f g d until f' r g' u : PInv f -> serve on f g d until = (f', r, g') ->
  aget d (f_alloc f) = Some u -> aget d (f_alloc f') = Some u.
Proof.
  intros HP E Hg. destruct (serve_props _ _ _ _ _ _ _ _ HP E) as (_ & _ & _ & _ & Hr).
  destruct r as [[u1|]|].
  - destruct Hr as (H1 & Hs & _). rewrite (Hs _ Hg). exact H1.
  - destruct Hr as (-> & _). exact Hg.
  - destruct Hr as (-> & _). exact Hg.
Qed.

Lemma serve_live on f g d now valid f' r g' : PInv f -> serve on f g d (now + valid) = (f', r, g') ->
  LiveP now f g -> LiveP now f' g'.
Proof.
  intros HP E HL. destruct (serve_props _ _ _ _ _ _ _ _ HP E) as (_ & _ & Ho & Hog & Hr).
  intros d' u' Hg. destruct (N.eq_dec d' d) as [->|Hne].
  - destruct r as [[u1|]|].
    + destruct Hr as (_ & _ & Hgr). exists (now + valid). split; [exact Hgr|lia].
    + destruct Hr as (-> & -> & _). apply (HL _ _ Hg).
    + destruct Hr as (-> & ->). apply (HL _ _ Hg).
  - rewrite Hog by assumption. apply (HL d' u'). rewrite <- Ho by assumption. exact Hg.
Qed.

(* ---------- the handlers preserve the invariant ---------- *)
Lemma advertise_inv k s d na pd : SInv k s -> SInv k (fst (advertise k s d na pd)).
Proof.
  intros H. unfold advertise.
  destruct (serve (na && k_hasA k) (v_a s) (v_ga s) d (v_now s + k_valid k)) as [[fa ra] ga] eqn:Ea.
  destruct (serve (pd && k_hasP k) (v_p s) (v_gp s) d (v_now s + k_valid k)) as [[fp rp] gp] eqn:Ep.
  destruct (serve_props _ _ _ _ _ _ _ _ (si_a _ _ H) Ea) as (HPa & Hua & Hoa & _ & _).
  destruct (serve_props _ _ _ _ _ _ _ _ (si_p _ _ H) Ep) as (HPp & Hup & Hop & _ & _).
  cbn [fst]. constructor; cbn [v_a v_p v_l].
  - exact HPa.
  - exact HPp.
  - rewrite Hua. exact (si_ua _ _ H).
  - rewrite Hup. exact (si_up _ _ H).
  - intros d0 l u Hl Hq. pose proof (si_la _ _ H _ _ _ Hl Hq) as Hold.
    destruct (N.eq_dec d0 d) as [->|Hne]; [eapply serve_own; [exact (si_a _ _ H)|exact Ea|exact Hold]|].
    rewrite Hoa by assumption. exact Hold.
  - intros d0 l u Hl Hq. pose proof (si_lp _ _ H _ _ _ Hl Hq) as Hold.
    destruct (N.eq_dec d0 d) as [->|Hne]; [eapply serve_own; [exact (si_p _ _ H)|exact Ep|exact Hold]|].
    rewrite Hop by assumption. exact Hold.
Qed.

Lemma served_alloc d on f g until f' r g' (old : option N) u :
  PInv f -> serve on f g d until = (f', r, g') ->
  (forall u0, old = Some u0 -> aget d (f_alloc f) = Some u0) ->
  served r old = Some u -> aget d (f_alloc f') = Some u.
Proof.
  intros HP E Hold. destruct (serve_props _ _ _ _ _ _ _ _ HP E) as (_ & _ & _ & _ & Hr).
  destruct r as [[u1|]|]; cbn [served].
  - intros [= <-]. apply Hr.
  - intros Ho. destruct Hr as (-> & _). apply Hold. exact Ho.
  - intros Ho. destruct Hr as (-> & _). apply Hold. exact Ho.
Qed.

Lemma build_reply_inv k s d na pd rapid : SInv k s -> SInv k (fst (build_reply k s d na pd rapid)).
Proof.
  intros H. unfold build_reply.
  destruct (serve (na && k_hasA k) (v_a s) (v_ga s) d (v_now s + k_valid k)) as [[fa ra] ga] eqn:Ea.
  destruct (serve (pd && k_hasP k) (v_p s) (v_gp s) d (v_now s + k_valid k)) as [[fp rp] gp] eqn:Ep.
  destruct (serve_props _ _ _ _ _ _ _ _ (si_a _ _ H) Ea) as (HPa & Hua & Hoa & _ & _).
  destruct (serve_props _ _ _ _ _ _ _ _ (si_p _ _ H) Ep) as (HPp & Hup & Hop & _ & _).
  cbn [fst]. constructor; cbn [v_a v_p v_l].
  - exact HPa.
  - exact HPp.
  - rewrite Hua. exact (si_ua _ _ H).
  - rewrite Hup. exact (si_up _ _ H).
  - intros d0 l u. destruct (N.eq_dec d0 d) as [->|Hne].
    + rewrite aget_aset_eq. intros [= <-]. cbn [q_na]. intros Hs.
      eapply served_alloc; [exact (si_a _ _ H)|exact Ea| |exact Hs].
      intros u0 Hq. eapply get_lease_na; eauto.
    + rewrite aget_aset_ne by congruence. intros Hl Hq. rewrite Hoa by assumption. eapply (si_la _ _ H); eauto.
  - intros d0 l u. destruct (N.eq_dec d0 d) as [->|Hne].
    + rewrite aget_aset_eq. intros [= <-]. cbn [q_pd]. intros Hs.
      eapply served_alloc; [exact (si_p _ _ H)|exact Ep| |exact Hs].
      intros u0 Hq. eapply get_lease_pd; eauto.
    + rewrite aget_aset_ne by congruence. intros Hl Hq. rewrite Hop by assumption. eapply (si_lp _ _ H); eauto.
Qed.

Lemma release_inv k s d : SInv k s -> SInv k (fst (release s d)).
Proof.
  intros H. unfold release. destruct (aget d (v_l s)) as [l|] eqn:El; cbn [fst].
  - assert (HA : PInv (match q_na l with Some _ => pl_release (v_a s) d | None => v_a s end) /\
                 f_univ (match q_na l with Some _ => pl_release (v_a s) d | None => v_a s end) = k_ua k /\
                 forall d', d' <> d -> aget d' (f_alloc (match q_na l with Some _ => pl_release (v_a s) d | None => v_a s end)) =
                                       aget d' (f_alloc (v_a s))).
    { destruct (q_na l).
      - destruct (pl_release_props _ d (si_a _ _ H)) as (A & B & _ & D & _). rewrite B. split; [exact A|split; [exact (si_ua _ _ H)|exact D]].
      - split; [exact (si_a _ _ H)|split; [exact (si_ua _ _ H)|reflexivity]]. }
    assert (HB : PInv (match q_pd l with Some _ => pl_release (v_p s) d | None => v_p s end) /\
                 f_univ (match q_pd l with Some _ => pl_release (v_p s) d | None => v_p s end) = k_up k /\
                 forall d', d' <> d -> aget d' (f_alloc (match q_pd l with Some _ => pl_release (v_p s) d | None => v_p s end)) =
                                       aget d' (f_alloc (v_p s))).
    { destruct (q_pd l).
      - destruct (pl_release_props _ d (si_p _ _ H)) as (A & B & _ & D & _). rewrite B. split; [exact A|split; [exact (si_up _ _ H)|exact D]].
      - split; [exact (si_p _ _ H)|split; [exact (si_up _ _ H)|reflexivity]]. }
    destruct HA as (A1 & A2 & A3). destruct HB as (B1 & B2 & B3).
    constructor; cbn [v_a v_p v_l]; try assumption.
    + intros d0 l0 u. destruct (N.eq_dec d0 d) as [->|Hne]; [rewrite aget_adel_eq; discriminate|].
      rewrite aget_adel_ne by congruence. intros Hl Hq. rewrite A3 by assumption. eapply (si_la _ _ H); eauto.
    + intros d0 l0 u. destruct (N.eq_dec d0 d) as [->|Hne]; [rewrite aget_adel_eq; discriminate|].
      rewrite aget_adel_ne by congruence. intros Hl Hq. rewrite B3 by assumption. eapply (si_lp _ _ H); eauto.
  - constructor; cbn [v_a v_p v_l]; apply H.
Qed.

Lemma step6_inv k s m : SInv k s -> SInv k (next6 k s m).
Proof.
  intros H. unfold next6. destruct m as [d rapid na pd|d sid na pd|d rb na pd|d|d|t]; cbn [step6].
  - destruct rapid; cbn [fst]; [apply build_reply_inv|apply advertise_inv]; exact H.
  - destruct sid; cbn [fst]; [apply build_reply_inv|]; exact H.
  - destruct (aget d (v_l s)); cbn [fst]; [apply build_reply_inv|]; exact H.
  - pose proof (release_inv k s d H) as Hr. destruct (release s d) as [s' mk]. exact Hr.
  - pose proof (release_inv k s d H) as Hr. destruct (release s d) as [s' mk]. exact Hr.
  - cbn [fst]. constructor; cbn [v_a v_p v_l]; apply H.
Qed.

Lemma run6_inv k ms : NoDup (k_ua k) -> NoDup (k_up k) -> SInv k (run6 k ms).
Proof.
  intros Ha Hp. unfold run6.
  assert (G : forall s, SInv k s -> SInv k (fold_left (next6 k) ms s)).
  { induction ms as [|m tl IH]; intros s Hs; cbn [fold_left]; [exact Hs|]. apply IH. apply step6_inv. exact Hs. }
  apply G. apply SInv_init; assumption.
Qed.

(* ---------- C05 at the server: what a lease records comes back on Release, in full ---------- *)
Lemma release_returns k s d l : SInv k s -> aget d (v_l s) = Some l ->
  let s' := next6 k s (MRelease d) in
  aget d (v_l s') = None /\
  (forall u, q_na l = Some u -> In u (f_avail (v_a s')) /\ forall d', aget d' (f_alloc (v_a s')) <> Some u) /\
  (forall u, q_pd l = Some u -> In u (f_avail (v_p s')) /\ forall d', aget d' (f_alloc (v_p s')) <> Some u).
Proof.
  intros H El. pose proof (step6_inv k s (MRelease d) H) as H'. revert H'.
  unfold next6. cbn [step6]. unfold release. rewrite El. cbn [fst]. intros H'. cbn zeta.
  cbn [v_a v_p v_l]. split; [apply aget_adel_eq|]. split.
  - intros u Hq. rewrite Hq. pose proof (si_a _ _ H') as HP. cbn [v_a] in HP. rewrite Hq in HP.
    destruct (pl_release_props _ d (si_a _ _ H)) as (_ & _ & _ & _ & Hin).
    specialize (Hin u (si_la _ _ H _ _ _ El Hq)). split; [exact Hin|]. apply avail_not_held; assumption.
  - intros u Hq. rewrite Hq. pose proof (si_p _ _ H') as HP. cbn [v_p] in HP. rewrite Hq in HP.
    destruct (pl_release_props _ d (si_p _ _ H)) as (_ & _ & _ & _ & Hin).
    specialize (Hin u (si_lp _ _ H _ _ _ El Hq)). split; [exact Hin|]. apply avail_not_held; assumption.
Qed.

Lemma release_returns_run k ms d l : NoDup (k_ua k) -> NoDup (k_up k) ->
  aget d (v_l (run6 k ms)) = Some l ->
  let s' := next6 k (run6 k ms) (MRelease d) in
  aget d (v_l s') = None /\
  (forall u, q_na l = Some u -> In u (f_avail (v_a s')) /\ forall d', aget d' (f_alloc (v_a s')) <> Some u) /\
  (forall u, q_pd l = Some u -> In u (f_avail (v_p s')) /\ forall d', aget d' (f_alloc (v_p s')) <> Some u).
Proof. intros Ha Hp. apply release_returns. apply run6_inv; assumption. Qed.

(* a Decline does exactly what a Release does *)
Lemma decline_is_release k s d : next6 k s (MDecline d) = next6 k s (MRelease d).
Proof. unfold next6. cbn [step6]. destruct (release s d). reflexivity. Qed.

(* ---------- renew_protects: no message except the holder's own Release / Decline takes a recorded unit away ---------- *)
Definition leaves (d : N) (m : msg6) : bool :=
  match m with MRelease d' | MDecline d' => d' =? d | _ => false end.

Lemma build_reply_keeps k s d0 na pd rapid d l : SInv k s -> aget d (v_l s) = Some l ->
  exists l', aget d (v_l (fst (build_reply k s d0 na pd rapid))) = Some l' /\
    (forall u, q_na l = Some u -> q_na l' = Some u) /\ (forall u, q_pd l = Some u -> q_pd l' = Some u).
Proof.
  intros H El. unfold build_reply.
  destruct (serve (na && k_hasA k) (v_a s) (v_ga s) d0 (v_now s + k_valid k)) as [[fa ra] ga] eqn:Ea.
  destruct (serve (pd && k_hasP k) (v_p s) (v_gp s) d0 (v_now s + k_valid k)) as [[fp rp] gp] eqn:Ep.
  cbn [fst v_l]. destruct (N.eq_dec d d0) as [->|Hne].
  - rewrite aget_aset_eq. eexists. split; [reflexivity|]. rewrite (get_lease_some _ _ _ El). cbn [q_na q_pd].
    destruct (serve_props _ _ _ _ _ _ _ _ (si_a _ _ H) Ea) as (_ & _ & _ & _ & Hra).
    destruct (serve_props _ _ _ _ _ _ _ _ (si_p _ _ H) Ep) as (_ & _ & _ & _ & Hrp).
    split; intros u Hq.
    + destruct ra as [[u1|]|]; cbn [served]; try exact Hq.
      destruct Hra as (_ & Hs & _). f_equal. symmetry. apply Hs. eapply (si_la _ _ H); eauto.
    + destruct rp as [[u1|]|]; cbn [served]; try exact Hq.
      destruct Hrp as (_ & Hs & _). f_equal. symmetry. apply Hs. eapply (si_lp _ _ H); eauto.
  - rewrite aget_aset_ne by congruence. exists l. split; [exact El|]. split; auto.
Qed.

Lemma step6_keeps k s m d l : SInv k s -> aget d (v_l s) = Some l -> leaves d m = false ->
  exists l', aget d (v_l (next6 k s m)) = Some l' /\
    (forall u, q_na l = Some u -> q_na l' = Some u) /\ (forall u, q_pd l = Some u -> q_pd l' = Some u).
Proof.
  intros H El Hm. unfold next6.
  assert (Same : exists l', aget d (v_l s) = Some l' /\
    (forall u, q_na l = Some u -> q_na l' = Some u) /\ (forall u, q_pd l = Some u -> q_pd l' = Some u)).
  { exists l. split; [exact El|split; auto]. }
  destruct m as [d0 rapid na pd|d0 sid na pd|d0 rb na pd|d0|d0|t]; cbn [step6].
  - destruct rapid; cbn [fst]; [apply build_reply_keeps; assumption|].
    unfold advertise. destruct (serve _ (v_a s) _ _ _) as [[fa ra] ga]. destruct (serve _ (v_p s) _ _ _) as [[fp rp] gp].
    cbn [fst v_l]. exact Same.
  - destruct sid; cbn [fst]; [apply build_reply_keeps; assumption|exact Same].
  - destruct (aget d0 (v_l s)); cbn [fst]; [apply build_reply_keeps; assumption|exact Same].
  - cbn [leaves] in Hm. apply N.eqb_neq in Hm. unfold release.
    destruct (aget d0 (v_l s)); cbn [fst v_l]; [|exact Same]. rewrite aget_adel_ne by congruence. exact Same.
  - cbn [leaves] in Hm. apply N.eqb_neq in Hm. unfold release.
    destruct (aget d0 (v_l s)); cbn [fst v_l]; [|exact Same]. rewrite aget_adel_ne by congruence. exact Same.
  - cbn [fst v_l]. exact Same.
Qed.

Lemma lease_kept k ms d l more : NoDup (k_ua k) -> NoDup (k_up k) ->
  aget d (v_l (run6 k ms)) = Some l -> forallb (fun m => negb (leaves d m)) more = true ->
  exists l', aget d (v_l (run6 k (ms ++ more))) = Some l' /\
    (forall u, q_na l = Some u -> q_na l' = Some u /\ aget d (f_alloc (v_a (run6 k (ms ++ more)))) = Some u) /\
    (forall u, q_pd l = Some u -> q_pd l' = Some u /\ aget d (f_alloc (v_p (run6 k (ms ++ more)))) = Some u).
Proof.
  intros Ha Hp. unfold run6. rewrite fold_left_app. fold (run6 k ms).
  pose proof (run6_inv k ms Ha Hp) as H. revert H. generalize (run6 k ms) as s. revert l.
  induction more as [|m tl IH]; intros l s H El Hall; cbn [fold_left].
  - exists l. split; [exact El|]. split; intros u Hq; (split; [exact Hq|]).
    + eapply (si_la _ _ H); eauto.
    + eapply (si_lp _ _ H); eauto.
  - cbn [forallb] in Hall. apply andb_true_iff in Hall as [Hm Htl]. apply negb_true_iff in Hm.
    destruct (step6_keeps k s m d l H El Hm) as (l1 & El1 & Hna1 & Hpd1).
    destruct (IH l1 (next6 k s m) (step6_inv k s m H) El1 Htl) as (l' & El' & Hna' & Hpd').
    exists l'. split; [exact El'|]. split; intros u Hq; [apply Hna', Hna1, Hq|apply Hpd', Hpd1, Hq].
Qed.

(* ---------- the guard: histories in which no marker (506 / 507) is raised ---------- *)
Fixpoint quiet_from (k : k6) (s : sv6) (ms : list msg6) : bool :=
  match ms with
  | [] => true
  | m :: tl => match marks6 k s m with [] => quiet_from k (next6 k s m) tl | _ => false end
  end.
Definition quiet (k : k6) (ms : list msg6) : bool := quiet_from k (sv_init k) ms.

Lemma grants_live_LiveP now f g : grants_live now (f_alloc f) g = true -> LiveP now f g.
Proof.
  unfold grants_live. rewrite forallb_forall. intros Hall d u Hg. specialize (Hall _ (aget_in _ _ _ Hg)). cbn [fst] in Hall.
  destruct (aget d g) as [t|]; [|discriminate]. exists t. split; [reflexivity|]. apply N.leb_le. exact Hall.
Qed.

Lemma LiveP_release now f g d : PInv f -> LiveP now f g -> ahas d (f_alloc f) = false -> LiveP now f (adel d g).
Proof.
  intros HP HL Hh d' u Hg. destruct (N.eq_dec d' d) as [->|Hne].
  - unfold ahas in Hh. rewrite Hg in Hh. discriminate.
  - rewrite aget_adel_ne by congruence. apply (HL _ _ Hg).
Qed.
Lemma LiveP_weaken now f f' g d : LiveP now f g -> aget d (f_alloc f') = None ->
  (forall d', d' <> d -> aget d' (f_alloc f') = aget d' (f_alloc f)) -> LiveP now f' (adel d g).
Proof.
  intros HL Hn Ho d' u Hg. destruct (N.eq_dec d' d) as [->|Hne]; [congruence|].
  rewrite aget_adel_ne by congruence. apply (HL d' u). rewrite <- Ho by assumption. exact Hg.
Qed.

Lemma ahas_false {V} d (m : amap V) : ahas d m = false -> aget d m = None.
Proof. unfold ahas. destruct (aget d m); [discriminate|reflexivity]. Qed.

Lemma step6_live k s m : SInv k s -> Live s -> marks6 k s m = [] -> Live (next6 k s m).
Proof.
  intros H [La Lp]. unfold marks6, next6.
  assert (BR : forall d na pd rapid, Live (fst (build_reply k s d na pd rapid))).
  { intros d na pd rapid. unfold build_reply.
    destruct (serve (na && k_hasA k) (v_a s) (v_ga s) d (v_now s + k_valid k)) as [[fa ra] ga] eqn:Ea.
    destruct (serve (pd && k_hasP k) (v_p s) (v_gp s) d (v_now s + k_valid k)) as [[fp rp] gp] eqn:Ep.
    cbn [fst]. split; cbn [v_a v_p v_now v_ga v_gp].
    - eapply serve_live; [exact (si_a _ _ H)|exact Ea|exact La].
    - eapply serve_live; [exact (si_p _ _ H)|exact Ep|exact Lp]. }
  destruct m as [d rapid na pd|d sid na pd|d rb na pd|d|d|t]; cbn [step6].
  - destruct rapid; cbn [fst snd]; intros _; [apply BR|].
    unfold advertise.
    destruct (serve (na && k_hasA k) (v_a s) (v_ga s) d (v_now s + k_valid k)) as [[fa ra] ga] eqn:Ea.
    destruct (serve (pd && k_hasP k) (v_p s) (v_gp s) d (v_now s + k_valid k)) as [[fp rp] gp] eqn:Ep.
    cbn [fst]. split; cbn [v_a v_p v_now v_ga v_gp].
    + eapply serve_live; [exact (si_a _ _ H)|exact Ea|exact La].
    + eapply serve_live; [exact (si_p _ _ H)|exact Ep|exact Lp].
  - destruct sid; cbn [fst snd]; intros _; [apply BR|split; assumption].
  - destruct (aget d (v_l s)); cbn [fst snd]; intros _; [apply BR|split; assumption].
  - unfold release. destruct (aget d (v_l s)) as [l|] eqn:El; cbn [fst snd].
    + destruct (ahas d (f_alloc (match q_na l with Some _ => pl_release (v_a s) d | None => v_a s end))) eqn:Ha; [discriminate|].
      destruct (ahas d (f_alloc (match q_pd l with Some _ => pl_release (v_p s) d | None => v_p s end))) eqn:Hp; [discriminate|].
      intros _. apply ahas_false in Ha. apply ahas_false in Hp. split; cbn [v_a v_p v_now v_ga v_gp].
      * eapply LiveP_weaken; [exact La|exact Ha|]. destruct (q_na l); [|reflexivity].
        apply (pl_release_props _ d (si_a _ _ H)).
      * eapply LiveP_weaken; [exact Lp|exact Hp|]. destruct (q_pd l); [|reflexivity].
        apply (pl_release_props _ d (si_p _ _ H)).
    + destruct (ahas d (f_alloc (v_a s))) eqn:Ha; [discriminate|]. destruct (ahas d (f_alloc (v_p s))) eqn:Hp; [discriminate|].
      intros _. split; cbn [v_a v_p v_now v_ga v_gp]; apply LiveP_release; try assumption; apply H.
  - unfold release. destruct (aget d (v_l s)) as [l|] eqn:El; cbn [fst snd].
    + destruct (ahas d (f_alloc (match q_na l with Some _ => pl_release (v_a s) d | None => v_a s end))) eqn:Ha; [discriminate|].
      destruct (ahas d (f_alloc (match q_pd l with Some _ => pl_release (v_p s) d | None => v_p s end))) eqn:Hp; [discriminate|].
      intros _. apply ahas_false in Ha. apply ahas_false in Hp. split; cbn [v_a v_p v_now v_ga v_gp].
      * eapply LiveP_weaken; [exact La|exact Ha|]. destruct (q_na l); [|reflexivity].
        apply (pl_release_props _ d (si_a _ _ H)).
      * eapply LiveP_weaken; [exact Lp|exact Hp|]. destruct (q_pd l); [|reflexivity].
        apply (pl_release_props _ d (si_p _ _ H)).
    + destruct (ahas d (f_alloc (v_a s))) eqn:Ha; [discriminate|]. destruct (ahas d (f_alloc (v_p s))) eqn:Hp; [discriminate|].
      intros _. split; cbn [v_a v_p v_now v_ga v_gp]; apply LiveP_release; try assumption; apply H.
  - cbn [fst snd].
    destruct (grants_live (v_now s + t) (f_alloc (v_a s)) (v_ga s)) eqn:Ga; [|discriminate].
    destruct (grants_live (v_now s + t) (f_alloc (v_p s)) (v_gp s)) eqn:Gp; [|discriminate].
    intros _. split; cbn [v_a v_p v_now v_ga v_gp]; apply grants_live_LiveP; assumption.
Qed.

Lemma quiet_live k ms : NoDup (k_ua k) -> NoDup (k_up k) -> quiet k ms = true -> Live (run6 k ms).
Proof.
  intros Ha Hp. unfold quiet, run6.
  assert (G : forall s, SInv k s -> Live s -> quiet_from k s ms = true -> Live (fold_left (next6 k) ms s)).
  { induction ms as [|m tl IH]; intros s Hs Hl Hq; cbn [fold_left]; [exact Hl|].
    cbn [quiet_from] in Hq. destruct (marks6 k s m) eqn:Em; [|discriminate].
    apply IH; [apply step6_inv; exact Hs|apply step6_live; assumption|exact Hq]. }
  apply G; [apply SInv_init; assumption|apply Live_init].
Qed.

(* exhaustion at the server: NoAddrsAvail only when every address is held by a client whose lifetimes run *)
Lemma exhausted_only_if_full_a k ms d : NoDup (k_ua k) -> NoDup (k_up k) -> quiet k ms = true ->
  reply6 k (run6 k ms) (MRequest d true true false) = P6Reply (XaErr 2) XaNone false ->
  forall u, In u (k_ua k) ->
    exists d' t, aget d' (f_alloc (v_a (run6 k ms))) = Some u /\ aget d' (v_ga (run6 k ms)) = Some t /\ v_now (run6 k ms) <= t.
Proof.
  intros Ha Hp Hq. pose proof (run6_inv k ms Ha Hp) as H. pose proof (quiet_live k ms Ha Hp Hq) as [La _].
  revert H La. generalize (run6 k ms) as s. intros s H La.
  unfold reply6. cbn [step6 fst snd]. unfold build_reply.
  destruct (serve (true && k_hasA k) (v_a s) (v_ga s) d (v_now s + k_valid k)) as [[fa ra] ga] eqn:Ea.
  cbn [andb serve]. cbn [fst snd].
  destruct (serve_props _ _ _ _ _ _ _ _ (si_a _ _ H) Ea) as (_ & _ & _ & _ & Hr).
  intros Heq u Hu. destruct ra as [[u1|]|]; cbn [rep_ia] in Heq; try discriminate Heq.
  destruct Hr as (_ & _ & Hnone & Hav).
  destruct (si_a _ _ H) as (Hi & Hc & _ & Hun).
  rewrite <- (si_ua _ _ H) in Hu. destruct (Hc u Hu) as [Hin|[[d' Hd']|Hin]].
  - rewrite Hav in Hin. destruct Hin.
  - destruct (La _ _ Hd') as (t & Ht & Hle). exists d', t. repeat split; assumption.
  - rewrite Hun in Hin. destruct Hin.
Qed.

Lemma exhausted_only_if_full_p k ms d : NoDup (k_ua k) -> NoDup (k_up k) -> quiet k ms = true ->
  reply6 k (run6 k ms) (MRequest d true false true) = P6Reply XaNone (XaErr 6) false ->
  forall u, In u (k_up k) ->
    exists d' t, aget d' (f_alloc (v_p (run6 k ms))) = Some u /\ aget d' (v_gp (run6 k ms)) = Some t /\ v_now (run6 k ms) <= t.
Proof.
  intros Ha Hp Hq. pose proof (run6_inv k ms Ha Hp) as H. pose proof (quiet_live k ms Ha Hp Hq) as [_ Lp].
  revert H Lp. generalize (run6 k ms) as s. intros s H Lp.
  unfold reply6. cbn [step6 fst snd]. unfold build_reply.
  cbn [andb].
  destruct (serve (k_hasP k) (v_p s) (v_gp s) d (v_now s + k_valid k)) as [[fp rp] gp] eqn:Ep.
  cbn [serve fst snd].
  destruct (serve_props _ _ _ _ _ _ _ _ (si_p _ _ H) Ep) as (_ & _ & _ & _ & Hr).
  intros Heq u Hu. destruct rp as [[u1|]|]; cbn [rep_ia] in Heq; try discriminate Heq.
  destruct Hr as (_ & _ & Hnone & Hav).
  destruct (si_p _ _ H) as (Hi & Hc & _ & Hun).
  rewrite <- (si_up _ _ H) in Hu. destruct (Hc u Hu) as [Hin|[[d' Hd']|Hin]].
  - rewrite Hav in Hin. destruct Hin.
  - destruct (Lp _ _ Hd') as (t & Ht & Hle). exists d', t. repeat split; assumption.
  - rewrite Hun in Hin. destruct Hin.
Qed.

(* ---------- refuted without the guard ---------- *)
Definition k_demo : k6 := {| k_hasA := true; k_hasP := true; k_ua := [11]; k_up := [20; 21]; k_valid := 100 |}.

(* 506: Advertise reserved a prefix, the Request asked for the address only, the Release frees only what
   the lease records: the prefix stays allocated for a client that is gone *)
Lemma release_leaves_advertised_refuted :
  let s := run6 k_demo [MSolicit 1 false true true; MRequest 1 true true false; MRelease 1] in
  aget 1 (v_l s) = None /\ aget 1 (f_alloc (v_p s)) = Some 20 /\ aget 1 (v_gp s) = None /\
  quiet k_demo [MSolicit 1 false true true; MRequest 1 true true false; MRelease 1] = false.
Proof. vm_compute. repeat split; reflexivity. Qed.

(* 507: nothing expires: long after the lifetimes ran out the only address is still held, another client is refused *)
Lemma never_expires_refuted :
  let s := run6 k_demo [MRequest 1 true true false; MTick 101] in
  aget 1 (f_alloc (v_a s)) = Some 11 /\ aget 1 (v_ga s) = Some 100 /\ v_now s = 101 /\
  reply6 k_demo s (MRequest 2 true true false) = P6Reply (XaErr 2) XaNone false /\
  quiet k_demo [MRequest 1 true true false; MTick 101] = false.
Proof. vm_compute. repeat split; reflexivity. Qed.

(* the guard is satisfiable by a history with an Advertise, a dual-stack binding, renewal, time, a
   Release and a justified exhaustion *)
Lemma quiet_example :
  let ms := [MSolicit 1 false true true; MRequest 1 true true true; MTick 60; MRenew 1 false true true; MTick 60;
             MRequest 2 true false true; MRelease 2; MRequest 3 true false true] in
  quiet k_demo ms = true /\
  reply6 k_demo (run6 k_demo ms) (MRequest 4 true true false) = P6Reply (XaErr 2) XaNone false /\
  aget 1 (v_l (run6 k_demo ms)) = Some {| q_na := Some 11; q_pd := Some 20 |} /\
  aget 3 (f_alloc (v_p (run6 k_demo ms))) = Some 21.
Proof. vm_compute. repeat split; reflexivity. Qed.
