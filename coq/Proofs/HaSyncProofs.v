(* Proofs for C13 (Model/HaSync.v against the monitor Model/HaSyncSpec.v).
   The monitor's state is a projection [abs] of the Model's state ([snext_abs]); clauses 0 and 1 hold
   at every step from every state; clause 2 follows from the invariant [inv]: for every session id,
   the last message about it still queued (stream, then pending queue) carries the active's current
   entry, and if none is queued the standby's entry equals the active's. *)
From Coq Require Import ZArith NArith List Bool Lia ZifyN ZifyNat ZifyBool.
From Verif Require Import Base.Check Model.HaSyncFields Model.HaSync Model.HaSyncSpec.
Import ListNotations.
Local Open Scope N_scope.

Arguments norm : simpl never.
Arguments wire : simpl never.
Arguments snapshot : simpl never.

(* ---------- the record and its JSON round trip ---------- *)
Lemma norm_n_idem : forall n r, norm_n n (norm_n n r) = norm_n n r.
Proof. induction n as [|n IH]; intros r; cbn; auto. now rewrite IH. Qed.
Lemma norm_idem r : norm (norm r) = norm r.
Proof. apply norm_n_idem. Qed.
Lemma norm_n_length : forall n r, length (norm_n n r) = n.
Proof. induction n; intros; cbn; auto. Qed.
Lemma norm_length r : length (norm r) = nf.
Proof. apply norm_n_length. Qed.
Lemma norm_n_id : forall r, norm_n (length r) r = r.
Proof. induction r as [|x r IH]; cbn; auto. now rewrite IH. Qed.
Lemma norm_of_length r : length r = nf -> norm r = r.
Proof. intros H. unfold norm. rewrite <- H. apply norm_n_id. Qed.

(* encode, then decode into a zero struct: every serialised field comes back, an omitted one comes
   back as the zero it was omitted for *)
Lemma wire_gen : forall fs, forallb f_ser fs = true ->
  forall r, dec_into (repeat 0 (length fs)) (enc fs r) = norm_n (length fs) r.
Proof.
  induction fs as [|f fs IH]; intros Hs r; [reflexivity|].
  cbn in Hs. apply andb_true_iff in Hs. destruct Hs as [Hf Hs]. cbn. rewrite Hf. cbn.
  rewrite (IH Hs). f_equal.
  destruct (omits f && (hd 0 r =? 0)) eqn:E; auto.
  apply andb_true_iff in E. destruct E as [_ E]. apply N.eqb_eq in E. now rewrite E.
Qed.
Lemma fields_all_serialised : forallb f_ser fields = true.
Proof. reflexivity. Qed.
Theorem wire_norm r : wire r = norm r.
Proof. apply (wire_gen fields fields_all_serialised). Qed.

Lemma record_roundtrip : forall r, length r = nf -> wire r = r.
Proof. intros r H. rewrite wire_norm. now apply norm_of_length. Qed.
Lemma record_roundtrip_total : forall r, wire r = norm r /\ length (norm r) = nf /\ norm (norm r) = norm r.
Proof. intros r. split; [apply wire_norm | split; [apply norm_length | apply norm_idem]]. Qed.

Definition wfr (r : rec) : Prop := norm r = r.
Lemma wire_wf r : wfr r -> wire r = r.
Proof. intros H. rewrite wire_norm. exact H. Qed.
Lemma wfr_norm r : wfr (norm r). Proof. apply norm_idem. Qed.

(* decoding into the record already held (instead of a fresh one) would keep stale fields: the
   Model's decoder makes the difference *)
Lemma merge_decode_differs :
  dec_into (repeat 1 nf) (enc fields zero_rec) <> zero_rec /\ wire zero_rec = zero_rec.
Proof. split; [vm_compute; discriminate | vm_compute; reflexivity]. Qed.

Definition abs (s : state) : sstate := mkSS (pend s) (cq s) (sby s) (lnk s).
Definition nxt (c : config) (s : state) (o : op) : state := fst (fst (step c s o)).
Definition obs (c : config) (s : state) (o : op) : out := snd (fst (step c s o)).
Definition mks (c : config) (s : state) (o : op) : list N := snd (step c s o).

(* ---------- tables as maps ---------- *)
Lemma nth_tset_nil : forall i j x, nth j (tset [] i x) None = if Nat.eqb i j then x else None.
Proof.
  induction i as [|i IH]; intros j x; destruct j as [|j]; cbn; auto; destruct j; auto.
Qed.
Lemma nth_tset : forall t i j x, nth j (tset t i x) None = if Nat.eqb i j then x else nth j t None.
Proof.
  induction t as [|y t IH]; intros i j x.
  - rewrite nth_tset_nil. destruct (Nat.eqb i j); auto. destruct j; auto.
  - destruct i, j; cbn; auto.
Qed.

Lemma forallb_isnone_nth : forall t, forallb isnone t = true <-> forall i, nth i t None = None.
Proof.
  induction t as [|x t IH]; cbn; split; intros H.
  - intros []; auto.
  - auto.
  - apply andb_true_iff in H. destruct H as [Hx Ht]. intros [|i]; cbn.
    + destruct x; auto; discriminate.
    + apply IH; auto.
  - apply andb_true_iff. split.
    + specialize (H O). cbn in H. now subst.
    + apply IH. intros i. apply (H (S i)).
Qed.

Lemma req_eq : forall a b, req a b = true <-> a = b.
Proof.
  induction a as [|x a IH]; intros [|y b]; cbn; split; intros H; try congruence; try discriminate.
  - apply andb_true_iff in H. destruct H as [H1 H2]. apply N.eqb_eq in H1. apply IH in H2. congruence.
  - injection H as -> ->. rewrite N.eqb_refl. cbn. now apply IH.
Qed.
Lemma req_refl a : req a a = true. Proof. now apply req_eq. Qed.

Lemma oeqb_eq a b : oeqb a b = true <-> a = b.
Proof.
  destruct a, b; cbn; split; intros H; try congruence; try discriminate.
  - apply req_eq in H. congruence.
  - injection H as ->. apply req_refl.
Qed.

Lemma nth_nil_none : forall i, nth i (@nil (option rec)) None = None.
Proof. destruct i; auto. Qed.

Lemma teqb_spec : forall a b, teqb a b = true <-> forall i, nth i a None = nth i b None.
Proof.
  induction a as [|x a IH]; intros b.
  - change (teqb [] b) with (forallb isnone b). rewrite forallb_isnone_nth.
    split; intros H i; [rewrite nth_nil_none; symmetry; apply H | specialize (H i); rewrite nth_nil_none in H; auto].
  - destruct b as [|y b].
    + change (teqb (x :: a) []) with (forallb isnone (x :: a)). rewrite forallb_isnone_nth.
      split; intros H i; [rewrite nth_nil_none; apply H | specialize (H i); rewrite nth_nil_none in H; auto].
    + cbn. rewrite andb_true_iff, oeqb_eq, IH. split.
      * intros [-> H] [|i]; cbn; auto.
      * intros H. split; [apply (H O) | intros i; apply (H (S i))].
Qed.

Lemma teqb_refl a : teqb a a = true. Proof. apply teqb_spec; auto. Qed.

Lemma nth_fsync : forall snap old i, nth i (fsync snap old) None = nth i snap None.
Proof.
  induction snap as [|s snap IH]; intros old i; cbn.
  - revert i. induction old as [|y old IHo]; intros i; destruct i; cbn; auto.
    rewrite IHo. apply nth_nil_none.
  - destruct i; cbn; auto.
Qed.

Lemma nth_snapshot a i : nth i (snapshot a) None = option_map wire (nth i a None).
Proof. unfold snapshot. change (@None rec) with (option_map wire None) at 1. apply map_nth. Qed.

Lemma msg_eqb_refl m : msg_eqb m m = true.
Proof. destruct m; cbn; rewrite ?N.eqb_refl, ?req_refl, ?eqb_reflx; auto. Qed.

(* ---------- well-formed states: every record held by the active has exactly the struct's fields ---------- *)
Definition wfm (m : msg) : Prop := match m with MPut _ _ r _ => wfr r | _ => True end.
Definition wft (t : table) : Prop := forall i r, nth i t None = Some r -> wfr r.
Definition wfS (s : state) : Prop := wft (act s) /\ Forall wfm (pend s) /\ Forall wfm (cq s).

Lemma wire_msg_wf m : wfm m -> wire_msg m = m.
Proof. destruct m; cbn; auto. intros H. now rewrite wire_wf. Qed.
Lemma wft_nil : wft []. Proof. intros i r. rewrite nth_nil_none. discriminate. Qed.
Lemma wft_tset t i x : wft t -> (forall r, x = Some r -> wfr r) -> wft (tset t i x).
Proof.
  intros Ht Hx j r. rewrite nth_tset. destruct (Nat.eqb i j); [apply Hx | apply Ht].
Qed.
Lemma nth_snapshot_wf a i : wft a -> nth i (snapshot a) None = nth i a None.
Proof.
  intros H. rewrite nth_snapshot. destruct (nth i a None) as [r|] eqn:E; cbn; auto.
  now rewrite (wire_wf r (H i r E)).
Qed.
Lemma Forall_snoc {A} (P : A -> Prop) l x : Forall P l -> P x -> Forall P (l ++ [x]).
Proof. intros. apply Forall_app. split; auto. Qed.
Lemma Forall_tl {A} (P : A -> Prop) x l : Forall P (x :: l) -> Forall P l.
Proof. intros H. now inversion H. Qed.
Lemma Forall_hd {A} (P : A -> Prop) x l : Forall P (x :: l) -> P x.
Proof. intros H. now inversion H. Qed.

Lemma wfS_init : wfS init.
Proof. repeat split; cbn; auto using wft_nil. Qed.

(* ---------- monitor state is a projection of the Model state ---------- *)
Ltac unf := unfold step_core, push, bcast.
Ltac dm := match goal with
  | |- context [match ?x with _ => _ end] =>
      lazymatch x with context [match _ with _ => _ end] => fail | _ => destruct x eqn:? end
  end.
Ltac start s o := destruct s as [a sb rc sq pe q lk z]; destruct o; unf; cbn.

Lemma step_wf : forall c s o, wfS s -> wfS (nxt c s o).
Proof.
  intros c s o. unfold nxt, step, wfS. start s o; intros (HA & HP & HQ).
  all: repeat (dm; cbn); repeat split; cbn; auto using wft_nil.
  all: try (apply wft_tset; auto; intros r0 E; try discriminate; injection E as <-; apply wfr_norm).
  all: try (apply Forall_snoc; auto; cbn; auto using wfr_norm).
  all: try solve [repeat constructor; cbn; auto].
  all: try solve [eapply Forall_tl; eauto].
  all: try solve [eapply Forall_hd; eauto].
Qed.

Lemma snext_abs : forall c s o, snext (abs s) o (obs c s o) = abs (nxt c s o).
Proof.
  intros c s o. unfold obs, nxt, step. start s o.
  all: repeat (dm; cbn); unfold abs, snext; cbn; try reflexivity.
Qed.

(* ---------- clauses 0 and 1: every step, from every well-formed state ---------- *)
Lemma step_v0 : forall c s o, wfS s -> v0 o (obs c s o) = false.
Proof.
  intros c s o. unfold v0, obs, step, wfS. start s o; intros (HA & HP & HQ).
  all: repeat (dm; cbn); try reflexivity; try congruence.
  all: apply negb_false_iff, andb_true_iff; split; apply teqb_spec; intros i;
       rewrite ?nth_fsync; apply nth_snapshot_wf; auto.
Qed.

Lemma step_v1 : forall c s o, wfS s -> v1 (abs s) o (obs c s o) = false.
Proof.
  intros c s o. unfold v1, obs, step, wfS. start s o; intros (HA & HP & HQ).
  all: repeat (dm; cbn); try reflexivity; try congruence; rewrite ?teqb_refl, ?msg_eqb_refl; try reflexivity.
  all: rewrite wire_msg_wf by (eapply Forall_hd; eauto); rewrite ?msg_eqb_refl, ?teqb_refl; reflexivity.
Qed.

Lemma step_v9 : forall c s o, v9 o (obs c s o) = false.
Proof.
  intros c s o. unfold v9, obs, step. start s o.
  all: repeat (dm; cbn); try reflexivity; try congruence.
Qed.

(* clause 3 is violated only at steps where the Model raises a marker *)
Lemma step_v3 : forall c s o, mks c s o = [] -> v3 (abs s) (obs c s o) = false.
Proof.
  intros c s o. unfold v3, obs, mks, step. start s o.
  all: repeat (dm; cbn); try reflexivity; try congruence; try discriminate.
Qed.

(* ---------- clause 2: convergence invariant ---------- *)
Definition eff_on (id : N) (m : msg) : option (option rec) :=
  match m with
  | MPut i _ v _ => if i =? id then Some (Some v) else None
  | MDel i _ => if i =? id then Some None else None
  | MHb _ => None
  end.
(* effect on [id] of the last message about [id] in a queue (head = oldest) *)
Fixpoint last_eff (id : N) (ms : list msg) : option (option rec) :=
  match ms with
  | [] => None
  | m :: tl => match last_eff id tl with Some e => Some e | None => eff_on id m end
  end.

Lemma last_eff_app id : forall a b,
  last_eff id (a ++ b) = match last_eff id b with Some e => Some e | None => last_eff id a end.
Proof.
  induction a as [|m a IH]; intros b; cbn.
  - destruct (last_eff id b); auto.
  - rewrite IH. destruct (last_eff id b); auto.
Qed.
Lemma last_eff_snoc id l m :
  last_eff id (l ++ [m]) = match eff_on id m with Some e => Some e | None => last_eff id l end.
Proof. rewrite last_eff_app. cbn. destruct (eff_on id m); auto. Qed.

Lemma lookup_tset t i x j : lookup (tset t (N.to_nat i) x) j = if i =? j then x else lookup t j.
Proof.
  unfold lookup. rewrite nth_tset. destruct (N.eqb_spec i j) as [->|Hn].
  - now rewrite Nat.eqb_refl.
  - destruct (Nat.eqb_spec (N.to_nat i) (N.to_nat j)) as [E|E]; auto. apply N2Nat.inj in E. contradiction.
Qed.

Lemma lookup_apply m t j :
  lookup (apply_msg m t) j = match eff_on j m with Some e => e | None => lookup t j end.
Proof. destruct m; unfold apply_msg, eff_on; auto; rewrite lookup_tset; destruct (id =? j); auto. Qed.

Definition formp (a : table) (l : list msg) : Prop :=
  forall j, match last_eff j l with Some e => lookup a j = e | None => True end.
Definition formq (sb a : table) (l : list msg) : Prop :=
  forall j, match last_eff j l with Some e => lookup a j = e | None => lookup sb j = lookup a j end.
Definition upd_ok (a a' : table) (m : msg) : Prop :=
  forall j, match eff_on j m with Some e => lookup a' j = e | None => lookup a' j = lookup a j end.

Lemma upd_put a i u v s : upd_ok a (tset a (N.to_nat i) (Some v)) (MPut i u v s).
Proof. intros j. unfold eff_on. rewrite lookup_tset. destruct (i =? j); auto. Qed.
Lemma upd_del a i s : upd_ok a (tset a (N.to_nat i) None) (MDel i s).
Proof. intros j. unfold eff_on. rewrite lookup_tset. destruct (i =? j); auto. Qed.

Lemma formp_snoc a a' l m : formp a l -> upd_ok a a' m -> formp a' (l ++ [m]).
Proof.
  intros H U j. rewrite last_eff_snoc. specialize (U j). specialize (H j).
  destruct (eff_on j m); auto. destruct (last_eff j l); auto. congruence.
Qed.
Lemma formq_snoc sb a a' l m : formq sb a l -> upd_ok a a' m -> formq sb a' (l ++ [m]).
Proof.
  intros H U j. rewrite last_eff_snoc. specialize (U j). specialize (H j).
  destruct (eff_on j m); auto. destruct (last_eff j l); congruence.
Qed.
Lemma formp_tl a m l : formp a (m :: l) -> formp a l.
Proof. intros H j. specialize (H j). cbn in H. destruct (last_eff j l); auto. Qed.
Lemma formq_deliver sb a m l : formq sb a (m :: l) -> formq (apply_msg m sb) a l.
Proof.
  intros H j. specialize (H j). cbn in H. rewrite lookup_apply.
  destruct (last_eff j l); auto. destruct (eff_on j m); auto.
Qed.
Lemma last_eff_hb j q sq pe : last_eff j ((q ++ [MHb sq]) ++ pe) = last_eff j (q ++ pe).
Proof. rewrite !last_eff_app. cbn. reflexivity. Qed.
Lemma formq_of_formp sb a l : formp a l -> (forall j, lookup sb j = lookup a j) -> formq sb a l.
Proof. intros H E j. specialize (H j). destruct (last_eff j l); auto. Qed.
Lemma formp_nil a : formp a []. Proof. intros j. exact I. Qed.

(* what survives a loss on the stream: the pending queue is still coherent with the active's store *)
Definition weak (s : state) : Prop :=
  formp (act s) (pend s) /\ (lnk s <> LStreaming -> cq s = []).
Definition inv (s : state) : Prop :=
  weak s /\ (lnk s <> LDown -> formq (sby s) (act s) (cq s ++ pend s)).

Lemma inv_init : inv init.
Proof. repeat split; cbn; auto; try congruence. Qed.

Lemma fsync_lookup a sb : wft a -> forall j, lookup (fsync (snapshot a) sb) j = lookup a j.
Proof. intros H j. unfold lookup. rewrite nth_fsync. now apply nth_snapshot_wf. Qed.

(* a step that does not refuse a push keeps the pending queue coherent *)
Lemma step_weak : forall c s o, ~ In 1304 (mks c s o) -> weak s -> weak (nxt c s o).
Proof.
  intros c s o. unfold mks, nxt, weak, step.
  destruct s as [a sb rc sq pe q lk z]. destruct o; unf; cbn.
  - (* Put *) destruct (len pe <? c_pcap c); cbn; [|tauto]. intros _ (HP & HC).
    split; auto. eapply formp_snoc; eauto using upd_put.
  - (* Del *) destruct (len pe <? c_pcap c); cbn; [|tauto]. intros _ (HP & HC).
    split; auto. eapply formp_snoc; eauto using upd_del.
  - (* Broadcast *) destruct pe as [|m tl]; cbn; auto. intros _ (HP & HC). apply formp_tl in HP.
    destruct lk; cbn; auto. destruct (len q <? c_ccap c); cbn; split; auto; congruence.
  - (* Heartbeat *) intros _ (HP & HC). destruct lk; cbn; auto.
    destruct (len q <? c_ccap c); cbn; split; auto; congruence.
  - (* FullSync *) intros _ (HP & HC). destruct lk; cbn; auto; split; auto; intros _; apply HC; congruence.
  - (* SyncFail *) intros _ (HP & HC). destruct lk; cbn; auto; split; auto; intros _; apply HC; congruence.
  - (* Attach *) intros _ (HP & HC). destruct lk; cbn; auto. split; auto. congruence.
  - (* Deliver *) intros _ (HP & HC). destruct lk; cbn; auto. destruct q; cbn; auto. split; auto. congruence.
  - (* Disconnect *) intros _ (HP & HC). destruct lk; cbn; auto; split; auto.
  - (* Drop *) intros _ (HP & HC). destruct lk; cbn; auto; split; auto.
  - (* Reap *) intros _ (HP & HC). destruct z; cbn; auto.
  - (* Restart *) intros _ _. split; auto using formp_nil.
Qed.

(* a completed full sync re-establishes the whole invariant from the weak one *)
Lemma fullsync_inv : forall c s, wfS s -> lnk s <> LStreaming -> weak s -> inv (nxt c s FullSync).
Proof.
  intros c s (HA & _) HL (HP & HC). unfold nxt, step, inv, weak.
  destruct s as [a sb rc sq pe q lk z]. cbn in *. specialize (HC HL). subst q.
  destruct lk; cbn; try congruence.
  all: split; [split; auto|]; intros _; cbn; apply formq_of_formp; auto; apply fsync_lookup; auto.
Qed.

Lemma restart_inv : forall c s, inv (nxt c s Restart).
Proof. intros c s. unfold nxt, step, inv, weak. cbn. repeat split; auto using formp_nil. congruence. Qed.

Lemma step_inv : forall c s o, mks c s o = [] -> wfS s -> inv s -> inv (nxt c s o).
Proof.
  intros c s o EM HW (HK & HQ).
  assert (HK' : weak (nxt c s o)) by (apply step_weak; auto; rewrite EM; auto).
  destruct o; try (apply restart_inv).
  5: { (* FullSync *) destruct (lnk s) eqn:EL.
       1,2: apply fullsync_inv; auto; congruence.
       split; auto. unfold nxt, step. cbn. rewrite EL. cbn. rewrite EL. auto. }
  all: split; auto; clear HK'; revert EM HW HK HQ; unfold mks, nxt, weak, wfS, step;
       destruct s as [a sb rc sq pe q lk z]; unf; cbn.
  - (* Put *) destruct (len pe <? c_pcap c); cbn; [|discriminate]. intros _ _ _ HQ HL.
    rewrite app_assoc. eapply formq_snoc; eauto using upd_put.
  - (* Del *) destruct (len pe <? c_pcap c); cbn; [|discriminate]. intros _ _ _ HQ HL.
    rewrite app_assoc. eapply formq_snoc; eauto using upd_del.
  - (* Broadcast *) destruct pe as [|m tl]; cbn; auto. destruct lk; cbn.
    + congruence.
    + discriminate.
    + destruct (len q <? c_ccap c); cbn; [|discriminate]. intros _ _ _ HQ HL. rewrite <- app_assoc; cbn; auto.
  - (* Heartbeat *) destruct lk; cbn; auto.
    destruct (len q <? c_ccap c); cbn; auto. intros _ _ _ HQ HL j. rewrite last_eff_hb. apply HQ; auto.
  - (* SyncFail *) destruct lk; cbn; auto; congruence.
  - (* Attach *) destruct lk; cbn; auto. intros _ _ (_ & HC) HQ _. rewrite HC in HQ by congruence.
    assert (HL : LSynced <> LDown) by discriminate. intros j. specialize (HQ HL j). cbn in *. destruct (last_eff j pe); auto.
  - (* Deliver *) destruct lk; cbn; auto. destruct q as [|m tl]; cbn; auto. intros _ (_ & _ & HF) _ HQ _.
    rewrite wire_msg_wf by (eapply Forall_hd; eauto). apply formq_deliver. apply HQ. congruence.
  - (* Disconnect *) destruct lk; cbn; auto; congruence.
  - (* Drop *) destruct lk; cbn; auto; congruence.
  - (* Reap *) destruct z; cbn; auto.
Qed.

Lemma len_zero {A} (l : list A) : len l = 0 -> l = [].
Proof. destruct l; cbn; auto. unfold len. cbn. lia. Qed.

Lemma v2_of_inv s r : inv s -> v2 (nilb (cq s)) (observe s r) = false.
Proof.
  intros ((HP & HC) & HQ). unfold v2, observe. cbn. destruct (lnk s) eqn:EL; auto.
  destruct (len (pend s) =? 0) eqn:E1; auto. destruct (cq s) as [|m0 q0] eqn:E2; auto. cbn.
  apply N.eqb_eq, len_zero in E1.
  apply negb_false_iff, teqb_spec. intros i.
  assert (HL : LStreaming <> LDown) by discriminate. specialize (HQ HL (N.of_nat i)).
  rewrite E1 in HQ. cbn in HQ. unfold lookup in HQ. now rewrite Nat2N.id in HQ.
Qed.

(* ---------- the monitor over whole runs ---------- *)
Lemma filter_flag (m : N -> bool) b k : filter m (flag b k) = if b && m k then [k] else [].
Proof. destruct b; cbn; auto. Qed.

Lemma filter_only k ss o ob :
  In k [0; 1; 2; 3; 9] ->
  filter (only k) (viol ss o ob) =
  flag (match k with 0 => v0 o ob | 1 => v1 ss o ob | 2 => v2 (nilb (s_q (snext ss o ob))) ob
        | 3 => v3 ss ob | _ => v9 o ob end) k.
Proof.
  intros Hk. unfold viol. rewrite !filter_app, !filter_flag. unfold only.
  cbn in Hk. repeat (destruct Hk as [<- | Hk]; [cbn; rewrite ?andb_false_r, ?andb_true_r; cbn;
     rewrite ?app_nil_r; unfold flag; reflexivity|]). destruct Hk.
Qed.

Lemma obs_observe c s o : exists r, obs c s o = observe (nxt c s o) r.
Proof. unfold obs, nxt, step. destruct (step_core c s o) as [[s1 r] mk]. cbn. eauto. Qed.

(* generic: an invariant I preserved by the steps the guard G allows, and implying that no clause
   selected by m is violated, gives monitor = None on every guarded run *)
Lemma monitor_gen (m : N -> bool) (G : config -> state -> op -> bool) (I : state -> Prop) c :
  (forall s o, I s -> G c s o = true ->
               I (nxt c s o) /\ filter m (viol (abs s) o (obs c s o)) = []) ->
  forall ops s, I s ->
    (fix g s ops := match ops with [] => true | o :: tl => G c s o && g (nxt c s o) tl end) s ops = true ->
    monitor m c s (abs s) ops = None.
Proof.
  intros Hstep. induction ops as [|o tl IH]; intros s HI HG; [reflexivity|].
  apply andb_true_iff in HG. destruct HG as [HP HG].
  destruct (Hstep s o HI HP) as [HI' HV].
  cbn. pose proof (snext_abs c s o) as HS. unfold obs, nxt in *.
  destruct (step c s o) as [[s' ob] mk]. cbn in *. unfold accept_m. rewrite HV, HS. apply IH; auto.
Qed.

Definition g_all (_ : config) (_ : state) (_ : op) : bool := true.
Definition g_quiet (c : config) (s : state) (o : op) : bool :=
  match mks c s o with [] => true | _ => false end.

Lemma g_all_run c : forall ops s,
  (fix g s ops := match ops with [] => true | o :: tl => g_all c s o && g (nxt c s o) tl end) s ops = true.
Proof. induction ops; cbn; auto. Qed.

Lemma lossless_run c : forall ops s, lossless c s ops = true ->
  (fix g s ops := match ops with [] => true | o :: tl => g_quiet c s o && g (nxt c s o) tl end) s ops = true.
Proof.
  induction ops as [|o tl IH]; intros s H; auto. cbn in H. unfold g_quiet, mks, nxt.
  destruct (step c s o) as [[s' ob] mk]. cbn. destruct mk; [|discriminate]. cbn. apply IH; auto.
Qed.

Lemma sinit_abs : sinit = abs init. Proof. reflexivity. Qed.

Theorem mon_after_full_sync_equal : forall c ops, monitor (only 0) c init sinit ops = None.
Proof.
  intros. rewrite sinit_abs. apply (monitor_gen (only 0) g_all wfS); auto using g_all_run, wfS_init.
  intros s o HW _. split; [apply step_wf; auto|]. rewrite filter_only by (cbn; auto). now rewrite step_v0.
Qed.

Theorem mon_stream_applies_in_order : forall c ops, monitor (only 1) c init sinit ops = None.
Proof.
  intros. rewrite sinit_abs. apply (monitor_gen (only 1) g_all wfS); auto using g_all_run, wfS_init.
  intros s o HW _. split; [apply step_wf; auto|]. rewrite filter_only by (cbn; auto). now rewrite step_v1.
Qed.

Definition winv (s : state) : Prop := wfS s /\ inv s.
Lemma winv_init : winv init. Proof. split; [apply wfS_init | apply inv_init]. Qed.

Theorem mon_quiescent_convergence_partial : forall c ops,
  lossless c init ops = true -> monitor (only 2) c init sinit ops = None.
Proof.
  intros c ops G. rewrite sinit_abs.
  apply (monitor_gen (only 2) g_quiet winv); auto using winv_init, lossless_run.
  intros s o (HW & HI) HG. unfold g_quiet in HG. destruct (mks c s o) eqn:EM; [|discriminate].
  pose proof (step_inv c s o EM HW HI) as HI'. split; [split; auto using step_wf|].
  rewrite filter_only by (cbn; tauto). rewrite snext_abs. cbn [abs s_q].
  destruct (obs_observe c s o) as (r & ->). now rewrite v2_of_inv.
Qed.

Theorem mon_no_change_lost_partial : forall c ops,
  lossless c init ops = true -> monitor (only 3) c init sinit ops = None.
Proof.
  intros c ops G. rewrite sinit_abs.
  apply (monitor_gen (only 3) g_quiet (fun _ => True)); auto using lossless_run.
  intros s o _ HG. unfold g_quiet in HG. destruct (mks c s o) eqn:EM; [|discriminate].
  split; auto. rewrite filter_only by (cbn; tauto). now rewrite step_v3.
Qed.

Theorem mon_all_partial : forall c ops,
  lossless c init ops = true -> monitor (fun _ => true) c init sinit ops = None.
Proof.
  intros c ops G. rewrite sinit_abs.
  apply (monitor_gen (fun _ => true) g_quiet winv); auto using winv_init, lossless_run.
  intros s o (HW & HI) HG. unfold g_quiet in HG. destruct (mks c s o) eqn:EM; [|discriminate].
  pose proof (step_inv c s o EM HW HI) as HI'. split; [split; auto using step_wf|].
  assert (E : forall l, filter (fun _ : N => true) l = l) by (induction l; cbn; congruence).
  rewrite E. unfold viol. rewrite step_v0, step_v1, step_v3, step_v9 by auto. rewrite snext_abs. cbn [abs s_q].
  destruct (obs_observe c s o) as (r & ->). rewrite v2_of_inv by auto. reflexivity.
Qed.

(* ---------- the weaker guard: losses on the stream are repaired by the next full sync ---------- *)
Definition tinv (t : taint) (s : state) : Prop :=
  wfS s /\ match t with Clean => inv s | StreamLoss => weak s | PushLoss => True end.

Lemma mks_cases : forall c s o,
  mks c s o = [] \/
  ((mks c s o = [1302] \/ mks c s o = [1303]) /\ exists m b, o_res (obs c s o) = RBcast m b) \/
  mks c s o = [1304].
Proof.
  intros c s o. unfold mks, obs, step. start s o.
  all: repeat (dm; cbn); auto.
  all: right; left; split; eauto.
Qed.

Lemma sync_true_is_fullsync : forall c s o,
  o_res (obs c s o) = RSync true -> o = FullSync /\ lnk s <> LStreaming.
Proof.
  intros c s o. unfold obs, step. start s o.
  all: repeat (dm; cbn); try discriminate; intros _; split; auto; discriminate.
Qed.

Lemma step_tinv : forall c s o t, tinv t s ->
  tinv (taint_step t o (obs c s o) (mks c s o)) (nxt c s o).
Proof.
  intros c s o t (HW & HT). split; [apply step_wf; auto|].
  destruct (match o with Restart => true | _ => false end) eqn:ER.
  { destruct o; try discriminate. exact (restart_inv c s). }
  assert (TS : taint_step t o (obs c s o) (mks c s o) =
               if has 1304 (mks c s o) then PushLoss else
               match t with
               | PushLoss => PushLoss
               | _ => match o_res (obs c s o) with
                      | RSync true => Clean
                      | _ => if has 1302 (mks c s o) || has 1303 (mks c s o) then StreamLoss else t
                      end
               end) by (destruct o; try discriminate; reflexivity).
  rewrite TS. clear TS ER.
  assert (HWK : t <> PushLoss -> weak s) by (destruct t; cbn in HT; try tauto; intros _; apply HT).
  destruct (mks_cases c s o) as [EM | [([EM|EM] & m & b & EB) | EM]]; rewrite EM; cbn.
  - (* no marker *)
    destruct t; auto.
    + destruct (o_res (obs c s o)) as [| | | | |[]]; apply step_inv; auto.
    + destruct (o_res (obs c s o)) as [| | | | |[]] eqn:EO;
        try (apply step_weak; auto; rewrite EM; cbn; tauto).
      destruct (sync_true_is_fullsync c s o EO) as (-> & HL). apply fullsync_inv; auto.
  - rewrite EB. destruct t; auto; apply step_weak; try (rewrite EM; cbn; intros [H|[]]; discriminate);
      apply HWK; discriminate.
  - rewrite EB. destruct t; auto; apply step_weak; try (rewrite EM; cbn; intros [H|[]]; discriminate);
      apply HWK; discriminate.
  - exact I.
Qed.

Lemma run_tinv c : forall ops s t, tinv t s -> tinv (taint_run c s t ops) (run c s ops).
Proof.
  induction ops as [|o tl IH]; intros s t H; auto. cbn.
  pose proof (step_tinv c s o t H) as HS. unfold obs, mks, nxt in HS.
  destruct (step c s o) as [[s' ob] mk]. cbn in *. apply IH; auto.
Qed.

Theorem quiescent_tables_equal_healed : forall c ops,
  healed c init ops = true ->
  let s := run c init ops in
  lnk s = LStreaming -> pend s = [] -> cq s = [] -> forall id, lookup (sby s) id = lookup (act s) id.
Proof.
  intros c ops G s HL HP HQ id. unfold healed in G.
  pose proof (run_tinv c ops init Clean (conj wfS_init inv_init)) as (_ & H). fold s in H.
  destruct (taint_run c init Clean ops); try discriminate. destruct H as (_ & H).
  rewrite HL, HP, HQ in H. specialize (H ltac:(discriminate) id). exact H.
Qed.

(* the new guard is weaker than the old one *)
Lemma lossless_taint c : forall ops s, lossless c s ops = true -> taint_run c s Clean ops = Clean.
Proof.
  induction ops as [|o tl IH]; intros s H; auto. cbn in *.
  destruct (step c s o) as [[s' ob] mk]. destruct mk; [|discriminate].
  replace (taint_step Clean o ob []) with Clean; auto.
  destruct o; cbn; auto; destruct (o_res ob) as [| | | | |[]]; auto.
Qed.
Theorem lossless_healed : forall c ops, lossless c init ops = true -> healed c init ops = true.
Proof. intros c ops H. unfold healed. now rewrite lossless_taint. Qed.

(* plain form of the convergence clause on reachable states *)
Theorem quiescent_tables_equal : forall c ops,
  lossless c init ops = true ->
  let s := run c init ops in
  lnk s = LStreaming -> pend s = [] -> cq s = [] -> forall id, lookup (sby s) id = lookup (act s) id.
Proof. intros c ops G. apply quiescent_tables_equal_healed. now apply lossless_healed. Qed.

(* ---------- full sync and stream application, record by record, from EVERY state ---------- *)
Theorem full_sync_copies_snapshot : forall c s,
  lnk s <> LStreaming ->
  forall id, lookup (sby (nxt c s FullSync)) id = option_map norm (lookup (act s) id) /\
             lookup (rcv (nxt c s FullSync)) id = option_map norm (lookup (act s) id).
Proof.
  intros c s HL id. unfold nxt, step. cbn. destruct (lnk s); try congruence; cbn; unfold lookup.
  all: rewrite ?nth_fsync, nth_snapshot; split; destruct (nth (N.to_nat id) (act s) None); cbn;
       now rewrite ?wire_norm.
Qed.

Ltac fold_lookup := repeat match goal with
  | |- context [nth (N.to_nat ?j) ?t None] => change (nth (N.to_nat j) t None) with (lookup t j) end.

(* an add/update that reaches the standby REPLACES the record stored under its id by the pushed one,
   whatever the old record was (every field, zero values included), and touches no other id *)
Theorem deliver_replaces_record : forall c s id u r sq tl,
  lnk s = LStreaming -> cq s = MPut id u r sq :: tl ->
  let s' := nxt c s Deliver in
  lookup (sby s') id = Some (norm r) /\ lookup (rcv s') id = Some (norm r) /\
  (forall j, j <> id -> lookup (sby s') j = lookup (sby s) j /\ lookup (rcv s') j = lookup (rcv s) j).
Proof.
  intros c s id u r sq tl HL HQ. unfold nxt, step. cbn. rewrite HL, HQ. cbn. fold_lookup.
  rewrite !lookup_tset, N.eqb_refl, wire_norm. repeat split; auto.
  all: fold_lookup; rewrite lookup_tset; destruct (N.eqb_spec id j); auto; congruence.
Qed.

Theorem deliver_delete_removes : forall c s id sq tl,
  lnk s = LStreaming -> cq s = MDel id sq :: tl ->
  let s' := nxt c s Deliver in
  lookup (sby s') id = None /\ lookup (rcv s') id = None /\
  (forall j, j <> id -> lookup (sby s') j = lookup (sby s) j /\ lookup (rcv s') j = lookup (rcv s) j).
Proof.
  intros c s id sq tl HL HQ. unfold nxt, step. cbn. rewrite HL, HQ. cbn. fold_lookup.
  rewrite !lookup_tset, N.eqb_refl. repeat split; auto.
  all: fold_lookup; rewrite lookup_tset; destruct (N.eqb_spec id j); auto; congruence.
Qed.

(* the session manager's record reaches the active's store and the queue as given *)
Theorem put_stores_record : forall c s id r,
  lookup (act (nxt c s (Put id r))) id = Some (norm r).
Proof.
  intros. unfold nxt, step. cbn. unfold push. destruct (len (pend s) <? c_pcap c); cbn; fold_lookup;
  now rewrite lookup_tset, N.eqb_refl.
Qed.

(* ---------- the loss markers, exactly ---------- *)
Definition is_push (o : op) : bool := match o with Put _ _ | Del _ => true | _ => false end.

Theorem marker_1304_exact : forall c s o,
  In 1304 (mks c s o) <-> is_push o = true /\ c_pcap c <= len (pend s).
Proof.
  intros c s o. unfold mks, step. start s o.
  all: repeat (dm; cbn); split; try tauto; try (intros [H|[]]; discriminate H);
       try (intros [H _]; discriminate H).
  all: try (intros _; split; auto; apply N.ltb_ge; auto).
  all: try (intros [_ H]; apply N.ltb_ge in H; congruence).
  all: try (intros [H|[]]; discriminate).
Qed.

Theorem marker_1303_exact : forall c s o,
  In 1303 (mks c s o) <-> o = Broadcast /\ pend s <> [] /\ lnk s = LStreaming /\ c_ccap c <= len (cq s).
Proof.
  intros c s o. unfold mks, step. start s o.
  all: repeat (dm; cbn); split; try tauto; try (intros [H|[]]; discriminate H);
       try (intros [H _]; discriminate H); try (intros (_ & H & _); congruence);
       try (intros (_ & _ & H & _); discriminate H).
  all: try (intros _; repeat split; auto; try discriminate; apply N.ltb_ge; auto).
  all: try (intros (_ & _ & _ & H); apply N.ltb_ge in H; congruence).
Qed.

Theorem marker_1302_exact : forall c s o,
  In 1302 (mks c s o) <-> o = Broadcast /\ pend s <> [] /\ lnk s = LSynced.
Proof.
  intros c s o. unfold mks, step. start s o.
  all: repeat (dm; cbn); split; try tauto; try (intros [H|[]]; discriminate H);
       try (intros [H _]; discriminate H); try (intros (_ & H & _); congruence);
       try (intros (_ & _ & H); discriminate H).
  all: try (intros _; repeat split; auto; discriminate).
Qed.

(* the queues never exceed their capacities *)
Definition bounded (c : config) (s : state) : Prop :=
  len (pend s) <= c_pcap c /\ len (cq s) <= c_ccap c.
Lemma len_app1 {A} (l : list A) x : len (l ++ [x]) = len l + 1.
Proof. unfold len. rewrite app_length. cbn. lia. Qed.
Lemma len_tl_le {A} (x : A) l n : len (x :: l) <= n -> len l <= n.
Proof. unfold len. cbn. lia. Qed.
Lemma step_bounded : forall c s o, 1 <= c_ccap c -> bounded c s -> bounded c (nxt c s o).
Proof.
  intros c s o H1. unfold nxt, step, bounded. start s o; intros (HP & HQ).
  all: repeat (dm; cbn); split; auto; rewrite ?len_app1; try lia.
  all: try (match goal with H : (_ <? _) = true |- _ => apply N.ltb_lt in H; lia end).
  all: try (eapply len_tl_le; eauto).
  all: try (unfold len; cbn; lia).
Qed.
Theorem queues_bounded : forall c ops, 1 <= c_ccap c -> bounded c (run c init ops).
Proof.
  intros c ops H1. assert (H : bounded c init) by (unfold bounded, len; cbn; lia).
  revert H. generalize init. induction ops as [|o tl IH]; intros s H; auto.
  cbn. apply IH. apply (step_bounded c s o H1 H).
Qed.

Lemma monitor_is_check m c : forall ops s ss i,
  monitor m c s ss ops = None ->
  accept_trace (accept_m m) i ss
    (map (fun x => (fst (fst x), snd (fst x))) (model_trace (step c) s ops)) = (0, 0).
Proof.
  induction ops as [|o tl IH]; intros s ss i H; [reflexivity|].
  cbn in *. destruct (step c s o) as [[s' ob] mk]. cbn.
  destruct (accept_m m ss o ob); [apply IH; auto | discriminate].
Qed.

(* ---------- refutations ---------- *)
Definition cfg_real : config := Build_config 1000 101.
Definition cfg_tiny : config := Build_config 1 2.
Definition rA : rec := repeat 1 nf.          (* every field non-zero *)
Definition rB : rec := repeat 2 nf.
Definition rH : rec := norm [0; 2; 0; 2; 0; 2; 0; 2; 0; 2; 0; 2; 0; 2; 0; 2; 0; 2; 0; 2].  (* every other field back to zero *)
(* a change broadcast between the full sync and the stream attach is lost *)
Definition w_gap : list op := [FullSync; Put 0 rA; Broadcast; Attach; Deliver].
(* 102 changes broadcast into a stream nobody reads: the last one is dropped *)
Definition w_overflow : list op :=
  [FullSync; Attach] ++ repeat (Put 0 rA) 102 ++ repeat Broadcast 102.
Definition w_overflow_diverge : list op :=
  [FullSync; Attach] ++ repeat (Put 0 rA) 101 ++ [Put 1 rB] ++ repeat Broadcast 102 ++ repeat Deliver 101.
(* a push refused by the full pending queue (capacity 1 here; 1000 in the code: corpus k13c2) while the
   standby is away: the full sync that follows does not repair it, the older queued message wins *)
Definition w_push_refused : list op :=
  [Put 0 rA; Put 0 rH; FullSync; Attach; Deliver; Broadcast; Deliver].

Theorem quiescent_convergence_refuted : exists c ops, monitor (only 2) c init sinit ops = Some 2.
Proof. exists cfg_real, w_gap. vm_compute. reflexivity. Qed.
Theorem quiescent_convergence_refuted_overflow : exists c ops, monitor (only 2) c init sinit ops = Some 2.
Proof. exists cfg_real, w_overflow_diverge. vm_compute. reflexivity. Qed.
Theorem quiescent_convergence_refuted_push : exists c ops,
  monitor (only 2) c init sinit ops = Some 2 /\ taint_run c init Clean ops = PushLoss.
Proof. exists cfg_tiny, w_push_refused. vm_compute. split; reflexivity. Qed.
Theorem no_change_lost_refuted : exists c ops, monitor (only 3) c init sinit ops = Some 3.
Proof. exists cfg_real, w_overflow. vm_compute. reflexivity. Qed.

(* non-vacuity: a lossless history with adds, an update resetting half of the fields, deletes while
   away, a failed full sync, reconnection, that ends quiescent with a non-empty table *)
Definition h_ok : list op :=
  [Put 0 rA; Put 1 rA; Broadcast; FullSync; Attach; Deliver; Broadcast; Deliver; Put 0 rH; Heartbeat; Broadcast; Deliver;
   Deliver; Drop; Del 1; Put 2 rB; Broadcast; Broadcast; SyncFail; FullSync; Attach; Deliver; Put 3 rA; Reap; Del 3; Broadcast;
   Broadcast; Deliver; Deliver].
Lemma h_ok_facts :
  lossless cfg_real init h_ok = true /\ lnk (run cfg_real init h_ok) = LStreaming /\
  pend (run cfg_real init h_ok) = [] /\ cq (run cfg_real init h_ok) = [] /\
  sby (run cfg_real init h_ok) = [Some rH; None; Some rB; None].
Proof. vm_compute. repeat split; reflexivity. Qed.

(* non-vacuity of the weaker guard: a history that LOSES changes (gap between snapshot and attach,
   then the active restarts and the standby reconnects) and is healed: not lossless, yet quiescent and
   equal at the end, with a non-empty table *)
Definition h_healed : list op :=
  w_gap ++ [Put 1 rB; Broadcast; Deliver; Disconnect; Put 1 rH; Broadcast; FullSync; Attach; Deliver;
            Restart; Put 2 rA; Broadcast; FullSync; Attach; Deliver; Put 2 rH; Broadcast; Deliver].
Lemma h_healed_facts :
  lossless cfg_real init h_healed = false /\ healed cfg_real init h_healed = true /\
  lnk (run cfg_real init h_healed) = LStreaming /\
  pend (run cfg_real init h_healed) = [] /\ cq (run cfg_real init h_healed) = [] /\
  sby (run cfg_real init h_healed) = [None; None; Some rH] /\
  act (run cfg_real init h_healed) = [None; None; Some rH].
Proof. vm_compute. repeat split; reflexivity. Qed.
