(* Proofs for C13 (Model/HaSync.v against the monitor Model/HaSyncSpec.v).
   The monitor's state is a projection [abs] of the Model's state ([snext_abs]); clauses 0 and 1 hold
   at every step from every state; clause 2 follows from the invariant [inv]: for every session id,
   the last message about it still queued (stream, then pending queue) carries the active's current
   entry, and if none is queued the standby's entry equals the active's. *)
From Coq Require Import ZArith NArith List Bool Lia ZifyN ZifyNat ZifyBool.
From Verif Require Import Base.Check Model.HaSync Model.HaSyncSpec.
Import ListNotations.
Local Open Scope N_scope.

Definition abs (s : state) : sstate := mkSS (pend s) (cq s) (sby s) (lnk s).
Definition nxt (c : config) (s : state) (o : op) : state := fst (fst (step c s o)).
Definition obs (c : config) (s : state) (o : op) : out := snd (fst (step c s o)).
Definition mks (c : config) (s : state) (o : op) : list N := snd (step c s o).

(* ---------- tables as maps ---------- *)
Lemma nth_tset_nil : forall i j x, nth j (tset [] i x) None = if Nat.eqb i j then x else None.
Proof.
  induction i as [|i IH]; intros j x; destruct j as [|j]; cbn; auto; destruct j; auto.
Qed.
Lemma nth_tset : forall t i j x, nth j (tset t i x) None = if Nat.eqb i j then x else nth j t None.
Proof.
  induction t as [|y t IH]; intros i j x.
  - rewrite nth_tset_nil. destruct (Nat.eqb i j); auto. destruct j; auto.
  - destruct i, j; cbn; auto.
Qed.

Lemma forallb_isnone_nth : forall t, forallb isnone t = true <-> forall i, nth i t None = None.
Proof.
  induction t as [|x t IH]; cbn; split; intros H.
  - intros []; auto.
  - auto.
  - apply andb_true_iff in H. destruct H as [Hx Ht]. intros [|i]; cbn.
    + destruct x; auto; discriminate.
    + apply IH; auto.
  - apply andb_true_iff. split.
    + specialize (H O). cbn in H. now subst.
    + apply IH. intros i. apply (H (S i)).
Qed.

Lemma oeqb_eq a b : oeqb a b = true <-> a = b.
Proof.
  destruct a, b; cbn; split; intros H; try congruence; try discriminate.
  - apply N.eqb_eq in H. congruence.
  - injection H as ->. apply N.eqb_refl.
Qed.

Lemma nth_nil_none : forall i, nth i (@nil (option N)) None = None.
Proof. destruct i; auto. Qed.

Lemma teqb_spec : forall a b, teqb a b = true <-> forall i, nth i a None = nth i b None.
Proof.
  induction a as [|x a IH]; intros b.
  - change (teqb [] b) with (forallb isnone b). rewrite forallb_isnone_nth.
    split; intros H i; [rewrite nth_nil_none; symmetry; apply H | specialize (H i); rewrite nth_nil_none in H; auto].
  - destruct b as [|y b].
    + change (teqb (x :: a) []) with (forallb isnone (x :: a)). rewrite forallb_isnone_nth.
      split; intros H i; [rewrite nth_nil_none; apply H | specialize (H i); rewrite nth_nil_none in H; auto].
    + cbn. rewrite andb_true_iff, oeqb_eq, IH. split.
      * intros [-> H] [|i]; cbn; auto.
      * intros H. split; [apply (H O) | intros i; apply (H (S i))].
Qed.

Lemma teqb_refl a : teqb a a = true. Proof. apply teqb_spec; auto. Qed.

Lemma nth_fsync : forall snap old i, nth i (fsync snap old) None = nth i snap None.
Proof.
  induction snap as [|s snap IH]; intros old i; cbn.
  - revert i. induction old as [|y old IHo]; intros i; destruct i; cbn; auto.
    rewrite IHo. apply nth_nil_none.
  - destruct i; cbn; auto.
Qed.

Lemma msg_eqb_refl m : msg_eqb m m = true.
Proof. destruct m; cbn; rewrite ?N.eqb_refl; auto. Qed.

(* ---------- monitor state is a projection of the Model state ---------- *)
Ltac unf := unfold step_core, push, bcast.
Ltac dm := match goal with
  | |- context [match ?x with _ => _ end] =>
      lazymatch x with context [match _ with _ => _ end] => fail | _ => destruct x eqn:? end
  end.
Ltac start s o := destruct s as [a sb rc sq pe q lk]; destruct o; unf; cbn.

Lemma snext_abs : forall c s o, snext (abs s) o (obs c s o) = abs (nxt c s o).
Proof.
  intros c s o. unfold obs, nxt, step. start s o.
  all: repeat (dm; cbn); unfold abs, snext; cbn; try reflexivity.
Qed.

(* ---------- clauses 0 and 1: every step, from every state ---------- *)
Lemma step_v0 : forall c s o, v0 o (obs c s o) = false.
Proof.
  intros c s o. unfold v0, obs, step. start s o.
  all: repeat (dm; cbn); try reflexivity; try congruence.
  all: rewrite teqb_refl, ?andb_true_r; cbn.
  all: apply negb_false_iff, teqb_spec; intros i; apply nth_fsync.
Qed.

Lemma step_v1 : forall c s o, v1 (abs s) o (obs c s o) = false.
Proof.
  intros c s o. unfold v1, obs, step. start s o.
  all: repeat (dm; cbn); try reflexivity; try congruence; rewrite ?teqb_refl, ?msg_eqb_refl; try reflexivity.
Qed.

Lemma step_v9 : forall c s o, v9 o (obs c s o) = false.
Proof.
  intros c s o. unfold v9, obs, step. start s o.
  all: repeat (dm; cbn); try reflexivity; try congruence.
Qed.

(* clause 3 is violated only at steps where the Model raises marker 1303 *)
Lemma step_v3 : forall c s o, mks c s o = [] -> v3 (abs s) (obs c s o) = false.
Proof.
  intros c s o. unfold v3, obs, mks, step. start s o.
  all: repeat (dm; cbn); try reflexivity; try congruence; try discriminate.
Qed.

(* ---------- clause 2: convergence invariant ---------- *)
Definition eff_on (id : N) (m : msg) : option (option N) :=
  match m with
  | MPut i v _ => if i =? id then Some (Some v) else None
  | MDel i _ => if i =? id then Some None else None
  | MHb => None
  end.
(* effect on [id] of the last message about [id] in a queue (head = oldest) *)
Fixpoint last_eff (id : N) (ms : list msg) : option (option N) :=
  match ms with
  | [] => None
  | m :: tl => match last_eff id tl with Some e => Some e | None => eff_on id m end
  end.

Lemma last_eff_app id : forall a b,
  last_eff id (a ++ b) = match last_eff id b with Some e => Some e | None => last_eff id a end.
Proof.
  induction a as [|m a IH]; intros b; cbn.
  - destruct (last_eff id b); auto.
  - rewrite IH. destruct (last_eff id b); auto.
Qed.
Lemma last_eff_snoc id l m :
  last_eff id (l ++ [m]) = match eff_on id m with Some e => Some e | None => last_eff id l end.
Proof. rewrite last_eff_app. cbn. destruct (eff_on id m); auto. Qed.

Lemma lookup_tset t i x j : lookup (tset t (N.to_nat i) x) j = if i =? j then x else lookup t j.
Proof.
  unfold lookup. rewrite nth_tset. destruct (N.eqb_spec i j) as [->|Hn].
  - now rewrite Nat.eqb_refl.
  - destruct (Nat.eqb_spec (N.to_nat i) (N.to_nat j)) as [E|E]; auto. apply N2Nat.inj in E. contradiction.
Qed.

Lemma lookup_apply m t j :
  lookup (apply_msg m t) j = match eff_on j m with Some e => e | None => lookup t j end.
Proof. destruct m; unfold apply_msg, eff_on; auto; rewrite lookup_tset; destruct (id =? j); auto. Qed.

Definition formp (a : table) (l : list msg) : Prop :=
  forall j, match last_eff j l with Some e => lookup a j = e | None => True end.
Definition formq (sb a : table) (l : list msg) : Prop :=
  forall j, match last_eff j l with Some e => lookup a j = e | None => lookup sb j = lookup a j end.
Definition upd_ok (a a' : table) (m : msg) : Prop :=
  forall j, match eff_on j m with Some e => lookup a' j = e | None => lookup a' j = lookup a j end.

Lemma upd_put a i v s : upd_ok a (tset a (N.to_nat i) (Some v)) (MPut i v s).
Proof. intros j. unfold eff_on. rewrite lookup_tset. destruct (i =? j); auto. Qed.
Lemma upd_del a i s : upd_ok a (tset a (N.to_nat i) None) (MDel i s).
Proof. intros j. unfold eff_on. rewrite lookup_tset. destruct (i =? j); auto. Qed.

Lemma formp_snoc a a' l m : formp a l -> upd_ok a a' m -> formp a' (l ++ [m]).
Proof.
  intros H U j. rewrite last_eff_snoc. specialize (U j). specialize (H j).
  destruct (eff_on j m); auto. destruct (last_eff j l); auto. congruence.
Qed.
Lemma formq_snoc sb a a' l m : formq sb a l -> upd_ok a a' m -> formq sb a' (l ++ [m]).
Proof.
  intros H U j. rewrite last_eff_snoc. specialize (U j). specialize (H j).
  destruct (eff_on j m); auto. destruct (last_eff j l); congruence.
Qed.
Lemma formp_same a a' l : formp a l -> (forall j, lookup a' j = lookup a j) -> formp a' l.
Proof. intros H E j. specialize (H j). destruct (last_eff j l); auto. now rewrite E. Qed.
Lemma formp_tl a m l : formp a (m :: l) -> formp a l.
Proof. intros H j. specialize (H j). cbn in H. destruct (last_eff j l); auto. Qed.
Lemma formq_deliver sb a m l : formq sb a (m :: l) -> formq (apply_msg m sb) a l.
Proof.
  intros H j. specialize (H j). cbn in H. rewrite lookup_apply.
  destruct (last_eff j l); auto. destruct (eff_on j m); auto.
Qed.
Lemma last_eff_hb j q pe : last_eff j ((q ++ [MHb]) ++ pe) = last_eff j (q ++ pe).
Proof. rewrite !last_eff_app. cbn. reflexivity. Qed.
Lemma formq_of_formp sb a l : formp a l -> (forall j, lookup sb j = lookup a j) -> formq sb a l.
Proof. intros H E j. specialize (H j). destruct (last_eff j l); auto. Qed.

Definition inv (s : state) : Prop :=
  formp (act s) (pend s) /\
  (lnk s <> LStreaming -> cq s = []) /\
  (lnk s <> LDown -> formq (sby s) (act s) (cq s ++ pend s)).

Lemma inv_init : inv init.
Proof. repeat split; cbn; auto; try congruence. Qed.

Lemma step_inv : forall c s o, mks c s o = [] -> inv s -> inv (nxt c s o).
Proof.
  intros c s o. unfold mks, nxt, inv, step.
  destruct s as [a sb rc sq pe q lk]. destruct o; unf; cbn.
  - (* Put *) destruct (len pe <? c_pcap c); cbn; [|discriminate]. intros _ (HP & HC & HQ).
    split; [|split]; auto.
    + eapply formp_snoc; eauto using upd_put.
    + intros HL. rewrite app_assoc. eapply formq_snoc; eauto using upd_put.
  - (* Del *) destruct (len pe <? c_pcap c); cbn; [|discriminate]. intros _ (HP & HC & HQ).
    split; [|split]; auto.
    + eapply formp_snoc; eauto using upd_del.
    + intros HL. rewrite app_assoc. eapply formq_snoc; eauto using upd_del.
  - (* Broadcast *) destruct pe as [|m tl]; cbn; auto. destruct lk; cbn.
    + intros _ (HP & HC & HQ). split; [|split]; [eapply formp_tl; eauto | auto | congruence].
    + discriminate.
    + destruct (len q <? c_ccap c); cbn; [|discriminate]. intros _ (HP & HC & HQ).
      split; [|split]; [eapply formp_tl; eauto | congruence | intros HL; rewrite <- app_assoc; cbn; auto].
  - (* Heartbeat *) destruct lk; cbn; auto.
    destruct (len q <? c_ccap c); cbn; auto. intros _ (HP & HC & HQ).
    split; [|split]; [auto | congruence | intros HL j; rewrite last_eff_hb; apply HQ; auto].
  - (* FullSync *) destruct lk; cbn; auto; intros _ (HP & HC & HQ); (split; [|split]; auto).
    all: try (intros _; rewrite HC by congruence; cbn; apply formq_of_formp; auto; intros j; apply nth_fsync).
    all: intros _; apply HC; congruence.
  - (* Attach *) destruct lk; cbn; auto. intros _ (HP & HC & HQ).
    split; [|split]; auto; try congruence. intros _. rewrite HC in HQ by congruence. apply HQ. congruence.
  - (* Deliver *) destruct lk; cbn; auto. destruct q as [|m tl]; cbn; auto. intros _ (HP & HC & HQ).
    split; [|split]; auto; try congruence. intros _. apply formq_deliver. apply HQ. congruence.
  - (* Disconnect *) destruct lk; cbn; auto; intros _ (HP & HC & HQ); (split; [|split]; auto; congruence).
Qed.

Lemma len_zero {A} (l : list A) : len l = 0 -> l = [].
Proof. destruct l; cbn; auto. unfold len. cbn. lia. Qed.

Lemma v2_of_inv s r : inv s -> v2 (observe s r) = false.
Proof.
  intros (HP & HC & HQ). unfold v2, observe. cbn. destruct (lnk s) eqn:EL; auto.
  destruct (len (pend s) =? 0) eqn:E1; auto. destruct (len (cq s) =? 0) eqn:E2; auto. cbn.
  apply N.eqb_eq, len_zero in E1. apply N.eqb_eq, len_zero in E2.
  apply negb_false_iff, teqb_spec. intros i.
  assert (HL : LStreaming <> LDown) by discriminate. specialize (HQ HL (N.of_nat i)).
  rewrite E1, E2 in HQ. cbn in HQ. unfold lookup in HQ. now rewrite Nat2N.id in HQ.
Qed.

(* ---------- the monitor over whole runs ---------- *)
Lemma filter_flag (m : N -> bool) b k : filter m (flag b k) = if b && m k then [k] else [].
Proof. destruct b; cbn; auto. Qed.

Lemma filter_only k ss o ob :
  In k [0; 1; 2; 3; 9] ->
  filter (only k) (viol ss o ob) =
  flag (match k with 0 => v0 o ob | 1 => v1 ss o ob | 2 => v2 ob | 3 => v3 ss ob | _ => v9 o ob end) k.
Proof.
  intros Hk. unfold viol. rewrite !filter_app, !filter_flag. unfold only.
  cbn in Hk. repeat (destruct Hk as [<- | Hk]; [cbn; rewrite ?andb_false_r, ?andb_true_r; cbn;
     rewrite ?app_nil_r; unfold flag; reflexivity|]). destruct Hk.
Qed.

Lemma obs_observe c s o : exists r, obs c s o = observe (nxt c s o) r.
Proof. unfold obs, nxt, step. destruct (step_core c s o) as [[s1 r] mk]. cbn. eauto. Qed.

(* generic: an invariant I preserved by the steps the guard G allows, and implying that no clause
   selected by m is violated, gives monitor = None on every guarded run *)
Lemma monitor_gen (m : N -> bool) (G : config -> state -> op -> bool) (I : state -> Prop) c :
  (forall s o, I s -> G c s o = true ->
               I (nxt c s o) /\ filter m (viol (abs s) o (obs c s o)) = []) ->
  forall ops s, I s ->
    (fix g s ops := match ops with [] => true | o :: tl => G c s o && g (nxt c s o) tl end) s ops = true ->
    monitor m c s (abs s) ops = None.
Proof.
  intros Hstep. induction ops as [|o tl IH]; intros s HI HG; [reflexivity|].
  apply andb_true_iff in HG. destruct HG as [HP HG].
  destruct (Hstep s o HI HP) as [HI' HV].
  cbn. pose proof (snext_abs c s o) as HS. unfold obs, nxt in *.
  destruct (step c s o) as [[s' ob] mk]. cbn in *. unfold accept_m. rewrite HV, HS. apply IH; auto.
Qed.

Definition g_all (_ : config) (_ : state) (_ : op) : bool := true.
Definition g_quiet (c : config) (s : state) (o : op) : bool :=
  match mks c s o with [] => true | _ => false end.

Lemma g_all_run c : forall ops s,
  (fix g s ops := match ops with [] => true | o :: tl => g_all c s o && g (nxt c s o) tl end) s ops = true.
Proof. induction ops; cbn; auto. Qed.

Lemma lossless_run c : forall ops s, lossless c s ops = true ->
  (fix g s ops := match ops with [] => true | o :: tl => g_quiet c s o && g (nxt c s o) tl end) s ops = true.
Proof.
  induction ops as [|o tl IH]; intros s H; auto. cbn in H. unfold g_quiet, mks, nxt.
  destruct (step c s o) as [[s' ob] mk]. cbn. destruct mk; [|discriminate]. cbn. apply IH; auto.
Qed.

Lemma sinit_abs : sinit = abs init. Proof. reflexivity. Qed.

Theorem mon_after_full_sync_equal : forall c ops, monitor (only 0) c init sinit ops = None.
Proof.
  intros. rewrite sinit_abs. apply (monitor_gen (only 0) g_all (fun _ => True)); auto using g_all_run.
  intros s o _ _. split; auto. rewrite filter_only by (cbn; auto). now rewrite step_v0.
Qed.

Theorem mon_stream_applies_in_order : forall c ops, monitor (only 1) c init sinit ops = None.
Proof.
  intros. rewrite sinit_abs. apply (monitor_gen (only 1) g_all (fun _ => True)); auto using g_all_run.
  intros s o _ _. split; auto. rewrite filter_only by (cbn; auto). now rewrite step_v1.
Qed.

Theorem mon_quiescent_convergence_partial : forall c ops,
  lossless c init ops = true -> monitor (only 2) c init sinit ops = None.
Proof.
  intros c ops G. rewrite sinit_abs.
  apply (monitor_gen (only 2) g_quiet inv); auto using inv_init, lossless_run.
  intros s o HI HG. unfold g_quiet in HG. destruct (mks c s o) eqn:EM; [|discriminate].
  pose proof (step_inv c s o EM HI) as HI'. split; auto.
  rewrite filter_only by (cbn; tauto). destruct (obs_observe c s o) as (r & ->). now rewrite v2_of_inv.
Qed.

Theorem mon_no_change_lost_partial : forall c ops,
  lossless c init ops = true -> monitor (only 3) c init sinit ops = None.
Proof.
  intros c ops G. rewrite sinit_abs.
  apply (monitor_gen (only 3) g_quiet (fun _ => True)); auto using lossless_run.
  intros s o _ HG. unfold g_quiet in HG. destruct (mks c s o) eqn:EM; [|discriminate].
  split; auto. rewrite filter_only by (cbn; tauto). now rewrite step_v3.
Qed.

Theorem mon_all_partial : forall c ops,
  lossless c init ops = true -> monitor (fun _ => true) c init sinit ops = None.
Proof.
  intros c ops G. rewrite sinit_abs.
  apply (monitor_gen (fun _ => true) g_quiet inv); auto using inv_init, lossless_run.
  intros s o HI HG. unfold g_quiet in HG. destruct (mks c s o) eqn:EM; [|discriminate].
  pose proof (step_inv c s o EM HI) as HI'. split; auto.
  assert (E : forall l, filter (fun _ : N => true) l = l) by (induction l; cbn; congruence).
  rewrite E. unfold viol. rewrite step_v0, step_v1, step_v3, step_v9 by auto.
  destruct (obs_observe c s o) as (r & ->). rewrite v2_of_inv by auto. reflexivity.
Qed.

(* plain form of the convergence clause on reachable states *)
Lemma run_inv c : forall ops s, lossless c s ops = true -> inv s -> inv (run c s ops).
Proof.
  induction ops as [|o tl IH]; intros s H HI; auto. cbn in H. cbn.
  pose proof (step_inv c s o) as HS. unfold mks, nxt in HS.
  destruct (step c s o) as [[s' ob] mk]. cbn in *. destruct mk; [|discriminate]. apply IH; auto.
Qed.

Theorem quiescent_tables_equal : forall c ops,
  lossless c init ops = true ->
  let s := run c init ops in
  lnk s = LStreaming -> pend s = [] -> cq s = [] -> forall id, lookup (sby s) id = lookup (act s) id.
Proof.
  intros c ops G s HL HP HQ id. destruct (run_inv c ops init G inv_init) as (_ & _ & H).
  fold s in H. rewrite HL, HP, HQ in H. specialize (H ltac:(discriminate) id). exact H.
Qed.

Theorem full_sync_copies_snapshot : forall c s,
  lnk s <> LStreaming ->
  forall id, lookup (sby (nxt c s FullSync)) id = lookup (act s) id /\
             lookup (rcv (nxt c s FullSync)) id = lookup (act s) id.
Proof.
  intros c s HL id. unfold nxt, step. cbn. destruct (lnk s); try congruence; cbn; split; auto; apply nth_fsync.
Qed.

Lemma monitor_is_check m c : forall ops s ss i,
  monitor m c s ss ops = None ->
  accept_trace (accept_m m) i ss
    (map (fun x => (fst (fst x), snd (fst x))) (model_trace (step c) s ops)) = (0, 0).
Proof.
  induction ops as [|o tl IH]; intros s ss i H; [reflexivity|].
  cbn in *. destruct (step c s o) as [[s' ob] mk]. cbn.
  destruct (accept_m m ss o ob); [apply IH; auto | discriminate].
Qed.

(* ---------- refutations ---------- *)
Definition cfg_real : config := Build_config 1000 101.
(* a change broadcast between the full sync and the stream attach is lost *)
Definition w_gap : list op := [FullSync; Put 0 1; Broadcast; Attach].
(* 102 changes broadcast into a stream nobody reads: the last one is dropped *)
Definition w_overflow : list op :=
  [FullSync; Attach] ++ repeat (Put 0 1) 102 ++ repeat Broadcast 102.
Definition w_overflow_diverge : list op :=
  [FullSync; Attach] ++ repeat (Put 0 1) 101 ++ [Put 1 7] ++ repeat Broadcast 102 ++ repeat Deliver 101.

Theorem quiescent_convergence_refuted : exists c ops, monitor (only 2) c init sinit ops = Some 2.
Proof. exists cfg_real, w_gap. vm_compute. reflexivity. Qed.
Theorem quiescent_convergence_refuted_overflow : exists c ops, monitor (only 2) c init sinit ops = Some 2.
Proof. exists cfg_real, w_overflow_diverge. vm_compute. reflexivity. Qed.
Theorem no_change_lost_refuted : exists c ops, monitor (only 3) c init sinit ops = Some 3.
Proof. exists cfg_real, w_overflow. vm_compute. reflexivity. Qed.

(* non-vacuity: a lossless history with adds, an update, deletes while away, reconnection, that ends
   quiescent with a non-empty table *)
Definition h_ok : list op :=
  [Put 0 1; Put 1 1; Broadcast; FullSync; Attach; Broadcast; Deliver; Put 0 2; Broadcast; Deliver;
   Disconnect; Del 1; Put 2 5; Broadcast; Broadcast; FullSync; Attach; Put 3 1; Del 3; Broadcast;
   Broadcast; Deliver; Deliver].
Lemma h_ok_facts :
  lossless cfg_real init h_ok = true /\ lnk (run cfg_real init h_ok) = LStreaming /\
  pend (run cfg_real init h_ok) = [] /\ cq (run cfg_real init h_ok) = [] /\
  sby (run cfg_real init h_ok) = [Some 2; None; Some 5; None].
Proof. vm_compute. repeat split; reflexivity. Qed.
