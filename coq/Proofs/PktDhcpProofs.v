(* C07 for bpf/dhcp_fastpath.c (Model/XdpDhcpPkt.v) *)
From Coq Require Import NArith List Bool Lia ZifyN ZifyNat ZifyBool.
From Verif Require Import Base.Word Model.PktMonad Model.XdpDhcpPkt Proofs.PktMonadProofs.
Import ListNotations.
Local Open Scope N_scope.

(* ---- the loops *)
Lemma inb_copy_bytes n k src dst : src + N.of_nat k <= n -> dst + N.of_nat k <= n -> inb n (copy_bytes k src dst).
Proof.
  revert src dst; induction k as [|k IH]; intros src dst H1 H2; cbn [copy_bytes]; [apply inb_ret|].
  apply inb_bind; [apply inb_rd8; lia|intro b]. apply inb_bind; [apply inb_wr8; lia|intros _]. apply IH; lia.
Qed.
Lemma inb_is_zero_bytes n k off : off + N.of_nat k <= n -> inb n (is_zero_bytes k off).
Proof.
  revert off; induction k as [|k IH]; intros off H; cbn [is_zero_bytes]; [apply inb_ret|].
  apply inb_bind; [apply inb_rd8; lia|intro b]. destruct (negb (b =? 0)); [apply inb_ret|apply IH; lia].
Qed.
Lemma inb_rd_cid n k i cid_len off : off + cid_len <= n -> inb n (rd_cid k i cid_len off).
Proof.
  revert i; induction k as [|k IH]; intros i H; cbn [rd_cid]; [apply inb_ret|].
  apply inb_bind.
  - destruct (i <? cid_len) eqn:E; [apply inb_rd8; lia|apply inb_ret].
  - intro b. apply inb_bind; [apply IH; lia|intro; apply inb_ret].
Qed.
Lemma inb_cid_scan n k pos opts : opts + 64 <= n -> pos + N.of_nat k <= 20 -> inb n (cid_scan k pos opts n).
Proof.
  revert pos; induction k as [|k IH]; intros pos H1 H2; cbn [cid_scan]; [apply inb_ret|].
  assert (IH' : inb n (cid_scan k (pos + 1) opts n)) by (apply IH; lia).
  inb_go; try exact IH'.
  all: try (apply inb_bind; [apply inb_rd_cid; lia|intro; apply inb_ret]).
Qed.
Lemma inb_sum16 n k off : off + 2 * N.of_nat k <= n -> inb n (sum16 k off).
Proof.
  revert off; induction k as [|k IH]; intros off H; cbn [sum16]; [apply inb_ret|].
  apply inb_bind; [apply inb_rd16; lia|intro w]. apply inb_bind; [apply IH; lia|intro; apply inb_ret].
Qed.

Lemma inb_adjust n e dl t : inb n (adjust_and_return e dl t).
Proof. intros f _. unfold adjust_and_return. destruct (t =? u16t dl); [exact I|]. destruct (adjust_ok e dl _); exact I. Qed.

Ltac inb_extra ::=
  first [ apply inb_copy_bytes; pkt_arith
        | apply inb_is_zero_bytes; pkt_arith
        | apply inb_sum16; pkt_arith
        | apply inb_adjust
        | apply inb_rd_cid; pkt_arith
        | apply inb_cid_scan; pkt_arith ].

Lemma inb_dhcp mp e n : inb n (dhcp_body mp e n).
Proof.
  unfold dhcp_body, get_dhcp_msg_type, extract_circuit_id_fixed, build_dhcp_options, ip_checksum.
  cbv zeta beta. inb_go.
  Show.
Qed.
