(* C07 for bpf/dhcp_fastpath.c (Model/XdpDhcpPkt.v) *)
From Coq Require Import NArith List Bool Lia ZifyN ZifyNat ZifyBool.
From Verif Require Import Base.Word Model.PktMonad Model.XdpDhcpPkt Proofs.PktMonadProofs.
Import ListNotations.
Local Open Scope N_scope.

(* ---- the loops *)
Lemma inb_copy_bytes n k src dst : src + N.of_nat k <= n -> dst + N.of_nat k <= n -> inb n (copy_bytes k src dst).
Proof.
  revert src dst; induction k as [|k IH]; intros src dst H1 H2; cbn [copy_bytes]; [apply inb_ret|].
  apply inb_bind; [apply inb_rd8; lia|intro b]. apply inb_bind; [apply inb_wr8; lia|intros _]. apply IH; lia.
Qed.
Lemma inb_is_zero_bytes n k off : off + N.of_nat k <= n -> inb n (is_zero_bytes k off).
Proof.
  revert off; induction k as [|k IH]; intros off H; cbn [is_zero_bytes]; [apply inb_ret|].
  apply inb_bind; [apply inb_rd8; lia|intro b]. destruct (negb (b =? 0)); [apply inb_ret|apply IH; lia].
Qed.
Lemma inb_rd_cid n k i cid_len off : off + cid_len <= n -> inb n (rd_cid k i cid_len off).
Proof.
  revert i; induction k as [|k IH]; intros i H; cbn [rd_cid]; [apply inb_ret|].
  apply inb_bind.
  - destruct (i <? cid_len) eqn:E; [apply inb_rd8; lia|apply inb_ret].
  - intro b. apply inb_bind; [apply IH; lia|intro; apply inb_ret].
Qed.
Lemma inb_cid_scan n k pos opts : opts + 64 <= n -> pos + N.of_nat k <= 20 -> inb n (cid_scan k pos opts n).
Proof.
  revert pos; induction k as [|k IH]; intros pos H1 H2; cbn [cid_scan]; [apply inb_ret|].
  assert (IH' : inb n (cid_scan k (pos + 1) opts n)) by (apply IH; lia).
  inb_go; try exact IH'.
  all: try (apply inb_bind; [apply inb_rd_cid; lia|intro; apply inb_ret]).
Qed.
Lemma inb_sum16 n k off : off + 2 * N.of_nat k <= n -> inb n (sum16 k off).
Proof.
  revert off; induction k as [|k IH]; intros off H; cbn [sum16]; [apply inb_ret|].
  apply inb_bind; [apply inb_rd16; lia|intro w]. apply inb_bind; [apply IH; lia|intro; apply inb_ret].
Qed.

Lemma inb_adjust n e dl t : inb n (adjust_and_return e dl t).
Proof. intros f _. unfold adjust_and_return. destruct (t =? u16t dl); [exact I|]. destruct (adjust_ok e dl _); exact I. Qed.

Lemma inb_get_msg_type n dh : inb n (get_dhcp_msg_type dh n).
Proof. unfold get_dhcp_msg_type. cbv zeta. inb_go. Qed.

Ltac inb_extra ::=
  first [ apply inb_copy_bytes; pkt_arith
        | apply inb_is_zero_bytes; pkt_arith
        | apply inb_sum16; pkt_arith
        | apply inb_adjust
        | apply inb_rd_cid; pkt_arith
        | apply inb_cid_scan; pkt_arith
        | apply inb_get_msg_type ].

Lemma inb_extract_cid n dh : inb n (extract_circuit_id_fixed dh n).
Proof. unfold extract_circuit_id_fixed. cbv zeta. inb_gom. Qed.

Lemma inb_build_opts n opt mt pool sip : opt + 64 <= n -> inb n (build_dhcp_options opt n mt pool sip).
Proof. intro H. unfold build_dhcp_options. cbv zeta beta. inb_go. Qed.

Ltac inb_extra ::=
  first [ apply inb_copy_bytes; pkt_arith
        | apply inb_is_zero_bytes; pkt_arith
        | apply inb_sum16; pkt_arith
        | apply inb_adjust
        | apply inb_get_msg_type
        | apply inb_extract_cid
        | apply inb_build_opts; pkt_arith ].

Lemma inb_dhcp mp e n : inb n (dhcp_body mp e n).
Proof.
  unfold dhcp_body, ip_checksum. cbv zeta. inb_gom.
Qed.

Theorem no_oob_dhcp : forall mp e f, run (dhcp_fastpath_prog mp e) f <> Fault.
Proof. intros. apply inb_run. unfold dhcp_fastpath_prog. apply (inb_dl _ (dhcp_body mp e)). apply inb_dhcp. Qed.

(* ---- read-only blocks *)
Lemma pu_is_zero_bytes f0 Act k off : pu f0 Act (is_zero_bytes k off).
Proof.
  revert off; induction k as [|k IH]; intros off; cbn [is_zero_bytes]; [apply pu_ret|].
  apply pu_bind; [apply pu_rd8|intro b]. destruct (negb (b =? 0)); [apply pu_ret|apply IH].
Qed.
Lemma pu_rd_cid f0 Act k i cid_len off : pu f0 Act (rd_cid k i cid_len off).
Proof.
  revert i; induction k as [|k IH]; intros i; cbn [rd_cid]; [apply pu_ret|].
  apply pu_bind; [destruct (i <? cid_len); [apply pu_rd8|apply pu_ret]|intro b].
  apply pu_bind; [apply IH|intro; apply pu_ret].
Qed.
Ltac pu_extra ::= first [apply pu_is_zero_bytes|apply pu_rd_cid].
Lemma pu_cid_scan f0 Act k pos opts dl : pu f0 Act (cid_scan k pos opts dl).
Proof.
  revert pos; induction k as [|k IH]; intros pos; cbn [cid_scan]; [apply pu_ret|].
  pu_gom; apply IH.
Qed.
Lemma pu_get_msg_type f0 Act dh dl : pu f0 Act (get_dhcp_msg_type dh dl).
Proof. unfold get_dhcp_msg_type. cbv zeta. pu_gom. Qed.
Ltac pu_extra ::= first [apply pu_is_zero_bytes|apply pu_rd_cid|apply pu_cid_scan|apply pu_get_msg_type].
Lemma pu_extract_cid f0 Act dh dl : pu f0 Act (extract_circuit_id_fixed dh dl).
Proof. unfold extract_circuit_id_fixed. cbv zeta. pu_gom. Qed.
Ltac pu_extra ::= first [apply pu_is_zero_bytes|apply pu_get_msg_type|apply pu_extract_cid].

(* ---- after the first store: no XDP_PASS *)
Lemma np_copy_bytes P k src dst : np P (fun _ => True) (copy_bytes k src dst).
Proof.
  revert src dst; induction k as [|k IH]; intros src dst; cbn [copy_bytes]; [apply np_ret; exact I|].
  apply np_bind_prim; [apply np_rd8|intro b]. apply np_bind_prim; [apply np_wr8|intro; apply IH].
Qed.
Lemma np_is_zero_bytes P k off : np P (fun _ => True) (is_zero_bytes k off).
Proof.
  revert off; induction k as [|k IH]; intros off; cbn [is_zero_bytes]; [apply np_ret; exact I|].
  apply np_bind_prim; [apply np_rd8|intro b]. destruct (negb (b =? 0)); [apply np_ret; exact I|apply IH].
Qed.
Lemma np_sum16 P k off : np P (fun _ => True) (sum16 k off).
Proof.
  revert off; induction k as [|k IH]; intros off; cbn [sum16]; [apply np_ret; exact I|].
  apply np_bind_prim; [apply np_rd16|intro w]. apply np_bind_prim; [apply IH|intro; apply np_ret; exact I].
Qed.

Lemma u16t_small v : v < 65536 -> u16t v = v.
Proof. intro H. unfold u16t, M16. change 65535 with (N.ones 16). rewrite N.land_ones. apply N.mod_small. exact H. Qed.

Lemma np_adjust e n vo optlen :
  n < 65536 -> 14 + vo + 20 + 8 + 240 + 64 <= n -> optlen <= 64 ->
  np is_xdp_pass (fun v => is_xdp_pass v = false)
     (adjust_and_return e n (u16t (u16t (14 + vo) + u16t (20 + u16t (8 + u16t (240 + optlen)))))).
Proof.
  intros Hn Hroom Hopt f. unfold adjust_and_return.
  rewrite (u16t_small (240 + optlen)) by lia. rewrite (u16t_small (8 + _)) by lia.
  rewrite (u16t_small (20 + _)) by lia. rewrite (u16t_small (14 + vo)) by lia.
  rewrite (u16t_small (14 + vo + _)) by lia. rewrite (u16t_small n) by lia.
  destruct (_ =? n); [reflexivity|].
  replace (n - n + (14 + vo + (20 + (8 + (240 + optlen))))) with (14 + vo + (20 + (8 + (240 + optlen)))) by lia.
  unfold adjust_ok.
  replace (14 <=? _) with true by (symmetry; apply N.leb_le; lia).
  replace (14 + vo + (20 + (8 + (240 + optlen))) <=? n) with true by (symmetry; apply N.leb_le; lia).
  reflexivity.
Qed.

Ltac np_extra ::=
  first [ apply np_copy_bytes | apply np_is_zero_bytes | apply np_sum16
        | apply np_adjust; [assumption|pkt_arith|pkt_arith] ].

Lemma pq_dhcp mp e f0 : flen f0 < 65536 -> pq f0 (dhcp_body mp e (flen f0)).
Proof.
  intro Hlen. unfold dhcp_body. cbv zeta. pq_go.
  all: apply pq_np; unfold build_dhcp_options, ip_checksum; cbv zeta beta.
  np_go.
Qed.

(* Guard of the partial theorem: an XDP frame shorter than 64 KiB (every real one).  Beyond that the
   C's `(__u16)(data_end - data)` makes the program ask bpf_xdp_adjust_tail for the wrong delta. *)
Definition dhcp_guard (f : frame) : bool := flen f <? 65536.

Theorem pass_untouched_dhcp_partial : forall mp e f v f',
  dhcp_guard f = true -> run (dhcp_fastpath_prog mp e) f = Done v f' -> v = XDP_PASS -> f' = f.
Proof.
  intros mp e f v f' G H Hv. apply N.ltb_lt in G. eapply pq_run; [|exact H|exact Hv].
  unfold dhcp_fastpath_prog. apply (pq_dl _ (dhcp_body mp e)). apply pq_dhcp. exact G.
Qed.


(* ---- verdicts: XDP_PASS or XDP_TX *)
Definition xdp_pass_or_tx (v : N) : bool := (v =? XDP_PASS) || (v =? XDP_TX).

Lemma vd_copy_bytes S k src dst : vd S (copy_bytes k src dst).
Proof.
  revert src dst; induction k as [|k IH]; intros src dst; cbn [copy_bytes]; [apply vd_ret|].
  apply vd_bind; [apply vd_rd8|intro]. apply vd_bind; [apply vd_wr8|intro; apply IH].
Qed.
Lemma vd_is_zero_bytes S k off : vd S (is_zero_bytes k off).
Proof.
  revert off; induction k as [|k IH]; intros off; cbn [is_zero_bytes]; [apply vd_ret|].
  apply vd_bind; [apply vd_rd8|intro b]. destruct (negb (b =? 0)); [apply vd_ret|apply IH].
Qed.
Lemma vd_rd_cid S k i cid_len off : vd S (rd_cid k i cid_len off).
Proof.
  revert i; induction k as [|k IH]; intros i; cbn [rd_cid]; [apply vd_ret|].
  apply vd_bind; [destruct (i <? cid_len); [apply vd_rd8|apply vd_ret]|intro b].
  apply vd_bind; [apply IH|intro; apply vd_ret].
Qed.
Lemma vd_sum16 S k off : vd S (sum16 k off).
Proof.
  revert off; induction k as [|k IH]; intros off; cbn [sum16]; [apply vd_ret|].
  apply vd_bind; [apply vd_rd16|intro]. apply vd_bind; [apply IH|intro; apply vd_ret].
Qed.
Ltac vd_extra ::= first [apply vd_copy_bytes|apply vd_is_zero_bytes|apply vd_rd_cid|apply vd_sum16].
Lemma vd_cid_scan S k pos opts dl : vd S (cid_scan k pos opts dl).
Proof.
  revert pos; induction k as [|k IH]; intros pos; cbn [cid_scan]; [apply vd_ret|].
  vd_go; apply IH.
Qed.
Ltac vd_extra ::= first [apply vd_copy_bytes|apply vd_is_zero_bytes|apply vd_rd_cid|apply vd_sum16|apply vd_cid_scan].
Lemma vd_get_msg_type S dh dl : vd S (get_dhcp_msg_type dh dl).
Proof. unfold get_dhcp_msg_type. cbv zeta. vd_go. Qed.
Lemma vd_extract_cid S dh dl : vd S (extract_circuit_id_fixed dh dl).
Proof. unfold extract_circuit_id_fixed. cbv zeta. vd_go. Qed.
Lemma vd_build_opts opt dl mt pool sip : vd xdp_pass_or_tx (build_dhcp_options opt dl mt pool sip).
Proof. unfold build_dhcp_options. cbv zeta beta. vd_go. Qed.
Ltac vd_extra ::=
  first [apply vd_copy_bytes|apply vd_is_zero_bytes|apply vd_sum16|apply vd_get_msg_type|apply vd_extract_cid|apply vd_build_opts].

Lemma vdr_adjust e dl t : vdr xdp_pass_or_tx (adjust_and_return e dl t).
Proof. intro f. unfold adjust_and_return. destruct (t =? u16t dl); [reflexivity|]. destruct (adjust_ok e dl _); reflexivity. Qed.

Lemma vdr_dhcp mp e n : vdr xdp_pass_or_tx (dhcp_body mp e n).
Proof.
  unfold dhcp_body, ip_checksum. cbv zeta. vdr_gom.
  all: try apply vdr_adjust.
Qed.

Theorem verdict_dhcp : forall mp e f v f', run (dhcp_fastpath_prog mp e) f = Done v f' -> v = XDP_PASS \/ v = XDP_TX.
Proof.
  intros mp e f v f' H.
  assert (P : vdr xdp_pass_or_tx (dhcp_fastpath_prog mp e)) by (unfold dhcp_fastpath_prog; apply (vdr_dl _ (dhcp_body mp e)); intro; apply vdr_dhcp).
  apply (vdr_run _ _ _ _ _ P) in H. unfold xdp_pass_or_tx in H. apply orb_true_iff in H. rewrite !N.eqb_eq in H. exact H.
Qed.
