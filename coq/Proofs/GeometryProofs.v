(* Geometry theorems: in range and injective for every base / prefix-length combination. *)
From Coq Require Import NArith ZArith List Bool Lia ZifyN ZifyNat ZifyBool.
From Verif Require Import Model.Geometry.
Import ListNotations.
Local Open Scope N_scope.

Lemma pow2_pos n : 0 < 2 ^ n.
Proof. apply N.neq_0_lt_0. apply N.pow_nonzero. discriminate. Qed.

Lemma geo_wfb_ok g : geo_wfb g = true <-> geo_wf g.
Proof.
  unfold geo_wfb, geo_wf. rewrite !andb_true_iff, !N.leb_le, N.ltb_lt, N.eqb_eq. tauto.
Qed.

Lemma g_step_pos g : 0 < g_step g.
Proof. apply pow2_pos. Qed.

(* pool size = units * unit size *)
Lemma g_size_split g : g_ppl g <= g_pl g -> g_pl g <= g_bits g -> g_size g = g_total g * g_step g.
Proof.
  intros H1 H2. unfold g_size, g_total, g_step. rewrite <- N.pow_add_r. f_equal. lia.
Qed.

(* every unit lies inside the pool CIDR, entirely *)
Lemma addr_in_range g i : geo_wf g -> i < g_total g -> inside g (addr_of_index g i) (g_step g).
Proof.
  intros (H1 & H2 & _ & _) Hi. unfold inside, addr_of_index. rewrite (g_size_split g H1 H2).
  split; [lia|]. assert ((i + 1) * g_step g <= g_total g * g_step g) by (apply N.mul_le_mono_r; lia). lia.
Qed.

(* the pool CIDR itself lies inside the address space *)
Lemma pool_in_space g : geo_wf g -> g_base g + g_size g <= 2 ^ g_bits g.
Proof.
  intros (H1 & H2 & H3 & H4).
  assert (Hs : 0 < g_size g) by apply pow2_pos.
  assert (Hsp : 2 ^ g_bits g = 2 ^ g_ppl g * g_size g).
  { unfold g_size. rewrite <- N.pow_add_r. f_equal. lia. }
  pose proof (N.div_mod (g_base g) (g_size g) ltac:(lia)) as Hd. rewrite H4, N.add_0_r in Hd.
  set (k := g_base g / g_size g) in *. rewrite Hsp in *.
  assert (Hk : k < 2 ^ g_ppl g).
  { apply (N.mul_lt_mono_pos_l (g_size g)); [exact Hs|]. rewrite <- Hd. lia. }
  rewrite Hd. replace (g_size g * k + g_size g) with ((k + 1) * g_size g) by lia.
  apply N.mul_le_mono_r. lia.
Qed.

Lemma addr_below_space g i : geo_wf g -> i < g_total g -> addr_of_index g i + g_step g <= 2 ^ g_bits g.
Proof.
  intros Hw Hi. pose proof (addr_in_range g i Hw Hi) as [_ H]. pose proof (pool_in_space g Hw). lia.
Qed.

(* distinct indices give disjoint units *)
Lemma addr_disjoint g i j : i < j -> addr_of_index g i + g_step g <= addr_of_index g j.
Proof.
  intros Hij. unfold addr_of_index.
  assert ((i + 1) * g_step g <= j * g_step g) by (apply N.mul_le_mono_r; lia). lia.
Qed.

Lemma addr_injective g i j : addr_of_index g i = addr_of_index g j -> i = j.
Proof.
  intros H. pose proof (g_step_pos g).
  destruct (N.lt_trichotomy i j) as [Hlt|[Heq|Hgt]]; [|exact Heq|].
  - pose proof (addr_disjoint g i j Hlt). lia.
  - pose proof (addr_disjoint g j i Hgt). lia.
Qed.

(* getIndexByPrefix inverts getPrefixByIndex, also for every address inside the unit *)
Lemma index_of_addr_of g i d : i < g_total g -> d < g_step g ->
  index_of_addr g (addr_of_index g i + d) (g_pl g) = Some i.
Proof.
  intros Hi Hd. unfold index_of_addr, addr_of_index. rewrite N.eqb_refl. cbn [negb].
  destruct (N.ltb_spec (g_base g + i * g_step g + d) (g_base g)); [lia|].
  replace (g_base g + i * g_step g + d - g_base g) with (i * g_step g + d) by lia.
  pose proof (g_step_pos g).
  rewrite N.div_add_l by lia. rewrite N.div_small by assumption. rewrite N.add_0_r.
  destruct (N.leb_spec (g_total g) i); [lia|reflexivity].
Qed.

(* an accepted (address, length) lies inside the unit it is mapped to *)
Lemma index_of_addr_sound g a pl i : index_of_addr g a pl = Some i ->
  pl = g_pl g /\ i < g_total g /\ addr_of_index g i <= a /\ a < addr_of_index g i + g_step g.
Proof.
  unfold index_of_addr, addr_of_index.
  destruct (N.eqb_spec pl (g_pl g)); cbn [negb]; [|discriminate].
  destruct (N.ltb_spec a (g_base g)); [discriminate|].
  destruct (N.leb_spec (g_total g) ((a - g_base g) / g_step g)); [discriminate|].
  intros [= <-]. pose proof (g_step_pos g).
  pose proof (N.div_mod (a - g_base g) (g_step g) ltac:(lia)).
  pose proof (N.mod_lt (a - g_base g) (g_step g) ltac:(lia)).
  repeat split; try assumption; lia.
Qed.
