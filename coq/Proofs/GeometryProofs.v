(* Geometry theorems: in range and injective for every base / prefix-length combination. *)
From Coq Require Import NArith ZArith List Bool Lia ZifyN ZifyNat ZifyBool.
From Verif Require Import Model.Geometry.
Import ListNotations.
Local Open Scope N_scope.

Lemma pow2_pos n : 0 < 2 ^ n.
Proof. apply N.neq_0_lt_0. apply N.pow_nonzero. discriminate. Qed.

Lemma geo_wfb_ok g : geo_wfb g = true <-> geo_wf g.
Proof.
  unfold geo_wfb, geo_wf. rewrite !andb_true_iff, !N.leb_le, N.ltb_lt, N.eqb_eq. tauto.
Qed.

Lemma g_step_pos g : 0 < g_step g.
Proof. apply pow2_pos. Qed.

(* pool size = units * unit size *)
Lemma g_size_split g : g_ppl g <= g_pl g -> g_pl g <= g_bits g -> g_size g = g_total g * g_step g.
Proof.
  intros H1 H2. unfold g_size, g_total, g_step. rewrite <- N.pow_add_r. f_equal. lia.
Qed.

(* every unit lies inside the pool CIDR, entirely *)
Lemma addr_in_range g i : geo_wf g -> i < g_total g -> inside g (addr_of_index g i) (g_step g).
Proof.
  intros (H1 & H2 & _ & _) Hi. unfold inside, addr_of_index. rewrite (g_size_split g H1 H2).
  split; [lia|]. assert ((i + 1) * g_step g <= g_total g * g_step g) by (apply N.mul_le_mono_r; lia). lia.
Qed.

(* the pool CIDR itself lies inside the address space *)
Lemma pool_in_space g : geo_wf g -> g_base g + g_size g <= 2 ^ g_bits g.
Proof.
  intros (H1 & H2 & H3 & H4).
  assert (Hs : 0 < g_size g) by apply pow2_pos.
  assert (Hsp : 2 ^ g_bits g = 2 ^ g_ppl g * g_size g).
  { unfold g_size. rewrite <- N.pow_add_r. f_equal. lia. }
  pose proof (N.div_mod (g_base g) (g_size g) ltac:(lia)) as Hd. rewrite H4, N.add_0_r in Hd.
  set (k := g_base g / g_size g) in *. rewrite Hsp in *.
  assert (Hk : k < 2 ^ g_ppl g).
  { apply (N.mul_lt_mono_pos_l (g_size g)); [exact Hs|]. rewrite <- Hd. lia. }
  rewrite Hd. replace (g_size g * k + g_size g) with ((k + 1) * g_size g) by lia.
  apply N.mul_le_mono_r. lia.
Qed.

Lemma addr_below_space g i : geo_wf g -> i < g_total g -> addr_of_index g i + g_step g <= 2 ^ g_bits g.
Proof.
  intros Hw Hi. pose proof (addr_in_range g i Hw Hi) as [_ H]. pose proof (pool_in_space g Hw). lia.
Qed.

(* distinct indices give disjoint units *)
Lemma addr_disjoint g i j : i < j -> addr_of_index g i + g_step g <= addr_of_index g j.
Proof.
  intros Hij. unfold addr_of_index.
  assert ((i + 1) * g_step g <= j * g_step g) by (apply N.mul_le_mono_r; lia). lia.
Qed.

Lemma addr_injective g i j : addr_of_index g i = addr_of_index g j -> i = j.
Proof.
  intros H. pose proof (g_step_pos g).
  destruct (N.lt_trichotomy i j) as [Hlt|[Heq|Hgt]]; [|exact Heq|].
  - pose proof (addr_disjoint g i j Hlt). lia.
  - pose proof (addr_disjoint g j i Hgt). lia.
Qed.

(* getIndexByPrefix inverts getPrefixByIndex, also for every address inside the unit *)
Lemma index_of_addr_of g i d : i < g_total g -> d < g_step g ->
  index_of_addr g (addr_of_index g i + d) (g_pl g) = Some i.
Proof.
  intros Hi Hd. unfold index_of_addr, addr_of_index. rewrite N.eqb_refl. cbn [negb].
  destruct (N.ltb_spec (g_base g + i * g_step g + d) (g_base g)); [lia|].
  replace (g_base g + i * g_step g + d - g_base g) with (i * g_step g + d) by lia.
  pose proof (g_step_pos g).
  rewrite N.div_add_l by lia. rewrite N.div_small by assumption. rewrite N.add_0_r.
  destruct (N.leb_spec (g_total g) i); [lia|reflexivity].
Qed.

(* an accepted (address, length) lies inside the unit it is mapped to *)
Lemma index_of_addr_sound g a pl i : index_of_addr g a pl = Some i ->
  pl = g_pl g /\ i < g_total g /\ addr_of_index g i <= a /\ a < addr_of_index g i + g_step g.
Proof.
  unfold index_of_addr, addr_of_index.
  destruct (N.eqb_spec pl (g_pl g)); cbn [negb]; [|discriminate].
  destruct (N.ltb_spec a (g_base g)); [discriminate|].
  destruct (N.leb_spec (g_total g) ((a - g_base g) / g_step g)); [discriminate|].
  intros [= <-]. pose proof (g_step_pos g).
  pose proof (N.div_mod (a - g_base g) (g_step g) ltac:(lia)).
  pose proof (N.mod_lt (a - g_base g) (g_step g) ltac:(lia)).
  repeat split; try assumption; lia.
Qed.

(* ---- byte-wise addition without carry (epoch indexToIP, dhcp generateAvailableIPs, nexus) ---- *)
Lemma land3 a b o : N.land (N.land a o) (N.land b o) = N.land (N.land a b) o.
Proof. apply N.bits_inj. intros n. rewrite !N.land_spec. destruct (N.testbit a n), (N.testbit b n), (N.testbit o n); reflexivity. Qed.

(* two bytes without common bits add without carry *)
Lemma byte_add_nocarry a b : a < 256 -> b < 256 -> N.land a b = 0 -> a + b < 256.
Proof.
  intros Ha Hb Hl. rewrite (N.add_nocarry_lxor a b Hl).
  destruct (N.eq_dec (N.lxor a b) 0) as [->|Hnz]; [lia|].
  change 256 with (2 ^ 8). apply N.log2_lt_pow2; [lia|].
  eapply N.le_lt_trans; [apply N.log2_lxor|].
  apply N.max_lub_lt.
  - destruct (N.eq_dec a 0) as [->|Ha0]; [cbn; lia|]. apply N.log2_lt_pow2; [lia|exact Ha].
  - destruct (N.eq_dec b 0) as [->|Hb0]; [cbn; lia|]. apply N.log2_lt_pow2; [lia|exact Hb].
Qed.

(* one byte step *)
Lemma step_low a b : N.land a b = 0 -> N.land (a mod 256) (b mod 256) = 0.
Proof.
  intros H. change 256 with (2 ^ 8). rewrite <- !N.land_ones. rewrite land3, H. apply N.land_0_l.
Qed.
Lemma step_high a b : N.land a b = 0 -> N.land (a / 256) (b / 256) = 0.
Proof.
  intros H. change 256 with (2 ^ 8). rewrite <- !N.shiftr_div_pow2. rewrite <- N.shiftr_land, H. apply N.shiftr_0_l.
Qed.
Lemma step_div a b : N.land a b = 0 -> (a + b) / 256 = a / 256 + b / 256.
Proof.
  intros H. pose proof (byte_add_nocarry (a mod 256) (b mod 256)
    (N.mod_lt a 256 ltac:(lia)) (N.mod_lt b 256 ltac:(lia)) (step_low a b H)) as Hs.
  pose proof (N.div_mod a 256 ltac:(lia)) as Da. pose proof (N.div_mod b 256 ltac:(lia)) as Db.
  symmetry. apply (N.div_unique (a + b) 256 (a / 256 + b / 256) (a mod 256 + b mod 256)); [exact Hs|lia].
Qed.

Lemma byte_at_0 v : byte_at v 0 = v mod 256.
Proof. unfold byte_at. change (256 ^ 0) with 1. rewrite N.div_1_r. reflexivity. Qed.
Lemma byte_at_S v k : byte_at v (k + 1) = byte_at (v / 256) k.
Proof. unfold byte_at. rewrite N.pow_add_r, N.pow_1_r, N.mul_comm, <- N.div_div by (try apply N.pow_nonzero; lia). reflexivity. Qed.

(* byte k of a sum without common bits is the wrapped byte sum (which does not wrap) *)
Lemma byte_at_sum k : forall a b, N.land a b = 0 -> byte_at (a + b) k = badd (byte_at a k) (byte_at b k).
Proof.
  induction k as [|k IH] using N.peano_ind; intros a b H.
  - rewrite !byte_at_0. unfold badd. rewrite N.add_mod by lia. reflexivity.
  - rewrite <- N.add_1_r, !byte_at_S. rewrite (step_div a b H). apply IH. apply step_high. exact H.
Qed.

(* four-byte decomposition *)
Lemma bytes4 v : v < 4294967296 ->
  v = byte_at v 3 * 16777216 + byte_at v 2 * 65536 + byte_at v 1 * 256 + byte_at v 0.
Proof.
  intros Hv. replace (byte_at v 3) with (byte_at v (0 + 1 + 1 + 1)) by reflexivity.
  replace (byte_at v 2) with (byte_at v (0 + 1 + 1)) by reflexivity.
  replace (byte_at v 1) with (byte_at v (0 + 1)) by reflexivity.
  rewrite !byte_at_S, !byte_at_0.
  pose proof (N.div_mod v 256 ltac:(lia)) as D0. set (v1 := v / 256) in *.
  pose proof (N.div_mod v1 256 ltac:(lia)) as D1. set (v2 := v1 / 256) in *.
  pose proof (N.div_mod v2 256 ltac:(lia)) as D2. set (v3 := v2 / 256) in *.
  assert (H3 : v3 < 256).
  { subst v3 v2 v1. rewrite N.div_div by lia. rewrite N.div_div by lia. change (256 * 256 * 256) with 16777216.
    apply N.div_lt_upper_bound; [lia|]. change (16777216 * 256) with 4294967296. exact Hv. }
  rewrite (N.mod_small v3 256 H3). lia.
Qed.

(* base aligned to 2^k and an offset below 2^k have no common bits *)
Lemma aligned_disjoint base off k : base mod 2 ^ k = 0 -> off < 2 ^ k -> N.land base off = 0.
Proof.
  intros Hb Ho. apply N.bits_inj. intros n. rewrite N.land_spec, N.bits_0.
  destruct (N.lt_ge_cases n k) as [Hlt|Hge].
  - assert (Hbase : base = base / 2 ^ k * 2 ^ k).
    { pose proof (N.div_mod base (2 ^ k) ltac:(apply N.pow_nonzero; lia)). lia. }
    rewrite Hbase, N.mul_pow2_bits_low by exact Hlt. reflexivity.
  - assert (N.testbit off n = false); [|rewrite H; apply andb_false_r].
    destruct (N.eq_dec off 0) as [->|Hnz]; [apply N.bits_0|].
    apply N.bits_above_log2. eapply N.lt_le_trans; [|exact Hge]. apply N.log2_lt_pow2; [lia|exact Ho].
Qed.

(* the byte-wise addition without carry IS addition for every aligned base and in-pool offset *)
Lemma nocarry_is_addition base off k : k <= 32 -> base < 4294967296 -> base mod 2 ^ k = 0 -> off < 2 ^ k ->
  add_nocarry32 base off = base + off.
Proof.
  intros Hk Hbase Hal Hoff.
  assert (Ho32 : off < 4294967296).
  { eapply N.lt_le_trans; [exact Hoff|]. change 4294967296 with (2 ^ 32). apply N.pow_le_mono_r; lia. }
  assert (Hsum : base + off < 4294967296).
  { (* base + 2^k <= 2^32 because base is a multiple of 2^k below 2^32 *)
    assert (Hp : 0 < 2 ^ k) by (apply N.neq_0_lt_0, N.pow_nonzero; lia).
    pose proof (N.div_mod base (2 ^ k) ltac:(lia)) as Hd. rewrite Hal, N.add_0_r in Hd.
    assert (Hsp : 4294967296 = 2 ^ (32 - k) * 2 ^ k) by (rewrite <- N.pow_add_r; replace (32 - k + k) with 32 by lia; reflexivity).
    set (m := base / 2 ^ k) in *.
    assert (m < 2 ^ (32 - k)). { apply (N.mul_lt_mono_pos_l (2 ^ k)); [exact Hp|]. lia. }
    assert ((m + 1) * 2 ^ k <= 2 ^ (32 - k) * 2 ^ k) by (apply N.mul_le_mono_r; lia). lia. }
  pose proof (aligned_disjoint base off k Hal Hoff) as Hl.
  unfold add_nocarry32. rewrite (N.mod_small off 4294967296 Ho32).
  rewrite <- !(byte_at_sum _ base off Hl). symmetry. apply bytes4. exact Hsum.
Qed.
