(* C19: the upper bound at the level of the whole TC program (parse, map lookup, token_bucket_check, map
   write-back) over packet sequences, and end to end from the control plane (SetSubscriberQoS /
   SetSubscriberPolicy through a plan) to the bytes the data path admits. *)
From Coq Require Import ZArith NArith List Bool Lia ZifyN ZifyNat ZifyBool.
From Verif Require Import Base.Word Base.Check Model.TcQos Model.QosMgr Model.TcQosSpec Proofs.TcQosProofs.
Import ListNotations.
Local Open Scope N_scope.

(* the program run on the same frame at the (clock, skb->len) pairs of a sequence, map threaded through;
   result: final map and bytes admitted (verdict TC_ACT_OK) *)
Fixpoint prog_run (d : dir) (m : kvmap) (f : bytes) (pks : list (N * N)) : kvmap * N :=
  match pks with
  | [] => (m, 0)
  | (now, len) :: r =>
      let '(m1, v, _) := qos_prog d m f len now 0 in
      let '(m2, s) := prog_run d m1 f r in
      (m2, (match v with VRet x _ => if x =? TC_ACT_OK then len else 0 | VOob => 0 end) + s)
  end.
Definition prog_admitted_after (d : dir) (m : kvmap) (f : bytes) (pre win : list (N * N)) : N :=
  snd (prog_run d (fst (prog_run d m f pre)) f win).

Definition lens32 (pks : list (N * N)) : Prop := Forall (fun p => snd p < W32) pks.

Lemma land32 x : x < W32 -> N.land x 4294967295 = x.
Proof. intros H. change 4294967295 with (N.ones 32). rewrite N.land_ones. apply N.mod_small. exact H. Qed.

Lemma lookup_hit_decode d m f key v t : qos_lookup d m f = LHit key v t -> tb_decode v = Some t.
Proof.
  unfold qos_lookup. destruct (Nat.ltb (length f) 14); [discriminate|].
  destruct (rd f 12 2) as [proto|]; [|discriminate].
  destruct (negb (bytes_eqb proto [8; 0])); [discriminate|].
  destruct (Nat.ltb (length f) 34); [discriminate|].
  destruct (rd f _ 4) as [k|]; [|discriminate].
  destruct (m_get m k) as [v0|]; [|discriminate].
  destruct (tb_decode v0) eqn:E; [|discriminate].
  intros H; inversion H; subst. exact E.
Qed.

Lemma lookup_put d m f key v t v' : qos_lookup d m f = LHit key v t ->
  qos_lookup d (m_put m key v') f = match tb_decode v' with Some t' => LHit key v' t' | None => LOob end.
Proof.
  unfold qos_lookup. destruct (Nat.ltb (length f) 14); [discriminate|].
  destruct (rd f 12 2) as [proto|]; [|discriminate].
  destruct (negb (bytes_eqb proto [8; 0])); [discriminate|].
  destruct (Nat.ltb (length f) 34); [discriminate|].
  destruct (rd f _ 4) as [k|]; [|discriminate].
  destruct (m_get m k) as [v0|]; [|discriminate].
  destruct (tb_decode v0); [|discriminate].
  intros H; inversion H; subst. rewrite m_get_put. reflexivity.
Qed.

Lemma nth_skipn {A} a : forall b (l : list A) x, nth (a + b) l x = nth b (skipn a l) x.
Proof.
  induction a as [|a IH]; intros b l x; [reflexivity|].
  destruct l as [|y l]; cbn [Nat.add nth skipn]; [destruct b; reflexivity|apply IH].
Qed.

Lemma decode_fields v t : tb_decode v = Some t ->
  length v = 32%nat /\
  t = {| tokens := le_v (firstn 8 v); last := le_v (firstn 8 (skipn 8 v)); rate := le_v (firstn 8 (skipn 16 v));
         burst := le_v (firstn 4 (skipn 24 v)); prio := nth 28 v 0 |}.
Proof.
  unfold tb_decode. destruct (N.of_nat (length v) =? 32) eqn:E; [|discriminate].
  intros H. split; [apply N.eqb_eq in E; lia|congruence].
Qed.

(* what the program stores back decodes to the stepped bucket, the static fields untouched *)
Lemma decode_writeback v t tok now : tb_decode v = Some t -> tok < W64 -> now < W64 ->
  tb_decode (tb_writeback v tok now) =
  Some {| tokens := tok; last := now; rate := rate t; burst := burst t; prio := prio t |}.
Proof.
  intros H Htok Hnow. destruct (decode_fields v t H) as (Hlen & Ht).
  rewrite Ht. cbn [rate burst prio]. clear H Ht t.
  unfold tb_decode, tb_writeback.
  assert (Hl2 : length (le_n 8 tok ++ le_n 8 now ++ skipn 16 v) = 32%nat).
  { rewrite !app_length, !le_n_length, skipn_length, Hlen. reflexivity. }
  rewrite Hl2. cbn [N.of_nat Pos.of_succ_nat Pos.succ N.eqb Pos.eqb].
  change 28%nat with (16 + 12)%nat. rewrite !(nth_skipn 16).
  change 24%nat with (16 + 8)%nat. rewrite !(skipn_add 16 8).
  set (tail := skipn 16 v).
  assert (Hs16 : skipn 16 (le_n 8 tok ++ le_n 8 now ++ tail) = tail).
  { change 16%nat with (8 + 8)%nat. rewrite skipn_add, !skipn_le_n. reflexivity. }
  rewrite Hs16. rewrite firstn_le_n, skipn_le_n, firstn_le_n.
  rewrite !le_v_le_n by (cbn; unfold W64 in *; lia). reflexivity.
Qed.

Lemma tb_step_shape t now len : rate t <> 0 ->
  fst (tb_step t now len) =
  {| tokens := tokens (fst (tb_step t now len)); last := last (fst (tb_step t now len));
     rate := rate t; burst := burst t; prio := prio t |}.
Proof.
  intros Hr. unfold tb_step. destruct (rate t =? 0) eqn:E; [apply N.eqb_eq in E; contradiction|].
  destruct (len <=? tb_refill t now); reflexivity.
Qed.

(* the program on a frame that hits a limited bucket IS the bucket: same admitted bytes, and the map keeps
   holding, under the same key, the bucket after the sequence *)
Lemma prog_run_hit d f : forall pks m key v t,
  qos_lookup d m f = LHit key v t -> wf t -> rate t <> 0 -> mono (last t) pks -> lens32 pks ->
  exists m' v', prog_run d m f pks = (m', snd (run t pks)) /\ qos_lookup d m' f = LHit key v' (fst (run t pks)).
Proof.
  induction pks as [|[now len] r IH]; intros m key v t Hl Hwf Hr Hm Hlen; cbn [prog_run run].
  - exists m, v. split; [reflexivity|exact Hl].
  - cbn [mono] in Hm. destruct Hm as (Hle & Hlt & Hm).
    inversion Hlen as [|p l Hp Hrest]; subst. cbn [snd] in Hp.
    pose proof (step_bound t now len Hwf Hr Hle Hlt) as Hs.
    pose proof (tb_step_shape t now len Hr) as Hshape.
    unfold qos_prog. rewrite Hl. rewrite land32 by exact Hp.
    destruct (tb_step t now len) as [t1 ok]. cbn [fst] in Hshape.
    destruct Hs as (Hwf1 & Hl1 & Hr1 & Hb1 & _ & _).
    destruct (rate t =? 0) eqn:Erz; [apply N.eqb_eq in Erz; contradiction|].
    set (v1 := tb_writeback v (tokens t1) (last t1)).
    assert (Hl' : qos_lookup d (m_put m key v1) f = LHit key v1 t1).
    { rewrite (lookup_put d m f key v t v1 Hl). unfold v1.
      rewrite (decode_writeback v t (tokens t1) (last t1) (lookup_hit_decode _ _ _ _ _ _ Hl)).
      - rewrite <- Hshape. reflexivity.
      - destruct Hwf1 as (Ha & Hb & _). unfold W32, W64 in *. lia.
      - lia. }
    rewrite <- Hl1 in Hm.
    destruct (IH (m_put m key v1) key v1 t1 Hl' Hwf1 ltac:(congruence) Hm Hrest) as (m' & v' & Hrun & Hlk).
    exists m', v'. destruct (run t1 r) as [t2 s] eqn:Erun. cbn [fst snd] in *.
    destruct ok; rewrite Hrun; (split; [reflexivity|exact Hlk]).
Qed.

(* ---- clause 0 at program level: FULL over every frame that hits a limited bucket, every map, direction,
   history and window *)
Theorem prog_upper_bound : forall d m f key v t pre now len rest,
  qos_lookup d m f = LHit key v t -> wf t -> rate t <> 0 ->
  mono (last t) (pre ++ (now, len) :: rest) -> lens32 (pre ++ (now, len) :: rest) ->
  prog_admitted_after d m f pre ((now, len) :: rest) <= burst t + (last_time now rest - now) * (rate t / 8) / G.
Proof.
  intros d m f key v t pre now len rest Hl Hwf Hr Hm Hlen.
  assert (Hsplit : forall l1 l2 t0, mono t0 (l1 ++ l2) -> mono t0 l1 /\ mono (last_time t0 l1) l2).
  { induction l1 as [|[n l] l1 IH]; intros l2 t0 H; cbn [app mono] in *; [unfold last_time; cbn; tauto|].
    destruct H as (H1 & H2 & H3). destruct (IH _ _ H3). rewrite last_time_cons. cbn [fst]. tauto. }
  destruct (Hsplit _ _ _ Hm) as (Hm1 & Hm2).
  apply Forall_app in Hlen. destruct Hlen as (Hlen1 & Hlen2).
  destruct (prog_run_hit d f pre m key v t Hl Hwf Hr Hm1 Hlen1) as (m1 & v1 & Hrun1 & Hl1).
  pose proof (run_bound pre t Hwf Hr Hm1) as Hp.
  unfold prog_admitted_after. rewrite Hrun1. cbn [fst].
  destruct (run t pre) as [t1 s1] eqn:Erun. cbn [fst snd] in *.
  destruct Hp as (Hwf1 & Hr1 & Hb1 & Hlast1 & _). rewrite <- Hlast1 in Hm2.
  destruct (prog_run_hit d f ((now, len) :: rest) m1 key v1 t1 Hl1 Hwf1 ltac:(congruence) Hm2 Hlen2) as (m2 & v2 & Hrun2 & _).
  rewrite Hrun2. cbn [snd].
  pose proof (admitted_upper_bound t pre now len rest Hwf Hr Hm) as Hub.
  unfold admitted_after in Hub. rewrite Erun in Hub. cbn [fst] in Hub. exact Hub.
Qed.

(* ---- end to end: what SetSubscriberQoS writes, found by the egress program *)
Lemma set_qos_egress_lookup s viap a c down up b pr : a < 256 -> c < 256 -> down < W64 -> b < W32 -> pr < 256 ->
  let s' := fst (fst (step s (SetQoS viap [a; c; c; a] down up b pr))) in
  qos_lookup Egress (eg s') (sub_frame Egress [a; c; c; a]) =
  LHit [a; c; c; a] (full_bucket down (egress_burst down b) pr)
       {| tokens := egress_burst down b; last := 0; rate := down; burst := egress_burst down b; prio := pr |}.
Proof.
  intros Ha Hc Hd Hb Hp. cbv zeta.
  cbn [step is_v4 length N.of_nat N.eqb Pos.of_succ_nat Pos.succ Pos.eqb].
  unfold set_qos. cbn [fst eg]. rewrite key_bytes_rev by assumption.
  rewrite lookup_sub_frame, m_get_put.
  assert (Hbe : egress_burst down b < W32).
  { unfold egress_burst. destruct (b =? 0); [apply clamp_burst_lt|exact Hb]. }
  rewrite decode_full by assumption. reflexivity.
Qed.

Lemma set_qos_ingress_lookup s viap a c down up b pr : a < 256 -> c < 256 -> up < W64 -> pr < 256 ->
  let s' := fst (fst (step s (SetQoS viap [a; c; c; a] down up b pr))) in
  qos_lookup Ingress (ing s') (sub_frame Ingress [a; c; c; a]) =
  LHit [a; c; c; a] (full_bucket up (ingress_burst up) pr)
       {| tokens := ingress_burst up; last := 0; rate := up; burst := ingress_burst up; prio := pr |}.
Proof.
  intros Ha Hc Hu Hp. cbv zeta.
  cbn [step is_v4 length N.of_nat N.eqb Pos.of_succ_nat Pos.succ Pos.eqb].
  unfold set_qos. cbn [fst ing]. rewrite key_bytes_rev by assumption.
  rewrite lookup_sub_frame, m_get_put.
  rewrite decode_full by (try assumption; apply clamp_burst_lt). reflexivity.
Qed.

Lemma egress_burst_contract down b : (b = 0 -> down < 34359738368) -> egress_burst down b = contract_burst down b.
Proof.
  intros H. unfold egress_burst, contract_burst. destruct (b =? 0) eqn:E; [|reflexivity].
  apply N.eqb_eq in E. apply clamp_default. auto.
Qed.

(* the download contract set through the control plane bounds what the data path admits: every history and
   window of every arrival sequence (non-decreasing 64-bit clock from 0, 32-bit lengths), every prior state,
   any rate 1 .. 2^64-1, any explicit burst below 2^32 (default burst: rate below 2^35).  Guard: the key
   byte order (palindromic address) *)
Theorem policy_upper_bound_end_to_end : forall s viap ip down up b pr pre now len rest,
  palindromic ip -> down <> 0 -> down < W64 -> b < W32 -> pr < 256 -> (b = 0 -> down < 34359738368) ->
  mono 0 (pre ++ (now, len) :: rest) -> lens32 (pre ++ (now, len) :: rest) ->
  let s' := fst (fst (step s (SetQoS viap ip down up b pr))) in
  prog_admitted_after Egress (eg s') (sub_frame Egress ip) pre ((now, len) :: rest)
    <= contract_burst down b + (last_time now rest - now) * (down / 8) / G.
Proof.
  intros s viap ip down up b pr pre now len rest (a & c & -> & Ha & Hc) Hnz Hd Hb Hp Hz Hm Hlen. cbv zeta.
  pose proof (set_qos_egress_lookup s viap a c down up b pr Ha Hc Hd Hb Hp) as Hl. cbv zeta in Hl.
  rewrite <- (egress_burst_contract down b Hz).
  assert (Hbe : egress_burst down b < W32).
  { unfold egress_burst. destruct (b =? 0); [apply clamp_burst_lt|exact Hb]. }
  eapply (prog_upper_bound Egress _ _ _ _ _ pre now len rest Hl); try assumption.
  unfold wf. cbn [tokens burst last]. split; [lia|split; [exact Hbe|reflexivity]].
Qed.

(* upload direction: default burst only (K19b: the ingress bucket ignores an explicit policy burst) *)
Theorem policy_upper_bound_end_to_end_ingress : forall s viap ip down up pr pre now len rest,
  palindromic ip -> up <> 0 -> up < 34359738368 -> pr < 256 ->
  mono 0 (pre ++ (now, len) :: rest) -> lens32 (pre ++ (now, len) :: rest) ->
  let s' := fst (fst (step s (SetQoS viap ip down up 0 pr))) in
  prog_admitted_after Ingress (ing s') (sub_frame Ingress ip) pre ((now, len) :: rest)
    <= contract_burst up 0 + (last_time now rest - now) * (up / 8) / G.
Proof.
  intros s viap ip down up pr pre now len rest (a & c & -> & Ha & Hc) Hnz Hu Hp Hm Hlen. cbv zeta.
  assert (Hu64 : up < W64) by (unfold W64; lia).
  pose proof (set_qos_ingress_lookup s viap a c down up 0 pr Ha Hc Hu64 Hp) as Hl. cbv zeta in Hl.
  unfold contract_burst. cbn [N.eqb]. rewrite <- (clamp_default up Hu). fold (ingress_burst up).
  eapply (prog_upper_bound Ingress _ _ _ _ _ pre now len rest Hl); try assumption.
  unfold wf. cbn [tokens burst last]. split; [lia|split; [apply clamp_burst_lt|reflexivity]].
Qed.

(* ... and through a plan, for every control-plane history that leaves the plan bound to these values *)
Theorem plan_upper_bound_end_to_end : forall ops s n ip down up b pr pre now len rest,
  plan_after n ops (p_get (pols s) n) = Some (down, up, b, pr) ->
  palindromic ip -> down <> 0 -> down < W64 -> b < W32 -> pr < 256 -> (b = 0 -> down < 34359738368) ->
  mono 0 (pre ++ (now, len) :: rest) -> lens32 (pre ++ (now, len) :: rest) ->
  let s' := after_ops s (ops ++ [ApplyPol ip n]) in
  prog_admitted_after Egress (eg s') (sub_frame Egress ip) pre ((now, len) :: rest)
    <= contract_burst down b + (last_time now rest - now) * (down / 8) / G.
Proof.
  intros ops s n ip down up b pr pre now len rest Hpl Hpal Hnz Hd Hb Hp Hz Hm Hlen. cbv zeta.
  rewrite after_ops_app. rewrite <- policy_table_last_definition_wins in Hpl.
  change (after_ops (after_ops s ops) [ApplyPol ip n]) with (fst (fst (step (after_ops s ops) (ApplyPol ip n)))).
  rewrite (apply_is_set _ ip n _ _ _ _ Hpl).
  exact (policy_upper_bound_end_to_end (after_ops s ops) true ip down up b pr pre now len rest Hpal Hnz Hd Hb Hp Hz Hm Hlen).
Qed.

Example end_to_end_nontrivial :
  let s' := after_ops init [PolAdd [103] 200000000 50000000 0 4; ApplyPol [10; 1; 1; 10] [103];
                            PolAdd [103] 8000 8000 3000 4; ApplyPol [10; 1; 1; 10] [103]] in
  let pks := [(1000, 1500); (1000, 1500); (1000, 1500); (2000000000, 1500); (2000000001, 1500)] in
  mono 0 pks /\ lens32 pks /\ prog_run Egress (eg s') (sub_frame Egress [10; 1; 1; 10]) pks =
  ([([10; 1; 1; 10], tb_encode {| tokens := 499; last := 2000000001; rate := 8000; burst := 3000; prio := 4 |})], 4500).
Proof.
  cbv zeta. split; [cbn; unfold W64; repeat split; lia|]. split; [repeat constructor|vm_compute; reflexivity].
Qed.
