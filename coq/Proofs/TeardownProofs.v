(* C16 — lemmas about Model/Teardown.v (the model of the code after the fix commits 81d6b2b, b42d48d,
   f58f3aa, fe50cc3, 9686c62). *)
From Coq Require Import ZArith NArith List Bool Lia ZifyN ZifyNat ZifyBool.
From Verif Require Import Model.Teardown.
Import ListNotations.
Local Open Scope N_scope.

(* ------------------------------------------------------------------ association lists and sets *)
Lemma aget_adel_same {V} (k : N) (m : amap V) : aget k (adel k m) = None.
Proof.
  induction m as [|[k' v] tl IH]; simpl; auto.
  destruct (k' =? k) eqn:E; simpl; auto.
  rewrite N.eqb_sym, E. exact IH.
Qed.

Lemma ahas_adel_same {V} (k : N) (m : amap V) : ahas k (adel k m) = false.
Proof. unfold ahas. now rewrite aget_adel_same. Qed.

Lemma aget_aput_same {V} (k : N) (v : V) (m : amap V) : aget k (aput k v m) = Some v.
Proof.
  induction m as [|[k' v'] tl IH]; simpl.
  - now rewrite N.eqb_refl.
  - destruct (k <? k') eqn:L; simpl.
    + now rewrite N.eqb_refl.
    + destruct (k =? k') eqn:E; simpl.
      * now rewrite N.eqb_refl.
      * now rewrite E.
Qed.

Lemma smem_sdel_same (x : N) (s : list N) : smem x (sdel x s) = false.
Proof.
  unfold smem, sdel. induction s as [|a tl IH]; simpl; auto.
  destruct (a =? x) eqn:E; simpl; auto.
  now rewrite N.eqb_sym, E.
Qed.

Lemma smem_app_last (x : N) (l : list N) : smem x (l ++ [x]) = true.
Proof. unfold smem. rewrite existsb_app. simpl. rewrite N.eqb_refl. now rewrite orb_true_r. Qed.

Lemma smem_sadd_same (x : N) (s : list N) : smem x (sadd x s) = true.
Proof.
  unfold smem. induction s as [|a tl IH]; simpl.
  - now rewrite N.eqb_refl.
  - destruct (x <? a) eqn:L; simpl.
    + now rewrite N.eqb_refl.
    + destruct (x =? a) eqn:E; simpl.
      * now rewrite E.
      * now rewrite E, IH.
Qed.

Lemma count_cons_same (x : N) (l : list N) : count x (x :: l) = count x l + 1.
Proof. unfold count. simpl. rewrite N.eqb_refl. simpl. lia. Qed.

(* ================================================================== D: DHCP *)
Arguments release_rest : simpl never.
Arguments pool_release : simpl never.
Arguments pool_mark : simpl never.
Arguments drop_lease : simpl never.

Definition dsess_lease (mac : N) (l : lease) : dsess :=
  {| se_mac := mac; se_ip := l_ip l; se_cid := l_cid l; se_sid := l_sid l |}.

(* decidable guard on the state in which the session ends (see docs/C16.md):
   - the pool has one entry for this client, for the leased address, and nobody else holds that address;
   - the address is accounted for by the pool;
   - a manager that is not configured holds nothing for the address; the VLAN cache does not name it;
   - no Accounting-Stop was issued for the session yet, and no Start if accounting is off. *)
Definition pool_own (mac ip : N) (a : amap N) : bool :=
  forallb (fun p => Bool.eqb (fst p =? mac) (snd p =? ip)) a &&
  (N.of_nat (length (filter (fun p => fst p =? mac) a)) <=? 1).

Definition dwf (c : dcfg) (s : dst) (mac : N) (l : lease) : bool :=
  pool_own mac (l_ip l) (alloc s) &&
  (ahas mac (alloc s) || smem (l_ip l) (avail s) || smem (l_ip l) (unavail s)) &&
  (if c_nat c then smem (l_ip l) (nat s) || negb (smem (l_ip l) (natk s)) else negb (smem (l_ip l) (nat s) || smem (l_ip l) (natk s))) && (c_qos c || negb (smem (l_ip l) (qos s) || smem (l_ip l) (qosi s) || smem (l_ip l) (qost s))) &&
  negb (existsb (fun p => snd p =? l_ip l) (cvlan s)) &&
  ((l_sid l =? 0) || ((count (l_sid l) (stops s) =? 0) && (c_radius c || (count (l_sid l) (starts s) =? 0)))).

(* "holds nothing" as one boolean *)
Definition dfree (s : dst) (e : dsess) : bool :=
  negb (ahas (se_mac e) (alloc s)) && (smem (se_ip e) (avail s) || smem (se_ip e) (unavail s)) &&
  negb (smem (se_ip e) (nat s) || smem (se_ip e) (natk s)) && negb (smem (se_ip e) (qos s) || smem (se_ip e) (qosi s) || smem (se_ip e) (qost s)) && negb (ahas (se_mac e) (cmac s)) &&
  ((se_cid e =? 0) || (negb (ahas (se_cid e) (chash s)) && negb (ahas (se_cid e) (csub s)))) &&
  negb (existsb (fun p => snd p =? se_ip e) (cvlan s)) &&
  ((se_sid e =? 0) || (count (se_sid e) (starts s) =? 0) || (count (se_sid e) (stops s) =? 1)).

Lemma dheld_nil (s : dst) (e : dsess) : dfree s e = true -> dheld s e = [].
Proof.
  unfold dfree, dheld. intro H.
  repeat (apply andb_prop in H; destruct H as [H ?]).
  repeat match goal with
         | h : negb _ = true |- _ => apply negb_true_iff in h
         end.
  rewrite H, H6. simpl.
  rewrite H5, H4, H3. simpl.
  assert (Ec : negb (se_cid e =? 0) && ahas (se_cid e) (chash s) = false /\
               negb (se_cid e =? 0) && ahas (se_cid e) (csub s) = false).
  { destruct (se_cid e =? 0); simpl; auto.
    simpl in H2. apply andb_prop in H2. destruct H2 as [A B].
    apply negb_true_iff in A. apply negb_true_iff in B. auto. }
  destruct Ec as [E1 E2]. rewrite E1, E2, H1. simpl.
  destruct (se_sid e =? 0) eqn:Z; simpl; auto.
  simpl in H0.
  destruct (count (se_sid e) (starts s) =? 0) eqn:S0.
  - apply N.eqb_eq in S0. rewrite S0. reflexivity.
  - simpl in H0. rewrite H0. simpl. rewrite andb_false_r. reflexivity.
Qed.

(* pool lemmas *)
Lemma drop_val_none (mac ip : N) (a : amap N) :
  forallb (fun p => Bool.eqb (fst p =? mac) (snd p =? ip)) a = true ->
  drop_val ip a = None -> aget mac a = None.
Proof.
  induction a as [|[k v] tl IH]; simpl; intros G D; auto.
  apply andb_prop in G. destruct G as [G1 G2].
  destruct (v =? ip) eqn:E; [discriminate|].
  apply eqb_prop in G1. rewrite N.eqb_sym, G1.
  destruct (drop_val ip tl) eqn:D'; [discriminate|]. now apply IH.
Qed.

Lemma no_key_aget {V} (mac : N) (a : amap V) :
  length (filter (fun p => fst p =? mac) a) = 0%nat -> aget mac a = None.
Proof.
  induction a as [|[k v] tl IH]; simpl; auto.
  rewrite (N.eqb_sym mac k). destruct (k =? mac); simpl; [discriminate|]. exact IH.
Qed.

Lemma drop_val_some (mac ip : N) (a a' : amap N) :
  pool_own mac ip a = true -> drop_val ip a = Some a' -> aget mac a' = None.
Proof.
  unfold pool_own. revert a'. induction a as [|[k v] tl IH]; simpl; intros a' G D; [discriminate|].
  apply andb_prop in G. destruct G as [G C].
  apply andb_prop in G. destruct G as [G1 G2].
  apply eqb_prop in G1.
  destruct (v =? ip) eqn:E.
  - inversion D; subst a'. rewrite G1 in C. simpl in C.
    apply no_key_aget. lia.
  - rewrite G1 in C.
    destruct (drop_val ip tl) eqn:D'; [|discriminate]. inversion D; subst a'. simpl.
    rewrite N.eqb_sym, G1. apply IH; auto. rewrite G2. simpl. exact C.
Qed.

Lemma filter_val_no_key (mac ip : N) (a : amap N) :
  forallb (fun p => Bool.eqb (fst p =? mac) (snd p =? ip)) a = true ->
  aget mac (filter (fun p => negb (snd p =? ip)) a) = None.
Proof.
  induction a as [|[k v] tl IH]; simpl; intro G; auto.
  apply andb_prop in G. destruct G as [G1 G2]. apply eqb_prop in G1.
  destruct (v =? ip) eqn:E; simpl; auto.
  rewrite N.eqb_sym, G1. auto.
Qed.

(* the post-state of release_rest, field by field *)
Lemma release_rest_free (c : dcfg) (s : dst) (mac : N) (l : lease) :
  (if c_nat c then smem (l_ip l) (nat s) || negb (smem (l_ip l) (natk s)) else negb (smem (l_ip l) (nat s) || smem (l_ip l) (natk s))) = true ->
  (c_qos c || negb (smem (l_ip l) (qos s) || smem (l_ip l) (qosi s) || smem (l_ip l) (qost s))) = true ->
  ((l_sid l =? 0) || ((count (l_sid l) (stops s) =? 0) && (c_radius c || (count (l_sid l) (starts s) =? 0)))) = true ->
  let s' := fst (release_rest c s mac l) in
  smem (l_ip l) (nat s') || smem (l_ip l) (natk s') = false /\ smem (l_ip l) (qos s') || smem (l_ip l) (qosi s') || smem (l_ip l) (qost s') = false /\ ahas mac (cmac s') = false /\
  ((l_cid l =? 0) || (negb (ahas (l_cid l) (chash s')) && negb (ahas (l_cid l) (csub s')))) = true /\
  ((l_sid l =? 0) || (count (l_sid l) (starts s') =? 0) || (count (l_sid l) (stops s') =? 1)) = true /\
  alloc s' = alloc s /\ avail s' = avail s /\ unavail s' = unavail s /\ cvlan s' = cvlan s /\ leases s' = leases s.
Proof.
  intros Hn Hq Ha. unfold release_rest. simpl.
  repeat split; auto.
  - destruct (c_nat c); simpl in *; [|now apply negb_true_iff].
    rewrite smem_sdel_same. simpl.
    destruct (smem (l_ip l) (nat s)); simpl in *; [apply smem_sdel_same|now apply negb_true_iff].
  - destruct (c_qos c); simpl in *; [now rewrite !smem_sdel_same|now apply negb_true_iff].
  - apply ahas_adel_same.
  - destruct (l_cid l =? 0); simpl; auto. now rewrite !ahas_adel_same.
  - destruct (l_sid l =? 0) eqn:Z; simpl in *; auto.
    apply andb_prop in Ha. destruct Ha as [A B].
    destruct (c_radius c); simpl in *.
    + rewrite count_cons_same. apply N.eqb_eq in A. rewrite A. simpl. now rewrite orb_true_r.
    + now rewrite B.
Qed.

(* ---- path: client RELEASE *)
Lemma d_release_releases_all (c : dcfg) (s : dst) (mac : N) (l : lease) :
  aget mac (leases s) = Some l -> dwf c s mac l = true ->
  dheld (fst (fst (dstep c s (Release mac)))) (dsess_lease mac l) = [].
Proof.
  intros HL W. unfold dwf in W.
  repeat (apply andb_prop in W; destruct W as [W ?]).
  assert (PO : pool_own mac (l_ip l) (alloc s) = true) by (unfold pool_own; rewrite W, H4; reflexivity).
  unfold dstep. rewrite HL.
  pose proof (release_rest_free c (drop_lease s mac l) mac l H2 H1 H) as R.
  destruct (release_rest c (drop_lease s mac l) mac l) as [s1 ev] eqn:RR. simpl in R.
  destruct R as (Rn & Rq & Rm & Rc & Ra & Ral & Rav & Run & Rv & _).
  simpl. apply dheld_nil. unfold dfree, dsess_lease, pool_release. simpl.
  rewrite Ral. simpl.
  destruct (drop_val (l_ip l) (alloc s)) as [a'|] eqn:D; unfold set_pool; simpl.
  - assert (A : ahas mac a' = false) by (unfold ahas; now rewrite (drop_val_some mac (l_ip l) (alloc s) a' PO D)).
    rewrite A. simpl.
    rewrite Rav. simpl. rewrite smem_app_last. simpl.
    rewrite Rn, Rq, Rm, Rc, Rv, H0, Ra. reflexivity.
  - pose proof W as W1.
    pose proof (drop_val_none mac (l_ip l) (alloc s) W1 D) as NA.
    assert (A : ahas mac (alloc s) = false) by (unfold ahas; now rewrite NA).
    rewrite ?Ral, ?Rav, ?Run. rewrite A in *. simpl in *.
    rewrite H3. simpl.
    rewrite Rn, Rq, Rm, Rc, Rv, H0, Ra. reflexivity.
Qed.

(* ---- path: DECLINE of the leased address *)
Lemma d_decline_own_releases_all (c : dcfg) (s : dst) (mac : N) (l : lease) :
  aget mac (leases s) = Some l -> l_ip l <> 0 -> dwf c s mac l = true ->
  dheld (fst (fst (dstep c s (Decline mac (l_ip l))))) (dsess_lease mac l) = [].
Proof.
  intros HL NZ W. unfold dwf in W.
  repeat (apply andb_prop in W; destruct W as [W ?]).
  assert (PO : pool_own mac (l_ip l) (alloc s) = true) by (unfold pool_own; rewrite W, H4; reflexivity).
  unfold dstep. rewrite HL.
  apply N.eqb_neq in NZ. rewrite NZ.
  pose proof (release_rest_free c (pool_mark (drop_lease s mac l) (l_ip l)) mac l H2 H1 H) as R.
  destruct (release_rest c (pool_mark (drop_lease s mac l) (l_ip l)) mac l) as [s1 ev] eqn:RR. simpl in R.
  destruct R as (Rn & Rq & Rm & Rc & Ra & Ral & Rav & Run & Rv & _).
  simpl. apply dheld_nil. unfold dfree, dsess_lease. simpl.
  rewrite Ral, Rav, Run. unfold pool_mark, set_pool. simpl.
  pose proof W as W1.
  assert (A : ahas mac (filter (fun p => negb (snd p =? l_ip l)) (alloc s)) = false)
    by (unfold ahas; now rewrite (filter_val_no_key mac (l_ip l) (alloc s) W1)).
  rewrite A. simpl.
  rewrite smem_sadd_same, orb_true_r. simpl.
  rewrite Rn, Rq, Rm, Rc, Rv, H0, Ra. reflexivity.
Qed.

(* ---- path: lease expiry (the body of cleanupExpiredLeases for one expired lease) *)
Lemma d_expiry_releases_all (c : dcfg) (s : dst) (mac : N) (l : lease) :
  aget mac (leases s) = Some l -> (l_ttl l < 0)%Z -> dwf c s mac l = true ->
  dheld (fst (fst (expire_one c (s, [], []) mac))) (dsess_lease mac l) = [].
Proof.
  intros HL T W. unfold dwf in W.
  repeat (apply andb_prop in W; destruct W as [W ?]).
  assert (PO : pool_own mac (l_ip l) (alloc s) = true) by (unfold pool_own; rewrite W, H4; reflexivity).
  unfold expire_one. rewrite HL.
  apply Z.ltb_lt in T. rewrite T.
  assert (Hn : (if c_nat c then smem (l_ip l) (nat (pool_release (drop_lease s mac l) (l_ip l))) || negb (smem (l_ip l) (natk (pool_release (drop_lease s mac l) (l_ip l)))) else negb (smem (l_ip l) (nat (pool_release (drop_lease s mac l) (l_ip l))) || smem (l_ip l) (natk (pool_release (drop_lease s mac l) (l_ip l))))) = true).
  { unfold pool_release. simpl. destruct (drop_val (l_ip l) (alloc s)); exact H2. }
  assert (Hq : (c_qos c || negb (smem (l_ip l) (qos (pool_release (drop_lease s mac l) (l_ip l))) || smem (l_ip l) (qosi (pool_release (drop_lease s mac l) (l_ip l))) || smem (l_ip l) (qost (pool_release (drop_lease s mac l) (l_ip l))))) = true).
  { unfold pool_release. simpl. destruct (drop_val (l_ip l) (alloc s)); exact H1. }
  assert (Ha : ((l_sid l =? 0) || ((count (l_sid l) (stops (pool_release (drop_lease s mac l) (l_ip l))) =? 0) &&
                 (c_radius c || (count (l_sid l) (starts (pool_release (drop_lease s mac l) (l_ip l))) =? 0)))) = true).
  { unfold pool_release. simpl. destruct (drop_val (l_ip l) (alloc s)); exact H. }
  pose proof (release_rest_free c (pool_release (drop_lease s mac l) (l_ip l)) mac l Hn Hq Ha) as R.
  destruct (release_rest c (pool_release (drop_lease s mac l) (l_ip l)) mac l) as [s1 ev] eqn:RR. simpl in R.
  destruct R as (Rn & Rq & Rm & Rc & Ra & Ral & Rav & Run & Rv & _).
  simpl. apply dheld_nil. unfold dfree, dsess_lease. simpl.
  rewrite Ral, Rav, Run, Rv. unfold pool_release. simpl.
  destruct (drop_val (l_ip l) (alloc s)) as [a'|] eqn:D; unfold set_pool; simpl.
  - assert (A : ahas mac a' = false) by (unfold ahas; now rewrite (drop_val_some mac (l_ip l) (alloc s) a' PO D)).
    rewrite A. simpl.
    rewrite smem_app_last. simpl.
    rewrite Rn, Rq, Rm, Rc, H0, Ra. reflexivity.
  - pose proof W as W1.
    pose proof (drop_val_none mac (l_ip l) (alloc s) W1 D) as NA.
    assert (A : ahas mac (alloc s) = false) by (unfold ahas; now rewrite NA).
    rewrite ?Ral, ?Rav, ?Run. rewrite A in *. simpl in *.
    rewrite H3. simpl.
    rewrite Rn, Rq, Rm, Rc, H0, Ra. reflexivity.
Qed.

(* ---- ending twice / by two paths in sequence: the second operation finds no lease and does nothing *)
Lemma leases_pool_release (s : dst) (ip : N) : leases (pool_release s ip) = leases s.
Proof. unfold pool_release. destruct (drop_val ip (alloc s)); reflexivity. Qed.

Lemma d_lease_gone_release (c : dcfg) (s : dst) (mac : N) :
  aget mac (leases (fst (fst (dstep c s (Release mac))))) = None.
Proof.
  simpl. destruct (aget mac (leases s)) as [l|] eqn:HL; simpl; auto.
  destruct (release_rest c (drop_lease s mac l) mac l) as [s1 ev] eqn:RR. simpl.
  rewrite leases_pool_release.
  unfold release_rest in RR. inversion RR. simpl. apply aget_adel_same.
Qed.

Lemma d_lease_gone_decline (c : dcfg) (s : dst) (mac ip : N) :
  aget mac (leases (fst (fst (dstep c s (Decline mac ip))))) = None.
Proof.
  simpl. destruct (aget mac (leases s)) as [l|] eqn:HL; simpl; auto.
  destruct (release_rest c (if ip =? 0 then drop_lease s mac l else pool_mark (drop_lease s mac l) ip) mac l) as [s1 ev] eqn:RR.
  simpl. unfold release_rest in RR. inversion RR. simpl.
  destruct (ip =? 0); simpl; apply aget_adel_same.
Qed.

Lemma d_no_lease_noop (c : dcfg) (s : dst) (mac ip : N) :
  aget mac (leases s) = None ->
  fst (dstep c s (Release mac)) = (s, (0, 0, [])) /\ fst (dstep c s (Decline mac ip)) = (s, (0, 0, [])).
Proof. intro H. simpl. rewrite H. auto. Qed.

Definition d_is_end (mac : N) (o : dop) : Prop := o = Release mac \/ exists ip, o = Decline mac ip.

Lemma d_ending_twice_no_effect (c : dcfg) (s : dst) (mac : N) (o1 o2 : dop) :
  d_is_end mac o1 -> d_is_end mac o2 ->
  let s1 := fst (fst (dstep c s o1)) in fst (dstep c s1 o2) = (s1, (0, 0, [])).
Proof.
  intros E1 E2 s1.
  assert (G : aget mac (leases s1) = None).
  { destruct E1 as [->|[ip ->]]; [apply d_lease_gone_release|apply d_lease_gone_decline]. }
  destruct E2 as [->|[ip ->]]; [apply (d_no_lease_noop c s1 mac 0 G)|apply (d_no_lease_noop c s1 mac ip G)].
Qed.

(* expiry after an ending: the tick finds no lease of that client *)
Lemma d_expire_after_end_noop (c : dcfg) (s : dst) (mac : N) (ev : list (N * N)) (mk : list N) :
  aget mac (leases s) = None -> expire_one c (s, ev, mk) mac = (s, ev, mk).
Proof. intro H. unfold expire_one. now rewrite H. Qed.

(* ---- history-level facts (every operation list) *)
Definition drun (c : dcfg) (ops : list dop) : dst := fold_left (fun s o => fst (fst (dstep c s o))) ops (dinit c).

Lemma cvlan_pool_release s ip : cvlan (pool_release s ip) = cvlan s.
Proof. unfold pool_release. destruct (drop_val ip (alloc s)); reflexivity. Qed.

Lemma cvlan_expire (c : dcfg) (l : list N) : forall acc,
  cvlan (fst (fst (fold_left (expire_one c) l acc))) = cvlan (fst (fst acc)).
Proof.
  induction l as [|m tl IH]; intros [[s ev] mk]; simpl; auto.
  rewrite IH. unfold expire_one.
  destruct (aget m (leases s)) as [x|]; simpl; auto.
  destruct (l_ttl x <? 0)%Z; simpl; auto.
  destruct (release_rest c (pool_release (drop_lease s m x) (l_ip x)) m x) as [s1 e1] eqn:RR. simpl.
  unfold release_rest in RR. inversion RR. simpl. now rewrite cvlan_pool_release.
Qed.

Lemma cvlan_step (c : dcfg) (s : dst) (o : dop) : cvlan (fst (fst (dstep c s o))) = cvlan s.
Proof.
  destruct o as [mac cid rel|mac ip cid rel|mac|mac ip|d|order|k]; simpl; [| | | | | |reflexivity].
  - destruct (existing s mac cid rel) as [l|]; [destruct (0 <? l_ttl l)%Z; simpl; auto|];
      (destruct (pool_allocate s mac) as [[ip s']|] eqn:PA; simpl; auto;
       unfold pool_allocate in PA; destruct (aget mac (alloc s)); [inversion PA; subst; auto|];
       destruct (avail s); [discriminate|inversion PA; subst; auto]).
  - destruct (existing s mac cid rel) as [e|].
    + destruct (l_ip e =? ip); simpl; auto.
    + destruct (negb ((c_lo c <=? ip) && (ip <=? c_hi c))); simpl; auto.
      destruct (pool_reserve s mac ip) as [s1|] eqn:PR; simpl; auto.
      unfold pool_reserve in PR. destruct (aget mac (alloc s)).
      * destruct (n =? ip); inversion PR; subst; auto.
      * destruct (smem ip (avail s)); inversion PR; subst; auto.
  - destruct (aget mac (leases s)) as [l|]; simpl; auto.
    destruct (release_rest c (drop_lease s mac l) mac l) as [s1 ev] eqn:RR. simpl.
    rewrite cvlan_pool_release. unfold release_rest in RR. inversion RR. reflexivity.
  - destruct (aget mac (leases s)) as [l|]; simpl; auto.
    destruct (release_rest c (if ip =? 0 then drop_lease s mac l else pool_mark (drop_lease s mac l) ip) mac l) as [s1 ev] eqn:RR.
    simpl. unfold release_rest in RR. inversion RR. destruct (ip =? 0); reflexivity.
  - reflexivity.
  - pose proof (cvlan_expire c (order ++ map fst (leases s)) (s, [], [])) as H.
    destruct (fold_left (expire_one c) (order ++ map fst (leases s)) (s, [], [])) as [[s' ev] mk]. exact H.
Qed.

(* the VLAN-pair cache is never populated by the DHCP server, whatever the history *)
Lemma d_vlan_cache_always_empty (c : dcfg) (ops : list dop) : cvlan (drun c ops) = [].
Proof.
  unfold drun. generalize (eq_refl (cvlan (dinit c))). generalize (dinit c) at 1 3.
  induction ops as [|o tl IH]; intros s H; simpl; auto.
  apply IH. now rewrite cvlan_step.
Qed.

(* ---- witnesses: the guard is satisfiable on a reachable state; the unguarded clauses are refuted *)
Definition cfgD : dcfg :=
  {| c_lo := 0; c_hi := 15; c_avail0 := [2;3;4;5;6;7;8;9;10;11;12;13;14]; c_lease := 3600%Z; c_radius := true;
     c_qos := true; c_nat := true; c_natcap := 4; c_cache := true; c_full := [] |}.
Definition stD : dst := drun cfgD [Discover 1 1 true; Request 1 2 1 true; Discover 2 0 false; Request 2 3 0 false].

Lemma d_guard_satisfiable :
  exists l, aget 1 (leases stD) = Some l /\ dwf cfgD stD 1 l = true /\ dheld stD (dsess_lease 1 l) <> [] /\
            l_ip l = 2 /\ l_cid l = 1 /\ l_sid l = 1.
Proof. eexists. repeat split; try (vm_compute; reflexivity). vm_compute. discriminate. Qed.

Lemma d_decline_other_refuted :
  exists c s mac l ip, aget mac (leases s) = Some l /\ dwf c s mac l = true /\
    dheld (fst (fst (dstep c s (Decline mac ip)))) (dsess_lease mac l) <> [].
Proof.
  exists cfgD, stD, 1, {| l_ip := 2; l_cid := 1; l_sid := 1; l_ttl := 3600%Z |}, 6.
  repeat split; try (vm_compute; reflexivity). vm_compute. discriminate.
Qed.

Lemma d_offered_only_refuted :
  exists c s mac e, dsess_of s mac = Some e /\ aget mac (leases s) = None /\
    dheld (fst (fst (dstep c s (Release mac)))) e <> [] /\
    dheld (fst (fst (dstep c s (Decline mac (se_ip e))))) e <> [].
Proof.
  exists cfgD, (drun cfgD [Discover 1 0 false]), 1, {| se_mac := 1; se_ip := 2; se_cid := 0; se_sid := 0 |}.
  repeat split; try (vm_compute; reflexivity); vm_compute; discriminate.
Qed.

(* ================================================================== P: PPPoE *)

Definition p_ip (s : pst) (i : N) : N := match aget i (palloc s) with Some ip => ip | None => 0 end.

Lemma pheld_ext (s1 s2 : pst) (i ip : N) :
  palloc s1 = palloc s2 -> pavail s1 = pavail s2 -> pheld s1 i ip = pheld s2 i ip.
Proof. unfold pheld. intros -> ->. reflexivity. Qed.

Lemma p_release_free (s : pst) (i : N) : pheld (ppool_release s i) i (p_ip s i) = [].
Proof.
  unfold pheld, ppool_release, p_ip.
  destruct (aget i (palloc s)) as [ip|] eqn:E; simpl.
  - rewrite ahas_adel_same, smem_app_last. simpl. now rewrite andb_false_r.
  - unfold ahas. now rewrite E.
Qed.

Lemma p_nothing_held (s : pst) (i : N) : ahas i (palloc s) = false -> pheld s i (p_ip s i) = [].
Proof. unfold pheld, p_ip, ahas. destruct (aget i (palloc s)); [discriminate|]. reflexivity. Qed.

Lemma premove_pool (s : pst) (id : N) : palloc (premove s id) = palloc s /\ pavail (premove s id) = pavail s.
Proof. unfold premove. destruct (aget id (tbl s)); auto. Qed.

(* the address part of a frame-driven ending: [seth], then the pool release, then RemoveSession *)
Lemma p_end_by_frame (c : pcfg) (s s0 : pst) (id i : N) :
  palloc s0 = palloc s -> pavail s0 = pavail s ->
  (pc_pool c || negb (ahas i (palloc s))) = true ->
  pheld (premove (if pc_pool c then ppool_release s0 i else s0) id) i (p_ip s i) = [].
Proof.
  intros A V G.
  destruct (premove_pool (if pc_pool c then ppool_release s0 i else s0) id) as [P1 P2].
  rewrite (pheld_ext _ (if pc_pool c then ppool_release s0 i else s0) i _ P1 P2).
  assert (E : p_ip s i = p_ip s0 i) by (unfold p_ip; now rewrite A).
  destruct (pc_pool c); simpl in G.
  - rewrite E. apply p_release_free.
  - apply negb_true_iff in G. rewrite (pheld_ext s0 s i _ A V). now apply p_nothing_held.
Qed.

Lemma p_padt_releases (c : pcfg) (s : pst) (id mac i : N) (x : psess) :
  pfind s id mac = Some (i, x) -> (pc_pool c || negb (ahas i (palloc s))) = true ->
  pheld (fst (fst (pstep c s (Padt id mac)))) i (p_ip s i) = [].
Proof. intros F G. unfold pstep, pstep1. rewrite F. simpl. now apply p_end_by_frame. Qed.

Lemma p_lcpterm_releases (c : pcfg) (s : pst) (id mac i : N) (x : psess) :
  pfind s id mac = Some (i, x) -> (pc_pool c || negb (ahas i (palloc s))) = true ->
  pheld (fst (fst (pstep c s (LcpTerm id mac)))) i (p_ip s i) = [].
Proof. intros F G. unfold pstep, pstep1. rewrite F. simpl. now apply p_end_by_frame. Qed.

Lemma p_authfail_releases (c : pcfg) (s : pst) (id mac i : N) (x : psess) :
  pfind s id mac = Some (i, x) -> (pc_pool c || negb (ahas i (palloc s))) = true ->
  pheld (fst (fst (pstep c s (Pap id mac false)))) i (p_ip s i) = [].
Proof.
  intros F G. unfold pstep, pstep1. rewrite F. simpl.
  destruct (pc_pool c) eqn:P; simpl in *.
  - rewrite (pheld_ext _ (ppool_release s i) i _); [apply p_release_free| |]; unfold ppool_release; simpl;
      destruct (aget i (palloc s)); reflexivity.
  - apply negb_true_iff in G. rewrite (pheld_ext _ s i _); [now apply p_nothing_held|reflexivity|reflexivity].
Qed.

(* SessionTeardown.cleanup (HandleClientPADT, TerminateSession, TerminateAll reach it) *)
Lemma p_cleanup_releases (c : pcfg) (s : pst) (i : N) (x : psess) :
  aget i (heap s) = Some x -> ps_torn x = false ->
  (negb (ahas i (palloc s)) || (pc_pool c && negb (ps_ip x =? 0))) = true ->
  let r := pcleanup c s i in
  pheld (fst (fst r)) i (p_ip s i) = [] /\ In (3, ps_id x) (snd (fst r)) /\
  (pc_radius c && ps_auth x = true -> In (2, i) (snd (fst r))).
Proof.
  intros H T G. unfold pcleanup. rewrite H, T. simpl. split; [|split].
  - match goal with |- pheld (premove ?S _) _ _ = _ => destruct (premove_pool S (ps_id x)) as [P1 P2];
      rewrite (pheld_ext _ S i _ P1 P2) end.
    unfold pset. simpl.
    destruct (pc_pool c && negb (ps_ip x =? 0)) eqn:B.
    + rewrite (pheld_ext _ (ppool_release s i) i _); [apply p_release_free|reflexivity|reflexivity].
    + rewrite orb_false_r in G. apply negb_true_iff in G.
      rewrite (pheld_ext _ s i _); [now apply p_nothing_held|reflexivity|reflexivity].
  - left. reflexivity.
  - intro R. rewrite R. right. left. reflexivity.
Qed.

(* cleanup of one session object twice: the second call does nothing (no second Accounting-Stop) *)
Lemma heap_premove (s : pst) (id : N) : heap (premove s id) = heap s.
Proof. unfold premove. destruct (aget id (tbl s)); reflexivity. Qed.

Lemma p_cleanup_twice (c : pcfg) (s : pst) (i : N) :
  let s1 := fst (fst (pcleanup c s i)) in pcleanup c s1 i = (s1, [], []).
Proof.
  destruct (aget i (heap s)) as [x|] eqn:H.
  - destruct (ps_torn x) eqn:T.
    + assert (E : pcleanup c s i = (s, [], [])) by (unfold pcleanup; now rewrite H, T).
      rewrite E. simpl. exact E.
    + assert (E : exists x', aget i (heap (fst (fst (pcleanup c s i)))) = Some x' /\ ps_torn x' = true).
      { unfold pcleanup. rewrite H, T. simpl. rewrite heap_premove. unfold pset. simpl.
        rewrite aget_aput_same. eexists. split; reflexivity. }
      destruct E as [x' [E1 E2]]. simpl.
      set (s1 := fst (fst (pcleanup c s i))) in *.
      unfold pcleanup. now rewrite E1, E2.
  - assert (E : pcleanup c s i = (s, [], [])) by (unfold pcleanup; now rewrite H).
    rewrite E. simpl. exact E.
Qed.

(* a frame for a session that is gone ends nothing *)
Lemma p_frame_after_end_noop (c : pcfg) (s : pst) (id mac : N) :
  pfind s id mac = None ->
  pstep c s (Padt id mac) = (s, [], []) /\ pstep c s (LcpTerm id mac) = (s, [], []) /\
  pstep c s (Pap id mac false) = (s, [], []).
Proof. intro F. unfold pstep, pstep1. rewrite F. auto. Qed.

Definition cfgP : pcfg := {| pc_avail0 := [2;3;4;5;6;7]; pc_pool := true; pc_radius := true; pc_timeout := 300%Z |}.
Definition stP : pst :=
  fold_left (fun s o => fst (fst (pstep cfgP s o))) [Padr 1; LcpAck 1 1; Pap 1 1 true; IpcpAck 1 1; PAge 900%Z] (pinit cfgP).

Lemma p_guard_satisfiable :
  exists x, pfind stP 1 1 = Some (1, x) /\ aget 1 (heap stP) = Some x /\ ps_torn x = false /\ p_ip stP 1 = 2 /\
            pheld stP 1 2 <> [].
Proof. eexists. repeat split; try (vm_compute; reflexivity). vm_compute. discriminate. Qed.

Lemma p_idle_cleanup_refuted :
  exists c s i, ahas i (palloc s) = true /\ aget 1 (tbl (fst (fst (pstep c s IdleTick)))) = None /\
                pheld (fst (fst (pstep c s IdleTick))) i (p_ip s i) <> [].
Proof. exists cfgP, stP, 1. repeat split; try (vm_compute; reflexivity). vm_compute. discriminate. Qed.

(* idle cleanup of a session that holds no address is complete *)
Lemma fold_inv {A B} (f : A -> B -> A) (P : A -> Prop) :
  (forall a b, P a -> P (f a b)) -> forall l a, P a -> P (fold_left f l a).
Proof. intros H l. induction l; simpl; auto. Qed.

Lemma p_idle_partial (c : pcfg) (s : pst) (i : N) :
  ahas i (palloc s) = false -> pheld (fst (fst (pstep c s IdleTick))) i (p_ip s i) = [].
Proof.
  intro A.
  assert (K : palloc (fst (fst (pstep c s IdleTick))) = palloc s /\ pavail (fst (fst (pstep c s IdleTick))) = pavail s).
  { unfold pstep, pstep1.
    apply (fold_inv _ (fun acc : pst * list (N * N) * list N =>
                         palloc (fst (fst acc)) = palloc s /\ pavail (fst (fst acc)) = pavail s)); [|auto].
    intros [[s0 ev] mk] p [P1 P2]. simpl in *.
    destruct (aget (snd p) (heap s0)) as [x|]; simpl; auto.
    destruct (pc_timeout c <? ps_idle x)%Z; simpl; auto.
    destruct (premove_pool s0 (fst p)) as [Q1 Q2]. split; congruence. }
  destruct K as [P1 P2]. rewrite (pheld_ext _ s i _ P1 P2). now apply p_nothing_held.
Qed.

(* ================================================================== S: subscriber.Manager *)

Lemma s_terminate_releases (c : scfg) (s : sst) (n : N) (x : ssess) :
  aget n (ssn s) = Some x -> ((ss_ip x =? 0) || smem (ss_ip x) (salloc s)) = true ->
  forall ctx, let r := sstep c s (STerminate n ctx false) in
  sheld (fst (fst r)) (ss_mac x) (ss_ip x) = [] /\
  snd (fst r) = (0, (if ss_ip x =? 0 then [] else [(5, ss_ip x)]) ++ [(6, n)]) /\
  aget n (ssn (fst (fst r))) = None.
Proof.
  intros H G ctx. unfold sstep, sterm. rewrite H. simpl. rewrite !andb_true_r. split; [|split].
  - unfold sheld. simpl. rewrite ahas_adel_same.
    destruct (ss_ip x =? 0) eqn:Z; simpl; auto.
    simpl in G. rewrite G. simpl. rewrite smem_sdel_same, smem_app_last, ahas_adel_same. reflexivity.
  - destruct (ss_ip x =? 0); reflexivity.
  - apply aget_adel_same.
Qed.

(* terminating twice: the second call reports "not found" and changes nothing, emits nothing *)
Lemma s_terminate_twice (c : scfg) (s : sst) (n ctx1 ctx2 : N) (f1 f2 : bool) :
  let s1 := fst (fst (sstep c s (STerminate n ctx1 f1))) in sstep c s1 (STerminate n ctx2 f2) = (s1, (1, []), []).
Proof.
  destruct (aget n (ssn s)) as [x|] eqn:H.
  - assert (G : aget n (ssn (fst (fst (sstep c s (STerminate n ctx1 f1))))) = None).
    { unfold sstep, sterm. rewrite H. simpl. apply aget_adel_same. }
    cbv zeta. remember (fst (fst (sstep c s (STerminate n ctx1 f1)))) as s1 eqn:Q. clear Q.
    unfold sstep, sterm. now rewrite G.
  - assert (E : forall cx f, sstep c s (STerminate n cx f) = (s, (1, []), [])) by (intros; unfold sstep, sterm; now rewrite H).
    rewrite (E ctx1 f1). simpl. apply (E ctx2 f2).
Qed.

Definition cfgS : scfg := {| sc_avail0 := [2;3;4;5]; sc_stimeout := 86400%Z; sc_itimeout := 1800%Z |}.
Definition stS : sst :=
  fold_left (fun s o => fst (fst (sstep cfgS s o))) [SCreate 1; SAuth 1 true 0; SAssign 1 0; SActivate 1] (sinit cfgS).

Lemma s_guard_satisfiable :
  exists x, aget 1 (ssn stS) = Some x /\ ((ss_ip x =? 0) || smem (ss_ip x) (salloc stS)) = true /\
            sheld stS (ss_mac x) (ss_ip x) <> [].
Proof. eexists. repeat split; try (vm_compute; reflexivity). vm_compute. discriminate. Qed.

Lemma s_stop_refuted :
  exists c s n x, aget n (ssn s) = Some x /\
    fst (sstep c s SStop) = (s, (0, [])) /\ sheld (fst (fst (sstep c s SStop))) (ss_mac x) (ss_ip x) <> [].
Proof.
  exists cfgS, stS, 1, {| ss_mac := 1; ss_state := 4; ss_ip := 2; ss_age := 0; ss_idle := 0 |}.
  repeat split; try (vm_compute; reflexivity). vm_compute. discriminate.
Qed.

(* two concurrent terminations after commit fe50cc3: one caller passes (the oracle r is 1) and the
   race is the sequential termination; with r > 1 (the code before the fix) the address is released and
   the terminate event emitted r times *)
Lemma s_race_events (c : scfg) (s : sst) (n r : N) (x : ssess) :
  aget n (ssn s) = Some x -> ss_ip x <> 0 ->
  count n (map snd (filter (fun e => fst e =? 6) (snd (snd (fst (sstep c s (SRace n r))))))) = 1 + (r - 1).
Proof.
  intros H NZ. remember (1 + (r - 1)) as rhs eqn:Q. unfold sstep, sterm. rewrite H. simpl.
  apply N.eqb_neq in NZ. rewrite NZ. simpl.
  assert (K : forall k, length (filter (N.eqb n) (map snd (filter (fun e => fst e =? 6)
                 (concat (repeat [(5, ss_ip x); (6, n)] k))))) = k).
  { induction k; simpl; auto. rewrite N.eqb_refl. simpl. now f_equal. }
  rewrite count_cons_same. unfold count. rewrite K. subst rhs. lia.
Qed.

(* whatever the caller's context and whatever the allocator answers, TerminateSession on a session that
   is in the table succeeds and removes it: no attempt leaves a session that later attempts cannot end *)
Lemma s_terminate_never_stuck (c : scfg) (s : sst) (n ctx : N) (rf : bool) (x : ssess) :
  aget n (ssn s) = Some x ->
  let r := sstep c s (STerminate n ctx rf) in
  fst (snd (fst r)) = 0 /\ aget n (ssn (fst (fst r))) = None /\ In (6, n) (snd (snd (fst r))).
Proof.
  intro H. unfold sstep, sterm. rewrite H. simpl. repeat split.
  - apply aget_adel_same.
  - apply in_or_app. right. left. reflexivity.
Qed.

(* ... but when the allocator's release fails the session is removed all the same and its address stays
   allocated, with no session left through which it could be released *)
Lemma s_release_error_refuted :
  exists c s n x, aget n (ssn s) = Some x /\
    aget n (ssn (fst (fst (sstep c s (STerminate n 0 true))))) = None /\
    sheld (fst (fst (sstep c s (STerminate n 0 true)))) (ss_mac x) (ss_ip x) <> [].
Proof.
  exists cfgS, stS, 1, {| ss_mac := 1; ss_state := 4; ss_ip := 2; ss_age := 0; ss_idle := 0 |}.
  repeat split; try (vm_compute; reflexivity). vm_compute. discriminate.
Qed.

(* ================================================================== two ending paths at once (PPPoE) *)
(* the object was torn down (or never existed): no teardown path has anything left to do for it *)
Definition p_done (s : pst) (i : N) : bool :=
  match aget i (heap s) with Some x => ps_torn x | None => true end.

Lemma p_cleanup_done (c : pcfg) (s : pst) (i : N) : p_done (fst (fst (pcleanup c s i))) i = true.
Proof.
  unfold p_done. destruct (aget i (heap s)) as [x|] eqn:H.
  - destruct (ps_torn x) eqn:T.
    + assert (E : pcleanup c s i = (s, [], [])) by (unfold pcleanup; now rewrite H, T).
      rewrite E. simpl. now rewrite H.
    + unfold pcleanup. rewrite H, T. simpl. rewrite heap_premove. unfold pset. simpl.
      now rewrite aget_aput_same.
  - assert (E : pcleanup c s i = (s, [], [])) by (unfold pcleanup; now rewrite H).
    rewrite E. simpl. now rewrite H.
Qed.

Lemma p_pterm_done (c : pcfg) (s : pst) (i : N) : p_done (fst (fst (pterm c (s, [], []) i))) i = true.
Proof.
  unfold pterm. destruct (aget i (heap s)) as [x|] eqn:H.
  - match goal with |- context [pcleanup c ?S i] => pose proof (p_cleanup_done c S i) as D; destruct (pcleanup c S i) as [[s2 ev2] mk2] end.
    exact D.
  - simpl. unfold p_done. now rewrite H.
Qed.

Definition td_of (i : N) (o : pop) : Prop := o = TdTerm i \/ exists m, o = TdPadt i m.

(* a teardown path for an object that is done: table, MAC index, pool and Stop records unchanged; the only
   thing it may still emit is the PADT of TerminateSession (event kind 4) *)
Lemma p_td_on_done_quiet (c : pcfg) (s : pst) (i : N) (o : pop) :
  p_done s i = true -> td_of i o ->
  let r := pstep1 c s o in
  tbl (fst (fst r)) = tbl s /\ midx (fst (fst r)) = midx s /\ pavail (fst (fst r)) = pavail s /\
  palloc (fst (fst r)) = palloc s /\ pstops (fst (fst r)) = pstops s /\
  (forall e, In e (snd (fst r)) -> fst e = 4).
Proof.
  unfold p_done. intros D [->|[m ->]]; simpl.
  - unfold pterm. destruct (aget i (heap s)) as [x|] eqn:H.
    + unfold pcleanup. unfold pset at 1. simpl. rewrite aget_aput_same. simpl. rewrite D. simpl.
      repeat split; auto. intros e [<-|[]]. reflexivity.
    + simpl. repeat split; auto. intros e [].
  - destruct (aget i (heap s)) as [x|] eqn:H.
    + destruct (ps_mac x =? m).
      * unfold pcleanup. rewrite H, D. simpl. repeat split; auto. intros e [].
      * simpl. repeat split; auto. intros e [].
    + simpl. repeat split; auto. intros e [].
Qed.

Definition not_padt (e : N * N) : bool := negb (fst e =? 4).

(* Two teardown paths for one session at once (client PADT while an administrative disconnect or the
   shutdown pass is inside cleanup, two disconnects, ...): the overlapped second path changes nothing in
   the table, the index, the pool or the Stop records, and adds no event besides a second PADT:
   exactly the outcome of the first path alone. *)
Lemma p_two_paths_at_once (c : pcfg) (s : pst) (i : N) (held : bool) (a b : pop) :
  (a = TdTerm i \/ exists x, aget i (heap s) = Some x /\ a = TdPadt i (ps_mac x)) -> td_of i b ->
  let r1 := pstep c s a in
  let r2 := pstep c s (POverlap held a b) in
  tbl (fst (fst r2)) = tbl (fst (fst r1)) /\ midx (fst (fst r2)) = midx (fst (fst r1)) /\
  pavail (fst (fst r2)) = pavail (fst (fst r1)) /\ palloc (fst (fst r2)) = palloc (fst (fst r1)) /\
  pstops (fst (fst r2)) = pstops (fst (fst r1)) /\
  filter not_padt (snd (fst r2)) = filter not_padt (snd (fst r1)).
Proof.
  intros A B.
  assert (D : p_done (fst (fst (pstep1 c s a))) i = true).
  { destruct A as [->|[x [H ->]]]; simpl.
    - apply p_pterm_done.
    - rewrite H, N.eqb_refl. apply p_cleanup_done. }
  assert (E1 : pstep c s a = pstep1 c s a) by (destruct A as [->|[x [_ ->]]]; reflexivity).
  assert (E2 : pstep c s (POverlap held a b) =
               let '(s1, e1, m1) := pstep1 c s a in let '(s2, e2, m2) := pstep1 c s1 b in (s2, e1 ++ e2, m1 ++ m2)).
  { destruct B as [->|[m ->]]; reflexivity. }
  cbv zeta. rewrite E1, E2. destruct (pstep1 c s a) as [[s1 e1] m1]. simpl in D.
  pose proof (p_td_on_done_quiet c s1 i b D B) as Q. cbv zeta in Q.
  destruct (pstep1 c s1 b) as [[s2 e2] m2]. simpl in *.
  destruct Q as (Q1 & Q2 & Q3 & Q4 & Q5 & Q6). repeat split; auto.
  rewrite filter_app.
  assert (F : filter not_padt e2 = []).
  { clear -Q6. induction e2 as [|e tl IH]; [reflexivity|]. simpl.
    unfold not_padt at 1. rewrite (Q6 e (or_introl eq_refl)). simpl. apply IH. intros e' I. apply Q6. now right. }
  rewrite F. apply app_nil_r.
Qed.

(* non-vacuity: on the established session of stP the first path does release the address and send the
   Stop, and the overlapped second path leaves exactly that *)
Lemma p_two_paths_example :
  let r := pstep cfgP stP (POverlap true (TdTerm 1) (TdPadt 1 1)) in
  snd (fst r) = [(4, 1); (3, 1); (2, 1)] /\ palloc (fst (fst r)) = [] /\ pstops (fst (fst r)) = [1] /\ tbl (fst (fst r)) = [].
Proof. vm_compute. repeat split. Qed.

(* ================================================================== DHCP renewals and the circuit-id *)
(* a renewal that carries no Circuit-ID (no option 82, or relay information without sub-option 1) keeps
   the circuit-id, the address and the accounting session of the lease: whatever ends the session later
   still finds the circuit-id bindings *)
Lemma d_renewal_keeps_circuit (c : dcfg) (s : dst) (mac : N) (relayed : bool) (l : lease) :
  aget mac (leases s) = Some l ->
  exists l', aget mac (leases (fst (fst (dstep c s (Request mac (l_ip l) 0 relayed))))) = Some l' /\
             l_cid l' = l_cid l /\ l_ip l' = l_ip l /\ l_sid l' = l_sid l.
Proof.
  intro H. unfold dstep, existing. rewrite H, N.eqb_refl. cbv zeta. simpl.
  rewrite aget_aput_same. eexists. repeat split.
Qed.

Lemma aget_aput_other {V} (k k' : N) (v : V) (m : amap V) : k <> k' -> aget k (aput k' v m) = aget k m.
Proof.
  intro Ne. induction m as [|[k0 v0] tl IH]; simpl.
  - destruct (k =? k') eqn:E; [apply N.eqb_eq in E; contradiction|reflexivity].
  - destruct (k' <? k0) eqn:L; simpl.
    + destruct (k =? k') eqn:E; [apply N.eqb_eq in E; contradiction|reflexivity].
    + destruct (k' =? k0) eqn:E0; simpl.
      * apply N.eqb_eq in E0. subst k0.
        destruct (k =? k') eqn:E; [apply N.eqb_eq in E; contradiction|reflexivity].
      * destruct (k =? k0); [reflexivity|exact IH].
Qed.

(* a renewal from another circuit drops the old circuit's index entry and both cache entries (when the
   index still points at this client's lease), so that no binding of the session survives under a
   circuit-id its lease no longer records *)
Lemma d_renewal_moved_drops_old (c : dcfg) (s : dst) (mac cid : N) (relayed : bool) (l : lease) :
  aget mac (leases s) = Some l -> cid <> 0 -> l_cid l <> 0 -> cid <> l_cid l ->
  match aget (l_cid l) (bycid s) with Some p => fst p =? mac | None => false end = true ->
  let s' := fst (fst (dstep c s (Request mac (l_ip l) cid relayed))) in
  aget (l_cid l) (bycid s') = None /\ aget (l_cid l) (chash s') = None /\ aget (l_cid l) (csub s') = None /\
  exists l', aget mac (leases s') = Some l' /\ l_cid l' = cid.
Proof.
  intros H C0 L0 Ne Own. unfold dstep, existing. rewrite H, N.eqb_refl. cbv zeta.
  assert (E0 : (cid =? 0) = false) by now apply N.eqb_neq.
  assert (E1 : (l_cid l =? 0) = false) by now apply N.eqb_neq.
  assert (E2 : (l_cid l =? cid) = false) by (apply N.eqb_neq; congruence).
  rewrite E0. simpl. rewrite E1, E2, Own, E0. simpl.
  assert (Ne' : l_cid l <> cid) by congruence.
  repeat split.
  - rewrite (aget_aput_other _ _ _ _ Ne'). apply aget_adel_same.
  - match goal with |- context [if ?b then _ else _] => destruct b end; [rewrite (aget_aput_other _ _ _ _ Ne')|]; apply aget_adel_same.
  - match goal with |- context [if ?b then _ else _] => destruct b end; [rewrite (aget_aput_other _ _ _ _ Ne')|]; apply aget_adel_same.
  - rewrite aget_aput_same. eexists. split; reflexivity.
Qed.

(* non-vacuity + fault injection: with qos_ingress full the policy of client 1 is half installed (egress
   bucket in the kernel, nothing tracked), the state is inside the guard, and RELEASE removes the bucket *)
Definition cfgDf : dcfg :=
  {| c_lo := 0; c_hi := 15; c_avail0 := [2;3;4;5;6;7;8;9;10;11;12;13;14]; c_lease := 3600%Z; c_radius := true;
     c_qos := true; c_nat := true; c_natcap := 4; c_cache := true; c_full := [5] |}.
Definition stDf : dst := drun cfgDf [Discover 1 1 true; Request 1 2 1 true].

Lemma d_half_installed_example :
  exists l, aget 1 (leases stDf) = Some l /\ dwf cfgDf stDf 1 l = true /\
            smem 2 (qos stDf) = true /\ smem 2 (qosi stDf) = false /\ smem 2 (qost stDf) = false /\
            dheld (fst (fst (dstep cfgDf stDf (Release 1)))) (dsess_lease 1 l) = [].
Proof. eexists. vm_compute. repeat split. Qed.

(* a REQUEST of the lease's owner for its address is a renewal WHATEVER the age of the lease (also when it
   has run out and the reaper has not met it yet): ACK, no Accounting-Start, same accounting session *)
Lemma d_renewal_no_new_session (c : dcfg) (s : dst) (mac cid : N) (relayed : bool) (l : lease) :
  aget mac (leases s) = Some l ->
  snd (fst (dstep c s (Request mac (l_ip l) cid relayed))) = (2, l_ip l, []) /\
  starts (fst (fst (dstep c s (Request mac (l_ip l) cid relayed)))) = starts s /\
  exists l', aget mac (leases (fst (fst (dstep c s (Request mac (l_ip l) cid relayed))))) = Some l' /\ l_sid l' = l_sid l.
Proof.
  intro H. unfold dstep, existing. rewrite H, N.eqb_refl. cbv zeta. simpl.
  rewrite aget_aput_same. repeat split. eexists. split; reflexivity.
Qed.
