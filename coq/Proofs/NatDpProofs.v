(* C10, data-plane half: the source port bpf/nat44.c chooses for a new flow lies inside the
   subscriber's port block.  Subject: [alloc_loop] / [allocate_port] / [choose_mapping] of
   Model/TcNatPkt.v (the Model of allocate_port_from_block and of the mapping choice of nat44_egress,
   built for C07 and tied to the compiled program there), reused unchanged. *)
From Coq Require Import NArith List Bool Lia ZifyN ZifyNat ZifyBool.
From Verif Require Import Base.Word Model.PktMonad Model.TcNatPkt.
Import ListNotations.
Local Open Scope N_scope.
Local Open Scope pkt_scope.

Definition in_block (pstart pend x : N) : Prop := pstart <= x /\ x <= pend.

Lemma land_m16_small x : x <= 65535 -> N.land x M16 = x.
Proof.
  intros H. change M16 with (N.ones 16). rewrite N.land_ones. apply N.mod_small.
  change (2 ^ 16) with 65536. lia.
Qed.

Lemma land_m32_small x : x <= 65536 -> N.land x 4294967295 = x.
Proof.
  intros H. change 4294967295 with (N.ones 32). rewrite N.land_ones. apply N.mod_small.
  change (2 ^ 32) with 4294967296. lia.
Qed.

(* one search of up to k iterations, from ANY cursor inside the block: whatever the parity request,
   the EIM table and the flow, the port returned is 0 (exhausted: the packet is dropped) or inside
   the block, and the cursor left behind is inside the block again -- including the wrap at the
   block end and a block ending at 65535 (cursor 65536 -> start) *)
Lemma alloc_loop_in_block k : forall mp pstart pend next parity op ip proto,
  pstart <= pend -> pend <= 65535 -> in_block pstart pend next ->
  let '(p, next') := alloc_loop k mp pstart pend next parity op ip proto in
  (p = 0 \/ in_block pstart pend p) /\ in_block pstart pend next'.
Proof.
  unfold in_block. induction k as [|k IH]; intros mp pstart pend next parity op ip proto H1 H2 [H3 H4]; cbn [alloc_loop].
  - split; [left; reflexivity|split; assumption].
  - rewrite (land_m16_small next) by lia. rewrite (land_m32_small (next + 1)) by lia.
    assert (Hp : (next >? pend) = false) by lia. rewrite Hp.
    assert (Hn : pstart <= (if next + 1 >? pend then pstart else next + 1) <= pend).
    { destruct (next + 1 >? pend) eqn:E; lia. }
    destruct (parity && negb (N.land next 1 =? op)).
    + apply IH; assumption.
    + destruct (mp MAP_EIM (eim_key ip next proto)).
      * apply IH; assumption.
      * split; [right; split; assumption|exact Hn].
Qed.

(* any number of new flows, one after the other: every port handed out is in the block *)
Fixpoint alloc_seq (k : nat) (mp : maps) (pstart pend next : N) (flows : list (bool * N * N * N)) : list N :=
  match flows with
  | [] => []
  | (parity, op, ip, proto) :: tl =>
      let '(p, next') := alloc_loop k mp pstart pend next parity op ip proto in
      p :: alloc_seq k mp pstart pend next' tl
  end.

Lemma alloc_seq_in_block k mp pstart pend flows : forall next,
  pstart <= pend -> pend <= 65535 -> in_block pstart pend next ->
  Forall (fun p => p = 0 \/ in_block pstart pend p) (alloc_seq k mp pstart pend next flows).
Proof.
  induction flows as [|[[[parity op] ip] proto] tl IH]; intros next H1 H2 H3; cbn [alloc_seq]; [constructor|].
  pose proof (alloc_loop_in_block k mp pstart pend next parity op ip proto H1 H2 H3) as H.
  destruct (alloc_loop k mp pstart pend next parity op ip proto) as [p next']. destruct H as [Hp Hn].
  constructor; [exact Hp|]. apply IH; assumption.
Qed.

(* the mapping nat44_egress chooses for a flow that has no session and no EIM entry of its own,
   read from the subscriber_nat value [sn] (port_start @4, port_end @6, next_port @8, public_ip @0):
   the subscriber's public address and a port of its block *)
Lemma choose_mapping_in_block mp sn saddr sport proto ip port :
  fld 4 2 sn <= fld 6 2 sn -> fld 6 2 sn <= 65535 -> in_block (fld 4 2 sn) (fld 6 2 sn) (fld 8 4 sn) ->
  mp MAP_EIM (eim_key saddr sport proto) = None ->
  choose_mapping mp sn saddr sport proto = Some (ip, port) ->
  ip = fld 0 4 sn /\ exists p, port = htons p /\ in_block (fld 4 2 sn) (fld 6 2 sn) p.
Proof.
  intros H1 H2 H3 Hm. unfold choose_mapping, allocate_port. rewrite Hm.
  set (par := has_flag (cfg_flags mp) NAT_FLAG_PORT_PARITY).
  destruct (has_flag (cfg_flags mp) NAT_FLAG_EIM_ENABLED).
  - pose proof (alloc_loop_in_block 64 mp _ _ _ par (N.land sport 1) saddr proto H1 H2 H3) as HA.
    destruct (alloc_loop 64 mp (fld 4 2 sn) (fld 6 2 sn) (fld 8 4 sn) par (N.land sport 1) saddr proto) as [p n1].
    destruct HA as [Hp Hn].
    destruct (p =? 0) eqn:E.
    + pose proof (alloc_loop_in_block 64 mp _ _ _ par (N.land (ntohs sport) 1) saddr proto H1 H2 Hn) as HB.
      destruct (alloc_loop 64 mp (fld 4 2 sn) (fld 6 2 sn) n1 par (N.land (ntohs sport) 1) saddr proto) as [p2 n2].
      destruct HB as [Hp2 _]. destruct (p2 =? 0) eqn:E2; [discriminate|].
      intros H; inversion H; subst. split; [reflexivity|]. exists p2. split; [reflexivity|].
      destruct Hp2 as [->|Hb]; [discriminate|exact Hb].
    + intros H; inversion H; subst. split; [reflexivity|]. exists p. split; [reflexivity|].
      destruct Hp as [->|Hb]; [discriminate|exact Hb].
  - pose proof (alloc_loop_in_block 64 mp _ _ _ par (N.land (ntohs sport) 1) saddr proto H1 H2 H3) as HB.
    destruct (alloc_loop 64 mp (fld 4 2 sn) (fld 6 2 sn) (fld 8 4 sn) par (N.land (ntohs sport) 1) saddr proto) as [p2 n2].
    destruct HB as [Hp2 _]. destruct (p2 =? 0) eqn:E2; [discriminate|].
    intros H; inversion H; subst. split; [reflexivity|]. exists p2. split; [reflexivity|].
    destruct Hp2 as [->|Hb]; [discriminate|exact Hb].
Qed.

(* refuted without the cursor invariant: the C never compares the candidate with port_start, so a
   cursor below the block (e.g. a zeroed entry, or the 16-bit truncation of a cursor that two CPUs
   pushed past 65535) is handed out as it is *)
Lemma alloc_loop_outside_block_refuted :
  ~ (forall mp pstart pend next, pstart <= pend -> pend <= 65535 ->
       let '(p, _) := alloc_loop 64 mp pstart pend next false 0 0 0 in p = 0 \/ in_block pstart pend p).
Proof.
  intros H. specialize (H (fun _ _ => None) 1024 2047 5).
  assert (A : 1024 <= 2047) by lia. assert (B : 2047 <= 65535) by lia. specialize (H A B).
  vm_compute in H. destruct H as [H|[H _]]; [discriminate|]. apply H. reflexivity.
Qed.

Example alloc_wraps_at_block_end :
  alloc_seq 64 (fun _ _ => None) 65532 65535 65534 [(false, 0, 0, 6); (false, 0, 0, 6); (false, 0, 0, 6); (false, 0, 0, 6)]
  = [65534; 65535; 65532; 65533].
Proof. vm_compute. reflexivity. Qed.
