(* Lemmas about Model/HashAlloc.v: uniqueness and range are refuted by computation. *)
From Coq Require Import NArith List Bool Lia.
From Verif Require Import Base.Word Model.PoolMap Model.Geometry Model.PoolSpec Model.HashAlloc.
Import ListNotations.
Local Open Scope N_scope.

Definition hrun (c : hcfg) (ops : list op) : hstate := fold_left (fun s o => fst (fst (step s o))) ops (hinit c).

(* pigeonhole in a /30 (two hosts): three subscribers, two of them share an address *)
Definition c30 : hcfg := {| h_base := 167772160; h_ppl := 30 |}.
Lemma hash_unique_refuted_slash30 :
  exists h1 h2 a, h1 <> h2 /\ aget h1 (hs_addr (hrun c30 [Alloc 1; Alloc 2; Alloc 3])) = Some a /\
                  aget h2 (hs_addr (hrun c30 [Alloc 1; Alloc 2; Alloc 3])) = Some a.
Proof.
  assert (E : hs_addr (hrun c30 [Alloc 1; Alloc 2; Alloc 3]) =
              [(3, hash_addr c30 3); (2, hash_addr c30 2); (1, hash_addr c30 1)]) by (vm_compute; reflexivity).
  assert (H12 : hash_addr c30 1 = hash_addr c30 2 \/ hash_addr c30 1 = hash_addr c30 3 \/ hash_addr c30 2 = hash_addr c30 3).
  { vm_compute. auto. }
  rewrite E. destruct H12 as [H|[H|H]].
  - exists 1, 2, (hash_addr c30 1). split; [discriminate|]. split; [reflexivity|]. rewrite H. reflexivity.
  - exists 1, 3, (hash_addr c30 1). split; [discriminate|]. split; [reflexivity|]. rewrite H. reflexivity.
  - exists 2, 3, (hash_addr c30 2). split; [discriminate|]. split; [reflexivity|]. rewrite H. reflexivity.
Qed.

(* a concrete FNV-1a collision modulo a /24 (254 hosts) among the first subscriber numbers *)
Definition c24 : hcfg := {| h_base := 167772160; h_ppl := 24 |}.
Fixpoint find_coll (c : hcfg) (seen : list (N * N)) (n : nat) (h : N) : option (N * N) :=
  match n with
  | O => None
  | S k => let a := hash_addr c h in
           match find (fun p => snd p =? a) seen with
           | Some p => Some (fst p, h)
           | None => find_coll c ((h, a) :: seen) k (h + 1)
           end
  end.
Definition coll24 : option (N * N) := Eval vm_compute in find_coll c24 [] 200 0.
Lemma hash_unique_refuted_slash24 :
  exists h1 h2, coll24 = Some (h1, h2) /\ h1 <> h2 /\ hash_addr c24 h1 = hash_addr c24 h2.
Proof.
  unfold coll24. eexists; eexists. split; [reflexivity|]. split; [discriminate|vm_compute; reflexivity].
Qed.

(* in_range refuted for a CIDR written with host bits: 93.6.30.118/26, subscriber "sub-11" *)
Definition c26 : hcfg := {| h_base := 1560675702; h_ppl := 26 |}.
Lemma hash_in_range_refuted : hash_usable c26 (hash_addr c26 11) = false.
Proof. vm_compute. reflexivity. Qed.

(* stability holds: a subscriber with an address gets it again *)
Lemma hash_stable c ops h a : aget h (hs_addr (hrun c ops)) = Some a ->
  step (hrun c ops) (Alloc h) = (hrun c ops, OUnit a, []).
Proof. intros H. cbn [step]. rewrite H. reflexivity. Qed.

(* in_range under the guard "the CIDR is written with its network address": the address is a host
   address of the pool, for every subscriber id *)
From Verif Require Import Proofs.GeometryProofs.
Lemma hash_in_range_partial c h : h_ppl c <= 30 -> h_base c < 4294967296 -> h_base c mod h_size c = 0 ->
  hash_usable c (hash_addr c h) = true.
Proof.
  intros Hp Hb Hal. unfold hash_usable, hash_addr, h_net. rewrite Hal, N.sub_0_r.
  assert (Hsz : 4 <= h_size c).
  { unfold h_size. change 4 with (2 ^ 2). apply N.pow_le_mono_r; lia. }
  assert (Hh : h_hosts c = h_size c - 2) by reflexivity.
  set (off := hash_string (sub_id h) mod h_hosts c + 1).
  assert (Hoff : 1 <= off /\ off <= h_size c - 2).
  { subst off. pose proof (N.mod_lt (hash_string (sub_id h)) (h_hosts c) ltac:(lia)). lia. }
  rewrite (nocarry_is_addition (h_base c) off (32 - h_ppl c)); [|lia|exact Hb|exact Hal|unfold h_size in *; lia].
  apply andb_true_intro. split; apply N.leb_le; lia.
Qed.

Example hash_in_range_guard_satisfiable :
  h_ppl c24 <= 30 /\ h_base c24 < 4294967296 /\ h_base c24 mod h_size c24 = 0.
Proof. vm_compute. repeat split; discriminate. Qed.
