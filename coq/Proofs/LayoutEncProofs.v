(* C06 - meaning-level encodings: the native and the BigEndian-idiom families, IPv6 / MAC / port members *)
From Coq Require Import NArith List Bool Arith Lia ZifyN ZifyNat ZifyBool.
From Verif Require Import Base.Word Model.Layout Model.KeyDeriv Model.LayoutEnc Model.LayoutCheck Proofs.LayoutProofs.
Import ListNotations.
Local Open Scope N_scope.

Definition wfb (l : bytes) : Prop := Forall (fun b => b < 256) l.

Lemma le_enc_le_dec : forall bs w, length bs = w -> wfb bs -> le_enc w (le_dec bs) = bs.
Proof.
  induction bs as [|b t IH]; intros w Hl Hw; subst w; cbn [length le_enc le_dec]; [reflexivity|].
  inversion Hw as [|? ? Hb Ht]; subst.
  assert (E1 : (b + 256 * le_dec t) mod 256 = b).
  { replace (b + 256 * le_dec t) with (b + le_dec t * 256) by lia. rewrite N.mod_add by discriminate. apply N.mod_small; exact Hb. }
  assert (E2 : (b + 256 * le_dec t) / 256 = le_dec t).
  { replace (b + 256 * le_dec t) with (b + le_dec t * 256) by lia. rewrite N.div_add by discriminate. rewrite (N.div_small b 256) by exact Hb. lia. }
  rewrite E1, E2. f_equal. apply IH; [reflexivity|exact Ht].
Qed.

Lemma wfb_firstn n : forall l, wfb l -> wfb (firstn n l).
Proof. induction n as [|n IH]; intros [|x l] H; cbn; try constructor; inversion H; subst; auto. apply IH; assumption. Qed.
Lemma wfb_skipn n : forall l, wfb l -> wfb (skipn n l).
Proof. induction n as [|n IH]; intros [|x l] H; cbn; try assumption; try constructor. inversion H; subst. apply IH; assumption. Qed.
Lemma wfb_rev l : wfb l -> wfb (rev l).
Proof. intros H. apply Forall_forall. intros x Hx. apply in_rev in Hx. eapply Forall_forall in H; eauto. Qed.

Lemma firstn_plus {A} (a b : nat) : forall l : list A, firstn (a + b) l = firstn a l ++ firstn b (skipn a l).
Proof. induction a as [|a IH]; intros [|x l]; cbn; try reflexivity; [destruct b; reflexivity|]. f_equal. apply IH. Qed.

(* ---- native family: the marshalled elements are the first w*k wire bytes, whatever the element width *)
Theorem marshal_words_ne w k : forall bs, (w * k <= length bs)%nat -> wfb bs ->
  marshal w (words_ne w k bs) = firstn (w * k) bs.
Proof.
  unfold marshal, words_ne, enc_elems.
  induction k as [|k IH]; intros bs Hl Hw.
  - rewrite Nat.mul_0_r. reflexivity.
  - cbn [chunks map flat_map].
    replace (w * S k)%nat with (w + w * k)%nat by lia. rewrite firstn_plus. f_equal.
    + apply le_enc_le_dec; [rewrite firstn_length; lia|apply wfb_firstn; exact Hw].
    + apply IH; [rewrite skipn_length; lia|apply wfb_skipn; exact Hw].
Qed.

Corollary marshal_words_ne_exact w k bs : length bs = (w * k)%nat -> wfb bs -> marshal w (words_ne w k bs) = bs.
Proof. intros Hl Hw. rewrite marshal_words_ne by (try lia; exact Hw). rewrite <- Hl. apply firstn_all. Qed.

(* ---- BigEndian idiom: every group of w bytes lands byte-reversed *)
Lemma be_val_snoc l x : be_val (l ++ [x]) = be_val l * 256 + x.
Proof. unfold be_val. rewrite fold_left_app. reflexivity. Qed.

Lemma be_val_le_dec_rev : forall l, be_val l = le_dec (rev l).
Proof.
  induction l as [|x l IH] using rev_ind; [reflexivity|].
  rewrite be_val_snoc, rev_app_distr. cbn [rev app le_dec]. rewrite IH. lia.
Qed.

Lemma le_enc_be_val w g : length g = w -> wfb g -> le_enc w (be_val g) = rev g.
Proof.
  intros Hl Hw. rewrite be_val_le_dec_rev. apply le_enc_le_dec; [rewrite rev_length; exact Hl|apply wfb_rev; exact Hw].
Qed.

Theorem marshal_words_be w k : forall bs, (w * k <= length bs)%nat -> wfb bs ->
  marshal w (words_be w k bs) = flat_map (@rev N) (chunks w k bs).
Proof.
  unfold marshal, words_be, enc_elems.
  induction k as [|k IH]; intros bs Hl Hw; [reflexivity|].
  cbn [chunks map flat_map]. f_equal.
  - apply le_enc_be_val; [rewrite firstn_length; lia|apply wfb_firstn; exact Hw].
  - apply IH; [rewrite skipn_length; lia|apply wfb_skipn; exact Hw].
Qed.

Lemma chunks_concat w k : forall bs, (w * k <= length bs)%nat -> concat (chunks w k bs) = firstn (w * k) bs.
Proof.
  induction k as [|k IH]; intros bs Hl; [rewrite Nat.mul_0_r; reflexivity|].
  cbn [chunks concat]. replace (w * S k)%nat with (w + w * k)%nat by lia. rewrite firstn_plus. f_equal.
  apply IH. rewrite skipn_length. lia.
Qed.

Lemma app_eq_len {A} (a b c d : list A) : length a = length c -> a ++ b = c ++ d -> a = c /\ b = d.
Proof.
  revert c; induction a as [|x a IH]; intros [|y c] Hl H; cbn in *; try discriminate; [auto|].
  inversion H; subst. destruct (IH c) as [-> ->]; auto.
Qed.

(* agreement of the BigEndian idiom with the wire bytes <-> every group is a byte palindrome *)
Theorem marshal_words_be_agree_iff w k : forall bs, length bs = (w * k)%nat -> wfb bs ->
  (marshal w (words_be w k bs) = c_net_bytes bs <-> group_palin w k bs = true).
Proof.
  unfold c_net_bytes, group_palin.
  induction k as [|k IH]; intros bs Hl Hw.
  - rewrite Nat.mul_0_r in Hl. destruct bs; [|discriminate]. cbn. tauto.
  - rewrite marshal_words_be by (try lia; exact Hw).
    cbn [chunks flat_map forallb].
    assert (Hs : length (skipn w bs) = (w * k)%nat) by (rewrite skipn_length; lia).
    assert (Hf : length (firstn w bs) = w) by (rewrite firstn_length; lia).
    specialize (IH (skipn w bs) Hs (wfb_skipn _ _ Hw)).
    rewrite marshal_words_be in IH by (try lia; apply wfb_skipn; exact Hw).
    rewrite andb_true_iff, bytes_eqb_eq, <- IH.
    split.
    + intros H. rewrite <- (firstn_skipn w bs) in H at 3.
      apply app_eq_len in H; [exact H|rewrite rev_length; reflexivity].
    + intros [H1 H2]. rewrite H1, H2. apply firstn_skipn.
Qed.

(* ---- IPv6 member *)
Theorem ip6_member_agree ip6 : wf_bytes_n 16 ip6 -> go_ip6_member ip6 = c_ip6_member ip6.
Proof. intros [Hl Hw]. unfold go_ip6_member, c_ip6_member, c_net_bytes. apply marshal_words_ne_exact; [exact Hl|exact Hw]. Qed.

Theorem ip6_member_be32_reversed ip6 : wf_bytes_n 16 ip6 ->
  go_ip6_member_be32 ip6 = flat_map (@rev N) (chunks 4 4 ip6).
Proof. intros [Hl Hw]. apply marshal_words_be; [rewrite Hl; cbn; lia|exact Hw]. Qed.

Theorem ip6_member_be32_agree_iff ip6 : wf_bytes_n 16 ip6 ->
  (go_ip6_member_be32 ip6 = c_ip6_member ip6 <-> group_palin 4 4 ip6 = true).
Proof. intros [Hl Hw]. apply marshal_words_be_agree_iff; [exact Hl|exact Hw]. Qed.

Definition ip6_doc : bytes := [32; 1; 13; 184; 0; 1; 0; 2; 161; 178; 195; 212; 229; 246; 7; 8].   (* 2001:db8:1:2:a1b2:c3d4:e5f6:708 *)
Lemma ip6_doc_wf : wf_bytes_n 16 ip6_doc.
Proof. split; [reflexivity|]. repeat constructor. Qed.
Theorem ip6_member_be32_refuted : ~ (forall ip6, wf_bytes_n 16 ip6 -> go_ip6_member_be32 ip6 = c_ip6_member ip6).
Proof. intros H. specialize (H ip6_doc ip6_doc_wf). vm_compute in H. discriminate. Qed.

(* the IPv4 helpers are the one-group instance of the same family *)
Theorem go_ip_bytes_words_be ip : wf_bytes_n 4 ip -> go_ip_bytes ip = marshal 4 (words_be 4 1 ip).
Proof.
  intros [Hl Hw]. do 5 (destruct ip as [|? ip]; try discriminate).
  unfold go_ip_bytes, go_ip_u32_be, marshal, words_be, enc_elems. cbn [chunks map flat_map firstn]. rewrite app_nil_r. reflexivity.
Qed.

(* ---- MAC member *)
Theorem mac_member_agree mac : (6 <= length mac)%nat -> wfb mac -> go_mac_member mac = c_mac_member mac.
Proof.
  intros Hl Hw. unfold go_mac_member, c_mac_member, c_net_bytes.
  destruct (Nat.leb 6 (length mac)) eqn:E; [|apply Nat.leb_gt in E; lia].
  apply (marshal_words_ne 1 6 mac); [cbn; lia|exact Hw].
Qed.

(* ---- ports *)
Theorem port_host_agree p : go_port_member p = c_port_host p.
Proof. unfold go_port_member, marshal, enc_elems, c_port_host. cbn [flat_map]. apply app_nil_r. Qed.

Theorem port_net_agree_iff p : p < 65536 -> (go_port_member p = c_port_net p <-> port_palin p = true).
Proof.
  intros Hp. unfold go_port_member, marshal, enc_elems, c_port_net, port_palin. cbn [flat_map le_enc be_bytes app].
  change (256 ^ N.of_nat 1) with 256. change (256 ^ N.of_nat 0) with 1. rewrite N.div_1_r.
  assert (Hq : p / 256 < 256) by (apply N.div_lt_upper_bound; lia).
  rewrite (N.mod_small (p / 256) 256) by exact Hq.
  rewrite N.eqb_eq. split.
  - intros H. inversion H. lia.
  - intros H. rewrite H. reflexivity.
Qed.

Theorem port_net_refuted : ~ (forall p, p < 65536 -> go_port_member p = c_port_net p).
Proof. intros H. specialize (H 53 eq_refl). vm_compute in H. discriminate. Qed.

(* ---- Model inside the monitor *)
Theorem model_val6_accepted ip6 : wf_bytes_n 16 ip6 ->
  accept tt (OVal 1 ip6) (snd (fst (step tt (OVal 1 ip6)))) = inl tt.
Proof.
  intros H. cbn [step fst snd accept]. change (1 =? 1) with true. cbv iota.
  rewrite (ip6_member_agree _ H). rewrite !l_eqb_refl. reflexivity.
Qed.

Theorem model_valmac_accepted mac : (6 <= length mac)%nat -> wfb mac ->
  accept tt (OVal 2 mac) (snd (fst (step tt (OVal 2 mac)))) = inl tt.
Proof.
  intros Hl Hw. cbn [step fst snd accept]. change (2 =? 1) with false. cbv iota.
  rewrite (mac_member_agree _ Hl Hw). rewrite !l_eqb_refl. reflexivity.
Qed.

(* a member whose bytes are not the wire bytes is rejected whatever the program did *)
Theorem val_wrong_bytes_rejected fam v bs h :
  l_eqb bs (if fam =? 1 then c_ip6_member v else c_mac_member v) = false ->
  accept tt (OVal fam v) [bs; [h]] = inr CL_VAL.
Proof. intros H. cbn [accept]. rewrite H. reflexivity. Qed.
