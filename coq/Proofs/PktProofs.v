(* C07: the Spec acceptor (Model/PktSpec.v) accepts every run of every Model program; the one
   exception (DHCP fast path, frames of 64 KiB and more) is refuted with a witness. *)
From Coq Require Import NArith List Bool Lia ZifyN ZifyNat ZifyBool.
From Verif Require Import Base.Word Model.PktMonad Model.TcAntispoofPkt Model.TcQosPkt Model.TcNatPkt Model.XdpDhcpPkt
  Model.PktSpec Proofs.PktMonadProofs Proofs.PktAntispoofProofs Proofs.PktQosProofs Proofs.PktNatProofs Proofs.PktDhcpProofs.
Import ListNotations.
Local Open Scope N_scope.

Lemma diff_from_same i f : diff_from i f f = [].
Proof. revert i; induction f as [|b f IH]; intro i; cbn; [reflexivity|]. rewrite N.eqb_refl. apply IH. Qed.
Lemma unchanged_same f v : unchanged f (obs_of f (Done v f)) = true.
Proof. unfold unchanged, obs_of; cbn. rewrite N.eqb_refl, diff_from_same. reflexivity. Qed.

Lemma accept_obs_ok p mp f (oc : outcome) :
  oc <> Fault ->
  (forall v f', oc = Done v f' -> defined_verdict p v = true) ->
  (forall v f', oc = Done v f' -> is_pass p v = true -> f' = f \/ act p mp f = true) ->
  accept_obs p mp f (obs_of f oc) = inl tt.
Proof.
  intros Hf Hd Hp. destruct oc as [v f'|]; [|contradiction].
  unfold accept_obs.
  replace (o_fault (obs_of f (Done v f'))) with false by reflexivity.
  replace (o_verdict (obs_of f (Done v f'))) with v by reflexivity.
  rewrite (Hd v f' eq_refl). cbn [negb].
  destruct (is_pass p v) eqn:E; [|reflexivity].
  destruct (Hp v f' eq_refl E) as [->|Ha].
  - rewrite unchanged_same. reflexivity.
  - rewrite Ha. rewrite andb_false_r. reflexivity.
Qed.

Definition accepted (p : N) (mp : maps) (e : env) (f : frame) : Prop :=
  accept_obs p mp f (obs_of f (run (prog_of p mp e) f)) = inl tt.

Theorem accepted_antispoof : forall mp e f, accepted P_ANTISPOOF mp e f.
Proof.
  intros. apply accept_obs_ok; change (prog_of P_ANTISPOOF mp e) with (antispoof_ingress mp).
  - apply no_oob_antispoof.
  - intros v f' H. destruct (verdict_antispoof _ _ _ _ H); subst; reflexivity.
  - intros v f' H _. left. eapply untouched_antispoof; eauto.
Qed.
Theorem accepted_qos_egress : forall mp e f, accepted P_QOS_EGRESS mp e f.
Proof.
  intros. apply accept_obs_ok; change (prog_of P_QOS_EGRESS mp e) with (qos_egress_prog mp e).
  - apply no_oob_qos_egress.
  - intros v f' H. destruct (verdict_qos_egress _ _ _ _ _ H); subst; reflexivity.
  - intros v f' H _. left. eapply untouched_qos_egress; eauto.
Qed.
Theorem accepted_qos_ingress : forall mp e f, accepted P_QOS_INGRESS mp e f.
Proof.
  intros. apply accept_obs_ok; change (prog_of P_QOS_INGRESS mp e) with (qos_ingress_prog mp e).
  - apply no_oob_qos_ingress.
  - intros v f' H. destruct (verdict_qos_ingress _ _ _ _ _ H); subst; reflexivity.
  - intros v f' H _. left. eapply untouched_qos_ingress; eauto.
Qed.
Theorem accepted_nat_egress : forall mp e f, accepted P_NAT_EGRESS mp e f.
Proof.
  intros. apply accept_obs_ok; change (prog_of P_NAT_EGRESS mp e) with (nat44_egress mp).
  - apply no_oob_nat_egress.
  - intros v f' H. destruct (verdict_nat_egress _ _ _ _ H); subst; reflexivity.
  - intros v f' H _. eapply pass_untouched_nat_egress; eauto.
Qed.
Theorem accepted_nat_ingress : forall mp e f, accepted P_NAT_INGRESS mp e f.
Proof.
  intros. apply accept_obs_ok; change (prog_of P_NAT_INGRESS mp e) with (nat44_ingress mp).
  - apply no_oob_nat_ingress.
  - intros v f' H. rewrite (verdict_nat_ingress _ _ _ _ H). reflexivity.
  - intros v f' H _. eapply pass_untouched_nat_ingress; eauto.
Qed.
Theorem accepted_nat_hairpin : forall mp e f, accepted P_NAT_HAIRPIN mp e f.
Proof.
  intros. apply accept_obs_ok; change (prog_of P_NAT_HAIRPIN mp e) with (nat44_hairpin_xdp mp).
  - apply no_oob_nat_hairpin.
  - intros v f' H. rewrite (verdict_nat_hairpin _ _ _ _ H). reflexivity.
  - intros v f' H _. left. eapply untouched_nat_hairpin; eauto.
Qed.
Theorem accepted_dhcp_partial : forall mp e f, dhcp_guard f = true -> accepted P_DHCP mp e f.
Proof.
  intros mp e f G. apply accept_obs_ok; change (prog_of P_DHCP mp e) with (dhcp_fastpath_prog mp e).
  - apply no_oob_dhcp.
  - intros v f' H. destruct (verdict_dhcp _ _ _ _ _ H); subst; reflexivity.
  - intros v f' H Hp. left. apply N.eqb_eq in Hp. eapply pass_untouched_dhcp_partial; eauto.
Qed.

(* ---- the statement of the property over the Model, and its status *)
Definition valid_prog (p : N) : bool := (1 <=? p) && (p <=? 7).
Definition C07_statement : Prop := forall p mp e f, valid_prog p = true -> accepted p mp e f.
Definition C07_guard (p : N) (f : frame) : bool := negb (p =? P_DHCP) || dhcp_guard f.

Theorem C07_partial : forall p mp e f, valid_prog p = true -> C07_guard p f = true -> accepted p mp e f.
Proof.
  intros p mp e f Hv Hg. unfold valid_prog in Hv.
  assert (Hp : p = 1 \/ p = 2 \/ p = 3 \/ p = 4 \/ p = 5 \/ p = 6 \/ p = 7) by lia.
  destruct Hp as [->|[->|[->|[->|[->|[->| ->]]]]]].
  - apply accepted_antispoof.
  - apply accepted_qos_egress.
  - apply accepted_qos_ingress.
  - apply accepted_nat_egress.
  - apply accepted_nat_ingress.
  - apply accepted_nat_hairpin.
  - apply accepted_dhcp_partial. exact Hg.
Qed.

(* ---- witnesses *)
Definition w_maps : maps := fun id _ =>
  if id =? MAP_SUBSCRIBER_POOLS then Some [7;0;0;0; 10;0;0;10; 0;0;0;0; 1; 255;255;255;255;255;255;255;255; 0; 0;0;0]
  else if id =? MAP_IP_POOLS then Some [10;0;0;0; 24;0;0;0; 10;0;0;1; 8;8;8;8; 0;0;0;0; 16;14;0;0; 0;0;0;0]
  else if id =? MAP_SERVER_CONFIG then Some [2;0;0;0;0;254; 0;0; 10;0;0;1; 2;0;0;0]
  else None.
Definition w_env : env := {| e_now := 5000000000; e_skblen := 0; e_maxlen := 3520 |}.
(* a DHCPDISCOVER of the cached subscriber 02:00:00:00:00:01 with [opts] option bytes after [53;1;1] *)
Definition w_discover (opts : nat) : frame :=
  repeat 255 6 ++ [2;0;0;0;0;1] ++ [8;0] ++
  [69;0;1;72; 0;0;0;0; 64;17;0;0; 0;0;0;0; 255;255;255;255] ++
  [0;68;0;67;1;52;0;0] ++
  [1;1;6;0] ++ repeat 0 24 ++ [2;0;0;0;0;1] ++ repeat 0 10 ++ repeat 7 192 ++ [99;130;83;99] ++
  [53;1;1] ++ repeat 0 opts.

(* answered from the cache: XDP_TX, 328 bytes *)
Lemma ex_dhcp_tx : exists f', run (dhcp_fastpath_prog w_maps w_env) (w_discover 100) = Done XDP_TX f' /\ flen f' = 328
                              /\ dhcp_guard (w_discover 100) = true.
Proof. eexists. vm_compute. repeat split; reflexivity. Qed.
(* the 300-byte BOOTP minimum (60 option bytes) of a cached subscriber: passed up, untouched
   (before /repo c10bfec the same frame came back rewritten with XDP_PASS) *)
Lemma ex_dhcp_bootp300_pass : run (dhcp_fastpath_prog w_maps w_env) (w_discover 57) = Done XDP_PASS (w_discover 57).
Proof. vm_compute. reflexivity. Qed.

(* a frame of 64 KiB + 100 bytes: orig_len = (u16)len = 100, the program asks for +223 bytes, the
   helper has no such tailroom, the rewritten frame is passed up *)
Lemma dhcp_big_frame_check :
  match run (dhcp_fastpath_prog w_maps w_env) (w_discover 65291) with
  | Done v f' => (v =? XDP_PASS) && negb (bytes_eqb f' (w_discover 65291))
  | Fault => false
  end = true.
Proof. vm_compute. reflexivity. Qed.
Lemma dhcp_big_frame_pass_modified :
  exists f', run (dhcp_fastpath_prog w_maps w_env) (w_discover 65291) = Done XDP_PASS f' /\ bytes_eqb f' (w_discover 65291) = false.
Proof.
  pose proof dhcp_big_frame_check as H.
  destruct (run (dhcp_fastpath_prog w_maps w_env) (w_discover 65291)) as [v f'|]; [|discriminate].
  apply andb_true_iff in H. destruct H as [Hv Hn]. apply N.eqb_eq in Hv. subst v.
  exists f'. split; [reflexivity|]. apply negb_true_iff in Hn. exact Hn.
Qed.

Definition pass_untouched_dhcp_statement : Prop :=
  forall mp e f v f', run (dhcp_fastpath_prog mp e) f = Done v f' -> v = XDP_PASS -> f' = f.
(* the refutations are stated for an abstract frame F first, so that nothing tries to normalise the
   65 KiB witness outside vm_compute *)
Lemma pass_untouched_dhcp_refuted_by mp e F f' :
  run (dhcp_fastpath_prog mp e) F = Done XDP_PASS f' -> bytes_eqb f' F = false -> ~ pass_untouched_dhcp_statement.
Proof.
  intros Hr Hne H. rewrite (H _ _ _ _ _ Hr eq_refl) in Hne.
  assert (bytes_eqb F F = true) by (apply bytes_eqb_eq; reflexivity). congruence.
Qed.
Theorem pass_untouched_dhcp_refuted : ~ pass_untouched_dhcp_statement.
Proof. destruct dhcp_big_frame_pass_modified as [f' [Hr Hne]]. exact (pass_untouched_dhcp_refuted_by _ _ _ _ Hr Hne). Qed.

Lemma diff_from_nil_eq : forall (a b : frame) i, flen b = flen a -> diff_from i a b = [] -> b = a.
Proof.
  induction a as [|x a IH]; intros [|y b] i L E; cbn in *; try reflexivity; try (unfold flen in L; cbn in L; lia).
  destruct (x =? y) eqn:Exy; [|discriminate]. apply N.eqb_eq in Exy. subst. f_equal. apply (IH b (i + 1)); auto.
  unfold flen in *. cbn in L. lia.
Qed.
Lemma accept_pass_modified_rejected p mp F f' :
  is_pass p XDP_PASS = true -> defined_verdict p XDP_PASS = true -> act p mp F = false -> bytes_eqb f' F = false ->
  accept_obs p mp F (obs_of F (Done XDP_PASS f')) = inr 2.
Proof.
  intros Hp Hd Ha Hne. unfold accept_obs.
  replace (o_fault (obs_of F (Done XDP_PASS f'))) with false by reflexivity.
  replace (o_verdict (obs_of F (Done XDP_PASS f'))) with XDP_PASS by reflexivity.
  rewrite Hd, Hp, Ha. cbn [negb andb].
  destruct (unchanged F (obs_of F (Done XDP_PASS f'))) eqn:U; [|reflexivity].
  exfalso. unfold unchanged in U. apply andb_true_iff in U. destruct U as [U1 U2].
  change (o_len (obs_of F (Done XDP_PASS f'))) with (flen f') in U1.
  change (o_diff (obs_of F (Done XDP_PASS f'))) with (diff_from 0 F f') in U2.
  apply N.eqb_eq in U1. destruct (diff_from 0 F f') eqn:Ed; [|discriminate].
  rewrite (diff_from_nil_eq _ _ _ U1 Ed) in Hne.
  assert (bytes_eqb F F = true) by (apply bytes_eqb_eq; reflexivity). congruence.
Qed.
Lemma C07_statement_refuted_by mp e F f' :
  run (dhcp_fastpath_prog mp e) F = Done XDP_PASS f' -> bytes_eqb f' F = false -> ~ C07_statement.
Proof.
  intros Hr Hne H. specialize (H P_DHCP mp e F eq_refl). unfold accepted in H.
  change (prog_of P_DHCP mp e) with (dhcp_fastpath_prog mp e) in H. rewrite Hr in H.
  rewrite accept_pass_modified_rejected in H; [discriminate|reflexivity|reflexivity|reflexivity|exact Hne].
Qed.
Theorem C07_statement_refuted : ~ C07_statement.
Proof. destruct dhcp_big_frame_pass_modified as [f' [Hr Hne]]. exact (C07_statement_refuted_by _ _ _ _ Hr Hne). Qed.

(* ---- non-vacuity *)
(* the monad does fault on an out-of-frame access *)
Lemma ex_oob : run (b <- rd8 14 ;; ret b)%pkt (repeat 0 14) = Fault /\ run (wr16 13 7 ;;; ret 0)%pkt (repeat 0 14) = Fault
               /\ run (b <- rd8 13 ;; ret b)%pkt (repeat 0 14) = Done 0 (repeat 0 14).
Proof. vm_compute. repeat split; reflexivity. Qed.

(* NAT egress rewrites the packet of a subscriber with a port block and returns TC_ACT_OK: the act
   disjunct of pass_untouched_nat_egress is reachable, and needed *)
Definition w_nat_maps : maps := fun id _ =>
  if id =? MAP_SUBSCRIBER_NAT then Some ([203;0;113;7; 208;7; 15;8; 218;7;0;0] ++ repeat 0 52)
  else None.
Definition w_nat_frame : frame :=
  [2;0;0;0;0;254; 2;0;0;0;0;1; 8;0] ++ [69;0;0;40; 0;0;0;0; 64;17;0;0; 10;0;0;5; 198;51;100;20] ++ [156;65;0;53;0;20;190;239] ++ repeat 0 12.
Lemma ex_nat_egress_acts :
  exists f', run (nat44_egress w_nat_maps) w_nat_frame = Done TC_ACT_OK f' /\ bytes_eqb f' w_nat_frame = false
             /\ act_nat_egress w_nat_maps w_nat_frame = true
             /\ firstn 4 (skipn 26 f') = [203;0;113;7].
Proof. eexists. vm_compute. repeat split; reflexivity. Qed.
(* without a port block the same packet passes untouched *)
Lemma ex_nat_egress_nosub : run (nat44_egress (fun _ _ => None)) w_nat_frame = Done TC_ACT_OK w_nat_frame.
Proof. vm_compute. reflexivity. Qed.
(* truncated anywhere, it never faults and passes *)
Lemma ex_truncations : forallb (fun k => match run (nat44_egress w_nat_maps) (firstn k w_nat_frame) with Done 0 _ => true | _ => false end) (seq 0 55) = true.
Proof. vm_compute. reflexivity. Qed.
