(* C17: health bookkeeping theorems and the refinement "the monitor accepts every run of the Model
   inside the guards" (Model/RendezvousSpec.v accept against Model/Rendezvous.v step). *)
From Coq Require Import PeanoNat NArith List Bool Lia Permutation Sorted ZifyN ZifyNat ZifyBool.
From Verif Require Import Base.Word Base.Check Model.Rendezvous Model.RendezvousSpec Proofs.RendezvousProofs.
Import ListNotations.
Local Open Scope N_scope.

(* ================= health bookkeeping (checkPeer) ================= *)
(* number of failures at the head of a list = consecutive failures at the end of the reversed history *)
Fixpoint lead_fails (l : list bool) : N :=
  match l with false :: tl => 1 + lead_fails tl | _ => 0 end.
Definition consec_fails (rs : list bool) : N := lead_fails (rev rs).
Definition run_chk (rs : list bool) : bool * N := fold_left chk rs (true, 0).

Lemma chk_inv h ok : fst h = negb (health_threshold <=? snd h) ->
  fst (chk h ok) = negb (health_threshold <=? snd (chk h ok)) /\ snd (chk h ok) = if ok then 0 else snd h + 1.
Proof.
  unfold chk, health_threshold. destruct h as [b f]; cbn [fst snd]. intros Hb. destruct ok; cbn [fst snd].
  - split; reflexivity.
  - split; [|reflexivity]. subst b. destruct (3 <=? f) eqn:E1; destruct (3 <=? f + 1) eqn:E2; cbn; try reflexivity; lia.
Qed.

Lemma run_chk_spec rs :
  fst (run_chk rs) = negb (health_threshold <=? consec_fails rs) /\ snd (run_chk rs) = consec_fails rs.
Proof.
  unfold run_chk, consec_fails. induction rs as [|r rs IH] using rev_ind.
  - cbn. split; reflexivity.
  - rewrite fold_left_app, rev_app_distr. cbn [fold_left rev app].
    destruct IH as [I1 I2].
    assert (Hi : fst (fold_left chk rs (true, 0)) = negb (health_threshold <=? snd (fold_left chk rs (true, 0))))
      by (rewrite I1, I2; reflexivity).
    destruct (chk_inv _ r Hi) as [C1 C2]. rewrite C1, C2, I2. destruct r; cbn [lead_fails]; split; try reflexivity.
    + f_equal. f_equal. lia.
    + lia.
Qed.

(* a peer is unhealthy exactly when the history of its checks ends with >= 3 consecutive failures *)
Lemma unhealthy_iff_three_fails rs : fst (run_chk rs) = false <-> 3 <= consec_fails rs.
Proof. destruct (run_chk_spec rs) as [H _]. rewrite H. unfold health_threshold. destruct (3 <=? consec_fails rs) eqn:E; cbn; split; intros; try lia; try discriminate; reflexivity. Qed.

(* one success makes it healthy again, whatever happened before *)
Lemma healthy_after_success rs : run_chk (rs ++ [true]) = (true, 0).
Proof. unfold run_chk. rewrite fold_left_app. reflexivity. Qed.

(* the third consecutive failure is the one that flips a healthy peer *)
Lemma third_failure_flips rs :
  fst (run_chk rs) = true -> (fst (run_chk (rs ++ [false])) = false <-> consec_fails rs = 2).
Proof.
  intros Hh. rewrite unhealthy_iff_three_fails.
  assert (consec_fails rs < 3).
  { destruct (N.ltb_spec (consec_fails rs) 3) as [L|L]; [exact L|]. apply unhealthy_iff_three_fails in L. congruence. }
  unfold consec_fails in *. rewrite rev_app_distr. cbn [rev app lead_fails]. lia.
Qed.

(* ================= list-update helpers ================= *)
Definition updl {A} (l : list A) (n : N) (f : A -> A) : list A :=
  map (fun p => if fst p =? n then f (snd p) else snd p) (combine (map N.of_nat (seq 0 (length l))) l).

Fixpoint upd_from {A} (i : N) (l : list A) (n : N) (f : A -> A) : list A :=
  match l with [] => [] | x :: tl => (if i =? n then f x else x) :: upd_from (i + 1) tl n f end.

Lemma updl_from_gen {A} (l : list A) n f a :
  map (fun p => if fst p =? n then f (snd p) else snd p) (combine (map N.of_nat (seq a (length l))) l)
  = upd_from (N.of_nat a) l n f.
Proof.
  revert a; induction l as [|x tl IH]; intros a; cbn; [reflexivity|].
  f_equal. rewrite IH. f_equal. lia.
Qed.
Lemma updl_from {A} (l : list A) n f : updl l n f = upd_from 0 l n f.
Proof. unfold updl. exact (updl_from_gen l n f 0). Qed.

Lemma upd_from_length {A} i (l : list A) n f : length (upd_from i l n f) = length l.
Proof. revert i; induction l; intros; cbn; auto. Qed.

Lemma upd_from_map {A B} (g : A -> B) i (l : list A) n f f' :
  (forall x, g (f x) = f' (g x)) -> map g (upd_from i l n f) = upd_from i (map g l) n f'.
Proof.
  intros H. revert i; induction l as [|x tl IH]; intros i; cbn; [reflexivity|].
  rewrite IH. f_equal. destruct (i =? n); auto.
Qed.

Lemma upd_from_map_id {A B} (g : A -> B) i (l : list A) n f :
  (forall x, g (f x) = g x) -> map g (upd_from i l n f) = map g l.
Proof.
  intros H. revert i; induction l as [|x tl IH]; intros i; cbn; [reflexivity|].
  rewrite IH. f_equal. destruct (i =? n); auto.
Qed.

Lemma upd_from_Forall {A} (P : A -> Prop) i (l : list A) n f :
  Forall P l -> (forall x, P x -> P (f x)) -> Forall P (upd_from i l n f).
Proof.
  intros Hl Hf. revert i; induction Hl as [|x tl Hx Htl IH]; intros i; cbn; constructor; auto.
  destruct (i =? n); auto.
Qed.

Lemma upd_from_nth {A} i (l : list A) n f d m :
  nth m (upd_from i l n f) d = if (i + N.of_nat m =? n) && Nat.ltb m (length l) then f (nth m l d) else nth m l d.
Proof.
  revert i m; induction l as [|x tl IH]; intros i m; cbn [upd_from nth length].
  - destruct m; rewrite andb_false_r; reflexivity.
  - destruct m as [|m].
    + cbn. replace (i + 0) with i by lia. destruct (i =? n); reflexivity.
    + rewrite IH. replace (i + 1 + N.of_nat m) with (i + N.of_nat (S m)) by lia.
      replace (Nat.ltb (S m) (S (length tl))) with (Nat.ltb m (length tl)); [reflexivity|].
      destruct (Nat.ltb m (length tl)) eqn:E1; destruct (Nat.ltb (S m) (S (length tl))) eqn:E2; try reflexivity;
        apply Nat.ltb_lt in E1 || apply Nat.ltb_ge in E1; apply Nat.ltb_lt in E2 || apply Nat.ltb_ge in E2; lia.
Qed.

Lemma upd_eq (s : state) n f : upd s n f = upd_from 0 s n f.
Proof. exact (updl_from s n f). Qed.
Lemma supd_nodes ss n f : s_nodes (supd ss n f) = upd_from 0 (s_nodes ss) n f.
Proof. unfold supd; cbn [s_nodes]. exact (updl_from (s_nodes ss) n f). Qed.

Definition dnode : node := {| self := []; cfg := []; peers := []; unhealthy := []; fails := []; holds := []; alias := false |}.
Lemma getn_upd s n f m :
  getn (upd s n f) m = if (m =? n) && Nat.ltb (N.to_nat m) (length s) then f (getn s m) else getn s m.
Proof.
  unfold getn. fold dnode. rewrite upd_eq, upd_from_nth.
  replace (0 + N.of_nat (N.to_nat m)) with m by lia. reflexivity.
Qed.
Lemma upd_length s n f : length (upd s n f) = length s.
Proof. rewrite upd_eq. apply upd_from_length. Qed.

(* ================= boolean reflection ================= *)
Lemma list_bytes_eqb_eq a b : list_bytes_eqb a b = true <-> a = b.
Proof.
  revert b; induction a as [|x a IH]; intros [|y b]; cbn; try (split; congruence).
  rewrite andb_true_iff, bytes_eqb_eq, IH. split; [intros [-> ->]; reflexivity|intros H; inversion H; auto].
Qed.
Lemma bytes_eqb_refl a : bytes_eqb a a = true.
Proof. apply bytes_eqb_eq. reflexivity. Qed.
Lemma bytes_eqb_neq a b : bytes_eqb a b = false <-> a <> b.
Proof. split; [intros H E; apply bytes_eqb_eq in E; congruence|]. intros H. destruct (bytes_eqb a b) eqn:E; [apply bytes_eqb_eq in E; contradiction|reflexivity]. Qed.
Lemma is_minus_spec S S' p : is_minus S S' p = true -> In p S /\ S' = remove_first p S.
Proof.
  unfold is_minus. rewrite andb_true_iff, mem_s_In, list_bytes_eqb_eq. intros [H1 H2]. split; [exact H1|symmetry; exact H2].
Qed.

Lemma mem_without x p l : mem_s x (without p l) = mem_s x l && negb (bytes_eqb x p).
Proof.
  unfold without, mem_s. induction l as [|y tl IH]; cbn [filter existsb]; [reflexivity|].
  destruct (bytes_eqb y p) eqn:E; cbn [negb existsb].
  - rewrite IH. apply bytes_eqb_eq in E. subst y. destruct (bytes_eqb x p) eqn:E2; cbn.
    + rewrite andb_false_r. reflexivity.
    + reflexivity.
  - rewrite IH. destruct (bytes_eqb x y) eqn:E2; cbn; [|reflexivity].
    apply bytes_eqb_eq in E2. subst y. rewrite E. reflexivity.
Qed.
Lemma mem_mark x un p h : mem_s x (mark un p h) = if bytes_eqb x p then negb h else mem_s x un.
Proof.
  unfold mark. destruct h.
  - rewrite mem_without. destruct (bytes_eqb x p); cbn; [apply andb_false_r|apply andb_true_r].
  - rewrite (mem_s_perm x _ _ (sort_s_perm _)). cbn [mem_s existsb]. fold (mem_s x (without p un)).
    rewrite mem_without. destruct (bytes_eqb x p); cbn; [reflexivity|apply andb_true_r].
Qed.

Lemma remove_first_mem x p l : In p l -> mem_s x (p :: remove_first p l) = mem_s x l.
Proof.
  intros Hin. induction l as [|y tl IH]; [destruct Hin|]. cbn [remove_first].
  destruct (bytes_eqb y p) eqn:E.
  - apply bytes_eqb_eq in E. subst y. reflexivity.
  - destruct Hin as [->|Hin]; [rewrite bytes_eqb_refl in E; discriminate|].
    specialize (IH Hin). cbn [mem_s existsb] in *. fold (mem_s x tl) (mem_s x (remove_first p tl)) in *.
    rewrite <- IH. destruct (bytes_eqb x p), (bytes_eqb x y); reflexivity.
Qed.

Lemma first_healthy_ext un1 un2 r :
  (forall x, mem_s x un1 = mem_s x un2) -> first_healthy un1 r = first_healthy un2 r.
Proof. intros H. induction r as [|n tl IH]; cbn; [reflexivity|]. rewrite H, IH. reflexivity. Qed.

Lemma first_healthy_in un r x : first_healthy un r = Some x -> In x r.
Proof.
  induction r as [|n tl IH]; cbn; [discriminate|]. destruct (negb (mem_s n un)); [intros H; injection H as <-; left; reflexivity|].
  intros H; right; auto.
Qed.

(* removing p from the unhealthy set / adding it: the elected node changes only if it is / was p *)
Lemma first_healthy_step un p r a b :
  first_healthy (p :: un) r = Some a -> first_healthy un r = Some b -> b <> p -> a = b.
Proof.
  intros Ha Hb Hne. destruct (list_eq_dec N.eq_dec a b) as [E|E]; [exact E|exfalso].
  pose proof (first_healthy_minimal un p r) as Hm. rewrite Ha, Hb in Hm.
  assert (Some b = Some p) as Hq by (apply Hm; congruence). injection Hq as ->. apply Hne. reflexivity.
Qed.

Lemma remove_first_sorted p l : StronglySorted lex_le l -> StronglySorted lex_le (remove_first p l).
Proof.
  induction 1 as [|y tl Hs IH Hall]; cbn; [constructor|]. destruct (bytes_eqb y p); [exact Hs|].
  constructor; [exact IH|]. rewrite Forall_forall in *. intros x Hx. apply Hall. eapply remove_first_in; eauto.
Qed.
Lemma remove_first_in_other x p l : In x l -> x <> p -> In x (remove_first p l).
Proof.
  induction l as [|y tl IH]; cbn; [tauto|]. intros [->|Hin] Hne.
  - destruct (bytes_eqb x p) eqn:E; [apply bytes_eqb_eq in E; contradiction|left; reflexivity].
  - destruct (bytes_eqb y p); [exact Hin|right; auto].
Qed.
Lemma sort_s_id l : StronglySorted lex_le l -> sort_s l = l.
Proof. intros H. apply sorted_perm_unique; [apply sort_s_sorted|exact H|apply sort_s_perm]. Qed.

(* ================= guards ================= *)
Definition suffix8081 : bytes := [58; 56; 48; 56; 49].
Section Refine.
  Variable U : list bytes.      (* the peer names that may occur *)
  Variable K : list bytes.      (* the subscriber ids GetOwner / IsLocalOwner / ranked are asked about *)
  Variable selfs : list bytes.  (* node ids, by node index *)

  (* scores of k over U are positive and pairwise distinct *)
  Definition good_b (k : bytes) : bool :=
    forallb (fun a => (0 <? score k a) && forallb (fun b => negb (score k a =? score k b) || bytes_eqb a b) U) U.
  (* K17b: some X and "X:8081" are both names *)
  Definition conflated_b : bool := existsb (fun a => mem_s (a ++ suffix8081) U) U.
  Definition nth_self (n : N) : bytes := nth (N.to_nat n) selfs [].
  Definition valid_n (n : N) : bool := Nat.ltb (N.to_nat n) (length selfs).
  Definition op_okb (o : op) : bool :=
    match o with
    | AddPeer n p => valid_n n && mem_s p U
    | RemovePeer n p => valid_n n && negb (bytes_eqb p (nth_self n))         (* a node does not remove itself *)
    | SetHealth n p h => valid_n n && (h || negb (bytes_eqb p (nth_self n)))  (* K17a: no node marks itself unhealthy *)
    | CheckPeer n p _ => valid_n n && negb (bytes_eqb p (nth_self n))         (* the loop skips the node itself *)
    | GetOwner n k | IsLocal n k | Ranked n k => valid_n n && mem_s k K
    | Alloc n k => valid_n n && bytes_eqb (utf8_coerce k) k   (* K17d: the id survives the JSON body *)
    | HealthyOwner n _ | Release n _ | Get n _ => valid_n n
    | Holds _ => true
    end.
  Definition cfg_okb (c : bytes * list bytes) : bool := mem_s (fst c) U && forallb (fun p => mem_s p U) (snd c).

  Definition good (k : bytes) : Prop := pos_g (score k) U /\ inj_g (score k) U.
  Lemma good_b_ok k : good_b k = true -> good k.
  Proof.
    unfold good_b. rewrite forallb_forall. intros H. split.
    - intros a Ha. specialize (H a Ha). apply andb_true_iff in H. destruct H as [H _]. lia.
    - intros a b Ha Hb E. specialize (H a Ha). apply andb_true_iff in H. destruct H as [_ H].
      rewrite forallb_forall in H. specialize (H b Hb). apply orb_true_iff in H. destruct H as [H|H].
      + apply negb_true_iff in H. lia.
      + apply bytes_eqb_eq; exact H.
  Qed.
  Lemma good_sub k l : good k -> incl l U -> scores_pos k l /\ scores_inj k l.
  Proof. intros [Hp Hi] Hl. split; [intros n Hn; apply Hp, Hl, Hn|intros a b Ha Hb; apply Hi; apply Hl; assumption]. Qed.

  Hypothesis HK : forallb good_b K = true.
  Hypothesis Hconf : conflated_b = false.

  Lemma K_good k : mem_s k K = true -> good k.
  Proof. intros H. apply good_b_ok. rewrite forallb_forall in HK. apply HK. apply mem_s_In. exact H. Qed.

  (* ================= invariant, part A ================= *)
  Definition node_ok (nd : node) : Prop :=
    StronglySorted lex_le (peers nd) /\ In (self nd) (peers nd) /\ mem_s (self nd) (unhealthy nd) = false /\
    incl (peers nd) U /\ incl (cfg nd) U.
  Definition abs_node (nd : node) : snode := {| s_self := self nd; s_set := peers nd; s_un := unhealthy nd |}.
  Definition obs_ok (o : obs) : Prop :=
    incl (o_set o) U /\
    ((o_tag o = 0 /\ good (o_key o) /\ o_ans o = owner (o_key o) (o_set o)) \/
     (o_tag o = 1 /\ first_healthy (o_un o) (ranked (o_key o) (o_set o)) = Some (o_ans o))).
  Definition InvA (s : state) (ss : sstate) : Prop :=
    s_nodes ss = map abs_node s /\ map self s = selfs /\ Forall node_ok s /\ Forall obs_ok (s_obs ss).

  (* ---- the checks pass on true answers ---- *)
  Lemma ok_owner_none obsl S k :
    Forall obs_ok obsl -> incl S U -> good k -> ok_owner obsl S k (owner k S) = None.
  Proof.
    intros Hobs HS Hk. destruct (good_sub k S Hk HS) as [HposS HinjS].
    rewrite Forall_forall in Hobs. unfold ok_owner.
    assert (H0 : forallb (fun o => negb ((o_tag o =? 0) && list_bytes_eqb (o_set o) S && bytes_eqb (o_key o) k)
                              || bytes_eqb (o_ans o) (owner k S)) obsl = true).
    { apply forallb_forall. intros o Ho. destruct ((o_tag o =? 0) && list_bytes_eqb (o_set o) S && bytes_eqb (o_key o) k) eqn:E; [|reflexivity].
      apply andb_true_iff in E. destruct E as [E E3]. apply andb_true_iff in E. destruct E as [E1 E2].
      apply list_bytes_eqb_eq in E2. apply bytes_eqb_eq in E3. cbn [negb orb].
      destruct (Hobs o Ho) as [_ [(_ & _ & Ha)|(Ht & _)]]; [|rewrite Ht in E1; discriminate].
      rewrite Ha, E2, E3. apply bytes_eqb_refl. }
    rewrite H0. cbn [negb].
    assert (H1 : match S with [] => true | _ :: _ => mem_s (owner k S) S end = true).
    { destruct S as [|a tl]; [reflexivity|]. apply mem_s_In. apply owner_in; [discriminate|exact HposS]. }
    rewrite H1. cbn [negb].
    match goal with |- (if negb (forallb ?f obsl) then _ else _) = _ => assert (H3 : forallb f obsl = true) end.
    { apply forallb_forall. intros o Ho.
      destruct ((o_tag o =? 0) && bytes_eqb (o_key o) k) eqn:E; [|reflexivity]. cbn [negb orb].
      apply andb_true_iff in E. destruct E as [E1 E3]. apply bytes_eqb_eq in E3.
      destruct (Hobs o Ho) as [Hsub [(_ & Hgo & Ha)|(Ht & _)]]; [|rewrite Ht in E1; discriminate].
      rewrite E3 in Ha, Hgo. destruct (good_sub k (o_set o) Hgo Hsub) as [Hpo _].
      apply andb_true_iff. split.
      - destruct (existsb _ (o_set o)) eqn:Ex; [|reflexivity]. cbn [negb orb].
        apply existsb_exists in Ex. destruct Ex as (p & Hp & Hc). apply andb_true_iff in Hc. destruct Hc as [Hm Hne].
        apply is_minus_spec in Hm. destruct Hm as [_ ->]. apply negb_true_iff, bytes_eqb_neq in Hne.
        apply bytes_eqb_eq. rewrite Ha in *.
        destruct (list_eq_dec N.eq_dec (owner k (remove_first p (o_set o))) (owner k (o_set o))) as [E|E]; [symmetry; exact E|].
        exfalso. apply Hne. apply removal_minimal; assumption.
      - destruct (existsb _ S) eqn:Ex; [|reflexivity]. cbn [negb orb].
        apply existsb_exists in Ex. destruct Ex as (p & Hp & Hc). apply andb_true_iff in Hc. destruct Hc as [Hm Hne].
        apply is_minus_spec in Hm. destruct Hm as [_ Hm]. apply negb_true_iff, bytes_eqb_neq in Hne.
        apply bytes_eqb_eq. rewrite Ha, Hm.
        destruct (list_eq_dec N.eq_dec (owner k (remove_first p S)) (owner k S)) as [E|E]; [exact E|].
        exfalso. apply Hne. apply removal_minimal; assumption. }
    rewrite H3. reflexivity.
  Qed.

  Lemma ok_health_none obsl S Un k a :
    Forall obs_ok obsl -> first_healthy Un (ranked k S) = Some a -> ok_health obsl S Un k a = None.
  Proof.
    intros Hobs Ha. rewrite Forall_forall in Hobs. unfold ok_health.
    match goal with |- (if negb (forallb ?f obsl) then _ else _) = _ => assert (H4 : forallb f obsl = true) end.
    { apply forallb_forall. intros o Ho.
      destruct ((o_tag o =? 1) && list_bytes_eqb (o_set o) S && bytes_eqb (o_key o) k) eqn:E; [|reflexivity]. cbn [negb orb].
      apply andb_true_iff in E. destruct E as [E E3]. apply andb_true_iff in E. destruct E as [E1 E2].
      apply list_bytes_eqb_eq in E2. apply bytes_eqb_eq in E3.
      destruct (Hobs o Ho) as [_ [(Ht & _)|(_ & Hb)]]; [rewrite Ht in E1; discriminate|].
      rewrite E2, E3 in Hb.
      apply andb_true_iff. split; [apply andb_true_iff; split|].
      - destruct (list_bytes_eqb (o_un o) Un) eqn:Eu; [|reflexivity]. cbn [negb orb].
        apply list_bytes_eqb_eq in Eu. rewrite Eu in Hb. apply bytes_eqb_eq. congruence.
      - destruct (existsb _ Un) eqn:Ex; [|reflexivity]. cbn [negb orb].
        apply existsb_exists in Ex. destruct Ex as (p & Hp & Hc). apply andb_true_iff in Hc. destruct Hc as [Hm Hne].
        apply is_minus_spec in Hm. destruct Hm as [Hin Hm]. apply negb_true_iff, bytes_eqb_neq in Hne.
        apply bytes_eqb_eq. symmetry. rewrite Hm in Hb.
        eapply (first_healthy_step (remove_first p Un) p); [|exact Hb|exact Hne].
        rewrite <- Ha. apply first_healthy_ext. intros x. apply remove_first_mem. exact Hin.
      - destruct (existsb _ (o_un o)) eqn:Ex; [|reflexivity]. cbn [negb orb].
        apply existsb_exists in Ex. destruct Ex as (p & Hp & Hc). apply andb_true_iff in Hc. destruct Hc as [Hm Hne].
        apply is_minus_spec in Hm. destruct Hm as [Hin Hm]. apply negb_true_iff, bytes_eqb_neq in Hne.
        apply bytes_eqb_eq. rewrite Hm in Ha.
        eapply (first_healthy_step (remove_first p (o_un o)) p); [|exact Ha|exact Hne].
        rewrite <- Hb. apply first_healthy_ext. intros x. apply remove_first_mem. exact Hin. }
    rewrite H4. reflexivity.
  Qed.

  (* ---- access lemmas ---- *)
  Lemma sget_abs s ss n : s_nodes ss = map abs_node s -> sget ss n = abs_node (getn s n).
  Proof.
    intros H. unfold sget, getn. rewrite H.
    change {| s_self := []; s_set := []; s_un := [] |} with (abs_node dnode). apply map_nth.
  Qed.
  Lemma valid_lt s n : map self s = selfs -> valid_n n = true -> (N.to_nat n < length s)%nat.
  Proof. intros H V. unfold valid_n in V. apply Nat.ltb_lt in V. rewrite <- H, map_length in V. exact V. Qed.
  Lemma node_ok_getn s n : map self s = selfs -> Forall node_ok s -> valid_n n = true -> node_ok (getn s n).
  Proof.
    intros H F V. rewrite Forall_forall in F. apply F. unfold getn. apply nth_In. eapply valid_lt; eauto.
  Qed.
  Lemma self_getn s n : map self s = selfs -> self (getn s n) = nth_self n.
  Proof. intros H. unfold getn, nth_self. rewrite <- H. fold dnode. symmetry. exact (map_nth self s dnode (N.to_nat n)). Qed.

  Lemma ho_some nd k : node_ok nd ->
    first_healthy (unhealthy nd) (ranked k (peers nd)) = Some (healthy_owner (self nd) (unhealthy nd) k (peers nd)).
  Proof.
    intros (_ & Hin & Hun & _). unfold healthy_owner. rewrite first_eligible_healthy_self by exact Hun.
    destruct (first_healthy (unhealthy nd) (ranked k (peers nd))) eqn:E; [reflexivity|].
    exfalso. eapply (first_healthy_some (unhealthy nd) (ranked k (peers nd)) (self nd)); eauto.
    eapply Permutation_in; [symmetry; apply ranked_perm|exact Hin].
  Qed.
  Lemma ho_in nd k : node_ok nd -> In (healthy_owner (self nd) (unhealthy nd) k (peers nd)) U.
  Proof.
    intros Hok. pose proof (ho_some nd k Hok) as H. apply first_healthy_in in H.
    destruct Hok as (_ & _ & _ & Hsub & _). apply Hsub. eapply Permutation_in; [apply ranked_perm|exact H].
  Qed.

  Lemma find_idx_spec i s a j : find_idx i s a = Some j ->
    exists m, j = i + N.of_nat m /\ (m < length s)%nat /\ self (nth m s dnode) = a /\
              forall m', (m' < m)%nat -> self (nth m' s dnode) <> a.
  Proof.
    revert i; induction s as [|x tl IH]; intros i; cbn [find_idx]; [discriminate|].
    destruct (bytes_eqb (self x) a) eqn:E.
    - intros H; injection H as <-. exists 0%nat. apply bytes_eqb_eq in E.
      split; [lia|]. split; [cbn; lia|]. split; [exact E|]. intros m' Hm. lia.
    - intros H. destruct (IH _ H) as (m & -> & Hm & Hs & Hf). exists (S m).
      split; [lia|]. split; [cbn [length]; lia|]. split; [exact Hs|].
      intros [|m'] Hlt; cbn [nth]; [apply bytes_eqb_neq; exact E|apply Hf; lia].
  Qed.
  Lemma find_idx_self s a j : find_idx 0 s a = Some j -> self (getn s j) = a /\ (N.to_nat j < length s)%nat.
  Proof.
    intros H. destruct (find_idx_spec 0 s a j H) as (m & -> & Hm & Hs & _). unfold getn. fold dnode.
    replace (N.to_nat (0 + N.of_nat m)) with m by lia. split; assumption.
  Qed.

  Lemma peer_addr_id nd r : incl (cfg nd) U -> In r U -> peer_addr nd r = r.
  Proof.
    intros Hc Hr. unfold peer_addr. destruct (find _ (cfg nd)) as [p|] eqn:E; [|reflexivity].
    apply find_some in E. destruct E as [Hp E]. apply orb_true_iff in E. destruct E as [E|E]; apply bytes_eqb_eq in E; [exact E|].
    exfalso. unfold conflated_b in Hconf. assert (existsb (fun a => mem_s (a ++ suffix8081) U) U = true); [|congruence].
    apply existsb_exists. exists r. split; [exact Hr|]. apply mem_s_In. apply Hc. unfold suffix8081. rewrite <- E. exact Hp.
  Qed.

  (* a forwarded request is executed by the node the healthy owner names *)
  Lemma target_self s n r j mk : map self s = selfs -> node_ok (getn s n) -> In r U ->
    target s n r = (Some j, mk) -> self (getn s j) = r /\ mk = [] /\ (valid_n n = true -> (N.to_nat j < length s)%nat).
  Proof.
    intros Hs Hok Hr. unfold target. destruct (bytes_eqb r (self (getn s n))) eqn:E.
    - intros H; injection H as <- <-. apply bytes_eqb_eq in E. split; [auto|]. split; [reflexivity|].
      intros V. eapply valid_lt; eauto.
    - destruct Hok as (_ & _ & _ & _ & Hc). rewrite (peer_addr_id _ r Hc Hr).
      destruct (negb (host_ok r)); [discriminate|]. destruct (find_idx 0 s r) as [j'|] eqn:F; [|discriminate].
      destruct (find_idx_self s r j' F) as [Hj Hlt]. rewrite Hj, bytes_eqb_refl. intros H; injection H as <- <-. auto.
  Qed.

  (* updates that do not touch what the A part sees *)
  Lemma InvA_upd_abs s ss j f :
    (forall x, abs_node (f x) = abs_node x) -> (forall x, cfg (f x) = cfg x) ->
    InvA s ss -> InvA (upd s j f) ss.
  Proof.
    intros Hf Hc (H1 & H2 & H3 & H4).
    assert (Hself : forall x, self (f x) = self x) by (intros x; exact (f_equal s_self (Hf x))).
    split; [|split; [|split]]; auto.
    - rewrite H1, upd_eq. symmetry. apply upd_from_map_id. exact Hf.
    - rewrite upd_eq, upd_from_map_id; auto.
    - rewrite upd_eq. apply upd_from_Forall; [exact H3|]. intros x (A & B & C & D & E).
      pose proof (Hf x) as Hx. unfold abs_node in Hx. injection Hx as X1 X2 X3. unfold node_ok. rewrite X1, X2, X3, Hc. auto.
  Qed.
  Lemma add_hold_abs k x : abs_node (add_hold k x) = abs_node x.
  Proof. unfold add_hold. destruct (mem_s k (holds x)); reflexivity. Qed.
  Lemma add_hold_cfg k x : cfg (add_hold k x) = cfg x.
  Proof. unfold add_hold. destruct (mem_s k (holds x)); reflexivity. Qed.

  Lemma upd_from_Forall_idx {A} (P : A -> Prop) i (l : list A) n f :
    Forall P l -> (forall m x, nth_error l m = Some x -> i + N.of_nat m = n -> P x -> P (f x)) ->
    Forall P (upd_from i l n f).
  Proof.
    intros Hl. revert i; induction Hl as [|x tl Hx Htl IH]; intros i Hf; cbn; constructor.
    - destruct (i =? n) eqn:E; [|exact Hx]. apply (Hf 0%nat x); [reflexivity|lia|exact Hx].
    - apply IH. intros m y Hm Hi. apply (Hf (S m) y); [exact Hm|lia].
  Qed.
  Lemma nth_error_self s m x : map self s = selfs -> nth_error s m = Some x -> self x = nth_self (N.of_nat m).
  Proof.
    intros H Hm. unfold nth_self. rewrite <- H. replace (N.to_nat (N.of_nat m)) with m by lia.
    transitivity (self (nth m s dnode)); [f_equal; symmetry; apply nth_error_nth; exact Hm|].
    symmetry. exact (map_nth self s dnode m).
  Qed.

  (* updates of the views: the abstract update commutes, node_ok holds for the updated node *)
  Lemma InvA_upd_view s ss n f f' :
    (forall x, abs_node (f x) = f' (abs_node x)) -> (forall x, self (f x) = self x) ->
    (forall x, node_ok x -> self x = nth_self n -> node_ok (f x)) ->
    InvA s ss -> InvA (upd s n f) (supd ss n f').
  Proof.
    intros Hf Hself Hok (H1 & H2 & H3 & H4). split; [|split; [|split]].
    - rewrite supd_nodes, H1, upd_eq. symmetry. apply upd_from_map. exact Hf.
    - rewrite upd_eq, upd_from_map_id; auto.
    - rewrite upd_eq. apply upd_from_Forall_idx; [exact H3|]. intros m x Hm Hi Hx. apply Hok; [exact Hx|].
      rewrite (nth_error_self s m x H2 Hm). f_equal. lia.
    - exact H4.
  Qed.

  Lemma mark_self_ok x p h : node_ok x -> (h = true \/ p <> self x) -> mem_s (self x) (mark (unhealthy x) p h) = false.
  Proof.
    intros (_ & _ & Hun & _) Hc. rewrite mem_mark. destruct (bytes_eqb (self x) p) eqn:E; [|exact Hun].
    apply bytes_eqb_eq in E. destruct Hc as [->|Hc]; [reflexivity|]. congruence.
  Qed.

  Lemma skipn_incl {A} n (l : list A) : incl (skipn n l) l.
  Proof. intros x Hx. rewrite <- (firstn_skipn n l). apply in_or_app. right. exact Hx. Qed.

  Lemma add_peer_node_abs p x :
    abs_node (add_peer_node p x) =
    (fun nd => if mem_s p (s_set nd) then nd else {| s_self := s_self nd; s_set := sort_s (p :: s_set nd); s_un := s_un nd |}) (abs_node x).
  Proof.
    cbv beta. change (s_set (abs_node x)) with (peers x). unfold add_peer_node.
    destruct (mem_s p (peers x)); [reflexivity|].
    assert (E : sort_s (peers x ++ [p]) = sort_s (p :: peers x)) by (apply sort_s_perm_eq; symmetry; apply Permutation_cons_append).
    destruct (alias x); [destruct (Nat.ltb _ _)|]; unfold abs_node, set_peers; cbn [self peers unhealthy s_self s_un s_set]; rewrite E; reflexivity.
  Qed.
  Lemma add_peer_node_self p x : self (add_peer_node p x) = self x.
  Proof. unfold add_peer_node. destruct (mem_s p (peers x)); [reflexivity|]. destruct (alias x); [destruct (Nat.ltb _ _)|]; reflexivity. Qed.
  Lemma add_peer_node_holds p x : holds (add_peer_node p x) = holds x.
  Proof. unfold add_peer_node. destruct (mem_s p (peers x)); [reflexivity|]. destruct (alias x); [destruct (Nat.ltb _ _)|]; reflexivity. Qed.
  Lemma add_peer_node_ok p x : mem_s p U = true -> node_ok x -> node_ok (add_peer_node p x).
  Proof.
    intros Hp (A & B & C & D & Ecf). unfold add_peer_node. destruct (mem_s p (peers x)) eqn:M; [repeat split; assumption|].
    assert (Hin : forall y, In y (sort_s (peers x ++ [p])) -> In y U).
    { intros y Hy. eapply Permutation_in in Hy; [|apply sort_s_perm]. apply in_app_or in Hy.
      destruct Hy as [Hy|[<-|[]]]; [apply D; exact Hy|apply mem_s_In; exact Hp]. }
    assert (Hself : In (self x) (sort_s (peers x ++ [p]))).
    { eapply Permutation_in; [symmetry; apply sort_s_perm|]. apply in_or_app. left. exact B. }
    destruct (alias x); [destruct (Nat.ltb _ _)|]; unfold node_ok, set_peers; cbn [self peers unhealthy cfg];
      (split; [apply sort_s_sorted|]; split; [exact Hself|]; split; [exact C|]; split; [exact Hin|]); try exact Ecf.
    intros y Hy. apply in_app_or in Hy. destruct Hy as [Hy|Hy]; [apply Hin; exact Hy|apply Ecf; eapply skipn_incl; exact Hy].
  Qed.

  Lemma remove_peer_node_abs p x :
    abs_node (remove_peer_node p x) =
    (fun nd => {| s_self := s_self nd; s_set := remove_first p (s_set nd); s_un := s_un nd |}) (abs_node x).
  Proof. unfold remove_peer_node. destruct (alias x && mem_s p (peers x)); reflexivity. Qed.
  Lemma remove_peer_node_self p x : self (remove_peer_node p x) = self x.
  Proof. unfold remove_peer_node. destruct (alias x && mem_s p (peers x)); reflexivity. Qed.
  Lemma remove_peer_node_holds p x : holds (remove_peer_node p x) = holds x.
  Proof. unfold remove_peer_node. destruct (alias x && mem_s p (peers x)); reflexivity. Qed.
  Lemma remove_peer_node_ok p x : p <> self x -> node_ok x -> node_ok (remove_peer_node p x).
  Proof.
    intros Hne (A & B & C & D & Ecf).
    assert (Hin : incl (remove_first p (peers x)) U) by (intros y Hy; apply D; eapply remove_first_in; eauto).
    unfold remove_peer_node. destruct (alias x && mem_s p (peers x)); unfold node_ok, set_peers; cbn [self peers unhealthy cfg];
      (split; [apply remove_first_sorted; exact A|]; split; [apply remove_first_in_other; [exact B|congruence]|];
       split; [exact C|]; split; [exact Hin|]); try exact Ecf.
    intros y Hy. apply in_app_or in Hy. destruct Hy as [Hy|Hy]; [apply Hin; exact Hy|apply Ecf; eapply skipn_incl; exact Hy].
  Qed.

  (* ================= one step, part A ================= *)
  Lemma stepA s ss o : InvA s ss -> op_okb o = true ->
    exists sa, acceptA ss o (snd (fst (step s o))) = inl sa /\ InvA (fst (fst (step s o))) sa.
  Proof.
    intros Inv Hop. pose proof Inv as (H1 & H2 & H3 & H4).
    destruct o as [n p|n p|n p h|n k|n k|n k|n k|n k|n k|n k|k|n p up]; cbn [op_okb] in Hop;
      try (apply andb_true_iff in Hop; destruct Hop as [V Hop]).
    - (* AddPeer *) cbn [step fst snd acceptA]. eexists; split; [reflexivity|].
      apply InvA_upd_view; auto.
      + intros x. apply add_peer_node_abs.
      + intros x. apply add_peer_node_self.
      + intros x Hx _. apply add_peer_node_ok; assumption.
    - (* RemovePeer *) cbn [step fst snd acceptA]. eexists; split; [reflexivity|].
      apply InvA_upd_view; auto.
      + intros x. apply remove_peer_node_abs.
      + intros x. apply remove_peer_node_self.
      + intros x Hx Hs. apply remove_peer_node_ok; [|exact Hx]. apply negb_true_iff, bytes_eqb_neq in Hop. congruence.
    - (* SetHealth *) cbn [step fst snd acceptA]. eexists; split; [reflexivity|].
      apply InvA_upd_view; auto.
      intros x Hx Hs. pose proof Hx as (A & B & C & D & Ecf). unfold node_ok; cbn.
      split; [exact A|]. split; [exact B|]. split; [|split; assumption].
      apply mark_self_ok; [exact Hx|]. apply orb_true_iff in Hop. destruct Hop as [Hop|Hop]; [left; exact Hop|right].
      apply negb_true_iff, bytes_eqb_neq in Hop. congruence.
    - (* GetOwner *) cbn [step fst snd acceptA]. rewrite (sget_abs s ss n H1). cbn [abs_node s_set].
      pose proof (node_ok_getn s n H2 H3 V) as (A & B & C & D & Ecf).
      rewrite ok_owner_none; [|exact H4|exact D|apply K_good; exact Hop].
      eexists; split; [reflexivity|]. split; [exact H1|split; [exact H2|split; [exact H3|]]].
      cbn [srec s_obs]. constructor; [|exact H4]. split; [exact D|]. left. cbn. split; [reflexivity|]. split; [apply K_good; exact Hop|reflexivity].
    - (* IsLocal *) cbn [step fst snd acceptA]. rewrite (sget_abs s ss n H1). cbn [abs_node s_set s_self].
      match goal with |- exists sa, (if ?c then _ else _) = _ /\ _ => assert (Hc : c = true) end.
      { apply forallb_forall. intros o Ho. rewrite Forall_forall in H4.
        destruct ((o_tag o =? 0) && list_bytes_eqb (o_set o) (peers (getn s n)) && bytes_eqb (o_key o) k) eqn:E; [|reflexivity].
        apply andb_true_iff in E. destruct E as [E E3]. apply andb_true_iff in E. destruct E as [E1 E2].
        apply list_bytes_eqb_eq in E2. apply bytes_eqb_eq in E3. cbn [negb orb].
        destruct (H4 o Ho) as [_ [(_ & _ & Ha)|(Ht & _)]]; [|rewrite Ht in E1; discriminate].
        rewrite Ha, E2, E3. apply eqb_reflx. }
      rewrite Hc. eexists; split; [reflexivity|exact Inv].
    - (* Ranked *) cbn [step fst snd acceptA]. rewrite (sget_abs s ss n H1). cbn [abs_node s_set].
      pose proof (node_ok_getn s n H2 H3 V) as (A & B & C & D & Ecf).
      assert (Hs : list_bytes_eqb (sort_s (ranked k (peers (getn s n)))) (peers (getn s n)) = true).
      { apply list_bytes_eqb_eq. rewrite (sort_s_perm_eq _ _ (ranked_perm k _)). apply sort_s_id. exact A. }
      rewrite Hs. cbn [negb].
      match goal with |- exists sa, (if negb ?c then _ else _) = _ /\ _ => assert (Hc : c = true) end.
      { apply forallb_forall. intros o Ho. rewrite Forall_forall in H4.
        destruct ((o_tag o =? 0) && list_bytes_eqb (o_set o) (peers (getn s n)) && bytes_eqb (o_key o) k) eqn:E; [|reflexivity].
        apply andb_true_iff in E. destruct E as [E E3]. apply andb_true_iff in E. destruct E as [E1 E2].
        apply list_bytes_eqb_eq in E2. apply bytes_eqb_eq in E3. cbn [negb orb].
        destruct (H4 o Ho) as [_ [(_ & _ & Ha)|(Ht & _)]]; [|rewrite Ht in E1; discriminate].
        destruct (ranked k (peers (getn s n))) as [|h r] eqn:Er; [reflexivity|].
        apply bytes_eqb_eq. rewrite Ha, E2, E3. symmetry.
        destruct (good_sub k _ (K_good k Hop) D) as [Hp Hi]. eapply ranked_head_owner; eauto. }
      rewrite Hc. eexists; split; [reflexivity|exact Inv].
    - (* HealthyOwner *) rename Hop into V. cbn [step howner_mk fst snd acceptA]. rewrite (sget_abs s ss n H1). cbn [abs_node s_set s_un].
      pose proof (node_ok_getn s n H2 H3 V) as Hok. pose proof Hok as (A & B & C & D & Ecf).
      rewrite (ok_health_none _ _ _ _ _ H4 (ho_some _ k Hok)).
      eexists; split; [reflexivity|]. split; [exact H1|split; [exact H2|split; [exact H3|]]].
      cbn [srec s_obs]. constructor; [|exact H4]. split; [exact D|]. right. cbn. split; [reflexivity|apply ho_some; exact Hok].
    - (* Alloc *) apply bytes_eqb_eq in Hop. cbn [step howner_mk].
      match goal with |- context [if ?b then k else utf8_coerce k] =>
        assert (Hk : (if b then k else utf8_coerce k) = k) by (rewrite Hop; destruct b; reflexivity) end.
      rewrite Hk. clear Hk.
      pose proof (node_ok_getn s n H2 H3 V) as Hok. pose proof Hok as (A & B & C & D & Ecf).
      destruct (target s n _) as [[j|] mk2] eqn:T; cbn [fst snd].
      + destruct (target_self s n _ j mk2 H2 Hok (ho_in _ k Hok) T) as (Hj & _ & _).
        rewrite Hj. cbn [acceptA]. rewrite bytes_eqb_refl. cbn [negb]. rewrite (sget_abs s ss n H1). cbn [abs_node s_set s_un].
        rewrite (ok_health_none _ _ _ _ _ H4 (ho_some _ k Hok)).
        eexists; split; [reflexivity|].
        assert (Inv' : InvA (upd s j (add_hold k)) ss) by (apply InvA_upd_abs; [apply add_hold_abs|apply add_hold_cfg|exact Inv]).
        destruct Inv' as (I1 & I2 & I3 & I4). split; [exact I1|split; [exact I2|split; [exact I3|]]].
        cbn [srec s_obs]. constructor; [|exact H4]. split; [exact D|]. right. cbn. split; [reflexivity|apply ho_some; exact Hok].
      + cbn [acceptA]. eexists; split; [reflexivity|exact Inv].
    - (* Release *) rename Hop into V. cbn [step howner_mk].
      destruct (bytes_eqb _ (self (getn s n))); cbn [fst snd].
      + cbn [acceptA]. eexists; split; [reflexivity|]. apply InvA_upd_abs; auto.
      + destruct (target s n _) as [[j|] mk2]; destruct (url_id k); cbn [fst snd acceptA];
          (eexists; split; [reflexivity|]); try exact Inv. apply InvA_upd_abs; auto.
    - (* Get *) rename Hop into V. cbn [step fst snd acceptA]. rewrite (sget_abs s ss n H1). cbn [abs_node s_set s_self].
      match goal with |- exists sa, (if ?c then _ else _) = _ /\ _ => assert (Hc : c = true) end.
      { destruct (bytes_eqb (owner k (peers (getn s n))) (self (getn s n))) eqn:Eo; [|reflexivity].
        destruct (mem_s k (holds (getn s n))); [|reflexivity]. cbn [andb negb orb].
        apply bytes_eqb_eq in Eo.
        apply forallb_forall. intros o Ho. rewrite Forall_forall in H4.
        destruct ((o_tag o =? 0) && list_bytes_eqb (o_set o) (peers (getn s n)) && bytes_eqb (o_key o) k) eqn:E; [|reflexivity].
        apply andb_true_iff in E. destruct E as [E E3]. apply andb_true_iff in E. destruct E as [E1 E2].
        apply list_bytes_eqb_eq in E2. apply bytes_eqb_eq in E3. cbn [negb orb].
        destruct (H4 o Ho) as [_ [(_ & _ & Ha)|(Ht & _)]]; [|rewrite Ht in E1; discriminate].
        apply bytes_eqb_eq. rewrite Ha, E2, E3. exact Eo. }
      rewrite Hc. eexists; split; [reflexivity|exact Inv].
    - (* Holds *) cbn [step fst snd acceptA]. eexists; split; [reflexivity|exact Inv].
    - (* CheckPeer *) cbn [step].
      assert (Hmk : forall h fl, InvA (upd s n (fun nd => set_health nd (mark (unhealthy nd) p h) (fl nd)))
                                  (supd ss n (fun nd => smark nd p h))).
      { intros h fl. apply InvA_upd_view; auto.
        intros x Hx Hs. pose proof Hx as (A & B & C & D & Ecf). unfold node_ok; cbn.
        split; [exact A|]. split; [exact B|]. split; [|split; assumption].
        apply mark_self_ok; [exact Hx|]. right. apply negb_true_iff, bytes_eqb_neq in Hop. congruence. }
      destruct (negb (host_ok _)); cbn [fst snd acceptA]; (eexists; split; [reflexivity|]).
      + apply (Hmk _ (fun nd => fails nd)).
      + apply (Hmk _ (fun nd => aset (fails nd) p _)).
  Qed.

  (* ================= invariant, part H (who holds what) ================= *)
  Definition holds_at (s : state) (i : nat) (k : bytes) : Prop :=
    (i < length s)%nat /\ mem_s k (holds (nth i s dnode)) = true.
  (* the healthy owner in node 0's view (every node's view, when the views are consistent) *)
  Definition canon (s : state) (k : bytes) : bytes :=
    match first_healthy (unhealthy (nth 0 s dnode)) (ranked k (peers (nth 0 s dnode))) with Some x => x | None => [] end.
  Definition InvH_c (s : state) (cons : bool) (act taint exp0 exp1 : list bytes) : Prop :=
    (forall k i, holds_at s i k -> mem_s k act = true) /\
    (forall k, mem_s k act = true -> mem_s k taint = false ->
       cons = true /\ forall i, holds_at s i k -> find_idx 0 s (canon s k) = Some (N.of_nat i)) /\
    (forall k, mem_s k exp0 = true -> forall i, ~ holds_at s i k) /\
    (forall k, mem_s k exp1 = true -> exists i, holds_at s i k).
  Definition InvH (s : state) (ss : sstate) : Prop :=
    InvH_c s (consistent ss) (s_act ss) (s_taint ss) (s_exp0 ss) (s_exp1 ss).

  Lemma nth_upd s j f i :
    nth i (upd s j f) dnode = if (N.of_nat i =? j) && Nat.ltb i (length s) then f (nth i s dnode) else nth i s dnode.
  Proof. rewrite upd_eq, upd_from_nth. replace (0 + N.of_nat i) with (N.of_nat i) by lia. reflexivity. Qed.

  Lemma holds_at_upd s j f i k :
    holds_at (upd s j f) i k <->
    (i < length s)%nat /\ mem_s k (holds (if N.of_nat i =? j then f (nth i s dnode) else nth i s dnode)) = true.
  Proof.
    unfold holds_at. rewrite upd_length, nth_upd. split; intros [Hl Hm]; split; auto.
    - apply Nat.ltb_lt in Hl as Hl'. rewrite Hl', andb_true_r in Hm. exact Hm.
    - apply Nat.ltb_lt in Hl as Hl'. rewrite Hl', andb_true_r. exact Hm.
  Qed.
  Lemma holds_at_pres s j f i k : (forall x, holds (f x) = holds x) -> (holds_at (upd s j f) i k <-> holds_at s i k).
  Proof. intros Hf. rewrite holds_at_upd. unfold holds_at. destruct (N.of_nat i =? j); rewrite ?Hf; reflexivity. Qed.

  Lemma find_idx_upd_from i i' s j f a : (forall x, self (f x) = self x) -> find_idx i (upd_from i' s j f) a = find_idx i s a.
  Proof.
    intros Hf. revert i i'; induction s as [|x tl IH]; intros i i'; cbn [upd_from find_idx]; [reflexivity|].
    rewrite IH. destruct (i' =? j); rewrite ?Hf; reflexivity.
  Qed.
  Lemma find_idx_upd s j f a : (forall x, self (f x) = self x) -> find_idx 0 (upd s j f) a = find_idx 0 s a.
  Proof. intros Hf. rewrite upd_eq. apply find_idx_upd_from. exact Hf. Qed.
  Lemma canon_upd s j f k : (forall x, peers (f x) = peers x) -> (forall x, unhealthy (f x) = unhealthy x) ->
    canon (upd s j f) k = canon s k.
  Proof. intros Hp Hu. unfold canon. rewrite nth_upd. destruct (_ && _); rewrite ?Hp, ?Hu; reflexivity. Qed.

  Lemma mem_add_s x k l : mem_s x (add_s k l) = bytes_eqb x k || mem_s x l.
  Proof.
    unfold add_s. destruct (mem_s k l) eqn:E; [|reflexivity].
    destruct (bytes_eqb x k) eqn:E2; [|reflexivity]. apply bytes_eqb_eq in E2. subst x. rewrite E. reflexivity.
  Qed.
  Lemma mem_app x l1 l2 : mem_s x (l1 ++ l2) = mem_s x l1 || mem_s x l2.
  Proof. unfold mem_s. apply existsb_app. Qed.
  Lemma mem_add_hold x k nd : mem_s x (holds (add_hold k nd)) = bytes_eqb x k || mem_s x (holds nd).
  Proof.
    unfold add_hold. destruct (mem_s k (holds nd)) eqn:E; [|reflexivity].
    destruct (bytes_eqb x k) eqn:E2; [|reflexivity]. apply bytes_eqb_eq in E2. subst x. rewrite E. reflexivity.
  Qed.
  Lemma mem_del_hold x k nd : mem_s x (holds (del_hold k nd)) = mem_s x (holds nd) && negb (bytes_eqb x k).
  Proof. unfold del_hold. cbn [holds set_holds]. apply mem_without. Qed.
  Lemma url_id_some k k' : url_id k = Some k' -> k' = k.
  Proof. unfold url_id. destruct k as [|a [|b [|c tl]]]; try congruence; repeat (match goal with |- context [match ?x with _ => _ end] => destruct x end; try congruence). Qed.

  (* ---- what [consistent] gives ---- *)
  Lemma nodup_find j s i : nodup_b (map self s) = true -> (i < length s)%nat ->
    find_idx j s (self (nth i s dnode)) = Some (j + N.of_nat i).
  Proof.
    revert j i; induction s as [|x tl IH]; intros j i Hn Hi; [cbn in Hi; lia|].
    cbn [map nodup_b] in Hn. apply andb_true_iff in Hn. destruct Hn as [Hx Hn]. apply negb_true_iff in Hx.
    destruct i as [|i]; cbn [nth find_idx].
    - rewrite bytes_eqb_refl. f_equal. lia.
    - cbn [length] in Hi. assert (bytes_eqb (self x) (self (nth i tl dnode)) = false) as ->.
      { apply bytes_eqb_neq. intros E. assert (mem_s (self x) (map self tl) = true); [|congruence].
        apply mem_s_In. rewrite E. apply in_map. apply nth_In. lia. }
      rewrite IH by (auto; lia). f_equal. lia.
  Qed.
  Lemma consistent_spec s ss : s_nodes ss = map abs_node s -> consistent ss = true ->
    (forall i, (i < length s)%nat -> find_idx 0 s (self (nth i s dnode)) = Some (N.of_nat i)) /\
    (forall i, (i < length s)%nat -> peers (nth i s dnode) = peers (nth 0 s dnode) /\
                                      unhealthy (nth i s dnode) = unhealthy (nth 0 s dnode)).
  Proof.
    intros Hn Hc. unfold consistent in Hc. rewrite Hn in Hc. apply andb_true_iff in Hc. destruct Hc as [Hd Hv].
    rewrite map_map in Hd. cbn [abs_node s_self] in Hd. split.
    - intros i Hi. rewrite (nodup_find 0 s i); [f_equal; lia| |exact Hi].
      erewrite map_ext; [exact Hd|reflexivity].
    - destruct s as [|x tl]; [intros i Hi; cbn in Hi; lia|]. cbn [map] in Hv. rewrite forallb_forall in Hv.
      intros [|i] Hi; [split; reflexivity|]. cbn [nth]. cbn [length] in Hi.
      assert (Hin : In (abs_node (nth i tl dnode)) (map abs_node tl)) by (apply in_map, nth_In; lia).
      specialize (Hv _ Hin). apply andb_true_iff in Hv. destruct Hv as [A B].
      apply list_bytes_eqb_eq in A, B. cbn in A, B. split; assumption.
  Qed.

  (* the node a request entering at n is executed on is the first node named canon s k *)
  Lemma route_idx s ss n k j :
    InvA s ss -> consistent ss = true -> valid_n n = true ->
    (let nd := getn s n in let r := healthy_owner (self nd) (unhealthy nd) k (peers nd) in
     (bytes_eqb r (self nd) = true /\ j = n) \/ (exists mk, target s n r = (Some j, mk))) ->
    find_idx 0 s (canon s k) = Some j /\ (N.to_nat j < length s)%nat.
  Proof.
    intros (H1 & H2 & H3 & H4) Hc V. cbv zeta. set (nd := getn s n).
    pose proof (node_ok_getn s n H2 H3 V) as Hok. fold nd in Hok.
    destruct (consistent_spec s ss H1 Hc) as [C1 C2].
    pose proof (valid_lt s n H2 V) as Hlt.
    assert (Hr : healthy_owner (self nd) (unhealthy nd) k (peers nd) = canon s k).
    { unfold canon. destruct (C2 _ Hlt) as [P Q]. unfold nd, getn in *. fold dnode in *. rewrite <- P, <- Q.
      rewrite (ho_some _ k Hok). reflexivity. }
    rewrite Hr. intros [[E ->]|[mk T]].
    - apply bytes_eqb_eq in E. rewrite E. split; [|exact Hlt]. unfold nd, getn. fold dnode.
      rewrite (C1 _ Hlt). f_equal. lia.
    - pose proof (ho_in nd k Hok) as Hin. rewrite Hr in Hin.
      unfold target in T. fold nd in T. destruct (bytes_eqb (canon s k) (self nd)) eqn:E.
      + injection T as <- _. apply bytes_eqb_eq in E. rewrite E. split; [|exact Hlt]. unfold nd, getn. fold dnode.
        rewrite (C1 _ Hlt). f_equal. lia.
      + destruct Hok as (_ & _ & _ & _ & Hcf). rewrite (peer_addr_id nd _ Hcf Hin) in T.
        destruct (negb (host_ok (canon s k))); [discriminate|].
        destruct (find_idx 0 s (canon s k)) as [j'|] eqn:F; [|discriminate].
        injection T as <- _. split; [reflexivity|]. apply (find_idx_self s _ _ F).
  Qed.

  (* ---- holders ---- *)
  Lemma holders_nil i s k : holders i s k = [] -> forall m, ~ holds_at s m k.
  Proof.
    revert i; induction s as [|x tl IH]; intros i H m [Hl Hm]; [cbn in Hl; lia|].
    cbn [holders] in H. destruct (mem_s k (holds x)) eqn:E; [discriminate|].
    destruct m as [|m]; cbn [nth] in Hm; [congruence|]. apply (IH _ H m). split; [cbn in Hl; lia|exact Hm].
  Qed.
  Lemma holders_nonnil i s k : holders i s k <> [] -> exists m, holds_at s m k.
  Proof.
    revert i; induction s as [|x tl IH]; intros i H; [cbn in H; congruence|].
    cbn [holders] in H. destruct (mem_s k (holds x)) eqn:E.
    - exists 0%nat. split; [cbn; lia|exact E].
    - destruct (IH _ H) as (m & Hl & Hm). exists (S m). split; [cbn; lia|exact Hm].
  Qed.
  Lemma holders_two i s k : (2 <= length (holders i s k))%nat ->
    exists m1 m2, m1 <> m2 /\ holds_at s m1 k /\ holds_at s m2 k.
  Proof.
    revert i; induction s as [|x tl IH]; intros i H; [cbn in H; lia|].
    cbn [holders] in H. destruct (mem_s k (holds x)) eqn:E.
    - cbn [length] in H. destruct (holders_nonnil (i + 1) tl k) as (m & Hl & Hm).
      { intros Hn. rewrite Hn in H. cbn in H. lia. }
      exists 0%nat, (S m). split; [lia|]. split; split; cbn; try lia; assumption.
    - destruct (IH _ H) as (m1 & m2 & Hne & [L1 M1] & [L2 M2]).
      exists (S m1), (S m2). split; [lia|]. split; split; cbn; try lia; assumption.
  Qed.

  Lemma add_hold_self k x : self (add_hold k x) = self x.
  Proof. unfold add_hold. destruct (mem_s k (holds x)); reflexivity. Qed.
  Lemma add_hold_peers k x : peers (add_hold k x) = peers x.
  Proof. unfold add_hold. destruct (mem_s k (holds x)); reflexivity. Qed.
  Lemma add_hold_un k x : unhealthy (add_hold k x) = unhealthy x.
  Proof. unfold add_hold. destruct (mem_s k (holds x)); reflexivity. Qed.

  (* ================= one step, part H ================= *)
  Definition is_change (o : op) : bool :=
    match o with AddPeer _ _ | RemovePeer _ _ | SetHealth _ _ _ | CheckPeer _ _ _ => true | _ => false end.

  Lemma InvH_change s n f c' act taint exp0 exp1 c :
    (forall x, holds (f x) = holds x) ->
    InvH_c s c act taint exp0 exp1 -> InvH_c (upd s n f) c' act (act ++ taint) exp0 exp1.
  Proof.
    intros Hf (A & B & C & D). split; [|split; [|split]].
    - intros k i Hh. apply (A k i). apply (holds_at_pres s n f i k Hf). exact Hh.
    - intros k Ha Ht. rewrite mem_app, Ha in Ht. discriminate.
    - intros k He i Hh. apply (C k He i). apply (holds_at_pres s n f i k Hf). exact Hh.
    - intros k He. destruct (D k He) as (i & Hh). exists i. apply (holds_at_pres s n f i k Hf). exact Hh.
  Qed.

  (* removing k at node j, where every untainted holder of k must be j *)
  Lemma InvH_release s ss j k (tainted : bool) :
    InvH s ss -> (N.to_nat j < length s)%nat ->
    (tainted = false -> mem_s k (s_taint ss) = false /\
        (consistent ss = true -> find_idx 0 s (canon s k) = Some j)) ->
    InvH_c (upd s j (del_hold k)) (consistent ss) (s_act ss) (s_taint ss)
           (if tainted then s_exp0 ss else add_s k (s_exp0 ss)) (without k (s_exp1 ss)).
  Proof.
    intros (A & B & C & D) Hj Ht.
    assert (Hsub : forall i k', holds_at (upd s j (del_hold k)) i k' ->
                     holds_at s i k' /\ ~ (k' = k /\ N.of_nat i = j)).
    { intros i k' Hh. apply holds_at_upd in Hh. destruct Hh as [Hl Hm]. destruct (N.of_nat i =? j) eqn:E.
      - rewrite mem_del_hold in Hm. apply andb_true_iff in Hm. destruct Hm as [Hm Hne]. split; [split; assumption|].
        intros [-> _]. rewrite bytes_eqb_refl in Hne. discriminate.
      - split; [split; assumption|]. intros [_ Hij]. lia. }
    split; [|split; [|split]].
    - intros k' i Hh. apply (A k' i). apply Hsub. exact Hh.
    - intros k' Ha Htt. destruct (B k' Ha Htt) as [Hc Hf]. split; [exact Hc|]. intros i Hh.
      rewrite find_idx_upd, canon_upd by reflexivity. apply Hf. apply Hsub. exact Hh.
    - intros k' He i Hh. destruct (Hsub i k' Hh) as [Hold Hn].
      destruct tainted; [apply (C k' He i Hold)|].
      rewrite mem_add_s in He. destruct (bytes_eqb k' k) eqn:Ek.
      + apply bytes_eqb_eq in Ek. subst k'. destruct (Ht eq_refl) as [Hnt Hfi].
        pose proof (A k i Hold) as Hact. destruct (B k Hact Hnt) as [Hc Hf].
        specialize (Hf i Hold). rewrite (Hfi Hc) in Hf. injection Hf as Hf. apply Hn. split; [reflexivity|congruence].
      + apply (C k' He i Hold).
    - intros k' He. rewrite mem_without in He. apply andb_true_iff in He. destruct He as [He Hne].
      destruct (D k' He) as (i & Hl & Hm). exists i. apply holds_at_upd. split; [exact Hl|].
      destruct (N.of_nat i =? j); [|exact Hm]. rewrite mem_del_hold, Hm, Hne. reflexivity.
  Qed.

  Lemma InvH_weaken_exp1 s c act taint exp0 exp1 k :
    InvH_c s c act taint exp0 exp1 -> InvH_c s c act taint exp0 (without k exp1).
  Proof.
    intros (A & B & C & D). split; [|split; [|split]]; auto.
    intros k' He. rewrite mem_without in He. apply andb_true_iff in He. destruct He as [He _]. auto.
  Qed.

  Lemma stepH s ss o : InvA s ss -> InvH s ss -> op_okb o = true ->
    exists sh, acceptH ss o (snd (fst (step s o))) = inl sh /\
      forall c', (is_change o = false -> c' = consistent ss) ->
        InvH_c (fst (fst (step s o))) c' (s_act sh) (s_taint sh) (s_exp0 sh) (s_exp1 sh).
  Proof.
    intros Inv IH Hop. pose proof Inv as (H1 & H2 & H3 & H4). pose proof IH as (A & B & C & D).
    destruct o as [n p|n p|n p h|n k|n k|n k|n k|n k|n k|n k|k|n p up]; cbn [op_okb] in Hop;
      try (apply andb_true_iff in Hop; destruct Hop as [V Hop]).
    - cbn [step fst snd acceptH]. eexists; split; [reflexivity|]. intros c' _. cbn [sset_h s_act s_taint s_exp0 s_exp1].
      eapply InvH_change; [|exact IH]. intros x. apply add_peer_node_holds.
    - cbn [step fst snd acceptH]. eexists; split; [reflexivity|]. intros c' _. cbn [sset_h s_act s_taint s_exp0 s_exp1].
      eapply InvH_change; [|exact IH]. intros x. apply remove_peer_node_holds.
    - cbn [step fst snd acceptH]. eexists; split; [reflexivity|]. intros c' _. cbn [sset_h s_act s_taint s_exp0 s_exp1].
      eapply InvH_change; [|exact IH]. reflexivity.
    - cbn [step fst snd acceptH]. eexists; split; [reflexivity|]. intros c' Hc. rewrite (Hc eq_refl). exact IH.
    - cbn [step fst snd acceptH]. eexists; split; [reflexivity|]. intros c' Hc. rewrite (Hc eq_refl). exact IH.
    - cbn [step fst snd acceptH]. eexists; split; [reflexivity|]. intros c' Hc. rewrite (Hc eq_refl). exact IH.
    - cbn [step howner_mk fst snd acceptH]. eexists; split; [reflexivity|]. intros c' Hc. rewrite (Hc eq_refl). exact IH.
    - (* Alloc *) apply bytes_eqb_eq in Hop. cbn [step howner_mk].
      match goal with |- context [if ?b then k else utf8_coerce k] =>
        assert (Hk : (if b then k else utf8_coerce k) = k) by (rewrite Hop; destruct b; reflexivity) end.
      rewrite Hk. clear Hk.
      pose proof (node_ok_getn s n H2 H3 V) as Hok.
      destruct (target s n _) as [[j|] mk2] eqn:T; cbn [fst snd].
      2:{ cbn [acceptH]. eexists; split; [reflexivity|]. intros c' Hc. rewrite (Hc eq_refl). exact IH. }
      destruct (target_self s n _ j mk2 H2 Hok (ho_in _ k Hok) T) as (Hj & _ & Hlt). specialize (Hlt V).
      cbn [acceptH]. eexists; split; [reflexivity|]. intros c' Hc. rewrite (Hc eq_refl). clear c' Hc.
      cbn [sset_h s_act s_taint s_exp0 s_exp1].
      assert (Hnew : forall i k', holds_at (upd s j (add_hold k)) i k' <->
                       holds_at s i k' \/ ((i < length s)%nat /\ k' = k /\ N.of_nat i = j)).
      { intros i k'. rewrite holds_at_upd. unfold holds_at. destruct (N.of_nat i =? j) eqn:E.
        - rewrite mem_add_hold. split.
          + intros [Hl Hm]. apply orb_true_iff in Hm. destruct Hm as [Hm|Hm]; [right|left; split; assumption].
            apply bytes_eqb_eq in Hm. split; [exact Hl|]. split; [exact Hm|lia].
          + intros [[Hl Hm]|(Hl & -> & _)]; (split; [exact Hl|]); [rewrite Hm; apply orb_true_r|rewrite bytes_eqb_refl; reflexivity].
        - split; [intros Hh; left; exact Hh|]. intros [Hh|(_ & _ & Hij)]; [exact Hh|lia]. }
      split; [|split; [|split]].
      + intros k' i Hh. rewrite mem_add_s. apply Hnew in Hh. destruct Hh as [Hh|(_ & -> & _)].
        * rewrite (A k' i Hh). apply orb_true_r.
        * rewrite bytes_eqb_refl. reflexivity.
      + intros k' Ha Ht. rewrite mem_add_s in Ha.
        assert (Htaint : mem_s k' (s_taint ss) = false).
        { destruct (consistent ss); [exact Ht|]. rewrite mem_add_s in Ht. apply orb_false_iff in Ht. tauto. }
        destruct (bytes_eqb k' k) eqn:Ek.
        * apply bytes_eqb_eq in Ek. subst k'.
          assert (Hcons : consistent ss = true).
          { destruct (consistent ss); [reflexivity|]. rewrite mem_add_s, bytes_eqb_refl in Ht. discriminate. }
          split; [exact Hcons|]. intros i Hh. rewrite (find_idx_upd s j _ _ (add_hold_self k)), (canon_upd s j _ _ (add_hold_peers k) (add_hold_un k)).
          apply Hnew in Hh. destruct Hh as [Hh|(_ & _ & Hij)].
          -- destruct (B k (A k i Hh) Htaint) as [_ Hf]. apply Hf. exact Hh.
          -- destruct (route_idx s ss n k j Inv Hcons V) as [Hf _]; [right; eexists; exact T|]. rewrite Hf. f_equal. lia.
        * cbn [orb] in Ha. destruct (B k' Ha Htaint) as [Hc Hf]. split; [exact Hc|]. intros i Hh.
          rewrite (find_idx_upd s j _ _ (add_hold_self k)), (canon_upd s j _ _ (add_hold_peers k) (add_hold_un k)).
          apply Hf. apply Hnew in Hh. destruct Hh as [Hh|(_ & -> & _)]; [exact Hh|rewrite bytes_eqb_refl in Ek; discriminate].
      + intros k' He i Hh. rewrite mem_without in He. apply andb_true_iff in He. destruct He as [He Hne].
        apply Hnew in Hh. destruct Hh as [Hh|(_ & -> & _)]; [apply (C k' He i Hh)|rewrite bytes_eqb_refl in Hne; discriminate].
      + intros k' He. rewrite mem_add_s in He. destruct (bytes_eqb k' k) eqn:Ek.
        * apply bytes_eqb_eq in Ek. subst k'. exists (N.to_nat j). apply Hnew. right. split; [exact Hlt|]. split; [reflexivity|lia].
        * cbn [orb] in He. destruct (D k' He) as (i & Hh). exists i. apply Hnew. left. exact Hh.
    - (* Release *) rename Hop into V. cbn [step howner_mk].
      pose proof (valid_lt s n H2 V) as Hltn.
      destruct (bytes_eqb _ (self (getn s n))) eqn:Er; cbn [fst snd].
      + cbn [acceptH]. eexists; split; [reflexivity|]. intros c' Hc. rewrite (Hc eq_refl). clear c' Hc.
        cbn [sset_h s_act s_taint s_exp0 s_exp1].
        apply (InvH_release s ss n k (mem_s k (s_taint ss)) IH Hltn). intros Hnt. split; [exact Hnt|]. intros Hcons.
        apply (route_idx s ss n k n Inv Hcons V). left. split; [exact Er|reflexivity].
      + destruct (target s n _) as [[j|] mk2] eqn:T; destruct (url_id k) as [k'|] eqn:Eu; cbn [fst snd acceptH];
          (eexists; split; [reflexivity|]); intros c' Hc; rewrite (Hc eq_refl); clear c' Hc;
          cbn [sset_h s_act s_taint s_exp0 s_exp1]; try (apply InvH_weaken_exp1; exact IH).
        apply url_id_some in Eu. subst k'.
        pose proof (node_ok_getn s n H2 H3 V) as Hok.
        destruct (target_self s n _ j mk2 H2 Hok (ho_in _ k Hok) T) as (_ & _ & Hlt). specialize (Hlt V).
        apply (InvH_release s ss j k (mem_s k (s_taint ss)) IH Hlt). intros Hnt. split; [exact Hnt|]. intros Hcons.
        apply (route_idx s ss n k j Inv Hcons V). right. eexists; exact T.
    - (* Get *) rename Hop into V. cbn [step fst snd acceptH].
      match goal with |- exists sh, (if ?c then _ else _) = _ /\ _ => assert (Hc0 : c = false) end.
      { destruct (bytes_eqb (owner k (peers (getn s n))) (self (getn s n))); [|reflexivity].
        destruct (mem_s k (holds (getn s n))) eqn:Eh; [|reflexivity]. cbn [andb].
        assert (Hh : holds_at s (N.to_nat n) k) by (split; [eapply valid_lt; eauto|exact Eh]).
        rewrite (A k _ Hh). cbn [negb orb]. destruct (mem_s k (s_exp0 ss)) eqn:E0; [|reflexivity].
        exfalso. apply (C k E0 _ Hh). }
      rewrite Hc0. eexists; split; [reflexivity|]. intros c' Hc. rewrite (Hc eq_refl). exact IH.
    - (* Holds *) cbn [step fst snd acceptH].
      assert (G1 : mem_s k (s_exp0 ss) && negb (is_nil (holders 0 s k)) = false).
      { destruct (mem_s k (s_exp0 ss)) eqn:E0; [|reflexivity]. destruct (holders 0 s k) eqn:Eh; [reflexivity|].
        exfalso. destruct (holders_nonnil 0 s k) as (m & Hm); [rewrite Eh; discriminate|]. apply (C k E0 m Hm). }
      rewrite G1.
      assert (G2 : negb (mem_s k (s_taint ss)) && (2 <=? N.of_nat (length (holders 0 s k))) = false).
      { destruct (mem_s k (s_taint ss)) eqn:Et; [reflexivity|]. cbn [negb andb].
        destruct (2 <=? N.of_nat (length (holders 0 s k))) eqn:E2; [|reflexivity]. exfalso.
        destruct (holders_two 0 s k) as (m1 & m2 & Hne & Hm1 & Hm2); [lia|].
        destruct (B k (A k _ Hm1) Et) as [_ Hf]. pose proof (Hf _ Hm1) as F1. pose proof (Hf _ Hm2) as F2.
        rewrite F1 in F2. injection F2 as F2. lia. }
      rewrite G2.
      assert (G3 : mem_s k (s_exp1 ss) && is_nil (holders 0 s k) = false).
      { destruct (mem_s k (s_exp1 ss)) eqn:E1; [|reflexivity]. destruct (holders 0 s k) eqn:Eh; [|reflexivity].
        exfalso. destruct (D k E1) as (m & Hm). apply (holders_nil 0 s k Eh m Hm). }
      rewrite G3. eexists; split; [reflexivity|]. intros c' Hc. rewrite (Hc eq_refl). clear c' Hc.
      destruct (holders 0 s k) eqn:Eh; cbn [is_nil]; [|exact IH]. cbn [sset_h s_act s_taint s_exp0 s_exp1].
      pose proof (holders_nil 0 s k Eh) as Hno.
      split; [|split; [|split]]; auto.
      + intros k' i Hh. rewrite mem_without, (A k' i Hh). cbn [andb]. apply negb_true_iff, bytes_eqb_neq.
        intros ->. apply (Hno i Hh).
      + intros k' Ha Ht. rewrite mem_without in Ha, Ht. apply andb_true_iff in Ha. destruct Ha as [Ha Hne].
        rewrite Hne, andb_true_r in Ht. apply (B k' Ha Ht).
    - cbn [step]. destruct (negb (host_ok _)); cbn [fst snd acceptH]; (eexists; split; [reflexivity|]); intros c' _;
        cbn [sset_h s_act s_taint s_exp0 s_exp1]; (eapply InvH_change; [|exact IH]); reflexivity.
  Qed.

  (* ================= the run ================= *)
  Definition mkss (sa sh : sstate) : sstate :=
    {| s_nodes := s_nodes sa; s_obs := s_obs sa;
       s_act := s_act sh; s_taint := s_taint sh; s_exp0 := s_exp0 sh; s_exp1 := s_exp1 sh |}.

  Lemma acceptA_nodes ss o r sa : is_change o = false -> acceptA ss o r = inl sa -> s_nodes sa = s_nodes ss.
  Proof.
    intros Hc. destruct o; try discriminate Hc; destruct r; cbn [acceptA]; try discriminate;
      repeat match goal with
             | |- context [match ?x with _ => _ end] => destruct x; try discriminate
             end; intros H; injection H as <-; reflexivity.
  Qed.

  Lemma accept_split ss o r sa sh :
    acceptA ss o r = inl sa -> acceptH ss o r = inl sh -> accept ss o r = inl (mkss sa sh).
  Proof. intros HA HH. unfold accept. rewrite HA, HH. reflexivity. Qed.

  Lemma run_accepts ops : forall s ss i, InvA s ss -> InvH s ss -> forallb op_okb ops = true ->
    accept_trace accept i ss (map (fun x => (fst (fst x), snd (fst x))) (model_trace step s ops)) = (0, 0).
  Proof.
    induction ops as [|o tl IH]; intros s ss i IA IHh Hops; [reflexivity|].
    cbn [forallb] in Hops. apply andb_true_iff in Hops. destruct Hops as [Ho Htl].
    destruct (stepA s ss o IA Ho) as (sa & HA & IA').
    destruct (stepH s ss o IA IHh Ho) as (sh & HH & IH').
    cbn [model_trace]. destruct (step s o) as [[s' r] mk] eqn:E. cbn [fst snd] in *.
    cbn [map accept_trace fst snd]. rewrite (accept_split ss o r sa sh HA HH).
    apply IH; [| |exact Htl].
    - destruct IA' as (I1 & I2 & I3 & I4). split; [exact I1|split; [exact I2|split; [exact I3|exact I4]]].
    - unfold InvH. cbn [mkss s_act s_taint s_exp0 s_exp1]. apply IH'.
      intros Hc. unfold consistent. cbn [mkss s_nodes]. rewrite (acceptA_nodes ss o r sa Hc HA). reflexivity.
  Qed.
End Refine.

(* ================= initial states and the theorem ================= *)
Definition init (cfgs : list (bytes * list bytes)) : state := map (fun x => new_node (fst x) (snd x)) cfgs.

Lemma init_InvA U cfgs : forallb (cfg_okb U) cfgs = true -> InvA U (map fst cfgs) (init cfgs) (sinit cfgs).
Proof.
  intros Hc. rewrite forallb_forall in Hc. unfold InvA, init, sinit. cbn [s_nodes s_obs].
  split; [|split; [|split]].
  - rewrite map_map. apply map_ext. intros c. reflexivity.
  - rewrite map_map. apply map_ext. intros c. reflexivity.
  - apply Forall_forall. intros nd Hnd. apply in_map_iff in Hnd. destruct Hnd as (c & <- & Hin).
    specialize (Hc c Hin). unfold cfg_okb in Hc. apply andb_true_iff in Hc. destruct Hc as [Hid Hps].
    apply mem_s_In in Hid. rewrite forallb_forall in Hps.
    assert (Hsub : incl (snd c) U) by (intros y Hy; apply mem_s_In, Hps, Hy).
    unfold node_ok, new_node; cbn [self peers unhealthy cfg].
    split; [apply sort_s_sorted|]. split; [|split; [reflexivity|split]].
    + eapply Permutation_in; [symmetry; apply sort_s_perm|]. destruct (mem_s (fst c) (snd c)) eqn:M.
      * apply mem_s_In. exact M.
      * apply in_or_app. right. left. reflexivity.
    + intros y Hy. eapply Permutation_in in Hy; [|apply sort_s_perm]. destruct (mem_s (fst c) (snd c)).
      * apply Hsub, Hy.
      * apply in_app_or in Hy. destruct Hy as [Hy|[<-|[]]]; [apply Hsub, Hy|exact Hid].
    + destruct (mem_s (fst c) (snd c)); [|exact Hsub]. intros y Hy. eapply Permutation_in in Hy; [|apply sort_s_perm]. apply Hsub, Hy.
  - constructor.
Qed.

Lemma init_InvH cfgs : InvH (init cfgs) (sinit cfgs).
Proof.
  assert (Hno : forall i k, ~ holds_at (init cfgs) i k).
  { intros i k [Hl Hm].
    assert (Hin : In (nth i (init cfgs) dnode) (init cfgs)) by (apply nth_In; exact Hl).
    unfold init in Hin at 2. apply in_map_iff in Hin. destruct Hin as (c & Hc & _). rewrite <- Hc in Hm. discriminate. }
  unfold InvH, InvH_c, sinit. cbn [s_act s_taint s_exp0 s_exp1]. split; [|split; [|split]].
  - intros k i Hh. exfalso. apply (Hno i k Hh).
  - intros k Ha. discriminate.
  - intros k He. discriminate.
  - intros k He. discriminate.
Qed.

(* the guards of the refinement theorem, as one decidable condition *)
Definition guard (U K : list bytes) (cfgs : list (bytes * list bytes)) (ops : list op) : bool :=
  forallb (good_b U) K && negb (conflated_b U) && forallb (cfg_okb U) cfgs &&
  forallb (op_okb U K (map fst cfgs)) ops.

Theorem monitor_accepts_model U K cfgs ops : guard U K cfgs ops = true ->
  accept_trace accept 1 (sinit cfgs)
    (map (fun x => (fst (fst x), snd (fst x))) (model_trace step (init cfgs) ops)) = (0, 0).
Proof.
  unfold guard. intros G. apply andb_true_iff in G. destruct G as [G Gops].
  apply andb_true_iff in G. destruct G as [G Gcfg]. apply andb_true_iff in G. destruct G as [GK Gconf].
  apply negb_true_iff in Gconf.
  eapply (run_accepts U K (map fst cfgs) GK Gconf); [apply init_InvA; exact Gcfg|apply init_InvH|exact Gops].
Qed.

(* ================= checkPeer in the Model is [chk] on the peer's record ================= *)
Definition health_of (nd : node) (p : bytes) : bool * N := (negb (mem_s p (unhealthy nd)), aget (fails nd) p).
Definition reachable (s : state) (n : N) (p : bytes) : bool :=
  match find_idx 0 s (peer_addr (getn s n) p) with Some _ => true | None => false end.
Definition run_model (s : state) (ops : list op) : state := fold_left (fun st o => fst (fst (step st o))) ops s.

Lemma aget_aset l p v q : aget (aset l p v) q = if bytes_eqb p q then v else aget l q.
Proof.
  unfold aset. cbn [aget]. destruct (bytes_eqb p q) eqn:E; [reflexivity|].
  induction l as [|[a w] tl IH]; cbn [filter aget fst]; [reflexivity|].
  destruct (bytes_eqb a p) eqn:E2; cbn [negb].
  - apply bytes_eqb_eq in E2. subst a. rewrite E. exact IH.
  - cbn [aget]. rewrite IH. reflexivity.
Qed.

Lemma checkpeer_step s n p up :
  (N.to_nat n < length s)%nat -> host_ok (peer_addr (getn s n) p) = true ->
  let h' := chk (health_of (getn s n) p) (up && reachable s n p) in
  let s' := fst (fst (step s (CheckPeer n p up))) in
  snd (fst (step s (CheckPeer n p up))) = OHealth (fst h') (snd h') /\
  health_of (getn s' n) p = h' /\
  (forall q, q <> p -> health_of (getn s' n) q = health_of (getn s n) q) /\
  cfg (getn s' n) = cfg (getn s n) /\ (forall a, find_idx 0 s' a = find_idx 0 s a) /\ length s' = length s.
Proof.
  intros Hn Hh. cbv zeta. cbn [step]. rewrite Hh. cbn [negb fst snd]. fold (reachable s n p).
  change (negb (mem_s p (unhealthy (getn s n))), aget (fails (getn s n)) p) with (health_of (getn s n) p).
  set (h' := chk (health_of (getn s n) p) (up && reachable s n p)).
  assert (Hg : forall f, getn (upd s n f) n = f (getn s n)).
  { intros f. rewrite getn_upd, N.eqb_refl. apply Nat.ltb_lt in Hn. rewrite Hn. reflexivity. }
  split; [reflexivity|]. rewrite Hg. unfold health_of at 1. cbn [set_health unhealthy fails].
  split; [|split; [|split; [|split]]].
  - rewrite mem_mark, bytes_eqb_refl, negb_involutive, aget_aset, bytes_eqb_refl. destruct h'; reflexivity.
  - intros q Hq. unfold health_of. cbn [set_health unhealthy fails]. rewrite mem_mark, aget_aset.
    assert (bytes_eqb q p = false) as -> by (apply bytes_eqb_neq; exact Hq).
    assert (bytes_eqb p q = false) as -> by (apply bytes_eqb_neq; congruence). reflexivity.
  - reflexivity.
  - intros a. apply find_idx_upd. reflexivity.
  - apply upd_length.
Qed.

(* a run of health checks of p at node n computes fold_left chk over the outcomes *)
Lemma checkpeer_sequence ups : forall s n p,
  (N.to_nat n < length s)%nat -> host_ok (peer_addr (getn s n) p) = true ->
  health_of (getn (run_model s (map (CheckPeer n p) ups)) n) p =
  fold_left chk (map (fun up => up && reachable s n p) ups) (health_of (getn s n) p).
Proof.
  induction ups as [|up tl IH]; intros s n p Hn Hh; [reflexivity|].
  cbn [map fold_left run_model]. fold (run_model (fst (fst (step s (CheckPeer n p up)))) (map (CheckPeer n p) tl)).
  destruct (checkpeer_step s n p up Hn Hh) as (_ & H2 & _ & H4 & H5 & H6). cbv zeta in *.
  set (s' := fst (fst (step s (CheckPeer n p up)))) in *.
  assert (Hpa : peer_addr (getn s' n) p = peer_addr (getn s n) p) by (unfold peer_addr; rewrite H4; reflexivity).
  rewrite IH; [|rewrite H6; exact Hn|rewrite Hpa; exact Hh].
  rewrite H2. f_equal. apply map_ext. intros u. unfold reachable. rewrite Hpa, H5. reflexivity.
Qed.

(* from a fresh pool: p is unhealthy at n exactly when the checks so far end in >= 3 consecutive failures *)
Lemma checkpeer_threshold cfgs n p ups :
  (N.to_nat n < length cfgs)%nat -> host_ok (peer_addr (getn (init cfgs) n) p) = true ->
  let outcomes := map (fun up => up && reachable (init cfgs) n p) ups in
  (mem_s p (unhealthy (getn (run_model (init cfgs) (map (CheckPeer n p) ups)) n)) = true <-> 3 <= consec_fails outcomes).
Proof.
  intros Hn Hh. cbv zeta.
  assert (Hl : (N.to_nat n < length (init cfgs))%nat) by (unfold init; rewrite map_length; exact Hn).
  pose proof (checkpeer_sequence ups (init cfgs) n p Hl Hh) as Hs.
  assert (H0 : health_of (getn (init cfgs) n) p = (true, 0)).
  { unfold getn. fold dnode. assert (Hin : In (nth (N.to_nat n) (init cfgs) dnode) (init cfgs)) by (apply nth_In; exact Hl).
    unfold init in Hin at 2. apply in_map_iff in Hin. destruct Hin as (c & Hc & _). rewrite <- Hc. reflexivity. }
  rewrite H0 in Hs. fold (run_chk (map (fun up => up && reachable (init cfgs) n p) ups)) in Hs.
  rewrite <- unhealthy_iff_three_fails. rewrite <- Hs. unfold health_of. cbn [fst].
  destruct (mem_s p _); cbn; split; congruence.
Qed.

(* the code's owner is the abstract arg-max at the FNV/Wang score *)
Lemma owner_instance k l : owner k l = owner_g (score k) l.
Proof. reflexivity. Qed.
Lemma ranked_instance k l : ranked k l = ranked_g (score k) l.
Proof. reflexivity. Qed.

(* ================= a history inside all guards (non-vacuity) ================= *)
Definition ex_b1 : bytes := [98;110;103;45;49].
Definition ex_b2 : bytes := [98;110;103;45;50].
Definition ex_b3 : bytes := [98;110;103;45;51].
Definition ex_b4 : bytes := [98;110;103;45;52].
Definition ex_k1 : bytes := [115;117;98;45;49].
Definition ex_k2 : bytes := [97;47;46;46;47;98;63;120].  (* "a/../b?x" *)
Definition ex_cfgs : list (bytes * list bytes) :=
  [(ex_b1, [ex_b3; ex_b1; ex_b2]); (ex_b2, [ex_b1; ex_b2; ex_b3]); (ex_b3, [ex_b2; ex_b3; ex_b1])].
Definition ex_ops : list op :=
  [GetOwner 0 ex_k1; GetOwner 1 ex_k1; GetOwner 2 ex_k1; Ranked 1 ex_k1; IsLocal 2 ex_k1;
   Alloc 0 ex_k1; Alloc 1 ex_k1; Alloc 2 ex_k1; Holds ex_k1; Get 0 ex_k1; Get 1 ex_k1; Get 2 ex_k1;
   Alloc 0 ex_k2; Alloc 2 ex_k2; Holds ex_k2; Release 1 ex_k2; Holds ex_k2; Release 0 ex_k1; Holds ex_k1;
   Alloc 1 ex_k1; CheckPeer 0 ex_b2 false; CheckPeer 0 ex_b2 false; CheckPeer 0 ex_b2 false; SetHealth 2 ex_b2 false;
   HealthyOwner 0 ex_k1; HealthyOwner 2 ex_k1; Alloc 0 ex_k1; Holds ex_k1; AddPeer 0 ex_b4; RemovePeer 0 ex_b3;
   GetOwner 0 ex_k1; CheckPeer 0 ex_b2 true; HealthyOwner 0 ex_k1].
Lemma ex_guard_holds :
  guard [ex_b1; ex_b2; ex_b3; ex_b4] [ex_k1] ex_cfgs ex_ops = true /\
  map (fun x => snd (fst x)) (model_trace step (init ex_cfgs) [Alloc 0 ex_k1; Alloc 1 ex_k1; Holds ex_k1; Release 2 ex_k1; Holds ex_k1])
    = [OServed ex_b1 ex_k1; OServed ex_b1 ex_k1; OHold [0]; ONone; OHold []] /\
  map (fun x => snd (fst x)) (model_trace step (init ex_cfgs)
        [CheckPeer 0 ex_b2 false; CheckPeer 0 ex_b2 false; CheckPeer 0 ex_b2 false; CheckPeer 0 ex_b2 true])
    = [OHealth true 1; OHealth true 2; OHealth false 3; OHealth true 0].
Proof. split; [vm_compute; reflexivity|]. split; vm_compute; reflexivity. Qed.

Lemma ex_zero_row : (2 <= length [[97]; [98]])%nat /\ (forall n, In n [[97]; [98]] -> sc0 n = 0).
Proof. split; [cbn; lia|intros; reflexivity]. Qed.

(* K17d: an id that is not valid UTF-8 is served under two names by ONE owner, depending on the entry
   node: entering at the owner (node 1) it is allocated as given, entering elsewhere the JSON body
   turns it into U+FFFD, the owner allocates (and answers for) that other id; the monitor rejects the
   Model's own trace at the first forwarded Allocate with clause 8 *)
Lemma alloc_identity_refuted :
  map (fun x => snd (fst x)) (model_trace step (init ex_cfgs) [Alloc 0 [255]; Alloc 1 [255]; Holds [255]; Holds ufffd])
    = [OServed ex_b2 ufffd; OServed ex_b2 [255]; OHold [1]; OHold [1]] /\
  accept_trace accept 1 (sinit ex_cfgs)
    (map (fun x => (fst (fst x), snd (fst x))) (model_trace step (init ex_cfgs) [Alloc 0 [255]])) = (1, 9).
Proof. split; vm_compute; reflexivity. Qed.
