(* C11 — lemmas about Model/Fsm.v (generic in the option processor) and its three instances. *)
From Coq Require Import ZArith NArith List Bool Lia ZifyN ZifyNat ZifyBool.
From Verif Require Import Base.Word Model.Fsm Model.Lcp Model.Ipcp Model.Ipv6cp Model.FsmSpec Model.FsmCheck.
Import ListNotations.
Local Open Scope N_scope.

Section Generic.
  Context {X : Type}.
  Variable P : procs X.

  Definition tr_m (s : fsm X) (e : ev) : M := fst (fst (trans P s e)).

  Lemma next_tr s e : next P s e = fst (tr_m s e).
  Proof.
    unfold next, step, tr_m. destruct (trans P s e) as [[[s' pk] er] mk]. reflexivity.
  Qed.
  Lemma sent_tr s e : sent P s e = snd (tr_m s e).
  Proof.
    unfold sent, step, tr_m. destruct (trans P s e) as [[[s' pk] er] mk]. reflexivity.
  Qed.

  (* ------------------------------------------------------------------ T2 *)
  Lemma close_internal_leaves r (m : M) : f_st (fst m) = Opened -> f_st (fst (close_internal P r m)) <> Opened.
  Proof. intros H. unfold close_internal. rewrite H. cbn. discriminate. Qed.

  Lemma leaves_opened s e :
    f_st s = Opened -> leaving_of (pr_lcp P) (f_last s) e = true -> f_st (next P s e) <> Opened.
  Proof.
    intros Ho Hl. rewrite next_tr. unfold tr_m, trans.
    destruct e as [| | | |d|t|]; cbn in Hl; try discriminate.
    - unfold do_down. cbn. rewrite Ho. cbn. discriminate.
    - apply close_internal_leaves. exact Ho.
    - unfold do_recv. destruct (parse_pkt d) as [[[c i] data]|]; [|discriminate].
      destruct (c =? 1) eqn:E1.
      { destruct (parse_opts data) as [opts|]; [|discriminate].
        unfold do_rcr. cbn [fst snd]. rewrite Ho.
        destruct (pr_cr P (f_x s) opts) as [[x' [[ack nak] rej]] mk].
        cbn. destruct (_ =? 2); cbn; discriminate. }
      destruct (c =? 2) eqn:E2.
      { unfold do_rca. cbn [fst snd]. rewrite Hl. cbn. rewrite Ho. cbn. discriminate. }
      destruct (c =? 3) eqn:E3.
      { cbn in Hl. apply andb_prop in Hl as [Hi Hp]. unfold do_rcn. cbn [fst snd]. rewrite Hi. cbn [negb].
        destruct (parse_opts data); [|discriminate]. cbn. unfold nakrej_tail. cbn. rewrite Ho. cbn. discriminate. }
      destruct (c =? 4) eqn:E4.
      { cbn in Hl. apply andb_prop in Hl as [Hi Hp]. unfold do_rcj. cbn [fst snd]. rewrite Hi. cbn [negb].
        destruct (parse_opts data); [|discriminate]. cbn. unfold nakrej_tail. cbn. rewrite Ho. cbn. discriminate. }
      destruct (c =? 5) eqn:E5.
      { unfold do_rtr. cbn. rewrite Ho. cbn. discriminate. }
      destruct (c =? 6) eqn:E6.
      { unfold do_rta. cbn. rewrite Ho. cbn. discriminate. }
      cbn in Hl.
      destruct (c =? 7) eqn:E7.
      { apply andb_prop in Hl as [Hk Hr]. rewrite Hk. unfold do_lcp_other. rewrite E7.
        destruct data as [|r tl]; [discriminate|]. unfold in_range in Hr. rewrite Hr.
        apply close_internal_leaves. exact Ho. }
      destruct (c =? 8) eqn:E8; [|discriminate].
      apply andb_prop in Hl as [Hk Hr]. rewrite Hk. unfold do_lcp_other. rewrite E7, E8.
      destruct data as [|a [|b tl]]; try discriminate. rewrite Hr.
      apply close_internal_leaves. exact Ho.
  Qed.

  (* ------------------------------------------------------------------ T1 *)
  Definition inv1b (s : fsm X) : bool :=
    match f_st s with
    | Opened => g_we s && g_peer s
    | AckRcvd => g_peer s
    | AckSent => g_we s
    | _ => true
    end.

  Ltac fail_show := match goal with |- ?G => idtac G; fail 1 end.
  Ltac brk :=
    repeat match goal with
           | |- context [if ?b then _ else _] => destruct b eqn:?
           | |- context [match ?x with _ => _ end] => is_var x; destruct x
           end.

  Ltac stcase s Hst H :=
    destruct (f_st s) eqn:Hst; cbn in H |- *; rewrite ?Hst; cbn; try reflexivity; try exact H;
    try (apply andb_prop in H; destruct H as [? ?]); try assumption.

  Ltac ds s := destruct s as [st0 x0 rc0 id0 last0 arm0 tok0 pend0 we0 peer0].
  Ltac fin H := cbn in H |- *; try reflexivity; try exact H; try discriminate;
                try (apply andb_prop in H; destruct H as [? ?]; subst; cbn; try reflexivity; try assumption);
                try (rewrite H; reflexivity).

  Lemma inv1_close r s pk : inv1b s = true -> inv1b (fst (close_internal P r (s, pk))) = true.
  Proof. intros H. ds s. unfold close_internal, inv1b in *. destruct st0; fin H. Qed.

  Lemma inv1_timeout s pk : inv1b s = true -> inv1b (fst (do_timeout P (s, pk))) = true.
  Proof.
    intros H. ds s. unfold do_timeout, inv1b in *. cbn [fst snd f_rc f_st].
    destruct (0 <? rc0)%Z; destruct st0; fin H.
  Qed.

  Lemma inv1_step s e : inv1b s = true -> inv1b (next P s e) = true.
  Proof.
    intros H. rewrite next_tr. unfold tr_m, trans.
    destruct e as [| | | |d|t|].
    - ds s. unfold do_up, inv1b in *. destruct st0; fin H.
    - ds s. unfold do_down, inv1b in *. destruct st0; fin H.
    - ds s. unfold do_open, inv1b in *. destruct st0; fin H.
    - apply inv1_close. exact H.
    - unfold do_recv. destruct (parse_pkt d) as [[[c i] data]|]; [|exact H].
      destruct (c =? 1).
      { destruct (parse_opts data) as [opts|]; [|exact H].
        unfold do_rcr. cbn [fst snd].
        destruct (pr_cr P (f_x s) opts) as [[x' [[ack nak] rej]] mk].
        cbn [fst snd]. ds s. unfold inv1b in *.
        destruct (nonempty rej); [|destruct (nonempty nak)]; destruct st0; fin H. }
      destruct (c =? 2).
      { unfold do_rca. cbn [fst snd]. destruct (i =? f_last s); cbn [negb]; [|exact H].
        ds s. unfold inv1b in *. destruct st0; fin H. }
      destruct (c =? 3).
      { unfold do_rcn. cbn [fst snd]. destruct (i =? f_last s); cbn [negb]; [|exact H].
        ds s. unfold nakrej_tail, inv1b in *.
        destruct (parse_opts data); [|destruct (pr_nak_strict P)]; destruct st0; fin H. }
      destruct (c =? 4).
      { unfold do_rcj. cbn [fst snd]. destruct (i =? f_last s); cbn [negb]; [|exact H].
        ds s. unfold nakrej_tail, inv1b in *.
        destruct (parse_opts data); [|destruct (pr_rej_strict P)]; destruct st0; fin H. }
      destruct (c =? 5).
      { ds s. unfold do_rtr, inv1b in *. destruct st0; fin H. }
      destruct (c =? 6).
      { ds s. unfold do_rta, inv1b in *. destruct st0; fin H. }
      destruct (pr_lcp P); [|exact H].
      unfold do_lcp_other. cbn [fst snd].
      destruct (c =? 7).
      { destruct data as [|r tl]; [exact H|]. destruct (_ && _); [|exact H]. apply inv1_close. exact H. }
      destruct (c =? 8).
      { destruct data as [|a [|b tl]]; try exact H. destruct (_ =? _); [|exact H]. apply inv1_close. exact H. }
      destruct (c =? 9).
      { ds s. unfold inv1b in *. destruct st0; destruct (len data <? 4); fin H. }
      destruct (_ || _); [exact H|].
      ds s. unfold inv1b in *. fin H.
    - destruct (memN t (f_pend s)); [|exact H]. apply inv1_timeout. ds s. exact H.
    - ds s. unfold do_echo, inv1b in *. destruct st0; destruct (pr_lcp P); fin H.
  Qed.

  Lemma inv1_run evs : forall s, inv1b s = true -> inv1b (run P s evs) = true.
  Proof.
    induction evs as [|e tl IH]; intros s H; cbn; [exact H|]. apply IH. apply inv1_step. exact H.
  Qed.

  Theorem opened_implies_mutual_ack x evs :
    f_st (run P (init x) evs) = Opened ->
    g_we (run P (init x) evs) = true /\ g_peer (run P (init x) evs) = true.
  Proof.
    intros Ho. assert (H := inv1_run evs (init x) eq_refl). unfold inv1b in H. rewrite Ho in H.
    apply andb_prop in H. exact H.
  Qed.

  (* ------------------------------------------------------------------ T6 / T6' : silence *)
  (* the peer is silent and timers are atomic: the only thing that happens is the regular expiry of
     the running restart timer, if there is one *)
  Definition silent_step (s : fsm X) : fsm X := if fresh s then next P s (EFire (f_tok s)) else s.
  Definition silent_out (s : fsm X) : list pkt := if fresh s then sent P s (EFire (f_tok s)) else [].
  Fixpoint silent (n : nat) (s : fsm X) : fsm X :=
    match n with O => s | S k => silent k (silent_step s) end.
  Fixpoint silent_sent (n : nat) (s : fsm X) : list pkt :=
    match n with O => [] | S k => silent_out s ++ silent_sent k (silent_step s) end.
  Definition count_req (pk : list pkt) : nat := length (filter is_req pk).

  Lemma memN_head t l : memN t (t :: l) = true.
  Proof. unfold memN. cbn. rewrite N.eqb_refl. reflexivity. Qed.

  Lemma silent_terminal s : terminal (f_st s) = true ->
    f_st (silent_step s) = f_st s /\ silent_out s = [].
  Proof.
    intros T. unfold silent_step, silent_out. destruct (fresh s) eqn:F; [|split; reflexivity].
    rewrite next_tr, sent_tr. unfold tr_m, trans.
    unfold fresh in F. apply andb_prop in F as [_ F]. rewrite F.
    ds s. unfold do_timeout. cbn [fst snd f_rc f_st] in *.
    destruct (0 <? rc0)%Z; destruct st0; try discriminate; split; reflexivity.
  Qed.

  Definition after_silence (v : st) : st := match v with Closing => Closed | _ => Stopped end.

  Lemma silent_transient s : terminal (f_st s) = false -> fresh s = true ->
    ((0 < f_rc s)%Z ->
       terminal (f_st (silent_step s)) = false /\ fresh (silent_step s) = true /\
       f_rc (silent_step s) = (f_rc s - 1)%Z /\ count_req (silent_out s) = 1%nat /\
       after_silence (f_st (silent_step s)) = after_silence (f_st s)) /\
    ((f_rc s <= 0)%Z -> f_st (silent_step s) = after_silence (f_st s) /\ silent_out s = []).
  Proof.
    intros T F. unfold silent_step, silent_out. rewrite F.
    rewrite next_tr, sent_tr. unfold tr_m, trans.
    unfold fresh in F. apply andb_prop in F as [_ F]. rewrite F.
    ds s. unfold do_timeout. cbn [fst snd f_rc f_st] in *.
    split; intros Hrc.
    - assert (E : (0 <? rc0)%Z = true) by lia. rewrite E.
      destruct st0; try discriminate; cbn; unfold fresh; cbn; rewrite ?N.eqb_refl; cbn; repeat split; try reflexivity; fail_show.
    - assert (E : (0 <? rc0)%Z = false) by lia. rewrite E.
      destruct st0; try discriminate; cbn; split; reflexivity.
  Qed.

  Lemma silent_terminal_n n : forall s, terminal (f_st s) = true ->
    f_st (silent n s) = f_st s /\ silent_sent n s = [].
  Proof.
    induction n as [|n IH]; intros s T; cbn; [split; reflexivity|].
    destruct (silent_terminal s T) as [E1 E2]. rewrite E2. cbn.
    assert (T' : terminal (f_st (silent_step s)) = true) by (rewrite E1; exact T).
    destruct (IH _ T') as [E3 E4]. rewrite E3, E4, E1. split; reflexivity.
  Qed.

  Lemma after_silence_terminal v : terminal (after_silence v) = true.
  Proof. destruct v; reflexivity. Qed.

  (* from a retransmitting state with a running timer: exactly restartCount further requests, then
     Closed (from Closing) or Stopped *)
  Lemma silence_terminates n : forall s,
    terminal (f_st s) = false -> fresh s = true -> (Z.to_nat (f_rc s) < n)%nat ->
    f_st (silent n s) = after_silence (f_st s) /\ count_req (silent_sent n s) = Z.to_nat (f_rc s).
  Proof.
    induction n as [|n IH]; intros s T F Hn; [lia|].
    cbn. destruct (silent_transient s T F) as [Hpos Hnon].
    destruct (Z_lt_le_dec 0 (f_rc s)) as [Hrc|Hrc].
    - destruct (Hpos Hrc) as (T' & F' & Erc & Ec & Ea).
      assert (Hn' : (Z.to_nat (f_rc (silent_step s)) < n)%nat) by (rewrite Erc; lia).
      destruct (IH _ T' F' Hn') as [E1 E2].
      rewrite E1, Ea. split; [reflexivity|].
      unfold count_req in *. rewrite filter_app, app_length, Ec, E2, Erc. lia.
    - destruct (Hnon Hrc) as [E1 E2]. rewrite E2. cbn.
      assert (T' : terminal (f_st (silent_step s)) = true) by (rewrite E1; apply after_silence_terminal).
      destruct (silent_terminal_n n _ T') as [E3 E4]. rewrite E3, E4, E1.
      split; [reflexivity|]. cbn. lia.
  Qed.

  (* T6': under the guard [live] silence always ends in a state without timer, within the bound *)
  Theorem silent_peer_terminates_live s n :
    live s = true -> (Z.to_nat (f_rc s) < n)%nat ->
    terminal (f_st (silent n s)) = true /\ (count_req (silent_sent n s) <= Z.to_nat (f_rc s))%nat.
  Proof.
    intros L Hn. unfold live in L. destruct (terminal (f_st s)) eqn:T.
    - destruct (silent_terminal_n n s T) as [E1 E2]. rewrite E1, E2. split; [exact T|cbn; lia].
    - cbn in L. destruct (silence_terminates n s T L Hn) as [E1 E2]. rewrite E1, E2.
      split; [apply after_silence_terminal|lia].
  Qed.

  Lemma silent_stuck n : forall s, fresh s = false -> silent n s = s.
  Proof.
    induction n as [|n IH]; intros s F; cbn; [reflexivity|].
    unfold silent_step. rewrite F. apply IH. exact F.
  Qed.

  (* T6: Open, Up, then silence *)
  Theorem silent_peer_after_open_up x n :
    (Z.to_nat (pr_irc P x - 1) < n)%nat ->
    let s1 := run P (init x) [EOpen; EUp] in
    f_st (silent n s1) = Stopped /\
    (count_req (sent P (init x) EOpen ++ sent P (next P (init x) EOpen) EUp ++ silent_sent n s1)
     = Z.to_nat (Z.max (pr_irc P x) 1))%nat.
  Proof.
    intros Hn s1.
    assert (Es : s1 = fst (goto ReqSent (scr P (irc P (set_st (init x) Starting, []))))).
    { unfold s1, run. cbn [fold_left]. rewrite !next_tr. reflexivity. }
    assert (T : terminal (f_st s1) = false) by (rewrite Es; reflexivity).
    assert (F : fresh s1 = true) by (rewrite Es; unfold fresh; cbn; rewrite ?N.eqb_refl; reflexivity).
    assert (R : f_rc s1 = (pr_irc P x - 1)%Z) by (rewrite Es; reflexivity).
    assert (Hn' : (Z.to_nat (f_rc s1) < n)%nat) by (rewrite R; exact Hn).
    destruct (silence_terminates n s1 T F Hn') as [E1 E2].
    split; [rewrite E1, Es; reflexivity|].
    rewrite !sent_tr. unfold count_req in *. rewrite !filter_app, !app_length, E2, R. cbn. lia.
  Qed.

  (* T6 (terminate): Close in a negotiating or opened state, then silence *)
  Theorem silent_peer_after_close s n :
    (f_st s = ReqSent \/ f_st s = AckRcvd \/ f_st s = AckSent \/ f_st s = Opened) ->
    (Z.to_nat (pr_irc P (f_x s) - 1) < n)%nat ->
    let s1 := next P s EClose in
    f_st (silent n s1) = Closed /\
    (count_req (sent P s EClose ++ silent_sent n s1) = Z.to_nat (Z.max (pr_irc P (f_x s)) 1))%nat.
  Proof.
    intros Hst Hn s1.
    assert (Es : s1 = fst (goto Closing (str str_admin (irc P (s, []))))).
    { unfold s1. rewrite next_tr. unfold tr_m, trans, close_internal. cbn [fst snd].
      destruct Hst as [H|[H|[H|H]]]; rewrite H; reflexivity. }
    assert (T : terminal (f_st s1) = false) by (rewrite Es; reflexivity).
    assert (F : fresh s1 = true) by (rewrite Es; unfold fresh; cbn; rewrite ?N.eqb_refl; reflexivity).
    assert (R : f_rc s1 = (pr_irc P (f_x s) - 1)%Z) by (rewrite Es; reflexivity).
    assert (Hn' : (Z.to_nat (f_rc s1) < n)%nat) by (rewrite R; exact Hn).
    destruct (silence_terminates n s1 T F Hn') as [E1 E2].
    split; [rewrite E1, Es; reflexivity|].
    rewrite sent_tr. unfold tr_m, trans, close_internal. cbn [fst snd].
    unfold count_req in *. rewrite filter_app, app_length, E2, R.
    destruct Hst as [H|[H|[H|H]]]; rewrite H; cbn; lia.
  Qed.

  (* ------------------------------------------------------------------ T3 *)
  Ltac idfin := cbn; rewrite ?N.eqb_refl; cbn; try reflexivity.

  Lemma close_ids r s e : chk_ids e (snd (close_internal P r (s, []))) = true.
  Proof. ds s. unfold close_internal, chk_ids. destruct st0; reflexivity. Qed.

  Theorem reply_echoes_id s e : chk_ids e (sent P s e) = true.
  Proof.
    rewrite sent_tr. unfold tr_m, trans.
    destruct e as [| | | |d|t|].
    - ds s. unfold do_up, chk_ids. destruct st0; reflexivity.
    - ds s. unfold do_down, chk_ids. destruct st0; reflexivity.
    - ds s. unfold do_open, chk_ids. destruct st0; reflexivity.
    - apply close_ids.
    - unfold do_recv. destruct (parse_pkt d) as [[[c i] data]|] eqn:Ep; [|reflexivity].
      unfold chk_ids, parsed. rewrite Ep.
      destruct (c =? 1) eqn:E1.
      { apply N.eqb_eq in E1. subst c.
        destruct (parse_opts data) as [opts|]; [|reflexivity].
        unfold do_rcr. cbn [fst snd].
        destruct (pr_cr P (f_x s) opts) as [[x' [[ack nak] rej]] mk].
        cbn [fst snd]. ds s.
        destruct (nonempty rej); [|destruct (nonempty nak)]; destruct st0; idfin. }
      destruct (c =? 2) eqn:E2.
      { apply N.eqb_eq in E2. subst c. unfold do_rca. cbn [fst snd].
        destruct (i =? f_last s); cbn [negb]; [|reflexivity]. ds s. destruct st0; idfin. }
      destruct (c =? 3) eqn:E3.
      { apply N.eqb_eq in E3. subst c. unfold do_rcn. cbn [fst snd].
        destruct (i =? f_last s); cbn [negb]; [|reflexivity]. ds s. unfold nakrej_tail.
        destruct (parse_opts data); [|destruct (pr_nak_strict P)]; destruct st0; idfin. }
      destruct (c =? 4) eqn:E4.
      { apply N.eqb_eq in E4. subst c. unfold do_rcj. cbn [fst snd].
        destruct (i =? f_last s); cbn [negb]; [|reflexivity]. ds s. unfold nakrej_tail.
        destruct (parse_opts data); [|destruct (pr_rej_strict P)]; destruct st0; idfin. }
      destruct (c =? 5) eqn:E5.
      { apply N.eqb_eq in E5. subst c. ds s. unfold do_rtr. destruct st0; idfin. }
      destruct (c =? 6) eqn:E6.
      { ds s. unfold do_rta. destruct st0; idfin. }
      destruct (pr_lcp P); [|reflexivity].
      unfold do_lcp_other. cbn [fst snd].
      destruct (c =? 7) eqn:E7.
      { destruct data as [|r tl]; [reflexivity|]. destruct ((1 <=? r) && (r <=? 4)); [|reflexivity].
        ds s. unfold close_internal. destruct st0; reflexivity. }
      destruct (c =? 8) eqn:E8.
      { destruct data as [|a [|b tl]]; try reflexivity. destruct (be16 a b =? 49185); [|reflexivity].
        ds s. unfold close_internal. destruct st0; reflexivity. }
      destruct (c =? 9) eqn:E9.
      { ds s. destruct st0; try reflexivity. destruct (len data <? 4); idfin; rewrite ?E9; try reflexivity. }
      destruct (_ || _); reflexivity.
    - destruct (memN t (f_pend s)); [|reflexivity].
      ds s. unfold do_timeout, chk_ids. cbn [fst snd f_rc f_st]. destruct (0 <? rc0)%Z; destruct st0; reflexivity.
    - ds s. unfold do_echo, chk_ids. destruct st0; destruct (pr_lcp P); reflexivity.
  Qed.

  (* ------------------------------------------------------------------ T6': which events take the timer away *)
  Definition stops_timer_ev (last : N) (e : ev) : bool :=
    match e with
    | ERecv d => match parse_pkt d with
                 | Some (c, i, _) => (in_range 2 c 4 && (i =? last)) || (c =? 5) || (c =? 6)
                 | None => false
                 end
    | _ => false
    end.

  Ltac lfin H := cbn in H |- *; rewrite ?N.eqb_refl; cbn; try reflexivity; try exact H; try discriminate.

  Lemma live_close r s : live s = true -> live (fst (close_internal P r (s, []))) = true.
  Proof. intros H. ds s. unfold close_internal, live, fresh in *. destruct st0; lfin H. Qed.

  Theorem live_preserved s e :
    live s = true -> stops_timer_ev (f_last s) e = false -> live (next P s e) = true.
  Proof.
    intros H Hs. rewrite next_tr. unfold tr_m, trans.
    destruct e as [| | | |d|t|].
    - ds s. unfold do_up, live, fresh in *. destruct st0; lfin H.
    - ds s. unfold do_down, live, fresh in *. destruct st0; lfin H.
    - ds s. unfold do_open, live, fresh in *. destruct st0; lfin H.
    - apply live_close. exact H.
    - unfold do_recv. cbn in Hs. destruct (parse_pkt d) as [[[c i] data]|]; [|exact H].
      destruct (c =? 1) eqn:E1.
      { destruct (parse_opts data) as [opts|]; [|exact H].
        unfold do_rcr. cbn [fst snd].
        destruct (pr_cr P (f_x s) opts) as [[x' [[ack nak] rej]] mk].
        cbn [fst snd]. ds s. unfold live, fresh in *.
        destruct (nonempty rej); [|destruct (nonempty nak)]; destruct st0; lfin H. }
      destruct (c =? 2) eqn:E2.
      { apply N.eqb_eq in E2. subst c. cbn in Hs. rewrite ?orb_false_r in Hs.
        unfold do_rca. cbn [fst snd]. rewrite Hs. exact H. }
      destruct (c =? 3) eqn:E3.
      { apply N.eqb_eq in E3. subst c. cbn in Hs. rewrite ?orb_false_r in Hs.
        unfold do_rcn. cbn [fst snd]. rewrite Hs. exact H. }
      destruct (c =? 4) eqn:E4.
      { apply N.eqb_eq in E4. subst c. cbn in Hs. rewrite ?orb_false_r in Hs.
        unfold do_rcj. cbn [fst snd]. rewrite Hs. exact H. }
      destruct (c =? 5) eqn:E5.
      { rewrite orb_true_r in Hs. discriminate. }
      destruct (c =? 6) eqn:E6.
      { rewrite orb_true_r in Hs. discriminate. }
      destruct (pr_lcp P); [|exact H].
      unfold do_lcp_other. cbn [fst snd].
      destruct (c =? 7).
      { destruct data as [|r tl]; [exact H|]. destruct ((1 <=? r) && (r <=? 4)); [|exact H]. apply live_close. exact H. }
      destruct (c =? 8).
      { destruct data as [|a [|b tl]]; try exact H. destruct (be16 a b =? 49185); [|exact H]. apply live_close. exact H. }
      destruct (c =? 9).
      { ds s. unfold live, fresh in *. destruct st0; destruct (len data <? 4); lfin H. }
      destruct ((c =? 10) || (c =? 11)); [exact H|].
      ds s. unfold live, fresh in *. lfin H.
    - destruct (memN t (f_pend s)); [|exact H].
      ds s. unfold do_timeout, live, fresh in *. cbn [fst snd f_rc f_st].
      destruct (0 <? rc0)%Z; destruct st0; lfin H.
    - ds s. unfold do_echo, live, fresh in *. destruct st0; destruct (pr_lcp P); lfin H.
  Qed.

  (* ------------------------------------------------------------------ T4: shape of the reply to a Configure-Request *)
  Definition resp_code (nak rej : list opt) : N := if nonempty rej then 4 else if nonempty nak then 3 else 2.
  Definition resp_opts (ack nak rej : list opt) : list opt := if nonempty rej then rej else if nonempty nak then nak else ack.

  Lemma rcr_sent s d i data opts x' ack nak rej mk :
    parse_pkt d = Some (1, i, data) -> parse_opts data = Some opts ->
    pr_cr P (f_x s) opts = (x', (ack, nak, rej), mk) ->
    exists rest, sent P s (ERecv d) = packet (resp_code nak rej) i (ser_opts (resp_opts ack nak rej)) :: rest /\
                 forallb (fun p => negb (in_range 2 (pc p) 4)) rest = true.
  Proof.
    intros Ep Eo Ec. rewrite sent_tr. unfold tr_m, trans, do_recv. rewrite Ep. cbn [N.eqb Pos.eqb]. rewrite Eo.
    unfold do_rcr. cbn [fst snd]. rewrite Ec. cbn [fst snd]. unfold resp_code, resp_opts.
    ds s. destruct (nonempty rej); [|destruct (nonempty nak)]; destruct st0; cbn; eexists; split; reflexivity.
  Qed.
End Generic.

(* ---------------------------------------------------------------------- classify *)
Inductive sublist {A} : list A -> list A -> Prop :=
| sub_nil : forall r, sublist [] r
| sub_take : forall a l r, sublist l r -> sublist (a :: l) (a :: r)
| sub_skip : forall a l r, sublist l r -> sublist l (a :: r).

Section ClassifyFacts.
  Context {X : Type}.
  Variable f : X -> opt -> X * verdict.
  Variable Q : X -> Prop.
  Hypothesis Qf : forall x o, Q x -> Q (fst (f x o)).

  Lemma classify_all_ack opts : forall x x' ack,
    classify f x opts = (x', (ack, [], [])) -> ack = opts.
  Proof.
    induction opts as [|o tl IH]; intros x x' ack H; cbn in H.
    - inversion H. reflexivity.
    - destruct (f x o) as [x1 v]. destruct (classify f x1 tl) as [x2 [[a n] r]] eqn:E.
      destruct v; inversion H; subst. f_equal. eapply IH. exact E.
  Qed.

  (* what the three result lists are made of: [x1] is the processor state when the option was examined *)
  Lemma classify_parts opts : forall x x' ack nak rej,
    Q x -> classify f x opts = (x', (ack, nak, rej)) ->
    (sublist ack opts /\ forall o, In o ack -> exists x1, Q x1 /\ snd (f x1 o) = VAck) /\
    (sublist rej opts /\ forall o, In o rej -> exists x1, Q x1 /\ snd (f x1 o) = VRej) /\
    (forall o', In o' nak -> exists x1 o, Q x1 /\ In o opts /\ snd (f x1 o) = VNak o').
  Proof.
    induction opts as [|o tl IH]; intros x x' ack nak rej HQ H; cbn in H.
    - inversion H. repeat split; try constructor; intros ? [].
    - destruct (f x o) as [x1 v] eqn:Ef. destruct (classify f x1 tl) as [x2 [[a n] r]] eqn:E.
      assert (HQ1 : Q x1) by (specialize (Qf x o HQ); rewrite Ef in Qf; exact Qf).
      destruct (IH _ _ _ _ _ HQ1 E) as [[Sa Ia] [[Sr Ir] In_]].
      assert (In' : forall o', In o' n -> exists x1 o0, Q x1 /\ In o0 (o :: tl) /\ snd (f x1 o0) = VNak o').
      { intros o' Hin. destruct (In_ o' Hin) as (xa & ob & Hq & Hi & Hv). exists xa, ob. repeat split; [exact Hq|right; exact Hi|exact Hv]. }
      destruct v; inversion H; subst.
      + repeat split; [constructor; exact Sa| |constructor; exact Sr|exact Ir|exact In'].
        intros o' [<-|Hin]; [exists x; split; [exact HQ|rewrite Ef; reflexivity]|apply Ia; exact Hin].
      + repeat split; [constructor; exact Sa|exact Ia|constructor; exact Sr|exact Ir|].
        intros o' [<-|Hin]; [exists x, o; repeat split; [exact HQ|left; reflexivity|rewrite Ef; reflexivity]|apply In'; exact Hin].
      + repeat split; [constructor; exact Sa|exact Ia|constructor; exact Sr| |exact In'].
        intros o' [<-|Hin]; [exists x; split; [exact HQ|rewrite Ef; reflexivity]|apply Ir; exact Hin].
  Qed.

  Lemma classify_nak_types opts : forall x x' ack nak rej,
    classify f x opts = (x', (ack, nak, rej)) ->
    (forall x1 o x2 o', f x1 o = (x2, VNak o') -> ot o' = ot o) ->
    sublist (map ot nak) (map ot opts).
  Proof.
    induction opts as [|o tl IH]; intros x x' ack nak rej H Ht; cbn in H.
    - inversion H. constructor.
    - destruct (f x o) as [x1 v] eqn:Ef. destruct (classify f x1 tl) as [x2 [[a n] r]] eqn:E.
      pose proof (IH _ _ _ _ _ E Ht) as S.
      destruct v; inversion H; subst; cbn; [constructor; exact S| |constructor; exact S].
      rewrite (Ht _ _ _ _ Ef). constructor. exact S.
  Qed.
End ClassifyFacts.

(* ---------------------------------------------------------------------- T4 for a classify-based processor *)
Section T4.
  Context {X : Type}.
  Variable P : procs X.
  Variable f : X -> opt -> X * verdict.
  Variable Q : X -> Prop.
  Hypothesis Qf : forall x o, Q x -> Q (fst (f x o)).
  Hypothesis Hcr : forall x opts, fst (pr_cr P x opts) = classify f x opts.
  Hypothesis Hty : forall x1 o x2 o', f x1 o = (x2, VNak o') -> ot o' = ot o.

  Theorem reply_options s d i data opts p :
    Q (f_x s) ->
    parse_pkt d = Some (1, i, data) -> parse_opts data = Some opts -> In p (sent P s (ERecv d)) ->
    (pc p = 2 -> pd p = ser_opts opts) /\
    (pc p = 4 -> exists l, pd p = ser_opts l /\ sublist l opts /\
                 forall o, In o l -> exists x1, Q x1 /\ snd (f x1 o) = VRej) /\
    (pc p = 3 -> exists l, pd p = ser_opts l /\ sublist (map ot l) (map ot opts) /\
                 forall o', In o' l -> exists x1 o, Q x1 /\ In o opts /\ snd (f x1 o) = VNak o').
  Proof.
    intros HQ Ep Eo Hin.
    destruct (pr_cr P (f_x s) opts) as [[x' [[ack nak] rej]] mk] eqn:Ec.
    assert (Ecl : classify f (f_x s) opts = (x', (ack, nak, rej))) by (rewrite <- Hcr, Ec; reflexivity).
    destruct (rcr_sent P s d i data opts x' ack nak rej mk Ep Eo Ec) as [rest [Es Hrest]].
    rewrite Es in Hin.
    destruct (classify_parts f Q Qf opts _ _ _ _ _ HQ Ecl) as [[Sa Ia] [[Sr Ir] In_]].
    pose proof (classify_nak_types f opts _ _ _ _ _ Ecl Hty) as Sn.
    destruct Hin as [<-|Hin].
    - unfold resp_code, resp_opts. cbn [pc pd packet].
      destruct rej as [|r0 rj]; cbn [nonempty].
      + destruct nak as [|n0 nk]; cbn [nonempty].
        * repeat split; try discriminate. intros _. rewrite (classify_all_ack f opts _ _ _ Ecl). reflexivity.
        * repeat split; try discriminate. intros _. exists (n0 :: nk). repeat split; [exact Sn|exact In_].
      + repeat split; try discriminate. intros _. exists (r0 :: rj). repeat split; [exact Sr|exact Ir].
    - rewrite forallb_forall in Hrest. specialize (Hrest p Hin). unfold in_range in Hrest.
      repeat split; intros Hc; rewrite Hc in Hrest; discriminate.
  Qed.
End T4.

(* ---------------------------------------------------------------------- the three instances *)
Lemma lcp_nak_type x1 o x2 o' : lcp_opt x1 o = (x2, VNak o') -> ot o' = ot o.
Proof.
  unfold lcp_opt. intros H.
  destruct (ot o =? 1) eqn:E1.
  { apply N.eqb_eq in E1. rewrite E1. destruct (negb (len (od o) =? 2)); [discriminate|].
    destruct (_ && _); [discriminate|]. destruct (_ <? 64); inversion H; reflexivity. }
  destruct (ot o =? 3); [discriminate|].
  destruct (ot o =? 5) eqn:E5.
  { apply N.eqb_eq in E5. rewrite E5. destruct (negb (len (od o) =? 4)); [discriminate|].
    destruct (be_val (od o) =? 0).
    { destruct (draw32 (lx_rng x1)). inversion H. reflexivity. }
    destruct (be_val (od o) =? lx_magic x1); [|discriminate].
    destruct (draw32 (lx_rng x1)) as [nm r1]. destruct (draw32 r1). inversion H. reflexivity. }
  destruct ((ot o =? 7) || (ot o =? 8)); [destruct (negb (len (od o) =? 0))|]; discriminate.
Qed.

Lemma lcp_rej_unacceptable x o k a b :
  snd (lcp_opt x o) = VRej -> mk_kind k = 0 -> acceptable k a b o = false.
Proof.
  unfold lcp_opt, acceptable. intros H Hk. rewrite Hk. cbn [N.eqb].
  destruct (ot o =? 1) eqn:E1.
  { destruct (len (od o) =? 2); [|reflexivity]. cbn [negb] in H. unfold in_range.
    destruct (_ && _); [discriminate|]. destruct (_ <? 64); discriminate. }
  destruct (ot o =? 3) eqn:E3.
  { apply N.eqb_eq in E3. rewrite E3. reflexivity. }
  destruct (ot o =? 5) eqn:E5.
  { destruct (len (od o) =? 4); [|reflexivity]. cbn [negb] in H.
    destruct (be_val (od o) =? 0). { destruct (draw32 (lx_rng x)). discriminate. }
    destruct (be_val (od o) =? lx_magic x); [|discriminate].
    destruct (draw32 (lx_rng x)) as [nm r1]. destruct (draw32 r1). discriminate. }
  destruct ((ot o =? 7) || (ot o =? 8)); [|reflexivity].
  destruct (len (od o) =? 0); [discriminate|reflexivity].
Qed.

Lemma ipcp_opt_x x o : fst (ipcp_opt x o) = x.
Proof.
  unfold ipcp_opt. destruct (ot o =? 3).
  { destruct (negb _); [reflexivity|]. destruct (is_zero (od o)); destruct (ix_peer x); try reflexivity.
    destruct (bytes_eqb _ _); reflexivity. }
  destruct (ot o =? 129); [reflexivity|]. destruct (ot o =? 131); reflexivity.
Qed.

Lemma ipcp_nak_type x1 o x2 o' : ipcp_opt x1 o = (x2, VNak o') -> ot o' = ot o.
Proof.
  unfold ipcp_opt, ipcp_dns. intros H.
  destruct (ot o =? 3) eqn:E3.
  { apply N.eqb_eq in E3. rewrite E3. destruct (negb _); [discriminate|].
    destruct (is_zero (od o)); destruct (ix_peer x1); try discriminate; try (inversion H; reflexivity).
    destruct (bytes_eqb _ _); [discriminate|inversion H; reflexivity]. }
  destruct (ot o =? 129) eqn:E9.
  { apply N.eqb_eq in E9. rewrite E9. destruct (negb _); [discriminate|].
    destruct (is_zero (od o)); [|discriminate]. destruct (ix_dns1 x1); inversion H; reflexivity. }
  destruct (ot o =? 131) eqn:E1.
  { apply N.eqb_eq in E1. rewrite E1. destruct (negb _); [discriminate|].
    destruct (is_zero (od o)); [|discriminate]. destruct (ix_dns2 x1); inversion H; reflexivity. }
  discriminate.
Qed.

(* the monitor configuration that belongs to an IPCP option state *)
Definition ipcp_mcfg (x : ipx) (k : mcfg) : Prop :=
  mk_kind k = 1 /\ mk_assigned k = ix_peer x /\ mk_dns1 k = isSome (ix_dns1 x) /\ mk_dns2 k = isSome (ix_dns2 x).

Lemma ipcp_unacceptable x o k a b v :
  ipcp_mcfg x k -> snd (ipcp_opt x o) = v -> v <> VAck -> acceptable k a b o = false.
Proof.
  intros (Hk & Ha & H1 & H2) H Hv. unfold acceptable. rewrite Hk, Ha, H1, H2. cbn [N.eqb Pos.eqb].
  unfold ipcp_opt, ipcp_dns, is_zero in H.
  destruct (ot o =? 3).
  { destruct (len (od o) =? 4); [|reflexivity]. cbn [negb] in H.
    destruct (forallb (N.eqb 0) (od o)); [reflexivity|]. cbn.
    destruct (ix_peer x); [|subst v; contradiction].
    destruct (bytes_eqb (od o) l); [subst v; contradiction|reflexivity]. }
  destruct (ot o =? 129).
  { destruct (len (od o) =? 4); [|reflexivity]. cbn [negb] in H.
    destruct (forallb (N.eqb 0) (od o)); [|subst v; contradiction]. cbn.
    destruct (ix_dns1 x); [reflexivity|subst v; contradiction]. }
  destruct (ot o =? 131).
  { destruct (len (od o) =? 4); [|reflexivity]. cbn [negb] in H.
    destruct (forallb (N.eqb 0) (od o)); [|subst v; contradiction]. cbn.
    destruct (ix_dns2 x); [reflexivity|subst v; contradiction]. }
  reflexivity.
Qed.

(* T5 at the option level: the accept branch with an assigned address *)
Lemma ipcp_ack_assigned x o a :
  snd (ipcp_opt x o) = VAck -> ot o = 3 -> ix_peer x = Some a -> od o = a.
Proof.
  unfold ipcp_opt. intros H Ht Hp. rewrite Ht, Hp in H. cbn [N.eqb Pos.eqb] in H.
  destruct (negb _); [discriminate|]. destruct (is_zero (od o)); [discriminate|].
  destruct (bytes_eqb (od o) a) eqn:E; [apply bytes_eqb_eq; exact E|discriminate].
Qed.

Lemma v6_nak_type x1 o x2 o' : v6_opt x1 o = (x2, VNak o') -> ot o' = ot o.
Proof.
  unfold v6_opt. intros H. destruct (ot o =? 1) eqn:E1; [|discriminate].
  apply N.eqb_eq in E1. rewrite E1. destruct (negb _); [discriminate|].
  destruct (be_val (od o) =? 0). { destruct (draw_ifid (vx_rng x1)). inversion H. reflexivity. }
  destruct (be_val (od o) =? vx_cfg x1); [|discriminate].
  destruct (draw_ifid (vx_rng x1)) as [nl r1]. destruct (draw_ifid r1). inversion H. reflexivity.
Qed.

Lemma v6_rej_unacceptable x o k a b :
  snd (v6_opt x o) = VRej -> mk_kind k = 2 -> acceptable k a b o = false.
Proof.
  unfold v6_opt, acceptable. intros H Hk. rewrite Hk. cbn [N.eqb Pos.eqb].
  destruct (ot o =? 1); [|reflexivity].
  destruct (len (od o) =? 8); [|reflexivity]. cbn [negb] in H.
  destruct (be_val (od o) =? 0). { destruct (draw_ifid (vx_rng x)). discriminate. }
  destruct (be_val (od o) =? vx_cfg x); [|discriminate].
  destruct (draw_ifid (vx_rng x)) as [nl r1]. destruct (draw_ifid r1). discriminate.
Qed.

Definition anyx {X} (_ : X) : Prop := True.

(* T4, LCP *)
Theorem lcp_reply_options s d i data opts p :
  parse_pkt d = Some (1, i, data) -> parse_opts data = Some opts -> In p (sent lcp_procs s (ERecv d)) ->
  (pc p = 2 -> pd p = ser_opts opts) /\
  (pc p = 4 -> exists l, pd p = ser_opts l /\ sublist l opts /\
               forall o, In o l -> forall k a b, mk_kind k = 0 -> acceptable k a b o = false) /\
  (pc p = 3 -> exists l, pd p = ser_opts l /\ sublist (map ot l) (map ot opts)).
Proof.
  intros Ep Eo Hin.
  destruct (reply_options lcp_procs lcp_opt anyx (fun _ _ _ => I) (fun _ _ => eq_refl) lcp_nak_type
              s d i data opts p I Ep Eo Hin) as (Ha & Hr & Hn).
  repeat split; [exact Ha| |].
  - intros Hc. destruct (Hr Hc) as (l & E & S & Hl). exists l. repeat split; [exact E|exact S|].
    intros o Ho k a b Hk. destruct (Hl o Ho) as (x1 & _ & Hv). eapply lcp_rej_unacceptable; eauto.
  - intros Hc. destruct (Hn Hc) as (l & E & S & _). exists l. split; [exact E|exact S].
Qed.

(* T4, IPv6CP *)
Theorem v6_reply_options s d i data opts p :
  parse_pkt d = Some (1, i, data) -> parse_opts data = Some opts -> In p (sent v6_procs s (ERecv d)) ->
  (pc p = 2 -> pd p = ser_opts opts) /\
  (pc p = 4 -> exists l, pd p = ser_opts l /\ sublist l opts /\
               forall o, In o l -> forall k a b, mk_kind k = 2 -> acceptable k a b o = false) /\
  (pc p = 3 -> exists l, pd p = ser_opts l /\ sublist (map ot l) (map ot opts)).
Proof.
  intros Ep Eo Hin.
  destruct (reply_options v6_procs v6_opt anyx (fun _ _ _ => I) (fun _ _ => eq_refl) v6_nak_type
              s d i data opts p I Ep Eo Hin) as (Ha & Hr & Hn).
  repeat split; [exact Ha| |].
  - intros Hc. destruct (Hr Hc) as (l & E & S & Hl). exists l. repeat split; [exact E|exact S|].
    intros o Ho k a b Hk. destruct (Hl o Ho) as (x1 & _ & Hv). eapply v6_rej_unacceptable; eauto.
  - intros Hc. destruct (Hn Hc) as (l & E & S & _). exists l. split; [exact E|exact S].
Qed.

(* T4 + T5, IPCP: the option state never changes while a request is processed, so "offending" is
   exact for Nak as well, and an acknowledged IP-Address is the assigned one *)
Theorem ipcp_reply_options s d i data opts p k :
  ipcp_mcfg (f_x s) k ->
  parse_pkt d = Some (1, i, data) -> parse_opts data = Some opts -> In p (sent ipcp_procs s (ERecv d)) ->
  (pc p = 2 -> pd p = ser_opts opts /\
               forall a o, ix_peer (f_x s) = Some a -> In o opts -> ot o = 3 -> od o = a) /\
  (pc p = 4 -> exists l, pd p = ser_opts l /\ sublist l opts /\
               forall o, In o l -> forall a b, acceptable k a b o = false) /\
  (pc p = 3 -> exists l, pd p = ser_opts l /\ sublist (map ot l) (map ot opts) /\
               forall o', In o' l -> exists o, In o opts /\ ot o = ot o' /\ forall a b, acceptable k a b o = false).
Proof.
  intros Hk Ep Eo Hin.
  set (Q := fun x : ipx => x = f_x s).
  assert (Qf : forall x o, Q x -> Q (fst (ipcp_opt x o))) by (intros x o Hq; rewrite ipcp_opt_x; exact Hq).
  destruct (reply_options ipcp_procs ipcp_opt Q Qf (fun _ _ => eq_refl) ipcp_nak_type
              s d i data opts p eq_refl Ep Eo Hin) as (Ha & Hr & Hn).
  repeat split.
  - apply Ha; assumption.
  - intros a o Hp Ho Ht.
    (* the Ack came out of classify with empty nak/rej: every option was VAck *)
    destruct (pr_cr ipcp_procs (f_x s) opts) as [[x' [[ack nak] rej]] mk] eqn:Ec.
    assert (Ecl : classify ipcp_opt (f_x s) opts = (x', (ack, nak, rej))) by (cbn in Ec; inversion Ec; reflexivity).
    destruct (rcr_sent ipcp_procs s d i data opts x' ack nak rej mk Ep Eo Ec) as [rest [Es Hrest]].
    rewrite Es in Hin. destruct Hin as [<-|Hin].
    + unfold resp_code in H. cbn [pc packet] in H.
      destruct rej; cbn [nonempty] in H; [|discriminate]. destruct nak; cbn [nonempty] in H; [|discriminate].
      destruct (classify_parts ipcp_opt Q Qf opts _ _ _ _ _ eq_refl Ecl) as [[_ Ia] _].
      rewrite (classify_all_ack ipcp_opt opts _ _ _ Ecl) in Ia.
      destruct (Ia o Ho) as (x1 & Hq & Hv). rewrite Hq in Hv. eapply ipcp_ack_assigned; eauto.
    + rewrite forallb_forall in Hrest. specialize (Hrest p Hin). rewrite H in Hrest. discriminate.
  - intros Hc. destruct (Hr Hc) as (l & E & S & Hl). exists l. repeat split; [exact E|exact S|].
    intros o Ho a b. destruct (Hl o Ho) as (x1 & Hq & Hv). rewrite Hq in Hv.
    eapply ipcp_unacceptable; [exact Hk|exact Hv|discriminate].
  - intros Hc. destruct (Hn Hc) as (l & E & S & Hl). exists l. repeat split; [exact E|exact S|].
    intros o' Ho'. destruct (Hl o' Ho') as (x1 & o & Hq & Ho & Hv). rewrite Hq in Hv.
    exists o. repeat split; [exact Ho| |].
    + destruct (ipcp_opt (f_x s) o) as [x2 v] eqn:Ef. cbn in Hv. subst v. symmetry. eapply ipcp_nak_type; eauto.
    + intros a b. eapply ipcp_unacceptable; [exact Hk|exact Hv|discriminate].
Qed.

(* ---------------------------------------------------------------------- what the ghost fields mean, in observables *)
Section Ghost.
  Context {X : Type}.
  Variable P : procs X.

  Definition is_rca_match (s : fsm X) (e : ev) : bool :=
    match e with
    | ERecv d => match parse_pkt d with Some (c, i, _) => (c =? 2) && (i =? f_last s) | None => false end
    | _ => false
    end.
  Definition sends_cr (pk : list pkt) : bool := existsb (fun p => pc p =? 1) pk.
  (* the identifier of a well-formed Configure-Request, if the event is one *)
  Definition rcr_id (e : ev) : option N :=
    match e with
    | ERecv d => match parse_pkt d with
                 | Some (c, i, data) => if c =? 1 then match parse_opts data with Some _ => Some i | None => None end else None
                 | None => None
                 end
    | _ => None
    end.

  Ltac ds s := destruct s as [st0 x0 rc0 id0 last0 arm0 tok0 pend0 we0 peer0].
  Ltac gfin H := cbn in H |- *; rewrite ?N.eqb_refl; cbn; try discriminate; try (split; [reflexivity|]); auto.

  (* g_peer after a step: no Configure-Request left in this step, and it held before or this step
     received a Configure-Ack carrying the identifier of our latest request *)
  Theorem g_peer_meaning s e :
    g_peer (next P s e) = true ->
    sends_cr (sent P s e) = false /\ (g_peer s = true \/ is_rca_match s e = true).
  Proof.
    rewrite next_tr, sent_tr. unfold tr_m, trans, sends_cr. intros H.
    destruct e as [| | | |d|t|].
    - ds s. unfold do_up in *. destruct st0; gfin H.
    - ds s. unfold do_down in *. destruct st0; gfin H.
    - ds s. unfold do_open in *. destruct st0; gfin H.
    - ds s. unfold close_internal in *. destruct st0; gfin H.
    - unfold do_recv, is_rca_match in *. destruct (parse_pkt d) as [[[c i] data]|]; [|gfin H].
      destruct (c =? 1) eqn:E1.
      { destruct (parse_opts data) as [opts|]; [|gfin H].
        unfold do_rcr in *. cbn [fst snd] in *.
        destruct (pr_cr P (f_x s) opts) as [[x' [[ack nak] rej]] mk].
        cbn [fst snd] in *. ds s.
        destruct (nonempty rej); [|destruct (nonempty nak)]; destruct st0; gfin H. }
      destruct (c =? 2) eqn:E2.
      { unfold do_rca in *. cbn [fst snd] in *. destruct (i =? f_last s) eqn:Ei; cbn [negb] in *; [|gfin H].
        ds s. destruct st0; gfin H. }
      destruct (c =? 3) eqn:E3.
      { unfold do_rcn in *. cbn [fst snd] in *. destruct (i =? f_last s); cbn [negb] in *; [|gfin H].
        ds s. unfold nakrej_tail in *.
        destruct (parse_opts data); [|destruct (pr_nak_strict P)]; destruct st0; gfin H. }
      destruct (c =? 4) eqn:E4.
      { unfold do_rcj in *. cbn [fst snd] in *. destruct (i =? f_last s); cbn [negb] in *; [|gfin H].
        ds s. unfold nakrej_tail in *.
        destruct (parse_opts data); [|destruct (pr_rej_strict P)]; destruct st0; gfin H. }
      destruct (c =? 5) eqn:E5.
      { ds s. unfold do_rtr in *. destruct st0; gfin H. }
      destruct (c =? 6) eqn:E6.
      { ds s. unfold do_rta in *. destruct st0; gfin H. }
      destruct (pr_lcp P); [|gfin H].
      unfold do_lcp_other in *. cbn [fst snd] in *.
      destruct (c =? 7).
      { destruct data as [|r tl]; [gfin H|]. destruct ((1 <=? r) && (r <=? 4)); [|gfin H].
        ds s. unfold close_internal in *. destruct st0; gfin H. }
      destruct (c =? 8).
      { destruct data as [|a [|b tl]]; try (gfin H; fail). destruct (be16 a b =? 49185); [|gfin H].
        ds s. unfold close_internal in *. destruct st0; gfin H. }
      destruct (c =? 9).
      { ds s. destruct st0; destruct (len data <? 4); gfin H. }
      destruct ((c =? 10) || (c =? 11)); gfin H.
    - destruct (memN t (f_pend s)); [|gfin H].
      ds s. unfold do_timeout in *. cbn [fst snd f_rc f_st] in *. destruct (0 <? rc0)%Z; destruct st0; gfin H.
    - ds s. unfold do_echo in *. destruct st0; destruct (pr_lcp P); gfin H.
  Qed.

  (* g_we after a step: this step answered a well-formed Configure-Request with a Configure-Ack
     carrying its identifier, or the step was no Configure-Request and it held before *)
  Theorem g_we_meaning s e :
    g_we (next P s e) = true ->
    match rcr_id e with
    | Some i => existsb (fun p => (pc p =? 2) && (pi p =? i)) (sent P s e) = true
    | None => g_we s = true
    end.
  Proof.
    rewrite next_tr, sent_tr. unfold tr_m, trans, rcr_id. intros H.
    destruct e as [| | | |d|t|].
    - ds s. unfold do_up in *. destruct st0; gfin H.
    - ds s. unfold do_down in *. destruct st0; gfin H.
    - ds s. unfold do_open in *. destruct st0; gfin H.
    - ds s. unfold close_internal in *. destruct st0; gfin H.
    - unfold do_recv in *. destruct (parse_pkt d) as [[[c i] data]|]; [|gfin H].
      destruct (c =? 1) eqn:E1.
      { destruct (parse_opts data) as [opts|]; [|gfin H].
        unfold do_rcr in *. cbn [fst snd] in *.
        destruct (pr_cr P (f_x s) opts) as [[x' [[ack nak] rej]] mk].
        cbn [fst snd] in *. ds s.
        destruct (nonempty rej); [|destruct (nonempty nak)]; destruct st0; gfin H. }
      destruct (c =? 2) eqn:E2.
      { unfold do_rca in *. cbn [fst snd] in *. destruct (i =? f_last s) eqn:Ei; cbn [negb] in *; [|gfin H].
        ds s. destruct st0; gfin H. }
      destruct (c =? 3) eqn:E3.
      { unfold do_rcn in *. cbn [fst snd] in *. destruct (i =? f_last s); cbn [negb] in *; [|gfin H].
        ds s. unfold nakrej_tail in *.
        destruct (parse_opts data); [|destruct (pr_nak_strict P)]; destruct st0; gfin H. }
      destruct (c =? 4) eqn:E4.
      { unfold do_rcj in *. cbn [fst snd] in *. destruct (i =? f_last s); cbn [negb] in *; [|gfin H].
        ds s. unfold nakrej_tail in *.
        destruct (parse_opts data); [|destruct (pr_rej_strict P)]; destruct st0; gfin H. }
      destruct (c =? 5) eqn:E5.
      { ds s. unfold do_rtr in *. destruct st0; gfin H. }
      destruct (c =? 6) eqn:E6.
      { ds s. unfold do_rta in *. destruct st0; gfin H. }
      destruct (pr_lcp P); [|gfin H].
      unfold do_lcp_other in *. cbn [fst snd] in *.
      destruct (c =? 7).
      { destruct data as [|r tl]; [gfin H|]. destruct ((1 <=? r) && (r <=? 4)); [|gfin H].
        ds s. unfold close_internal in *. destruct st0; gfin H. }
      destruct (c =? 8).
      { destruct data as [|a [|b tl]]; try (gfin H; fail). destruct (be16 a b =? 49185); [|gfin H].
        ds s. unfold close_internal in *. destruct st0; gfin H. }
      destruct (c =? 9).
      { ds s. destruct st0; destruct (len data <? 4); gfin H. }
      destruct ((c =? 10) || (c =? 11)); gfin H.
    - destruct (memN t (f_pend s)); [|gfin H].
      ds s. unfold do_timeout in *. cbn [fst snd f_rc f_st] in *. destruct (0 <? rc0)%Z; destruct st0; gfin H.
    - ds s. unfold do_echo in *. destruct st0; destruct (pr_lcp P); gfin H.
  Qed.

End Ghost.

(* ---------------------------------------------------------------------- statements refuted on the Model *)
(* T6' in full: whatever happened before, once the peer falls silent the automaton reaches a state
   that needs no timer *)
Definition always_terminates {X} (P : procs X) : Prop :=
  forall x evs, exists n, terminal (f_st (silent P n (run P (init x) evs))) = true.

Definition lx0 : lcpx := mklcpx 287454020 1492 49187 5 false false 3 [].
Definition ix0 : ipx := mkipx (Some [10;0;0;1]) (Some [10;0;0;9]) None None 3.
Definition ix_unassigned : ipx := mkipx (Some [10;0;0;1]) None None None 3.
Definition vx0 : v6x := mkv6x 144115188075855873 144115188075855873 3 [].
Definition ack_then_silence : list ev := [EOpen; EUp; ERecv [2;1;0;4]].

Lemma not_always_terminates {X} (P : procs X) (x : X) :
  fresh (run P (init x) ack_then_silence) = false ->
  terminal (f_st (run P (init x) ack_then_silence)) = false ->
  ~ always_terminates P.
Proof.
  intros F T H. destruct (H x ack_then_silence) as [n Hn].
  rewrite (silent_stuck P n _ F) in Hn. rewrite T in Hn. discriminate.
Qed.

Theorem lcp_not_always_terminates : ~ always_terminates lcp_procs.
Proof. apply (not_always_terminates lcp_procs lx0); vm_compute; reflexivity. Qed.
Theorem ipcp_not_always_terminates : ~ always_terminates ipcp_procs.
Proof. apply (not_always_terminates ipcp_procs ix0); vm_compute; reflexivity. Qed.
Theorem v6_not_always_terminates : ~ always_terminates v6_procs.
Proof. apply (not_always_terminates v6_procs vx0); vm_compute; reflexivity. Qed.

(* T5 in full: an acknowledged IP-Address option is the address assigned to the session *)
Definition ipcp_acks_only_assigned : Prop :=
  forall x evs d p opts o,
    In p (sent ipcp_procs (run ipcp_procs (init x) evs) (ERecv d)) -> pc p = 2 ->
    parse_opts (pd p) = Some opts -> In o opts -> ot o = 3 -> ix_peer x = Some (od o).

Theorem ipcp_acks_only_assigned_refuted : ~ ipcp_acks_only_assigned.
Proof.
  intros H.
  specialize (H ix_unassigned [EOpen; EUp] [1;3;0;10;3;6;203;0;113;7]
                (packet 2 3 [3;6;203;0;113;7]) [mkopt 3 [203;0;113;7]] (mkopt 3 [203;0;113;7])).
  assert (E : ix_peer ix_unassigned = Some [203;0;113;7]).
  { apply H; vm_compute; auto. }
  discriminate.
Qed.

(* ---------------------------------------------------------------------- non-vacuity *)
Definition rcr_lcp : ev := ERecv [1;7;0;8;1;4;5;212].
Example ex_opened_reachable :
  f_st (run lcp_procs (init lx0) [EOpen; EUp; rcr_lcp; ERecv [2;1;0;4]]) = Opened.
Proof. vm_compute. reflexivity. Qed.
Example ex_opened_reachable_other_order :
  f_st (run lcp_procs (init lx0) [EUp; EOpen; ERecv [2;1;0;4]; rcr_lcp]) = Opened.
Proof. vm_compute. reflexivity. Qed.
(* the former witness against T1 (stale expiry in Ack-Rcvd, then the peer's request): after the fix *)
Example ex_stale_expiry_no_longer_opens :
  f_st (run lcp_procs (init lx0) [EUp; EOpen; ERecv [2;1;0;4]; EFire 1; rcr_lcp]) = AckSent.
Proof. vm_compute. reflexivity. Qed.
Example ex_leaving_event :
  let s := run lcp_procs (init lx0) [EOpen; EUp; rcr_lcp; ERecv [2;1;0;4]] in
  leaving_of true (f_last s) (ERecv [5;9;0;4]) = true /\ f_st (next lcp_procs s (ERecv [5;9;0;4])) = Stopping.
Proof. vm_compute. split; reflexivity. Qed.
Example ex_silent_peer :
  let s1 := run lcp_procs (init lx0) [EOpen; EUp] in
  f_st (silent lcp_procs 3 s1) = Stopped /\ count_req (silent_sent lcp_procs 3 s1) = 2%nat.
Proof. vm_compute. split; reflexivity. Qed.
Example ex_live_state : live (run v6_procs (init vx0) [EOpen; EUp; ERecv [3;1;0;4]]) = true.
Proof. vm_compute. reflexivity. Qed.
Example ex_reject_lists_offending :
  sent lcp_procs (run lcp_procs (init lx0) [EOpen; EUp]) (ERecv [1;9;0;12;1;4;5;220;3;4;192;35])
  = [packet 4 9 [3;4;192;35]].
Proof. vm_compute. reflexivity. Qed.
Example ex_ipcp_ack_assigned :
  sent ipcp_procs (run ipcp_procs (init ix0) [EOpen; EUp]) (ERecv [1;3;0;10;3;6;10;0;0;9])
  = [packet 2 3 [3;6;10;0;0;9]].
Proof. vm_compute. reflexivity. Qed.
