(* C11 — lemmas about Model/Fsm.v (generic in the option processor) and its three instances. *)
From Coq Require Import ZArith NArith List Bool Lia ZifyN ZifyNat ZifyBool.
From Verif Require Import Base.Word Model.Fsm Model.Lcp Model.Ipcp Model.Ipv6cp Model.FsmSpec.
Import ListNotations.
Local Open Scope N_scope.

Section Generic.
  Context {X : Type}.
  Variable P : procs X.

  Definition tr_m (s : fsm X) (e : ev) : M := fst (fst (trans P s e)).

  Lemma next_tr s e : next P s e = fst (tr_m s e).
  Proof.
    unfold next, step, tr_m. destruct (trans P s e) as [[[s' pk] er] mk]. reflexivity.
  Qed.
  Lemma sent_tr s e : sent P s e = snd (tr_m s e).
  Proof.
    unfold sent, step, tr_m. destruct (trans P s e) as [[[s' pk] er] mk]. reflexivity.
  Qed.

  (* ------------------------------------------------------------------ T2 *)
  Lemma close_internal_leaves r (m : M) : f_st (fst m) = Opened -> f_st (fst (close_internal P r m)) <> Opened.
  Proof. intros H. unfold close_internal. rewrite H. cbn. discriminate. Qed.

  Lemma leaves_opened s e :
    f_st s = Opened -> leaving_of (pr_lcp P) (f_last s) e = true -> f_st (next P s e) <> Opened.
  Proof.
    intros Ho Hl. rewrite next_tr. unfold tr_m, trans.
    destruct e as [| | | |d|t|]; cbn in Hl; try discriminate.
    - unfold do_down. cbn. rewrite Ho. cbn. discriminate.
    - apply close_internal_leaves. exact Ho.
    - unfold do_recv. destruct (parse_pkt d) as [[[c i] data]|]; [|discriminate].
      destruct (c =? 1) eqn:E1.
      { destruct (parse_opts data) as [opts|]; [|discriminate].
        unfold do_rcr. cbn [fst snd]. rewrite Ho.
        destruct (pr_cr P (f_x s) opts) as [[x' [[ack nak] rej]] mk].
        cbn. destruct (_ =? 2); cbn; discriminate. }
      destruct (c =? 2) eqn:E2.
      { unfold do_rca. cbn [fst snd]. rewrite Hl. cbn. rewrite Ho. cbn. discriminate. }
      destruct (c =? 3) eqn:E3.
      { cbn in Hl. apply andb_prop in Hl as [Hi Hp]. unfold do_rcn. cbn [fst snd]. rewrite Hi. cbn [negb].
        destruct (parse_opts data); [|discriminate]. cbn. unfold nakrej_tail. cbn. rewrite Ho. cbn. discriminate. }
      destruct (c =? 4) eqn:E4.
      { cbn in Hl. apply andb_prop in Hl as [Hi Hp]. unfold do_rcj. cbn [fst snd]. rewrite Hi. cbn [negb].
        destruct (parse_opts data); [|discriminate]. cbn. unfold nakrej_tail. cbn. rewrite Ho. cbn. discriminate. }
      destruct (c =? 5) eqn:E5.
      { unfold do_rtr. cbn. rewrite Ho. cbn. discriminate. }
      destruct (c =? 6) eqn:E6.
      { unfold do_rta. cbn. rewrite Ho. cbn. discriminate. }
      cbn in Hl.
      destruct (c =? 7) eqn:E7.
      { apply andb_prop in Hl as [Hk Hr]. rewrite Hk. unfold do_lcp_other. rewrite E7.
        destruct data as [|r tl]; [discriminate|]. unfold in_range in Hr. rewrite Hr.
        apply close_internal_leaves. exact Ho. }
      destruct (c =? 8) eqn:E8; [|discriminate].
      apply andb_prop in Hl as [Hk Hr]. rewrite Hk. unfold do_lcp_other. rewrite E7, E8.
      destruct data as [|a [|b tl]]; try discriminate. rewrite Hr.
      apply close_internal_leaves. exact Ho.
  Qed.

  (* ------------------------------------------------------------------ T1 *)
  Definition inv1b (s : fsm X) : bool :=
    match f_st s with
    | Opened => g_we s && g_peer s
    | AckRcvd => g_peer s
    | AckSent => g_we s
    | _ => true
    end.

  Ltac brk :=
    repeat match goal with
           | |- context [if ?b then _ else _] => destruct b eqn:?
           | |- context [match ?x with _ => _ end] => is_var x; destruct x
           end.

  Ltac stcase s Hst H :=
    destruct (f_st s) eqn:Hst; cbn in H |- *; rewrite ?Hst; cbn; try reflexivity; try exact H;
    try (apply andb_prop in H; destruct H as [? ?]); try assumption.

  Lemma inv1_close r s pk : inv1b s = true -> inv1b (fst (close_internal P r (s, pk))) = true.
  Proof.
    intros H. unfold close_internal, inv1b in *. cbn [fst snd]. destruct (f_st s) eqn:Hst; cbn; rewrite ?Hst; auto.
  Qed.

  Lemma inv1_timeout s pk : inv1b s = true -> inv1b (fst (do_timeout P (s, pk))) = true.
  Proof.
    intros H. unfold do_timeout, inv1b in *. cbn [fst snd].
    destruct (0 <? f_rc s)%Z; destruct (f_st s) eqn:Hst; cbn; rewrite ?Hst; auto.
  Qed.

  Lemma inv1_step s e : inv1b s = true -> inv1b (next P s e) = true.
  Proof.
    intros H. rewrite next_tr. unfold tr_m, trans.
    destruct e as [| | | |d|t|].
    - unfold do_up, inv1b in *. cbn [fst snd]. destruct (f_st s) eqn:Hst; cbn; rewrite ?Hst; auto.
    - unfold do_down, inv1b in *. cbn [fst snd stop_timer f_st]. destruct (f_st s) eqn:Hst; cbn; rewrite ?Hst; auto.
    - unfold do_open, inv1b in *. cbn [fst snd]. destruct (f_st s) eqn:Hst; cbn; rewrite ?Hst; auto.
    - apply inv1_close. exact H.
    - unfold do_recv. destruct (parse_pkt d) as [[[c i] data]|]; [|exact H].
      destruct (c =? 1).
      { destruct (parse_opts data) as [opts|]; [|exact H].
        unfold do_rcr. cbn [fst snd].
        destruct (pr_cr P (f_x s) opts) as [[x' [[ack nak] rej]] mk].
        cbn [fst snd]. unfold inv1b in *.
        destruct (f_st s) eqn:Hst; cbn; destruct (_ =? 2) eqn:E; cbn; rewrite ?Hst; cbn; auto. }
      destruct (c =? 2).
      { unfold do_rca. cbn [fst snd]. destruct (i =? f_last s); cbn [negb]; [|exact H].
        unfold inv1b in *. destruct (f_st s) eqn:Hst; cbn; rewrite ?Hst; cbn; auto.
        apply andb_prop in H. destruct H as [H1 H2]. rewrite H1. reflexivity. }
      destruct (c =? 3).
      { unfold do_rcn. cbn [fst snd]. destruct (i =? f_last s); cbn [negb]; [|exact H].
        unfold nakrej_tail, inv1b in *.
        destruct (parse_opts data); [|destruct (pr_nak_strict P)];
          destruct (f_st s) eqn:Hst; cbn; rewrite ?Hst; cbn; auto. }
      destruct (c =? 4).
      { unfold do_rcj. cbn [fst snd]. destruct (i =? f_last s); cbn [negb]; [|exact H].
        unfold nakrej_tail, inv1b in *.
        destruct (parse_opts data); [|destruct (pr_rej_strict P)];
          destruct (f_st s) eqn:Hst; cbn; rewrite ?Hst; cbn; auto. }
      destruct (c =? 5).
      { unfold do_rtr, inv1b in *. cbn [fst snd stop_timer f_st]. destruct (f_st s) eqn:Hst; cbn; rewrite ?Hst; auto. }
      destruct (c =? 6).
      { unfold do_rta, inv1b in *. cbn [fst snd stop_timer f_st]. destruct (f_st s) eqn:Hst; cbn; rewrite ?Hst; auto. }
      destruct (pr_lcp P); [|exact H].
      unfold do_lcp_other. cbn [fst snd].
      destruct (c =? 7).
      { destruct data as [|r tl]; [exact H|]. destruct (_ && _); [|exact H]. apply inv1_close. exact H. }
      destruct (c =? 8).
      { destruct data as [|a [|b tl]]; try exact H. destruct (_ =? _); [|exact H]. apply inv1_close. exact H. }
      destruct (c =? 9).
      { unfold inv1b in *. destruct (f_st s) eqn:Hst; cbn; rewrite ?Hst; auto.
        destruct (len data <? 4); cbn; rewrite ?Hst; auto. }
      destruct (_ || _); [exact H|].
      unfold inv1b in *. cbn. exact H.
    - destruct (memN t (f_pend s)); [|exact H]. apply inv1_timeout. exact H.
    - unfold do_echo, inv1b in *. cbn [fst snd]. destruct (f_st s) eqn:Hst; cbn; rewrite ?Hst; auto.
      destruct (pr_lcp P); cbn; rewrite ?Hst; auto.
  Qed.

  Lemma inv1_run evs : forall s, inv1b s = true -> inv1b (run P s evs) = true.
  Proof.
    induction evs as [|e tl IH]; intros s H; cbn; [exact H|]. apply IH. apply inv1_step. exact H.
  Qed.

  Theorem opened_implies_mutual_ack x evs :
    f_st (run P (init x) evs) = Opened ->
    g_we (run P (init x) evs) = true /\ g_peer (run P (init x) evs) = true.
  Proof.
    intros Ho. assert (H := inv1_run evs (init x) eq_refl). unfold inv1b in H. rewrite Ho in H.
    apply andb_prop in H. exact H.
  Qed.
End Generic.
