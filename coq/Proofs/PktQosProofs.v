(* C07 for bpf/qos_ratelimit.c (Model/TcQosPkt.v) *)
From Coq Require Import NArith List Bool Lia ZifyN ZifyNat ZifyBool.
From Verif Require Import Base.Word Model.PktMonad Model.TcQosPkt Proofs.PktMonadProofs Proofs.PktAntispoofProofs.
Import ListNotations.
Local Open Scope N_scope.

Lemma inb_qos dir mp e n : inb n (qos_body dir mp e n).
Proof. unfold qos_body. destruct dir; inb_go. Qed.
Lemma pu_qos dir mp e f0 : pu f0 False (qos_body dir mp e (flen f0)).
Proof. unfold qos_body. pu_go. Qed.
Lemma vdr_qos dir mp e n : vdr tc_ok_or_shot (qos_body dir mp e n).
Proof. unfold qos_body. vdr_go. Qed.

Theorem no_oob_qos_egress : forall mp e f, run (qos_egress_prog mp e) f <> Fault.
Proof. intros. apply inb_run. unfold qos_egress_prog. apply (inb_dl _ (qos_body false mp e)). apply inb_qos. Qed.
Theorem no_oob_qos_ingress : forall mp e f, run (qos_ingress_prog mp e) f <> Fault.
Proof. intros. apply inb_run. unfold qos_ingress_prog. apply (inb_dl _ (qos_body true mp e)). apply inb_qos. Qed.

Theorem untouched_qos_egress : forall mp e f v f', run (qos_egress_prog mp e) f = Done v f' -> f' = f.
Proof.
  intros mp e f v f' H.
  assert (P : pu f False (qos_egress_prog mp e)) by (unfold qos_egress_prog; apply (pu_dl _ _ (qos_body false mp e)); apply pu_qos).
  destruct (pu_run _ _ _ _ _ P H) as [E|E]; [exact E|destruct E].
Qed.
Theorem untouched_qos_ingress : forall mp e f v f', run (qos_ingress_prog mp e) f = Done v f' -> f' = f.
Proof.
  intros mp e f v f' H.
  assert (P : pu f False (qos_ingress_prog mp e)) by (unfold qos_ingress_prog; apply (pu_dl _ _ (qos_body true mp e)); apply pu_qos).
  destruct (pu_run _ _ _ _ _ P H) as [E|E]; [exact E|destruct E].
Qed.

Theorem verdict_qos_egress : forall mp e f v f', run (qos_egress_prog mp e) f = Done v f' -> v = TC_ACT_OK \/ v = TC_ACT_SHOT.
Proof.
  intros mp e f v f' H.
  assert (P : vdr tc_ok_or_shot (qos_egress_prog mp e)) by (unfold qos_egress_prog; apply (vdr_dl _ (qos_body false mp e)); intro; apply vdr_qos).
  apply (vdr_run _ _ _ _ _ P) in H. unfold tc_ok_or_shot in H. apply orb_true_iff in H. rewrite !N.eqb_eq in H. exact H.
Qed.
Theorem verdict_qos_ingress : forall mp e f v f', run (qos_ingress_prog mp e) f = Done v f' -> v = TC_ACT_OK \/ v = TC_ACT_SHOT.
Proof.
  intros mp e f v f' H.
  assert (P : vdr tc_ok_or_shot (qos_ingress_prog mp e)) by (unfold qos_ingress_prog; apply (vdr_dl _ (qos_body true mp e)); intro; apply vdr_qos).
  apply (vdr_run _ _ _ _ _ P) in H. unfold tc_ok_or_shot in H. apply orb_true_iff in H. rewrite !N.eqb_eq in H. exact H.
Qed.
