(* Lemmas for C10 about Model/Nat.v (statements used by Props/C10.v). *)
From Coq Require Import ZArith NArith List Bool Lia ZifyBool ZifyNat FinFun.
From Verif Require Import Model.Nat Model.NatSpec.
Import ListNotations.
Local Open Scope Z_scope.

Definition cfg_ok (c : cfg) : Prop := cfg_okb c = true.

Lemma cfg_ok_iff c :
  cfg_ok c <-> 1 <= c_pps c /\ 0 <= c_start c /\ c_start c <= c_end c /\ c_end c <= 65535.
Proof. unfold cfg_ok, cfg_okb. rewrite !andb_true_iff, !Z.leb_le. tauto. Qed.

(* ------------------------------------------------------------------ arithmetic *)
Lemma wrap16_small x : 0 <= x < 65536 -> wrap16 x = x.
Proof. intros H. unfold wrap16. apply Z.mod_small. exact H. Qed.

Lemma wrap16_end st pps : wrap16 (wrap16 st + wrap16 pps - 1) = wrap16 (st + pps - 1).
Proof.
  unfold wrap16.
  rewrite <- (Zminus_mod_idemp_l (st mod 65536 + pps mod 65536) 1).
  rewrite <- Zplus_mod. rewrite Zminus_mod_idemp_l. reflexivity.
Qed.

Lemma max_subs_div c : cfg_ok c -> max_subs c = total_ports c / c_pps c.
Proof.
  intros H. apply cfg_ok_iff in H. unfold max_subs. apply Z.quot_div_nonneg; unfold total_ports; lia.
Qed.

Lemma block_fits c b : cfg_ok c -> 0 <= b < max_subs c -> c_pps c * (b + 1) <= total_ports c.
Proof.
  intros Hc Hb. rewrite (max_subs_div c Hc) in Hb. apply cfg_ok_iff in Hc.
  apply Z.le_trans with (c_pps c * (total_ports c / c_pps c)).
  - apply Z.mul_le_mono_nonneg_l; lia.
  - apply Z.mul_div_le. lia.
Qed.

(* the uint16 port arithmetic of AllocateNAT is exact inside the guard *)
Lemma block_exact c b : cfg_ok c -> 0 <= b < max_subs c ->
  let st := c_start c + b * c_pps c in
  wrap16 st = st /\ wrap16 (wrap16 st + wrap16 (c_pps c) - 1) = st + c_pps c - 1 /\
  c_start c <= st /\ st <= st + c_pps c - 1 /\ st + c_pps c - 1 <= c_end c.
Proof.
  intros Hc Hb st. pose proof (block_fits c b Hc Hb) as Hf. apply cfg_ok_iff in Hc.
  unfold total_ports in Hf.
  assert (Hm : 0 <= b * c_pps c) by (apply Z.mul_nonneg_nonneg; lia).
  assert (He : c_pps c * (b + 1) = b * c_pps c + c_pps c) by ring.
  rewrite He in Hf. subst st.
  repeat split; try lia.
  - apply wrap16_small. lia.
  - rewrite wrap16_end. apply wrap16_small. lia.
Qed.

Lemma blocks_apart c b1 b2 : 1 <= c_pps c -> 0 <= b1 -> b1 < b2 ->
  c_start c + b1 * c_pps c + c_pps c - 1 < c_start c + b2 * c_pps c.
Proof.
  intros Hp H1 H2.
  assert (H : (b1 + 1) * c_pps c <= b2 * c_pps c) by (apply Z.mul_le_mono_nonneg_r; lia).
  assert (He : (b1 + 1) * c_pps c = b1 * c_pps c + c_pps c) by ring.
  lia.
Qed.

(* ------------------------------------------------------------------ lowest free index *)
Lemma existsb_eqb_in b u : existsb (Z.eqb b) u = true <-> In b u.
Proof.
  rewrite existsb_exists. split.
  - intros [x [Hin He]]. apply Z.eqb_eq in He. subst. exact Hin.
  - intros H. exists b. split; [exact H|apply Z.eqb_refl].
Qed.

Lemma mex_ge f u : forall b, b <= mex f u b.
Proof.
  induction f as [|f IH]; intros b; cbn; [lia|].
  destruct (existsb (Z.eqb b) u); [specialize (IH (b + 1)); lia|lia].
Qed.

Lemma mex_in_full f u : forall b, In (mex f u b) u ->
  forall x, b <= x < b + Z.of_nat f -> In x u.
Proof.
  induction f as [|f IH]; intros b Hin x Hx; [lia|].
  cbn in Hin. destruct (existsb (Z.eqb b) u) eqn:E.
  - destruct (Z.eq_dec x b) as [->|Hne]; [apply existsb_eqb_in; exact E|].
    apply (IH (b + 1) Hin). lia.
  - exfalso. apply existsb_eqb_in in Hin. congruence.
Qed.

Lemma lowest_free_notin u : ~ In (lowest_free u) u.
Proof.
  unfold lowest_free. intros Hin.
  pose proof (mex_in_full _ _ _ Hin) as Hall.
  assert (Hincl : incl (map Z.of_nat (seq 0 (S (length u)))) u).
  { intros x Hx. apply in_map_iff in Hx. destruct Hx as [n [<- Hn]]. apply in_seq in Hn.
    apply Hall. lia. }
  assert (Hnd : NoDup (map Z.of_nat (seq 0 (S (length u))))).
  { apply FinFun.Injective_map_NoDup; [intros a b; lia|apply seq_NoDup]. }
  pose proof (NoDup_incl_length Hnd Hincl) as Hl. rewrite map_length, seq_length in Hl. lia.
Qed.

Lemma lowest_free_nonneg u : 0 <= lowest_free u.
Proof. apply mex_ge. Qed.

(* ------------------------------------------------------------------ pool list *)
Lemma select_pool_spec l : forall i0 i p b, select_pool i0 l = Some (i, p, b) ->
  exists k, i = (i0 + k)%nat /\ nth_error l k = Some p /\ b = lowest_free (p_used p) /\ b < p_max p.
Proof.
  induction l as [|q tl IH]; intros i0 i p b H; cbn in H; [discriminate|].
  destruct ((p_subs q <? p_max q) && (lowest_free (p_used q) <? p_max q)) eqn:E.
  - inversion H; subst. exists O. apply andb_true_iff in E. destruct E as [_ E].
    apply Z.ltb_lt in E. split; [apply plus_n_O|]. split; [reflexivity|]. split; [reflexivity|exact E].
  - destruct (IH _ _ _ _ H) as [k [-> [Hn [Hb Hm]]]]. exists (S k). repeat split; auto; lia.
Qed.

Lemma nth_upd_same f : forall l i p, nth_error l i = Some p -> nth_error (upd_pool i f l) i = Some (f p).
Proof.
  induction l as [|q tl IH]; intros [|i] p H; cbn in *; try discriminate.
  - inversion H; reflexivity.
  - apply IH; exact H.
Qed.

Lemma nth_upd_other f : forall l i j, i <> j -> nth_error (upd_pool i f l) j = nth_error l j.
Proof.
  induction l as [|q tl IH]; intros [|i] [|j] H; cbn; try reflexivity; try congruence.
  apply IH. congruence.
Qed.

Lemma nth_upd_inv f l i j q : nth_error (upd_pool i f l) j = Some q ->
  (j = i /\ exists p, nth_error l i = Some p /\ q = f p) \/ (j <> i /\ nth_error l j = Some q).
Proof.
  intros H. destruct (Nat.eq_dec j i) as [->|Hne].
  - left. split; [reflexivity|]. destruct (nth_error l i) as [p|] eqn:E.
    + rewrite (nth_upd_same f l i p E) in H. inversion H. eauto.
    + exfalso. apply nth_error_None in E.
      assert (Hl : length (upd_pool i f l) = length l).
      { clear. revert i. induction l as [|q tl IH]; intros [|i]; cbn; auto. }
      assert (nth_error (upd_pool i f l) i = None) by (apply nth_error_None; lia). congruence.
  - right. split; [exact Hne|]. rewrite nth_upd_other in H by congruence. exact H.
Qed.

Lemma map_ip_upd f : (forall p, p_ip (f p) = p_ip p) -> forall l i, map p_ip (upd_pool i f l) = map p_ip l.
Proof.
  intros Hf. induction l as [|q tl IH]; intros [|i]; cbn; try reflexivity.
  - rewrite Hf. reflexivity.
  - rewrite IH. reflexivity.
Qed.

(* ------------------------------------------------------------------ allocation list *)
Lemma find_alloc_some priv l a : find_alloc priv l = Some a -> In a l /\ a_priv a = priv.
Proof.
  induction l as [|h tl IH]; cbn; [discriminate|].
  destruct (a_priv h =? priv) eqn:E.
  - intros H; inversion H; subst. apply Z.eqb_eq in E. auto.
  - intros H. destruct (IH H). auto.
Qed.

Lemma find_alloc_none priv l : find_alloc priv l = None -> ~ In priv (map a_priv l).
Proof.
  induction l as [|h tl IH]; cbn; [tauto|].
  destruct (a_priv h =? priv) eqn:E; [discriminate|].
  intros H [Heq|Hin]; [apply Z.eqb_neq in E; congruence|exact (IH H Hin)].
Qed.

Lemma remove_alloc_in priv l x : In x (remove_alloc priv l) -> In x l.
Proof.
  induction l as [|h tl IH]; cbn; [tauto|].
  destruct (a_priv h =? priv); cbn; [auto|]. intros [->|H]; auto.
Qed.

Lemma remove_alloc_keeps priv l x : In x l -> a_priv x <> priv -> In x (remove_alloc priv l).
Proof.
  induction l as [|h tl IH]; cbn; [tauto|].
  intros [->|Hin] Hne.
  - destruct (a_priv x =? priv) eqn:E; [apply Z.eqb_eq in E; congruence|left; reflexivity].
  - destruct (a_priv h =? priv); [exact Hin|right; auto].
Qed.

Lemma remove_alloc_nodup {B} (f : alloc -> B) priv l :
  NoDup (map f l) -> NoDup (map f (remove_alloc priv l)).
Proof.
  induction l as [|h tl IH]; cbn; [auto|]. intros H. inversion H as [|? ? Hn Hd]; subst.
  destruct (a_priv h =? priv); [exact Hd|]. cbn. constructor; [|auto].
  intros Hin. apply Hn. apply in_map_iff in Hin. destruct Hin as [x [Hx Hi]].
  apply in_map_iff. exists x. split; [exact Hx|eapply remove_alloc_in; eauto].
Qed.

Lemma remove_alloc_drops priv l x :
  NoDup (map a_priv l) -> In x (remove_alloc priv l) -> a_priv x <> priv.
Proof.
  induction l as [|h tl IH]; cbn; [tauto|]. intros H. inversion H as [|? ? Hn Hd]; subst.
  destruct (a_priv h =? priv) eqn:E.
  - apply Z.eqb_eq in E. intros Hin Heq. apply Hn. rewrite E, <- Heq. apply in_map. exact Hin.
  - intros [<-|Hin]; [apply Z.eqb_neq in E; exact E|auto].
Qed.

Lemma nodup_map_inj {A B} (f : A -> B) l a b :
  NoDup (map f l) -> In a l -> In b l -> f a = f b -> a = b.
Proof.
  induction l as [|h tl IH]; cbn; [tauto|]. intros H. inversion H as [|? ? Hn Hd]; subst.
  intros [->|Ha] [->|Hb] He; auto.
  - exfalso. apply Hn. rewrite He. apply in_map. exact Hb.
  - exfalso. apply Hn. rewrite <- He. apply in_map. exact Ha.
Qed.

(* ------------------------------------------------------------------ the invariant *)
Definition slot (a : alloc) : nat * Z := (a_pool a, a_blk a).

Record Inv (s : state) : Prop := {
  I_max : forall i p, nth_error (s_pool s) i = Some p -> p_max p = max_subs (s_cfg s);
  I_ips : NoDup (map p_ip (s_pool s));
  I_priv : NoDup (map a_priv (s_allocs s));
  I_slot : NoDup (map slot (s_allocs s));
  I_alloc : forall a, In a (s_allocs s) ->
      exists p, nth_error (s_pool s) (a_pool a) = Some p /\ p_ip p = a_pub a /\ In (a_blk a) (p_used p) /\
                0 <= a_blk a < max_subs (s_cfg s) /\
                a_start a = wrap16 (c_start (s_cfg s) + a_blk a * c_pps (s_cfg s)) /\
                a_end a = wrap16 (a_start a + wrap16 (c_pps (s_cfg s)) - 1);
  I_used : forall i p b, nth_error (s_pool s) i = Some p -> In b (p_used p) ->
      exists a, In a (s_allocs s) /\ slot a = (i, b)
}.

Lemma inv_init c m : Inv (init c m).
Proof.
  constructor; cbn; try constructor; try tauto.
  - intros [|i] p H; discriminate.
  - intros [|i] p b H; discriminate.
Qed.

Definition next (s : state) (o : op) : state := fst (fst (step s o)).

Lemma step_cfg s o : s_cfg (next s o) = s_cfg s /\ s_mode (next s o) = s_mode s.
Proof.
  unfold next, step, step_body. destruct o; cbn.
  - destruct (existsb _ _); cbn; auto.
  - destruct (find_alloc _ _); cbn; auto. destruct (select_pool _ _) as [[[i p] b]|]; cbn; auto.
    destruct (find_sid _ _); cbn; auto.
  - destruct (find_alloc _ _); cbn; auto.
  - auto.
  - auto.
  - auto.
Qed.

Lemma step_inv s o : Inv s -> Inv (next s o).
Proof.
  intros HI. unfold next, step, step_body. destruct o as [ip|priv|priv|priv| |co]; cbn.
  - (* AddIP *)
    destruct (existsb (fun p => p_ip p =? ip) (s_pool s)) eqn:E; cbn; [destruct HI; constructor; auto|].
    destruct HI as [Hmax Hips Hpriv Hslot Halloc Hused]. constructor; cbn; auto.
    + intros i p H. destruct (Nat.lt_ge_cases i (length (s_pool s))) as [Hl|Hl].
      * rewrite nth_error_app1 in H by exact Hl. eauto.
      * rewrite nth_error_app2 in H by exact Hl.
        destruct (i - length (s_pool s))%nat as [|k]; cbn in H; [inversion H; reflexivity|destruct k; discriminate].
    + rewrite map_app. cbn. apply NoDup_app_single_r.
      * exact Hips.
      * intros Hin. apply in_map_iff in Hin. destruct Hin as [p [Hp Hin]].
        assert (existsb (fun p => p_ip p =? ip) (s_pool s) = true).
        { apply existsb_exists. exists p. split; [exact Hin|apply Z.eqb_eq; exact Hp]. }
        congruence.
    + intros a Ha. destruct (Halloc a Ha) as [p [Hn Hr]]. exists p. split; [|exact Hr].
      rewrite nth_error_app1; [exact Hn|]. apply nth_error_Some. congruence.
    + intros i p b H Hb. destruct (Nat.lt_ge_cases i (length (s_pool s))) as [Hl|Hl].
      * rewrite nth_error_app1 in H by exact Hl. eauto.
      * rewrite nth_error_app2 in H by exact Hl.
        destruct (i - length (s_pool s))%nat as [|k]; cbn in H; [inversion H; subst; cbn in Hb; tauto|destruct k; discriminate].
  - (* Alloc *)
    destruct (find_alloc priv (s_allocs s)) as [a0|] eqn:Ef; cbn; [destruct HI; constructor; auto|].
    destruct (select_pool 0 (s_pool s)) as [[[i p] b]|] eqn:Es; cbn; [|destruct HI; constructor; auto].
    destruct (select_pool_spec _ _ _ _ _ Es) as [k [Hi [Hn [Hb Hm]]]]. cbn in Hi. subst i.
    destruct HI as [Hmax Hips Hpriv Hslot Halloc Hused].
    assert (Hsid : forall sid, Inv
      {| s_cfg := s_cfg s; s_mode := s_mode s;
         s_pool := upd_pool k (fun q => {| p_ip := p_ip q; p_subs := p_subs q + 1; p_max := p_max q; p_used := b :: p_used q |}) (s_pool s);
         s_allocs := {| a_priv := priv; a_pub := p_ip p;
                        a_start := wrap16 (c_start (s_cfg s) + b * c_pps (s_cfg s));
                        a_end := wrap16 (wrap16 (c_start (s_cfg s) + b * c_pps (s_cfg s)) + wrap16 (c_pps (s_cfg s)) - 1);
                        a_pool := k; a_sid := sid; a_blk := b |} :: s_allocs s;
         s_next_sid := 0; s_sids := []; s_clock := 0; s_log := [] |}).
    { intros sid. constructor; cbn.
      - intros j q H. apply nth_upd_inv in H. destruct H as [[-> [p' [Hp' ->]]]|[_ H]]; cbn; eauto.
      - rewrite map_ip_upd by reflexivity. exact Hips.
      - constructor; [apply find_alloc_none; exact Ef|exact Hpriv].
      - constructor; [|exact Hslot]. intros Hin. apply in_map_iff in Hin. destruct Hin as [a' [Hs Ha']].
        destruct (Halloc a' Ha') as [p' [Hn' [_ [Hu' _]]]]. unfold slot in Hs. inversion Hs as [[Hk Hbb]].
        rewrite Hk in Hn'. rewrite Hn in Hn'. inversion Hn'; subst p'. rewrite Hbb in Hu'.
        rewrite Hb in Hu'. exact (lowest_free_notin _ Hu').
      - intros a [<-|Ha]; cbn.
        + exists {| p_ip := p_ip p; p_subs := p_subs p + 1; p_max := p_max p; p_used := b :: p_used p |}.
          split; [apply (nth_upd_same _ _ _ _ Hn)|]. cbn. repeat split; auto.
          * rewrite Hb. apply lowest_free_nonneg.
          * rewrite <- (Hmax _ _ Hn). exact Hm.
        + destruct (Halloc a Ha) as [p' [Hn' [Hip [Hu Hr]]]].
          destruct (Nat.eq_dec (a_pool a) k) as [He|Hne].
          * rewrite He in *. rewrite Hn in Hn'. inversion Hn'; subst p'.
            eexists. split; [apply (nth_upd_same _ _ _ _ Hn)|]. cbn. repeat split; auto; apply Hr.
          * exists p'. split; [rewrite nth_upd_other by congruence; exact Hn'|]. repeat split; auto; apply Hr.
      - intros j q b' H Hb'. apply nth_upd_inv in H. destruct H as [[-> [p' [Hp' ->]]]|[_ H]].
        + rewrite Hn in Hp'. inversion Hp'; subst p'. cbn in Hb'. destruct Hb' as [<-|Hb'].
          * eexists. split; [left; reflexivity|reflexivity].
          * destruct (Hused _ _ _ Hn Hb') as [a [Ha Hs]]. exists a. split; [right; exact Ha|exact Hs].
        + destruct (Hused _ _ _ H Hb') as [a [Ha Hs]]. exists a. split; [right; exact Ha|exact Hs]. }
    destruct (find_sid priv (s_sids s)); cbn;
      (destruct (Hsid 0) as [A B C D E F]; constructor; cbn in *; auto).
  - (* Dealloc *)
    destruct (find_alloc priv (s_allocs s)) as [a|] eqn:Ef; cbn; [|destruct HI; constructor; auto].
    destruct (find_alloc_some _ _ _ Ef) as [Ha Hp].
    destruct HI as [Hmax Hips Hpriv Hslot Halloc Hused]. constructor; cbn.
    + intros j q H. apply nth_upd_inv in H. destruct H as [[-> [p' [Hp' ->]]]|[_ H]]; cbn; eauto.
    + rewrite map_ip_upd by reflexivity. exact Hips.
    + apply remove_alloc_nodup. exact Hpriv.
    + apply remove_alloc_nodup. exact Hslot.
    + intros x Hx. pose proof (remove_alloc_drops _ _ _ Hpriv Hx) as Hne.
      apply remove_alloc_in in Hx. destruct (Halloc x Hx) as [p' [Hn' [Hip [Hu Hr]]]].
      destruct (Nat.eq_dec (a_pool x) (a_pool a)) as [He|Hnp].
      * eexists. split; [rewrite He; apply nth_upd_same; rewrite <- He; exact Hn'|]. cbn.
        repeat split; auto; try apply Hr.
        apply filter_In. split; [exact Hu|]. apply negb_true_iff. apply Z.eqb_neq. intros Hb.
        assert (x = a) by (apply (nodup_map_inj slot _ _ _ Hslot Hx Ha); unfold slot; congruence).
        subst x. congruence.
      * exists p'. split; [rewrite nth_upd_other by congruence; exact Hn'|]. repeat split; auto; apply Hr.
    + intros j q b' H Hb'.
      assert (Hkeep : forall a', In a' (s_allocs s) -> slot a' = (j, b') -> slot a' <> slot a ->
                exists a'', In a'' (remove_alloc priv (s_allocs s)) /\ slot a'' = (j, b')).
      { intros a' Ha' Hs Hd. exists a'. split; [|exact Hs]. apply remove_alloc_keeps; [exact Ha'|].
        intros Heq. apply Hd. f_equal. apply (nodup_map_inj a_priv _ _ _ Hpriv Ha' Ha). congruence. }
      apply nth_upd_inv in H. destruct H as [[-> [p' [Hp' ->]]]|[Hne H]].
      * cbn in Hb'. apply filter_In in Hb'. destruct Hb' as [Hb' Hd]. apply negb_true_iff, Z.eqb_neq in Hd.
        destruct (Hused _ _ _ Hp' Hb') as [a' [Ha' Hs]]. apply (Hkeep a' Ha' Hs).
        rewrite Hs. unfold slot. congruence.
      * destruct (Hused _ _ _ H Hb') as [a' [Ha' Hs]]. apply (Hkeep a' Ha' Hs).
        rewrite Hs. unfold slot. congruence.
  - destruct HI; constructor; auto.
  - destruct HI; constructor; auto.
  - destruct HI; constructor; auto.
Qed.
