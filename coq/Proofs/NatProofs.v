(* Lemmas for C10 about Model/Nat.v (statements used by Props/C10.v). *)
From Coq Require Import ZArith NArith List Bool Lia ZifyBool ZifyNat FinFun.
From Verif Require Import Base.Check Model.Nat Model.NatSpec.
Import ListNotations.
Local Open Scope Z_scope.

Arguments lowest_free : simpl never.
Arguments wrap16 : simpl never.

Definition cfg_ok (c : cfg) : Prop := cfg_okb c = true.

Lemma cfg_ok_iff c :
  cfg_ok c <-> 1 <= c_pps c /\ 0 <= c_start c /\ c_start c <= c_end c /\ c_end c <= 65535.
Proof. unfold cfg_ok, cfg_okb. rewrite !andb_true_iff, !Z.leb_le. tauto. Qed.

(* ------------------------------------------------------------------ arithmetic *)
Lemma wrap16_small x : 0 <= x < 65536 -> wrap16 x = x.
Proof. intros H. unfold wrap16. apply Z.mod_small. exact H. Qed.

Lemma wrap16_end st pps : wrap16 (wrap16 st + wrap16 pps - 1) = wrap16 (st + pps - 1).
Proof.
  unfold wrap16.
  rewrite <- (Zminus_mod_idemp_l (st mod 65536 + pps mod 65536) 1).
  rewrite <- Zplus_mod. rewrite Zminus_mod_idemp_l. reflexivity.
Qed.

Lemma max_subs_div c : cfg_ok c -> max_subs c = total_ports c / c_pps c.
Proof.
  intros H. apply cfg_ok_iff in H. unfold max_subs. apply Z.quot_div_nonneg; unfold total_ports; lia.
Qed.

Lemma block_fits c b : cfg_ok c -> 0 <= b < max_subs c -> c_pps c * (b + 1) <= total_ports c.
Proof.
  intros Hc Hb. rewrite (max_subs_div c Hc) in Hb. apply cfg_ok_iff in Hc.
  apply Z.le_trans with (c_pps c * (total_ports c / c_pps c)).
  - apply Z.mul_le_mono_nonneg_l; lia.
  - apply Z.mul_div_le. lia.
Qed.

(* the uint16 port arithmetic of AllocateNAT is exact inside the guard *)
Lemma block_exact c b : cfg_ok c -> 0 <= b < max_subs c ->
  let st := c_start c + b * c_pps c in
  wrap16 st = st /\ wrap16 (wrap16 st + wrap16 (c_pps c) - 1) = st + c_pps c - 1 /\
  c_start c <= st /\ st <= st + c_pps c - 1 /\ st + c_pps c - 1 <= c_end c.
Proof.
  intros Hc Hb st. pose proof (block_fits c b Hc Hb) as Hf. apply cfg_ok_iff in Hc.
  unfold total_ports in Hf.
  assert (Hm : 0 <= b * c_pps c) by (apply Z.mul_nonneg_nonneg; lia).
  assert (He : c_pps c * (b + 1) = b * c_pps c + c_pps c) by ring.
  rewrite He in Hf. subst st.
  repeat split; try lia.
  - apply wrap16_small. lia.
  - rewrite wrap16_end. apply wrap16_small. lia.
Qed.

Lemma blocks_apart c b1 b2 : 1 <= c_pps c -> 0 <= b1 -> b1 < b2 ->
  c_start c + b1 * c_pps c + c_pps c - 1 < c_start c + b2 * c_pps c.
Proof.
  intros Hp H1 H2.
  assert (H : (b1 + 1) * c_pps c <= b2 * c_pps c) by (apply Z.mul_le_mono_nonneg_r; lia).
  assert (He : (b1 + 1) * c_pps c = b1 * c_pps c + c_pps c) by ring.
  lia.
Qed.

(* ------------------------------------------------------------------ lowest free index *)
Lemma existsb_eqb_in b u : existsb (Z.eqb b) u = true <-> In b u.
Proof.
  rewrite existsb_exists. split.
  - intros [x [Hin He]]. apply Z.eqb_eq in He. subst. exact Hin.
  - intros H. exists b. split; [exact H|apply Z.eqb_refl].
Qed.

Lemma mex_ge f u : forall b, b <= mex f u b.
Proof.
  induction f as [|f IH]; intros b; cbn; [lia|].
  destruct (existsb (Z.eqb b) u); [specialize (IH (b + 1)); lia|lia].
Qed.

Lemma mex_in_full f u : forall b, In (mex f u b) u ->
  forall x, b <= x < b + Z.of_nat f -> In x u.
Proof.
  induction f as [|f IH]; intros b Hin x Hx; [lia|].
  cbn in Hin. destruct (existsb (Z.eqb b) u) eqn:E.
  - destruct (Z.eq_dec x b) as [->|Hne]; [apply existsb_eqb_in; exact E|].
    apply (IH (b + 1) Hin). lia.
  - exfalso. apply existsb_eqb_in in Hin. congruence.
Qed.

Lemma lowest_free_notin u : ~ In (lowest_free u) u.
Proof.
  unfold lowest_free. intros Hin.
  pose proof (mex_in_full _ _ _ Hin) as Hall.
  assert (Hincl : incl (map Z.of_nat (seq 0 (S (length u)))) u).
  { intros x Hx. apply in_map_iff in Hx. destruct Hx as [n [<- Hn]]. apply in_seq in Hn.
    apply Hall. lia. }
  assert (Hnd : NoDup (map Z.of_nat (seq 0 (S (length u))))).
  { apply FinFun.Injective_map_NoDup; [intros a b; lia|apply seq_NoDup]. }
  pose proof (NoDup_incl_length Hnd Hincl) as Hl. rewrite map_length, seq_length in Hl. lia.
Qed.

Lemma lowest_free_nonneg u : 0 <= lowest_free u.
Proof. apply mex_ge. Qed.

(* ------------------------------------------------------------------ pool list *)
Lemma select_pool_spec l : forall i0 i p b, select_pool i0 l = Some (i, p, b) ->
  exists k, i = (i0 + k)%nat /\ nth_error l k = Some p /\ b = lowest_free (p_used p) /\ b < p_max p.
Proof.
  induction l as [|q tl IH]; intros i0 i p b H; cbn in H; [discriminate|].
  destruct ((p_subs q <? p_max q) && (lowest_free (p_used q) <? p_max q)) eqn:E.
  - inversion H; subst. exists O. apply andb_true_iff in E. destruct E as [_ E].
    apply Z.ltb_lt in E. split; [apply plus_n_O|]. split; [reflexivity|]. split; [reflexivity|exact E].
  - destruct (IH _ _ _ _ H) as [k [-> [Hn [Hb Hm]]]]. exists (S k). repeat split; auto; lia.
Qed.

Lemma nth_upd_same f : forall l i p, nth_error l i = Some p -> nth_error (upd_pool i f l) i = Some (f p).
Proof.
  induction l as [|q tl IH]; intros [|i] p H; cbn in *; try discriminate.
  - inversion H; reflexivity.
  - apply IH; exact H.
Qed.

Lemma nth_upd_other f : forall l i j, i <> j -> nth_error (upd_pool i f l) j = nth_error l j.
Proof.
  induction l as [|q tl IH]; intros [|i] [|j] H; cbn; try reflexivity; try congruence.
  apply IH. congruence.
Qed.

Lemma nth_upd_inv f l i j q : nth_error (upd_pool i f l) j = Some q ->
  (j = i /\ exists p, nth_error l i = Some p /\ q = f p) \/ (j <> i /\ nth_error l j = Some q).
Proof.
  intros H. destruct (Nat.eq_dec j i) as [->|Hne].
  - left. split; [reflexivity|]. destruct (nth_error l i) as [p|] eqn:E.
    + rewrite (nth_upd_same f l i p E) in H. inversion H. eauto.
    + exfalso. apply nth_error_None in E.
      assert (Hl : length (upd_pool i f l) = length l).
      { clear. revert i. induction l as [|q tl IH]; intros [|i]; cbn; auto. }
      assert (nth_error (upd_pool i f l) i = None) by (apply nth_error_None; lia). congruence.
  - right. split; [exact Hne|]. rewrite nth_upd_other in H by congruence. exact H.
Qed.

Lemma map_ip_upd f : (forall p, p_ip (f p) = p_ip p) -> forall l i, map p_ip (upd_pool i f l) = map p_ip l.
Proof.
  intros Hf. induction l as [|q tl IH]; intros [|i]; cbn; try reflexivity.
  - rewrite Hf. reflexivity.
  - rewrite IH. reflexivity.
Qed.

(* ------------------------------------------------------------------ allocation list *)
Lemma find_alloc_some priv l a : find_alloc priv l = Some a -> In a l /\ a_priv a = priv.
Proof.
  induction l as [|h tl IH]; cbn; [discriminate|].
  destruct (a_priv h =? priv) eqn:E.
  - intros H; inversion H; subst. apply Z.eqb_eq in E. auto.
  - intros H. destruct (IH H). auto.
Qed.

Lemma find_alloc_none priv l : find_alloc priv l = None -> ~ In priv (map a_priv l).
Proof.
  induction l as [|h tl IH]; cbn; [tauto|].
  destruct (a_priv h =? priv) eqn:E; [discriminate|].
  intros H [Heq|Hin]; [apply Z.eqb_neq in E; congruence|exact (IH H Hin)].
Qed.

Lemma remove_alloc_in priv l x : In x (remove_alloc priv l) -> In x l.
Proof.
  induction l as [|h tl IH]; cbn; [tauto|].
  destruct (a_priv h =? priv); cbn; [auto|]. intros [->|H]; auto.
Qed.

Lemma remove_alloc_keeps priv l x : In x l -> a_priv x <> priv -> In x (remove_alloc priv l).
Proof.
  induction l as [|h tl IH]; cbn; [tauto|].
  intros [->|Hin] Hne.
  - destruct (a_priv x =? priv) eqn:E; [apply Z.eqb_eq in E; congruence|left; reflexivity].
  - destruct (a_priv h =? priv); [exact Hin|right; auto].
Qed.

Lemma remove_alloc_nodup {B} (f : alloc -> B) priv l :
  NoDup (map f l) -> NoDup (map f (remove_alloc priv l)).
Proof.
  induction l as [|h tl IH]; cbn; [auto|]. intros H. inversion H as [|? ? Hn Hd]; subst.
  destruct (a_priv h =? priv); [exact Hd|]. cbn. constructor; [|auto].
  intros Hin. apply Hn. apply in_map_iff in Hin. destruct Hin as [x [Hx Hi]].
  apply in_map_iff. exists x. split; [exact Hx|eapply remove_alloc_in; eauto].
Qed.

Lemma remove_alloc_drops priv l x :
  NoDup (map a_priv l) -> In x (remove_alloc priv l) -> a_priv x <> priv.
Proof.
  induction l as [|h tl IH]; cbn; [tauto|]. intros H. inversion H as [|? ? Hn Hd]; subst.
  destruct (a_priv h =? priv) eqn:E.
  - apply Z.eqb_eq in E. intros Hin Heq. apply Hn. rewrite E, <- Heq. apply in_map. exact Hin.
  - intros [<-|Hin]; [apply Z.eqb_neq in E; exact E|auto].
Qed.

Lemma nodup_map_inj {A B} (f : A -> B) l a b :
  NoDup (map f l) -> In a l -> In b l -> f a = f b -> a = b.
Proof.
  induction l as [|h tl IH]; cbn; [tauto|]. intros H. inversion H as [|? ? Hn Hd]; subst.
  intros [->|Ha] [->|Hb] He; auto.
  - exfalso. apply Hn. rewrite He. apply in_map. exact Hb.
  - exfalso. apply Hn. rewrite <- He. apply in_map. exact Ha.
Qed.

Lemma NoDup_app_single_r {A} (l : list A) x : NoDup l -> ~ In x l -> NoDup (l ++ [x]).
Proof.
  induction l as [|h tl IH]; cbn; intros Hd Hn; [constructor; [tauto|constructor]|].
  inversion Hd as [|? ? Hh Ht]; subst. constructor.
  - rewrite in_app_iff. cbn. intros [H|[H|[]]]; [tauto|]. apply Hn. left. congruence.
  - apply IH; [exact Ht|tauto].
Qed.

(* ------------------------------------------------------------------ the invariant *)
Definition slot (a : alloc) : nat * Z := (a_pool a, a_blk a).

Record Inv (s : state) : Prop := {
  I_max : forall i p, nth_error (s_pool s) i = Some p -> p_max p = max_subs (s_cfg s);
  I_ips : NoDup (map p_ip (s_pool s));
  I_priv : NoDup (map a_priv (s_allocs s));
  I_slot : NoDup (map slot (s_allocs s));
  I_alloc : forall a, In a (s_allocs s) ->
      exists p, nth_error (s_pool s) (a_pool a) = Some p /\ p_ip p = a_pub a /\ In (a_blk a) (p_used p) /\
                0 <= a_blk a < max_subs (s_cfg s) /\
                a_start a = wrap16 (c_start (s_cfg s) + a_blk a * c_pps (s_cfg s)) /\
                a_end a = wrap16 (a_start a + wrap16 (c_pps (s_cfg s)) - 1);
  I_used : forall i p b, nth_error (s_pool s) i = Some p -> In b (p_used p) ->
      exists a, In a (s_allocs s) /\ slot a = (i, b)
}.

Lemma inv_init c m : Inv (init c m).
Proof.
  constructor; cbn; try constructor; try tauto.
  - intros [|i] p H; discriminate.
  - intros [|i] p b H; discriminate.
Qed.

Definition next (s : state) (o : op) : state := fst (fst (step s o)).

Lemma inv_tick s : Inv s -> Inv (tick s).
Proof. intros [A B C D E F]. constructor; cbn; auto. Qed.

Lemma do_alloc_cfg s q fm fl :
  s_cfg (fst (fst (do_alloc s q fm fl))) = s_cfg s /\ s_mode (fst (fst (do_alloc s q fm fl))) = s_mode s.
Proof.
  unfold do_alloc. destruct (find_alloc _ _); cbn; auto.
  destruct (select_pool _ _) as [[[i p] b]|]; cbn; auto.
  destruct (find_sid _ _); destruct fm; cbn; auto.
Qed.

Lemma do_dealloc_cfg s q fm fl :
  s_cfg (fst (fst (do_dealloc s q fm fl))) = s_cfg s /\ s_mode (fst (fst (do_dealloc s q fm fl))) = s_mode s.
Proof. unfold do_dealloc. destruct (find_alloc _ _); cbn; auto. destruct fm; cbn; auto. Qed.

Lemma step_cfg s o : s_cfg (next s o) = s_cfg s /\ s_mode (next s o) = s_mode s.
Proof.
  unfold next, step, step_body. destruct o as [ip|q|q|q| |co|q fm fl|q fm fl].
  - cbn. destruct (existsb _ _); cbn; auto.
  - exact (do_alloc_cfg (tick s) q false false).
  - exact (do_dealloc_cfg (tick s) q false false).
  - cbn; auto.
  - cbn; auto.
  - cbn; auto.
  - exact (do_alloc_cfg (tick s) q fm fl).
  - exact (do_dealloc_cfg (tick s) q fm fl).
Qed.

Lemma do_alloc_inv s priv fm fl : Inv s -> Inv (fst (fst (do_alloc s priv fm fl))).
Proof.
  intros HI. unfold do_alloc.
    destruct (find_alloc priv (s_allocs s)) as [a0|] eqn:Ef; cbn; [destruct HI; constructor; auto|].
    destruct (select_pool 0 (s_pool s)) as [[[i p] b]|] eqn:Es; cbn; [|destruct HI; constructor; auto].
    destruct (select_pool_spec _ _ _ _ _ Es) as [k [Hi [Hn [Hb Hm]]]]. cbn in Hi. subst i.
    destruct HI as [Hmax Hips Hpriv Hslot Halloc Hused].
    assert (Hsid : forall sid, Inv
      {| s_cfg := s_cfg s; s_mode := s_mode s;
         s_pool := upd_pool k (fun q => {| p_ip := p_ip q; p_subs := p_subs q + 1; p_max := p_max q; p_used := b :: p_used q |}) (s_pool s);
         s_allocs := {| a_priv := priv; a_pub := p_ip p;
                        a_start := wrap16 (c_start (s_cfg s) + b * c_pps (s_cfg s));
                        a_end := wrap16 (wrap16 (c_start (s_cfg s) + b * c_pps (s_cfg s)) + wrap16 (c_pps (s_cfg s)) - 1);
                        a_pool := k; a_sid := sid; a_blk := b |} :: s_allocs s;
         s_next_sid := 0; s_sids := []; s_clock := 0; s_log := [] |}).
    { intros sid. constructor; cbn.
      - intros j q H. apply nth_upd_inv in H. destruct H as [[-> [p' [Hp' ->]]]|[_ H]]; cbn; eauto.
      - rewrite map_ip_upd by reflexivity. exact Hips.
      - constructor; [apply find_alloc_none; exact Ef|exact Hpriv].
      - constructor; [|exact Hslot]. intros Hin. apply in_map_iff in Hin. destruct Hin as [a' [Hs Ha']].
        destruct (Halloc a' Ha') as [p' [Hn' [_ [Hu' _]]]]. unfold slot in Hs. inversion Hs as [[Hk Hbb]].
        rewrite Hk in Hn'. rewrite Hn in Hn'. inversion Hn'; subst p'. rewrite Hbb in Hu'.
        rewrite Hb in Hu'. exact (lowest_free_notin _ Hu').
      - intros a [<-|Ha]; cbn.
        + eexists.
          split; [apply (nth_upd_same _ _ _ _ Hn)|]. cbn. repeat split; auto.
          * rewrite Hb. apply lowest_free_nonneg.
          * rewrite <- (Hmax _ _ Hn). exact Hm.
        + destruct (Halloc a Ha) as [p' [Hn' [Hip [Hu Hr]]]].
          destruct (Nat.eq_dec (a_pool a) k) as [He|Hne].
          * rewrite He in *. rewrite Hn in Hn'. inversion Hn'; subst p'.
            eexists. split; [apply (nth_upd_same _ _ _ _ Hn)|]. cbn. repeat split; auto; apply Hr.
          * exists p'. split; [rewrite nth_upd_other by congruence; exact Hn'|]. repeat split; auto; apply Hr.
      - intros j q b' H Hb'. apply nth_upd_inv in H. destruct H as [[-> [p' [Hp' ->]]]|[_ H]].
        + rewrite Hn in Hp'. inversion Hp'; subst p'. cbn in Hb'. destruct Hb' as [<-|Hb'].
          * eexists. split; [left; reflexivity|reflexivity].
          * destruct (Hused _ _ _ Hn Hb') as [a [Ha Hs]]. exists a. split; [right; exact Ha|exact Hs].
        + destruct (Hused _ _ _ H Hb') as [a [Ha Hs]]. exists a. split; [right; exact Ha|exact Hs]. }
    destruct (find_sid priv (s_sids s)) as [v|]; destruct fm; cbn;
      try (constructor; cbn; auto; fail);
      [destruct (Hsid v) as [A B C D E F]|destruct (Hsid (s_next_sid s)) as [A B C D E F]];
      constructor; cbn in *; auto.
Qed.

Lemma do_dealloc_inv s priv fm fl : Inv s -> Inv (fst (fst (do_dealloc s priv fm fl))).
Proof.
  intros HI. unfold do_dealloc.
    destruct (find_alloc priv (s_allocs s)) as [a|] eqn:Ef; cbn; [|destruct HI; constructor; auto].
    destruct fm; cbn; [destruct HI; constructor; auto|].
    destruct (find_alloc_some _ _ _ Ef) as [Ha Hp].
    destruct HI as [Hmax Hips Hpriv Hslot Halloc Hused]. constructor; cbn.
    + intros j q H. apply nth_upd_inv in H. destruct H as [[-> [p' [Hp' ->]]]|[_ H]]; cbn; eauto.
    + rewrite map_ip_upd by reflexivity. exact Hips.
    + apply remove_alloc_nodup. exact Hpriv.
    + apply remove_alloc_nodup. exact Hslot.
    + intros x Hx. pose proof (remove_alloc_drops _ _ _ Hpriv Hx) as Hne.
      apply remove_alloc_in in Hx. destruct (Halloc x Hx) as [p' [Hn' [Hip [Hu Hr]]]].
      destruct (Nat.eq_dec (a_pool x) (a_pool a)) as [He|Hnp].
      * eexists. split; [rewrite He; apply nth_upd_same; rewrite <- He; exact Hn'|]. cbn.
        repeat split; auto; try apply Hr.
        apply filter_In. split; [exact Hu|]. apply negb_true_iff. apply Z.eqb_neq. intros Hb.
        assert (x = a) by (apply (nodup_map_inj slot _ _ _ Hslot Hx Ha); unfold slot; congruence).
        subst x. congruence.
      * exists p'. split; [rewrite nth_upd_other by congruence; exact Hn'|]. repeat split; auto; apply Hr.
    + intros j q b' H Hb'.
      assert (Hkeep : forall a', In a' (s_allocs s) -> slot a' = (j, b') -> slot a' <> slot a ->
                exists a'', In a'' (remove_alloc priv (s_allocs s)) /\ slot a'' = (j, b')).
      { intros a' Ha' Hs Hd. exists a'. split; [|exact Hs]. apply remove_alloc_keeps; [exact Ha'|].
        intros Heq. apply Hd. f_equal. apply (nodup_map_inj a_priv _ _ _ Hpriv Ha' Ha). congruence. }
      apply nth_upd_inv in H. destruct H as [[-> [p' [Hp' ->]]]|[Hne H]].
      * cbn in Hb'. apply filter_In in Hb'. destruct Hb' as [Hb' Hd]. apply negb_true_iff, Z.eqb_neq in Hd.
        destruct (Hused _ _ _ Hp' Hb') as [a' [Ha' Hs]]. apply (Hkeep a' Ha' Hs).
        rewrite Hs. unfold slot. congruence.
      * destruct (Hused _ _ _ H Hb') as [a' [Ha' Hs]]. apply (Hkeep a' Ha' Hs).
        rewrite Hs. unfold slot. congruence.
Qed.

Lemma step_inv s o : Inv s -> Inv (next s o).
Proof.
  intros HI. apply inv_tick in HI. unfold next, step. revert HI. generalize (tick s). clear s. intros s HI.
  unfold step_body. destruct o as [ip|priv|priv|priv| |co|priv fm fl|priv fm fl].
  - (* AddIP *) cbn.
    destruct (existsb (fun p => p_ip p =? ip) (s_pool s)) eqn:E; cbn; [destruct HI; constructor; auto|].
    destruct HI as [Hmax Hips Hpriv Hslot Halloc Hused]. constructor; cbn; auto.
    + intros i p H. destruct (Nat.lt_ge_cases i (length (s_pool s))) as [Hl|Hl].
      * rewrite nth_error_app1 in H by exact Hl. eauto.
      * rewrite nth_error_app2 in H by exact Hl.
        destruct (i - length (s_pool s))%nat as [|k]; cbn in H; [inversion H; reflexivity|destruct k; discriminate].
    + rewrite map_app. cbn. apply NoDup_app_single_r.
      * exact Hips.
      * intros Hin. apply in_map_iff in Hin. destruct Hin as [p [Hp Hin]].
        assert (existsb (fun p => p_ip p =? ip) (s_pool s) = true).
        { apply existsb_exists. exists p. split; [exact Hin|apply Z.eqb_eq; exact Hp]. }
        congruence.
    + intros a Ha. destruct (Halloc a Ha) as [p [Hn Hr]]. exists p. split; [|exact Hr].
      rewrite nth_error_app1; [exact Hn|]. apply nth_error_Some. congruence.
    + intros i p b H Hb. destruct (Nat.lt_ge_cases i (length (s_pool s))) as [Hl|Hl].
      * rewrite nth_error_app1 in H by exact Hl. eauto.
      * rewrite nth_error_app2 in H by exact Hl.
        destruct (i - length (s_pool s))%nat as [|k]; cbn in H; [inversion H; subst; cbn in Hb; tauto|destruct k; discriminate].
  - apply do_alloc_inv; exact HI.
  - apply do_dealloc_inv; exact HI.
  - exact HI.
  - exact HI.
  - exact HI.
  - apply do_alloc_inv; exact HI.
  - apply do_dealloc_inv; exact HI.
Qed.

(* ------------------------------------------------------------------ histories *)
Lemma run_app s ops1 ops2 : run s (ops1 ++ ops2) = run (run s ops1) ops2.
Proof. unfold run. apply fold_left_app. Qed.

Lemma run_cons s o ops : run s (o :: ops) = run (next s o) ops.
Proof. reflexivity. Qed.

Lemma run_inv ops : forall s, Inv s -> Inv (run s ops).
Proof. induction ops as [|o tl IH]; intros s H; [exact H|]. rewrite run_cons. apply IH, step_inv, H. Qed.

Lemma run_cfg ops : forall s, s_cfg (run s ops) = s_cfg s /\ s_mode (run s ops) = s_mode s.
Proof.
  induction ops as [|o tl IH]; intros s; [auto|]. rewrite run_cons.
  destruct (IH (next s o)) as [-> ->]. apply step_cfg.
Qed.

(* ------------------------------------------------------------------ clauses on an invariant state *)
Lemma nodup_nth_inj {A B} (f : A -> B) l i j x y :
  NoDup (map f l) -> nth_error l i = Some x -> nth_error l j = Some y -> f x = f y -> i = j.
Proof.
  intros Hd Hi Hj He. apply (proj1 (NoDup_nth_error (map f l)) Hd).
  - rewrite map_length. apply nth_error_Some. congruence.
  - rewrite !nth_error_map, Hi, Hj. cbn. congruence.
Qed.

Lemma inv_block s a : Inv s -> cfg_ok (s_cfg s) -> In a (s_allocs s) ->
  a_start a = c_start (s_cfg s) + a_blk a * c_pps (s_cfg s) /\
  a_end a = a_start a + c_pps (s_cfg s) - 1 /\
  c_start (s_cfg s) <= a_start a /\ a_start a <= a_end a /\ a_end a <= c_end (s_cfg s) /\ 0 <= a_blk a.
Proof.
  intros HI Hc Ha. destruct (I_alloc s HI a Ha) as [p [_ [_ [_ [Hb [Hs He]]]]]].
  destruct (block_exact _ _ Hc Hb) as [E1 [E2 [E3 [E4 E5]]]].
  rewrite He, Hs, E2, E1. repeat split; lia.
Qed.

Lemma inv_no_overlap s a b : Inv s -> cfg_ok (s_cfg s) ->
  In a (s_allocs s) -> In b (s_allocs s) -> a_priv a <> a_priv b -> a_pub a = a_pub b ->
  a_end a < a_start b \/ a_end b < a_start a.
Proof.
  intros HI Hc Ha Hb Hne Hpub.
  destruct (I_alloc s HI a Ha) as [p [Hn [Hip _]]].
  destruct (I_alloc s HI b Hb) as [p' [Hn' [Hip' _]]].
  assert (Hpool : a_pool a = a_pool b).
  { apply (nodup_nth_inj p_ip _ _ _ _ _ (I_ips s HI) Hn Hn'). congruence. }
  assert (Hblk : a_blk a <> a_blk b).
  { intros Hb'. apply Hne. f_equal. apply (nodup_map_inj slot _ _ _ (I_slot s HI) Ha Hb). unfold slot. congruence. }
  destruct (inv_block s a HI Hc Ha) as [Sa [Ea [_ [_ [_ Na]]]]].
  destruct (inv_block s b HI Hc Hb) as [Sb [Eb [_ [_ [_ Nb]]]]].
  apply cfg_ok_iff in Hc. destruct Hc as [Hp _].
  destruct (Z.lt_total (a_blk a) (a_blk b)) as [Hlt|[Heq|Hgt]]; [left|congruence|right].
  - pose proof (blocks_apart (s_cfg s) _ _ Hp Na Hlt). lia.
  - pose proof (blocks_apart (s_cfg s) _ _ Hp Nb Hgt). lia.
Qed.

(* ------------------------------------------------------------------ stability *)
Lemma find_remove_other priv priv' l : priv <> priv' ->
  find_alloc priv (remove_alloc priv' l) = find_alloc priv l.
Proof.
  intros Hne. induction l as [|h tl IH]; cbn; [reflexivity|].
  destruct (a_priv h =? priv') eqn:E'.
  - apply Z.eqb_eq in E'. destruct (a_priv h =? priv) eqn:E; [apply Z.eqb_eq in E; congruence|reflexivity].
  - cbn. destruct (a_priv h =? priv); [reflexivity|exact IH].
Qed.

Definition releases (o : op) (priv : Z) : bool :=
  match o with Dealloc q | DeallocF q _ _ => q =? priv | _ => false end.

Lemma do_alloc_keeps s q fm fl priv a :
  find_alloc priv (s_allocs s) = Some a -> find_alloc priv (s_allocs (fst (fst (do_alloc s q fm fl)))) = Some a.
Proof.
  intros Hf. unfold do_alloc. destruct (find_alloc q (s_allocs s)) eqn:Eq; cbn; auto.
  destruct (select_pool _ _) as [[[i p] b]|]; cbn; auto.
  assert (Hne : (q =? priv) = false).
  { apply Z.eqb_neq. intros ->. congruence. }
  destruct (find_sid _ _); destruct fm; cbn; rewrite ?Hne; exact Hf.
Qed.

Lemma do_dealloc_keeps s q fm fl priv a : q <> priv ->
  find_alloc priv (s_allocs s) = Some a -> find_alloc priv (s_allocs (fst (fst (do_dealloc s q fm fl)))) = Some a.
Proof.
  intros Hne Hf. unfold do_dealloc. destruct (find_alloc q (s_allocs s)) eqn:Eq; cbn; auto.
  destruct fm; cbn; auto. rewrite find_remove_other; [exact Hf|]. congruence.
Qed.

Lemma step_keeps s o priv a : releases o priv = false ->
  find_alloc priv (s_allocs s) = Some a -> find_alloc priv (s_allocs (next s o)) = Some a.
Proof.
  intros Ho Hf. unfold next, step, step_body. destruct o as [ip|q|q|q| |co|q fm fl|q fm fl]; cbn in Ho.
  - cbn. destruct (existsb _ _); cbn; auto.
  - apply (do_alloc_keeps (tick s)). exact Hf.
  - apply (do_dealloc_keeps (tick s)); [apply Z.eqb_neq; exact Ho|exact Hf].
  - exact Hf.
  - exact Hf.
  - exact Hf.
  - apply (do_alloc_keeps (tick s)). exact Hf.
  - apply (do_dealloc_keeps (tick s)); [apply Z.eqb_neq; exact Ho|exact Hf].
Qed.

Lemma run_keeps ops : forall s priv a, Forall (fun o => releases o priv = false) ops ->
  find_alloc priv (s_allocs s) = Some a -> find_alloc priv (s_allocs (run s ops)) = Some a.
Proof.
  induction ops as [|o tl IH]; intros s priv a Hall Hf; [exact Hf|].
  inversion Hall; subst. rewrite run_cons. apply IH; [assumption|]. apply step_keeps; assumption.
Qed.

Definition result (s : state) (o : op) : res := o_res (snd (fst (step s o))).

Lemma result_alloc_holder s priv a : find_alloc priv (s_allocs s) = Some a ->
  result s (Alloc priv) = RAlloc (view a) /\ result s (Get priv) = RGet (Some (view a)).
Proof. intros H. unfold result, step, step_body, do_alloc. cbn. rewrite H. cbn. auto. Qed.

(* ------------------------------------------------------------------ the log *)
Definition LogT (s : state) : Prop := Forall (fun tr => fst tr <= s_clock s) (s_log s).

Definition rec_matches (bs : Z) (s : state) : Prop :=
  match s_mode s with
  | LogOff => False
  | LogBulk => True
  | LogTrad => cfg_ok (s_cfg s) /\ bs = c_pps (s_cfg s)
  end.

Lemma remove_blk_alloc priv l a : find_alloc priv l = Some a ->
  remove_blk (a_priv a) (a_pub a) (a_start a) (map blk_of l) = map blk_of (remove_alloc priv l).
Proof.
  induction l as [|h tl IH]; cbn; [discriminate|].
  destruct (a_priv h =? priv) eqn:E.
  - intros H; inversion H; subst. rewrite !Z.eqb_refl. reflexivity.
  - intros H. destruct (find_alloc_some _ _ _ H) as [_ Hp].
    assert (Hc : (a_priv h =? a_priv a) = false) by (rewrite Hp; exact E).
    rewrite Hc. cbn. rewrite (IH H). reflexivity.
Qed.

(* the new records of one step, and their effect when read back *)
Lemma do_alloc_log s q fm fl : exists recs,
  s_log (fst (fst (do_alloc s q fm fl))) = map (fun r => (s_clock s, r)) recs ++ s_log s /\
  s_clock (fst (fst (do_alloc s q fm fl))) = s_clock s.
Proof.
  unfold do_alloc. destruct (find_alloc q (s_allocs s)); cbn; [exists []; auto|].
  destruct (select_pool _ _) as [[[i p] b]|]; cbn; [|exists []; auto].
  destruct (find_sid _ _); destruct fm; cbn; try (exists []; auto; fail); eexists; split; reflexivity.
Qed.

Lemma do_dealloc_log s q fm fl : exists recs,
  s_log (fst (fst (do_dealloc s q fm fl))) = map (fun r => (s_clock s, r)) recs ++ s_log s /\
  s_clock (fst (fst (do_dealloc s q fm fl))) = s_clock s.
Proof.
  unfold do_dealloc. destruct (find_alloc q (s_allocs s)); cbn; [|exists []; auto].
  destruct fm; cbn; [exists []; auto|]. eexists; split; reflexivity.
Qed.

Lemma step_log s o : exists recs,
  s_log (next s o) = map (fun r => (s_clock s + 1, r)) recs ++ s_log s /\ s_clock (next s o) = s_clock s + 1.
Proof.
  unfold next, step, step_body. destruct o as [ip|q|q|q| |co|q fm fl|q fm fl].
  - cbn. destruct (existsb _ _); cbn; exists []; auto.
  - exact (do_alloc_log (tick s) q false false).
  - exact (do_dealloc_log (tick s) q false false).
  - exists []; auto.
  - exists []; auto.
  - exists []; auto.
  - exact (do_alloc_log (tick s) q fm fl).
  - exact (do_dealloc_log (tick s) q fm fl).
Qed.

Lemma step_logT s o : LogT s -> LogT (next s o).
Proof.
  unfold LogT. intros H. destruct (step_log s o) as [recs [-> ->]]. apply Forall_app. split.
  - apply Forall_forall. intros tr Hin. apply in_map_iff in Hin. destruct Hin as [r [<- _]]. cbn. lia.
  - eapply Forall_impl; [|exact H]. cbn. intros; lia.
Qed.

Lemma run_logT ops : forall s, LogT s -> LogT (run s ops).
Proof. induction ops as [|o tl IH]; intros s H; [exact H|]. rewrite run_cons. apply IH, step_logT, H. Qed.

Lemma run_clock ops : forall s, s_clock (run s ops) = s_clock s + Z.of_nat (length ops).
Proof.
  induction ops as [|o tl IH]; intros s; [cbn; lia|]. rewrite run_cons, IH.
  destruct (step_log s o) as [recs [_ ->]]. cbn [length]. lia.
Qed.

Lemma run_log_ext ops : forall s, exists newer,
  s_log (run s ops) = newer ++ s_log s /\ Forall (fun tr => s_clock s < fst tr) newer.
Proof.
  induction ops as [|o tl IH]; intros s; [exists []; split; [reflexivity|constructor]|].
  rewrite run_cons. destruct (IH (next s o)) as [n1 [E1 F1]].
  destruct (step_log s o) as [recs [E2 E3]]. rewrite E2 in E1. rewrite E3 in F1.
  exists (n1 ++ map (fun r => (s_clock s + 1, r)) recs). split.
  - rewrite E1, app_assoc. reflexivity.
  - apply Forall_app. split.
    + eapply Forall_impl; [|exact F1]. cbn. intros; lia.
    + apply Forall_forall. intros tr Hin. apply in_map_iff in Hin. destruct Hin as [r [<- _]]. cbn. lia.
Qed.

Lemma filter_all {A} (f : A -> bool) l : Forall (fun x => f x = true) l -> filter f l = l.
Proof. induction 1 as [|x tl H _ IH]; cbn; [reflexivity|]. rewrite H, IH. reflexivity. Qed.
Lemma filter_none {A} (f : A -> bool) l : Forall (fun x => f x = false) l -> filter f l = [].
Proof. induction 1 as [|x tl H _ IH]; cbn; [reflexivity|]. rewrite H, IH. reflexivity. Qed.

(* reading the log only up to time t = the log as it was after the first t operations *)
Lemma log_upto s0 ops t : LogT s0 -> s_clock s0 = 0 -> 0 <= t ->
  filter (fun tr => fst tr <=? t) (s_log (run s0 ops)) = s_log (run s0 (firstn (Z.to_nat t) ops)).
Proof.
  intros HT Hc Ht.
  rewrite <- (firstn_skipn (Z.to_nat t) ops) at 1. rewrite run_app.
  set (s1 := run s0 (firstn (Z.to_nat t) ops)).
  assert (HT1 : LogT s1) by (apply run_logT; exact HT).
  assert (Hc1 : s_clock s1 = Z.of_nat (length (firstn (Z.to_nat t) ops))).
  { unfold s1. rewrite run_clock, Hc. lia. }
  destruct (run_log_ext (skipn (Z.to_nat t) ops) s1) as [newer [E F]]. rewrite E.
  rewrite filter_app.
  destruct (Nat.le_gt_cases (Z.to_nat t) (length ops)) as [Hle|Hgt].
  - rewrite firstn_length_le in Hc1 by exact Hle.
    rewrite (filter_none _ newer), (filter_all _ (s_log s1)); [reflexivity| |].
    + eapply Forall_impl; [|exact HT1]. cbn. intros tr H. apply Z.leb_le. lia.
    + eapply Forall_impl; [|exact F]. cbn. intros tr H. apply Z.leb_gt. lia.
  - rewrite skipn_all2 in E by lia. cbn in E.
    assert (newer = []).
    { destruct newer as [|x tl]; [reflexivity|]. exfalso.
      assert (Hl : length (s_log s1) = length ((x :: tl) ++ s_log s1)) by (rewrite <- E; reflexivity).
      rewrite app_length in Hl. cbn in Hl. lia. }
    subst newer. cbn. apply filter_all.
    rewrite firstn_length in Hc1.
    eapply Forall_impl; [|exact HT1]. cbn. intros tr H. apply Z.leb_le. lia.
Qed.

(* the log read back gives the allocation table, at every reachable state *)
Definition LogOK (bs : Z) (s : state) : Prop := replay bs (s_log s) = map blk_of (s_allocs s).

Lemma replay_app bs l1 l2 :
  replay bs (l1 ++ l2) = fold_right (fun tr act => apply_rec bs act (snd tr)) (replay bs l2) l1.
Proof. unfold replay. apply fold_right_app. Qed.

Lemma replay_cons bs tr l : replay bs (tr :: l) = apply_rec bs (replay bs l) (snd tr).
Proof. reflexivity. Qed.
Arguments replay : simpl never.

(* an operation whose record (if it writes one) reaches the log *)
Definition lossless (o : op) : bool :=
  match o with AllocF _ _ fl | DeallocF _ _ fl => negb fl | _ => true end.

Lemma do_alloc_logok bs s q fm : Inv s -> rec_matches bs s -> LogOK bs s ->
  LogOK bs (fst (fst (do_alloc s q fm false))).
Proof.
  intros HI Hm HL. unfold LogOK in *. unfold do_alloc.
  destruct (find_alloc q (s_allocs s)) eqn:Ef; cbn; auto.
  destruct (select_pool 0 (s_pool s)) as [[[i p] b]|] eqn:Es; cbn; auto.
  destruct (select_pool_spec _ _ _ _ _ Es) as [k [Hi [Hn [Hb Hlt]]]].
  destruct fm; [destruct (find_sid _ _); cbn; exact HL|].
  assert (Hend : s_mode s = LogTrad ->
            wrap16 (c_start (s_cfg s) + b * c_pps (s_cfg s)) + bs - 1 =
            wrap16 (wrap16 (c_start (s_cfg s) + b * c_pps (s_cfg s)) + wrap16 (c_pps (s_cfg s)) - 1)).
  { intros Hmode. unfold rec_matches in Hm. rewrite Hmode in Hm. destruct Hm as [Hc ->].
    assert (Hbb : 0 <= b < max_subs (s_cfg s)).
    { split; [rewrite Hb; apply lowest_free_nonneg|rewrite <- (I_max s HI _ _ Hn); exact Hlt]. }
    destruct (block_exact _ _ Hc Hbb) as [E1 [E2 _]]. rewrite E2, E1. lia. }
  unfold rec_matches in Hm. revert Hm Hend.
  destruct (find_sid _ _); destruct (s_mode s) eqn:Em; intros Hm Hend; cbn; try contradiction;
    rewrite replay_cons; cbn; unfold apply_rec; cbn; rewrite HL; try reflexivity;
    rewrite (Hend eq_refl); reflexivity.
Qed.

Lemma do_dealloc_logok bs s q fm : Inv s -> rec_matches bs s -> LogOK bs s ->
  LogOK bs (fst (fst (do_dealloc s q fm false))).
Proof.
  intros HI Hm HL. unfold LogOK in *. unfold do_dealloc.
  destruct (find_alloc q (s_allocs s)) as [a|] eqn:Ef; cbn; auto.
  destruct fm; cbn; auto.
  unfold rec_matches in Hm. revert Hm.
  destruct (s_mode s) eqn:Em; intros Hm; cbn; try contradiction;
    rewrite replay_cons; cbn; unfold apply_rec; cbn; rewrite HL; apply remove_blk_alloc; exact Ef.
Qed.

Lemma step_logok bs s o : lossless o = true -> Inv s -> rec_matches bs s -> LogOK bs s -> LogOK bs (next s o).
Proof.
  intros Hl HI Hm HL. apply inv_tick in HI. unfold next, step, step_body.
  destruct o as [ip|q|q|q| |co|q fm fl|q fm fl]; cbn in Hl.
  - unfold LogOK in *. cbn. destruct (existsb _ _); cbn; auto.
  - exact (do_alloc_logok bs (tick s) q false HI Hm HL).
  - exact (do_dealloc_logok bs (tick s) q false HI Hm HL).
  - exact HL.
  - exact HL.
  - exact HL.
  - destruct fl; [discriminate|]. exact (do_alloc_logok bs (tick s) q fm HI Hm HL).
  - destruct fl; [discriminate|]. exact (do_dealloc_logok bs (tick s) q fm HI Hm HL).
Qed.

Lemma step_matches bs s o : rec_matches bs s -> rec_matches bs (next s o).
Proof. unfold rec_matches. destruct (step_cfg s o) as [-> ->]. auto. Qed.

Lemma run_logok bs ops : forall s, Forall (fun o => lossless o = true) ops ->
  Inv s -> rec_matches bs s -> LogOK bs s -> LogOK bs (run s ops).
Proof.
  induction ops as [|o tl IH]; intros s Hall HI Hm HL; [exact HL|]. rewrite run_cons.
  inversion Hall; subst.
  apply IH; [assumption|apply step_inv; exact HI|apply step_matches; exact Hm|apply step_logok; assumption].
Qed.

(* ------------------------------------------------------------------ at most one holder *)
Lemma filter_unique {A} (f : A -> bool) l :
  NoDup l -> (forall a b, In a l -> In b l -> f a = true -> f b = true -> a = b) ->
  (length (filter f l) <= 1)%nat.
Proof.
  induction l as [|x tl IH]; intros Hd Hu; cbn; [lia|].
  inversion Hd as [|? ? Hx Ht]; subst.
  assert (IH' : (length (filter f tl) <= 1)%nat).
  { apply IH; [exact Ht|]. intros a b Ha Hb. apply Hu; right; assumption. }
  destruct (f x) eqn:E; [|exact IH']. cbn.
  destruct (filter f tl) as [|y r] eqn:Ef; [cbn; lia|]. exfalso.
  assert (Hy : In y (filter f tl)) by (rewrite Ef; left; reflexivity).
  apply filter_In in Hy. destruct Hy as [Hy Hfy].
  assert (x = y) by (apply Hu; [left; reflexivity|right; exact Hy|exact E|exact Hfy]).
  subst y. contradiction.
Qed.

Lemma filter_map_comm {A B} (g : A -> B) (f : B -> bool) l :
  filter f (map g l) = map g (filter (fun x => f (g x)) l).
Proof. induction l as [|x tl IH]; cbn; [reflexivity|]. destruct (f (g x)); cbn; rewrite IH; reflexivity. Qed.

Lemma holders_alt s ip port :
  holders s ip port = map a_priv (filter (fun a => covers ip port (blk_of a)) (s_allocs s)).
Proof. unfold holders. rewrite filter_map_comm, map_map. reflexivity. Qed.

Lemma inv_one_holder s ip port : Inv s -> cfg_ok (s_cfg s) -> (length (holders s ip port) <= 1)%nat.
Proof.
  intros HI Hc. rewrite holders_alt, map_length. apply filter_unique.
  - apply (NoDup_map_inv a_priv). exact (I_priv s HI).
  - intros a b Ha Hb Ca Cb. unfold covers in *. cbn in *.
    destruct (Z.eq_dec (a_priv a) (a_priv b)) as [He|Hne].
    + apply (nodup_map_inj a_priv _ _ _ (I_priv s HI) Ha Hb He).
    + exfalso. assert (Hpub : a_pub a = a_pub b) by lia.
      destruct (inv_no_overlap s a b HI Hc Ha Hb Hne Hpub); lia.
Qed.

Lemma inv_holder_is s a port : Inv s -> cfg_ok (s_cfg s) -> In a (s_allocs s) ->
  a_start a <= port <= a_end a -> holders s (a_pub a) port = [a_priv a].
Proof.
  intros HI Hc Ha Hp. pose proof (inv_one_holder s (a_pub a) port HI Hc) as H1.
  assert (Hin : In (a_priv a) (holders s (a_pub a) port)).
  { rewrite holders_alt. apply in_map. apply filter_In. split; [exact Ha|]. unfold covers. cbn. lia. }
  destruct (holders s (a_pub a) port) as [|x [|y r]]; cbn in *; [tauto| |lia].
  destruct Hin as [->|[]]. reflexivity.
Qed.

(* ------------------------------------------------------------------ statements over all histories *)
Definition hist (c : cfg) (m : logmode) (ops : list op) : state := run (init c m) ops.

Lemma hist_inv c m ops : Inv (hist c m ops).
Proof. apply run_inv, inv_init. Qed.
Lemma hist_cfg c m ops : s_cfg (hist c m ops) = c.
Proof. unfold hist. destruct (run_cfg ops (init c m)) as [-> _]. reflexivity. Qed.
Lemma hist_mode c m ops : s_mode (hist c m ops) = m.
Proof. unfold hist. destruct (run_cfg ops (init c m)) as [_ ->]. reflexivity. Qed.

Lemma c10_no_overlap c m ops a b : cfg_ok c ->
  In a (s_allocs (hist c m ops)) -> In b (s_allocs (hist c m ops)) ->
  a_priv a <> a_priv b -> a_pub a = a_pub b -> a_end a < a_start b \/ a_end b < a_start a.
Proof. intros Hc. apply inv_no_overlap; [apply hist_inv|rewrite hist_cfg; exact Hc]. Qed.

Lemma c10_in_range c m ops a : cfg_ok c -> In a (s_allocs (hist c m ops)) ->
  c_start c <= a_start a /\ a_start a <= a_end a /\ a_end a <= c_end c /\ a_end a <= 65535.
Proof.
  intros Hc Ha. pose proof (inv_block _ a (hist_inv c m ops)) as H. rewrite hist_cfg in H.
  destruct (H Hc Ha) as [_ [_ [H1 [H2 [H3 _]]]]]. apply cfg_ok_iff in Hc. lia.
Qed.

Lemma c10_block_size c m ops a : cfg_ok c -> In a (s_allocs (hist c m ops)) ->
  a_end a - a_start a + 1 = c_pps c.
Proof.
  intros Hc Ha. pose proof (inv_block _ a (hist_inv c m ops)) as H. rewrite hist_cfg in H.
  destruct (H Hc Ha) as [_ [H1 _]]. lia.
Qed.

Lemma c10_one_block_per_subscriber c m ops : NoDup (map a_priv (s_allocs (hist c m ops))).
Proof. apply I_priv, hist_inv. Qed.

Lemma c10_stable c m ops1 ops2 priv a :
  find_alloc priv (s_allocs (hist c m ops1)) = Some a ->
  Forall (fun o => releases o priv = false) ops2 ->
  find_alloc priv (s_allocs (hist c m (ops1 ++ ops2))) = Some a /\
  result (hist c m (ops1 ++ ops2)) (Alloc priv) = RAlloc (view a) /\
  result (hist c m (ops1 ++ ops2)) (Get priv) = RGet (Some (view a)).
Proof.
  intros Hf Hall. unfold hist in *. rewrite run_app.
  pose proof (run_keeps ops2 _ priv a Hall Hf) as Hk. split; [exact Hk|]. apply result_alloc_holder, Hk.
Qed.

Lemma c10_released c m ops priv fl :
  find_alloc priv (s_allocs (hist c m (ops ++ [DeallocF priv false fl]))) = None.
Proof.
  unfold hist. rewrite run_app. set (s := run (init c m) ops).
  assert (HI : Inv s) by (apply run_inv, inv_init).
  cbn. unfold next, step, step_body, do_dealloc. cbn.
  destruct (find_alloc priv (s_allocs s)) as [a|] eqn:Ef; cbn; [|exact Ef].
  destruct (find_alloc priv (remove_alloc priv (s_allocs s))) as [x|] eqn:Ex; [|reflexivity].
  exfalso. destruct (find_alloc_some _ _ _ Ex) as [Hin Hp].
  exact (remove_alloc_drops _ _ _ (I_priv s HI) Hin Hp).
Qed.

(* a refused release (the subscriber_nat delete failed) keeps the block *)
Lemma c10_refused_release_keeps c m ops priv fl :
  s_allocs (hist c m (ops ++ [DeallocF priv true fl])) = s_allocs (hist c m ops).
Proof.
  unfold hist. rewrite run_app. cbn. unfold next, step, step_body, do_dealloc. cbn.
  destruct (find_alloc priv _); reflexivity.
Qed.

(* a failed allocation (the subscriber_nat update failed) reserves nothing and writes nothing *)
Lemma c10_failed_alloc_reserves_nothing c m ops priv fl :
  find_alloc priv (s_allocs (hist c m ops)) = None ->
  let s' := hist c m (ops ++ [AllocF priv true fl]) in
  s_allocs s' = s_allocs (hist c m ops) /\ s_pool s' = s_pool (hist c m ops) /\ s_log s' = s_log (hist c m ops).
Proof.
  intros Hf. cbn zeta. unfold hist in *. rewrite run_app. cbn. unfold next, step, step_body, do_alloc. cbn.
  rewrite Hf. destruct (select_pool _ _) as [[[i p] b]|]; cbn; auto.
  destruct (find_sid _ _); cbn; auto.
Qed.

Lemma init_logT c m : LogT (init c m).
Proof. constructor. Qed.

Lemma Forall_firstn' {A} (P : A -> Prop) n : forall l, Forall P l -> Forall P (firstn n l).
Proof. induction n as [|n IH]; intros l H; [constructor|]. destruct l; [constructor|]. inversion H; subst. cbn. constructor; auto. Qed.

Definition all_lossless (ops : list op) : Prop := Forall (fun o => lossless o = true) ops.

Lemma c10_attributable c m ops bs ip port t :
  all_lossless ops -> rec_matches bs (init c m) -> 0 <= t ->
  attribute bs (s_log (hist c m ops)) ip port t = holders (hist c m (firstn (Z.to_nat t) ops)) ip port.
Proof.
  intros Hl Hm Ht. unfold attribute, holders, hist.
  rewrite (log_upto (init c m) ops t (init_logT c m) eq_refl Ht).
  rewrite (run_logok bs _ (init c m) (Forall_firstn' _ _ _ Hl) (inv_init c m) Hm); [reflexivity|reflexivity].
Qed.

Lemma c10_attributable_bulk c ops bs ip port t : all_lossless ops -> 0 <= t ->
  attribute bs (s_log (hist c LogBulk ops)) ip port t =
  holders (hist c LogBulk (firstn (Z.to_nat t) ops)) ip port.
Proof. intros Hl Ht. apply c10_attributable; [exact Hl|exact I|exact Ht]. Qed.

Lemma c10_attributable_trad c ops ip port t : all_lossless ops -> cfg_ok c -> 0 <= t ->
  attribute (c_pps c) (s_log (hist c LogTrad ops)) ip port t =
  holders (hist c LogTrad (firstn (Z.to_nat t) ops)) ip port.
Proof. intros Hl Hc Ht. apply c10_attributable; [exact Hl|split; [exact Hc|reflexivity]|exact Ht]. Qed.

Lemma c10_at_most_one_holder c m ops ip port : cfg_ok c ->
  (length (holders (hist c m ops) ip port) <= 1)%nat.
Proof. intros Hc. apply inv_one_holder; [apply hist_inv|rewrite hist_cfg; exact Hc]. Qed.

Lemma c10_holder_exactly_one c m ops a port : cfg_ok c ->
  In a (s_allocs (hist c m ops)) -> a_start a <= port <= a_end a ->
  holders (hist c m ops) (a_pub a) port = [a_priv a].
Proof. intros Hc. apply inv_holder_is; [apply hist_inv|rewrite hist_cfg; exact Hc]. Qed.

Lemma c10_attribute_names_the_holder c ops bs a port t : all_lossless ops -> cfg_ok c -> 0 <= t ->
  In a (s_allocs (hist c LogBulk (firstn (Z.to_nat t) ops))) -> a_start a <= port <= a_end a ->
  attribute bs (s_log (hist c LogBulk ops)) (a_pub a) port t = [a_priv a].
Proof.
  intros Hl Hc Ht Ha Hp. rewrite c10_attributable_bulk by assumption. apply c10_holder_exactly_one; assumption.
Qed.

(* a failing log writer loses the record (known finding K10e): the log no longer attributes *)
Lemma c10_attributable_lost_record_refuted :
  ~ (forall c ops bs ip port t, 0 <= t ->
       attribute bs (s_log (hist c LogBulk ops)) ip port t =
       holders (hist c LogBulk (firstn (Z.to_nat t) ops)) ip port).
Proof.
  intros H.
  specialize (H {| c_pps := 1000; c_start := 60000; c_end := 65535 |} [AddIP 9; AllocF 1 false true] 0 9 60500 2).
  assert (H2 : 0 <= 2) by lia. specialize (H H2). vm_compute in H. discriminate.
Qed.


Lemma step_log_off s o : s_mode s = LogOff -> s_log (next s o) = s_log s.
Proof.
  intros Hm. unfold next, step, step_body.
  assert (HA : forall q fm fl, s_log (fst (fst (do_alloc (tick s) q fm fl))) = s_log s).
  { intros q fm fl. unfold do_alloc. cbn. destruct (find_alloc _ _); cbn; auto.
    destruct (select_pool _ _) as [[[i p] b]|]; cbn; auto.
    destruct (find_sid _ _); destruct fm; destruct fl; cbn; rewrite ?Hm; reflexivity. }
  assert (HD : forall q fm fl, s_log (fst (fst (do_dealloc (tick s) q fm fl))) = s_log s).
  { intros q fm fl. unfold do_dealloc. cbn. destruct (find_alloc _ _); cbn; auto.
    destruct fm; destruct fl; cbn; rewrite ?Hm; reflexivity. }
  destruct o as [ip|q|q|q| |co|q fm fl|q fm fl]; auto.
  cbn. destruct (existsb _ _); reflexivity.
Qed.

Lemma c10_logging_off_no_records c ops : s_log (hist c LogOff ops) = [].
Proof.
  unfold hist. assert (H : forall s, s_mode s = LogOff -> s_log (run s ops) = s_log s).
  { induction ops as [|o tl IH]; intros s Hm; [reflexivity|]. rewrite run_cons, IH.
    - apply step_log_off, Hm.
    - destruct (step_cfg s o) as [_ ->]. exact Hm. }
  apply (H (init c LogOff)). reflexivity.
Qed.

Lemma c10_new_cfg_in_guard pps st en : 1 <= pps -> 1 <= st -> st <= en -> en <= 65535 ->
  new_cfg pps st en = {| c_pps := pps; c_start := st; c_end := en |} /\ cfg_ok (new_cfg pps st en).
Proof.
  intros H1 H2 H3 H4. unfold new_cfg.
  destruct (pps =? 0) eqn:E1; [lia|]. destruct (st =? 0) eqn:E2; [lia|]. destruct (en =? 0) eqn:E3; [lia|].
  split; [reflexivity|]. apply cfg_ok_iff. cbn. lia.
Qed.

(* ------------------------------------------------------------------ outside the guard (witnesses) *)
Definition w_ops3 : list op := [AddIP 1; Alloc 101; Alloc 102; Alloc 103].

Definition w_cfg_range := {| c_pps := 3000; c_start := 60000; c_end := 70000 |}.
Definition w_cfg_size := {| c_pps := 70000; c_start := 1; c_end := 200000 |}.
Definition w_cfg_overlap := {| c_pps := 40000; c_start := 1; c_end := 200000 |}.
Definition w_a102 := {| a_priv := 102; a_pub := 1; a_start := 63000; a_end := 463; a_pool := 0; a_sid := 2; a_blk := 1 |}.
Definition w_a101 := {| a_priv := 101; a_pub := 1; a_start := 1; a_end := 4464; a_pool := 0; a_sid := 1; a_blk := 0 |}.
Definition w_b101 := {| a_priv := 101; a_pub := 1; a_start := 1; a_end := 40000; a_pool := 0; a_sid := 1; a_blk := 0 |}.
Definition w_b103 := {| a_priv := 103; a_pub := 1; a_start := 14465; a_end := 54464; a_pool := 0; a_sid := 3; a_blk := 2 |}.

Lemma c10_in_range_outside_guard_refuted :
  ~ (forall c m ops a, In a (s_allocs (hist c m ops)) ->
       c_start c <= a_start a /\ a_start a <= a_end a /\ a_end a <= c_end c).
Proof.
  intros H.
  assert (Hin : In w_a102 (s_allocs (hist w_cfg_range LogBulk w_ops3))).
  { vm_compute. right. left. reflexivity. }
  pose proof (H _ _ _ _ Hin) as [_ [H2 _]]. vm_compute in H2. apply H2. reflexivity.
Qed.

Lemma c10_size_outside_guard_refuted :
  ~ (forall c m ops a, In a (s_allocs (hist c m ops)) -> a_end a - a_start a + 1 = c_pps c).
Proof.
  intros H.
  assert (Hin : In w_a101 (s_allocs (hist w_cfg_size LogBulk w_ops3))).
  { vm_compute. right. left. reflexivity. }
  pose proof (H _ _ _ _ Hin) as H2. vm_compute in H2. discriminate H2.
Qed.

Lemma c10_no_overlap_outside_guard_refuted :
  ~ (forall c m ops a b, In a (s_allocs (hist c m ops)) -> In b (s_allocs (hist c m ops)) ->
       a_priv a <> a_priv b -> a_pub a = a_pub b -> a_end a < a_start b \/ a_end b < a_start a).
Proof.
  intros H.
  assert (Hin1 : In w_b101 (s_allocs (hist w_cfg_overlap LogBulk w_ops3))).
  { vm_compute. right. right. left. reflexivity. }
  assert (Hin2 : In w_b103 (s_allocs (hist w_cfg_overlap LogBulk w_ops3))).
  { vm_compute. left. reflexivity. }
  assert (Hne : a_priv w_b101 <> a_priv w_b103) by (vm_compute; discriminate).
  destruct (H _ _ _ _ _ Hin1 Hin2 Hne eq_refl) as [H2|H2]; vm_compute in H2; discriminate H2.
Qed.

(* a traditional-format record does not say where the block ends: two configurations write the
   same log for the same history yet disagree on who holds port 61500 *)
Lemma c10_traditional_record_alone_insufficient :
  exists c1 c2 ops ip port,
    cfg_ok c1 /\ cfg_ok c2 /\
    s_log (hist c1 LogTrad ops) = s_log (hist c2 LogTrad ops) /\
    holders (hist c1 LogTrad ops) ip port <> holders (hist c2 LogTrad ops) ip port.
Proof.
  exists {| c_pps := 1000; c_start := 60000; c_end := 65535 |},
         {| c_pps := 2000; c_start := 60000; c_end := 65535 |}, [AddIP 1; Alloc 101], 1, 61500.
  split; [vm_compute; reflexivity|]. split; [vm_compute; reflexivity|].
  split; [vm_compute; reflexivity|]. vm_compute. discriminate.
Qed.

(* ------------------------------------------------------------------ Model refines Spec *)
Fixpoint mtrace (s : state) (ops : list op) : list (op * out) :=
  match ops with
  | [] => []
  | o :: tl => (o, snd (fst (step s o))) :: mtrace (next s o) tl
  end.

Definition seq_op (o : op) : Prop := match o with ConcObs _ => False | _ => True end.

Definition Rel (s : state) (ss : sstate) : Prop :=
  ss_cfg ss = s_cfg s /\ ss_mode ss = s_mode s /\ ss_tab ss = map blk_of (s_allocs s).

Lemma find_blk_map priv l : find_blk priv (map blk_of l) = option_map blk_of (find_alloc priv l).
Proof. induction l as [|h tl IH]; cbn; [reflexivity|]. destruct (a_priv h =? priv); [reflexivity|exact IH]. Qed.

Lemma same_blk_view a : same_blk (blk_of a) (view a) = true.
Proof. unfold same_blk. cbn. rewrite !Z.eqb_refl. reflexivity. Qed.

Lemma new_block_ok st' anew rest : Inv st' -> cfg_ok (s_cfg st') -> s_allocs st' = anew :: rest ->
  new_block_clause (s_cfg st') (map blk_of rest) (view anew) = None.
Proof.
  intros HI Hc Ha.
  assert (Hin : In anew (s_allocs st')) by (rewrite Ha; left; reflexivity).
  destruct (inv_block st' anew HI Hc Hin) as [_ [He [H1 [H2 [H3 _]]]]].
  unfold new_block_clause, in_range, size_ok. cbn.
  replace (c_start (s_cfg st') <=? a_start anew) with true by lia.
  replace (a_start anew <=? a_end anew) with true by lia.
  replace (a_end anew <=? c_end (s_cfg st')) with true by lia.
  replace (a_end anew - a_start anew + 1 =? c_pps (s_cfg st')) with true by lia. cbn.
  replace (forallb (fun b => disjoint b (view anew)) (map blk_of rest)) with true; [reflexivity|].
  symmetry. apply forallb_forall. intros x Hx. apply in_map_iff in Hx. destruct Hx as [a' [<- Ha']].
  unfold disjoint. cbn. destruct (a_pub a' =? a_pub anew) eqn:Ep; [|reflexivity]. cbn. apply Z.eqb_eq in Ep.
  assert (Hne : a_priv a' <> a_priv anew).
  { pose proof (I_priv st' HI) as Hd. rewrite Ha in Hd. cbn in Hd. inversion Hd as [|? ? Hn _]; subst.
    intros Hq. apply Hn. rewrite <- Hq. apply in_map. exact Ha'. }
  assert (H1' : In a' (s_allocs st')) by (rewrite Ha; right; exact Ha').
  destruct (inv_no_overlap st' a' anew HI Hc H1' Hin Hne Ep) as [H|H]; lia.
Qed.

Lemma assign_rec_ok_log m a : assign_rec_ok m (view a) (log_alloc m a) = true.
Proof. destruct m; cbn; rewrite ?Z.eqb_refl; reflexivity. Qed.
Lemma release_rec_ok_log m a : release_rec_ok m (blk_of a) (log_dealloc m a) = true.
Proof. destruct m; cbn; rewrite ?Z.eqb_refl; reflexivity. Qed.

Lemma alloc_new_shape s q fm : find_alloc q (s_allocs s) = None ->
  (exists e, snd (fst (step s (AllocF q fm false))) = mk_out (RErr e) [] /\
             s_allocs (next s (AllocF q fm false)) = s_allocs s) \/
  exists anew, snd (fst (step s (AllocF q fm false))) = mk_out (RAlloc (view anew)) (log_alloc (s_mode s) anew) /\
               s_allocs (next s (AllocF q fm false)) = anew :: s_allocs s /\ a_priv anew = q.
Proof.
  intros H. unfold next, step, step_body, do_alloc. cbn. rewrite H.
  destruct (select_pool 0 (s_pool s)) as [[[i p] b]|]; cbn; [|left; eexists; auto].
  destruct fm; [left; destruct (find_sid q (s_sids s)); cbn; eexists; auto|].
  right. destruct (find_sid q (s_sids s)); cbn; eexists; repeat split.
Qed.

Lemma dealloc_shape s q a : find_alloc q (s_allocs s) = Some a ->
  snd (fst (step s (DeallocF q false false))) = mk_out RNone (log_dealloc (s_mode s) a) /\
  s_allocs (next s (DeallocF q false false)) = remove_alloc q (s_allocs s).
Proof. intros H. unfold next, step, step_body, do_dealloc. cbn. rewrite H. cbn. auto. Qed.

Lemma dealloc_refused_shape s q a fl : find_alloc q (s_allocs s) = Some a ->
  snd (fst (step s (DeallocF q true fl))) = mk_out (RErr 4) [] /\
  s_allocs (next s (DeallocF q true fl)) = s_allocs s.
Proof. intros H. unfold next, step, step_body, do_dealloc. cbn. rewrite H. cbn. auto. Qed.

Arguments new_block_clause : simpl never.
Arguments assign_rec_ok : simpl never.
Arguments release_rec_ok : simpl never.
Arguments same_blk : simpl never.
Arguments find_blk : simpl never.
Arguments remove_blk : simpl never.

Lemma step_accepted s ss o : Inv s -> cfg_ok (s_cfg s) -> Rel s ss -> seq_op o -> lossless o = true ->
  exists ss', accept ss o (snd (fst (step s o))) = inl ss' /\ Rel (next s o) ss'.
Proof.
  intros HI Hc [Rc [Rm Rt]] Hseq Hl.
  assert (HA : forall q fm, exists ss',
            accept ss (AllocF q fm false) (snd (fst (step s (AllocF q fm false)))) = inl ss' /\
            Rel (next s (AllocF q fm false)) ss').
  { intros q fm.
    pose proof (step_inv s (AllocF q fm false) HI) as HI'. destruct (step_cfg s (AllocF q fm false)) as [Hcf Hmo].
    assert (Hkeep : s_allocs (next s (AllocF q fm false)) = s_allocs s -> Rel (next s (AllocF q fm false)) ss).
    { intros Ha. unfold Rel. rewrite Hcf, Hmo, Ha. auto. }
    destruct (find_alloc q (s_allocs s)) as [a|] eqn:Ef.
    + exists ss. destruct (find_alloc_some _ _ _ Ef) as [_ Hp]. split; [|apply Hkeep].
      * unfold accept, accept0, step, step_body, do_alloc. cbn. rewrite Ef. cbn. rewrite Hp, Z.eqb_refl. cbn.
        rewrite Rt, find_blk_map, Ef. cbn. rewrite same_blk_view. reflexivity.
      * unfold next, step, step_body, do_alloc. cbn. rewrite Ef. reflexivity.
    + destruct (alloc_new_shape s q fm Ef) as [[e [Ho Ha]]|[anew [Ho [Ha Hp]]]].
      * exists ss. split; [|apply Hkeep; exact Ha]. rewrite Ho. reflexivity.
      * rewrite Ho. unfold accept, accept0. cbn. rewrite Hp, Z.eqb_refl. cbn.
        rewrite Rt, find_blk_map, Ef. cbn. rewrite Rc, <- Hcf.
        rewrite (new_block_ok _ anew _ HI' (eq_ind_r cfg_ok Hc Hcf) Ha).
        rewrite Rm, assign_rec_ok_log. eexists. split; [reflexivity|].
        unfold Rel. cbn. rewrite Hmo, Ha. cbn. rewrite Hcf. auto. }
  assert (HD : forall q fm, exists ss',
            accept ss (DeallocF q fm false) (snd (fst (step s (DeallocF q fm false)))) = inl ss' /\
            Rel (next s (DeallocF q fm false)) ss').
  { intros q fm. destruct (step_cfg s (DeallocF q fm false)) as [Hcf Hmo].
    assert (Hkeep : s_allocs (next s (DeallocF q fm false)) = s_allocs s -> Rel (next s (DeallocF q fm false)) ss).
    { intros Ha. unfold Rel. rewrite Hcf, Hmo, Ha. auto. }
    destruct (find_alloc q (s_allocs s)) as [a|] eqn:Ef.
    + destruct fm.
      * destruct (dealloc_refused_shape s q a false Ef) as [Ho Ha]. exists ss.
        split; [rewrite Ho; reflexivity|apply Hkeep; exact Ha].
      * destruct (dealloc_shape s q a Ef) as [Ho Ha]. rewrite Ho. unfold accept, accept0. cbn.
        rewrite Rt, find_blk_map, Ef. cbn. rewrite Rm, release_rec_ok_log. eexists. split; [reflexivity|].
        unfold Rel. cbn. rewrite Hcf, Hmo, Ha. repeat split; auto. apply remove_blk_alloc. exact Ef.
    + exists ss. split; [|apply Hkeep].
      * unfold accept, accept0, step, step_body, do_dealloc. cbn. rewrite Ef. cbn. rewrite Rt, find_blk_map, Ef. reflexivity.
      * unfold next, step, step_body, do_dealloc. cbn. rewrite Ef. reflexivity. }
  destruct (step_cfg s o) as [Hcf Hmo].
  assert (Hkeep : s_allocs (next s o) = s_allocs s -> Rel (next s o) ss).
  { intros Ha. unfold Rel. rewrite Hcf, Hmo, Ha. auto. }
  destruct o as [ip|q|q|q| |co|q fm fl|q fm fl]; try contradiction; cbn in Hl.
  - exists ss. split; [|apply Hkeep].
    + unfold accept, accept0, step, step_body. cbn. destruct (existsb _ _); reflexivity.
    + unfold next, step, step_body. cbn. destruct (existsb _ _); reflexivity.
  - exact (HA q false).
  - exact (HD q false).
  - exists ss. split; [|apply Hkeep; reflexivity].
    unfold accept, accept0, step, step_body. cbn. rewrite Rt, find_blk_map.
    destruct (find_alloc q (s_allocs s)) as [a|]; cbn; [rewrite same_blk_view|]; reflexivity.
  - exists ss. split; [reflexivity|apply Hkeep; reflexivity].
  - destruct fl; [discriminate|]. exact (HA q fm).
  - destruct fl; [discriminate|]. exact (HD q fm).
Qed.

Lemma model_accepted ops : forall s ss i, Inv s -> cfg_ok (s_cfg s) -> Rel s ss -> Forall seq_op ops ->
  all_lossless ops -> accept_trace accept i ss (mtrace s ops) = (0%N, 0%N).
Proof.
  induction ops as [|o tl IH]; intros s ss i HI Hc HR Hall Hl; [reflexivity|].
  inversion Hall; subst. inversion Hl; subst. cbn.
  destruct (step_accepted s ss o HI Hc HR) as [ss' [Ha HR']]; [assumption|assumption|].
  rewrite Ha. apply IH; auto.
  - apply step_inv; exact HI.
  - destruct (step_cfg s o) as [-> _]. exact Hc.
Qed.

Lemma c10_model_refines_spec c m ops : cfg_ok c -> Forall seq_op ops -> all_lossless ops ->
  accept_trace accept 1%N (sinit c m) (mtrace (init c m) ops) = (0%N, 0%N).
Proof.
  intros Hc Hall Hl. apply model_accepted; auto; [apply inv_init|repeat split].
Qed.

(* the same statement on the functions bin/check evaluates (Base/Check.v) *)
Lemma mtrace_check ops : forall s,
  map (fun x => (fst (fst x), snd (fst x))) (model_trace step s ops) = mtrace s ops.
Proof.
  induction ops as [|o tl IH]; intros s; [reflexivity|]. cbn. unfold next.
  destruct (step s o) as [[s' r] mk]. cbn. rewrite IH. reflexivity.
Qed.

Lemma c10_model_refines_spec_check c m ops : cfg_ok c -> Forall seq_op ops -> all_lossless ops ->
  accept_trace accept 1%N (sinit c m)
    (map (fun x => (fst (fst x), snd (fst x))) (model_trace step (init c m) ops)) = (0%N, 0%N).
Proof. intros Hc Hall Hl. rewrite mtrace_check. apply c10_model_refines_spec; assumption. Qed.

(* with a failing log writer the Model's own trace is rejected by the monitor (clause 4), and the
   Model raises marker 1003 there: that is what makes the rejection a known finding (K10e) *)
Definition w_cfg_lost : cfg := {| c_pps := 1000; c_start := 60000; c_end := 65535 |}.
Definition w_ops_lost : list op := [AddIP 9; AllocF 1 false true].
Lemma c10_lost_record_rejected :
  (accept_trace accept 1%N (sinit w_cfg_lost LogBulk) (mtrace (init w_cfg_lost LogBulk) w_ops_lost) = (2%N, 5%N)) /\
  (snd (step (next (init w_cfg_lost LogBulk) (AddIP 9)) (AllocF 1 false true)) = [1003%N]).
Proof. vm_compute. split; reflexivity. Qed.
