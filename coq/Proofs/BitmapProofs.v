(* Lemmas about Model/Bitmap.v: invariant over all histories, uniqueness, range, stability,
   exhaustion only when full, release returns the unit, exact statistics. *)
From Coq Require Import NArith ZArith List Bool Lia ZifyN ZifyNat ZifyBool.
From Verif Require Import Base.Word Model.PoolMap Model.Geometry Model.PoolSpec Model.Bitmap
  Proofs.PoolMapProofs.
Import ListNotations.
Local Open Scope N_scope.

(* ---- scanning ---- *)
Lemma scanP_some p b i j : scanP p b i = Some j -> i <= j /\ j < i + Npos p /\ N.testbit b j = false.
Proof.
  revert i. induction p as [q IH|q IH|]; intros i; cbn [scanP].
  - destruct (N.testbit b i) eqn:E.
    + destruct (scanP q b (i + 1)) eqn:E1.
      * intros [= <-]. apply IH in E1. lia.
      * intros H. apply IH in H. lia.
    + intros [= <-]. repeat split; [lia|lia|exact E].
  - destruct (scanP q b i) eqn:E1.
    + intros [= <-]. apply IH in E1. lia.
    + intros H. apply IH in H. lia.
  - destruct (N.testbit b i) eqn:E; [discriminate|]. intros [= <-]. repeat split; [lia|lia|exact E].
Qed.

Lemma scanP_none p b i : scanP p b i = None -> forall k, i <= k -> k < i + Npos p -> N.testbit b k = true.
Proof.
  revert i. induction p as [q IH|q IH|]; intros i; cbn [scanP].
  - destruct (N.testbit b i) eqn:E; [|discriminate].
    destruct (scanP q b (i + 1)) eqn:E1; [discriminate|]. intros H k Hk1 Hk2.
    destruct (N.eq_dec k i) as [->|Hne]; [exact E|].
    destruct (N.lt_ge_cases k (i + 1 + Npos q)) as [Hlt|Hge].
    + apply (IH _ E1); lia.
    + apply (IH _ H); lia.
  - destruct (scanP q b i) eqn:E1; [discriminate|]. intros H k Hk1 Hk2.
    destruct (N.lt_ge_cases k (i + Npos q)) as [Hlt|Hge].
    + apply (IH _ E1); lia.
    + apply (IH _ H); lia.
  - destruct (N.testbit b i) eqn:E; [|discriminate]. intros _ k Hk1 Hk2. assert (k = i) by lia. subst. exact E.
Qed.

Lemma scan_some n b i j : scan n b i = Some j -> i <= j /\ j < i + n /\ N.testbit b j = false.
Proof. destruct n as [|p]; cbn; [discriminate|apply scanP_some]. Qed.
Lemma scan_none n b i : scan n b i = None -> forall k, i <= k -> k < i + n -> N.testbit b k = true.
Proof. destruct n as [|p]; cbn; [intros _ k; lia|apply scanP_none]. Qed.

Lemma find_free_some s j : find_free s = Some j -> j < total64 (b_g s) /\ N.testbit (b_bm s) j = false.
Proof.
  unfold find_free. set (tot := total64 (b_g s)).
  set (start := if tot <=? b_hint s then 0 else b_hint s).
  assert (Hs : start <= tot) by (subst start; destruct (N.leb_spec tot (b_hint s)); lia).
  destruct (scan (tot - start) (b_bm s) start) eqn:E1.
  - intros [= <-]. apply scan_some in E1. split; [lia|tauto].
  - intros E2. apply scan_some in E2. split; [lia|tauto].
Qed.

Lemma find_free_none s : find_free s = None -> forall k, k < total64 (b_g s) -> N.testbit (b_bm s) k = true.
Proof.
  unfold find_free. set (tot := total64 (b_g s)).
  set (start := if tot <=? b_hint s then 0 else b_hint s).
  assert (Hs : start <= tot) by (subst start; destruct (N.leb_spec tot (b_hint s)); lia).
  destruct (scan (tot - start) (b_bm s) start) eqn:E1; [discriminate|].
  intros E2 k Hk. destruct (N.lt_ge_cases k start) as [Hlt|Hge].
  - apply (scan_none _ _ _ E2); lia.
  - apply (scan_none _ _ _ E1); lia.
Qed.

(* ---- the invariant ---- *)
Record BInv (s : bstate) : Prop := {
  bi_wfa : awf (b_alloc s);
  bi_wfr : awf (b_rev s);
  bi_bij : forall h i, aget h (b_alloc s) = Some i <-> aget i (b_rev s) = Some h;
  bi_bit : forall i, N.testbit (b_bm s) i = true <-> exists h, aget i (b_rev s) = Some h;
  bi_rng : forall i h, aget i (b_rev s) = Some h -> i < g_total (b_g s);
  bi_cnt : b_count s = Z.of_N (asize (b_alloc s)) }.

Lemma binit_inv g : BInv (binit g).
Proof.
  constructor; cbn.
  - constructor.
  - constructor.
  - intros; split; discriminate.
  - intros i. split; [discriminate|intros [? ?]; discriminate].
  - intros; discriminate.
  - reflexivity.
Qed.

Ltac simpl_upd := unfold upd; cbn [b_g b_bm b_alloc b_rev b_count b_hint].

Lemma inv_add s h i hint :
  BInv s -> aget h (b_alloc s) = None -> N.testbit (b_bm s) i = false -> i < g_total (b_g s) ->
  BInv (upd s (N.setbit (b_bm s) i) (aset h i (b_alloc s)) (aset i h (b_rev s)) (b_count s + 1)%Z hint).
Proof.
  intros [Hwa Hwr Hbij Hbit Hrng Hcnt] Hh Hi Hlt.
  assert (Hri : aget i (b_rev s) = None).
  { destruct (aget i (b_rev s)) as [x|] eqn:E; [|reflexivity].
    assert (N.testbit (b_bm s) i = true) by (apply Hbit; eauto). congruence. }
  constructor; simpl_upd.
  - apply awf_aset; assumption.
  - apply awf_aset; assumption.
  - intros h0 i0. destruct (N.eq_dec h h0) as [<-|Hne]; destruct (N.eq_dec i i0) as [<-|Hni].
    + rewrite !aget_aset_eq. tauto.
    + rewrite aget_aset_eq, aget_aset_ne by assumption. split; [intros [= ?]; contradiction|].
      intros H. apply Hbij in H. congruence.
    + rewrite aget_aset_eq, aget_aset_ne by assumption. split; [|intros [= ?]; contradiction].
      intros H. apply Hbij in H. congruence.
    + rewrite !aget_aset_ne by assumption. apply Hbij.
  - intros i0. destruct (N.eq_dec i i0) as [<-|Hni].
    + rewrite N.setbit_eq, aget_aset_eq. split; eauto.
    + rewrite N.setbit_neq, aget_aset_ne by assumption. apply Hbit.
  - intros i0 h0. destruct (N.eq_dec i i0) as [<-|Hni]; [intros; assumption|].
    rewrite aget_aset_ne by assumption. apply Hrng.
  - rewrite asize_aset_none by assumption. rewrite Hcnt. lia.
Qed.

Lemma inv_del s h i hint :
  BInv s -> aget h (b_alloc s) = Some i ->
  BInv (upd s (N.clearbit (b_bm s) i) (adel h (b_alloc s)) (adel i (b_rev s)) (b_count s - 1)%Z hint).
Proof.
  intros [Hwa Hwr Hbij Hbit Hrng Hcnt] Hh.
  assert (Hr : aget i (b_rev s) = Some h) by (apply Hbij; exact Hh).
  constructor; simpl_upd.
  - apply awf_adel; assumption.
  - apply awf_adel; assumption.
  - intros h0 i0. destruct (N.eq_dec h h0) as [<-|Hne]; destruct (N.eq_dec i i0) as [<-|Hni].
    + rewrite !aget_adel_eq. split; discriminate.
    + rewrite aget_adel_eq, aget_adel_ne by assumption. split; [discriminate|].
      intros H. apply Hbij in H. congruence.
    + rewrite aget_adel_eq, aget_adel_ne by assumption. split; [|discriminate].
      intros H. apply Hbij in H. congruence.
    + rewrite !aget_adel_ne by assumption. apply Hbij.
  - intros i0. destruct (N.eq_dec i i0) as [<-|Hni].
    + rewrite N.clearbit_eq, aget_adel_eq. split; [discriminate|intros [? ?]; discriminate].
    + rewrite N.clearbit_neq, aget_adel_ne by assumption. apply Hbit.
  - intros i0 h0. destruct (N.eq_dec i i0) as [<-|Hni]; [rewrite aget_adel_eq; discriminate|].
    rewrite aget_adel_ne by assumption. apply Hrng.
  - pose proof (asize_adel_some h i (b_alloc s) Hwa Hh). lia.
Qed.

Lemma index_of_lt s a pl i : index_of s a pl = Some i -> i < g_total (b_g s).
Proof.
  unfold index_of, index_of_addr.
  destruct (negb (pl =? g_pl (b_g s))); [discriminate|].
  destruct (a <? g_base (b_g s)); [discriminate|].
  destruct (N.leb_spec (g_total (b_g s)) ((a - g_base (b_g s)) / g_step (b_g s))); [discriminate|].
  intros [= <-]. rewrite wrap64_mod.
  eapply N.le_lt_trans; [apply N.mod_le; discriminate|assumption].
Qed.

Lemma total64_le g : total64 g <= g_total g.
Proof. unfold total64. rewrite wrap64_mod. apply N.mod_le. discriminate. Qed.

Lemma adel_adel {V} k (m : amap V) : adel k (adel k m) = adel k m.
Proof. apply adel_none. apply aget_adel_eq. Qed.

Lemma aset_adel {V} k (v : V) m : aset k v (adel k m) = aset k v m.
Proof. unfold aset. rewrite adel_adel. reflexivity. Qed.

Definition next (s : bstate) (o : op) : bstate := fst (fst (step s o)).

Lemma step_inv s o : BInv s -> BInv (next s o).
Proof.
  intros Hinv. pose proof Hinv as [Hwa Hwr Hbij Hbit Hrng Hcnt]. unfold next.
  destruct o as [h|h a pl|h a pl|h|a pl|h| |h|a pl|a pl| | ]; cbn [step]; try exact Hinv.
  - (* Alloc *)
    destruct (aget h (b_alloc s)) as [i|] eqn:Eh; [exact Hinv|].
    destruct (find_free s) as [i|] eqn:Ef; [|exact Hinv]. cbn [fst].
    apply find_free_some in Ef as [Hlt Hfree].
    apply inv_add; auto. pose proof (total64_le (b_g s)). lia.
  - (* AllocSpec *)
    destruct (index_of s a pl) as [i|] eqn:Ei; [|exact Hinv].
    destruct (N.testbit (b_bm s) i) eqn:Eb.
    + destruct (aget i (b_rev s)) as [h'|]; [destruct (h' =? h)|]; exact Hinv.
    + destruct (aget h (b_alloc s)) eqn:Eh; [exact Hinv|]. cbn [fst].
      apply inv_add; auto. eapply index_of_lt; eauto.
  - (* SetAlloc *)
    destruct (index_of s a pl) as [i|] eqn:Ei; [|exact Hinv].
    destruct (aget i (b_rev s)) as [h'|] eqn:Er.
    + destruct (N.eqb_spec h' h) as [->|Hne]; cbn [negb]; [|exact Hinv].
      assert (Ha : aget h (b_alloc s) = Some i) by (apply Hbij; exact Er).
      rewrite Ha, N.eqb_refl. exact Hinv.
    + assert (Hb : N.testbit (b_bm s) i = false).
      { destruct (N.testbit (b_bm s) i) eqn:E; [|reflexivity]. apply Hbit in E as [x Hx]. congruence. }
      destruct (aget h (b_alloc s)) as [old|] eqn:Eh.
      * destruct (N.eqb_spec old i) as [->|Hne]; [exact Hinv|]. cbn [fst].
        (* release old, then add i *)
        pose proof (inv_del s h old (b_hint s) Hinv Eh) as Hd.
        set (s1 := upd s (N.clearbit (b_bm s) old) (adel h (b_alloc s)) (adel old (b_rev s)) (b_count s - 1)%Z (b_hint s)) in *.
        assert (H1 : aget h (b_alloc s1) = None) by (subst s1; simpl_upd; apply aget_adel_eq).
        assert (H2 : N.testbit (b_bm s1) i = false) by (subst s1; simpl_upd; rewrite N.clearbit_neq by assumption; exact Hb).
        assert (H3 : i < g_total (b_g s1)) by (subst s1; simpl_upd; eapply index_of_lt; eauto).
        pose proof (inv_add s1 h i (b_hint s) Hd H1 H2 H3) as Ha.
        subst s1. unfold upd in *. cbn [b_g b_bm b_alloc b_rev b_count b_hint] in *.
        rewrite aset_adel in Ha. exact Ha.
      * cbn [fst]. apply inv_add; auto. eapply index_of_lt; eauto.
  - (* Release *)
    destruct (aget h (b_alloc s)) as [i|] eqn:Eh; [|exact Hinv]. cbn [fst]. apply inv_del; auto.
  - (* ReleaseUnit *)
    destruct (index_of s a pl) as [i|] eqn:Ei; [|exact Hinv].
    destruct (N.testbit (b_bm s) i) eqn:Eb; cbn [negb]; [|exact Hinv]. cbn [fst].
    apply Hbit in Eb as [h Hr]. rewrite Hr. apply inv_del; auto. apply Hbij. exact Hr.
  - (* Lookup *) destruct (aget h (b_alloc s)); exact Hinv.
  - (* LookupUnit *)
    destruct (index_of s a pl) as [i|]; [|exact Hinv]. destruct (aget i (b_rev s)); exact Hinv.
Qed.

Definition brun (g : geo) (ops : list op) : bstate := fold_left next ops (binit g).

Lemma brun_inv g ops : BInv (brun g ops).
Proof.
  unfold brun. generalize (binit_inv g). generalize (binit g).
  induction ops as [|o tl IH]; intros s Hs; cbn [fold_left]; [exact Hs|]. apply IH. apply step_inv. exact Hs.
Qed.

Lemma next_geo s o : b_g (next s o) = b_g s.
Proof.
  unfold next. destruct o as [h|h a pl|h a pl|h|a pl|h| |h|a pl|a pl| | ]; cbn [step]; try reflexivity;
  repeat match goal with
         | |- context [match ?x with _ => _ end] => destruct x
         end; reflexivity.
Qed.

Lemma brun_geo g ops : b_g (brun g ops) = g.
Proof.
  unfold brun. change g with (b_g (binit g)) at 2. generalize (binit g).
  induction ops as [|o tl IH]; intros s; cbn [fold_left]; [reflexivity|]. rewrite IH. apply next_geo.
Qed.

(* ================= property lemmas ================= *)
From Verif Require Import Proofs.GeometryProofs.

Definition outp (s : bstate) (o : op) : out := snd (fst (step s o)).

(* who holds which address after a history *)
Definition bholds (g : geo) (ops : list op) (h u : N) : Prop :=
  exists i, aget h (b_alloc (brun g ops)) = Some i /\ u = addr_of_index g i.

Lemma bitmap_unique g ops h1 h2 u : bholds g ops h1 u -> bholds g ops h2 u -> h1 = h2.
Proof.
  intros (i1 & H1 & ->) (i2 & H2 & Heq). apply addr_injective in Heq. subst i2.
  pose proof (brun_inv g ops) as Hinv. apply (bi_bij _ Hinv) in H1, H2. congruence.
Qed.

Lemma bitmap_in_range g ops h u : geo_wf g -> bholds g ops h u -> inside g u (g_step g).
Proof.
  intros Hw (i & H & ->). apply addr_in_range; [exact Hw|].
  pose proof (brun_inv g ops) as Hinv. apply (bi_bij _ Hinv) in H. apply (bi_rng _ Hinv) in H.
  rewrite brun_geo in H. exact H.
Qed.

(* two holders' units never overlap (prefix pools: the delegated prefixes are disjoint) *)
Lemma bitmap_disjoint g ops h1 h2 u1 u2 : h1 <> h2 -> bholds g ops h1 u1 -> bholds g ops h2 u2 ->
  u1 + g_step g <= u2 \/ u2 + g_step g <= u1.
Proof.
  intros Hne (i1 & H1 & ->) (i2 & H2 & ->).
  destruct (N.lt_trichotomy i1 i2) as [Hlt|[Heq|Hgt]].
  - left. apply addr_disjoint. exact Hlt.
  - exfalso. subst i2. apply Hne. eapply bitmap_unique; eexists; eauto.
  - right. apply addr_disjoint. exact Hgt.
Qed.

(* stability: a holder that asks again gets the value it holds, and nothing changes *)
Lemma bitmap_stable g ops h u : bholds g ops h u ->
  step (brun g ops) (Alloc h) = (brun g ops, OUnit u, []) /\
  step (brun g ops) (Lookup h) = (brun g ops, OUnit u, []).
Proof.
  intros (i & H & ->). cbn [step]. rewrite H. unfold unit_of. rewrite brun_geo. split; reflexivity.
Qed.

(* answers reflect the state: whatever Allocate returns is what the holder holds afterwards *)
Lemma bitmap_alloc_answer g ops h u : outp (brun g ops) (Alloc h) = OUnit u -> bholds g (ops ++ [Alloc h]) h u.
Proof.
  unfold outp, bholds, brun. rewrite fold_left_app. cbn [fold_left]. fold (brun g ops).
  set (s := brun g ops). unfold next. cbn [step].
  destruct (aget h (b_alloc s)) as [i|] eqn:Eh.
  - cbn [fst snd]. intros [= <-]. exists i. split; [exact Eh|]. unfold unit_of. subst s. rewrite brun_geo. reflexivity.
  - destruct (find_free s) as [i|]; cbn [fst snd]; [|discriminate].
    intros [= <-]. exists i. unfold upd; cbn [b_alloc]. rewrite aget_aset_eq. split; [reflexivity|].
    unfold unit_of. subst s. rewrite brun_geo. reflexivity.
Qed.

(* exhaustion is reported only when every unit has a holder (pools below 2^64 units) *)
Lemma bitmap_exhausted_only_if_full g ops h : g_total g < W64 ->
  outp (brun g ops) (Alloc h) = OErr 1 ->
  forall i, i < g_total g -> exists h', bholds g ops h' (addr_of_index g i).
Proof.
  intros Hsmall Hout i Hi. pose proof (brun_inv g ops) as Hinv. revert Hout.
  unfold outp. cbn [step]. set (s := brun g ops) in *.
  destruct (aget h (b_alloc s)); [discriminate|].
  destruct (find_free s) eqn:Ef; [discriminate|]. intros _.
  assert (Ht : total64 (b_g s) = g_total g).
  { subst s. rewrite brun_geo. unfold total64. rewrite wrap64_mod. apply N.mod_small. exact Hsmall. }
  pose proof (find_free_none s Ef i ltac:(lia)) as Hb.
  apply (bi_bit _ Hinv) in Hb as [h' Hr]. apply (bi_bij _ Hinv) in Hr.
  exists h', i. split; [exact Hr|reflexivity].
Qed.

(* a release gives the unit back: it has no holder, and while some unit has no holder a new
   subscriber is served at once *)
Lemma bitmap_release_frees g ops h u : bholds g ops h u ->
  outp (brun g ops) (Release h) = OOk /\ forall h', ~ bholds g (ops ++ [Release h]) h' u.
Proof.
  intros (i & H & ->). pose proof (brun_inv g ops) as Hinv. unfold outp. cbn [step]. rewrite H. split; [reflexivity|].
  intros h' (i' & H' & Heq). apply addr_injective in Heq. subst i'.
  pose proof (brun_inv g (ops ++ [Release h])) as Hinv'. apply (bi_bij _ Hinv') in H'.
  revert H'. unfold brun. rewrite fold_left_app. cbn [fold_left]. fold (brun g ops). unfold next. cbn [step].
  rewrite H. cbn [fst]. unfold upd; cbn [b_rev]. rewrite aget_adel_eq. discriminate.
Qed.

Lemma bitmap_free_unit_served g ops h i : g_total g < W64 -> i < g_total g ->
  (forall h', ~ bholds g ops h' (addr_of_index g i)) ->
  exists u, outp (brun g ops) (Alloc h) = OUnit u.
Proof.
  intros Hsmall Hi Hfree. pose proof (brun_inv g ops) as Hinv.
  unfold outp. cbn [step]. set (s := brun g ops) in *.
  destruct (aget h (b_alloc s)); [eexists; reflexivity|].
  destruct (find_free s) eqn:Ef; [eexists; reflexivity|]. exfalso.
  assert (Ht : total64 (b_g s) = g_total g).
  { subst s. rewrite brun_geo. unfold total64. rewrite wrap64_mod. apply N.mod_small. exact Hsmall. }
  pose proof (find_free_none s Ef i ltac:(lia)) as Hb.
  apply (bi_bit _ Hinv) in Hb as [h' Hr]. apply (bi_bij _ Hinv) in Hr.
  apply (Hfree h'). exists i. split; [exact Hr|reflexivity].
Qed.

(* statistics: the allocated figure is the number of holders, the total is the number of units *)
Lemma bitmap_stats_exact g ops :
  outp (brun g ops) Stats =
    let al := wrap64 (asize (b_alloc (brun g ops))) in let tot := wrap64 (g_total g) in
    if tot =? 0 then OStats al tot 0 1 else OStats al tot (al * 100) tot.
Proof.
  pose proof (brun_inv g ops) as Hinv. unfold outp. cbn [step snd fst].
  unfold count64. rewrite (bi_cnt _ Hinv). rewrite Z.abs_eq by lia. rewrite N2Z.id.
  unfold total64. rewrite brun_geo. reflexivity.
Qed.

(* the number of holders never exceeds the number of units (so below 2^64 units no figure wraps) *)
Lemma nodup_bounded_length (l : list N) (n : N) :
  NoDup l -> (forall x, In x l -> x < n) -> N.of_nat (length l) <= n.
Proof.
  intros Hnd Hb.
  assert (H : (length l <= length (map N.of_nat (seq 0 (N.to_nat n))))%nat).
  { apply NoDup_incl_length; [exact Hnd|]. intros x Hx. apply in_map_iff. exists (N.to_nat x).
    split; [lia|]. apply in_seq. specialize (Hb x Hx). lia. }
  rewrite map_length, seq_length in H. lia.
Qed.

Lemma bitmap_holders_le_units g ops : asize (b_alloc (brun g ops)) <= g_total g.
Proof.
  pose proof (brun_inv g ops) as Hinv. set (s := brun g ops) in *.
  unfold asize. rewrite <- (map_length snd).
  apply nodup_bounded_length.
  - (* values are pairwise distinct because keys are and the map is injective *)
    pose proof (bi_wfa _ Hinv) as Hw. unfold awf in Hw.
    assert (Hinj : forall h1 h2 i, In (h1, i) (b_alloc s) -> In (h2, i) (b_alloc s) -> h1 = h2).
    { intros h1 h2 i H1 H2. apply (in_aget _ _ _ (bi_wfa _ Hinv)) in H1, H2.
      apply (bi_bij _ Hinv) in H1, H2. congruence. }
    revert Hw Hinj. generalize (b_alloc s). intros m. induction m as [|[k v] tl IH]; cbn; [constructor|].
    intros Hnd Hinj. inversion Hnd as [|? ? Hni Hnd']; subst. constructor.
    + intros Hin. apply in_map_iff in Hin as [[k' v'] [Hv Hin]]. cbn in Hv. subst v'.
      assert (k = k') by (apply (Hinj k k' v); [left; reflexivity|right; exact Hin]). subst k'.
      apply Hni. apply in_map_iff. exists (k, v). auto.
    + apply IH; [exact Hnd'|]. intros h1 h2 i H1 H2. apply (Hinj h1 h2 i); right; assumption.
  - intros i Hin. apply in_map_iff in Hin as [[h i'] [Hv Hin]]. cbn in Hv. subst i'.
    apply (in_aget _ _ _ (bi_wfa _ Hinv)) in Hin. apply (bi_bij _ Hinv) in Hin. apply (bi_rng _ Hinv) in Hin.
    subst s. rewrite brun_geo in Hin. exact Hin.
Qed.

Lemma bitmap_stats_exact_small g ops : g_total g < W64 ->
  outp (brun g ops) Stats =
    OStats (asize (b_alloc (brun g ops))) (g_total g) (asize (b_alloc (brun g ops)) * 100) (g_total g).
Proof.
  intros Hsmall. rewrite bitmap_stats_exact. cbv zeta.
  pose proof (bitmap_holders_le_units g ops) as Hle.
  rewrite !wrap64_mod, !N.mod_small by lia.
  assert (0 < g_total g) by apply pow2_pos.
  destruct (N.eqb_spec (g_total g) 0); [lia|reflexivity].
Qed.

(* 2^64 units or more: totalPrefixes.Uint64() is 0 and an EMPTY pool reports exhaustion *)
Definition huge_geo : geo := {| g_bits := 128; g_base := 42540766411282592856903984951653826560; g_ppl := 64; g_pl := 128 |}.
Lemma bitmap_exhausted_only_if_full_huge_refuted :
  geo_wf huge_geo /\ outp (brun huge_geo []) (Alloc 0) = OErr 1 /\ (forall h u, ~ bholds huge_geo [] h u).
Proof.
  split; [apply geo_wfb_ok; vm_compute; reflexivity|]. split; [vm_compute; reflexivity|].
  intros h u (i & H & _). cbn in H. discriminate.
Qed.
