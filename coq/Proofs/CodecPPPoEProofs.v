(* C09 — proofs about Model/CodecPPPoE.v: no Panic / no Hang for every byte string, linear step
   bounds of the loops, independence from the bytes in the spare capacity (no read outside the
   input), round trips, termination and soundness of the session-id scan. *)
From Coq Require Import ZArith NArith List Lia ZifyN ZifyNat ZifyBool Bool.
From Verif Require Import Model.CodecBase Model.CodecPPPoE Proofs.CodecBaseProofs.
Import ListNotations.
Local Open Scope N_scope.

(* ---- header *)
Lemma parse_header_cases (d : bytes) :
  (lenN d < 6 /\ parse_header d = Err) \/
  (6 <= lenN d /\ exists v c sid ln, parse_header d = Ok (v, c, sid, ln) /\
                   idx d 1 = Ok c /\ be16 d 2 = Ok sid /\ be16 d 4 = Ok ln).
Proof.
  unfold parse_header. destruct (lenN d <? 6) eqn:E; [left; split; [lia|reflexivity]|right].
  split; [lia|].
  destruct (idx_ok d 0) as [v Hv]; [lia|]. destruct (idx_ok d 1) as [c Hc]; [lia|].
  destruct (be16_ok d 2) as [s Hs]; [lia|]. destruct (be16_ok d 4) as [l Hl]; [lia|].
  rewrite Hv, Hc, Hs, Hl. cbn. eauto 10.
Qed.

Lemma parse_header_safe d : safe (parse_header d).
Proof.
  destruct (parse_header_cases d) as [[_ ->]|[_ [v [c [s [l [-> _]]]]]]]; [apply safe_err|apply safe_ok].
Qed.

(* ---- TLV loop *)
Lemma tlv16_loop_safe eol fuel d : forall off acc steps,
  lenN d < off + 4 * N.of_nat fuel + 4 ->
  safe (fst (tlv16_loop eol fuel d off acc steps)).
Proof.
  induction fuel as [|f IH]; intros off acc steps Hf; cbn [tlv16_loop].
  - destruct (off + 4 <=? lenN d) eqn:E; [lia|apply safe_ok].
  - destruct (off + 4 <=? lenN d) eqn:E; [|apply safe_ok].
    destruct (be16_ok d off) as [ty Hty]; [lia|]. destruct (be16_ok d (off + 2)) as [ln Hln]; [lia|].
    rewrite Hty, Hln.
    destruct (eol && (ty =? 0)); [apply safe_ok|].
    destruct (lenN d <? off + 4 + ln) eqn:E2; [apply safe_err|].
    destruct (sub0_ok d (off + 4) (off + 4 + ln)) as [v [Hv _]]; [lia|lia|]. rewrite Hv.
    apply IH. lia.
Qed.

Lemma tlv16_safe eol d : safe (fst (tlv16 eol d)).
Proof. apply tlv16_loop_safe. unfold lenN. lia. Qed.

Lemma parse_tags_safe d : safe (parse_tags d).
Proof. apply tlv16_safe. Qed.

Lemma tlv16_loop_steps eol fuel d : forall off acc steps,
  off <= lenN d + 4 ->
  4 * snd (tlv16_loop eol fuel d off acc steps) + off <= 4 * steps + lenN d + 4.
Proof.
  induction fuel as [|f IH]; intros off acc steps Ho; cbn [tlv16_loop].
  - destruct (off + 4 <=? lenN d); cbn [snd]; lia.
  - destruct (off + 4 <=? lenN d) eqn:E; [|cbn [snd]; lia].
    destruct (be16 d off); try (cbn [snd]; lia).
    destruct (be16 d (off + 2)); try (cbn [snd]; lia).
    destruct (eol && (a =? 0)); [cbn [snd]; lia|].
    destruct (lenN d <? off + 4 + a0) eqn:E2; [cbn [snd]; lia|].
    destruct (sub0 d (off + 4) (off + 4 + a0)); try (cbn [snd]; lia).
    specialize (IH (off + 4 + a0) ((a :: a0 :: a1) :: acc) (steps + 1)). lia.
Qed.

(* iterations of ParseTags / dhcpv6.ParseOptions: at most len/4 *)
Lemma tlv16_steps eol d : 4 * snd (tlv16 eol d) <= lenN d + 4.
Proof. pose proof (tlv16_loop_steps eol (S (length d)) d 0 [] 0). unfold tlv16. lia. Qed.

(* ---- LCP packet *)
Lemma parse_lcp_packet_safe d : safe (parse_lcp_packet d).
Proof. unfold parse_lcp_packet. safe_go. Qed.

Lemma parse_lcp_packet_len d c i ln v :
  parse_lcp_packet d = Ok (c, i, ln, v) -> lenN v + 4 <= lenN d + 0 /\ (4 < ln -> lenN v = ln - 4).
Proof.
  unfold parse_lcp_packet. destruct (lenN d <? 4) eqn:E; [discriminate|].
  destruct (idx d 0); cbn; try discriminate. destruct (idx d 1); cbn; try discriminate.
  destruct (be16 d 2); cbn; try discriminate.
  destruct (lenN d <? a1) eqn:E1; [discriminate|].
  destruct (4 <? a1) eqn:E2.
  - destruct (sub0_ok d 4 a1) as [w [Hw Hl]]; [lia|lia|]. rewrite Hw. cbn. intros H; inversion H; subst. lia.
  - intros H; inversion H; subst. rewrite lenN_nil. lia.
Qed.

(* ---- LCP options *)
Lemma lcpopt_loop_safe fuel d : forall off acc steps,
  lenN d < off + 2 * N.of_nat fuel + 2 ->
  safe (fst (lcpopt_loop fuel d off acc steps)).
Proof.
  induction fuel as [|f IH]; intros off acc steps Hf; cbn [lcpopt_loop].
  - destruct (off + 2 <=? lenN d) eqn:E; [lia|apply safe_ok].
  - destruct (off + 2 <=? lenN d) eqn:E; [|apply safe_ok].
    destruct (idx_ok d off) as [ty Hty]; [lia|]. destruct (idx_ok d (off + 1)) as [ln Hln]; [lia|].
    rewrite Hty, Hln.
    destruct (ln <? 2) eqn:E1; [apply safe_err|].
    destruct (lenN d <? off + ln) eqn:E2; [apply safe_err|].
    destruct (2 <? ln) eqn:E3.
    + destruct (sub0_ok d (off + 2) (off + ln)) as [v [Hv _]]; [lia|lia|]. rewrite Hv. apply IH. lia.
    + apply IH. lia.
Qed.

Lemma parse_lcp_options_safe d : safe (parse_lcp_options d).
Proof. apply lcpopt_loop_safe. unfold lenN. lia. Qed.

Lemma lcpopt_loop_steps fuel d : forall off acc steps,
  off <= lenN d + 2 ->
  2 * snd (lcpopt_loop fuel d off acc steps) + off <= 2 * steps + lenN d + 2.
Proof.
  induction fuel as [|f IH]; intros off acc steps Ho; cbn [lcpopt_loop].
  - destruct (off + 2 <=? lenN d); cbn [snd]; lia.
  - destruct (off + 2 <=? lenN d) eqn:E; [|cbn [snd]; lia].
    destruct (idx d off); try (cbn [snd]; lia).
    destruct (idx d (off + 1)); try (cbn [snd]; lia).
    destruct (a0 <? 2) eqn:E1; [cbn [snd]; lia|].
    destruct (lenN d <? off + a0) eqn:E2; [cbn [snd]; lia|].
    destruct (2 <? a0).
    + destruct (sub0 d (off + 2) (off + a0)); try (cbn [snd]; lia).
      specialize (IH (off + a0) ((a :: a0 :: a1) :: acc) (steps + 1)). lia.
    + specialize (IH (off + a0) ((a :: a0 :: []) :: acc) (steps + 1)). lia.
Qed.

Lemma lcpopts_steps d : 2 * snd (lcpopts d) <= lenN d + 2.
Proof. pose proof (lcpopt_loop_steps (S (length d)) d 0 [] 0). unfold lcpopts. lia. Qed.

(* ---- PADT, echo *)
Lemma parse_padt_safe d tail : safe (parse_padt d tail).
Proof.
  unfold parse_padt.
  destruct (parse_header_cases d) as [[_ ->]|[Hl [v [c [s [l [-> _]]]]]]]; [apply safe_err|]. cbn [bind].
  safe_go. apply safe_bind; [apply parse_tags_safe|intros; apply safe_ok].
Qed.

Lemma parse_echo_safe d : safe (parse_echo d).
Proof. unfold parse_echo. safe_go. Qed.

(* ---- server glue *)
Lemma handle_discovery_safe sid d tail : safe (handle_discovery sid d tail).
Proof.
  unfold handle_discovery.
  destruct (lenN d <? 6) eqn:E0; [apply safe_ok|].
  destruct (parse_header_cases d) as [[? _]|[Hl [v [c [s [l [-> _]]]]]]]; [lia|]. cbn [bind].
  safe_go.
  pose proof (parse_tags_safe v0) as [Hp Hh].
  destruct (parse_tags v0); try congruence; [|apply safe_ok].
  repeat match goal with
  | |- safe (if ?c then _ else _) => destruct c
  | |- safe (match ?o with Some _ => _ | None => _ end) => destruct o
  | |- safe (Ok _) => apply safe_ok
  end.
Qed.

Lemma srv_lcp_safe count p : safe (srv_lcp count p).
Proof.
  unfold srv_lcp. pose proof (parse_lcp_packet_safe p) as [H1 H2].
  destruct (parse_lcp_packet p) as [[[[c i] l] data]| | |]; try congruence; [|apply safe_ok].
  destruct (c =? 1).
  - pose proof (parse_lcp_options_safe data) as [H3 H4].
    destruct (parse_lcp_options data); try congruence; apply safe_ok.
  - repeat match goal with |- safe (if ?c then _ else _) => destruct c | |- safe (Ok _) => apply safe_ok end.
Qed.

Lemma srv_ipcp_safe authed count p : safe (srv_ipcp authed count p).
Proof.
  unfold srv_ipcp. destruct (authed =? 0); [apply safe_ok|]. pose proof (parse_lcp_packet_safe p) as [H1 H2].
  destruct (parse_lcp_packet p) as [[[[c i] l] data]| | |]; try congruence; [|apply safe_ok].
  destruct (c =? 1); [|apply safe_ok].
  pose proof (parse_lcp_options_safe data) as [H3 H4].
  destruct (parse_lcp_options data); try congruence; apply safe_ok.
Qed.

Lemma srv_pap_safe count p : safe (srv_pap count p).
Proof. unfold srv_pap. safe_go. Qed.

Lemma handle_session_safe sid au d tail : safe (handle_session sid au d tail).
Proof.
  unfold handle_session.
  destruct (lenN d <? 8) eqn:E0; [apply safe_ok|].
  destruct (parse_header_cases d) as [[? _]|[Hl [v [c [s [l [-> _]]]]]]]; [lia|]. cbn [bind].
  safe_go; auto using srv_lcp_safe, srv_pap_safe, srv_ipcp_safe.
Qed.

(* ---- no read outside the input: the result does not depend on the bytes in the spare capacity *)
Lemma parse_padt_no_overread d tail : parse_padt d tail = parse_padt d [].
Proof.
  unfold parse_padt.
  destruct (parse_header d) as [[[[v c] s] l]| | |]; cbn [bind]; try reflexivity.
  destruct (negb (c =? 167)); [reflexivity|].
  destruct (6 <? lenN d) eqn:E; [|reflexivity].
  destruct (lenN d - 6 <? l) eqn:E1; [reflexivity|].
  rewrite (sub_tail_irrel d tail 6 (6 + l)) by lia. reflexivity.
Qed.

Lemma handle_discovery_no_overread sid d tail : handle_discovery sid d tail = handle_discovery sid d [].
Proof.
  unfold handle_discovery.
  destruct (lenN d <? 6) eqn:E; [reflexivity|].
  destruct (parse_header d) as [[[[v c] s] l]| | |]; cbn [bind]; try reflexivity.
  destruct (lenN d - 6 <? l) eqn:E1; [reflexivity|].
  rewrite (sub_tail_irrel d tail 6 (6 + l)) by lia. reflexivity.
Qed.

Lemma handle_session_no_overread sid au d tail : handle_session sid au d tail = handle_session sid au d [].
Proof.
  unfold handle_session.
  destruct (lenN d <? 8) eqn:E; [reflexivity|].
  destruct (parse_header d) as [[[[v c] s] l]| | |]; cbn [bind]; try reflexivity.
  destruct ((l <? 2) || (lenN d - 6 <? l)) eqn:E1; [reflexivity|].
  apply orb_false_iff in E1. destruct E1 as [E1 E2].
  destruct ((sid =? 0) || negb (s =? sid)); [reflexivity|].
  destruct (be16 d 6); cbn [bind]; try reflexivity.
  rewrite (sub_tail_irrel d tail 8 (6 + l)) by lia. reflexivity.
Qed.

(* ---- session-id scan (CreateSession) *)
Lemma next_id_range n : n <= 65535 -> 1 <= next_id n <= 65535.
Proof.
  intros H.
  destruct (N.eq_dec n 65535) as [->|Hn]; [replace (next_id 65535) with 1 by (vm_compute; reflexivity); lia|].
  unfold next_id. rewrite N.mod_small by lia. destruct (n + 1 =? 0) eqn:E; lia.
Qed.

Lemma next_id_succ n : n < 65535 -> next_id n = n + 1.
Proof. intros H. unfold next_id. rewrite N.mod_small by lia. destruct (n + 1 =? 0) eqn:E; lia. Qed.

Lemma next_id_wrap : next_id 65535 = 1. Proof. reflexivity. Qed.

Definition dist (n t : N) : N := if n <=? t then t - n else 65535 - n + t.

Lemma scan_id_finds used t : 1 <= t <= 65535 -> used t = false ->
  forall fuel n steps, n <= 65535 -> dist n t <= N.of_nat fuel ->
  exists id, fst (scan_id fuel used n steps) = Ok id.
Proof.
  intros Ht Hu. induction fuel as [|f IH]; intros n steps Hn Hd; cbn [scan_id].
  - destruct (negb (used n)) eqn:E; [cbn [fst]; eauto|].
    assert (n = t) by (unfold dist in Hd; destruct (n <=? t) eqn:E1; lia). subst. destruct (used t); [discriminate Hu|discriminate E].
  - destruct (negb (used n)) eqn:E; [cbn [fst]; eauto|].
    assert (n <> t) by (intros ->; destruct (used t); [discriminate Hu|discriminate E]).
    apply IH; [apply next_id_range; assumption|].
    unfold dist in *.
    destruct (N.eq_dec n 65535) as [->|Hn'].
    + rewrite next_id_wrap. destruct (65535 <=? t) eqn:E1; destruct (1 <=? t) eqn:E2; lia.
    + rewrite next_id_succ by lia.
      destruct (n <=? t) eqn:E1; destruct (n + 1 <=? t) eqn:E2; lia.
Qed.

Lemma scan_id_sound used fuel : forall n steps id,
  fst (scan_id fuel used n steps) = Ok id -> used id = false.
Proof.
  induction fuel as [|f IH]; intros n steps id; cbn [scan_id];
    destruct (negb (used n)) eqn:E; cbn [fst]; intros H; try discriminate.
  - inversion H; subst. destruct (used id); [discriminate|reflexivity].
  - inversion H; subst. destruct (used id); [discriminate|reflexivity].
  - eapply IH; eassumption.
Qed.

Lemma scan_id_nonzero used fuel : forall n steps id,
  n <> 0 -> fst (scan_id fuel used n steps) = Ok id -> id <> 0.
Proof.
  induction fuel as [|f IH]; intros n steps id Hn; cbn [scan_id];
    destruct (negb (used n)); cbn [fst]; intros H; try discriminate.
  - inversion H; subst; assumption.
  - inversion H; subst; assumption.
  - eapply IH; [|eassumption]. unfold next_id. destruct ((n + 1) mod 65536 =? 0) eqn:E; lia.
Qed.

Lemma scan_id_steps used fuel : forall n steps, snd (scan_id fuel used n steps) <= steps + N.of_nat fuel.
Proof.
  induction fuel as [|f IH]; intros n steps; cbn [scan_id]; destruct (negb (used n)); cbn [snd]; try lia.
  specialize (IH (next_id n) (steps + 1)). lia.
Qed.

(* [count] = len(m.sessions); fewer than 65535 live sessions leave one id of 1..65535 free *)
Definition table_wf (used : N -> bool) (count : N) : Prop :=
  count < 65535 -> exists t, 1 <= t <= 65535 /\ used t = false.

Lemma id_fuel_val : N.of_nat id_fuel = 65537.
Proof. unfold id_fuel. lia. Qed.

Lemma create_session_safe used count next :
  table_wf used count -> next <= 65535 -> safe (create_session used count next).
Proof.
  intros Hwf Hn. unfold create_session. destruct (65535 <=? count) eqn:E; [apply safe_err|].
  destruct Hwf as [t [Ht Hu]]; [lia|].
  destruct (scan_id_finds used t Ht Hu id_fuel next 0 Hn) as [id Hid].
  - rewrite id_fuel_val. unfold dist. destruct (next <=? t) eqn:E1; lia.
  - rewrite Hid. cbn. apply safe_ok.
Qed.

Lemma create_session_sound used count next id nx :
  create_session used count next = Ok (id, nx) ->
  used id = false /\ nx <> 0 /\ (next <> 0 -> id <> 0) /\ count < 65535.
Proof.
  unfold create_session. destruct (65535 <=? count) eqn:E; [discriminate|].
  destruct (fst (scan_id id_fuel used next 0)) eqn:Es; cbn; try discriminate.
  intros H; inversion H; subst. repeat split.
  - eapply scan_id_sound; eassumption.
  - unfold next_id. destruct ((id + 1) mod 65536 =? 0) eqn:E1; lia.
  - intros Hn. eapply scan_id_nonzero; eassumption.
  - lia.
Qed.

Lemma create_session_full used count next : 65535 <= count -> create_session used count next = Err.
Proof. intros H. unfold create_session. destruct (65535 <=? count) eqn:E; [reflexivity|lia]. Qed.

Lemma create_session_steps used next : snd (scan_id id_fuel used next 0) <= 65537.
Proof. pose proof (scan_id_steps used id_fuel next 0). rewrite id_fuel_val in H. lia. Qed.

(* the capacity exactly as coded: with fewer than 65535 live sessions an id IS issued (never the
   table-full error, never a hang); with 65535 or more the call is refused *)
Lemma create_session_issues used count next :
  table_wf used count -> next <= 65535 -> count < 65535 ->
  exists id nx, create_session used count next = Ok (id, nx).
Proof.
  intros Hwf Hn Hc. unfold create_session. destruct (65535 <=? count) eqn:E; [lia|].
  destruct Hwf as [t [Ht Hu]]; [lia|].
  destruct (scan_id_finds used t Ht Hu id_fuel next 0 Hn) as [id Hid].
  - rewrite id_fuel_val. unfold dist. destruct (next <=? t) eqn:E1; lia.
  - rewrite Hid. cbn. eauto.
Qed.
