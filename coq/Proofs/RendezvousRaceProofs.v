(* C17: the yardstick of the concurrent stream (Model/RendezvousRace.v).
   1. Every sequential history keeps every node's peer list sorted and duplicate-free, so the ranked
      list never names a peer twice: a real PeerPool whose list shows a duplicate after concurrent
      calls is in a state no sequential order produces.
   2. IsLocalOwner is (GetOwner = self) in every state, also when the node is absent from its own list.
   3. The judge accepts what a sequential execution of a round produces (its calls in any listed
      order, the updates pairwise distinct): a rejection is never an artefact of the judge. *)
From Coq Require Import PeanoNat NArith List Bool Lia Permutation Sorted.
From Verif Require Import Base.Word Model.Rendezvous Model.RendezvousRace Proofs.RendezvousProofs Proofs.RendezvousRefine.
Import ListNotations.
Local Open Scope N_scope.

(* ================= 1. the peer list is a sorted set ================= *)
Definition set_like (nd : node) : Prop := StronglySorted lex_le (peers nd) /\ NoDup (peers nd).

Lemma remove_first_NoDup p l : NoDup l -> NoDup (remove_first p l).
Proof.
  induction 1 as [|x l Hx Hl IH]; cbn [remove_first]; [constructor|].
  destruct (bytes_eqb x p); [exact Hl|]. constructor; [|exact IH].
  intros Hin. apply Hx. eapply remove_first_in. exact Hin.
Qed.

Lemma peers_add p nd : peers (add_peer_node p nd) = add_peer (peers nd) p.
Proof.
  unfold add_peer_node, add_peer. destruct (mem_s p (peers nd)); [reflexivity|].
  destruct (alias nd); [destruct (Nat.ltb _ _)|]; reflexivity.
Qed.

Lemma peers_remove p nd : peers (remove_peer_node p nd) = remove_first p (peers nd).
Proof. unfold remove_peer_node. destruct (alias nd && mem_s p (peers nd)); reflexivity. Qed.

Lemma peers_add_hold k nd : peers (add_hold k nd) = peers nd.
Proof. unfold add_hold. destruct (mem_s k (holds nd)); reflexivity. Qed.

Lemma upd_set_like s n f :
  Forall set_like s -> (forall nd, peers (f nd) = peers nd) -> Forall set_like (upd s n f).
Proof.
  intros Hs Hf. rewrite upd_eq. apply upd_from_Forall; [exact Hs|].
  intros nd Hnd. unfold set_like. rewrite Hf. exact Hnd.
Qed.

Lemma step_set_like s o : Forall set_like s -> Forall set_like (step_state s o).
Proof.
  intros Hs. unfold step_state. destruct o; cbn [step].
  - (* AddPeer *) cbn [fst]. rewrite upd_eq. apply upd_from_Forall; [exact Hs|].
    intros nd [Hso Hnd]. unfold set_like. rewrite peers_add. split; [apply add_peer_sorted|apply add_peer_NoDup]; assumption.
  - (* RemovePeer *) cbn [fst]. rewrite upd_eq. apply upd_from_Forall; [exact Hs|].
    intros nd [Hso Hnd]. unfold set_like. rewrite peers_remove. split; [apply remove_first_sorted|apply remove_first_NoDup]; assumption.
  - cbn [fst]. apply upd_set_like; [exact Hs|reflexivity].
  - exact Hs.
  - exact Hs.
  - exact Hs.
  - destruct (howner_mk _ _); exact Hs.
  - (* Alloc *) destruct (howner_mk _ _) as [r mk]. destruct (target s n r) as [[j|] mk2]; cbn [fst]; [|exact Hs].
    apply upd_set_like; [exact Hs|]. intros nd. apply peers_add_hold.
  - (* Release *) destruct (howner_mk _ _) as [r mk]. destruct (bytes_eqb r _); cbn [fst].
    + apply upd_set_like; [exact Hs|reflexivity].
    + destruct (target s n r) as [[j|] mk2]; [destruct (url_id k)|]; cbn [fst]; try exact Hs.
      apply upd_set_like; [exact Hs|reflexivity].
  - exact Hs.
  - exact Hs.
  - (* CheckPeer *) destruct (negb _); cbn [fst]; apply upd_set_like; try exact Hs; reflexivity.
Qed.

Lemma new_node_set_like id cfg0 : NoDup cfg0 -> set_like (new_node id cfg0).
Proof.
  intros Hn. unfold set_like, new_node. cbn [peers]. split; [apply sort_s_sorted|].
  eapply Permutation_NoDup; [symmetry; apply sort_s_perm|].
  destruct (mem_s id cfg0) eqn:E; [exact Hn|].
  eapply Permutation_NoDup; [apply Permutation_cons_append|]. constructor; [|exact Hn].
  intros Hin. apply mem_s_In in Hin. congruence.
Qed.

(* every history, every number of nodes, every configured list without a repeated name *)
Theorem peer_lists_stay_sets cfgs ops :
  Forall (fun c => NoDup (snd c)) cfgs -> Forall set_like (run_model (init cfgs) ops).
Proof.
  intros Hc.
  assert (H0 : Forall set_like (init cfgs)).
  { unfold init. apply Forall_map. eapply Forall_impl; [|exact Hc]. intros c Hn. apply new_node_set_like. exact Hn. }
  generalize dependent (init cfgs). induction ops as [|o tl IH]; intros s Hs; [exact Hs|].
  cbn [run_model fold_left]. apply IH. exact (step_set_like s o Hs).
Qed.

Theorem ranked_has_no_duplicates cfgs ops k :
  Forall (fun c => NoDup (snd c)) cfgs ->
  Forall (fun nd => NoDup (ranked k (peers nd)) /\ Permutation (ranked k (peers nd)) (peers nd)) (run_model (init cfgs) ops).
Proof.
  intros Hc. eapply Forall_impl; [|exact (peer_lists_stay_sets cfgs ops Hc)].
  intros nd [_ Hn]. split; [|apply ranked_perm].
  eapply Permutation_NoDup; [symmetry; apply ranked_perm|exact Hn].
Qed.

(* a configured list that repeats a name keeps the repeat (NewPeerPool does not deduplicate): why the guard *)
Lemma configured_duplicate_survives :
  peers (new_node [97] [[98]; [98]; [97]]) = [[97]; [98]; [98]].
Proof. vm_compute. reflexivity. Qed.

(* ================= 2. IsLocalOwner = (GetOwner = self) ================= *)
Theorem is_local_iff_owner_is_self s n k :
  step_out s (IsLocal n k) =
  OBool (match step_out s (GetOwner n k) with OStr o => bytes_eqb o (self (getn s n)) | _ => false end).
Proof. reflexivity. Qed.

(* also for a node that is absent from its own peer list (after RemovePeer self): it claims nothing *)
Theorem drained_node_owns_nothing s n k :
  peers (getn s n) <> [] -> scores_pos k (peers (getn s n)) -> ~ In (self (getn s n)) (peers (getn s n)) ->
  step_out s (IsLocal n k) = OBool false.
Proof.
  intros Hne Hpos Hnot. unfold step_out. cbn [step fst snd]. f_equal.
  apply bytes_eqb_neq. intros Heq. apply Hnot. rewrite <- Heq. apply owner_in; assumption.
Qed.

(* ================= 3. the judge accepts sequential executions ================= *)
Definition is_query (o : op) : bool :=
  match o with GetOwner _ _ | IsLocal _ _ | Ranked _ _ | HealthyOwner _ _ => true | _ => false end.

Lemma query_keeps_state s o : is_query o = true -> step_state s o = s.
Proof.
  unfold step_state. destruct o; cbn [is_query step]; try discriminate; intros _; try reflexivity;
    destruct (howner_mk _ _); reflexivity.
Qed.

(* the sequential execution of a round's calls in the listed order *)
Fixpoint seq_trace (s : state) (ops : list op) : list (op * out) :=
  match ops with [] => [] | o :: tl => (o, step_out s o) :: seq_trace (step_state s o) tl end.
Definition seq_final (s : state) (ops : list op) : state := fold_left step_state ops s.

(* picking the head every time: the states of the listed order are among the reachable ones *)
Lemma reach_head fuel s ups : In (s, match ups with [] => true | _ => false end) (reach fuel s ups).
Proof. destruct fuel; left; reflexivity. Qed.

Lemma reach_step fuel s u ups st :
  In st (reach fuel (step_state s u) ups) -> In st (reach (S fuel) s (u :: ups)).
Proof.
  intros H. cbn [reach]. right. cbn [sels flat_map fst snd]. apply in_or_app. left. exact H.
Qed.

Lemma some_state_In {A} (f : A -> bool) l x : In x l -> f x = true -> some_state f l = true.
Proof.
  induction l as [|a tl IH]; cbn [some_state]; [intros []|]. intros [->|Hin] Hf.
  - rewrite Hf. reflexivity.
  - destruct (f a); [reflexivity|]. apply IH; assumption.
Qed.

Lemma out_eqb_refl o : out_eqb o o = true.
Proof.
  destruct o; cbn [out_eqb]; try reflexivity.
  - apply bytes_eqb_refl.
  - destruct b; reflexivity.
  - apply list_bytes_eqb_eq. reflexivity.
  - apply bytes_eqb_refl.
  - rewrite N.eqb_refl. destruct h; reflexivity.
  - rewrite !bytes_eqb_refl. reflexivity.
Qed.

(* every call of the sequential run is explained: updates are skipped, a query is answered in the state
   reached by the updates listed before it *)
Lemma seq_queries_explained ops : forall s fuel R0 ups,
  forallb (fun o => is_update o || is_query o) ops = true ->
  ups = filter is_update ops ->
  (forall st, In st (reach fuel s ups) -> In st R0) ->
  (length ups <= fuel)%nat ->
  find (fun x : op * out => if is_update (fst x) then false
                            else negb (some_state (fun st => out_eqb (step_out (fst st) (fst x)) (snd x)) R0))
       (seq_trace s ops) = None.
Proof.
  induction ops as [|o tl IH]; intros s fuel R0 ups Hall Hups Hsub Hf; [reflexivity|].
  cbn [forallb] in Hall. apply andb_prop in Hall. destruct Hall as [Ho Hall].
  cbn [seq_trace find fst snd]. destruct (is_update o) eqn:Eu.
  - cbn [filter] in Hups. rewrite Eu in Hups. subst ups. destruct fuel as [|fuel]; [cbn in Hf; lia|].
    apply (IH (step_state s o) fuel R0 (filter is_update tl) Hall eq_refl).
    + intros st Hst. apply Hsub. apply reach_step. exact Hst.
    + cbn in Hf. lia.
  - cbn [orb] in Ho. rewrite (some_state_In _ R0 (s, match ups with [] => true | _ => false end)).
    + cbn [negb]. rewrite (query_keeps_state s o Ho). apply (IH s fuel R0 ups Hall); auto.
      cbn [filter] in Hups. rewrite Eu in Hups. exact Hups.
    + apply Hsub. apply reach_head.
    + cbn [fst]. apply out_eqb_refl.
Qed.

Lemma seq_final_reached ops : forall s fuel ups,
  forallb (fun o => is_update o || is_query o) ops = true ->
  ups = filter is_update ops -> (length ups <= fuel)%nat ->
  In (seq_final s ops, true) (reach fuel s ups).
Proof.
  induction ops as [|o tl IH]; intros s fuel ups Hall Hups Hf.
  - subst ups. cbn. destruct fuel; left; reflexivity.
  - cbn [forallb] in Hall. apply andb_prop in Hall. destruct Hall as [Ho Hall].
    cbn [seq_final fold_left]. fold (seq_final (step_state s o) tl). cbn [filter] in Hups. destruct (is_update o) eqn:Eu.
    + subst ups. destruct fuel as [|fuel]; [cbn in Hf; lia|]. apply reach_step. apply IH; auto. cbn in Hf. lia.
    + cbn [orb] in Ho. rewrite (query_keeps_state s o Ho). apply IH; auto.
Qed.

(* A round whose calls were executed one after the other in the listed order (updates pairwise distinct,
   so that the judge's deduplication keeps them) and whose final view is read afterwards is accepted, and
   the judge continues from a state with exactly that view. *)
Theorem judge_accepts_sequential_round s ops :
  forallb (fun o => is_update o || is_query o) ops = true ->
  dedup_updates (filter is_update ops) = filter is_update ops ->
  let s' := seq_final s ops in
  exists s'', judge_round s (seq_trace s ops, (peers (getn s' 0), unhealthy (getn s' 0))) = inl s'' /\
              peers (getn s'' 0) = peers (getn s' 0) /\ unhealthy (getn s'' 0) = unhealthy (getn s' 0).
Proof.
  intros Hall Hd s'. unfold judge_round.
  assert (Hm : map fst (seq_trace s ops) = ops).
  { clear. revert s. induction ops as [|o tl IH]; intros s; [reflexivity|]. cbn [seq_trace map fst]. rewrite IH. reflexivity. }
  rewrite Hm, Hd. set (ups := filter is_update ops). set (R := reach (length ups) s ups).
  rewrite (seq_queries_explained ops s (length ups) R ups Hall eq_refl (fun st H => H) (le_n _)).
  assert (Hin : In (s', true) (filter snd R)).
  { apply filter_In. split; [|reflexivity]. apply seq_final_reached; auto. }
  destruct (find (view_is (peers (getn s' 0)) (unhealthy (getn s' 0))) (filter snd R)) as [st|] eqn:Ef.
  - exists (fst st). split; [reflexivity|]. apply find_some in Ef. destruct Ef as [_ Hv].
    unfold view_is in Hv. apply andb_prop in Hv. destruct Hv as [H1 H2].
    apply list_bytes_eqb_eq in H1. apply list_bytes_eqb_eq in H2. split; assumption.
  - exfalso. pose proof (find_none _ _ Ef _ Hin) as Hv. unfold view_is in Hv. cbn [fst] in Hv.
    assert (Ht : forall l, list_bytes_eqb l l = true) by (intros l; apply list_bytes_eqb_eq; reflexivity).
    rewrite !Ht in Hv. discriminate.
Qed.

(* ================= examples (non-vacuity, and what the judge rejects) ================= *)
Definition rx_a : bytes := [97].   (* "a" *)
Definition rx_b : bytes := [98].   (* "b" *)
Definition rx_x : bytes := [120].  (* "x" *)
Definition rx_s : state := [new_node rx_a [rx_a; rx_b]].
Definition rx_ops : list op :=
  [AddPeer 0 rx_x; GetOwner 0 [115;49]; RemovePeer 0 rx_b; SetHealth 0 rx_b false; HealthyOwner 0 [115;49]; Ranked 0 [115;49]].

(* the hypotheses of [judge_accepts_sequential_round] hold for a round of six calls, and its sequential
   execution changes the peer list and the health view *)
Lemma ex_sequential_round :
  forallb (fun o => is_update o || is_query o) rx_ops = true /\
  dedup_updates (filter is_update rx_ops) = filter is_update rx_ops /\
  peers (getn (seq_final rx_s rx_ops) 0) = [rx_a; rx_x] /\ unhealthy (getn (seq_final rx_s rx_ops) 0) = [rx_b].
Proof. vm_compute. repeat split. Qed.

(* two callers announce the new peer "x" to a node that knows a, b:
   - x once in the list afterwards: accepted;
   - x twice (what an insert without a re-check under the write lock leaves): clause 2;
   - after RemovePeer x the list still shows x: clause 3;
   - an owner answer for a peer that is in no admissible peer set: clause 0 *)
Lemma ex_judge_verdicts :
  (exists s', judge_round rx_s ([(AddPeer 0 rx_x, ONone); (AddPeer 0 rx_x, ONone)], ([rx_a; rx_b; rx_x], [])) = inl s') /\
  judge_round rx_s ([(AddPeer 0 rx_x, ONone); (AddPeer 0 rx_x, ONone)], ([rx_a; rx_b; rx_x; rx_x], [])) = inr 2 /\
  judge_round [new_node rx_a [rx_a; rx_b; rx_x]] ([(RemovePeer 0 rx_x, ONone)], ([rx_a; rx_b; rx_x], [])) = inr 3 /\
  judge_round rx_s ([(AddPeer 0 rx_x, ONone); (GetOwner 0 [115;49], OStr [122])], ([rx_a; rx_b; rx_x], [])) = inr 0.
Proof. split; [eexists; vm_compute; reflexivity|]. vm_compute. repeat split. Qed.
