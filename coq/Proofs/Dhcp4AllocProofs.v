(* C02, DHCPv4 in the external-allocator configuration (Model/Dhcp4Alloc.v, code after fix 9e598d4).

   The remote allocator is an oracle.  Guard on it, for a history [ops] of (message, answer) pairs:
     oracle_inj ops      two lookup hits that name the same address are hits for the same MAC
                         (the allocator never gives one address to two MACs)
     oracle_ext c ops    no hit names an assignable address of the local pool (the allocator's pools
                         and the walled-garden pool do not overlap)
   and the circuit-index guard [quiet4h] (as quiet4: K02a is the same code in both configurations).
   Under them: (a) an OFFER/ACK value is not held by another client, (b) the lease table is injective
   on addresses, (c) a value is a usable local address or the address the allocator named for that
   client.  Without oracle_inj (a),(b) fail (witness).  (e) fails for allocator addresses (K02d). *)
From Coq Require Import ZArith NArith List Lia ZifyN ZifyNat ZifyBool Bool.
From Verif Require Import Model.Dhcp4 Model.Dhcp4Alloc Proofs.Dhcp4Proofs Proofs.Dhcp4Circuit.
Import ListNotations.
Local Open Scope N_scope.

Definition firesh (s : state4) (oh : op4h) : bool := fires s (fst oh).
Fixpoint quiet_fromh (c : cfg4) (s : state4) (ops : list op4h) : bool :=
  match ops with
  | [] => true
  | o :: tl => negb (firesh s o) && quiet_fromh c (step4hs c s o) tl
  end.
Definition quiet4h (c : cfg4) (ops : list op4h) : bool := quiet_fromh c (init4 c) ops.

Lemma existing_quiet s m :
  (match existing s m with Some (_, true) => true | _ => false end) = false ->
  existing s m = match alookup (m_mac m) (leases s) with Some l => Some (l, false) | None => None end.
Proof.
  unfold existing. destruct (alookup (m_mac m) (leases s)); [reflexivity|].
  destruct (m_relay m && negb (m_cid m =? 0)); [|reflexivity].
  destruct (alookup (m_cid m) (cidx s)); [discriminate|reflexivity].
Qed.

Lemma reply_grantable_quiet c s o s' r mk v :
  pool_inv s -> fires s o = false -> step4 c s o = (s', r, mk) -> reply_val r = Some v -> grantable s (op_client o) v.
Proof.
  intros Hp Hq Hs Hv. rewrite <- (step_unrelay c s o Hq) in Hs. rewrite <- op_client_unrelay.
  eapply reply_grantable; eauto. destruct o; reflexivity.
Qed.

Section Alloc.
Variable c : cfg4.
Variable A : N -> N -> Prop.        (* A m a: a is the address the allocator holds for MAC m *)
Hypothesis Ainj : forall m m' a, A m a -> A m' a -> m = m'.
Hypothesis Aext : forall m a, A m a -> usable4 c a = false.

Definition oracle_ok (oh : op4h) : Prop :=
  match snd oh with LkHit a => A (op_client (fst oh)) a | _ => True end.

Record lease_h (s : state4) : Prop := {
  h_back : forall m l, alookup m (leases s) = Some l ->
     A m (l_ip l) \/ (usable4 c (l_ip l) = true /\ (alookup m (alloc s) = Some (l_ip l) \/ In (l_ip l) (unavail s)));
  h_inj : forall m1 m2 l1 l2, alookup m1 (leases s) = Some l1 -> alookup m2 (leases s) = Some l2 ->
     l_ip l1 = l_ip l2 -> m1 = m2 }.
Record pool_ok (s : state4) : Prop := {
  k_av : forall v, In v (avail s) -> usable4 c v = true;
  k_al : forall p, In p (alloc s) -> usable4 c (snd p) = true }.
Definition invh (s : state4) : Prop := pool_inv s /\ pool_ok s /\ lease_h s.

Lemma lease_h_mono s s' :
  (forall m l, alookup m (leases s') = Some l -> alookup m (leases s) = Some l) ->
  (forall m l, alookup m (leases s') = Some l -> alookup m (alloc s) = Some (l_ip l) \/ In (l_ip l) (unavail s) ->
               alookup m (alloc s') = Some (l_ip l) \/ In (l_ip l) (unavail s')) ->
  lease_h s -> lease_h s'.
Proof.
  intros Hsub Hb [B I]. constructor.
  - intros m l Hl. destruct (B m l (Hsub _ _ Hl)) as [Ha|[Hu Hx]]; [now left|]. right. split; [assumption|now apply Hb].
  - intros m1 m2 l1 l2 H1 H2. apply I; auto.
Qed.

Lemma pool_ok_ext s s' : alloc s' = alloc s -> avail s' = avail s -> pool_ok s -> pool_ok s'.
Proof. intros E1 E2 [Kav Kal]. constructor; rewrite ?E1, ?E2; auto. Qed.

Lemma pool_ok_release s ip : pool_ok s -> pool_ok (pool_release s ip).
Proof.
  intros [Kav Kal]. unfold pool_release. destruct (drop_first_val ip (alloc s)) eqn:E; [|constructor; auto].
  destruct (drop_first_val_split _ _ _ E) as (h & a1 & a2 & Ha & _).
  assert (Hu : usable4 c ip = true).
  { apply (Kal (h, ip)). rewrite Ha. apply in_or_app. right. now left. }
  constructor; cbn.
  - intros v Hv. apply in_app_or in Hv. destruct Hv as [Hv|[Hv|[]]]; [auto|now subst].
  - intros p Hp. apply Kal. eapply drop_first_val_in; eauto.
Qed.

Lemma pool_ok_alloc s h ip a' v' : pool_ok s -> pool_alloc h (alloc s) (avail s) = Some (ip, a', v') ->
  pool_ok (with_pool s a' v' (unavail s)) /\ usable4 c ip = true.
Proof.
  intros [Kav Kal] Hp. apply pool_alloc_in in Hp. destruct Hp as (Ha & Hb & Hc).
  assert (Hu : usable4 c ip = true) by (destruct Ha as [Ha|Ha]; [apply (Kal _ Ha)|auto]).
  split; [|exact Hu]. constructor; cbn; auto.
  intros p Hp. apply Hb in Hp. destruct Hp as [Hp|Hp]; [subst; exact Hu|auto].
Qed.

Lemma pool_ok_reserve s m ip s' : pool_ok s -> pool_reserve s m ip = Some s' -> pool_ok s' /\ usable4 c ip = true.
Proof.
  intros Hk. pose proof Hk as [Kav Kal]. unfold pool_reserve. destruct (alookup m (alloc s)) as [cur|] eqn:Ea.
  - destruct (cur =? ip) eqn:Ec; intro H; inv H. apply N.eqb_eq in Ec. subst cur. split; [assumption|].
    apply alookup_in in Ea. apply (Kal _ Ea).
  - destruct (memN ip (avail s)) eqn:Em; intro H; inv H. apply memN_in in Em. split; [|auto].
    constructor; cbn.
    + intros v Hv. apply Kav. eapply in_remove1; eauto.
    + intros p [Hp|Hp]; [subst; cbn; auto|auto].
Qed.

Lemma pool_ok_mark s d : pool_ok s -> pool_ok (pool_mark s d).
Proof.
  intros [Kav Kal]. constructor; cbn.
  - intros v Hv. apply Kav. eapply in_remove1; eauto.
  - intros p Hp. apply filter_In in Hp. apply Kal. tauto.
Qed.

(* a value the server may hand to m: the allocator's address for m, or locally grantable *)
Definition grantable_h (s : state4) (m v : N) : Prop := A m v \/ grantable s m v.

Lemma excl_h s m v c' : invh s -> grantable_h s m v -> c' <> m -> ~ holds s c' v.
Proof.
  intros (Hp & [Kav Kal] & [B I]) Hg Hn Hh. pose proof Hp as [P1 P2 P6 P3 P4].
  assert (Hc' : A c' v \/ (usable4 c v = true /\ (alookup c' (alloc s) = Some v \/ In v (unavail s)))).
  { destruct Hh as [[l [Hl Hv]]|Hh]; [subst v; apply (B _ _ Hl)|]. right. split; [|now left].
    apply alookup_in in Hh. apply (Kal _ Hh). }
  destruct Hg as [Ha|[Hg|[Hg|[l [Hl Hv]]]]].
  - destruct Hc' as [Ha'|[Hu _]]; [apply Hn; eapply Ainj; eauto|]. rewrite (Aext _ _ Ha) in Hu. discriminate.
  - assert (Hu : usable4 c v = true) by (pose proof (alookup_in _ _ _ Hg) as Hin; apply (Kal _ Hin)).
    destruct Hc' as [Ha'|[_ [Hal|Hun]]].
    + rewrite (Aext _ _ Ha') in Hu. discriminate.
    + apply Hn. eapply lookup_vals_inj; eauto.
    + destruct (P4 v Hun) as [_ Q]. apply Q. eapply lookup_in_vals; eauto.
  - pose proof (Kav _ Hg) as Hu. destruct Hc' as [Ha'|[_ [Hal|Hun]]].
    + rewrite (Aext _ _ Ha') in Hu. discriminate.
    + apply (P3 v Hg). eapply lookup_in_vals; eauto.
    + destruct (P4 v Hun) as [Q _]. auto.
  - subst v. destruct Hh as [[l' [Hl' Hv']]|Hh].
    + apply Hn. eapply I; eauto.
    + destruct (B _ _ Hl) as [Ha|[Hu [Hal|Hun]]].
      * pose proof (alookup_in _ _ _ Hh) as Hin. pose proof (Kal _ Hin) as Hu. cbn in Hu.
        rewrite (Aext _ _ Ha) in Hu. discriminate.
      * apply Hn. eapply lookup_vals_inj; eauto.
      * destruct (P4 _ Hun) as [_ Q]. apply Q. eapply lookup_in_vals; eauto.
Qed.

Lemma invh_release s m l : invh s -> alookup m (leases s) = Some l -> invh (pool_release (drop_lease s m l) (l_ip l)).
Proof.
  intros (Hp & Hk & Hl) Hm. pose proof Hp as [P1 P2 P6 P3 P4]. pose proof Hl as [B I].
  assert (Hp1 : pool_inv (drop_lease s m l)) by (eapply pool_inv_ext; [..|exact Hp]; reflexivity).
  assert (Hk1 : pool_ok (drop_lease s m l)) by (eapply pool_ok_ext; [..|exact Hk]; reflexivity).
  split; [now apply pool_release_inv|]. split; [now apply pool_ok_release|].
  unfold pool_release. cbn [alloc drop_lease]. destruct (drop_first_val (l_ip l) (alloc s)) eqn:E.
  - eapply lease_h_mono; [| |exact Hl]; cbn.
    + intros m' l' H. now apply alookup_aremove_some in H.
    + intros m' l' H Hb. apply alookup_aremove_some in H. destruct H as [Hnm H]. destruct Hb as [Hb|Hb]; [|now right].
      left. eapply drop_first_lookup; [exact P6|exact P2|exact E|exact Hb|]. intro Heq. apply Hnm. eapply I; eauto.
  - eapply lease_h_mono; [| |exact Hl]; cbn.
    + intros m' l' H. now apply alookup_aremove_some in H.
    + intros m' l' H Hb. exact Hb.
Qed.

Lemma invh_decline s m l od : invh s -> alookup m (leases s) = Some l ->
  invh (match od with Some d => pool_mark (drop_lease s m l) d | None => drop_lease s m l end).
Proof.
  intros (Hp & Hk & Hl) Hm. pose proof Hp as [P1 P2 P6 P3 P4].
  assert (Hp1 : pool_inv (drop_lease s m l)) by (eapply pool_inv_ext; [..|exact Hp]; reflexivity).
  assert (Hk1 : pool_ok (drop_lease s m l)) by (eapply pool_ok_ext; [..|exact Hk]; reflexivity).
  destruct od as [d|].
  - split; [now apply pool_mark_inv|]. split; [now apply pool_ok_mark|]. eapply lease_h_mono; [| |exact Hl]; cbn.
    + intros m' l' H. now apply alookup_aremove_some in H.
    + intros m' l' H [Hb|Hb]; [|right; now apply in_unavail_mark].
      destruct (l_ip l' =? d) eqn:E.
      * apply N.eqb_eq in E. rewrite E. right. apply in_unavail_mark_self.
      * left. apply alookup_filter_keep; auto. cbn. now rewrite E.
  - split; [assumption|]. split; [assumption|]. eapply lease_h_mono; [| |exact Hl]; cbn; auto.
    intros m' l' H. now apply alookup_aremove_some in H.
Qed.

Lemma invh_expire_one s m : invh s -> invh (expire_one s m).
Proof.
  intro H. unfold expire_one. destruct (alookup m (leases s)) eqn:E; [|assumption].
  destruct (l_exp l <=? now s); [|assumption]. now apply invh_release.
Qed.
Lemma invh_fold_expire l : forall s, invh s -> invh (fold_left expire_one l s).
Proof. induction l; cbn; auto using invh_expire_one. Qed.

Lemma invh_add_alloc s h ip a' v' :
  invh s -> pool_alloc h (alloc s) (avail s) = Some (ip, a', v') -> invh (with_pool s a' v' (unavail s)).
Proof.
  intros (Hp & Hk & Hl) Ha. destruct (pool_alloc_inv _ _ _ _ _ Hp Ha) as (Hp' & Hh & Ho & _).
  split; [assumption|]. split; [apply (pool_ok_alloc _ _ _ _ _ Hk Ha)|].
  eapply lease_h_mono; [| |exact Hl]; cbn; auto.
  intros m l Hm [Hb|Hb]; [|now right]. left. destruct (N.eq_dec m h) as [->|Hn].
  - unfold pool_alloc in Ha. rewrite Hb in Ha. inv Ha. assumption.
  - now rewrite Ho.
Qed.

Lemma invh_do_ack s m ex ip : invh s ->
  A (m_mac m) ip \/ alookup (m_mac m) (alloc s) = Some ip \/ (exists l, alookup (m_mac m) (leases s) = Some l /\ l_ip l = ip) ->
  invh (do_ack c s m ex ip).
Proof.
  intros Hi Hg. pose proof Hi as (Hp & Hk & [B I]). pose proof Hk as [Kav Kal].
  split; [eapply pool_inv_ext; [..|exact Hp]; reflexivity|]. split; [eapply pool_ok_ext; [..|exact Hk]; reflexivity|].
  assert (Hex : forall c', c' <> m_mac m -> ~ holds s c' ip).
  { intros c' Hn. eapply excl_h; eauto. destruct Hg as [Hg|[Hg|Hg]]; [now left|right; now left|right; right; now right]. }
  constructor; unfold do_ack; cbn [leases alloc unavail].
  - intros m' l'. destruct (N.eq_dec m' (m_mac m)) as [->|Hn].
    + rewrite alookup_aset_eq. intro H; inv H. cbn. destruct Hg as [Hg|[Hg|[l [Hl Hv]]]].
      * now left.
      * right. split; [|now left]. pose proof (alookup_in _ _ _ Hg) as Hin. apply (Kal _ Hin).
      * subst ip. now apply B.
    + rewrite alookup_aset_ne by assumption. apply B.
  - intros m1 m2 l1 l2. destruct (N.eq_dec m1 (m_mac m)) as [->|Hn1]; destruct (N.eq_dec m2 (m_mac m)) as [->|Hn2]; auto.
    + rewrite alookup_aset_eq, alookup_aset_ne by assumption. intros H1 H2 He. inv H1. cbn in He.
      exfalso. apply (Hex m2 Hn2). left. eauto.
    + rewrite alookup_aset_eq, alookup_aset_ne by assumption. intros H1 H2 He. inv H2. cbn in He.
      exfalso. apply (Hex m1 Hn1). left. eauto.
    + rewrite !alookup_aset_ne by assumption. apply I.
Qed.

Lemma invh_reserve s m ip s' : invh s -> pool_reserve s m ip = Some s' -> invh s' /\ alookup m (alloc s') = Some ip.
Proof.
  intros (Hp & Hk & Hl) Hr. destruct (pool_reserve_inv _ _ _ _ Hp Hr) as (Hp' & Hm & El & _ & Eu & _ & Ho & _).
  split; [|assumption]. split; [assumption|]. split; [apply (pool_ok_reserve _ _ _ _ Hk Hr)|].
  eapply lease_h_mono; [| |exact Hl].
  - intros m' l. now rewrite El.
  - intros m' l H [Hb|Hb]; [|right; now rewrite Eu]. left. destruct (N.eq_dec m' m) as [->|Hn]; [|now rewrite Ho].
    unfold pool_reserve in Hr. rewrite Hb in Hr. destruct (l_ip l =? ip) eqn:E; [|discriminate]. apply N.eqb_eq in E. now rewrite E.
Qed.

(* a step of the local-pool code keeps the invariant when the circuit-index lookup does not fire *)
Lemma step_local s o : invh s -> fires s o = false -> invh (step4s c s o).
Proof.
  intros Hi Hq. unfold step4s. destruct (step4 c s o) as [[s' r] mk] eqn:Hs. cbn.
  destruct o as [m|m|m|m|m|d|ord]; cbn in Hs, Hq.
  - rewrite (existing_quiet s m Hq) in Hs. destruct (alookup (m_mac m) (leases s)) as [l|] eqn:El.
    + cbn [fst] in Hs. destruct (now s <? l_exp l); [inv Hs; assumption|].
      destruct (pool_alloc (m_mac m) (alloc s) (avail s)) as [[[ip a'] v']|] eqn:Ep; inv Hs; [|assumption].
      eapply invh_add_alloc; eauto.
    + destruct (pool_alloc (m_mac m) (alloc s) (avail s)) as [[[ip a'] v']|] eqn:Ep; inv Hs; [|assumption].
      eapply invh_add_alloc; eauto.
  - rewrite (existing_quiet s m Hq) in Hs. destruct (alookup (m_mac m) (leases s)) as [l|] eqn:El.
    + cbn [fst] in Hs. destruct (l_ip l =? requested m) eqn:Eq; inv Hs; [|assumption].
      apply N.eqb_eq in Eq. apply invh_do_ack; [assumption|]. right. right. eauto.
    + destruct (negb (contains4 c (requested m))); [inv Hs; assumption|].
      destruct (pool_reserve s (m_mac m) (requested m)) as [s1|] eqn:Er; inv Hs; [|assumption].
      destruct (invh_reserve _ _ _ _ Hi Er) as [Hi1 Ha]. apply invh_do_ack; [assumption|right; now left].
  - destruct (alookup (m_mac m) (leases s)) eqn:E; inv Hs; [|assumption]. now apply invh_release.
  - destruct (alookup (m_mac m) (leases s)) eqn:E; inv Hs; [|assumption]. now apply invh_decline.
  - inv Hs. assumption.
  - inv Hs. destruct Hi as (Hp & Hk & Hl). split; [eapply pool_inv_ext; [..|exact Hp]; reflexivity|].
    split; [eapply pool_ok_ext; [..|exact Hk]; reflexivity|]. eapply lease_h_mono; [| |exact Hl]; cbn; auto.
  - inv Hs. now apply invh_fold_expire.
Qed.

Lemma step_invh s oh : invh s -> firesh s oh = false -> oracle_ok oh -> invh (step4hs c s oh).
Proof.
  intros Hi Hq Ho. destruct oh as [o lk]. unfold firesh in Hq. cbn [fst] in Hq. unfold oracle_ok in Ho. cbn [fst snd] in Ho.
  pose proof (step_local s o Hi Hq) as Hloc. unfold step4s in Hloc. unfold step4hs, step4h.
  destruct o as [m|m|m|m|m|d|ord]; try exact Hloc.
  - destruct (match existing s m with Some e => now s <? l_exp (fst e) | None => false end); [exact Hloc|].
    destruct lk; [cbn; assumption|exact Hloc|exact Hloc].
  - destruct (existing s m) as [e|] eqn:Ee; [exact Hloc|]. destruct lk as [a| |]; [|exact Hloc|exact Hloc].
    destruct (a =? requested m) eqn:E; [|exact Hloc]. cbn. apply invh_do_ack; [assumption|]. left. exact Ho.
Qed.

(* where an OFFER/ACK value comes from: the allocator's answer in this message, or the local pool *)
Lemma reply_src s oh s' r mk v :
  pool_inv s -> firesh s oh = false -> step4h c s oh = (s', r, mk) -> reply_val r = Some v ->
  snd oh = LkHit v \/ grantable s (op_client (fst oh)) v.
Proof.
  intros Hp Hq Hs Hv. destruct oh as [o lk]. unfold firesh in Hq. cbn [fst snd] in *.
  assert (Hloc : step4 c s o = (s', r, mk) -> grantable s (op_client o) v) by (intro H; eapply reply_grantable_quiet; eauto).
  unfold step4h in Hs. destruct o as [m|m|m|m|m|d|ord]; try (right; now apply Hloc).
  - destruct (match existing s m with Some e => now s <? l_exp (fst e) | None => false end); [right; now apply Hloc|].
    destruct lk as [a| |]; [|right; now apply Hloc|right; now apply Hloc]. inv Hs. inv Hv. now left.
  - destruct (existing s m) as [e|]; [right; now apply Hloc|]. destruct lk as [a| |]; [|right; now apply Hloc|right; now apply Hloc].
    destruct (a =? requested m); [|right; now apply Hloc]. inv Hs. inv Hv. now left.
Qed.

Lemma init_invh : invh (init4 c).
Proof.
  split; [apply init_pool_inv|]. destruct (init_vals_ok c) as (H1 & H2 & _). split; [constructor; auto|].
  constructor; cbn; intros; discriminate.
Qed.

Lemma run_invh_from ops : forall s, invh s -> Forall oracle_ok ops -> quiet_fromh c s ops = true ->
  invh (fold_left (step4hs c) ops s).
Proof.
  induction ops as [|o tl IH]; intros s Hi Hf Hq; [assumption|]. inversion Hf as [|? ? Ho Htl]; subst.
  cbn in Hq. apply andb_true_iff in Hq. destruct Hq as [Hq1 Hq2]. apply negb_true_iff in Hq1. cbn.
  apply IH; auto. now apply step_invh.
Qed.
Lemma run_invh ops : Forall oracle_ok ops -> quiet4h c ops = true -> invh (run4h c ops).
Proof. intros Hf Hq. apply run_invh_from; auto. apply init_invh. Qed.

Lemma quiet_fromh_app a : forall s b,
  quiet_fromh c s (a ++ b) = quiet_fromh c s a && quiet_fromh c (fold_left (step4hs c) a s) b.
Proof. induction a as [|o tl IH]; intros s b; [reflexivity|]. cbn. rewrite IH. now rewrite andb_assoc. Qed.

Lemma split_last ops o :
  Forall oracle_ok (ops ++ [o]) -> quiet4h c (ops ++ [o]) = true ->
  invh (run4h c ops) /\ firesh (run4h c ops) o = false /\ oracle_ok o.
Proof.
  intros Hf Hq. apply Forall_app in Hf. destruct Hf as [Hf1 Hf2]. inversion Hf2; subst.
  unfold quiet4h in Hq. rewrite quiet_fromh_app in Hq. apply andb_true_iff in Hq. destruct Hq as [Hq1 Hq2].
  cbn in Hq2. rewrite andb_true_r in Hq2. apply negb_true_iff in Hq2.
  split; [now apply run_invh|]. split; assumption.
Qed.

Lemma a_sect ops o s' r mk v c' :
  Forall oracle_ok (ops ++ [o]) -> quiet4h c (ops ++ [o]) = true ->
  step4h c (run4h c ops) o = (s', r, mk) -> reply_val r = Some v -> c' <> op_client (fst o) ->
  ~ holds (run4h c ops) c' v.
Proof.
  intros Hf Hq Hs Hv Hn. destruct (split_last _ _ Hf Hq) as (Hi & Hfi & Ho).
  eapply excl_h; eauto. destruct (reply_src _ _ _ _ _ _ (proj1 Hi) Hfi Hs Hv) as [Hk|Hg]; [|now right].
  left. unfold oracle_ok in Ho. now rewrite Hk in Ho.
Qed.

Lemma b_sect ops m1 m2 l1 l2 :
  Forall oracle_ok ops -> quiet4h c ops = true ->
  alookup m1 (leases (run4h c ops)) = Some l1 -> alookup m2 (leases (run4h c ops)) = Some l2 ->
  l_ip l1 = l_ip l2 -> m1 = m2.
Proof. intros Hf Hq. destruct (run_invh ops Hf Hq) as (_ & _ & [_ I]). apply I. Qed.

Lemma c_sect ops o s' r mk v :
  Forall oracle_ok (ops ++ [o]) -> quiet4h c (ops ++ [o]) = true ->
  step4h c (run4h c ops) o = (s', r, mk) -> reply_val r = Some v ->
  usable4 c v = true \/ snd o = LkHit v \/ A (op_client (fst o)) v.
Proof.
  intros Hf Hq Hs Hv. destruct (split_last _ _ Hf Hq) as (Hi & Hfi & Ho). pose proof Hi as (Hp & [Kav Kal] & [B I]).
  destruct (reply_src _ _ _ _ _ _ Hp Hfi Hs Hv) as [Hk|[Hg|[Hg|[l [Hl Hx]]]]].
  - right. now left.
  - left. pose proof (alookup_in _ _ _ Hg) as Hin. apply (Kal _ Hin).
  - left. auto.
  - subst v. destruct (B _ _ Hl) as [Ha|[Hu _]]; [right; now right|now left].
Qed.

(* (e), what remains true: an address that is marked unavailable and that no lease holds can only
   come back through the allocator's answer (the local paths never hand it out) *)
Lemma e_sect ops o s' r mk v :
  Forall oracle_ok (ops ++ [o]) -> quiet4h c (ops ++ [o]) = true ->
  step4h c (run4h c ops) o = (s', r, mk) -> reply_val r = Some v ->
  In v (unavail (run4h c ops)) -> (forall m l, alookup m (leases (run4h c ops)) = Some l -> l_ip l <> v) ->
  snd o = LkHit v.
Proof.
  intros Hf Hq Hs Hv Hu Hnl. destruct (split_last _ _ Hf Hq) as (Hi & Hfi & Ho). pose proof Hi as (Hp & _ & _).
  pose proof Hp as [_ _ _ _ P4]. destruct (P4 v Hu) as [Q1 Q2].
  destruct (reply_src _ _ _ _ _ _ Hp Hfi Hs Hv) as [Hk|[Hg|[Hg|[l [Hl Hx]]]]]; [assumption|exfalso..].
  - apply Q2. eapply lookup_in_vals; eauto.
  - auto.
  - apply (Hnl _ _ Hl Hx).
Qed.
End Alloc.

(* ---------- the decidable oracle guards ---------- *)
Definition op_hit (oh : op4h) : option (N * N) :=
  match snd oh with LkHit a => Some (op_client (fst oh), a) | _ => None end.
Definition oracle_inj (ops : list op4h) : bool :=
  forallb (fun o1 => forallb (fun o2 =>
     match op_hit o1, op_hit o2 with
     | Some (m1, a1), Some (m2, a2) => negb (a1 =? a2) || (m1 =? m2)
     | _, _ => true
     end) ops) ops.
Definition oracle_ext (c : cfg4) (ops : list op4h) : bool :=
  forallb (fun o => match op_hit o with Some (_, a) => negb (usable4 c a) | None => true end) ops.

Definition hit_of (ops : list op4h) (m a : N) : Prop := exists o, In o ops /\ op_hit o = Some (m, a).

Lemma hit_inj ops : oracle_inj ops = true -> forall m m' a, hit_of ops m a -> hit_of ops m' a -> m = m'.
Proof.
  intros H m m' a (o1 & I1 & H1) (o2 & I2 & H2). unfold oracle_inj in H.
  rewrite forallb_forall in H. specialize (H _ I1). rewrite forallb_forall in H. specialize (H _ I2).
  rewrite H1, H2 in H. apply orb_true_iff in H. destruct H as [H|H]; [|now apply N.eqb_eq in H].
  rewrite N.eqb_refl in H. discriminate.
Qed.
Lemma hit_ext c ops : oracle_ext c ops = true -> forall m a, hit_of ops m a -> usable4 c a = false.
Proof.
  intros H m a (o & I & Ho). unfold oracle_ext in H. rewrite forallb_forall in H. specialize (H _ I).
  rewrite Ho in H. now apply negb_true_iff in H.
Qed.
Lemma hit_all ops : Forall (oracle_ok (hit_of ops)) ops.
Proof.
  apply Forall_forall. intros o Ho. unfold oracle_ok. destruct (snd o) as [a| |] eqn:E; [|exact I|exact I].
  exists o. split; [assumption|]. unfold op_hit. now rewrite E.
Qed.

Definition guardh (c : cfg4) (ops : list op4h) : bool := oracle_inj ops && oracle_ext c ops && quiet4h c ops.

Lemma guardh_split c ops : guardh c ops = true -> oracle_inj ops = true /\ oracle_ext c ops = true /\ quiet4h c ops = true.
Proof. unfold guardh. intro H. apply andb_true_iff in H. destruct H as [H H3]. apply andb_true_iff in H. tauto. Qed.

Lemma v4h_a_partial c ops o s' r mk v c' :
  guardh c (ops ++ [o]) = true ->
  step4h c (run4h c ops) o = (s', r, mk) -> reply_val r = Some v -> c' <> op_client (fst o) ->
  ~ holds (run4h c ops) c' v.
Proof.
  intro Hg. destruct (guardh_split _ _ Hg) as (H1 & H2 & H3).
  apply (a_sect c (hit_of (ops ++ [o])) (hit_inj _ H1) (hit_ext _ _ H2) ops o s' r mk v c' (hit_all _) H3).
Qed.

Lemma v4h_b_partial c ops m1 m2 l1 l2 :
  guardh c ops = true ->
  alookup m1 (leases (run4h c ops)) = Some l1 -> alookup m2 (leases (run4h c ops)) = Some l2 ->
  l_ip l1 = l_ip l2 -> m1 = m2.
Proof.
  intro Hg. destruct (guardh_split _ _ Hg) as (H1 & H2 & H3).
  apply (b_sect c (hit_of ops) (hit_inj _ H1) (hit_ext _ _ H2) ops m1 m2 l1 l2 (hit_all _) H3).
Qed.

(* (c): a value is an assignable address of the local pool, or an address the allocator named for
   that client (in this message or in an earlier one of the history) *)
Lemma v4h_c_partial c ops o s' r mk v :
  guardh c (ops ++ [o]) = true ->
  step4h c (run4h c ops) o = (s', r, mk) -> reply_val r = Some v ->
  usable4 c v = true \/ hit_of (ops ++ [o]) (op_client (fst o)) v.
Proof.
  intros Hg Hs Hv. destruct (guardh_split _ _ Hg) as (H1 & H2 & H3).
  destruct (c_sect c (hit_of (ops ++ [o])) (hit_inj _ H1) (hit_ext _ _ H2) ops o s' r mk v (hit_all _) H3 Hs Hv) as [H|[H|H]]; auto.
  right. exists o. split; [apply in_or_app; right; now left|]. unfold op_hit. now rewrite H.
Qed.

Lemma v4h_e_partial c ops o s' r mk v :
  guardh c (ops ++ [o]) = true ->
  step4h c (run4h c ops) o = (s', r, mk) -> reply_val r = Some v ->
  In v (unavail (run4h c ops)) -> (forall m l, alookup m (leases (run4h c ops)) = Some l -> l_ip l <> v) ->
  snd o = LkHit v.
Proof.
  intros Hg. destruct (guardh_split _ _ Hg) as (H1 & H2 & H3).
  apply (e_sect c (hit_of (ops ++ [o])) (hit_inj _ H1) (hit_ext _ _ H2) ops o s' r mk v (hit_all _) H3).
Qed.

(* ---------- witnesses ---------- *)
Definition nx1 : N := 174260225.    (* 10.99.0.1, outside w_cfg's /30 *)
Definition w_h : list op4h :=
  [(Discover (w_m 1 None false 0), LkHit nx1); (Request (w_m 1 (Some nx1) false 0), LkHit nx1);
   (Discover (w_m 2 None false 0), LkMiss); (Request (w_m 2 (Some 167773953) false 0), LkMiss);
   (Request (w_m 2 (Some nx1) false 0), LkHit (nx1 + 1)); (Request (w_m 3 (Some 167774465) false 0), LkHit (nx1 + 2))].

(* non-vacuity: the guard holds on a history with hits, misses, a REQUEST for another client's
   allocator address and for the gateway (both NAKed); client 1 holds the allocator's address *)
Example guardh_satisfiable :
  guardh w_cfg w_h = true /\
  (exists l, alookup 1 (leases (run4h w_cfg w_h)) = Some l /\ l_ip l = nx1) /\
  (exists l, alookup 2 (leases (run4h w_cfg w_h)) = Some l /\ l_ip l = 167773953) /\
  alookup 3 (leases (run4h w_cfg w_h)) = None.
Proof. split; [vm_compute; reflexivity|]. split; [eexists; split; vm_compute; reflexivity|]. split; [eexists; split; vm_compute; reflexivity|vm_compute; reflexivity]. Qed.

(* an allocator that names one address for two MACs: two leases on it ((a) and (b) need oracle_inj) *)
Lemma v4h_a_refuted_bad_oracle : exists c ops o s' r mk v c',
  oracle_inj (ops ++ [o]) = false /\ oracle_ext c (ops ++ [o]) = true /\ quiet4h c (ops ++ [o]) = true /\
  step4h c (run4h c ops) o = (s', r, mk) /\ reply_val r = Some v /\ c' <> op_client (fst o) /\ holds (run4h c ops) c' v.
Proof.
  exists w_cfg, [(Request (w_m 1 (Some nx1) false 0), LkHit nx1)], (Request (w_m 2 (Some nx1) false 0), LkHit nx1).
  eexists _, _, _, nx1, 1. split; [reflexivity|]. split; [reflexivity|]. split; [vm_compute; reflexivity|].
  split; [vm_compute; reflexivity|]. split; [reflexivity|]. split; [discriminate|]. left. eexists. split; vm_compute; reflexivity.
Qed.

(* K02d: the holder declines the allocator's address; the next lookup hit offers it again (marker 0203) *)
Lemma v4h_e_refuted : exists c ops1 m l o s' r mk,
  guardh c (ops1 ++ [(Decline m, LkMiss); o]) = true /\
  alookup (m_mac m) (leases (run4h c ops1)) = Some l /\ m_req m = Some (l_ip l) /\
  step4h c (run4h c (ops1 ++ [(Decline m, LkMiss)])) o = (s', r, mk) /\ reply_val r = Some (l_ip l) /\ mk = [203].
Proof.
  exists w_cfg, [(Request (w_m 1 (Some nx1) false 0), LkHit nx1)], (w_m 1 (Some nx1) false 0).
  eexists _, (Discover (w_m 1 None false 0), LkHit nx1), _, _, _.
  split; [vm_compute; reflexivity|]. split; [vm_compute; reflexivity|]. split; [reflexivity|].
  split; [vm_compute; reflexivity|]. split; reflexivity.
Qed.
