(* C09 — proofs about Model/CodecLcp.v, CodecAuth.v, CodecDhcp6.v, CodecMisc.v and the dispatcher
   of Model/CodecCheck.v: no Panic, no Hang for every input, linear step bounds. *)
From Coq Require Import ZArith NArith List Lia ZifyN ZifyNat ZifyBool Bool.
From Verif Require Import Model.CodecBase Model.CodecPPPoE Model.CodecLcp Model.CodecAuth Model.CodecDhcp6
  Model.CodecMisc Model.CodecGlue Model.CodecSpec Model.CodecCheck Proofs.CodecBaseProofs Proofs.CodecPPPoEProofs.
Import ListNotations.
Local Open Scope N_scope.

(* ---- automata *)
Lemma opt_reads_safe kind r : safe (opt_reads kind r).
Proof.
  unfold opt_reads. destruct r as [|ty [|ln v]]; try apply safe_ok.
  repeat match goal with
  | |- safe (if ?c then _ else _) => let E := fresh "E" in destruct c eqn:E
  | |- safe (Ok _) => apply safe_ok
  end; safe_go.
Qed.

Lemma all_reads_safe kind rs : safe (all_reads kind rs).
Proof.
  induction rs as [|r tl IH]; cbn [all_reads]; [apply safe_ok|].
  apply safe_bind; [apply opt_reads_safe|intros; assumption].
Qed.

Lemma opts_then_reads_safe strict kind data : safe (opts_then_reads strict kind data).
Proof.
  unfold opts_then_reads. pose proof (parse_lcp_options_safe data) as [H1 H2].
  destruct (parse_lcp_options data); try congruence.
  - apply safe_bind; [apply all_reads_safe|intros; apply safe_ok].
  - destruct strict; [apply safe_err|apply safe_ok].
Qed.

Ltac branches :=
  repeat match goal with
  | |- safe (if ?c then _ else _) => let E := fresh "E" in destruct c eqn:E
  | |- safe (Ok _) => apply safe_ok
  | |- safe Err => apply safe_err
  | |- safe (opts_then_reads _ _ _) => apply opts_then_reads_safe
  end.

Lemma lcp_receive_safe state last d : safe (lcp_receive state last d).
Proof.
  unfold lcp_receive. apply safe_bind; [apply parse_lcp_packet_safe|].
  intros [[[c i] l] data] Hp. pose proof (parse_lcp_packet_len _ _ _ _ _ Hp) as [_ _].
  branches; safe_go.
Qed.

Lemma ipcp_receive_safe state last d : safe (ipcp_receive state last d).
Proof.
  unfold ipcp_receive. apply safe_bind; [apply parse_lcp_packet_safe|].
  intros [[[c i] l] data] _. branches.
Qed.

Lemma ip6cp_receive_safe state last d : safe (ip6cp_receive state last d).
Proof.
  unfold ip6cp_receive. apply safe_bind; [apply parse_lcp_packet_safe|].
  intros [[[c i] l] data] _. branches.
Qed.

(* ---- PAP / CHAP *)
Lemma pap_receive_safe d : safe (pap_receive d).
Proof. unfold pap_receive. safe_go. Qed.

Lemma chap_receive_safe id d : safe (chap_receive id d).
Proof. unfold chap_receive. safe_go. Qed.

Lemma auth_receive_safe proto id d : safe (auth_receive proto id d).
Proof.
  unfold auth_receive. destruct (proto =? 49187); [apply pap_receive_safe|].
  destruct (proto =? 49699); [apply chap_receive_safe|apply safe_err].
Qed.

(* ---- DHCPv6 *)
Lemma d6_options_safe d : safe (d6_options d).
Proof. apply tlv16_safe. Qed.

Lemma opts_after_safe d k : safe (opts_after d k).
Proof.
  unfold opts_after. destruct (k <? lenN d) eqn:E; [|apply safe_ok].
  safe_go. apply d6_options_safe.
Qed.

Lemma d6_message_safe d : safe (d6_message d).
Proof.
  unfold d6_message. safe_go.
  apply safe_bind; [apply d6_options_safe|intros; apply safe_ok].
Qed.

Lemma d6_ia_safe d : safe (d6_ia d).
Proof.
  unfold d6_ia. safe_go. apply safe_bind; [apply opts_after_safe|intros; apply safe_ok].
Qed.

Lemma d6_iaaddr_safe d : safe (d6_iaaddr d).
Proof.
  unfold d6_iaaddr. safe_go. apply safe_bind; [apply opts_after_safe|intros; apply safe_ok].
Qed.

Lemma d6_iaprefix_safe d : safe (d6_iaprefix d).
Proof.
  unfold d6_iaprefix. safe_go. apply safe_bind; [apply opts_after_safe|intros; apply safe_ok].
Qed.

Lemma d6_duid_safe d : safe (d6_duid d).
Proof. unfold d6_duid. safe_go. Qed.

Lemma soft_safe r : safe r -> safe (soft r).
Proof. unfold soft. destruct r; intros [H1 H2]; try congruence; try apply safe_ok. Qed.

Lemma walk_ias_safe os : safe (walk_ias os).
Proof.
  induction os as [|r tl IH]; cbn [walk_ias]; [apply safe_ok|].
  destruct r as [|code [|ln v]]; try assumption.
  apply safe_bind; [|intros; assumption].
  destruct ((code =? 3) || (code =? 25)); [apply soft_safe, d6_ia_safe|apply safe_ok].
Qed.

Lemma walk_addrs_safe os : safe (walk_addrs os).
Proof.
  induction os as [|r tl IH]; cbn [walk_addrs]; [apply safe_ok|].
  destruct r as [|code [|ln v]]; try assumption.
  apply safe_bind; [|intros; assumption].
  destruct (code =? 5); [apply soft_safe, d6_iaaddr_safe|apply safe_ok].
Qed.

Lemma walk_confirm_safe os : safe (walk_confirm os).
Proof.
  induction os as [|r tl IH]; cbn [walk_confirm]; [apply safe_ok|].
  destruct r as [|code [|ln v]]; try assumption.
  apply safe_bind; [|intros; assumption].
  destruct (code =? 3); [|apply safe_ok].
  pose proof (d6_ia_safe v) as [H1 H2].
  destruct (d6_ia v) as [[|h inner]| | |]; try congruence; try apply safe_ok.
  apply walk_addrs_safe.
Qed.

Lemma d6_handle_safe sd d : safe (d6_handle sd d).
Proof.
  unfold d6_handle. apply safe_bind; [apply d6_message_safe|].
  intros m _. destruct m as [|[|ty r] os]; try apply safe_ok.
  destruct (find_opt os 1); [|apply safe_ok].
  destruct (ty =? 1); [apply safe_bind; [apply walk_ias_safe|intros; apply safe_ok]|].
  destruct (ty =? 3).
  - destruct (find_opt os 2) as [sdat|]; [|apply safe_ok].
    destruct (lenN sdat <? 2) eqn:E; [apply safe_ok|].
    safe_go. apply safe_bind; [apply walk_ias_safe|intros; apply safe_ok].
  - destruct (ty =? 4); [apply safe_bind; [apply walk_confirm_safe|intros; apply safe_ok]|].
    repeat match goal with |- safe (if ?c then _ else _) => destruct c | |- safe (Ok _) => apply safe_ok end.
Qed.

(* ---- option 82, option 43 *)
Lemma opt82_loop_safe fuel d : forall off cid rid steps,
  lenN d < off + 2 * N.of_nat fuel + 1 ->
  safe (fst (opt82_loop fuel d off cid rid steps)).
Proof.
  induction fuel as [|f IH]; intros off cid rid steps Hf; cbn [opt82_loop].
  - destruct (off <? lenN d) eqn:E; [lia|apply safe_ok].
  - destruct (off <? lenN d) eqn:E; [|apply safe_ok].
    destruct (lenN d <? off + 2) eqn:E1; [apply safe_ok|].
    destruct (idx_ok d off) as [ty Hty]; [lia|]. destruct (idx_ok d (off + 1)) as [ln Hln]; [lia|].
    rewrite Hty, Hln.
    destruct (lenN d <? off + 2 + ln) eqn:E2; [apply safe_ok|].
    destruct (sub0_ok d (off + 2) (off + 2 + ln)) as [v [Hv _]]; [lia|lia|]. rewrite Hv.
    apply IH. lia.
Qed.

Lemma parse_option82_safe d : safe (parse_option82 d).
Proof.
  unfold parse_option82, opt82. destruct (lenN d =? 0); [apply safe_ok|].
  apply opt82_loop_safe. unfold lenN. lia.
Qed.

Lemma opt82_loop_steps fuel d : forall off cid rid steps,
  off <= lenN d + 2 ->
  2 * snd (opt82_loop fuel d off cid rid steps) + off <= 2 * steps + lenN d + 2.
Proof.
  induction fuel as [|f IH]; intros off cid rid steps Ho; cbn [opt82_loop].
  - destruct (off <? lenN d); cbn [snd]; lia.
  - destruct (off <? lenN d) eqn:E; [|cbn [snd]; lia].
    destruct (lenN d <? off + 2) eqn:E1; [cbn [snd]; lia|].
    destruct (idx d off); try (cbn [snd]; lia).
    destruct (idx d (off + 1)); try (cbn [snd]; lia).
    destruct (lenN d <? off + 2 + a0) eqn:E2; [cbn [snd]; lia|].
    destruct (sub0 d (off + 2) (off + 2 + a0)); try (cbn [snd]; lia).
    match goal with |- context [opt82_loop f d ?o ?c ?r ?s] => specialize (IH o c r s) end. lia.
Qed.

Lemma opt82_steps d : 2 * snd (opt82 d) <= lenN d + 2.
Proof.
  unfold opt82. destruct (lenN d =? 0); [cbn [snd]; lia|].
  pose proof (opt82_loop_steps (S (length d)) d 0 [] [] 0). lia.
Qed.

Lemma vendor_loop_safe fuel d : forall i steps,
  lenN d < i + 2 * N.of_nat fuel + 2 ->
  safe (fst (vendor_loop fuel d i steps)).
Proof.
  induction fuel as [|f IH]; intros i steps Hf; cbn [vendor_loop].
  - destruct (i + 2 <=? lenN d) eqn:E; [lia|apply safe_ok].
  - destruct (i + 2 <=? lenN d) eqn:E; [|apply safe_ok].
    destruct (idx_ok d i) as [ty Hty]; [lia|]. destruct (idx_ok d (i + 1)) as [ln Hln]; [lia|].
    rewrite Hty, Hln.
    destruct (lenN d <? i + 2 + ln) eqn:E2; [apply safe_ok|].
    destruct (ty =? 1).
    + destruct (sub0_ok d (i + 2) (i + 2 + ln)) as [v [Hv _]]; [lia|lia|]. rewrite Hv. apply safe_ok.
    + apply IH. lia.
Qed.

Lemma parse_vendor_safe d : safe (parse_vendor d).
Proof. apply vendor_loop_safe. unfold lenN. lia. Qed.

Lemma vendor_loop_steps fuel d : forall i steps,
  i <= lenN d + 2 -> 2 * snd (vendor_loop fuel d i steps) + i <= 2 * steps + lenN d + 2.
Proof.
  induction fuel as [|f IH]; intros i steps Ho; cbn [vendor_loop].
  - destruct (i + 2 <=? lenN d); cbn [snd]; lia.
  - destruct (i + 2 <=? lenN d) eqn:E; [|cbn [snd]; lia].
    destruct (idx d i); try (cbn [snd]; lia).
    destruct (idx d (i + 1)); try (cbn [snd]; lia).
    destruct (lenN d <? i + 2 + a0) eqn:E2; [cbn [snd]; lia|].
    destruct (a =? 1).
    + destruct (sub0 d (i + 2) (i + 2 + a0)); cbn [snd]; lia.
    + specialize (IH (i + 2 + a0) (steps + 1)). lia.
Qed.

Lemma vendor_steps d : 2 * snd (vendor d) <= lenN d + 2.
Proof. pose proof (vendor_loop_steps (S (length d)) d 0 0). unfold vendor. lia. Qed.

(* ---- SSE reader *)
Lemma has_prefix_len s p : has_prefix s p = true -> lenN p <= lenN s.
Proof.
  revert s. induction p as [|x p IH]; intros s H; [rewrite lenN_nil; lia|].
  destruct s as [|y s]; [discriminate|]. cbn in H. apply andb_true_iff in H. destruct H as [_ H].
  apply IH in H. rewrite !lenN_cons. lia.
Qed.

Lemma data_line_long l : has_prefix (l ++ [10]) data_prefix = true -> 7 <= lenN (l ++ [10]).
Proof.
  intros H. rewrite lenN_app. change (lenN [10]) with 1. unfold data_prefix in H.
  destruct l as [|a [|b [|c [|d [|e [|f l']]]]]]; try (rewrite !lenN_cons; lia);
    exfalso; cbn in H;
    repeat (apply andb_true_iff in H; let H1 := fresh in destruct H as [H1 H]; try discriminate H1);
    try discriminate H.
Qed.

Lemma sse_loop_safe s : forall cur acc, safe (sse_loop s cur acc).
Proof.
  induction s as [|b tl IH]; intros cur acc; cbn [sse_loop]; [apply safe_ok|].
  destruct (b =? 10) eqn:E; [|apply IH].
  apply N.eqb_eq in E. subst b.
  destruct (has_prefix (rev (10 :: cur)) data_prefix) eqn:Hp; [|apply IH].
  cbn [rev] in *. apply data_line_long in Hp.
  destruct (sub0_ok (rev cur ++ [10]) 6 (lenN (rev cur ++ [10]) - 1)) as [v [Hv _]]; [lia|lia|].
  rewrite Hv. apply IH.
Qed.

Lemma sse_count_safe s : safe (sse_count s).
Proof.
  unfold sse_count, sse_payloads. apply safe_bind; [apply sse_loop_safe|intros; apply safe_ok].
Qed.

Lemma alg_pass_safe m d : safe (alg_pass m d).
Proof. unfold alg_pass. destruct (m =? 0); apply safe_ok. Qed.

(* ---- handler glue (Model/CodecGlue.v): nil pointers, lease state, Ethernet framing *)
Lemma as_ptr_safe r : safe r -> safe (as_ptr r).
Proof. unfold as_ptr. destruct r; intros [H1 H2]; try congruence; split; discriminate. Qed.

Lemma deref_some {A} (p : option A) a : p = Some a -> deref p = Ok a.
Proof. intros ->. reflexivity. Qed.

Lemma build_msg_safe os : safe (build_msg os).
Proof.
  unfold build_msg. destruct (find_opt os 1); [|apply safe_ok].
  apply safe_bind; [apply walk_ias_safe|intros; apply safe_ok].
Qed.

(* buildAdvertise / buildReply return a non-nil message whenever the Client Identifier is present *)
Lemma build_msg_some os c r : find_opt os 1 = Some c -> build_msg os = Ok r -> r = Some tt.
Proof.
  unfold build_msg. intros ->. destruct (walk_ias os) as [[]| | |]; cbn; intros H; inversion H; reflexivity.
Qed.

(* the lease pointer is non-nil exactly when the map lookup reported a hit *)
Definition lease_ok (has : bool) (lease : option lease_t) : Prop := has = true -> exists l, lease = Some l.

Lemma walk_addrs2_safe has lease os : lease_ok has lease -> safe (walk_addrs2 has lease os).
Proof.
  intros Hl. induction os as [|r tl IH]; cbn [walk_addrs2]; [apply safe_ok|].
  destruct r as [|code [|ln v]]; try assumption.
  apply safe_bind; [|intros; assumption].
  destruct (code =? 5); [|apply safe_ok].
  pose proof (d6_iaaddr_safe v) as [H1 H2].
  destruct (d6_iaaddr v); try congruence; try apply safe_ok.
  destruct has; [|apply safe_ok].
  destruct (Hl eq_refl) as [l ->]. cbn. apply safe_ok.
Qed.

Lemma walk_confirm2_safe has lease os : lease_ok has lease -> safe (walk_confirm2 has lease os).
Proof.
  intros Hl. induction os as [|r tl IH]; cbn [walk_confirm2]; [apply safe_ok|].
  destruct r as [|code [|ln v]]; try assumption.
  apply safe_bind; [|intros; assumption].
  destruct (code =? 3); [|apply safe_ok].
  pose proof (d6_ia_safe v) as [H1 H2].
  destruct (d6_ia v) as [[|h inner]| | |]; try congruence; try apply safe_ok.
  apply walk_addrs2_safe; assumption.
Qed.

Lemma d6_handle_st_safe hit la lp nl sd prep d : safe (d6_handle_st hit la lp nl sd prep d).
Proof.
  unfold d6_handle_st. apply safe_bind; [apply d6_message_safe|].
  intros m _. destruct m as [|[|ty r] os]; try apply safe_ok.
  destruct (find_opt os 1) as [cid|] eqn:Ecid; [|apply safe_ok].
  set (has := hit && bytes_eqb cid prep).
  assert (Hl : lease_ok has (if has then Some (la, lp) else None)).
  { intros H. rewrite H. eauto. }
  destruct (ty =? 1).
  { destruct (find_opt os 14).
    - apply safe_bind; [apply build_msg_safe|]. intros r0 Hr.
      rewrite (build_msg_some _ _ _ Ecid Hr). cbn. apply safe_ok.
    - apply safe_bind; [apply build_msg_safe|]. intros [|] _; apply safe_ok. }
  destruct (ty =? 3).
  { destruct (find_opt os 2) as [sdat|]; [|apply safe_ok].
    apply safe_bind; [apply as_ptr_safe, d6_duid_safe|].
    intros [x|] _; [|apply safe_ok]. cbn [deref bind].
    destruct (bytes_eqb sdat sd); [|apply safe_ok].
    apply safe_bind; [apply build_msg_safe|]. intros [|] _; apply safe_ok. }
  destruct (ty =? 4).
  { apply safe_bind; [apply walk_confirm2_safe; assumption|intros; apply safe_ok]. }
  destruct ((ty =? 5) || (ty =? 6)).
  { destruct has; [|apply safe_ok]. cbn [deref bind].
    apply safe_bind; [apply build_msg_safe|]. intros [|] _; apply safe_ok. }
  destruct ((ty =? 8) || (ty =? 9)).
  { destruct has; [cbn; apply safe_ok|apply safe_ok]. }
  destruct (ty =? 11); apply safe_ok.
Qed.

Lemma d6_handle_p_safe p d : safe (d6_handle_p p d).
Proof. unfold d6_handle_p. apply d6_handle_st_safe. Qed.

Lemma not_owner_view_safe count dsc pt r : safe r -> safe (not_owner_view count dsc pt r).
Proof.
  unfold not_owner_view. destruct r; intros [H1 H2]; try congruence; try apply safe_err.
  destruct (dsc && negb pt); apply safe_ok.
Qed.

Lemma recv_frame_safe sid au frame tail : safe (recv_frame sid au frame tail).
Proof.
  unfold recv_frame. destruct (lenN frame <? 14) eqn:E; [apply safe_ok|].
  safe_go.
  - apply handle_discovery_safe.
  - apply not_owner_view_safe, handle_discovery_safe.
  - apply handle_session_safe.
  - apply not_owner_view_safe, handle_session_safe.
Qed.

(* the receive loop hands the handlers only bytes of the received frame: the stale bytes behind
   it in the 1522-byte receive buffer never influence the result *)
Lemma recv_frame_no_overread sid au frame tail : recv_frame sid au frame tail = recv_frame sid au frame [].
Proof.
  unfold recv_frame. destruct (lenN frame <? 14) eqn:E; [reflexivity|].
  rewrite (sub_tail_irrel frame tail 0 6) by lia. rewrite (sub_tail_irrel frame [] 0 6) by lia.
  rewrite (sub_tail_irrel frame tail 6 12) by lia. rewrite (sub_tail_irrel frame [] 6 12) by lia.
  rewrite (sub_tail_irrel frame tail 14 (lenN frame)) by lia.
  rewrite (sub_tail_irrel frame [] 14 (lenN frame)) by lia.
  destruct (sub0 frame 0 6); cbn [bind]; try reflexivity.
  destruct (sub0 frame 6 12); cbn [bind]; try reflexivity.
  destruct (be16 frame 12); cbn [bind]; try reflexivity.
  destruct (negb (bytes_eqb a bcast_mac) && negb (bytes_eqb a server_mac)); [reflexivity|].
  destruct (sub0 frame 14 (lenN frame)); cbn [bind]; try reflexivity.
  destruct (a1 =? 34915); [rewrite handle_discovery_no_overread; reflexivity|].
  destruct (a1 =? 34916); [rewrite handle_session_no_overread; reflexivity|reflexivity].
Qed.

(* ---- the dispatcher: every entry point except the session-id allocator (which has its own
   theorem under the table well-formedness hypothesis) *)
Lemma call_safe e p d tail : e <> 9 -> e <> 14 -> safe (call e p d tail).
Proof.
  intros He He14. unfold call.
  destruct (e =? 1). { apply safe_bind; [apply parse_header_safe|intros [[[v c] s] l] _; apply safe_ok]. }
  destruct (e =? 2). { apply parse_tags_safe. }
  destruct (e =? 3). { apply safe_bind; [apply parse_lcp_packet_safe|intros [[[c i] l] v] _; apply safe_ok]. }
  destruct (e =? 4). { apply parse_lcp_options_safe. }
  destruct (e =? 5). { apply parse_padt_safe. }
  destruct (e =? 6). { apply parse_echo_safe. }
  destruct (e =? 7). { apply handle_discovery_safe. }
  destruct (e =? 8). { apply handle_session_safe. }
  destruct (e =? 9) eqn:E9. { apply N.eqb_eq in E9. contradiction. }
  destruct (e =? 10). { apply lcp_receive_safe. }
  destruct (e =? 11). { apply ipcp_receive_safe. }
  destruct (e =? 12). { apply ip6cp_receive_safe. }
  destruct (e =? 13). { apply auth_receive_safe. }
  destruct (e =? 14) eqn:E14. { apply N.eqb_eq in E14. contradiction. }
  destruct (e =? 15). { apply recv_frame_safe. }
  destruct (e =? 20). { apply d6_message_safe. }
  destruct (e =? 21). { apply d6_options_safe. }
  destruct ((e =? 22) || (e =? 23)). { apply d6_ia_safe. }
  destruct (e =? 24). { apply d6_iaaddr_safe. }
  destruct (e =? 25). { apply d6_iaprefix_safe. }
  destruct (e =? 26). { apply d6_duid_safe. }
  destruct (e =? 27). { apply d6_handle_safe. }
  destruct (e =? 28). { apply d6_handle_p_safe. }
  destruct (e =? 30). { apply parse_option82_safe. }
  destruct (e =? 31). { apply parse_vendor_safe. }
  destruct (e =? 32). { apply sse_count_safe. }
  destruct ((e =? 33) || (e =? 34) || (e =? 35)). { apply alg_pass_safe. }
  apply safe_err.
Qed.

(* refinement: the Spec acceptor accepts every outcome the Model produces for a single call *)
Lemma model_call_accepted e p d tail : e <> 9 -> e <> 14 ->
  accept tt (Call e p d tail) (run_op (Call e p d tail)) = inl tt.
Proof.
  intros He He14. cbn [run_op]. destruct (call_safe e p d tail He He14) as [H1 H2].
  destruct (call e p d tail); cbn; try congruence; reflexivity.
Qed.

Lemma model_create_accepted p :
  table_wf (used_of p) (count_of p) -> pnth p 1 <= 65535 ->
  accept tt (Call 9 p [] []) (run_op (Call 9 p [] [])) = inl tt.
Proof.
  intros Hwf Hn. cbn [run_op]. unfold call. cbn [N.eqb Pos.eqb].
  destruct (create_session_safe _ _ _ Hwf Hn) as [H1 H2].
  destruct (create_session (used_of p) (count_of p) (pnth p 1)); cbn; try congruence; reflexivity.
Qed.
