(* Lemmas for C04 over Model/PPPoESrv.v (the code with the three repairs) and the monitor. *)
From Coq Require Import NArith List Bool Lia ZifyN ZifyNat ZifyBool.
From Verif Require Import Base.Word Base.Check Model.PPPoESrv Model.PPPoESrvSpec Model.PPPoESrvCheck.
Import ListNotations.
Local Open Scope N_scope.

(* ------------------------------------------------------------------ table library *)
Lemma find_sess_some l id s : find_sess l id = Some s -> In s l /\ s_id s = id.
Proof.
  unfold find_sess. intros H. apply find_some in H. destruct H as [H1 H2]. apply N.eqb_eq in H2. auto.
Qed.

Lemma nodup_id_inj l a b : NoDup (map s_id l) -> In a l -> In b l -> s_id a = s_id b -> a = b.
Proof.
  induction l as [|x l IH]; cbn; [tauto|]. intros ND Ha Hb E. inversion ND as [|? ? Hn ND']; subst.
  destruct Ha as [->|Ha], Hb as [->|Hb]; auto.
  - exfalso. apply Hn. rewrite E. apply in_map. exact Hb.
  - exfalso. apply Hn. rewrite <- E. apply in_map. exact Ha.
Qed.

Lemma in_insert s' l x : In x (insert_sess s' l) <-> x = s' \/ In x l.
Proof.
  induction l as [|y l IH]; cbn; [intuition|]. destruct (s_id s' <? s_id y); cbn; rewrite ?IH; intuition.
Qed.

Lemma ids_insert s' l : forall i, In i (map s_id (insert_sess s' l)) <-> i = s_id s' \/ In i (map s_id l).
Proof.
  intros i. rewrite !in_map_iff. split.
  - intros [x [E H]]. apply in_insert in H. destruct H as [->|H]; [left; auto|right; eauto].
  - intros [->|[x [E H]]]; [exists s'|exists x]; rewrite in_insert; auto.
Qed.

Lemma nodup_insert s' l : NoDup (map s_id l) -> ~ In (s_id s') (map s_id l) -> NoDup (map s_id (insert_sess s' l)).
Proof.
  induction l as [|y l IH]; cbn; intros ND Hn.
  - constructor; [tauto|constructor].
  - destruct (s_id s' <? s_id y); cbn.
    + constructor; [cbn; tauto|exact ND].
    + inversion ND as [|? ? Hy ND']; subst. constructor.
      * rewrite ids_insert. intros [E|H]; [apply Hn; left; auto|tauto].
      * apply IH; [exact ND'|tauto].
Qed.

Lemma in_remove l id x : In x (remove_sess l id) <-> In x l /\ s_id x <> id.
Proof.
  unfold remove_sess. rewrite filter_In. rewrite negb_true_iff, N.eqb_neq. tauto.
Qed.

Lemma nodup_remove l id : NoDup (map s_id l) -> NoDup (map s_id (remove_sess l id)).
Proof.
  unfold remove_sess. induction l as [|y l IH]; cbn; [auto|]. intros ND. inversion ND as [|? ? Hy ND']; subst.
  destruct (negb (s_id y =? id)); cbn; auto. constructor; auto.
  intros H. apply Hy. apply in_map_iff in H. destruct H as [x [E H]]. apply filter_In in H.
  rewrite <- E. apply in_map. tauto.
Qed.

Lemma ids_replace l s' : map s_id (replace_sess l s') = map s_id l.
Proof.
  unfold replace_sess. rewrite map_map. apply map_ext_in. intros a _.
  destruct (s_id a =? s_id s') eqn:E; [apply N.eqb_eq in E; auto|auto].
Qed.

Lemma in_replace l s' x : In x (replace_sess l s') -> x = s' \/ (In x l /\ s_id x <> s_id s').
Proof.
  unfold replace_sess. rewrite in_map_iff. intros [a [E H]].
  destruct (s_id a =? s_id s') eqn:E1; [left; auto|right]. subst. apply N.eqb_neq in E1. auto.
Qed.

Lemma replace_keeps l s' x : In x l -> s_id x <> s_id s' -> In x (replace_sess l s').
Proof.
  intros H Hn. unfold replace_sess. apply in_map_iff. exists x. apply N.eqb_neq in Hn. rewrite Hn. auto.
Qed.

Lemma replace_has l s' : In (s_id s') (map s_id l) -> In s' (replace_sess l s').
Proof.
  intros H. apply in_map_iff in H. destruct H as [a [E H]]. unfold replace_sess. apply in_map_iff.
  exists a. apply N.eqb_eq in E. rewrite E. auto.
Qed.

Lemma find_id_fresh fuel l cand id : find_id fuel l cand = Some id -> ~ In id (map s_id l).
Proof.
  revert cand. induction fuel as [|k IH]; intros cand; cbn.
  - destruct (existsb _ l) eqn:E; cbn; [discriminate|]. intros H; inversion H; subst. intros Hin.
    apply in_map_iff in Hin. destruct Hin as [x [E1 Hx]].
    assert (existsb (fun s => s_id s =? id) l = true) by (apply existsb_exists; exists x; split; auto; apply N.eqb_eq; auto).
    congruence.
  - destruct (existsb _ l) eqn:E; cbn; [apply IH|]. intros H; inversion H; subst. intros Hin.
    apply in_map_iff in Hin. destruct Hin as [x [E1 Hx]].
    assert (existsb (fun s => s_id s =? id) l = true) by (apply existsb_exists; exists x; split; auto; apply N.eqb_eq; auto).
    congruence.
Qed.

(* ------------------------------------------------------------------ one session's handlers *)
Definition sess_ok (s : sess) : Prop := s_state s = StEstablished -> s_auth s = true.
Definition sess_claims (s : sess) : Prop := s_auth s = true \/ s_ip s <> None.

Definition sres_spec (c : config) (s : sess) (r : sres) : Prop :=
  (forall f, In f (r_frames r) -> exists p d, f = ESess (s_mac s) (s_id s) p d) /\
  (forall f sid, In f (r_frames r) -> ef_is ProtoIPCP 2 f = Some sid -> s_auth s = true /\ r_sess r <> None) /\
  match r_sess r with
  | None => True
  | Some s' => s_id s' = s_id s /\ s_mac s' = s_mac s /\ s_inst s' = s_inst s /\
               (sess_ok s -> sess_ok s') /\
               (sess_claims s' ->
                  sess_claims s \/
                  (sent_on ProtoPAP 2 (r_frames r) (s_id s) = true /\ (c_radius c = true -> r_rad r = 1)))
  end.

Arguments be_bytes : simpl never.
Arguments ser_opts : simpl never.
Arguments parse_ctl : simpl never.
Arguments parse_opts : simpl never.
Arguments parse_pap : simpl never.
Arguments ipcp_resp : simpl never.
Arguments u8 : simpl never.
Arguments u16 : simpl never.
Arguments N.add : simpl never.

Ltac frames_tac :=
  repeat match goal with
  | H : False |- _ => destruct H
  | H : In _ [] |- _ => destruct H
  | H : _ = _ \/ _ |- _ => destruct H as [H|H]; [subst|]
  | H : In _ (_ :: _) |- _ => destruct H as [H|H]; [subst|]
  | H : In _ (_ ++ _) |- _ => apply in_app_or in H; destruct H as [H|H]
  end.
Ltac conj := repeat match goal with |- _ /\ _ => split end.

Ltac spec_leaf :=
  unfold sres_spec, keep, sess_ok, sess_claims, ppp_frame, sent_on, ProtoLCP, ProtoPAP, ProtoIPCP in *; cbn;
  split; [intros f Hf; frames_tac; eauto
         | split; [intros f sid Hf He; frames_tac; cbn in He; try discriminate
                  | try exact I; conj; try reflexivity; try tauto; try discriminate; try congruence;
                    try (intros [?|?]; [discriminate | tauto]);
                    try (intros _; right; rewrite N.eqb_refl; split; [reflexivity | intros; first [reflexivity | congruence]]) ]].

Lemma handle_lcp_spec c st s payload : sres_spec c s (handle_lcp c st s payload).
Proof.
  unfold handle_lcp. destruct (parse_ctl payload) as [[[code id] data]|]; [|spec_leaf].
  destruct (code =? 1). { destruct (parse_opts data); spec_leaf. }
  destruct (code =? 2). { spec_leaf. }
  destruct (code =? 3). { unfold lcp_request. spec_leaf. }
  destruct (code =? 9). { spec_leaf. }
  destruct (code =? 5); spec_leaf.
Qed.

Lemma handle_pap_spec c st s payload oracle : sres_spec c s (handle_pap c st s payload oracle).
Proof.
  unfold handle_pap. destruct (parse_pap payload) as [id|]; [|spec_leaf].
  destruct (c_radius c) eqn:Er.
  - destruct (oracle =? 0) eqn:Eo.
    + apply N.eqb_eq in Eo. subst oracle. unfold start_ipcp.
      destruct (c_has_pool c); [destruct (st_avail st) as [|ip rest]|]; cbn -[sres_spec];
        try (destruct (s_ip s) eqn:Ei); spec_leaf.
    + spec_leaf.
  - unfold start_ipcp.
    destruct (c_has_pool c); [destruct (st_avail st) as [|ip rest]|]; cbn -[sres_spec];
      try (destruct (s_ip s) eqn:Ei); spec_leaf.
Qed.

Lemma handle_ipcp_spec c st s payload : sres_spec c s (handle_ipcp gates_on c st s payload).
Proof.
  unfold handle_ipcp. cbn [g_auth gates_on andb]. destruct (s_auth s) eqn:Ea; cbn [negb]; [|spec_leaf].
  destruct (parse_ctl payload) as [[[code id] data]|]; [|spec_leaf].
  destruct (code =? 1).
  { destruct (parse_opts data) as [opts|]; [|spec_leaf]. destruct (ipcp_resp c s opts); spec_leaf. }
  destruct (code =? 2); spec_leaf.
Qed.

Lemma handle_ppp_spec c st s proto payload oracle : sres_spec c s (handle_ppp gates_on c st s proto payload oracle).
Proof.
  unfold handle_ppp. destruct (proto =? ProtoLCP); [apply handle_lcp_spec|].
  destruct (proto =? ProtoPAP); [apply handle_pap_spec|].
  destruct (proto =? ProtoIPCP); [apply handle_ipcp_spec|]. spec_leaf.
Qed.
