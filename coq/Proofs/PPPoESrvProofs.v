(* Lemmas for C04 over Model/PPPoESrv.v (the code with the three repairs) and the monitor. *)
From Coq Require Import NArith List Bool Lia ZifyN ZifyNat ZifyBool.
From Verif Require Import Base.Word Base.Check Model.PPPoESrv Model.PPPoESrvSpec Model.PPPoESrvCheck.
Import ListNotations.
Local Open Scope N_scope.

(* ------------------------------------------------------------------ table library *)
Lemma find_sess_some l id s : find_sess l id = Some s -> In s l /\ s_id s = id.
Proof.
  unfold find_sess. intros H. apply find_some in H. destruct H as [H1 H2]. apply N.eqb_eq in H2. auto.
Qed.

Lemma nodup_id_inj l a b : NoDup (map s_id l) -> In a l -> In b l -> s_id a = s_id b -> a = b.
Proof.
  induction l as [|x l IH]; cbn; [tauto|]. intros ND Ha Hb E. inversion ND as [|? ? Hn ND']; subst.
  destruct Ha as [->|Ha], Hb as [->|Hb]; auto.
  - exfalso. apply Hn. rewrite E. apply in_map. exact Hb.
  - exfalso. apply Hn. rewrite <- E. apply in_map. exact Ha.
Qed.

Lemma in_insert s' l x : In x (insert_sess s' l) <-> x = s' \/ In x l.
Proof.
  induction l as [|y l IH]; cbn; [intuition|]. destruct (s_id s' <? s_id y); cbn; rewrite ?IH; intuition.
Qed.

Lemma ids_insert s' l : forall i, In i (map s_id (insert_sess s' l)) <-> i = s_id s' \/ In i (map s_id l).
Proof.
  intros i. rewrite !in_map_iff. split.
  - intros [x [E H]]. apply in_insert in H. destruct H as [->|H]; [left; auto|right; eauto].
  - intros [->|[x [E H]]]; [exists s'|exists x]; rewrite in_insert; auto.
Qed.

Lemma nodup_insert s' l : NoDup (map s_id l) -> ~ In (s_id s') (map s_id l) -> NoDup (map s_id (insert_sess s' l)).
Proof.
  induction l as [|y l IH]; cbn; intros ND Hn.
  - constructor; [tauto|constructor].
  - destruct (s_id s' <? s_id y); cbn.
    + constructor; [cbn; tauto|exact ND].
    + inversion ND as [|? ? Hy ND']; subst. constructor.
      * rewrite ids_insert. intros [E|H]; [apply Hn; left; auto|tauto].
      * apply IH; [exact ND'|tauto].
Qed.

Lemma in_remove l id x : In x (remove_sess l id) <-> In x l /\ s_id x <> id.
Proof.
  unfold remove_sess. rewrite filter_In. rewrite negb_true_iff, N.eqb_neq. tauto.
Qed.

Lemma nodup_remove l id : NoDup (map s_id l) -> NoDup (map s_id (remove_sess l id)).
Proof.
  unfold remove_sess. induction l as [|y l IH]; cbn; [auto|]. intros ND. inversion ND as [|? ? Hy ND']; subst.
  destruct (negb (s_id y =? id)); cbn; auto. constructor; auto.
  intros H. apply Hy. apply in_map_iff in H. destruct H as [x [E H]]. apply filter_In in H.
  rewrite <- E. apply in_map. tauto.
Qed.

Lemma ids_replace l s' : map s_id (replace_sess l s') = map s_id l.
Proof.
  unfold replace_sess. rewrite map_map. apply map_ext_in. intros a _.
  destruct (s_id a =? s_id s') eqn:E; [apply N.eqb_eq in E; auto|auto].
Qed.

Lemma in_replace l s' x : In x (replace_sess l s') -> x = s' \/ (In x l /\ s_id x <> s_id s').
Proof.
  unfold replace_sess. rewrite in_map_iff. intros [a [E H]].
  destruct (s_id a =? s_id s') eqn:E1; [left; auto|right]. subst. apply N.eqb_neq in E1. auto.
Qed.

Lemma replace_keeps l s' x : In x l -> s_id x <> s_id s' -> In x (replace_sess l s').
Proof.
  intros H Hn. unfold replace_sess. apply in_map_iff. exists x. apply N.eqb_neq in Hn. rewrite Hn. auto.
Qed.

Lemma replace_has l s' : In (s_id s') (map s_id l) -> In s' (replace_sess l s').
Proof.
  intros H. apply in_map_iff in H. destruct H as [a [E H]]. unfold replace_sess. apply in_map_iff.
  exists a. apply N.eqb_eq in E. rewrite E. auto.
Qed.

Lemma find_id_fresh fuel l cand id : find_id fuel l cand = Some id -> ~ In id (map s_id l).
Proof.
  revert cand. induction fuel as [|k IH]; intros cand; cbn.
  - destruct (existsb _ l) eqn:E; cbn; [discriminate|]. intros H; inversion H; subst. intros Hin.
    apply in_map_iff in Hin. destruct Hin as [x [E1 Hx]].
    assert (existsb (fun s => s_id s =? id) l = true) by (apply existsb_exists; exists x; split; auto; apply N.eqb_eq; auto).
    congruence.
  - destruct (existsb _ l) eqn:E; cbn; [apply IH|]. intros H; inversion H; subst. intros Hin.
    apply in_map_iff in Hin. destruct Hin as [x [E1 Hx]].
    assert (existsb (fun s => s_id s =? id) l = true) by (apply existsb_exists; exists x; split; auto; apply N.eqb_eq; auto).
    congruence.
Qed.

(* ------------------------------------------------------------------ one session's handlers *)
Definition sess_ok (s : sess) : Prop := s_state s = StEstablished -> s_auth s = true.
Definition sess_claims (s : sess) : Prop := s_auth s = true \/ s_ip s <> None.

Definition sres_spec (c : config) (s : sess) (r : sres) : Prop :=
  (forall f, In f (r_frames r) -> exists p d, f = ESess (s_mac s) (s_id s) p d) /\
  (forall f sid, In f (r_frames r) -> ef_is ProtoIPCP 2 f = Some sid ->
     s_auth s = true /\ r_sess r <> None /\ pap_verdict_sent (r_frames r) (s_id s) = false /\
     (forall s', r_sess r = Some s' -> s_auth s' = true)) /\
  match r_sess r with
  | None => pap_verdict_sent (r_frames r) (s_id s) = false
  | Some s' => s_id s' = s_id s /\ s_mac s' = s_mac s /\ s_inst s' = s_inst s /\
               (sess_ok s -> sess_ok s') /\
               (sess_claims s' ->
                  sess_claims s \/
                  (sent_on ProtoPAP 2 (r_frames r) (s_id s) = true /\ (c_radius c = true -> r_rad r = 1))) /\
               (s_auth s' = true ->
                  (s_auth s = true /\ pap_verdict_sent (r_frames r) (s_id s) = false) \/
                  (sent_on ProtoPAP 2 (r_frames r) (s_id s) = true /\ (c_radius c = true -> r_rad r = 1)))
  end.

Arguments be_bytes : simpl never.
Arguments ser_opts : simpl never.
Arguments parse_ctl : simpl never.
Arguments parse_opts : simpl never.
Arguments parse_pap : simpl never.
Arguments ipcp_resp : simpl never.
Arguments u8 : simpl never.
Arguments u16 : simpl never.
Arguments N.add : simpl never.

Ltac frames_tac :=
  repeat match goal with
  | H : False |- _ => destruct H
  | H : In _ [] |- _ => destruct H
  | H : _ = _ \/ _ |- _ => destruct H as [H|H]; [subst|]
  | H : In _ (_ :: _) |- _ => destruct H as [H|H]; [subst|]
  | H : In _ (_ ++ _) |- _ => apply in_app_or in H; destruct H as [H|H]
  end.
Ltac conj := repeat match goal with |- _ /\ _ => split end.

Ltac spec_leaf :=
  unfold sres_spec, keep, sess_ok, sess_claims, pap_verdict_sent, ppp_frame, sent_on, ProtoLCP, ProtoPAP, ProtoIPCP in *; cbn;
  split; [intros f Hf; frames_tac; eauto
         | split; [intros f sid Hf He; frames_tac; cbn in He; try discriminate;
                   try (split; [assumption | split; [discriminate | split; [reflexivity |
                          let s' := fresh "s'" in let Hs' := fresh "Hs'" in
                          intros s' Hs'; inversion Hs'; subst; cbn; assumption]]])
                  | try exact I; conj; try reflexivity; try tauto; try discriminate; try congruence;
                    try (intros [?|?]; [discriminate | tauto]);
                    try (let Hx := fresh "Hx" in intros Hx; discriminate Hx);
                    try (let Hx := fresh "Hx" in intros Hx; left; split; [exact Hx | reflexivity]);
                    try (intros _; right; rewrite N.eqb_refl; split; [reflexivity | intros; first [reflexivity | congruence]]) ]].

Lemma handle_lcp_spec c st s payload : sres_spec c s (handle_lcp c st s payload).
Proof.
  unfold handle_lcp. destruct (parse_ctl payload) as [[[code id] data]|]; [|spec_leaf].
  destruct (code =? 1). { destruct (parse_opts data); spec_leaf. }
  destruct (code =? 2). { spec_leaf. }
  destruct (code =? 3). { unfold lcp_request. spec_leaf. }
  destruct (code =? 9). { spec_leaf. }
  destruct (code =? 5); spec_leaf.
Qed.

Lemma handle_pap_spec c st s payload oracle : sres_spec c s (handle_pap c st s payload oracle).
Proof.
  unfold handle_pap. destruct (parse_pap payload) as [[id user]|]; [|spec_leaf].
  destruct (c_radius c) eqn:Er.
  - destruct (oracle =? 0) eqn:Eo.
    + apply N.eqb_eq in Eo. subst oracle. unfold start_ipcp.
      destruct (c_has_pool c); [destruct (assoc_get _ _); [|destruct (st_avail st) as [|ip rest]]|]; cbn -[sres_spec];
        try (destruct (s_ip s) eqn:Ei); spec_leaf.
    + spec_leaf.
  - unfold start_ipcp.
    destruct (c_has_pool c); [destruct (assoc_get _ _); [|destruct (st_avail st) as [|ip rest]]|]; cbn -[sres_spec];
      try (destruct (s_ip s) eqn:Ei); spec_leaf.
Qed.

Lemma handle_ipcp_spec c st s payload : sres_spec c s (handle_ipcp gates_on c st s payload).
Proof.
  unfold handle_ipcp. cbn [g_auth gates_on andb]. destruct (s_auth s) eqn:Ea; cbn [negb]; [|spec_leaf].
  destruct (parse_ctl payload) as [[[code id] data]|]; [|spec_leaf].
  destruct (code =? 1).
  { destruct (parse_opts data) as [opts|]; [|spec_leaf]. destruct (ipcp_resp c s opts); spec_leaf. }
  destruct (code =? 2); spec_leaf.
Qed.

Lemma handle_ppp_spec c st s proto payload oracle : sres_spec c s (handle_ppp gates_on c st s proto payload oracle).
Proof.
  unfold handle_ppp. destruct (proto =? ProtoLCP); [apply handle_lcp_spec|].
  destruct (proto =? ProtoPAP); [apply handle_pap_spec|].
  destruct (proto =? ProtoIPCP); [apply handle_ipcp_spec|]. spec_leaf.
Qed.

(* ------------------------------------------------------------------ "that same session": creation indexes
   identify records — no two records of the table share one, and every index in use is below the
   counter the next PADR will take its index from (so an index is never given out twice). *)
Record InvI (st : state) : Prop := {
  ii_lt : forall s, In s (st_sessions st) -> s_inst s < st_ninst st;
  ii_inst : NoDup (map s_inst (st_sessions st));
  ii_ids : NoDup (map s_id (st_sessions st)) }.

Lemma nodup_map_filter {A B} (f : A -> B) (p : A -> bool) l : NoDup (map f l) -> NoDup (map f (filter p l)).
Proof.
  induction l as [|y l IH]; cbn; [auto|]. intros ND. inversion ND as [|? ? Hy ND']; subst.
  destruct (p y); cbn; auto. constructor; auto. intros H. apply Hy. apply in_map_iff in H.
  destruct H as [x [E H]]. apply filter_In in H. rewrite <- E. apply in_map. tauto.
Qed.

Lemma nodup_inst_insert s' l :
  NoDup (map s_inst l) -> ~ In (s_inst s') (map s_inst l) -> NoDup (map s_inst (insert_sess s' l)).
Proof.
  induction l as [|y l IH]; cbn; intros ND Hn.
  - constructor; [tauto|constructor].
  - destruct (s_id s' <? s_id y); cbn.
    + constructor; [cbn; tauto|exact ND].
    + inversion ND as [|? ? Hy ND']; subst. constructor.
      * intros H. apply in_map_iff in H. destruct H as [x [E H]]. apply in_insert in H.
        destruct H as [->|H]; [apply Hn; left; auto|apply Hy; rewrite <- E; apply in_map; exact H].
      * apply IH; [exact ND'|tauto].
Qed.

Lemma inst_replace l s s' :
  NoDup (map s_id l) -> In s l -> s_id s' = s_id s -> s_inst s' = s_inst s ->
  map s_inst (replace_sess l s') = map s_inst l.
Proof.
  intros ND Hs Eid Einst. unfold replace_sess. rewrite map_map. apply map_ext_in. intros a Ha.
  destruct (s_id a =? s_id s') eqn:E; [|reflexivity]. apply N.eqb_eq in E.
  assert (a = s) by (eapply nodup_id_inj; eauto; congruence). subst a. exact Einst.
Qed.

Lemma drop_invI st s av al : InvI st -> InvI (drop_session st s av al).
Proof.
  intros [H1 H2 H3]. constructor; cbn.
  - intros x Hx. apply in_remove in Hx. apply H1; tauto.
  - apply nodup_map_filter; auto.
  - apply nodup_remove; auto.
Qed.

Lemma step_invI c st o : InvI st -> InvI (fst (fst (step c st o))).
Proof.
  intros HI. unfold step, step_g. cbn [g_copy gates_on]. unfold step_h.
  destruct (negb _); [exact HI|].
  destruct (op_frame o) as [code sid tags|code sid proto payload|]; [| |exact HI].
  - destruct (code =? CodePADI).
    { unfold handle_padi. destruct (match find_tag tags TagServiceName with Some _ => _ | None => _ end); exact HI. }
    destruct (code =? CodePADR).
    { unfold handle_padr. destruct (find_tag tags TagACCookie); [|exact HI].
      destruct (65535 <=? blen_s (st_sessions st)); [exact HI|].
      destruct (find_id _ _ _) as [id|] eqn:Ef; [|exact HI]. apply find_id_fresh in Ef.
      destruct HI as [H1 H2 H3]. unfold lcp_request. constructor; cbn.
      - intros x Hx. apply in_insert in Hx. destruct Hx as [->|Hx]; cbn; [lia|]. specialize (H1 x Hx). lia.
      - apply nodup_inst_insert; auto. cbn. intros H. apply in_map_iff in H. destruct H as [x [E Hx]].
        specialize (H1 x Hx). lia.
      - apply nodup_insert; auto. }
    destruct (code =? CodePADT); [|exact HI].
    unfold handle_padt. destruct (find_sess (st_sessions st) sid) as [s|]; [|exact HI].
    destruct (g_owner gates_on && negb (s_mac s =? op_src o)); [exact HI|]. cbn. apply drop_invI; auto.
  - unfold handle_session. destruct (find_sess (st_sessions st) sid) as [s|] eqn:Ef; [|exact HI].
    apply find_sess_some in Ef. destruct Ef as [Hs _].
    destruct (g_owner gates_on && negb (s_mac s =? op_src o)); [exact HI|].
    pose proof (handle_ppp_spec c st (bump_in s) proto payload (op_rad o)) as [_ [_ Ss]].
    destruct (r_sess _) as [s'|]; cbn; [|apply drop_invI; auto].
    destruct Ss as [Eid [_ [Einst _]]]. cbn [s_id s_inst bump_in] in Eid, Einst.
    destruct HI as [H1 H2 H3]. constructor; cbn.
    + intros x Hx. apply in_replace in Hx. destruct Hx as [->|[Hx _]]; [rewrite Einst|]; auto.
    + rewrite (inst_replace _ s s'); auto.
    + rewrite ids_replace. exact H3.
Qed.


(* ------------------------------------------------------------------ table-level invariant *)
Record Inv (st : state) (acc cur : list N) : Prop := {
  inv_ok : forall s, In s (st_sessions st) -> sess_ok s;
  inv_claims : forall s, In s (st_sessions st) -> sess_claims s -> In (s_inst s) acc;
  inv_cur : forall s, In s (st_sessions st) -> s_auth s = true -> In (s_inst s) cur;
  inv_nodup : NoDup (map s_id (st_sessions st)) }.

Lemma Inv_incl st a b cu cu' : Inv st a cu -> incl a b -> incl cu cu' -> Inv st b cu'.
Proof. intros [H1 H2 H3 H4] Hi Hj. constructor; auto. Qed.

Lemma Inv_init c : Inv (init c) [] [].
Proof. constructor; cbn; try tauto. constructor. Qed.

(* frames that carry no PAP verdict leave the set of currently accepted sessions as it is *)
Lemma nopap_verdicts r : (forall sid, pap_verdict_sent (o_frames r) sid = false) -> verdicts r = [].
Proof. unfold verdicts. intros H. induction (o_sessions r) as [|y l IH]; cbn; [reflexivity|]. rewrite H. exact IH. Qed.

Lemma nopap_accepts c r : (forall sid, pap_verdict_sent (o_frames r) sid = false) -> accepts c r = [].
Proof.
  unfold accepts. intros H. destruct (c_radius c && negb (o_radius r =? 1)); [reflexivity|].
  induction (o_sessions r) as [|y l IH]; cbn; [reflexivity|]. specialize (H (s_id y)). unfold pap_verdict_sent in H.
  apply orb_false_iff in H. destruct H as [H _]. rewrite H. exact IH.
Qed.

Lemma next_cur_keep c cur r k : ~ In k (verdicts r) -> In k cur -> In k (next_cur c cur r).
Proof.
  intros Hn Hk. unfold next_cur. apply in_or_app; right. apply filter_In. split; [exact Hk|].
  destruct (mem k (verdicts r)) eqn:E; [|reflexivity]. exfalso. apply Hn. unfold mem in E. apply existsb_exists in E.
  destruct E as [x [Hx E]]. apply N.eqb_eq in E. subst x. exact Hx.
Qed.

Lemma next_cur_nopap c cur r : (forall sid, pap_verdict_sent (o_frames r) sid = false) -> incl cur (next_cur c cur r).
Proof. intros H k Hk. apply next_cur_keep; [rewrite (nopap_verdicts r H); intros []|exact Hk]. Qed.

(* a verdict frame among frames that all travel on session id i names i *)
Lemma verdict_on_sid fr m i sid :
  (forall f, In f fr -> exists p d, f = ESess m i p d) -> pap_verdict_sent fr sid = true -> sid = i.
Proof.
  intros Hf H. unfold pap_verdict_sent, sent_on in H. apply orb_true_iff in H.
  destruct H as [H|H]; apply existsb_exists in H; destruct H as [f [Hin He]]; destruct (Hf f Hin) as [p [d ->]];
    cbn in He; destruct d as [|c0 d]; try discriminate; destruct (_ && _); try discriminate; apply N.eqb_eq in He; auto.
Qed.

Lemma nopap_all fr m i :
  (forall f, In f fr -> exists p d, f = ESess m i p d) -> pap_verdict_sent fr i = false ->
  forall sid, pap_verdict_sent fr sid = false.
Proof.
  intros Hf H sid. destruct (pap_verdict_sent fr sid) eqn:E; [|reflexivity].
  pose proof (verdict_on_sid fr m i sid Hf E) as E'. subst sid. congruence.
Qed.

(* what one step guarantees, given the invariant before it *)
Definition step_ok (c : config) (st : state) (acc cur : list N) (src : N) (osid : option N) (x : state * out * list N) : Prop :=
  let st' := fst (fst x) in
  let r := snd (fst x) in
  o_sessions r = st_sessions st' /\
  Inv st' (accepts c r ++ acc) (next_cur c cur r) /\
  (forall f sid, In f (o_frames r) -> ef_is ProtoIPCP 2 f = Some sid ->
     exists s, In s (st_sessions st') /\ s_id s = sid /\ In (s_inst s) (next_cur c cur r)) /\
  (forall s, In s (st_sessions st) -> s_mac s <> src -> In s (st_sessions st')) /\
  (forall f d sid, In f (o_frames r) -> ef_sid f = Some (d, sid) ->
     d = src /\ exists s, In s (st_sessions st' ++ st_sessions st) /\ s_id s = sid /\ s_mac s = d) /\
  (forall f sid, In f (o_frames r) -> ef_pap_verdict f = Some sid -> osid = Some sid).

Lemma noop_ok c st acc cur src osid : Inv st acc cur -> step_ok c st acc cur src osid (noop st).
Proof.
  intros HI. unfold step_ok, noop; cbn. split; [reflexivity|].
  split; [eapply Inv_incl; eauto; [apply incl_appr, incl_refl|apply next_cur_nopap; reflexivity]|].
  split; [intros f sid []|]. split; [auto|]. split; [intros f d sid []|intros f sid []].
Qed.

Lemma padi_ok c st acc cur src osid tags : Inv st acc cur -> step_ok c st acc cur src osid (handle_padi c st src tags).
Proof.
  intros HI. unfold handle_padi. destruct (match find_tag tags TagServiceName with Some _ => _ | None => _ end);
    [apply noop_ok; auto|].
  unfold step_ok; cbn. split; [reflexivity|].
  split; [eapply Inv_incl; eauto; [apply incl_appr, incl_refl|apply next_cur_nopap; reflexivity]|].
  split; [intros f sid [<-|[]] He; cbn in He; discriminate|]. split; [auto|].
  split; [intros f d sid [<-|[]] He; cbn in He; discriminate|]. intros f sid [<-|[]] He. cbn in He. discriminate.
Qed.

Lemma padr_ok c st acc cur src osid tags : Inv st acc cur -> step_ok c st acc cur src osid (handle_padr c st src tags).
Proof.
  intros HI. unfold handle_padr. destruct (find_tag tags TagACCookie); [|apply noop_ok; auto].
  destruct (65535 <=? blen_s (st_sessions st)); [apply noop_ok; auto|].
  destruct (find_id _ _ _) as [id|] eqn:Ef.
  2:{ unfold step_ok; cbn. split; [reflexivity|].
      split; [eapply Inv_incl; eauto; [apply incl_appr, incl_refl|apply next_cur_nopap; reflexivity]|].
      split; [intros f sid []|]. split; [auto|]. split; [intros f d sid []|intros f sid []]. }
  apply find_id_fresh in Ef. destruct HI as [H1 H2 Hc H3].
  unfold step_ok, lcp_request; cbn. split; [reflexivity|]. split; [constructor; cbn|split; [|split; [|split]]].
  - intros s Hs. apply in_insert in Hs. destruct Hs as [->|Hs]; [|auto]. unfold sess_ok; cbn. discriminate.
  - intros s Hs Hc'. apply in_insert in Hs. destruct Hs as [->|Hs]; [|apply in_or_app; right; auto].
    destruct Hc' as [Hc'|Hc']; cbn in Hc'; [discriminate|congruence].
  - intros s Hs Ha. apply in_insert in Hs. destruct Hs as [->|Hs]; [cbn in Ha; discriminate|].
    apply next_cur_nopap; [intros sd; reflexivity|auto].
  - apply nodup_insert; auto.
  - intros f sid [<-|[<-|[]]] He; cbn in He; discriminate.
  - intros s Hs _. apply in_insert. auto.
  - intros f d sid Hf He.
    assert (Hd : d = src /\ sid = id).
    { destruct Hf as [<-|[<-|[]]]; cbn in He; [destruct (id =? 0); [discriminate|]|]; inversion He; auto. }
    destruct Hd as [-> ->]. split; [reflexivity|]. eexists. split; [apply in_or_app; left; apply in_insert; left; reflexivity|].
    cbn. auto.
  - intros f sid [<-|[<-|[]]] He; cbn in He; discriminate.
Qed.

Lemma drop_ok c st acc cur src osid s av al fr rad :
  Inv st acc cur -> In s (st_sessions st) -> s_mac s = src ->
  (forall f sid, In f fr -> ef_is ProtoIPCP 2 f = Some sid -> False) ->
  (forall f, In f fr -> exists p d, f = ESess (s_mac s) (s_id s) p d) ->
  (forall sid, pap_verdict_sent fr sid = false) ->
  (forall f sd, In f fr -> ef_pap_verdict f = Some sd -> osid = Some sd) ->
  step_ok c st acc cur src osid (drop_session st s av al, mk_out (drop_session st s av al) fr rad false, @nil N).
Proof.
  intros [H1 H2 Hc H3] Hs Hm Hfr Hsf Hnp Hvd. unfold step_ok; cbn. split; [reflexivity|]. split; [constructor; cbn|split; [|split; [|split]]].
  - intros x Hx. apply in_remove in Hx. apply H1; tauto.
  - intros x Hx Hc'. apply in_remove in Hx. apply in_or_app; right. apply H2; tauto.
  - intros x Hx Ha. apply in_remove in Hx. apply next_cur_nopap; [exact Hnp|]. apply Hc; tauto.
  - apply nodup_remove; auto.
  - intros f sid Hf He. exfalso; eauto.
  - intros x Hx Hne. apply in_remove. split; auto. intros E. apply Hne. rewrite <- Hm. f_equal.
    eapply nodup_id_inj; eauto.
  - intros f d sid Hf He. destruct (Hsf f Hf) as [p [dd ->]]. cbn in He. inversion He; subst d sid.
    split; [exact Hm|]. exists s. split; [apply in_or_app; right; exact Hs|auto].
  - exact Hvd.
Qed.

Lemma padt_ok c st acc cur src osid sid : Inv st acc cur -> step_ok c st acc cur src osid (handle_padt gates_on c st src sid).
Proof.
  intros HI. unfold handle_padt. destruct (find_sess (st_sessions st) sid) as [s|] eqn:Ef; [|apply noop_ok; auto].
  apply find_sess_some in Ef. destruct Ef as [Hs _]. cbn [g_owner gates_on andb].
  destruct (s_mac s =? src) eqn:Em; cbn [negb]; [|apply noop_ok; auto]. apply N.eqb_eq in Em.
  cbn [orb]. apply drop_ok; auto; try (intros f sd []); try (intros f []); try (intros sd; reflexivity).
Qed.

Lemma ef_is_sess m i p d proto code sid : ef_is proto code (ESess m i p d) = Some sid -> sid = i.
Proof. cbn. destruct d; [discriminate|]. destruct (_ && _); [congruence|discriminate]. Qed.

Lemma ef_pap_verdict_sess m i p d sid : ef_pap_verdict (ESess m i p d) = Some sid -> sid = i.
Proof. cbn. destruct d; [discriminate|]. destruct (_ && _); [congruence|discriminate]. Qed.

Lemma session_ok c st acc cur src sid proto payload oracle :
  Inv st acc cur -> InvI st -> step_ok c st acc cur src (Some sid) (handle_session gates_on c st src sid proto payload oracle).
Proof.
  intros HI HII. unfold handle_session.
  destruct (find_sess (st_sessions st) sid) as [s|] eqn:Ef; [|apply noop_ok; auto].
  apply find_sess_some in Ef. destruct Ef as [Hs Hsid]. cbn [g_owner g_auth gates_on andb].
  destruct (s_mac s =? src) eqn:Em; cbn [negb orb]; [|apply noop_ok; auto]. apply N.eqb_eq in Em.
  rewrite andb_false_r. cbn [app].
  pose proof (handle_ppp_spec c st (bump_in s) proto payload oracle) as Sp.
  destruct Sp as [Sf [Sa Ss]]. cbn [s_mac s_id bump_in] in Sf.
  destruct (r_sess (handle_ppp gates_on c st (bump_in s) proto payload oracle)) as [s'|] eqn:Er.
  2:{ cbn [s_id bump_in] in Ss. apply drop_ok; auto.
      - intros f sd Hf He. destruct (Sa f sd Hf He) as [_ [Hn _]]. apply Hn; reflexivity.
      - eapply nopap_all; eauto.
      - intros f sd Hf He. destruct (Sf f Hf) as [p [d ->]]. apply ef_pap_verdict_sess in He. congruence. }
  destruct Ss as [Eid [Emac [Einst [Hok [Hcl Hau]]]]]. cbn [s_id s_mac s_inst s_auth bump_in] in Eid, Emac, Einst, Hau.
  destruct HI as [H1 H2 Hc H3]. destruct HII as [_ Hinst _].
  assert (Hin' : In s' (replace_sess (st_sessions st) s')).
  { apply replace_has. rewrite Eid. apply in_map. exact Hs. }
  set (rr := handle_ppp gates_on c st (bump_in s) proto payload oracle) in *.
  set (st' := {| st_sessions := replace_sess (st_sessions st) s'; st_macidx := st_macidx st; st_next := st_next st;
                 st_ninst := st_ninst st; st_avail := r_avail rr; st_alloc := r_alloc rr |}).
  set (r := mk_out st' (r_frames rr) (r_rad rr) false).
  assert (Hacc1 : sent_on ProtoPAP 2 (r_frames rr) (s_id s) = true -> (c_radius c = true -> r_rad rr = 1) ->
                  In (s_inst s') (accepts c r)).
  { intros Hsent Hrad. unfold accepts; cbn.
    assert (Eg : c_radius c && negb (r_rad rr =? 1) = false).
    { destruct (c_radius c); [rewrite Hrad by reflexivity; reflexivity|reflexivity]. }
    rewrite Eg. apply in_map. apply filter_In. split; [exact Hin'|]. rewrite Eid. exact Hsent. }
  assert (Hacc : sess_claims s' -> In (s_inst s') (accepts c r ++ acc)).
  { intros Hc0. apply in_or_app. destruct (Hcl Hc0) as [Hc1|[Hsent Hrad]].
    - right. rewrite Einst. apply H2; auto.
    - left. auto. }
  (* another record's creation index is not among this step's verdicts *)
  assert (Hother : forall x, In x (st_sessions st) -> s_id x <> s_id s' -> ~ In (s_inst x) (verdicts r)).
  { intros x Hx Hne Hv. unfold verdicts in Hv. cbn in Hv. apply in_map_iff in Hv. destruct Hv as [y [Ey Hy]].
    apply filter_In in Hy. destruct Hy as [Hy Hv]. apply (verdict_on_sid _ _ _ _ Sf) in Hv.
    apply in_replace in Hy. destruct Hy as [->|[Hy Hne']]; [|congruence].
    rewrite Einst in Ey. assert (s = x).
    { clear - Hinst Hs Hx Ey. revert Hinst Hs Hx Ey. generalize (st_sessions st). induction l as [|z l IH]; cbn; [tauto|].
      intros ND Ha Hb E. inversion ND as [|? ? Hn ND']; subst. destruct Ha as [->|Ha], Hb as [->|Hb]; auto.
      - exfalso. apply Hn. rewrite E. apply in_map. exact Hb.
      - exfalso. apply Hn. rewrite <- E. apply in_map. exact Ha. }
    subst x. congruence. }
  assert (HI' : Inv st' (accepts c r ++ acc) (next_cur c cur r)).
  { constructor; cbn.
    - intros x Hx. apply in_replace in Hx. destruct Hx as [->|[Hx _]]; [|auto]. apply Hok. apply (H1 s Hs).
    - intros x Hx Hc0. apply in_replace in Hx. destruct Hx as [->|[Hx _]]; [auto|]. apply in_or_app; right. auto.
    - intros x Hx Ha. apply in_replace in Hx. destruct Hx as [->|[Hx Hne]].
      + destruct (Hau Ha) as [[Ha0 Hnp]|[Hsent Hrad]].
        * rewrite Einst. apply next_cur_nopap; [|apply Hc; auto]. intros sd. cbn. eapply nopap_all; eauto.
        * unfold next_cur. apply in_or_app; left. auto.
      + apply next_cur_keep; [apply Hother; auto|apply Hc; auto].
    - rewrite ids_replace. exact H3. }
  unfold step_ok. cbn [fst snd]. split; [reflexivity|]. split; [exact HI'|]. split; [|split; [|split]].
  - intros f sd Hf He. cbn in Hf. destruct (Sa f sd Hf He) as [_ [_ [_ Ha']]].
    destruct (Sf f Hf) as [p [d ->]]. apply ef_is_sess in He. subst sd.
    exists s'. split; [exact Hin'|]. split; [exact Eid|]. apply (inv_cur _ _ _ HI'); [exact Hin'|]. apply Ha'; reflexivity.
  - intros x Hx Hne. cbn. apply replace_keeps; auto. rewrite Eid. intros E. apply Hne. rewrite <- Em. f_equal.
    eapply nodup_id_inj; eauto.
  - intros f d sd Hf He. cbn in Hf. destruct (Sf f Hf) as [p [dd ->]]. cbn in He. inversion He; subst d sd.
    split; [exact Em|]. exists s. split; [apply in_or_app; right; exact Hs|auto].
  - intros f sd Hf He. cbn in Hf. destruct (Sf f Hf) as [p [d ->]]. apply ef_pap_verdict_sess in He. congruence.
Qed.

Lemma step_step_ok c st acc cur o : Inv st acc cur -> InvI st -> step_ok c st acc cur (op_src o) (op_sid o) (step c st o).
Proof.
  intros HI HII. unfold op_sid, step, step_g. cbn [g_copy gates_on]. unfold step_h.
  destruct (negb _); [apply noop_ok; auto|].
  destruct (op_frame o) as [code sid tags|code sid proto payload|]; [| |apply noop_ok; auto].
  - destruct (code =? CodePADI); [apply padi_ok; auto|].
    destruct (code =? CodePADR); [apply padr_ok; auto|].
    destruct (code =? CodePADT); [apply padt_ok; auto|apply noop_ok; auto].
  - apply session_ok; auto.
Qed.

(* ------------------------------------------------------------------ runs *)
Lemma exec_snoc g c ops o : exec_g g c (ops ++ [o]) = fst (fst (step_g g c (exec_g g c ops) o)).
Proof. unfold exec_g. rewrite fold_left_app. reflexivity. Qed.

Lemma outs_from_app g c st a b :
  outs_from g c st (a ++ b) =
  outs_from g c st a ++ outs_from g c (fold_left (fun st o => fst (fst (step_g g c st o))) a st) b.
Proof. revert st. induction a as [|x a IH]; intros st; cbn; [reflexivity|]. rewrite IH. reflexivity. Qed.

Lemma outs_snoc g c ops o : outs_g g c (ops ++ [o]) = outs_g g c ops ++ [out_at_g g c ops o].
Proof. unfold outs_g. rewrite outs_from_app. reflexivity. Qed.

(* ------------------------------------------------------------------ creation indexes over runs *)
Lemma exec_invI c ops : InvI (exec c ops).
Proof.
  induction ops as [|o ops IH] using rev_ind.
  - constructor; cbn; try tauto; constructor.
  - unfold exec. rewrite exec_snoc. apply step_invI. exact IH.
Qed.

Lemma inst_identifies c ops a b :
  In a (st_sessions (exec c ops)) -> In b (st_sessions (exec c ops)) -> s_inst a = s_inst b -> a = b.
Proof.
  intros Ha Hb E. destruct (exec_invI c ops) as [_ H2 _]. revert H2 Ha Hb E. generalize (st_sessions (exec c ops)).
  induction l as [|x l IH]; cbn; [tauto|]. intros ND Ha Hb E. inversion ND as [|? ? Hn ND']; subst.
  destruct Ha as [->|Ha], Hb as [->|Hb]; auto.
  - exfalso. apply Hn. rewrite E. apply in_map. exact Hb.
  - exfalso. apply Hn. rewrite <- E. apply in_map. exact Ha.
Qed.

Lemma inst_below_counter c ops s : In s (st_sessions (exec c ops)) -> s_inst s < st_ninst (exec c ops).
Proof. intros H. destruct (exec_invI c ops) as [H1 _ _]. auto. Qed.

Definition acc_of (c : config) (ops : list op) : list N := flat_map (accepts c) (outs c ops).
Definition cur_of (c : config) (ops : list op) : list N := fold_left (next_cur c) (outs c ops) [].

Lemma cur_of_snoc c ops o : cur_of c (ops ++ [o]) = next_cur c (cur_of c ops) (out_at c ops o).
Proof. unfold cur_of, outs. rewrite outs_snoc, fold_left_app. reflexivity. Qed.

Lemma latest_step c rs cur r :
  (forall k, In k cur -> accepted_latest c rs k) ->
  forall k, In k (next_cur c cur r) -> accepted_latest c (rs ++ [r]) k.
Proof.
  intros H k Hk. unfold next_cur in Hk. apply in_app_or in Hk. destruct Hk as [Hk|Hk].
  - exists rs, r, []. split; [reflexivity|]. split; [exact Hk|intros r' []].
  - apply filter_In in Hk. destruct Hk as [Hk Hn]. destruct (H k Hk) as [pre [r0 [post [E [Ha Hp]]]]].
    exists pre, r0, (post ++ [r]). split; [rewrite E, <- app_assoc; reflexivity|]. split; [exact Ha|].
    intros r' Hr'. apply in_app_or in Hr'. destruct Hr' as [Hr'|[<-|[]]]; [apply Hp; exact Hr'|].
    intros Hv. apply negb_true_iff in Hn. assert (mem k (verdicts r) = true); [|congruence].
    apply existsb_exists. exists k. split; [exact Hv|apply N.eqb_refl].
Qed.

Lemma cur_of_latest c ops k : In k (cur_of c ops) -> accepted_latest c (outs c ops) k.
Proof.
  revert k. induction ops as [|o ops IH] using rev_ind; [intros k []|]. intros k Hk. rewrite cur_of_snoc in Hk.
  unfold outs. rewrite outs_snoc. eapply latest_step; [exact IH|exact Hk].
Qed.

Lemma latest_accepted c rs k : accepted_latest c rs k -> accepted_in c rs k.
Proof. intros [pre [r [post [E [H _]]]]]. exists r. split; [rewrite E; apply in_or_app; right; left; reflexivity|exact H]. Qed.


Lemma acc_of_snoc c ops o : acc_of c (ops ++ [o]) = acc_of c ops ++ accepts c (out_at c ops o).
Proof. unfold acc_of, outs. rewrite outs_snoc, flat_map_app. cbn. rewrite app_nil_r. reflexivity. Qed.

Lemma exec_inv c ops : Inv (exec c ops) (acc_of c ops) (cur_of c ops).
Proof.
  induction ops as [|o ops IH] using rev_ind; [apply Inv_init|].
  destruct (step_step_ok c _ _ _ o IH (exec_invI c ops)) as [_ [HI _]].
  unfold exec. rewrite exec_snoc. eapply Inv_incl; [exact HI| |rewrite cur_of_snoc; apply incl_refl].
  rewrite acc_of_snoc. intros k Hk. apply in_app_or in Hk. apply in_or_app. tauto.
Qed.

Lemma acc_of_accepted c ops k : In k (acc_of c ops) -> accepted_in c (outs c ops) k.
Proof. unfold acc_of. intros H. apply in_flat_map in H. exact H. Qed.

Lemma snapshot_table : snapshot_is_table gates_on.
Proof.
  intros c ops o. destruct (step_step_ok c _ _ _ o (exec_inv c ops) (exec_invI c ops)) as [H _].
  rewrite exec_snoc. exact H.
Qed.

Lemma established_gate : established_after_auth gates_on.
Proof.
  intros c ops o s Hs He. rewrite snapshot_table in Hs. apply acc_of_accepted.
  destruct (exec_inv c (ops ++ [o])) as [H1 H2 _ _]. apply H2; auto. left. apply H1; auto.
Qed.

Lemma established_gate_latest : established_after_latest_auth gates_on.
Proof.
  intros c ops o s Hs He. rewrite snapshot_table in Hs. apply cur_of_latest.
  destruct (exec_inv c (ops ++ [o])) as [H1 _ H3 _]. apply H3; auto. apply H1; auto.
Qed.

Lemma clientip_gate : clientip_after_auth gates_on.
Proof.
  intros c ops o s Hs Hip. rewrite snapshot_table in Hs. apply acc_of_accepted.
  destruct (exec_inv c (ops ++ [o])) as [H1 H2 _ _]. apply H2; auto. right. exact Hip.
Qed.

Lemma ipcp_ack_gate_latest : ipcp_ack_after_latest_auth gates_on.
Proof.
  intros c ops o f sid Hf He.
  destruct (step_step_ok c _ _ _ o (exec_inv c ops) (exec_invI c ops)) as [Hsn [_ [Hfr _]]].
  destruct (Hfr f sid Hf He) as [s [Hs [Hid Hacc]]]. exists s. split; [|split; [exact Hid|]].
  - unfold out_at_g. unfold step, exec in Hsn. cbn beta zeta in Hsn. rewrite Hsn. exact Hs.
  - apply cur_of_latest. rewrite cur_of_snoc. exact Hacc.
Qed.

Lemma ipcp_ack_gate : ipcp_ack_after_auth gates_on.
Proof.
  intros c ops o f sid Hf He. destruct (ipcp_ack_gate_latest c ops o f sid Hf He) as [s [Hs [Hid Hl]]].
  exists s. split; [exact Hs|split; [exact Hid|apply latest_accepted; exact Hl]].
Qed.

Lemma emitted_owner : emitted_to_owner gates_on.
Proof.
  intros c ops o f d sid Hf He. destruct (step_step_ok c _ _ _ o (exec_inv c ops) (exec_invI c ops)) as [_ [_ [_ [_ [Hem _]]]]].
  rewrite exec_snoc. apply (Hem f d sid); auto.
Qed.

Lemma verdict_requester : verdict_on_requester gates_on.
Proof.
  intros c ops o f sid Hf He. destruct (step_step_ok c _ _ _ o (exec_inv c ops) (exec_invI c ops)) as [_ [_ [_ [_ [_ Hv]]]]].
  apply (Hv f sid); auto.
Qed.

Lemma ownership : mac_ownership gates_on.
Proof.
  intros c ops o s Hs Hne. destruct (step_step_ok c _ _ _ o (exec_inv c ops) (exec_invI c ops)) as [_ [_ [_ [Hown _]]]].
  rewrite exec_snoc. apply Hown; auto.
Qed.

(* ------------------------------------------------------------------ the monitor never rejects the Model *)
Lemma mem_In k l : mem k l = true <-> In k l.
Proof.
  unfold mem. rewrite existsb_exists. split.
  - intros [x [H E]]. apply N.eqb_eq in E. subst. exact H.
  - intros H. exists k. split; [exact H|apply N.eqb_refl].
Qed.

Lemma sess_eqb_refl s : sess_eqb s s = true.
Proof.
  unfold sess_eqb. rewrite !N.eqb_refl, Bool.eqb_reflx.
  rewrite !(proj2 (bytes_eqb_eq _ _) eq_refl).
  destruct (s_ip s), (s_hu s); cbn; rewrite ?N.eqb_refl, ?(proj2 (bytes_eqb_eq _ _) eq_refl); reflexivity.
Qed.

Lemma accept_model c st ms o :
  m_prev ms = st_sessions st -> Inv st (m_acc ms) (m_cur ms) -> InvI st ->
  exists ms', accept c ms o (snd (fst (step c st o))) = inl ms' /\
              m_prev ms' = st_sessions (fst (fst (step c st o))) /\
              Inv (fst (fst (step c st o))) (m_acc ms') (m_cur ms').
Proof.
  intros Hp HI HII. destruct (step_step_ok c st (m_acc ms) (m_cur ms) o HI HII) as [Hsn [HI' [Hfr [Hown [Hem Hvd]]]]].
  set (r := snd (fst (step c st o))) in *. set (st' := fst (fst (step c st o))) in *.
  destruct HI' as [H1 H2 Hc H3].
  unfold accept.
  assert (E0 : established_ok (next_cur c (m_cur ms) r) r = true).
  { unfold established_ok. apply forallb_forall. intros s Hs. rewrite Hsn in Hs.
    destruct (s_state s =? StEstablished) eqn:E; cbn; [|reflexivity]. apply N.eqb_eq in E.
    apply mem_In. apply Hc; auto. apply H1; auto. }
  assert (E1 : clientip_ok (accepts c r ++ m_acc ms) r = true).
  { unfold clientip_ok. apply forallb_forall. intros s Hs. rewrite Hsn in Hs.
    destruct (s_ip s) eqn:E; [|reflexivity]. apply mem_In. apply H2; auto. right. congruence. }
  assert (E2 : ipcp_ack_ok (next_cur c (m_cur ms) r) r = true).
  { unfold ipcp_ack_ok. apply forallb_forall. intros f Hf. destruct (ef_is ProtoIPCP 2 f) as [sid|] eqn:E; [|reflexivity].
    destruct (Hfr f sid Hf E) as [s [Hs [Hid Hacc]]]. apply existsb_exists. exists s. rewrite Hsn. split; [exact Hs|].
    apply andb_true_iff. split; [apply N.eqb_eq; exact Hid|apply mem_In; exact Hacc]. }
  assert (E3 : ownership_ok (m_prev ms) (op_src o) r = true).
  { unfold ownership_ok. apply forallb_forall. intros s Hs. rewrite Hp in Hs.
    destruct (s_mac s =? op_src o) eqn:E; cbn; [reflexivity|]. apply N.eqb_neq in E.
    apply existsb_exists. exists s. rewrite Hsn. split; [apply Hown; auto|apply sess_eqb_refl]. }
  assert (E4 : emitted_ok (m_prev ms) r = true).
  { unfold emitted_ok. apply forallb_forall. intros f Hf. destruct (ef_sid f) as [[d sid]|] eqn:E; [|reflexivity].
    destruct (Hem f d sid Hf E) as [_ [s [Hs [Hid Hmac]]]]. apply existsb_exists. exists s. rewrite Hsn, Hp.
    split; [exact Hs|]. apply andb_true_iff. split; apply N.eqb_eq; assumption. }
  assert (E5 : verdict_ok o r = true).
  { unfold verdict_ok. apply forallb_forall. intros f Hf. destruct (ef_pap_verdict f) as [sid|] eqn:E; [|reflexivity].
    rewrite (Hvd f sid Hf E). apply N.eqb_refl. }
  rewrite E0, E1, E2, E3, E4, E5. cbn. eexists. split; [reflexivity|]. cbn. split; [exact Hsn|]. constructor; auto.
Qed.

Lemma monitor_accepts_from c st ms i ops :
  m_prev ms = st_sessions st -> Inv st (m_acc ms) (m_cur ms) -> InvI st ->
  accept_trace caccept i (c, ms) (combine ops (outs_from gates_on c st ops)) = (0, 0).
Proof.
  revert st ms i. induction ops as [|o ops IH]; intros st ms i Hp HI HII; cbn; [reflexivity|].
  destruct (accept_model c st ms o Hp HI HII) as [ms' [Ea [Hp' HI']]].
  unfold caccept at 1. cbn [fst snd]. change (step_h gates_on c st o) with (step c st o). rewrite Ea. apply IH; auto.
  apply (step_invI c st o HII).
Qed.

Lemma monitor_accepts_model c ops :
  accept_trace caccept 1 (c, sinit) (combine ops (outs c ops)) = (0, 0).
Proof. apply monitor_accepts_from; [reflexivity|apply Inv_init|constructor; cbn; try tauto; constructor]. Qed.

(* ------------------------------------------------------------------ each repair is necessary: witnesses *)
Definition accepted_inb (c : config) (rs : list out) (k : N) : bool := existsb (fun r => mem k (accepts c r)) rs.
Lemma accepted_in_b c rs k : accepted_in c rs k -> accepted_inb c rs k = true.
Proof. intros [r [Hr Hk]]. apply existsb_exists. exists r. split; [exact Hr|apply mem_In; exact Hk]. Qed.
Lemma in_existsb s l : In s l -> existsb (sess_eqb s) l = true.
Proof. intros H. apply existsb_exists. exists s. split; [exact H|apply sess_eqb_refl]. Qed.

Definition cfg0 : config :=
  {| c_mac := 100; c_service := [105]; c_acname := [66]; c_chap := false; c_mru := 1492; c_radius := true;
     c_has_pool := true; c_pool := [167837698; 167837699]; c_server_ip := 167772161; c_dns1 := None; c_dns2 := None |}.
Definition w_padr (src : N) : op :=
  {| op_src := src; op_dst := 1; op_frame := FDisc CodePADR 0 [(TagACCookie, [1;2;3;4])]; op_rad := 0 |}.
Definition w_padi (src : N) : op := {| op_src := src; op_dst := 0; op_frame := FDisc CodePADI 0 []; op_rad := 0 |}.
Definition w_padt (src sid : N) : op := {| op_src := src; op_dst := 1; op_frame := FDisc CodePADT sid []; op_rad := 0 |}.
Definition w_sess (src sid proto : N) (payload : bytes) (rad : N) : op :=
  {| op_src := src; op_dst := 1; op_frame := FSess 0 sid proto payload; op_rad := rad |}.
Definition w_pap : bytes := [1;4;0;12; 1;97; 4;103;111;111;100].      (* Authenticate-Request "a"/"good" *)
Definition w_happy : list op :=
  [w_padr 1; w_sess 1 1 ProtoLCP (ctl 2 1 []) 0; w_sess 1 1 ProtoPAP w_pap 0; w_sess 1 1 ProtoIPCP (ctl 1 7 []) 0].

Definition no_auth_gate : gates := {| g_auth := false; g_owner := true; g_copy := true |}.
Definition no_owner_gate : gates := {| g_auth := true; g_owner := false; g_copy := true |}.
Definition no_mac_copy : gates := {| g_auth := true; g_owner := true; g_copy := false |}.

Lemma established_refuted_by g c ops o :
  (exists s, In s (o_sessions (out_at_g g c ops o)) /\ s_state s = StEstablished /\
             accepted_inb c (outs_g g c (ops ++ [o])) (s_inst s) = false) ->
  ~ established_after_auth g.
Proof. intros [s [Hs [He Hb]]] H. specialize (H c ops o s Hs He). apply accepted_in_b in H. congruence. Qed.

Lemma ownership_refuted_by g c ops o :
  (exists s, In s (st_sessions (exec_g g c ops)) /\ (s_mac s =? op_src o) = false /\
             existsb (sess_eqb s) (st_sessions (exec_g g c (ops ++ [o]))) = false) ->
  ~ mac_ownership g.
Proof.
  intros [s [Hs [Hm Hb]]] H. apply N.eqb_neq in Hm. specialize (H c ops o s Hs Hm). apply in_existsb in H. congruence.
Qed.

(* IPCP Configure-Ack right after PADS => Established with no authentication *)
Lemma established_refuted_no_auth_gate : ~ established_after_auth no_auth_gate.
Proof.
  apply (established_refuted_by _ cfg0 [w_padr 1] (w_sess 1 1 ProtoIPCP (ctl 2 1 []) 0)).
  vm_compute. eexists. split; [left; reflexivity|split; reflexivity].
Qed.
Lemma established_refuted_prefix : ~ established_after_auth gates_off.
Proof.
  apply (established_refuted_by _ cfg0 [w_padr 1] (w_sess 1 1 ProtoIPCP (ctl 2 1 []) 0)).
  vm_compute. eexists. split; [left; reflexivity|split; reflexivity].
Qed.
(* after a RADIUS reject the same frame still reached Established *)
Lemma established_refuted_after_reject : ~ established_after_auth no_auth_gate.
Proof.
  apply (established_refuted_by _ cfg0 [w_padr 1; w_sess 1 1 ProtoPAP w_pap 1] (w_sess 1 1 ProtoIPCP (ctl 2 1 []) 0)).
  vm_compute. eexists. split; [left; reflexivity|split; reflexivity].
Qed.
(* PADT from a station that does not own the session removed it *)
Lemma ownership_refuted_no_owner_gate : ~ mac_ownership no_owner_gate.
Proof.
  apply (ownership_refuted_by _ cfg0 [w_padr 1] (w_padt 2 1)).
  vm_compute. eexists. split; [left; reflexivity|split; reflexivity].
Qed.
(* any frame from another station rewrote the owner MAC (ClientMAC aliased the receive buffer) *)
Lemma ownership_refuted_no_mac_copy : ~ mac_ownership no_mac_copy.
Proof.
  apply (ownership_refuted_by _ cfg0 [w_padr 1] (w_padi 2)).
  vm_compute. eexists. split; [left; reflexivity|split; reflexivity].
Qed.
Lemma ownership_refuted_prefix : ~ mac_ownership gates_off.
Proof.
  apply (ownership_refuted_by _ cfg0 [w_padr 1] (w_padi 2)).
  vm_compute. eexists. split; [left; reflexivity|split; reflexivity].
Qed.

(* ------------------------------------------------------------------ non-vacuity *)
Lemma established_reachable :
  exists s, In s (o_sessions (out_at cfg0 w_happy (w_sess 1 1 ProtoIPCP (ctl 2 2 []) 0))) /\
            s_state s = StEstablished /\ s_ip s <> None /\ s_auth s = true.
Proof. vm_compute. eexists. split; [left; reflexivity|]. repeat split; discriminate. Qed.

Lemma ipcp_ack_reachable :
  exists f sid, In f (o_frames (out_at cfg0 (firstn 3 w_happy) (w_sess 1 1 ProtoIPCP (ctl 1 7 []) 0))) /\
                ef_is ProtoIPCP 2 f = Some sid.
Proof. vm_compute. eexists. eexists. split; [left; reflexivity|reflexivity]. Qed.

(* a frame from station 2 addressed to station 1's session id: the record stays exactly as it was *)
Lemma foreign_frame_example :
  exists s, In s (st_sessions (exec cfg0 w_happy)) /\ s_mac s <> op_src (w_padt 2 1) /\ s_id s = 1 /\
            st_sessions (exec cfg0 (w_happy ++ [w_padt 2 1])) = st_sessions (exec cfg0 w_happy) /\
            st_sessions (exec cfg0 (w_happy ++ [w_padt 1 1])) = [].
Proof. vm_compute. eexists. split; [left; reflexivity|]. repeat split; discriminate. Qed.

Lemma reject_after_accept_example :
  exists s, st_sessions (exec cfg0 (w_happy ++ [w_sess 1 1 ProtoPAP w_pap 1])) = [s] /\
            s_state s = StClosed /\ s_auth s = false /\ s_ip s <> None /\
            s_state (set_state s StEstablished) = StEstablished /\
            o_frames (out_at cfg0 (w_happy ++ [w_sess 1 1 ProtoPAP w_pap 1]) (w_sess 1 1 ProtoIPCP (ctl 2 2 []) 0)) = [] /\
            o_frames (out_at cfg0 (w_happy ++ [w_sess 1 1 ProtoPAP w_pap 1]) (w_sess 1 1 ProtoIPCP (ctl 1 7 []) 0)) = [] /\
            map s_state (st_sessions (exec cfg0 (w_happy ++ [w_sess 1 1 ProtoPAP w_pap 1; w_sess 1 1 ProtoIPCP (ctl 2 2 []) 0]))) = [StClosed].
Proof. vm_compute. eexists. split; [reflexivity|]. repeat split; discriminate. Qed.

(* a foreign PADR that copies every tag of the owner's PADR (and its session id in the header) *)
Definition w_padr_hu (src sid : N) : op :=
  {| op_src := src; op_dst := 1;
     op_frame := FDisc CodePADR sid [(TagServiceName, [105]); (TagHostUniq, [7;7]); (TagACCookie, [1;2;3;4])]; op_rad := 0 |}.
Definition w_happy_hu : list op :=
  [w_padr_hu 1 0; w_sess 1 1 ProtoLCP (ctl 2 1 []) 0; w_sess 1 1 ProtoPAP w_pap 0; w_sess 1 1 ProtoIPCP (ctl 1 7 []) 0;
   w_sess 1 1 ProtoIPCP (ctl 2 2 []) 0].
Definition w_new_sess (id mac inst : N) : sess :=
  {| s_id := id; s_mac := mac; s_state := StLCP; s_auth := false; s_ip := None; s_lcpid := 0; s_pin := 0; s_pout := 0;
     s_inst := inst; s_hu := Some [7;7]; s_svc := [105]; s_user := [] |}.
Lemma foreign_padr_example :
  exists a, In a (st_sessions (exec cfg0 w_happy_hu)) /\ s_mac a = 1 /\ s_hu a = Some [7;7] /\ s_state a = StEstablished /\
            st_sessions (exec cfg0 (w_happy_hu ++ [w_padr_hu 2 1])) =
              st_sessions (exec cfg0 w_happy_hu) ++ [fst (lcp_request cfg0 (w_new_sess 2 2 1))] /\
            In (EDisc 2 CodePADS 2 [(TagServiceName, c_service cfg0); (TagHostUniq, [7;7])])
               (o_frames (out_at cfg0 w_happy_hu (w_padr_hu 2 1))).
Proof. vm_compute. eexists. split; [left; reflexivity|]. repeat split. left; reflexivity. Qed.

(* ------------------------------------------------------------------ the monitor is sound for ANY trace
   (in particular the real server's): if it accepts, the four clauses hold at every step, stated on the
   observations alone. *)
Definition table_after (init : list sess) (pre : list (op * out)) : list sess :=
  fold_left (fun _ x => o_sessions (snd x)) pre init.

Definition step_clauses (c : config) (rs : list out) (prev : list sess) (o : op) (r : out) : Prop :=
  (forall s, In s (o_sessions r) -> s_state s = StEstablished -> accepted_latest c rs (s_inst s)) /\
  (forall s, In s (o_sessions r) -> s_ip s <> None -> accepted_in c rs (s_inst s)) /\
  (forall f sid, In f (o_frames r) -> ef_is ProtoIPCP 2 f = Some sid ->
     exists s, In s (o_sessions r) /\ s_id s = sid /\ accepted_latest c rs (s_inst s)) /\
  (forall s, In s prev -> s_mac s <> op_src o -> In s (o_sessions r)) /\
  (forall f d sid, In f (o_frames r) -> ef_sid f = Some (d, sid) ->
     exists s, In s (o_sessions r ++ prev) /\ s_id s = sid /\ s_mac s = d) /\
  (forall f sid, In f (o_frames r) -> ef_pap_verdict f = Some sid -> op_sid o = Some sid).

Lemma opt_eqb_eq a b : opt_eqb a b = true -> a = b.
Proof. destruct a, b; cbn; try discriminate; auto. intros H. apply N.eqb_eq in H. congruence. Qed.

Lemma sess_eqb_eq a b : sess_eqb a b = true -> a = b.
Proof.
  destruct a as [a1 a2 a3 a4 a5 a6 a7 a8 a9 hu0 sv0 us0], b as [b1 b2 b3 b4 b5 b6 b7 b8 b9 hu1 sv1 us1].
  unfold sess_eqb; cbn. rewrite !andb_true_iff, !N.eqb_eq.
  intros [[[[[[[[[[[H1 H2] H3] H4] H5] H6] H7] H8] H9] H10] H11] H12]. apply eqb_prop in H4. apply opt_eqb_eq in H5.
  apply bytes_eqb_eq in H11, H12.
  assert (hu0 = hu1) by (destruct hu0, hu1; cbn in H10; try discriminate; [apply bytes_eqb_eq in H10|]; congruence).
  congruence.
Qed.

Lemma accept_inl c ms o r ms' : accept c ms o r = inl ms' ->
  ms' = {| m_prev := o_sessions r; m_acc := accepts c r ++ m_acc ms; m_cur := next_cur c (m_cur ms) r |} /\
  forall rs, (forall k, In k (accepts c r ++ m_acc ms) -> accepted_in c rs k) ->
  (forall k, In k (next_cur c (m_cur ms) r) -> accepted_latest c rs k) ->
  step_clauses c rs (m_prev ms) o r.
Proof.
  unfold accept.
  destruct (established_ok _ r) eqn:E0; cbn; [|discriminate].
  destruct (clientip_ok _ r) eqn:E1; cbn; [|discriminate].
  destruct (ipcp_ack_ok _ r) eqn:E2; cbn; [|discriminate].
  destruct (ownership_ok _ _ r) eqn:E3; cbn; [|discriminate].
  destruct (emitted_ok _ r) eqn:E4; cbn; [|discriminate].
  destruct (verdict_ok o r) eqn:E5; cbn; [|discriminate].
  intros H; inversion H; subst; clear H. split; [reflexivity|]. intros rs Hrs Hcs.
  unfold established_ok in E0. unfold clientip_ok in E1. unfold ipcp_ack_ok in E2. unfold ownership_ok in E3.
  unfold emitted_ok in E4. unfold verdict_ok in E5.
  rewrite forallb_forall in E0, E1, E2, E3, E4, E5. repeat split.
  - intros s Hs He. specialize (E0 s Hs). apply N.eqb_eq in He. rewrite He in E0. cbn in E0.
    apply Hcs. apply mem_In. exact E0.
  - intros s Hs Hip. specialize (E1 s Hs). destruct (s_ip s); [|congruence]. apply Hrs. apply mem_In. exact E1.
  - intros f sid Hf He. specialize (E2 f Hf). rewrite He in E2. apply existsb_exists in E2.
    destruct E2 as [s [Hs Hb]]. apply andb_true_iff in Hb. destruct Hb as [Hid Hm]. apply N.eqb_eq in Hid.
    exists s. split; [exact Hs|split; [exact Hid|]]. apply Hcs. apply mem_In. exact Hm.
  - intros s Hs Hne. specialize (E3 s Hs). apply N.eqb_neq in Hne. rewrite Hne in E3. cbn in E3.
    apply existsb_exists in E3. destruct E3 as [x [Hx He]]. apply sess_eqb_eq in He. subst x. exact Hx.
  - intros f d sid Hf He. specialize (E4 f Hf). rewrite He in E4. apply existsb_exists in E4.
    destruct E4 as [s [Hs Hb]]. apply andb_true_iff in Hb. destruct Hb as [Hid Hm]. apply N.eqb_eq in Hid, Hm.
    exists s. auto.
  - intros f sid Hf He. specialize (E5 f Hf). rewrite He in E5. destruct (op_sid o) as [x|]; [|discriminate].
    apply N.eqb_eq in E5. congruence.
Qed.

Lemma accepted_in_mono c rs rs' k : accepted_in c rs k -> incl rs rs' -> accepted_in c rs' k.
Proof. intros [r [Hr Hk]] Hi. exists r. split; auto. Qed.

Lemma monitor_sound_from c tr : forall ms i rs0,
  (forall k, In k (m_acc ms) -> accepted_in c rs0 k) ->
  (forall k, In k (m_cur ms) -> accepted_latest c rs0 k) ->
  accept_trace caccept i (c, ms) tr = (0, 0) ->
  forall pre o r post, tr = pre ++ (o, r) :: post ->
  step_clauses c (rs0 ++ map snd pre ++ [r]) (table_after (m_prev ms) pre) o r.
Proof.
  induction tr as [|[o1 r1] tl IH]; intros ms i rs0 Hacc Hcur Hrun pre o r post Heq.
  - destruct pre; discriminate.
  - cbn in Hrun. unfold caccept at 1 in Hrun. cbn [fst snd] in Hrun.
    destruct (accept c ms o1 r1) as [ms'|n] eqn:Ea; [|inversion Hrun; lia].
    destruct (accept_inl _ _ _ _ _ Ea) as [Ems Hcl].
    destruct pre as [|[o2 r2] pre'].
    + cbn in Heq. inversion Heq; subst o1 r1 tl. cbn [map app table_after fold_left].
      apply Hcl; [|apply latest_step; exact Hcur]. intros k Hk. apply in_app_or in Hk. destruct Hk as [Hk|Hk].
      * exists r. split; [apply in_or_app; right; left; reflexivity|exact Hk].
      * eapply accepted_in_mono; [apply Hacc; exact Hk|apply incl_appl, incl_refl].
    + cbn in Heq. inversion Heq; subst o2 r2 tl.
      specialize (IH ms' (i + 1) (rs0 ++ [r1])).
      assert (Hacc' : forall k, In k (m_acc ms') -> accepted_in c (rs0 ++ [r1]) k).
      { rewrite Ems. cbn. intros k Hk. apply in_app_or in Hk. destruct Hk as [Hk|Hk].
        - exists r1. split; [apply in_or_app; right; left; reflexivity|exact Hk].
        - eapply accepted_in_mono; [apply Hacc; exact Hk|apply incl_appl, incl_refl]. }
      assert (Hcur' : forall k, In k (m_cur ms') -> accepted_latest c (rs0 ++ [r1]) k).
      { rewrite Ems. cbn. apply latest_step; exact Hcur. }
      specialize (IH Hacc' Hcur' Hrun pre' o r post eq_refl).
      rewrite Ems in IH. cbn [m_prev] in IH. cbn [map snd app table_after fold_left].
      rewrite <- app_assoc in IH. exact IH.
Qed.

Lemma monitor_sound c tr :
  accept_trace caccept 1 (c, sinit) tr = (0, 0) ->
  forall pre o r post, tr = pre ++ (o, r) :: post ->
  step_clauses c (map snd pre ++ [r]) (table_after [] pre) o r.
Proof.
  intros Hrun pre o r post Heq.
  apply (monitor_sound_from c tr sinit 1 [] (fun k (H : In k []) => match H with end)
           (fun k (H : In k []) => match H with end) Hrun pre o r post Heq).
Qed.

