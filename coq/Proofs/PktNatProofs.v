(* C07 for bpf/nat44.c (Model/TcNatPkt.v) *)
From Coq Require Import NArith List Bool Lia ZifyN ZifyNat ZifyBool.
From Verif Require Import Base.Word Model.PktMonad Model.TcNatPkt Proofs.PktMonadProofs Proofs.PktAntispoofProofs.
Import ListNotations.
Local Open Scope N_scope.

Lemma inb_nat_egress mp n : inb n (nat_egress_body mp n).
Proof.
  unfold nat_egress_body, snat_rewrite, update_csum, update_csum16. cbv zeta. inb_go.
Qed.

(* at the first store of a path: the Act predicate follows from the tests passed so far *)
Ltac norm_tests :=
  repeat match goal with
  | H : negb _ = false |- _ => apply negb_false_iff in H
  | H : negb _ = true |- _ => apply negb_true_iff in H
  end.
Ltac rw_tests :=
  repeat match goal with
  | H : _ = true |- _ => rewrite H
  | H : _ = false |- _ => rewrite H
  | H : _ = Some _ |- _ => rewrite H
  end.

Lemma pu_nat_egress mp f0 : pu f0 (act_nat_egress mp f0 = true) (nat_egress_body mp (flen f0)).
Proof.
  unfold nat_egress_body, snat_rewrite, update_csum, update_csum16. cbv zeta. pu_go.
  all: apply pu_act; subst; norm_tests; unfold act_nat_egress, supported_l4;
       replace (34 <=? flen f0) with true by (symmetry; apply N.leb_le; lia);
       rw_tests; reflexivity.
Qed.

Lemma inb_nat_ingress mp n : inb n (nat_ingress_body mp n).
Proof.
  unfold nat_ingress_body, dnat_rewrite, update_csum, update_csum16. cbv zeta. inb_go.
Qed.

Lemma pu_nat_ingress mp f0 : pu f0 (act_nat_ingress mp f0 = true) (nat_ingress_body mp (flen f0)).
Proof.
  unfold nat_ingress_body, dnat_rewrite, update_csum, update_csum16. cbv zeta. pu_go.
  all: apply pu_act; subst; norm_tests; try congruence; unfold act_nat_ingress, ingress_key.
  all: replace (34 <=? flen f0) with true by (symmetry; apply N.leb_le; lia).
  all: try replace (14 + N.land (getb 14 f0) 15 * 4 + 20 <=? flen f0) with true by (symmetry; apply N.leb_le; lia).
  all: try replace (14 + N.land (getb 14 f0) 15 * 4 + 8 <=? flen f0) with true by (symmetry; apply N.leb_le; lia).
  all: rw_tests; cbn [negb andb]; rw_tests; reflexivity.
Qed.

Lemma inb_nat_hairpin mp n : inb n (nat_hairpin_body mp n).
Proof. unfold nat_hairpin_body. inb_go. Qed.
Lemma pu_nat_hairpin mp f0 : pu f0 False (nat_hairpin_body mp (flen f0)).
Proof. unfold nat_hairpin_body. pu_go. Qed.

Definition xdp_pass_only (v : N) : bool := v =? XDP_PASS.
Lemma vdr_nat_egress mp n : vdr tc_ok_or_shot (nat_egress_body mp n).
Proof. unfold nat_egress_body, snat_rewrite, update_csum, update_csum16. cbv zeta. vdr_go. Qed.
Lemma vdr_nat_ingress mp n : vdr tc_ok_or_shot (nat_ingress_body mp n).
Proof. unfold nat_ingress_body, dnat_rewrite, update_csum, update_csum16. cbv zeta. vdr_go. Qed.
Lemma vdr_nat_hairpin mp n : vdr xdp_pass_only (nat_hairpin_body mp n).
Proof. unfold nat_hairpin_body. vdr_go. Qed.

Theorem no_oob_nat_egress : forall mp f, run (nat44_egress mp) f <> Fault.
Proof. intros. apply inb_run. unfold nat44_egress. apply (inb_dl _ (nat_egress_body mp)). apply inb_nat_egress. Qed.
Theorem no_oob_nat_ingress : forall mp f, run (nat44_ingress mp) f <> Fault.
Proof. intros. apply inb_run. unfold nat44_ingress. apply (inb_dl _ (nat_ingress_body mp)). apply inb_nat_ingress. Qed.
Theorem no_oob_nat_hairpin : forall mp f, run (nat44_hairpin_xdp mp) f <> Fault.
Proof. intros. apply inb_run. unfold nat44_hairpin_xdp. apply (inb_dl _ (nat_hairpin_body mp)). apply inb_nat_hairpin. Qed.

(* whatever the verdict: the frame is changed only when the act predicate holds *)
Theorem pass_untouched_nat_egress : forall mp f v f',
  run (nat44_egress mp) f = Done v f' -> f' = f \/ act_nat_egress mp f = true.
Proof.
  intros mp f v f' H. eapply pu_run; [|exact H].
  unfold nat44_egress. apply (pu_dl _ _ (nat_egress_body mp)). apply pu_nat_egress.
Qed.
Theorem pass_untouched_nat_ingress : forall mp f v f',
  run (nat44_ingress mp) f = Done v f' -> f' = f \/ act_nat_ingress mp f = true.
Proof.
  intros mp f v f' H. eapply pu_run; [|exact H].
  unfold nat44_ingress. apply (pu_dl _ _ (nat_ingress_body mp)). apply pu_nat_ingress.
Qed.
Theorem untouched_nat_hairpin : forall mp f v f', run (nat44_hairpin_xdp mp) f = Done v f' -> f' = f.
Proof.
  intros mp f v f' H.
  assert (P : pu f False (nat44_hairpin_xdp mp)) by (unfold nat44_hairpin_xdp; apply (pu_dl _ _ (nat_hairpin_body mp)); apply pu_nat_hairpin).
  destruct (pu_run _ _ _ _ _ P H) as [E|E]; [exact E|destruct E].
Qed.

Theorem verdict_nat_egress : forall mp f v f', run (nat44_egress mp) f = Done v f' -> v = TC_ACT_OK \/ v = TC_ACT_SHOT.
Proof.
  intros mp f v f' H.
  assert (P : vdr tc_ok_or_shot (nat44_egress mp)) by (unfold nat44_egress; apply (vdr_dl _ (nat_egress_body mp)); intro; apply vdr_nat_egress).
  apply (vdr_run _ _ _ _ _ P) in H. unfold tc_ok_or_shot in H. apply orb_true_iff in H. rewrite !N.eqb_eq in H. exact H.
Qed.
Theorem verdict_nat_ingress : forall mp f v f', run (nat44_ingress mp) f = Done v f' -> v = TC_ACT_OK.
Proof.
  intros mp f v f' H.
  assert (P : vdr (fun v => v =? TC_ACT_OK) (nat44_ingress mp)).
  { unfold nat44_ingress; apply (vdr_dl _ (nat_ingress_body mp)); intro.
    unfold nat_ingress_body, dnat_rewrite, update_csum, update_csum16. cbv zeta. vdr_go. }
  apply (vdr_run _ _ _ _ _ P) in H. apply N.eqb_eq in H. exact H.
Qed.
Theorem verdict_nat_hairpin : forall mp f v f', run (nat44_hairpin_xdp mp) f = Done v f' -> v = XDP_PASS.
Proof.
  intros mp f v f' H.
  assert (P : vdr xdp_pass_only (nat44_hairpin_xdp mp)) by (unfold nat44_hairpin_xdp; apply (vdr_dl _ (nat_hairpin_body mp)); intro; apply vdr_nat_hairpin).
  apply (vdr_run _ _ _ _ _ P) in H. apply N.eqb_eq in H. exact H.
Qed.
