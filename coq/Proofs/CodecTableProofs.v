(* C09 — the session-id scan for EVERY state of the session table.
   The table is a Go map keyed by uint16: a list of keys without duplicates whose length is
   len(m.sessions).  The pigeonhole hypothesis [table_wf] of CodecPPPoEProofs.v is a theorem here. *)
From Coq Require Import ZArith NArith List Lia ZifyN ZifyNat ZifyBool Bool FinFun.
From Verif Require Import Model.CodecBase Model.CodecPPPoE Model.CodecGlue
  Proofs.CodecBaseProofs Proofs.CodecPPPoEProofs.
Import ListNotations.
Local Open Scope N_scope.

Lemma mem_in keys x : mem keys x = true <-> In x keys.
Proof.
  unfold mem. rewrite existsb_exists. split.
  - intros [y [Hy E]]. apply N.eqb_eq in E. subst. assumption.
  - intros H. exists x. split; [assumption|apply N.eqb_refl].
Qed.

(* pigeonhole: fewer than n distinct keys leave one of 1..n free *)
Lemma pigeon (n : nat) (keys : list N) :
  NoDup keys -> (length keys < n)%nat ->
  exists t, 1 <= t <= N.of_nat n /\ mem keys t = false.
Proof.
  intros Hnd Hlen.
  set (cand := map N.of_nat (seq 1 n)).
  destruct (existsb (fun t => negb (mem keys t)) cand) eqn:E.
  - apply existsb_exists in E as [t [Hin Hf]].
    apply in_map_iff in Hin as [k [<- Hk]]. apply in_seq in Hk.
    exists (N.of_nat k). split; [lia|]. destruct (mem keys (N.of_nat k)); [discriminate|reflexivity].
  - exfalso.
    assert (Hincl : incl cand keys).
    { intros x Hx. apply mem_in. destruct (mem keys x) eqn:M; [reflexivity|].
      assert (existsb (fun t => negb (mem keys t)) cand = true) as E'.
      { apply existsb_exists. exists x. split; [assumption|]. rewrite M. reflexivity. }
      congruence. }
    assert (Hndc : NoDup cand).
    { apply Injective_map_NoDup; [intros a b; apply Nat2N.inj|apply seq_NoDup]. }
    pose proof (NoDup_incl_length Hndc Hincl) as Hle.
    unfold cand in Hle. rewrite map_length, seq_length in Hle. lia.
Qed.

(* [used]/[count] describe a Go map: some duplicate-free key list has that membership and length *)
Definition tbl_inv (used : N -> bool) (count : N) : Prop :=
  exists keys, NoDup keys /\ lenN keys = count /\ forall x, used x = mem keys x.

Lemma tbl_inv_wf used count : tbl_inv used count -> table_wf used count.
Proof.
  intros [keys [Hnd [Hlen Hu]]] Hc.
  destruct (pigeon (N.to_nat 65535) keys Hnd) as [t [Ht Hm]].
  - unfold lenN in Hlen. lia.
  - exists t. split; [lia|]. rewrite Hu. assumption.
Qed.

Lemma tbl_inv_mem keys : NoDup keys -> tbl_inv (mem keys) (lenN keys).
Proof. intros H. exists keys. split; [assumption|split; [reflexivity|intros x; reflexivity]]. Qed.

(* inserting an unused key keeps the representation invariant *)
Lemma tbl_inv_insert used count id :
  tbl_inv used count -> used id = false -> tbl_inv (fun x => (x =? id) || used x) (count + 1).
Proof.
  intros [keys [Hnd [Hlen Hu]]] Hid. exists (id :: keys). split; [|split].
  - constructor; [|assumption]. intros Hin. apply mem_in in Hin. rewrite <- Hu in Hin. congruence.
  - rewrite lenN_cons. lia.
  - intros x. unfold mem. cbn [existsb]. rewrite Hu. reflexivity.
Qed.

(* CreateSession never panics and never hangs, whatever the table *)
Lemma create_session_total used count next :
  tbl_inv used count -> next <= 65535 -> safe (create_session used count next).
Proof. intros H. apply create_session_safe, tbl_inv_wf, H. Qed.

Lemma create_tbl_safe keys next : NoDup keys -> next <= 65535 -> safe (create_tbl keys next).
Proof. intros Hnd Hn. unfold create_tbl. apply create_session_total; [apply tbl_inv_mem; assumption|assumption]. Qed.

(* the capacity exactly as coded, whatever the table: fewer than 65535 keys => an id is issued *)
Lemma create_tbl_issues keys next : NoDup keys -> next <= 65535 -> lenN keys < 65535 ->
  exists id nx, create_tbl keys next = Ok (id, nx) /\ ~ In id keys /\ 1 <= nx <= 65535.
Proof.
  intros Hnd Hn Hc. unfold create_tbl.
  destruct (create_session_issues (mem keys) (lenN keys) next) as [id [nx H]];
    [apply tbl_inv_wf, tbl_inv_mem; assumption|assumption|assumption|].
  exists id, nx. split; [assumption|].
  destruct (create_session_sound _ _ _ _ _ H) as [Hu [Hnx _]].
  split.
  - intros Hin. apply mem_in in Hin. congruence.
  - unfold create_session in H. destruct (65535 <=? lenN keys); [discriminate|].
    destruct (fst (scan_id id_fuel (mem keys) next 0)) eqn:Es; cbn in H; try discriminate.
    inversion H; subst.
    assert (id <= 65535).
    { clear -Es Hn. revert Es. generalize 0 as steps. generalize dependent next.
      induction id_fuel as [|f IH]; intros n Hn steps; cbn [scan_id];
        destruct (negb (mem keys n)); cbn [fst]; intros E; try discriminate.
      - inversion E; subst; assumption.
      - inversion E; subst; assumption.
      - eapply IH; [|eassumption]. pose proof (next_id_range n Hn). lia. }
    apply next_id_range. assumption.
Qed.

Lemma create_session_cursor used count next id nx :
  next <= 65535 -> create_session used count next = Ok (id, nx) -> nx <= 65535.
Proof.
  intros Hn. unfold create_session. destruct (65535 <=? count); [discriminate|].
  destruct (fst (scan_id id_fuel used next 0)) eqn:Es; cbn; try discriminate.
  intros H; inversion H; subst.
  assert (id <= 65535).
  { clear -Es Hn. revert Es. generalize 0 as steps. generalize dependent next.
    induction id_fuel as [|f IH]; intros n Hn steps; cbn [scan_id];
      destruct (negb (used n)); cbn [fst]; intros E; try discriminate.
    - inversion E; subst; assumption.
    - inversion E; subst; assumption.
    - eapply IH; [|eassumption]. pose proof (next_id_range n Hn). lia. }
  pose proof (next_id_range id H0). lia.
Qed.

(* a PADR flood of any length on any table: no call panics or hangs *)
Lemma create_seq_safe n : forall used count next,
  tbl_inv used count -> next <= 65535 -> safe (create_seq n used count next).
Proof.
  induction n as [|n IH]; intros used count next Hinv Hn; cbn [create_seq]; [apply safe_ok|].
  pose proof (create_session_total used count next Hinv Hn) as [H1 H2].
  destruct (create_session used count next) as [[id nx]| | |] eqn:E; try congruence.
  - apply safe_bind; [|intros; apply safe_ok].
    apply IH.
    + apply tbl_inv_insert; [assumption|]. apply (create_session_sound _ _ _ _ _ E).
    + eapply create_session_cursor; eassumption.
  - apply safe_bind; [apply IH; assumption|intros; apply safe_ok].
Qed.

Lemma padr_tbl_safe keys next : NoDup keys -> next <= 65535 -> safe (padr_tbl keys next).
Proof.
  intros Hnd Hn. unfold padr_tbl. pose proof (create_tbl_safe keys next Hnd Hn) as [H1 H2].
  destruct (create_tbl keys next) as [[id nx]| | |]; try congruence; apply safe_ok.
Qed.

Lemma padr_flood_safe n : forall keys next, NoDup keys -> next <= 65535 -> safe (padr_flood n keys next).
Proof.
  induction n as [|n IH]; intros keys next Hnd Hn; cbn [padr_flood]; [apply safe_ok|].
  apply safe_bind; [apply padr_tbl_safe; assumption|].
  intros [r [k' nx]] Hx. unfold padr_tbl in Hx.
  assert (NoDup k' /\ nx <= 65535) as [Hnd' Hn'].
  { destruct (N.ltb_spec (lenN keys) 65535) as [Hlt|Hge].
    - destruct (create_tbl_issues keys next Hnd Hn Hlt) as [id [nx0 [Hc [Hnin Hr]]]].
      rewrite Hc in Hx. inversion Hx; subst. split; [constructor; assumption|lia].
    - unfold create_tbl in Hx. rewrite create_session_full in Hx by lia.
      inversion Hx; subst. split; assumption. }
  apply safe_bind; [apply IH; assumption|intros; apply safe_ok].
Qed.

(* the probe bound holds for the scan on every table (it is unconditional) *)
Lemma create_tbl_steps keys next : snd (scan_id id_fuel (mem keys) next 0) <= 65537.
Proof. apply create_session_steps. Qed.
