(* C18 - lemmas about Model/TcAntispoofC.v: the typed C derivations of bpf/antispoof.c agree with the Go
   derivations of pkg/antispoof/manager.go and with the byte-level forms used by Model/TcAntispoof.v.
   All statements are over ALL byte values (2^48 MACs): arithmetic on disjoint bit fields, no enumeration. *)
From Coq Require Import ZArith NArith List Bool Lia ZifyN ZifyNat ZifyBool.
From Verif Require Import Base.Word Model.TcAntispoofC.
Import ListNotations.
Local Open Scope N_scope.

Lemma land255_mod b : N.land b 255 = b mod 256.
Proof. change 255 with (N.ones 8). rewrite N.land_ones. reflexivity. Qed.
Lemma land255_lt b : N.land b 255 < 256.
Proof. rewrite land255_mod. apply N.mod_lt. discriminate. Qed.
Lemma land255_id b : b < 256 -> N.land b 255 = b.
Proof. intros H. rewrite land255_mod. apply N.mod_small. exact H. Qed.

Lemma z_to_u64_byte n : n < 256 -> z_to_u64 (Z.of_N n) = n.
Proof. intros H. unfold z_to_u64, TWO64. rewrite Z.mod_small by lia. apply N2Z.id. Qed.

Lemma c_cast_uchar b : c_cast_u64 (c_uchar b) = CU64 (N.land b 255).
Proof. unfold c_cast_u64, c_uchar, as_u64. f_equal. apply z_to_u64_byte. apply land255_lt. Qed.

(* every MAC (indeed every list): the C expression with its casts computes what the Go expression computes *)
Theorem c_mac_to_u64_go mac : c_mac_to_u64 mac = go_mac_to_u64 mac.
Proof.
  unfold c_mac_to_u64, go_mac_to_u64. cbv zeta. rewrite !c_cast_uchar.
  cbn [c_shl c_or as_u64]. unfold shl64. reflexivity.
Qed.

Theorem c_mac_key_go mac : c_mac_key mac = go_mac_key mac.
Proof. unfold c_mac_key, go_mac_key. rewrite c_mac_to_u64_go. reflexivity. Qed.

(* ---- value of the OR of the six shifted octets *)
Lemma land_disj a b k : a mod 2 ^ k = 0 -> b < 2 ^ k -> N.land a b = 0.
Proof.
  intros Ha Hb. apply N.bits_inj. intros n. rewrite N.land_spec, N.bits_0.
  destruct (N.lt_ge_cases n k) as [Hn|Hn].
  - assert (E : a = 2 ^ k * (a / 2 ^ k)) by (pose proof (N.div_mod a (2 ^ k) ltac:(apply N.pow_nonzero; lia)); lia).
    rewrite E, N.mul_comm, N.mul_pow2_bits_low by exact Hn. reflexivity.
  - replace b with (b mod 2 ^ k) by (apply N.mod_small; exact Hb).
    rewrite N.mod_pow2_bits_high by exact Hn. apply andb_false_r.
Qed.
Lemma lor_disj a b k : a mod 2 ^ k = 0 -> b < 2 ^ k -> N.lor a b = a + b.
Proof.
  intros Ha Hb. pose proof (land_disj a b k Ha Hb) as H0.
  rewrite (N.add_nocarry_lxor a b H0). symmetry. apply N.lxor_lor. exact H0.
Qed.
Lemma shl64_fits b n : b * 2 ^ n < W64 -> shl64 b n = b * 2 ^ n.
Proof. intros H. unfold shl64. rewrite wrap64_mod, N.shiftl_mul_pow2. apply N.mod_small. exact H. Qed.

Definition mac48 (b0 b1 b2 b3 b4 b5 : N) : N := ((((b0 * 256 + b1) * 256 + b2) * 256 + b3) * 256 + b4) * 256 + b5.

Lemma or6_val b0 b1 b2 b3 b4 b5 :
  b0 < 256 -> b1 < 256 -> b2 < 256 -> b3 < 256 -> b4 < 256 -> b5 < 256 ->
  N.lor (N.lor (N.lor (N.lor (N.lor (shl64 b0 40) (shl64 b1 32)) (shl64 b2 24)) (shl64 b3 16)) (shl64 b4 8)) b5
  = mac48 b0 b1 b2 b3 b4 b5.
Proof.
  intros H0 H1 H2 H3 H4 H5. unfold mac48.
  rewrite !shl64_fits by (unfold W64; cbn; lia).
  change (2 ^ 40) with 1099511627776. change (2 ^ 32) with 4294967296. change (2 ^ 24) with 16777216.
  change (2 ^ 16) with 65536. change (2 ^ 8) with 256.
  rewrite (lor_disj (b0 * 1099511627776) _ 40) by (change (2 ^ 40) with 1099511627776; first [apply N.mod_mul; lia|lia]).
  replace (b0 * 1099511627776 + b1 * 4294967296) with ((b0 * 256 + b1) * 4294967296) by lia.
  rewrite (lor_disj _ (b2 * 16777216) 32) by (change (2 ^ 32) with 4294967296; first [apply N.mod_mul; lia|lia]).
  replace ((b0 * 256 + b1) * 4294967296 + b2 * 16777216) with (((b0 * 256 + b1) * 256 + b2) * 16777216) by lia.
  rewrite (lor_disj _ (b3 * 65536) 24) by (change (2 ^ 24) with 16777216; first [apply N.mod_mul; lia|lia]).
  replace (((b0 * 256 + b1) * 256 + b2) * 16777216 + b3 * 65536) with ((((b0 * 256 + b1) * 256 + b2) * 256 + b3) * 65536) by lia.
  rewrite (lor_disj _ (b4 * 256) 16) by (change (2 ^ 16) with 65536; first [apply N.mod_mul; lia|lia]).
  replace ((((b0 * 256 + b1) * 256 + b2) * 256 + b3) * 65536 + b4 * 256) with (((((b0 * 256 + b1) * 256 + b2) * 256 + b3) * 256 + b4) * 256) by lia.
  rewrite (lor_disj _ b5 8) by (change (2 ^ 8) with 256; first [apply N.mod_mul; lia|lia]).
  reflexivity.
Qed.

Lemma le_mem_step k r b : b < 256 -> le_mem (S k) (r * 256 + b) = b :: le_mem k r.
Proof.
  intros Hb. cbn [le_mem]. f_equal.
  - rewrite N.add_comm, N.mod_add by lia. apply N.mod_small. exact Hb.
  - f_equal. rewrite N.add_comm, N.div_add by lia. rewrite N.div_small by exact Hb. reflexivity.
Qed.

Lemma le_mem_mac48 b0 b1 b2 b3 b4 b5 :
  b0 < 256 -> b1 < 256 -> b2 < 256 -> b3 < 256 -> b4 < 256 -> b5 < 256 ->
  le_mem 8 (mac48 b0 b1 b2 b3 b4 b5) = [b5; b4; b3; b2; b1; b0; 0; 0].
Proof.
  intros H0 H1 H2 H3 H4 H5. unfold mac48. rewrite !le_mem_step by assumption.
  replace b0 with (0 * 256 + b0) at 1 by lia. rewrite le_mem_step by assumption. reflexivity.
Qed.

(* the key the manager writes is the 48-bit big-endian MAC in a little-endian u64, for EVERY 6-byte MAC *)
Theorem go_mac_key_spec mac : length mac = 6%nat -> go_mac_key mac = spec_mac_key mac.
Proof.
  intros Hl. destruct mac as [|b0 [|b1 [|b2 [|b3 [|b4 [|b5 [|]]]]]]]; try discriminate.
  unfold go_mac_key, go_mac_to_u64, spec_mac_key. cbn [nth map rev app].
  rewrite or6_val by apply land255_lt. apply le_mem_mac48; apply land255_lt.
Qed.

Theorem c_mac_key_spec mac : length mac = 6%nat -> c_mac_key mac = spec_mac_key mac.
Proof. intros H. rewrite c_mac_key_go. apply go_mac_key_spec. exact H. Qed.

Lemma map_land255_wf l : wf_bytes l -> map (fun b => N.land b 255) l = l.
Proof.
  induction 1 as [|x l Hx _ IH]; [reflexivity|]. cbn [map]. rewrite land255_id by exact Hx. rewrite IH. reflexivity.
Qed.

Theorem c_mac_key_wf mac : length mac = 6%nat -> wf_bytes mac -> c_mac_key mac = rev mac ++ [0; 0].
Proof. intros Hl Hw. rewrite c_mac_key_spec by exact Hl. unfold spec_mac_key. rewrite map_land255_wf by exact Hw. reflexivity. Qed.

(* distinct MACs have distinct keys: no subscriber's frames are judged against another subscriber's binding *)
Theorem c_mac_key_injective a b :
  length a = 6%nat -> length b = 6%nat -> wf_bytes a -> wf_bytes b -> c_mac_key a = c_mac_key b -> a = b.
Proof.
  intros La Lb Wa Wb H. rewrite (c_mac_key_wf a La Wa), (c_mac_key_wf b Lb Wb) in H.
  apply app_inv_tail in H. rewrite <- (rev_involutive a), <- (rev_involutive b), H. reflexivity.
Qed.

(* the typed semantics tells the cast-less variant apart: top bit of octet 2 set => sign extension *)
Example int_shifts_sign_extend :
  c_mac_to_u64_int_shifts [2; 17; 162; 51; 68; 85] = 18446744072135853141 /\
  c_mac_to_u64 [2; 17; 162; 51; 68; 85] = 2274758968405 /\
  c_mac_to_u64_int_shifts [2; 17; 127; 51; 68; 85] = c_mac_to_u64 [2; 17; 127; 51; 68; 85].
Proof. vm_compute. repeat split; reflexivity. Qed.

(* ---- fields: the C comparisons are the byte-wise comparisons the Model uses *)
Lemma c_proto_is_v4 p : length p = 2%nat -> wf_bytes p -> c_proto_is p 2048 = bytes_eqb p [8; 0].
Proof.
  intros Hl Hw. destruct p as [|a [|b [|]]]; try discriminate.
  inversion Hw as [|? ? Ha Hw']; subst. inversion Hw' as [|? ? Hb _]; subst.
  unfold c_proto_is, c_load_u16, c_htons, c_eq. cbn [firstn map]. rewrite !land255_id by assumption.
  change (2048 mod 256 * 256 + 2048 / 256 mod 256) with 8.
  unfold le_val, be_val. cbn [rev app fold_left bytes_eqb].
  destruct (a =? 8) eqn:Ea; destruct (b =? 0) eqn:Eb; cbn [andb];
    first [apply Z.eqb_eq; lia | apply Z.eqb_neq; lia].
Qed.

Lemma c_proto_is_v6 p : length p = 2%nat -> wf_bytes p -> c_proto_is p 34525 = bytes_eqb p [134; 221].
Proof.
  intros Hl Hw. destruct p as [|a [|b [|]]]; try discriminate.
  inversion Hw as [|? ? Ha Hw']; subst. inversion Hw' as [|? ? Hb _]; subst.
  unfold c_proto_is, c_load_u16, c_htons, c_eq. cbn [firstn map]. rewrite !land255_id by assumption.
  change (34525 mod 256 * 256 + 34525 / 256 mod 256) with 56710.
  unfold le_val, be_val. cbn [rev app fold_left bytes_eqb].
  destruct (a =? 134) eqn:Ea; destruct (b =? 221) eqn:Eb; cbn [andb];
    first [apply Z.eqb_eq; lia | apply Z.eqb_neq; lia].
Qed.

Lemma c_ethertype_tests p : length p = 2%nat -> wf_bytes p ->
  c_proto_is p 2048 = bytes_eqb p [8; 0] /\ c_proto_is p 34525 = bytes_eqb p [134; 221].
Proof. intros Hl Hw. split; [exact (c_proto_is_v4 p Hl Hw)|exact (c_proto_is_v6 p Hl Hw)]. Qed.

Lemma wf4 l : length l = 4%nat -> wf_bytes l -> exists a b c d, l = [a; b; c; d] /\ a < 256 /\ b < 256 /\ c < 256 /\ d < 256.
Proof.
  intros Hl Hw. destruct l as [|a [|b [|c [|d [|]]]]]; try discriminate.
  inversion Hw as [|? ? Ha H1]; subst. inversion H1 as [|? ? Hb H2]; subst.
  inversion H2 as [|? ? Hc H3]; subst. inversion H3 as [|? ? Hd _]; subst.
  exists a, b, c, d. auto.
Qed.

(* src_ip == binding->ipv4_addr (two little-endian __u32 loads) is equality of the four bytes in memory *)
Lemma c_saddr_eq_bytes src bound : length src = 4%nat -> length bound = 4%nat -> wf_bytes src -> wf_bytes bound ->
  c_saddr_eq src bound = bytes_eqb src bound.
Proof.
  intros L1 L2 W1 W2.
  destruct (wf4 src L1 W1) as (a & b & c & d & -> & Ha & Hb & Hc & Hd).
  destruct (wf4 bound L2 W2) as (a' & b' & c' & d' & -> & Ha' & Hb' & Hc' & Hd').
  unfold c_saddr_eq, c_load_u32, c_eq, as_u32. cbn [firstn map]. rewrite !land255_id by assumption.
  unfold le_val, be_val. cbn [rev app fold_left bytes_eqb].
  destruct (a =? a') eqn:E1; destruct (b =? b') eqn:E2; destruct (c =? c') eqn:E3; destruct (d =? d') eqn:E4; cbn [andb];
    first [apply N.eqb_eq; lia | apply N.eqb_neq; lia].
Qed.

(* the 16-iteration loop with early break is equality of the sixteen bytes *)
Lemma c_ip6_loop_eq : forall a b i, length a = length b -> wf_bytes a -> wf_bytes b ->
  forall pre, length pre = i -> c_ip6_loop (length a) i (pre ++ a) (pre ++ b) true = bytes_eqb a b.
Proof.
  induction a as [|x a IH]; intros b i Hl Wa Wb pre Hp.
  - destruct b; [reflexivity|discriminate].
  - destruct b as [|y b]; [discriminate|]. cbn [length c_ip6_loop bytes_eqb].
    inversion Wa as [|? ? Hx Wa']; subst. inversion Wb as [|? ? Hy Wb']; subst.
    rewrite !app_nth2 by lia. rewrite Nat.sub_diag. cbn [nth].
    unfold c_eq, c_uchar. rewrite !land255_id by assumption.
    destruct (x =? y) eqn:E.
    + replace (Z.of_N x =? Z.of_N y)%Z with true by (symmetry; apply Z.eqb_eq; lia). cbn [negb andb].
      replace (pre ++ x :: a) with ((pre ++ [x]) ++ a) by (rewrite <- app_assoc; reflexivity).
      replace (pre ++ y :: b) with ((pre ++ [y]) ++ b) by (rewrite <- app_assoc; reflexivity).
      apply N.eqb_eq in E. subst y.
      apply IH; try assumption; [cbn in Hl; lia|rewrite app_length; cbn; lia].
    + replace (Z.of_N x =? Z.of_N y)%Z with false by (symmetry; apply Z.eqb_neq; lia). reflexivity.
Qed.

Theorem c_ip6_eq_bytes a b : length a = 16%nat -> length b = 16%nat -> wf_bytes a -> wf_bytes b ->
  c_ip6_eq a b = bytes_eqb a b.
Proof.
  intros La Lb Wa Wb. unfold c_ip6_eq. rewrite <- La.
  apply (c_ip6_loop_eq a b 0%nat ltac:(lia) Wa Wb []). reflexivity.
Qed.

Lemma le_mem4_le_val a b c d : a < 256 -> b < 256 -> c < 256 -> d < 256 ->
  le_mem 4 (le_val [a; b; c; d]) = [a; b; c; d].
Proof.
  intros Ha Hb Hc Hd. unfold le_val, be_val. cbn [rev app fold_left].
  rewrite !le_mem_step by assumption. reflexivity.
Qed.

(* the LPM lookup key: prefix length 32 and the four source bytes as they stand in the packet *)
Theorem c_lpm_lookup_key_bytes src : length src = 4%nat -> wf_bytes src -> c_lpm_lookup_key src = [32; 0; 0; 0] ++ src.
Proof.
  intros L W. destruct (wf4 src L W) as (a & b & c & d & -> & Ha & Hb & Hc & Hd).
  unfold c_lpm_lookup_key, c_load_u32, as_u32. cbn [firstn map]. rewrite !land255_id by assumption.
  rewrite le_mem4_le_val by assumption. reflexivity.
Qed.
