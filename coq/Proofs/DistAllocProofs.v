(* Lemmas for C12 about Model/DistAlloc.v and Model/Persist.v. *)
From Coq Require Import NArith ZArith List Bool Lia ZifyN ZifyNat ZifyBool Permutation.
From Verif Require Import Base.Word Model.PoolMap Model.Geometry Model.PoolSpec Model.Bitmap
  Model.DistAlloc Model.Persist Proofs.PoolMapProofs Proofs.GeometryProofs Proofs.BitmapProofs.
Import ListNotations.
Local Open Scope N_scope.

(* ================================================================================ *)
(* Bitmap step: what each inner call does to the forward map                         *)

Lemma bnext_next b o : bnext b o = next b o.
Proof. reflexivity. Qed.

Lemma wrap64_small i : i < W64 -> wrap64 i = i.
Proof. intros H. rewrite wrap64_mod. apply N.mod_small. exact H. Qed.

Definition geo_small (g : geo) : Prop := g_total g <= W64.

Lemma alloc_spec b h :
  (exists i, aget h (b_alloc b) = Some i /\ Bitmap.step b (Alloc h) = (b, OUnit (unit_of b i), [])) \/
  (aget h (b_alloc b) = None /\ exists i b1 m, Bitmap.step b (Alloc h) = (b1, OUnit (unit_of b i), m) /\
     b_alloc b1 = aset h i (b_alloc b) /\ b_g b1 = b_g b) \/
  (aget h (b_alloc b) = None /\ exists m, Bitmap.step b (Alloc h) = (b, OErr 1, m)).
Proof.
  cbn [Bitmap.step]. destruct (aget h (b_alloc b)) as [i|] eqn:E.
  - left. eauto.
  - right. destruct (find_free b) as [i|].
    + left. split; [reflexivity|]. do 3 eexists. split; [reflexivity|]. split; reflexivity.
    + right. split; [reflexivity|]. eexists. reflexivity.
Qed.

Lemma release_alloc b h :
  b_alloc (bnext b (Release h)) = match aget h (b_alloc b) with Some _ => adel h (b_alloc b) | None => b_alloc b end.
Proof. unfold bnext. cbn [Bitmap.step]. destruct (aget h (b_alloc b)); reflexivity. Qed.

Lemma release_alloc_aget b h h' :
  aget h' (b_alloc (bnext b (Release h))) = if h =? h' then None else aget h' (b_alloc b).
Proof.
  rewrite release_alloc. destruct (N.eqb_spec h h') as [<-|Hne].
  - destruct (aget h (b_alloc b)) eqn:E; [apply aget_adel_eq|exact E].
  - destruct (aget h (b_alloc b)); [apply aget_adel_ne; exact Hne|reflexivity].
Qed.

Lemma bnext_geo b o : b_g (bnext b o) = b_g b.
Proof. apply next_geo. Qed.

Lemma bnext_inv b o : BInv b -> BInv (bnext b o).
Proof. exact (step_inv b o). Qed.

(* SetAllocation of a free (or own) unit by a subscriber *)
Lemma setalloc_free b h a pl i :
  BInv b -> index_of b a pl = Some i ->
  (forall h', aget i (b_rev b) = Some h' -> h' = h) ->
  forall h', aget h' (b_alloc (bnext b (SetAlloc h a pl))) = if h =? h' then Some i else aget h' (b_alloc b).
Proof.
  intros Hinv Hi Hfree h'. unfold bnext. cbn [Bitmap.step]. rewrite Hi.
  destruct (aget i (b_rev b)) as [h0|] eqn:Er.
  - pose proof (Hfree h0 eq_refl) as ->. rewrite N.eqb_refl. cbn [negb].
    assert (Ha : aget h (b_alloc b) = Some i) by (apply (bi_bij b Hinv); exact Er).
    rewrite Ha, N.eqb_refl. cbn [fst]. destruct (N.eqb_spec h h') as [<-|Hne]; [exact Ha|reflexivity].
  - destruct (aget h (b_alloc b)) as [old|] eqn:Eh.
    + destruct (N.eqb_spec old i) as [->|Hne]; cbn [fst].
      * destruct (N.eqb_spec h h') as [<-|Hne]; [exact Eh|reflexivity].
      * unfold upd; cbn [b_alloc]. destruct (N.eqb_spec h h') as [<-|Hne'];
          [apply aget_aset_eq|apply aget_aset_ne; exact Hne'].
    + cbn [fst]. unfold upd; cbn [b_alloc]. destruct (N.eqb_spec h h') as [<-|Hne'];
        [apply aget_aset_eq|apply aget_aset_ne; exact Hne'].
Qed.

Lemma setalloc_rev_free b h a pl i :
  BInv b -> index_of b a pl = Some i -> aget i (b_rev b) = None -> aget h (b_alloc b) = None ->
  forall j, aget j (b_rev (bnext b (SetAlloc h a pl))) = if i =? j then Some h else aget j (b_rev b).
Proof.
  intros Hinv Hi Hr Ha j. unfold bnext. cbn [Bitmap.step]. rewrite Hi, Hr, Ha. cbn [fst]. unfold upd; cbn [b_rev].
  destruct (N.eqb_spec i j) as [<-|Hne]; [apply aget_aset_eq|apply aget_aset_ne; exact Hne].
Qed.

(* SetAllocation refused: the unit belongs to someone else, or is outside the pool *)
Lemma setalloc_refused b h a pl :
  (index_of b a pl = None \/ exists i h', index_of b a pl = Some i /\ aget i (b_rev b) = Some h' /\ h' <> h) ->
  bnext b (SetAlloc h a pl) = b.
Proof.
  unfold bnext. cbn [Bitmap.step]. intros [->|(i & h' & -> & -> & Hne)]; [reflexivity|].
  destruct (N.eqb_spec h' h); [contradiction|reflexivity].
Qed.

Lemma index_of_unit b i : i < g_total (b_g b) -> i < W64 -> index_of b (unit_of b i) (g_pl (b_g b)) = Some i.
Proof.
  intros Hi Hw. unfold index_of, unit_of.
  pose proof (index_of_addr_of (b_g b) i 0 Hi (g_step_pos _)) as H. rewrite N.add_0_r in H. rewrite H.
  rewrite wrap64_small by exact Hw. reflexivity.
Qed.

Lemma index_of_pl b a pl i : index_of b a pl = Some i -> pl = g_pl (b_g b).
Proof.
  unfold index_of. destruct (index_of_addr (b_g b) a pl) eqn:E; [|discriminate].
  intros _. apply index_of_addr_sound in E. tauto.
Qed.

Lemma binv_alloc_lt b h i : BInv b -> aget h (b_alloc b) = Some i -> i < g_total (b_g b).
Proof. intros Hinv H. apply (bi_rng b Hinv i h). apply (bi_bij b Hinv). exact H. Qed.

Lemma binv_alloc_inj b h1 h2 i : BInv b -> aget h1 (b_alloc b) = Some i -> aget h2 (b_alloc b) = Some i -> h1 = h2.
Proof.
  intros Hinv H1 H2. apply (bi_bij b Hinv) in H1. apply (bi_bij b Hinv) in H2. congruence.
Qed.

(* ================================================================================ *)
(* Query enumeration                                                                  *)

Lemma perm_adel (h : N) (r : rec) st : awf st -> aget h st = Some r -> Permutation ((h, r) :: adel h st) st.
Proof.
  induction st as [|[k v] m IH]; cbn [aget]; [discriminate|]. intros Hwf.
  unfold awf in Hwf. cbn [map fst] in Hwf. inversion Hwf as [|? ? Hnin Hnd]; subst.
  destruct (N.eqb_spec k h) as [->|Hne].
  - intros [= ->]. unfold adel. cbn [filter fst]. rewrite N.eqb_refl. cbn [negb].
    change (filter (fun p : N * rec => negb (fst p =? h)) m) with (adel h m).
    rewrite adel_none; [apply Permutation_refl|]. apply aget_none_keys. exact Hnin.
  - intros Hg. unfold adel. cbn [filter fst]. destruct (N.eqb_spec k h); [contradiction|]. cbn [negb].
    change (filter (fun p : N * rec => negb (fst p =? h)) m) with (adel h m).
    eapply Permutation_trans; [apply perm_swap|]. apply perm_skip. apply IH; assumption.
Qed.

Lemma enum_perm ord : forall st, awf st -> Permutation (enum ord st) st.
Proof.
  induction ord as [|h tl IH]; intros st Hwf; cbn [enum]; [apply Permutation_refl|].
  destruct (aget h st) as [r|] eqn:E; [|apply IH; exact Hwf].
  eapply Permutation_trans; [apply perm_skip; apply IH; apply awf_adel; exact Hwf|].
  apply perm_adel; assumption.
Qed.

(* every enumeration order is some [ord]: a permutation is reproduced by naming its keys in order *)
Lemma enum_complete l : forall st, awf st -> Permutation l st -> enum (map fst l) st = l.
Proof.
  induction l as [|[h r] tl IH]; intros st Hwf Hp.
  - apply Permutation_nil in Hp. subst st. reflexivity.
  - cbn [map fst enum].
    assert (Hg : aget h st = Some r).
    { apply in_aget; [exact Hwf|]. eapply Permutation_in; [exact Hp|left; reflexivity]. }
    rewrite Hg. f_equal. apply IH; [apply awf_adel; exact Hwf|].
    eapply Permutation_cons_inv. eapply Permutation_trans; [exact Hp|].
    apply Permutation_sym. apply perm_adel; assumption.
Qed.

(* ================================================================================ *)
(* loadAllocations, session mode                                                      *)

Definition ridx (g : geo) (r : rec) : option N :=
  match index_of_addr g (r_addr r) (r_pl r) with Some i => Some (wrap64 i) | None => None end.

Lemma ridx_index_of b r : index_of b (r_addr r) (r_pl r) = ridx (b_g b) r.
Proof. reflexivity. Qed.

Lemma load_session_cons b x l :
  load_session b (x :: l) = load_session (bnext b (SetAlloc (fst x) (r_addr (snd x)) (r_pl (snd x)))) l.
Proof. reflexivity. Qed.

Lemma load_session_inv l : forall b, BInv b -> BInv (load_session b l) /\ b_g (load_session b l) = b_g b.
Proof.
  induction l as [|x tl IH]; intros b Hb; [split; [exact Hb|reflexivity]|].
  rewrite load_session_cons.
  destruct (IH _ (bnext_inv b (SetAlloc (fst x) (r_addr (snd x)) (r_pl (snd x))) Hb)) as [H1 H2]. split; [exact H1|].
  rewrite H2. apply bnext_geo.
Qed.

Lemma load_session_spec g l : forall b,
  BInv b -> b_g b = g -> NoDup (map fst l) ->
  (forall h r, In (h, r) l -> aget h (b_alloc b) = None) ->
  (forall h r, In (h, r) l -> exists i, ridx g r = Some i /\ aget i (b_rev b) = None) ->
  (forall h1 r1 h2 r2 i, In (h1, r1) l -> In (h2, r2) l -> ridx g r1 = Some i -> ridx g r2 = Some i -> h1 = h2) ->
  (forall h r i, In (h, r) l -> ridx g r = Some i -> aget h (b_alloc (load_session b l)) = Some i) /\
  (forall h, ~ In h (map fst l) -> aget h (b_alloc (load_session b l)) = aget h (b_alloc b)).
Proof.
  induction l as [|[h r] tl IH]; intros b Hb Hg Hnd Hnone Hfree Hinj.
  - split; [intros ? ? ? []|reflexivity].
  - cbn [map fst] in Hnd. inversion Hnd as [|? ? Hnin Hnd']; subst.
    rewrite load_session_cons. cbn [fst snd].
    destruct (Hfree h r (or_introl eq_refl)) as (i & Hi & Hri).
    assert (Hidx : index_of b (r_addr r) (r_pl r) = Some i) by (rewrite ridx_index_of; exact Hi).
    assert (Hah : aget h (b_alloc b) = None) by (eapply Hnone; left; reflexivity).
    set (b1 := bnext b (SetAlloc h (r_addr r) (r_pl r))).
    assert (Hb1 : BInv b1) by (apply bnext_inv; exact Hb).
    assert (Hg1 : b_g b1 = b_g b) by apply bnext_geo.
    assert (Hal : forall h', aget h' (b_alloc b1) = if h =? h' then Some i else aget h' (b_alloc b)).
    { apply setalloc_free; [exact Hb|exact Hidx|]. intros h' Hh'. congruence. }
    assert (Hrv : forall j, aget j (b_rev b1) = if i =? j then Some h else aget j (b_rev b)).
    { apply setalloc_rev_free; assumption. }
    destruct (IH b1 Hb1 (eq_trans Hg1 eq_refl) Hnd') as [IH1 IH2].
    + intros h2 r2 Hin. rewrite Hal. destruct (N.eqb_spec h h2) as [<-|Hne].
      * exfalso. apply Hnin. apply (in_map fst) in Hin. exact Hin.
      * eapply Hnone. right. exact Hin.
    + intros h2 r2 Hin. destruct (Hfree h2 r2 (or_intror Hin)) as (i2 & Hi2 & Hr2).
      exists i2. split; [exact Hi2|]. rewrite Hrv. destruct (N.eqb_spec i i2) as [<-|Hne]; [|exact Hr2].
      exfalso. assert (h = h2) by (eapply Hinj; [left; reflexivity|right; exact Hin|exact Hi|exact Hi2]).
      subst h2. apply Hnin. apply (in_map fst) in Hin. exact Hin.
    + intros h1 r1 h2 r2 j H1 H2. apply Hinj; right; assumption.
    + split.
      * intros h2 r2 i2 [Heq|Hin] Hi2.
        -- inversion Heq; subst h2 r2. rewrite IH2 by exact Hnin. rewrite Hal, N.eqb_refl. congruence.
        -- eapply IH1; eassumption.
      * intros h2 Hn. cbn [map fst In] in Hn. rewrite IH2 by tauto. rewrite Hal.
        destruct (N.eqb_spec h h2); [tauto|reflexivity].
Qed.

(* ================================================================================ *)
(* Session mode: the invariant "memory and store agree" over all histories            *)

Definition SInv (s : dstate) : Prop :=
  d_lease s = false /\ b_g (d_bm s) = c_geo (d_cfg s) /\ BInv (d_bm s).

Definition Agree (s : dstate) : Prop :=
  awf (d_store s) /\
  forall h, match aget h (d_store s), aget h (b_alloc (d_bm s)) with
            | Some r, Some i => r_addr r = unit_of (d_bm s) i /\ r_pl r = g_pl (c_geo (d_cfg s))
            | None, None => True
            | _, _ => False
            end.

(* decidable guards on operations (what a consistent peer / a timely watch delivers) *)
Definition remote_ok (s : dstate) (h a pl : N) : bool :=
  match index_of (d_bm s) a pl with
  | Some i => (a =? unit_of (d_bm s) i) &&
              match aget i (b_rev (d_bm s)) with Some h' => h' =? h | None => true end
  | None => false
  end.
Definition op_ok (s : dstate) (o : dop) : bool :=
  match o with
  | DRemotePut h a pl _ => remote_ok s h a pl
  | DEcho h r => rec_same r (aget h (d_store s))
  | _ => true
  end.
Fixpoint guard_run (s : dstate) (ops : list dop) : bool :=
  match ops with [] => true | o :: tl => op_ok s o && guard_run (dnext s o) tl end.
Definition hist_ok (c : cfg) (ops : list dop) : bool := guard_run (dinit c) ops.

Lemma dnext_cfg s o : d_cfg (dnext s o) = d_cfg s.
Proof.
  unfold dnext, dstep, restart_with, handle_remote, set_bm, set_ep, set_store, mkout.
  destruct o; cbn;
  repeat match goal with
         | |- context [match ?x with _ => _ end] => destruct x; cbn
         | |- context [if ?x then _ else _] => destruct x; cbn
         end; reflexivity.
Qed.

Lemma dnext_lease s o : d_lease (dnext s o) = d_lease s.
Proof. unfold d_lease. rewrite dnext_cfg. reflexivity. Qed.

Lemma fresh_inv c : BInv (fresh_bm c) /\ b_g (fresh_bm c) = c_geo c.
Proof. split; [apply binit_inv|reflexivity]. Qed.

Lemma dnext_sinv s o : SInv s -> SInv (dnext s o).
Proof.
  intros (Hl & Hg & Hb). split; [rewrite dnext_lease; exact Hl|].
  rewrite dnext_cfg. unfold d_lease in Hl.
  assert (Hn : forall o', b_g (bnext (d_bm s) o') = c_geo (d_cfg s) /\ BInv (bnext (d_bm s) o')).
  { intros o'. split; [rewrite bnext_geo; exact Hg|apply bnext_inv; exact Hb]. }
  unfold dnext, dstep, d_lease. rewrite Hl.
  destruct o as [h mac fail|h fail|h fg fp|h|a pl| | |ord|h a pl ep|h|h r]; cbn [negb].
  - (* DAlloc *)
    destruct (Bitmap.step (d_bm s) (Alloc h)) as [[b1 r] m] eqn:E.
    assert (Hb1 : b1 = bnext (d_bm s) (Alloc h)) by (unfold bnext; rewrite E; reflexivity).
    destruct r; try (cbn; split; assumption).
    destruct fail; [destruct (ahas h (b_alloc (d_bm s)))|]; cbn; subst b1.
    + apply Hn.
    + split; [rewrite bnext_geo; apply Hn|apply bnext_inv; apply Hn].
    + apply Hn.
  - destruct (ahas h (b_alloc (d_bm s))); cbn [negb]; [destruct fail|]; cbn; try (split; assumption). apply Hn.
  - cbn. split; assumption.
  - cbn. split; assumption.
  - cbn. split; assumption.
  - cbn. split; assumption.
  - cbn. split; assumption.
  - (* DRestart *)
    cbn. unfold restart_with. rewrite Hl. cbn.
    destruct (load_session_inv (enum ord (d_store s)) (fresh_bm (d_cfg s)) (proj1 (fresh_inv _))) as [H1 H2].
    split; [rewrite H2; reflexivity|exact H1].
  - cbn. unfold handle_remote, d_lease. cbn. rewrite Hl.
    match goal with |- context [if ?c then _ else _] => destruct c end; cbn; [split; assumption|apply Hn].
  - cbn. unfold handle_remote, d_lease. cbn. rewrite Hl. cbn. apply Hn.
  - cbn. unfold handle_remote, d_lease. rewrite Hl. destruct r as [r|]; cbn.
    + match goal with |- context [if ?c then _ else _] => destruct c end; cbn; [split; assumption|apply Hn].
    + apply Hn.
Qed.

Lemma dinit_sinv c : c_lease c = false -> SInv (dinit c).
Proof. intros H. split; [exact H|]. split; [reflexivity|apply binit_inv]. Qed.

Lemma drun_sinv c ops : c_lease c = false -> SInv (drun c ops).
Proof.
  intros H. unfold drun. generalize (dinit_sinv c H). generalize (dinit c).
  induction ops as [|o tl IH]; intros s Hs; cbn [fold_left]; [exact Hs|]. apply IH. apply dnext_sinv. exact Hs.
Qed.

(* uniqueness needs no guard at all *)
Lemma session_unique s h1 h2 u : SInv s -> d_lookup s h1 = Some u -> d_lookup s h2 = Some u -> h1 = h2.
Proof.
  intros (Hl & Hg & Hb). unfold d_lookup. rewrite Hl.
  destruct (aget h1 (b_alloc (d_bm s))) as [i1|] eqn:E1; [|discriminate].
  destruct (aget h2 (b_alloc (d_bm s))) as [i2|] eqn:E2; [|discriminate].
  intros [= <-] [= Hu]. unfold unit_of in Hu. apply addr_injective in Hu. subst i2.
  eapply binv_alloc_inj; eassumption.
Qed.

(* ---- Agree is preserved ---- *)
Lemma agree_get s h : Agree s ->
  match aget h (d_store s), aget h (b_alloc (d_bm s)) with
  | Some r, Some i => r_addr r = unit_of (d_bm s) i /\ r_pl r = g_pl (c_geo (d_cfg s))
  | None, None => True
  | _, _ => False
  end.
Proof. intros [_ H]. apply H. Qed.

Lemma agree_same_bm s b st :
  awf st -> b_g b = b_g (d_bm s) ->
  (forall h, match aget h st, aget h (b_alloc b) with
             | Some r, Some i => r_addr r = addr_of_index (b_g b) i /\ r_pl r = g_pl (c_geo (d_cfg s))
             | None, None => True
             | _, _ => False
             end) ->
  Agree {| d_cfg := d_cfg s; d_bm := b; d_ep := d_ep s; d_store := st |}.
Proof. intros Hw Hg H. split; [exact Hw|]. cbn. exact H. Qed.

Lemma store_ok_of_agree s : SInv s -> geo_small (c_geo (d_cfg s)) -> Agree s ->
  let g := c_geo (d_cfg s) in
  (forall h r, aget h (d_store s) = Some r ->
     exists i, ridx g r = Some i /\ aget h (b_alloc (d_bm s)) = Some i /\ r_addr r = addr_of_index g i) /\
  (forall h1 r1 h2 r2 i, aget h1 (d_store s) = Some r1 -> aget h2 (d_store s) = Some r2 ->
     ridx g r1 = Some i -> ridx g r2 = Some i -> h1 = h2).
Proof.
  intros (Hl & Hg & Hb) Hs Hag g.
  assert (H1 : forall h r, aget h (d_store s) = Some r ->
     exists i, ridx g r = Some i /\ aget h (b_alloc (d_bm s)) = Some i /\ r_addr r = addr_of_index g i).
  { intros h r Hr. pose proof (agree_get s h Hag) as H. rewrite Hr in H.
    destruct (aget h (b_alloc (d_bm s))) as [i|] eqn:Ei; [|contradiction]. destruct H as [Ha Hp].
    exists i. pose proof (binv_alloc_lt _ _ _ Hb Ei) as Hlt. rewrite Hg in Hlt. fold g in Hlt.
    assert (Hw : i < W64) by (unfold geo_small in Hs; fold g in Hs; lia).
    split; [|split; [reflexivity|]].
    - unfold ridx. rewrite Ha, Hp. unfold unit_of. rewrite Hg. fold g.
      pose proof (index_of_addr_of g i 0 Hlt (g_step_pos _)) as H. rewrite N.add_0_r in H. rewrite H.
      rewrite wrap64_small by exact Hw. reflexivity.
    - rewrite Ha. unfold unit_of. rewrite Hg. reflexivity. }
  split; [exact H1|].
  intros h1 r1 h2 r2 i Hr1 Hr2 Hi1 Hi2.
  destruct (H1 _ _ Hr1) as (i1 & Hx1 & Ha1 & _). destruct (H1 _ _ Hr2) as (i2 & Hx2 & Ha2 & _).
  assert (i1 = i) by congruence. assert (i2 = i) by congruence. subst.
  eapply binv_alloc_inj; eassumption.
Qed.

Lemma restart_agree s l : SInv s -> geo_small (c_geo (d_cfg s)) -> Agree s ->
  Permutation l (d_store s) -> Agree (restart_with l s).
Proof.
  intros Hinv Hs Hag Hperm. pose proof Hinv as (Hl & Hg & Hb).
  destruct (store_ok_of_agree s Hinv Hs Hag) as [Hok Hinj]. set (g := c_geo (d_cfg s)) in *.
  destruct Hag as [Hwf Hag].
  assert (Hin : forall x, In x l <-> In x (d_store s)).
  { intros x. split; [apply Permutation_in; exact Hperm|apply Permutation_in; apply Permutation_sym; exact Hperm]. }
  assert (Hnd : NoDup (map fst l)).
  { eapply Permutation_NoDup; [apply Permutation_map; apply Permutation_sym; exact Hperm|exact Hwf]. }
  assert (Hget : forall h r, In (h, r) l <-> aget h (d_store s) = Some r).
  { intros h r. rewrite Hin. split; [apply in_aget; exact Hwf|apply aget_in]. }
  unfold restart_with. unfold d_lease in Hl. rewrite Hl.
  destruct (load_session_spec g l (fresh_bm (d_cfg s)) (binit_inv _) eq_refl Hnd) as [L1 L2].
  - intros; reflexivity.
  - intros h r Hr. apply Hget in Hr. destruct (Hok _ _ Hr) as (i & Hi & _). exists i. split; [exact Hi|reflexivity].
  - intros h1 r1 h2 r2 i H1 H2. apply Hget in H1. apply Hget in H2. eapply Hinj; eassumption.
  - destruct (load_session_inv l (fresh_bm (d_cfg s)) (binit_inv _)) as [Hb' Hg'].
    split; [exact Hwf|]. cbn [d_store d_bm d_cfg]. intros h.
    destruct (aget h (d_store s)) as [r|] eqn:Er.
    + destruct (Hok _ _ Er) as (i & Hi & Ha & Hadr). apply Hget in Er.
      rewrite (L1 _ _ _ Er Hi). pose proof (Hag h) as Hh. apply Hget in Er. rewrite Er, Ha in Hh.
      destruct Hh as [_ Hpl]. split; [|exact Hpl]. unfold unit_of. rewrite Hg'. exact Hadr.
    + rewrite L2; [reflexivity|]. intros Hc. apply in_map_iff in Hc as ([h' r] & Hf & Hc). cbn in Hf. subst h'.
      apply Hget in Hc. congruence.
Qed.

Lemma agree_frame s b st :
  Agree s -> awf st -> b_g b = b_g (d_bm s) ->
  (forall h, (aget h st = aget h (d_store s) /\ aget h (b_alloc b) = aget h (b_alloc (d_bm s))) \/
             match aget h st, aget h (b_alloc b) with
             | Some r, Some i => r_addr r = addr_of_index (b_g b) i /\ r_pl r = g_pl (c_geo (d_cfg s))
             | None, None => True
             | _, _ => False
             end) ->
  Agree {| d_cfg := d_cfg s; d_bm := b; d_ep := d_ep s; d_store := st |}.
Proof.
  intros [_ Hag] Hw Hg H. split; [exact Hw|]. cbn. intros h. destruct (H h) as [[E1 E2]|Hh].
  - rewrite E1, E2. pose proof (Hag h) as Hh. unfold unit_of in *. rewrite Hg. exact Hh.
  - unfold unit_of. exact Hh.
Qed.

Lemma dnext_agree s o : SInv s -> geo_small (c_geo (d_cfg s)) -> Agree s -> op_ok s o = true -> Agree (dnext s o).
Proof.
  intros Hinv Hs Hag Hok. pose proof Hinv as (Hl & Hg & Hb). pose proof Hag as [Hwf Hag'].
  unfold d_lease in Hl. unfold dnext, dstep, d_lease. rewrite Hl.
  destruct o as [h mac fail|h fail|h fg fp|h|a pl| | |ord|h a pl ep|h|h r]; cbn [negb]; try exact Hag.
  - (* DAlloc *)
    destruct (alloc_spec (d_bm s) h) as [(i & Ei & E)|[(En & i & b1 & m & E & Ea & Eg)|(En & m & E)]]; rewrite E.
    + (* existing *)
      unfold ahas. rewrite Ei. destruct fail; cbn [fst].
      * destruct s; exact Hag.
      * unfold set_store, set_bm. cbn [d_cfg d_bm d_ep d_store]. apply agree_frame; [exact Hag|apply awf_aset; exact Hwf|reflexivity|].
        intros h'. destruct (N.eq_dec h h') as [<-|Hne].
        -- right. rewrite aget_aset_eq, Ei. cbn [r_addr r_pl]. split; [reflexivity|rewrite Hg; reflexivity].
        -- left. rewrite aget_aset_ne by exact Hne. split; reflexivity.
    + (* new *)
      unfold ahas. rewrite En. destruct fail; cbn [fst].
      * unfold set_bm. cbn. apply agree_frame; [exact Hag|exact Hwf|rewrite bnext_geo; exact Eg|].
        intros h'. left. split; [reflexivity|]. rewrite release_alloc_aget, Ea.
        destruct (N.eqb_spec h h') as [<-|Hne]; [symmetry; exact En|apply aget_aset_ne; exact Hne].
      * unfold set_store, set_bm. cbn [d_cfg d_bm d_ep d_store]. apply agree_frame; [exact Hag|apply awf_aset; exact Hwf|exact Eg|].
        intros h'. destruct (N.eq_dec h h') as [<-|Hne].
        -- right. rewrite aget_aset_eq, Ea, aget_aset_eq. cbn [r_addr r_pl]. unfold unit_of. rewrite Eg, Hg. split; reflexivity.
        -- left. rewrite Ea, !aget_aset_ne by exact Hne. split; reflexivity.
    + exact Hag.
  - (* DRelease *)
    destruct (ahas h (b_alloc (d_bm s))) eqn:Eh; cbn [negb]; [|exact Hag]. destruct fail; [exact Hag|]. cbn [fst].
    unfold set_store, set_bm. cbn [d_cfg d_bm d_ep d_store].
    apply agree_frame; [exact Hag|apply awf_adel; exact Hwf|apply bnext_geo|].
    intros h'. rewrite release_alloc_aget. destruct (N.eqb_spec h h') as [<-|Hne].
    + right. rewrite aget_adel_eq. exact I.
    + left. rewrite aget_adel_ne by exact Hne. split; reflexivity.
  - (* DRestart *)
    cbn [fst]. apply restart_agree; try assumption. apply enum_perm. exact Hwf.
  - (* DRemotePut *)
    cbn [fst]. cbn [op_ok] in Hok. unfold remote_ok in Hok.
    destruct (index_of (d_bm s) a pl) as [i|] eqn:Ei; [|discriminate].
    apply andb_true_iff in Hok as [Ha Hfree]. apply N.eqb_eq in Ha.
    pose proof (index_of_pl _ _ _ _ Ei) as Hpl.
    unfold handle_remote, d_lease, set_store. cbn [d_cfg d_bm d_store r_addr r_pl r_ep]. rewrite Hl, Ei.
    assert (Hfree' : forall h', aget i (b_rev (d_bm s)) = Some h' -> h' = h).
    { intros h' Hh'. rewrite Hh' in Hfree. apply N.eqb_eq in Hfree. exact Hfree. }
    destruct (aget h (b_alloc (d_bm s))) as [i0|] eqn:E0.
    + destruct (N.eqb_spec i0 i) as [->|Hne].
      * change (Agree {| d_cfg := d_cfg s; d_bm := d_bm s; d_ep := d_ep s;
                         d_store := aset h {| r_addr := a; r_pl := pl; r_ep := ep |} (d_store s) |}).
        apply agree_frame; [exact Hag|apply awf_aset; exact Hwf|reflexivity|].
        intros h'. destruct (N.eq_dec h h') as [<-|Hne].
        -- right. rewrite aget_aset_eq, E0. cbn [r_addr r_pl]. split; [transitivity (unit_of (d_bm s) i); [exact Ha|unfold unit_of; rewrite ?bnext_geo; reflexivity]|rewrite Hpl, Hg; reflexivity].
        -- left. rewrite aget_aset_ne by exact Hne. split; reflexivity.
      * unfold set_bm. cbn [d_cfg d_bm d_ep d_store].
        apply agree_frame; [exact Hag|apply awf_aset; exact Hwf|apply bnext_geo|].
        intros h'. rewrite (setalloc_free _ _ _ _ _ Hb Ei Hfree'). destruct (N.eqb_spec h h') as [<-|Hne'].
        -- right. rewrite aget_aset_eq. cbn [r_addr r_pl]. split; [transitivity (unit_of (d_bm s) i); [exact Ha|unfold unit_of; rewrite ?bnext_geo; reflexivity]|rewrite Hpl, Hg; reflexivity].
        -- left. rewrite aget_aset_ne by exact Hne'. split; reflexivity.
    + unfold set_bm. cbn [d_cfg d_bm d_ep d_store].
      apply agree_frame; [exact Hag|apply awf_aset; exact Hwf|apply bnext_geo|].
      intros h'. rewrite (setalloc_free _ _ _ _ _ Hb Ei Hfree'). destruct (N.eqb_spec h h') as [<-|Hne'].
      * right. rewrite aget_aset_eq. cbn [r_addr r_pl]. split; [transitivity (unit_of (d_bm s) i); [exact Ha|unfold unit_of; rewrite ?bnext_geo; reflexivity]|rewrite Hpl, Hg; reflexivity].
      * left. rewrite aget_aset_ne by exact Hne'. split; reflexivity.
  - (* DRemoteDel *)
    cbn [fst]. unfold handle_remote, d_lease, set_store, set_bm. cbn [d_cfg d_bm d_ep d_store]. rewrite Hl.
    apply agree_frame; [exact Hag|apply awf_adel; exact Hwf|apply bnext_geo|].
    intros h'. rewrite release_alloc_aget. destruct (N.eqb_spec h h') as [<-|Hne].
    + right. rewrite aget_adel_eq. exact I.
    + left. rewrite aget_adel_ne by exact Hne. split; reflexivity.
  - (* DEcho: a notification that carries the current store content changes nothing *)
    cbn [fst]. cbn [op_ok] in Hok. pose proof (Hag' h) as Hh. unfold handle_remote, d_lease. rewrite Hl.
    destruct r as [r|].
    + destruct (aget h (d_store s)) as [r0|] eqn:Er; cbn [rec_same] in Hok; [|discriminate].
      apply andb_true_iff in Hok as [Ha Hp]. apply N.eqb_eq in Ha. apply N.eqb_eq in Hp.
      destruct (aget h (b_alloc (d_bm s))) as [i|] eqn:Ei; [|contradiction]. destruct Hh as [Hadr Hpl].
      pose proof (binv_alloc_lt _ _ _ Hb Ei) as Hlt.
      assert (Hw : i < W64) by (unfold geo_small in Hs; rewrite <- Hg in Hs; lia).
      rewrite Ha, Hp, Hadr, Hpl, <- Hg, (index_of_unit _ _ Hlt Hw), N.eqb_refl. exact Hag.
    + destruct (aget h (d_store s)) as [r0|] eqn:Er; cbn [rec_same] in Hok; [discriminate|].
      destruct (aget h (b_alloc (d_bm s))) as [i|] eqn:Ei; [contradiction|].
      unfold set_bm, bnext. cbn [Bitmap.step]. rewrite Ei. cbn [fst]. destruct s; exact Hag.
Qed.

Lemma dinit_agree c : Agree (dinit c).
Proof. split; [constructor|]. intros h. cbn. exact I. Qed.

Lemma guard_run_agree ops : forall s, SInv s -> geo_small (c_geo (d_cfg s)) -> Agree s -> guard_run s ops = true ->
  Agree (fold_left dnext ops s).
Proof.
  induction ops as [|o tl IH]; intros s Hi Hs Ha Hg; cbn [fold_left]; [exact Ha|].
  cbn [guard_run] in Hg. apply andb_true_iff in Hg as [Ho Hg].
  apply IH; [apply dnext_sinv; exact Hi|rewrite dnext_cfg; exact Hs|apply dnext_agree; assumption|exact Hg].
Qed.

Lemma session_agree c ops : c_lease c = false -> geo_small (c_geo c) -> hist_ok c ops = true -> Agree (drun c ops).
Proof.
  intros Hl Hs Hg. apply guard_run_agree; [apply dinit_sinv; exact Hl|exact Hs|apply dinit_agree|exact Hg].
Qed.

Lemma drun_cfg c ops : d_cfg (drun c ops) = c.
Proof.
  unfold drun. change c with (d_cfg (dinit c)) at 2. generalize (dinit c).
  induction ops as [|o tl IH]; intros s; cbn [fold_left]; [reflexivity|]. rewrite IH. apply dnext_cfg.
Qed.

(* memory and store name the same address for every subscriber *)
Lemma agree_lookup s h : SInv s -> Agree s -> d_lookup s h = store_addr s h.
Proof.
  intros (Hl & _) Hag. unfold d_lookup, store_addr. rewrite Hl. pose proof (agree_get s h Hag) as H.
  destruct (aget h (d_store s)), (aget h (b_alloc (d_bm s))); try contradiction; [|reflexivity].
  destruct H as [-> _]. reflexivity.
Qed.

Lemma restart_sinv s l : SInv s -> SInv (restart_with l s).
Proof.
  intros (Hl & Hg & Hb). unfold restart_with, SInv, d_lease in *. rewrite Hl. cbn.
  destruct (load_session_inv l (fresh_bm (d_cfg s)) (binit_inv _)) as [H1 H2].
  split; [exact Hl|]. split; [rewrite H2; reflexivity|exact H1].
Qed.

Lemma restart_store_session s l : d_lease s = false -> d_store (restart_with l s) = d_store s.
Proof. unfold restart_with, d_lease. intros ->. reflexivity. Qed.

(* restart_preserves, session mode: every history, every stop point, every enumeration order *)
Lemma restart_preserves_session c ops l h r :
  c_lease c = false -> geo_small (c_geo c) -> hist_ok c ops = true ->
  Permutation l (d_store (drun c ops)) ->
  aget h (d_store (drun c ops)) = Some r ->
  d_lookup (drun c ops) h = Some (r_addr r) /\
  d_lookup (restart_with l (drun c ops)) h = Some (r_addr r) /\
  d_store (restart_with l (drun c ops)) = d_store (drun c ops).
Proof.
  intros Hl Hs Hg Hp Hr. pose proof (drun_sinv c ops Hl) as Hinv. pose proof (session_agree c ops Hl Hs Hg) as Hag.
  assert (Hs' : geo_small (c_geo (d_cfg (drun c ops)))) by (rewrite drun_cfg; exact Hs).
  pose proof (restart_agree _ l Hinv Hs' Hag Hp) as Hag'.
  pose proof (restart_sinv _ l Hinv) as Hinv'.
  assert (Hst : d_store (restart_with l (drun c ops)) = d_store (drun c ops)).
  { apply restart_store_session. apply Hinv. }
  split; [|split; [|exact Hst]].
  - rewrite agree_lookup by assumption. unfold store_addr. rewrite Hr. reflexivity.
  - rewrite agree_lookup by assumption. unfold store_addr. rewrite Hst, Hr. reflexivity.
Qed.

(* the op [DRestart ord] is such a restart, for every [ord] *)
Lemma drestart_is_restart s ord : dnext s (DRestart ord) = restart_with (enum ord (d_store s)) s.
Proof. reflexivity. Qed.

Lemma restart_unique_session c ops l h1 h2 u : c_lease c = false ->
  d_lookup (restart_with l (drun c ops)) h1 = Some u -> d_lookup (restart_with l (drun c ops)) h2 = Some u -> h1 = h2.
Proof. intros Hl. apply session_unique. apply restart_sinv. apply drun_sinv. exact Hl. Qed.

Lemma unique_session c ops h1 h2 u : c_lease c = false ->
  d_lookup (drun c ops) h1 = Some u -> d_lookup (drun c ops) h2 = Some u -> h1 = h2.
Proof. intros Hl. apply session_unique. apply drun_sinv. exact Hl. Qed.

(* ---- write failures, both modes: the failing call changes neither the store nor what the
        subscriber holds ---- *)
Lemma e_free_cur e : e_free e (e_cur e) = false.
Proof.
  unfold e_free. replace (e_cur e + 4 - e_cur e) with 4 by lia. change (4 mod 4) with 0.
  apply N.ltb_ge. lia.
Qed.

Lemma e_lookup_release e h : e_lookup (e_release e h) h = None.
Proof.
  unfold e_release, e_lookup. destruct (aget h (e_sub e)) as [i|] eqn:E; [|rewrite E; reflexivity].
  unfold e_with. cbn. rewrite aget_adel_eq. reflexivity.
Qed.

Lemma e_free_with s gens sub rev hint g : e_free (e_with s gens sub rev (e_epoch s) hint) g = e_free s g.
Proof. reflexivity. Qed.

Lemma e_alloc_existing e h i : aget h (e_sub e) = Some i ->
  e_alloc e h = (e_with e (aset i (e_cur e) (e_gens e)) (e_sub e) (e_rev e) (e_epoch e) (e_hint e), Some (e_ip e i)).
Proof. intros H. unfold e_alloc. rewrite H. reflexivity. Qed.

Lemma e_lookup_renewed e h i hint : aget h (e_sub e) = Some i ->
  e_lookup (e_with e (aset i (e_cur e) (e_gens e)) (e_sub e) (e_rev e) (e_epoch e) hint) h = Some (e_ip e i).
Proof.
  intros H. unfold e_lookup. cbn [e_with e_sub]. rewrite H. rewrite e_free_with.
  unfold e_gen. cbn [e_with e_gens]. rewrite aget_aset_eq. rewrite e_free_cur. reflexivity.
Qed.

Lemma e_lookup_some e h ip : e_lookup e h = Some ip -> exists i, aget h (e_sub e) = Some i /\ ip = e_ip e i.
Proof.
  unfold e_lookup. destruct (aget h (e_sub e)) as [i|]; [|discriminate].
  destruct (e_free e (e_gen e i)); [discriminate|]. intros [= <-]. eauto.
Qed.

Lemma write_failure_keeps_alloc s h mac :
  d_lookup (dnext s (DAlloc h mac true)) h = d_lookup s h /\ d_store (dnext s (DAlloc h mac true)) = d_store s.
Proof.
  unfold dnext, dstep. destruct (d_lease s) eqn:Hl.
  - (* lease *)
    assert (Hlk : forall e, d_lookup (set_ep s e) h = e_lookup e h).
    { intros e. unfold d_lookup, d_lease, set_ep. cbn [d_cfg d_ep]. unfold d_lease in Hl. rewrite Hl. reflexivity. }
    assert (Hb : d_lookup s h = e_lookup (d_ep s) h) by (unfold d_lookup; rewrite Hl; reflexivity).
    destruct (e_lookup (d_ep s) h) as [ip|] eqn:Elk.
    + destruct (e_lookup_some _ _ _ Elk) as (i & Es & ->).
      rewrite (e_alloc_existing _ _ _ Es). cbn [fst]. rewrite Hlk, Hb. split; [|reflexivity].
      apply e_lookup_renewed. exact Es.
    + destruct (aget h (e_sub (d_ep s))) as [i|] eqn:Es.
      * rewrite (e_alloc_existing _ _ _ Es). cbn [fst]. rewrite Hlk, Hb. split; [apply e_lookup_release|reflexivity].
      * unfold e_alloc. rewrite Es. destruct (e_find (d_ep s)) as [i|]; cbn [fst].
        -- rewrite Hlk, Hb. split; [apply e_lookup_release|reflexivity].
        -- split; reflexivity.
  - (* session *)
    destruct (alloc_spec (d_bm s) h) as [(i & Ei & E)|[(En & i & b1 & m & E & Ea & Eg)|(En & m & E)]]; rewrite E.
    + unfold ahas. rewrite Ei. cbn [fst]. destruct s; split; reflexivity.
    + unfold ahas. rewrite En. cbn [fst]. unfold d_lookup, d_lease, set_bm. cbn [d_cfg d_bm d_store].
      unfold d_lease in Hl. rewrite Hl. rewrite release_alloc_aget, N.eqb_refl, En. split; reflexivity.
    + cbn [fst]. split; reflexivity.
Qed.

Lemma write_failure_keeps_release s h :
  dnext s (DRelease h true) = s.
Proof.
  unfold dnext, dstep. destruct (d_lease s); [reflexivity|].
  destruct (negb (ahas h (b_alloc (d_bm s)))); reflexivity.
Qed.

(* ---- remote put, session mode ---- *)
Lemma remote_put_applies_session s h a pl ep i :
  SInv s -> index_of (d_bm s) a pl = Some i ->
  (forall h', aget i (b_rev (d_bm s)) = Some h' -> h' = h) ->
  d_lookup (dnext s (DRemotePut h a pl ep)) h = Some (addr_of_index (c_geo (d_cfg s)) i).
Proof.
  intros (Hl & Hg & Hb) Hi Hfree. unfold dnext, dstep. cbn [fst]. unfold handle_remote, d_lease, set_store.
  cbn [d_cfg d_bm d_store r_addr r_pl]. unfold d_lease in Hl. rewrite Hl, Hi.
  destruct (aget h (b_alloc (d_bm s))) as [i0|] eqn:E0.
  - destruct (N.eqb_spec i0 i) as [->|Hne].
    + unfold d_lookup, d_lease. cbn [d_cfg d_bm]. rewrite Hl, E0. unfold unit_of. rewrite Hg. reflexivity.
    + unfold d_lookup, d_lease, set_bm. cbn [d_cfg d_bm]. rewrite Hl.
      rewrite (setalloc_free _ _ _ _ _ Hb Hi Hfree), N.eqb_refl. unfold unit_of. rewrite bnext_geo, Hg. reflexivity.
  - unfold d_lookup, d_lease, set_bm. cbn [d_cfg d_bm]. rewrite Hl.
    rewrite (setalloc_free _ _ _ _ _ Hb Hi Hfree), N.eqb_refl. unfold unit_of. rewrite bnext_geo, Hg. reflexivity.
Qed.

(* the announced address is held by another subscriber, or is outside the pool: silently dropped *)
Lemma remote_put_dropped_session s h a pl ep :
  SInv s ->
  (index_of (d_bm s) a pl = None \/
   exists i h', index_of (d_bm s) a pl = Some i /\ aget i (b_rev (d_bm s)) = Some h' /\ h' <> h) ->
  d_bm (dnext s (DRemotePut h a pl ep)) = d_bm s.
Proof.
  intros (Hl & Hg & Hb) Hc. unfold dnext, dstep. cbn [fst]. unfold handle_remote, d_lease, set_store.
  cbn [d_cfg d_bm d_store r_addr r_pl]. unfold d_lease in Hl. rewrite Hl.
  match goal with |- context [if ?c then _ else _] => destruct c end; [reflexivity|].
  unfold set_bm. cbn [d_bm]. apply setalloc_refused. exact Hc.
Qed.

Lemma remote_del_applies s h : d_lookup (dnext s (DRemoteDel h)) h = None.
Proof.
  unfold dnext, dstep. cbn [fst]. unfold handle_remote, d_lookup, d_lease, set_store, set_ep, set_bm.
  cbn [d_cfg d_ep d_bm d_store]. destruct (c_lease (d_cfg s)) eqn:E; cbn [d_cfg d_ep d_bm d_store]; rewrite ?E.
  - apply e_lookup_release.
  - rewrite release_alloc_aget, N.eqb_refl. reflexivity.
Qed.

(* ================================================================================ *)
(* Lease mode                                                                         *)

Lemma find_fromP_hit p f i : f i = true -> find_fromP p f i = Some i.
Proof.
  revert i. induction p as [q IH|q IH|]; intros i H; cbn [find_fromP].
  - rewrite H. reflexivity.
  - rewrite (IH i H). reflexivity.
  - rewrite H. reflexivity.
Qed.

(* the state of a freshly started allocator after k-1 re-allocations: slots 1..k-1 carry the current
   generation, everything from k on is untouched *)
Definition JJ (e : estate) (k : N) : Prop :=
  e_epoch e = 2 /\ e_hint e = k /\ e_grace e mod 256 < 2 /\ (forall i, k <= i -> e_gen e i = 0).

Lemma e_find_first e k : JJ e k -> 1 <= k -> k + 2 <= e_total e -> e_find e = Some k.
Proof.
  intros (He & Hh & Hgr & Hgen) Hk Ht. unfold e_find.
  assert (Hslot : e_slot e 0 = k).
  { unfold e_slot. rewrite Hh, N.add_0_r. apply N.mod_small. lia. }
  assert (Hok : e_slot_ok e 0 = true).
  { unfold e_slot_ok. rewrite Hslot. rewrite (Hgen k (N.le_refl _)).
    destruct (N.eqb_spec k 0); [lia|]. destruct (N.eqb_spec k (e_total e - 1)); [lia|]. cbn [orb negb andb].
    unfold e_free, e_cur. rewrite He. change ((2 mod 4 + 4 - 0) mod 4) with 2. apply N.ltb_lt. exact Hgr. }
  unfold find_from. destruct (e_total e) as [|p] eqn:Et; [lia|].
  rewrite (find_fromP_hit p _ 0 Hok). rewrite Hslot. reflexivity.
Qed.

Fixpoint lease_order_ok (base k : N) (l : list (N * rec)) : bool :=
  match l with
  | [] => true
  | (_, r) :: tl => (r_addr r =? add_nocarry32 base k) && lease_order_ok base (k + 1) tl
  end.

Lemma load_lease_cons e st x l :
  load_lease (e, st) (x :: l) =
  load_lease (if lease_expired e (r_ep (snd x)) then (e, adel (fst x) st) else (fst (e_alloc e (fst x)), st)) l.
Proof. reflexivity. Qed.

Lemma load_lease_spec l : forall e st k,
  JJ e k -> NoDup (map fst l) -> (forall h, In h (map fst l) -> aget h (e_sub e) = None) ->
  1 <= k -> k + N.of_nat (length l) + 1 <= e_total e ->
  let e' := fst (load_lease (e, st) l) in
  (forall h j, aget h (e_sub e) = Some j -> j < k -> e_gen e j = 2 -> ~ In h (map fst l) ->
     e_lookup e' h = Some (e_ip e j)) /\
  (lease_order_ok (e_base e) k l = true -> forall h r, In (h, r) l -> e_lookup e' h = Some (r_addr r)).
Proof.
  induction l as [|[h0 r0] tl IH]; intros e st k HJ Hnd Hnone Hk Ht; cbn zeta.
  - split; [|intros _ ? ? []]. intros h j Hs Hj Hg _. cbn [load_lease fold_left fst].
    unfold e_lookup. rewrite Hs. unfold e_free. destruct HJ as (He & _ & Hgr & _). unfold e_cur. rewrite Hg, He.
    change ((2 mod 4 + 4 - 2) mod 4) with 0. destruct (N.ltb_spec (e_grace e mod 256) 0); [lia|reflexivity].
  - pose proof HJ as (He & Hh & Hgr & Hgen).
    cbn [map fst] in Hnd. apply NoDup_cons_iff in Hnd as [Hnin Hnd'].
    cbn [length] in Ht. rewrite load_lease_cons. cbn [fst snd].
    assert (Hexp : lease_expired e (r_ep r0) = false).
    { unfold lease_expired. rewrite He. change (2 - 2) with 0. destruct (r_ep r0 <? 0) eqn:E; [apply N.ltb_lt in E; lia|].
      apply andb_false_r. }
    rewrite Hexp.
    assert (Hs0 : aget h0 (e_sub e) = None) by (apply Hnone; left; reflexivity).
    assert (Hf : e_find e = Some k) by (apply e_find_first; [exact HJ|exact Hk|lia]).
    unfold e_alloc. rewrite Hs0, Hf. cbn [fst].
    assert (Hmod : (k + 1) mod e_total e = k + 1) by (apply N.mod_small; lia).
    rewrite Hmod.
    set (e1 := e_with e (aset k (e_cur e) (e_gens e)) (aset h0 k (e_sub e)) (aset k h0 (e_rev e)) (e_epoch e) (k + 1)).
    assert (Hcur : e_cur e = 2) by (unfold e_cur; rewrite He; reflexivity).
    assert (HJ1 : JJ e1 (k + 1)).
    { split; [exact He|]. split; [reflexivity|]. split; [exact Hgr|].
      intros i Hi. unfold e_gen, e1. cbn [e_with e_gens]. rewrite aget_aset_ne by lia. apply Hgen. lia. }
    assert (Ht1 : e_total e1 = e_total e) by reflexivity.
    destruct (IH e1 st (k + 1) HJ1 Hnd') as [IH1 IH2].
    + intros h Hin. unfold e1. cbn [e_with e_sub]. rewrite aget_aset_ne; [apply Hnone; right; exact Hin|].
      intros <-. contradiction.
    + lia.
    + rewrite Ht1. lia.
    + assert (Hh0 : e_lookup (fst (load_lease (e1, st) tl)) h0 = Some (e_ip e k)).
      { change (e_ip e k) with (e_ip e1 k). apply IH1; [|lia| |exact Hnin].
        - unfold e1. cbn [e_with e_sub]. apply aget_aset_eq.
        - unfold e_gen, e1. cbn [e_with e_gens]. rewrite aget_aset_eq. exact Hcur. }
      split.
      * intros h j Hs Hj Hg Hn. cbn [map fst In] in Hn. change (e_ip e j) with (e_ip e1 j). apply IH1.
        -- unfold e1. cbn [e_with e_sub]. rewrite aget_aset_ne by tauto. exact Hs.
        -- lia.
        -- unfold e_gen, e1. cbn [e_with e_gens]. rewrite aget_aset_ne by lia. exact Hg.
        -- tauto.
      * cbn [lease_order_ok]. intros Hok h r [Heq|Hin]; apply andb_true_iff in Hok as [Ha Hok].
        -- inversion Heq; subst h r. apply N.eqb_eq in Ha. rewrite Ha. exact Hh0.
        -- apply IH2; [exact Hok|exact Hin].
Qed.

Definition lease_guard (c : cfg) (l : list (N * rec)) : bool :=
  (e_grace (fresh_ep c) mod 256 <? 2) && nodupb (map fst l) &&
  (N.of_nat (length l) + 2 <=? e_total (fresh_ep c)) && lease_order_ok (g_base (c_geo c)) 1 l.

Lemma nodupb_nodup l : nodupb l = true -> NoDup l.
Proof.
  induction l as [|x tl IH]; cbn [nodupb]; [constructor|]. intros H. apply andb_true_iff in H as [H1 H2].
  constructor; [|apply IH; exact H2]. intros Hin. apply negb_true_iff in H1.
  assert (memN x tl = true); [|congruence]. unfold memN. apply existsb_exists. exists x. split; [exact Hin|apply N.eqb_refl].
Qed.

Lemma restart_lookup_lease s l h : d_lease s = true ->
  d_lookup (restart_with l s) h = e_lookup (fst (load_lease (fresh_ep (d_cfg s), d_store s) l)) h.
Proof.
  unfold restart_with, d_lease. intros Hl. rewrite Hl.
  destruct (load_lease (fresh_ep (d_cfg s), d_store s) l) as [e st]. unfold d_lookup, d_lease. cbn. rewrite Hl. reflexivity.
Qed.

Lemma restart_preserves_lease_partial s l : d_lease s = true -> lease_guard (d_cfg s) l = true ->
  forall h r, In (h, r) l -> d_lookup (restart_with l s) h = Some (r_addr r).
Proof.
  intros Hl Hg h r Hin. rewrite restart_lookup_lease by exact Hl.
  unfold lease_guard in Hg. apply andb_true_iff in Hg as [Hg Hord]. apply andb_true_iff in Hg as [Hg Hlen].
  apply andb_true_iff in Hg as [Hgr Hnd]. apply N.ltb_lt in Hgr. apply N.leb_le in Hlen. apply nodupb_nodup in Hnd.
  refine (proj2 (load_lease_spec l (fresh_ep (d_cfg s)) (d_store s) 1 _ Hnd _ (N.le_refl _) _) Hord h r Hin).
  - split; [reflexivity|]. split; [reflexivity|]. split; [exact Hgr|]. intros; reflexivity.
  - intros; reflexivity.
  - lia.
Qed.

(* refutation witnesses (vm_compute): 10.0.0.0/29, two leases, store enumerated in the other order *)
Definition wit_cfg : cfg :=
  {| c_lease := true; c_geo := {| g_bits := 32; g_base := 167772160; g_ppl := 29; g_pl := 32 |}; c_grace := 0; c_univ := [0; 1] |}.
Definition wit_ops : list dop := [DAlloc 0 false false; DAlloc 1 false false].

Lemma restart_preserves_lease_refuted :
  exists c ops ord h r, c_lease c = true /\ aget h (d_store (drun c ops)) = Some r /\
    d_lookup (drun c ops) h = Some (r_addr r) /\
    d_lookup (dnext (drun c ops) (DRestart ord)) h <> Some (r_addr r).
Proof.
  exists wit_cfg, wit_ops, [1; 0], 0, {| r_addr := 167772161; r_pl := 32; r_ep := 2 |}.
  split; [reflexivity|]. split; [vm_compute; reflexivity|]. split; [vm_compute; reflexivity|]. vm_compute. discriminate.
Qed.

Lemma remote_put_lease_refuted :
  exists c h a, c_lease c = true /\ d_lookup (dnext (dinit c) (DRemotePut h a 32 2)) h <> Some a /\
                d_lookup (dnext (dinit c) (DRemotePut h a 32 2)) h <> None.
Proof. exists wit_cfg, 0, 167772165. split; [reflexivity|]. split; vm_compute; discriminate. Qed.

(* lease mode applies the announced address only when it is the one its own scan would pick *)
Lemma remote_put_lease_partial s h a ep i :
  d_lease s = true -> lease_expired (d_ep s) ep = false -> aget h (e_sub (d_ep s)) = None ->
  e_find (d_ep s) = Some i -> a = e_ip (d_ep s) i ->
  d_lookup (dnext s (DRemotePut h a 32 ep)) h = Some a.
Proof.
  intros Hl Hx Hs Hf ->. unfold dnext, dstep. cbn [fst]. unfold handle_remote, d_lease, set_store.
  cbn [d_cfg d_ep d_store r_ep]. unfold d_lease in Hl. rewrite Hl, Hx.
  unfold e_lookup at 1. rewrite Hs. unfold d_lookup, d_lease, set_ep. cbn [d_cfg d_ep]. rewrite Hl.
  unfold e_alloc. rewrite Hs, Hf. cbn [fst]. unfold e_lookup. cbn [e_with e_sub]. rewrite aget_aset_eq.
  rewrite e_free_with. unfold e_gen. cbn [e_with e_gens]. rewrite aget_aset_eq, e_free_cur. reflexivity.
Qed.

(* ================================================================================ *)
(* Marshal / Unmarshal                                                                *)

Lemma option_ext (a b : option N) : (forall x, a = Some x <-> b = Some x) -> a = b.
Proof.
  intros H. destruct a as [x|], b as [y|]; try reflexivity.
  - apply H. reflexivity.
  - symmetry. apply H. reflexivity.
  - apply H. reflexivity.
Qed.

Lemma aget_some_key {V} k (v : V) m : aget k m = Some v -> In k (map fst m).
Proof. intros H. apply aget_in in H. apply (in_map fst) in H. exact H. Qed.

Lemma rebuild_rev_spec m : awf m ->
  (forall h1 h2 i, aget h1 m = Some i -> aget h2 m = Some i -> h1 = h2) ->
  forall i h, aget i (rebuild_rev m) = Some h <-> aget h m = Some i.
Proof.
  induction m as [|[k v] tl IH]; intros Hwf Hinj i h; cbn [rebuild_rev]; [split; discriminate|].
  unfold awf in Hwf. cbn [map fst] in Hwf. inversion Hwf as [|? ? Hnin Hnd]; subst.
  assert (Htl : forall x j, aget x tl = Some j -> aget x ((k, v) :: tl) = Some j).
  { intros x j Hx. cbn [aget]. destruct (N.eqb_spec k x) as [->|]; [|exact Hx].
    exfalso. apply Hnin. eapply aget_some_key. exact Hx. }
  assert (IH' := IH Hnd (fun h1 h2 j H1 H2 => Hinj h1 h2 j (Htl _ _ H1) (Htl _ _ H2))).
  destruct (N.eq_dec v i) as [->|Hne].
  - rewrite aget_aset_eq. cbn [aget]. split.
    + intros [= <-]. rewrite N.eqb_refl. reflexivity.
    + intros H. f_equal. apply (Hinj k h i); [cbn [aget]; rewrite N.eqb_refl; reflexivity|exact H].
  - rewrite aget_aset_ne by exact Hne. rewrite IH'. cbn [aget]. destruct (N.eqb_spec k h) as [->|Hkh].
    + split; [|intros [= ?]; contradiction]. intros H. exfalso. apply Hnin. eapply aget_some_key. exact H.
    + tauto.
Qed.

Lemma unmarshal_marshal_bitmap s : fam_ok (b_g s) ->
  b_unmarshal (b_marshal s) =
  {| b_g := b_g s; b_bm := b_bm s; b_alloc := b_alloc s; b_rev := rebuild_rev (b_alloc s);
     b_count := Z.of_N (asize (b_alloc s)); b_hint := 0 |}.
Proof.
  intros Hf. unfold b_unmarshal, b_marshal, b_isv6. cbn [jb_base jb_ppl jb_pl jb_v6 jb_bitmap jb_alloc].
  f_equal. unfold fam_ok in Hf. destruct (b_g s) as [bits base ppl pl]. cbn [g_bits g_base g_ppl g_pl] in *.
  destruct Hf as [Hb | Hb]; subst bits; reflexivity.
Qed.

Lemma marshal_roundtrip_bitmap s q : fam_ok (b_g s) -> BInv s -> b_query (b_unmarshal (b_marshal s)) q = b_query s q.
Proof.
  intros Hf Hinv. rewrite (unmarshal_marshal_bitmap s Hf).
  set (s' := {| b_g := b_g s; b_bm := b_bm s; b_alloc := b_alloc s; b_rev := rebuild_rev (b_alloc s);
                b_count := Z.of_N (asize (b_alloc s)); b_hint := 0 |}).
  destruct q as [h|a pl|a pl| | | | ]; unfold b_query.
  - reflexivity.
  - unfold bout. cbn [Bitmap.step]. change (index_of s' a pl) with (index_of s a pl).
    destruct (index_of s a pl) as [i|]; [|reflexivity].
    change (b_rev s') with (rebuild_rev (b_alloc s)).
    replace (aget i (rebuild_rev (b_alloc s))) with (aget i (b_rev s)); [destruct (aget i (b_rev s)); reflexivity|].
    apply option_ext. intros h. rewrite rebuild_rev_spec.
    + symmetry. apply (bi_bij s Hinv).
    + apply (bi_wfa s Hinv).
    + intros h1 h2 j H1 H2. eapply binv_alloc_inj; eassumption.
  - reflexivity.
  - unfold bout. cbn [Bitmap.step fst snd]. unfold count64. change (b_count s') with (Z.of_N (asize (b_alloc s))).
    rewrite (bi_cnt s Hinv). reflexivity.
  - reflexivity.
  - reflexivity.
  - reflexivity.
Qed.

(* epoch: the restored allocator differs from the original in the allocation hint only *)
Definition EG (s : estate) : Prop := e_ones s <= e_pl s /\ e_pl s <= 32 /\ e_base s mod 2 ^ (32 - e_ones s) = 0.

Lemma e_unmarshal_marshal s : EG s ->
  e_unmarshal (e_marshal s) = Some (e_with s (e_gens s) (e_sub s) (e_rev s) (e_epoch s) 0).
Proof.
  intros (H1 & H2 & H3). unfold e_unmarshal, e_marshal. cbn [je_base je_netlen je_pl je_epoch je_grace je_gens je_sub je_rev].
  destruct (N.ltb_spec (e_pl s) (e_ones s)); [lia|]. destruct (N.ltb_spec 32 (e_pl s)); [lia|]. cbn [orb].
  rewrite H3, N.sub_0_r. reflexivity.
Qed.

Lemma e_query_hint s hint q : e_query (e_with s (e_gens s) (e_sub s) (e_rev s) (e_epoch s) hint) q = e_query s q.
Proof. destruct s, q; reflexivity. Qed.

Lemma marshal_roundtrip_epoch s : EG s ->
  exists s', e_unmarshal (e_marshal s) = Some s' /\ forall q, e_query s' q = e_query s q.
Proof. intros H. eexists. split; [apply e_unmarshal_marshal; exact H|]. intros q. apply e_query_hint. Qed.

(* the geometry never changes, so every reachable allocator can be restored *)
Definition e_op_next (s : estate) (o : op) : estate :=
  match o with
  | Alloc h => fst (e_alloc s h)
  | Renew h => fst (e_renew s h)
  | Release h => e_release s h
  | Advance => e_advance s
  | _ => s
  end.
Lemma e_op_next_EG s o : EG s -> EG (e_op_next s o).
Proof.
  intros H. destruct o; cbn [e_op_next]; try exact H;
  unfold e_alloc, e_release, e_renew;
  repeat match goal with |- context [match ?x with _ => _ end] => destruct x end; exact H.
Qed.
Definition e_run (base ones pl grace : N) (ops : list op) : estate := fold_left e_op_next ops (e_init base ones pl grace).
Lemma e_run_EG base ones pl grace ops : ones <= pl -> pl <= 32 -> base mod 2 ^ (32 - ones) = 0 ->
  EG (e_run base ones pl grace ops).
Proof.
  intros H1 H2 H3. unfold e_run. assert (H0 : EG (e_init base ones pl grace)) by (repeat split; assumption).
  revert H0. generalize (e_init base ones pl grace).
  induction ops as [|o tl IH]; intros s Hs; cbn [fold_left]; [exact Hs|]. apply IH. apply e_op_next_EG. exact Hs.
Qed.

(* ---- MemoryAllocationStore: byIP as maintained incrementally = byIP as rebuilt by Unmarshal ---- *)
Definition addr_is (a : N) (r : srec) : bool := sr_addr r =? a.
Definition m_next (m : mstate) (o : mop) : mstate := fst (m_step m o).
Definition m_run (ops : list mop) : mstate := fold_left m_next ops minit.

Lemma rebuild_find recs a :
  aget a (fold_right (fun r ip => aset (sr_addr r) r ip) [] recs) = find (addr_is a) recs.
Proof.
  induction recs as [|r tl IH]; cbn [fold_right find]; [reflexivity|]. unfold addr_is at 1.
  destruct (N.eqb_spec (sr_addr r) a) as [<-|Hne]; [apply aget_aset_eq|].
  rewrite aget_aset_ne by exact Hne. exact IH.
Qed.

Record MInv (m : mstate) : Prop := {
  mi_ip : forall a, aget a (ms_byip m) = find (addr_is a) (ms_recs m);
  mi_key : forall x y, In x (ms_recs m) -> In y (ms_recs m) -> key_is (sr_pool x) (sr_sub x) y = true -> x = y;
  mi_adr : forall x y, In x (ms_recs m) -> In y (ms_recs m) -> sr_addr x = sr_addr y -> x = y }.

Lemma drop_in l p s x : In x (m_drop l p s) <-> In x l /\ key_is p s x = false.
Proof. unfold m_drop. rewrite filter_In, negb_true_iff. tauto. Qed.

Lemma find_drop_same l p s a :
  (forall y, In y l -> addr_is a y = true -> key_is p s y = false) ->
  find (addr_is a) (m_drop l p s) = find (addr_is a) l.
Proof.
  induction l as [|y tl IH]; intros H; [reflexivity|]. cbn [m_drop filter find].
  change (filter (fun r => negb (key_is p s r)) tl) with (m_drop tl p s).
  assert (IH' := IH (fun z Hz => H z (or_intror Hz))).
  destruct (addr_is a y) eqn:Ea.
  - rewrite (H y (or_introl eq_refl) Ea). cbn [negb find]. rewrite Ea. reflexivity.
  - destruct (key_is p s y); cbn [negb find]; [exact IH'|rewrite Ea; exact IH'].
Qed.

Lemma find_drop_none l p s a :
  (forall y, In y l -> addr_is a y = true -> key_is p s y = true) ->
  find (addr_is a) (m_drop l p s) = None.
Proof.
  induction l as [|y tl IH]; intros H; [reflexivity|]. cbn [m_drop filter].
  change (filter (fun r => negb (key_is p s r)) tl) with (m_drop tl p s).
  assert (IH' := IH (fun z Hz => H z (or_intror Hz))).
  destruct (key_is p s y) eqn:Ek; cbn [negb]; [exact IH'|]. cbn [find].
  destruct (addr_is a y) eqn:Ea; [|exact IH']. rewrite (H y (or_introl eq_refl) Ea) in Ek. discriminate.
Qed.

Lemma key_is_self r : key_is (sr_pool r) (sr_sub r) r = true.
Proof. unfold key_is. rewrite !N.eqb_refl. reflexivity. Qed.

Lemma key_is_trans p s x y : key_is p s x = true -> key_is p s y = true -> key_is (sr_pool x) (sr_sub x) y = true.
Proof.
  unfold key_is. rewrite !andb_true_iff, !N.eqb_eq. intros [-> ->] [-> ->]. split; reflexivity.
Qed.

(* byIP after dropping the record stored under (p, s) *)
Lemma drop_ip m p s a : MInv m ->
  aget a (match m_find m p s with Some prev => adel (sr_addr prev) (ms_byip m) | None => ms_byip m end) =
  find (addr_is a) (m_drop (ms_recs m) p s).
Proof.
  intros [Hip Hkey Hadr].
  destruct (existsb (fun y => addr_is a y && key_is p s y) (ms_recs m)) eqn:Ex.
  - apply existsb_exists in Ex as (y & Hy & Hc). apply andb_true_iff in Hc as [Hya Hyk].
    unfold m_find. destruct (find (key_is p s) (ms_recs m)) as [prev|] eqn:Ef.
    + apply find_some in Ef as [Hpin Hpk].
      assert (prev = y) by (apply Hkey; [exact Hpin|exact Hy|eapply key_is_trans; eassumption]). subst prev.
      unfold addr_is in Hya. apply N.eqb_eq in Hya. rewrite Hya, aget_adel_eq. symmetry. apply find_drop_none.
      intros z Hz Hza. unfold addr_is in Hza. apply N.eqb_eq in Hza.
      assert (z = y) by (apply Hadr; [exact Hz|exact Hy|congruence]). subst z. exact Hyk.
    + exfalso. pose proof (find_none _ _ Ef y Hy) as H. congruence.
  - assert (Hno : forall y, In y (ms_recs m) -> addr_is a y = true -> key_is p s y = false).
    { intros y Hy Hya. destruct (key_is p s y) eqn:Ek; [|reflexivity]. exfalso.
      assert (existsb (fun y => addr_is a y && key_is p s y) (ms_recs m) = true); [|congruence].
      apply existsb_exists. exists y. rewrite Hya, Ek. split; [exact Hy|reflexivity]. }
    rewrite (find_drop_same _ _ _ _ Hno), <- Hip. unfold m_find.
    destruct (find (key_is p s) (ms_recs m)) as [prev|] eqn:Ef; [|reflexivity].
    apply find_some in Ef as [Hpin Hpk]. apply aget_adel_ne. intros Heq.
    assert (addr_is a prev = true) by (unfold addr_is; apply N.eqb_eq; exact Heq).
    rewrite (Hno prev Hpin H) in Hpk. discriminate.
Qed.

Lemma drop_inv_parts m p s : MInv m ->
  (forall x y, In x (m_drop (ms_recs m) p s) -> In y (m_drop (ms_recs m) p s) -> key_is (sr_pool x) (sr_sub x) y = true -> x = y) /\
  (forall x y, In x (m_drop (ms_recs m) p s) -> In y (m_drop (ms_recs m) p s) -> sr_addr x = sr_addr y -> x = y).
Proof.
  intros [_ Hkey Hadr]. split; intros x y Hx Hy; apply drop_in in Hx as [Hx _]; apply drop_in in Hy as [Hy _];
    [apply Hkey|apply Hadr]; assumption.
Qed.

Lemma m_save_accepted m r ip1 :
  MInv m ->
  (forall e, aget (sr_addr r) (ms_byip m) = Some e -> key_is (sr_pool r) (sr_sub r) e = true) ->
  (forall a, a <> sr_addr r -> aget a ip1 = find (addr_is a) (m_drop (ms_recs m) (sr_pool r) (sr_sub r))) ->
  MInv {| ms_recs := r :: m_drop (ms_recs m) (sr_pool r) (sr_sub r); ms_byip := aset (sr_addr r) r ip1; ms_totals := ms_totals m |}.
Proof.
  intros Hinv Hchk Hip1. pose proof Hinv as [Hip Hkey Hadr]. destruct (drop_inv_parts m (sr_pool r) (sr_sub r) Hinv) as [Dk Da].
  constructor; cbn [ms_recs ms_byip].
  - intros a. cbn [find]. unfold addr_is at 1. destruct (N.eqb_spec (sr_addr r) a) as [<-|Hne]; [apply aget_aset_eq|].
    rewrite aget_aset_ne by exact Hne. apply Hip1. congruence.
  - intros x y [<-|Hx] [<-|Hy] Hk; try reflexivity.
    + apply drop_in in Hy as [_ Hy]. congruence.
    + apply drop_in in Hx as [_ Hx]. exfalso. unfold key_is in *. rewrite andb_true_iff, !N.eqb_eq in Hk.
      destruct Hk as [H1 H2]. rewrite <- H1, <- H2, !N.eqb_refl in Hx. discriminate.
    + apply Dk; assumption.
  - assert (Hfresh : forall y, In y (m_drop (ms_recs m) (sr_pool r) (sr_sub r)) -> sr_addr y <> sr_addr r).
    { intros y Hy Heq. apply drop_in in Hy as [Hy Hyk].
      destruct (find (addr_is (sr_addr r)) (ms_recs m)) as [e|] eqn:Ef.
      - pose proof Ef as Ef'. apply find_some in Ef' as [He Hea]. unfold addr_is in Hea. apply N.eqb_eq in Hea.
        assert (e = y) by (apply Hadr; [exact He|exact Hy|congruence]). subst e.
        rewrite <- Hip in Ef. rewrite (Hchk _ Ef) in Hyk. discriminate.
      - pose proof (find_none _ _ Ef y Hy) as H. unfold addr_is in H. apply N.eqb_neq in H. contradiction. }
    intros x y [<-|Hx] [<-|Hy] Ha; try reflexivity.
    + exfalso. eapply Hfresh; [exact Hy|symmetry; exact Ha].
    + exfalso. eapply Hfresh; [exact Hx|exact Ha].
    + apply Da; assumption.
Qed.

Lemma m_next_inv m o : MInv m -> MInv (m_next m o).
Proof.
  intros Hinv. pose proof Hinv as [Hip Hkey Hadr]. unfold m_next. destruct o as [r|p s|p t]; cbn [m_step].
  - (* MSave *)
    assert (Hip1 : forall a, a <> sr_addr r ->
      aget a (match m_find m (sr_pool r) (sr_sub r) with
              | Some prev => if sr_addr prev =? sr_addr r then ms_byip m else adel (sr_addr prev) (ms_byip m)
              | None => ms_byip m end) = find (addr_is a) (m_drop (ms_recs m) (sr_pool r) (sr_sub r))).
    { intros a Ha. rewrite <- (drop_ip m _ _ a Hinv). destruct (m_find m (sr_pool r) (sr_sub r)) as [prev|]; [|reflexivity].
      destruct (N.eqb_spec (sr_addr prev) (sr_addr r)) as [He|]; [|reflexivity].
      symmetry. apply aget_adel_ne. congruence. }
    destruct (aget (sr_addr r) (ms_byip m)) as [e|] eqn:Ee.
    + destruct (negb (sr_sub e =? sr_sub r) || negb (sr_pool e =? sr_pool r)) eqn:Ec; cbn [fst]; [exact Hinv|].
      apply orb_false_iff in Ec as [E1 E2]. apply negb_false_iff in E1, E2.
      apply m_save_accepted; [exact Hinv| |exact Hip1].
      intros e' He'. rewrite Ee in He'. injection He' as <-. unfold key_is. rewrite N.eqb_sym in E1, E2. rewrite N.eqb_sym, E2, N.eqb_sym, E1. reflexivity.
    + cbn [fst]. apply m_save_accepted; [exact Hinv|intros e' He'; rewrite Ee in He'; discriminate|exact Hip1].
  - (* MRemove *)
    cbn [fst]. destruct (drop_inv_parts m p s Hinv) as [Dk Da]. constructor; cbn [ms_recs ms_byip]; [|exact Dk|exact Da].
    intros a. apply drop_ip. exact Hinv.
  - cbn [fst]. constructor; cbn [ms_recs ms_byip]; assumption.
Qed.

Lemma m_run_inv ops : MInv (m_run ops).
Proof.
  unfold m_run. assert (H0 : MInv minit) by (constructor; cbn; [reflexivity|intros ? ? []|intros ? ? []]).
  revert H0. generalize minit. induction ops as [|o tl IH]; intros m Hm; cbn [fold_left]; [exact Hm|].
  apply IH. apply m_next_inv. exact Hm.
Qed.

Lemma marshal_roundtrip_store ops q : m_query (m_roundtrip (m_run ops)) q = m_query (m_run ops) q.
Proof.
  pose proof (m_run_inv ops) as [Hip _ _]. generalize dependent (m_run ops). intros m Hip.
  unfold m_roundtrip, srec_rt. rewrite map_id. destruct q; cbn [m_query ms_recs ms_byip ms_totals]; try reflexivity.
  rewrite rebuild_find, Hip. reflexivity.
Qed.

(* ================================================================================ *)
(* Store keys <-> subscriber ids                                                      *)

Lemma skipn_app_exact {A} (p l : list A) : skipn (length p) (p ++ l) = l.
Proof. induction p as [|x p IH]; [reflexivity|exact IH]. Qed.

(* every id, whatever bytes it contains, is recovered from its key *)
Lemma id_of_key_of_id pool id : id_of_key pool (key_of_id pool id) = Some id.
Proof.
  unfold id_of_key, key_of_id, key_prefix.
  replace (alloc_lit ++ pool ++ [47] ++ id) with ((alloc_lit ++ pool ++ [47]) ++ id)
    by (rewrite <- !app_assoc; reflexivity).
  destruct (Nat.ltb_spec (length ((alloc_lit ++ pool ++ [47]) ++ id)) (length (alloc_lit ++ pool ++ [47]))) as [H|H].
  - rewrite app_length in H. lia.
  - rewrite skipn_app_exact. reflexivity.
Qed.

Lemma key_of_id_inj pool id1 id2 : key_of_id pool id1 = key_of_id pool id2 -> id1 = id2.
Proof.
  intros H. pose proof (id_of_key_of_id pool id1) as H1. rewrite H, id_of_key_of_id in H1. congruence.
Qed.

Lemma holder_of_key_of_id w id : holder_of_key w (key_of_id (w_pool w) id) = intern (w_names w) id.
Proof. unfold holder_of_key. rewrite id_of_key_of_id. reflexivity. Qed.

(* a remote delete / put delivered under the key of subscriber [id] acts on exactly that subscriber *)
Lemma wire_remote_del w s id h : intern (w_names w) id = Some h ->
  wnext w s (WRemoteDel (key_of_id (w_pool w) id)) = dnext s (DRemoteDel h).
Proof. intros H. unfold wnext, wstep, wtrans. rewrite holder_of_key_of_id, H. reflexivity. Qed.

(* whatever id the JSON value carries ([vid]: the code does not use it) *)
Lemma wire_remote_put w s id vid h a pl ep : intern (w_names w) id = Some h ->
  wnext w s (WRemotePut (key_of_id (w_pool w) id) vid a pl ep) = dnext s (DRemotePut h a pl ep).
Proof. intros H. unfold wnext, wstep, wtrans. rewrite holder_of_key_of_id, H. reflexivity. Qed.

Lemma wire_echo w s id vid h r : intern (w_names w) id = Some h ->
  wnext w s (WEcho (key_of_id (w_pool w) id) (Some (vid, r))) = dnext s (DEcho h (Some r)).
Proof. intros H. unfold wnext, wstep, wtrans. rewrite holder_of_key_of_id, H. reflexivity. Qed.

Lemma wire_remote_del_applies w s id h : intern (w_names w) id = Some h ->
  d_lookup (wnext w s (WRemoteDel (key_of_id (w_pool w) id))) h = None.
Proof. intros H. rewrite (wire_remote_del w s id h H). apply remote_del_applies. Qed.

(* ... and on no other subscriber of the table (distinct ids have distinct holders) *)
Lemma wire_remote_del_others w s id h h' : intern (w_names w) id = Some h -> h' <> h -> d_lease s = false ->
  d_lookup (wnext w s (WRemoteDel (key_of_id (w_pool w) id))) h' = d_lookup s h'.
Proof.
  intros H Hne Hl. rewrite (wire_remote_del w s id h H). unfold dnext, dstep. cbn [fst].
  unfold handle_remote, d_lookup, d_lease, set_store, set_bm in *. cbn [d_cfg d_bm d_store]. rewrite Hl.
  cbn [d_cfg d_bm]. rewrite Hl. rewrite release_alloc_aget. destruct (N.eqb_spec h h'); [congruence|].
  unfold unit_of. rewrite bnext_geo. reflexivity.
Qed.

(* ---- pool ids: keys of different pools ---- *)
Definition no_slash (p : bytes) : bool := forallb (fun b => negb (b =? 47)) p.

Lemma no_slash_notin p : no_slash p = true -> ~ In 47 p.
Proof.
  unfold no_slash. rewrite forallb_forall. intros H Hin. apply H in Hin. rewrite N.eqb_refl in Hin. discriminate.
Qed.

Lemma split_at_first (x : N) (p1 : list N) : forall p2 t1 t2,
  ~ In x p1 -> ~ In x p2 -> p1 ++ x :: t1 = p2 ++ x :: t2 -> p1 = p2 /\ t1 = t2.
Proof.
  induction p1 as [|a p1 IH]; intros [|b p2] t1 t2 H1 H2 E; cbn [app] in E.
  - injection E as ->. split; reflexivity.
  - injection E as -> _. exfalso. apply H2. left. reflexivity.
  - injection E as -> _. exfalso. apply H1. left. reflexivity.
  - injection E as -> E. destruct (IH p2 t1 t2) as [-> ->]; [|  |exact E|split; reflexivity].
    + intros Hin. apply H1. right. exact Hin.
    + intros Hin. apply H2. right. exact Hin.
Qed.

(* pools whose ids contain no '/' never share a key *)
Lemma key_of_id_inj_pools p1 id1 p2 id2 : no_slash p1 = true -> no_slash p2 = true ->
  key_of_id p1 id1 = key_of_id p2 id2 -> p1 = p2 /\ id1 = id2.
Proof.
  intros H1 H2 E. unfold key_of_id in E. apply app_inv_head in E. cbn [app] in E.
  apply (split_at_first 47); [apply no_slash_notin; exact H1|apply no_slash_notin; exact H2|exact E].
Qed.

(* ... in general they do: pool "a" with subscriber "b/c" and pool "a/b" with subscriber "c" *)
Lemma key_of_id_pools_refuted : exists p1 id1 p2 id2, p1 <> p2 /\ key_of_id p1 id1 = key_of_id p2 id2.
Proof. exists [97], [98; 47; 99], [97; 47; 98], [99]. split; [discriminate|reflexivity]. Qed.

(* and the pool with the shorter id reads (Query / Watch by prefix) the other pool's records as its own
   subscriber "q/id" *)
Lemma nested_pool_alias p q id : id_of_key p (key_of_id (p ++ 47 :: q) id) = Some (q ++ 47 :: id).
Proof.
  replace (key_of_id (p ++ 47 :: q) id) with (key_of_id p (q ++ 47 :: id)); [apply id_of_key_of_id|].
  unfold key_of_id. f_equal. rewrite <- app_assoc. reflexivity.
Qed.

(* ================================================================================ *)
(* Lease mode: what exactly survives a restart                                        *)

(* a freshly started allocator is at epoch 2: no record is ever seen as expired by loadAllocations,
   its clean-up branch is dead code at Start *)
Lemma lease_expired_fresh c ep : lease_expired (fresh_ep c) ep = false.
Proof.
  unfold lease_expired, fresh_ep, e_init. cbn [e_epoch]. change (2 - 2) with 0.
  destruct (ep <? 0) eqn:E; [apply N.ltb_lt in E; lia|]. apply andb_false_r.
Qed.

Lemma e_alloc_epoch e h : e_epoch (fst (e_alloc e h)) = e_epoch e.
Proof.
  unfold e_alloc. destruct (aget h (e_sub e)); [reflexivity|]. destruct (e_find e); reflexivity.
Qed.

Lemma load_lease_store l : forall e st, e_epoch e = 2 ->
  snd (load_lease (e, st) l) = st /\ e_epoch (fst (load_lease (e, st) l)) = 2.
Proof.
  induction l as [|x tl IH]; intros e st He; [split; [reflexivity|exact He]|].
  rewrite load_lease_cons.
  assert (Hx : lease_expired e (r_ep (snd x)) = false).
  { unfold lease_expired. rewrite He. change (2 - 2) with 0.
    destruct (r_ep (snd x) <? 0) eqn:E; [apply N.ltb_lt in E; lia|]. apply andb_false_r. }
  rewrite Hx. apply IH. rewrite e_alloc_epoch. exact He.
Qed.

(* the store is untouched by a lease-mode restart *)
Lemma restart_store_lease s l : d_store (restart_with l s) = d_store s.
Proof.
  unfold restart_with. destruct (c_lease (d_cfg s)); [|reflexivity].
  pose proof (load_lease_store l (fresh_ep (d_cfg s)) (d_store s) eq_refl) as [H _].
  destruct (load_lease (fresh_ep (d_cfg s), d_store s) l) as [e st]. cbn in *. exact H.
Qed.

(* positional relabelling: load_lease never reads the stored address *)
Fixpoint relabel (base k : N) (l : list (N * rec)) : list (N * rec) :=
  match l with
  | [] => []
  | (h, r) :: tl => (h, {| r_addr := add_nocarry32 base k; r_pl := r_pl r; r_ep := r_ep r |}) :: relabel base (k + 1) tl
  end.

Lemma load_lease_relabel base l : forall k es, load_lease es (relabel base k l) = load_lease es l.
Proof.
  induction l as [|[h r] tl IH]; intros k [e st]; [reflexivity|].
  cbn [relabel]. rewrite !load_lease_cons. cbn [fst snd r_ep].
  destruct (lease_expired e (r_ep r)); apply IH.
Qed.

Lemma relabel_keys base l : forall k, map fst (relabel base k l) = map fst l.
Proof. induction l as [|[h r] tl IH]; intros k; [reflexivity|]. cbn [relabel map fst]. rewrite IH. reflexivity. Qed.

Lemma relabel_length base l : forall k, length (relabel base k l) = length l.
Proof. induction l as [|[h r] tl IH]; intros k; [reflexivity|]. cbn [relabel length]. rewrite IH. reflexivity. Qed.

Lemma relabel_order base l : forall k, lease_order_ok base k (relabel base k l) = true.
Proof.
  induction l as [|[h r] tl IH]; intros k; [reflexivity|]. cbn [relabel lease_order_ok r_addr].
  rewrite N.eqb_refl. apply IH.
Qed.

Lemma relabel_nth base l : forall k n h r, nth_error l n = Some (h, r) ->
  exists r', In (h, r') (relabel base k l) /\ r_addr r' = add_nocarry32 base (k + N.of_nat n).
Proof.
  induction l as [|[h0 r0] tl IH]; intros k n h r Hn; [destruct n; discriminate|].
  destruct n as [|n]; cbn [nth_error] in Hn.
  - injection Hn as -> ->. eexists. split; [left; reflexivity|]. cbn [r_addr]. rewrite N.add_0_r. reflexivity.
  - destruct (IH (k + 1) n h r Hn) as (r' & Hin & Ha). exists r'. split; [right; exact Hin|].
    rewrite Ha. f_equal. lia.
Qed.

(* guard of the positional theorem: grace period 1 (or 0 = default 1), distinct subscribers, they fit *)
Definition lease_fits (c : cfg) (l : list (N * rec)) : bool :=
  (e_grace (fresh_ep c) mod 256 <? 2) && nodupb (map fst l) && (N.of_nat (length l) + 2 <=? e_total (fresh_ep c)).

(* exactly what survives: the SET of stored subscribers; the n-th enumerated record's subscriber holds
   the (n+1)-th pool address, whatever address the record carries *)
Lemma restart_lease_positional s l n h r : d_lease s = true -> lease_fits (d_cfg s) l = true ->
  nth_error l n = Some (h, r) ->
  d_lookup (restart_with l s) h = Some (add_nocarry32 (g_base (c_geo (d_cfg s))) (1 + N.of_nat n)).
Proof.
  intros Hl Hg Hn. rewrite restart_lookup_lease by exact Hl.
  unfold lease_fits in Hg. apply andb_true_iff in Hg as [Hg Hlen]. apply andb_true_iff in Hg as [Hgr Hnd].
  apply N.ltb_lt in Hgr. apply N.leb_le in Hlen. apply nodupb_nodup in Hnd.
  set (base := g_base (c_geo (d_cfg s))).
  rewrite <- (load_lease_relabel base l 1).
  destruct (relabel_nth base l 1 n h r Hn) as (r' & Hin & Ha). rewrite <- Ha.
  refine (proj2 (load_lease_spec (relabel base 1 l) (fresh_ep (d_cfg s)) (d_store s) 1 _ _ _ (N.le_refl _) _)
                (relabel_order base l 1) h r' Hin).
  - split; [reflexivity|]. split; [reflexivity|]. split; [exact Hgr|]. intros; reflexivity.
  - rewrite relabel_keys. exact Hnd.
  - intros; reflexivity.
  - rewrite relabel_length. lia.
Qed.

Lemma lease_guard_fits c l : lease_guard c l = true -> lease_fits c l = true.
Proof.
  unfold lease_guard, lease_fits. intros H. apply andb_true_iff in H as [H _]. exact H.
Qed.

(* grace period >= 2 (mod 256): a fresh allocator has no free slot at all (every generation-0 slot is
   within the grace window of epoch 2), so NOBODY is restored *)
Lemma find_fromP_none p f : (forall i, f i = false) -> forall i, find_fromP p f i = None.
Proof.
  intros Hf. induction p as [q IH|q IH|]; intros i; cbn [find_fromP]; rewrite ?Hf, ?IH; reflexivity.
Qed.

Lemma e_find_fresh_none c : 2 <= e_grace (fresh_ep c) mod 256 -> e_find (fresh_ep c) = None.
Proof.
  intros Hg. unfold e_find.
  assert (Hf : forall k, e_slot_ok (fresh_ep c) k = false).
  { intros k. unfold e_slot_ok. apply andb_false_iff. right. unfold e_free, e_gen, e_cur.
    cbn [fresh_ep e_init e_gens e_epoch aget]. change ((2 mod 4 + 4 - 0) mod 4) with 2. apply N.ltb_ge. exact Hg. }
  unfold find_from. destruct (e_total (fresh_ep c)); [reflexivity|]. rewrite find_fromP_none by exact Hf. reflexivity.
Qed.

Lemma load_lease_stuck c l : e_find (fresh_ep c) = None -> forall st,
  fst (load_lease (fresh_ep c, st) l) = fresh_ep c.
Proof.
  intros Hf. induction l as [|x tl IH]; intros st; [reflexivity|].
  rewrite load_lease_cons, lease_expired_fresh. unfold e_alloc at 1.
  change (aget (fst x) (e_sub (fresh_ep c))) with (@None N). rewrite Hf. cbn [fst]. apply IH.
Qed.

Lemma restart_lease_grace2_nobody s l h : d_lease s = true -> 2 <= e_grace (fresh_ep (d_cfg s)) mod 256 ->
  d_lookup (restart_with l s) h = None.
Proof.
  intros Hl Hg. rewrite restart_lookup_lease by exact Hl.
  rewrite (load_lease_stuck _ l (e_find_fresh_none _ Hg)). reflexivity.
Qed.

(* ================================================================================ *)
(* Ids inside JSON: the round trips under the guard "every id held is valid UTF-8"    *)

Lemma coerce_keys_valid {V} names ord (m : amap V) :
  ids_valid names (map fst m) = true -> coerce_keys names ord m = m.
Proof. unfold coerce_keys. intros ->. reflexivity. Qed.

Lemma b_roundtrip_valid names ord s :
  ids_valid names (map fst (b_alloc s)) = true -> b_roundtrip names ord s = b_unmarshal (b_marshal s).
Proof.
  intros H. unfold b_roundtrip. cbn [b_marshal jb_base jb_ppl jb_pl jb_v6 jb_bitmap jb_alloc].
  rewrite coerce_keys_valid by exact H. reflexivity.
Qed.

Lemma marshal_roundtrip_bitmap_ids_partial names ord g ops q : fam_ok g ->
  ids_valid names (map fst (b_alloc (brun g ops))) = true ->
  b_query (b_roundtrip names ord (brun g ops)) q = b_query (brun g ops) q.
Proof.
  intros Hf Hv. rewrite b_roundtrip_valid by exact Hv.
  apply marshal_roundtrip_bitmap; [rewrite brun_geo; exact Hf|apply brun_inv].
Qed.

Lemma e_roundtrip_valid names ord s :
  ids_valid names (map fst (e_sub s)) = true -> e_roundtrip names ord s = e_unmarshal (e_marshal s).
Proof.
  intros H. unfold e_roundtrip.
  cbn [e_marshal je_base je_netlen je_pl je_epoch je_grace je_gens je_sub je_rev].
  rewrite coerce_keys_valid by exact H. rewrite H. reflexivity.
Qed.

Lemma marshal_roundtrip_epoch_ids_partial names ord base ones pl grace ops :
  ones <= pl -> pl <= 32 -> base mod 2 ^ (32 - ones) = 0 ->
  ids_valid names (map fst (e_sub (e_run base ones pl grace ops))) = true ->
  exists s', e_roundtrip names ord (e_run base ones pl grace ops) = Some s' /\
             forall q, e_query s' q = e_query (e_run base ones pl grace ops) q.
Proof.
  intros H1 H2 H3 Hv. rewrite e_roundtrip_valid by exact Hv.
  apply marshal_roundtrip_epoch. apply e_run_EG; assumption.
Qed.

Lemma marshal_roundtrip_store_ids_partial names ops q :
  ids_valid names (map sr_sub (ms_recs (m_run ops))) = true ->
  m_query (m_roundtrip_ids names (m_run ops)) q = m_query (m_run ops) q.
Proof. intros Hv. unfold m_roundtrip_ids. rewrite Hv. apply marshal_roundtrip_store. Qed.

(* refutations: the id "\xff" (holder 0); encoding/json turns it into U+FFFD = EF BF BD (holder 1) *)
Definition ff_names : list (N * bytes) := [(0, [255]); (1, [239; 191; 189])].
Definition ff_geo : geo := {| g_bits := 32; g_base := 167772160; g_ppl := 30; g_pl := 32 |}.

Lemma marshal_roundtrip_bitmap_ids_refuted :
  exists names ord g ops q, fam_ok g /\ b_query (b_roundtrip names ord (brun g ops)) q <> b_query (brun g ops) q.
Proof.
  exists ff_names, [1; 0], ff_geo, [Alloc 0], (QLookup 0). split; [left; reflexivity|]. vm_compute. discriminate.
Qed.

Lemma marshal_roundtrip_epoch_ids_refuted :
  exists names ord base ones pl grace ops q s', 
    e_roundtrip names ord (e_run base ones pl grace ops) = Some s' /\ e_query s' q <> e_query (e_run base ones pl grace ops) q.
Proof.
  exists ff_names, [1; 0], 167772160, 29, 32, 1, [Alloc 0], (QELookup 0).
  eexists. split; [vm_compute; reflexivity|]. vm_compute. discriminate.
Qed.

Lemma marshal_roundtrip_store_ids_refuted :
  exists names ops q, m_query (m_roundtrip_ids names (m_run ops)) q <> m_query (m_run ops) q.
Proof.
  exists ff_names, [MSave {| sr_pool := 0; sr_sub := 0; sr_addr := 167772161; sr_pl := 32; sr_bits := 32; sr_type := 1; sr_mac := 0; sr_iaid := 0 |}],
         (QMBySub 0).
  vm_compute. discriminate.
Qed.

(* an id without bytes >= 128 is never changed *)
Lemma coerce_fuel_ascii l : forall n, (length l <= n)%nat -> forallb (fun b => b <? 128) l = true -> coerce_fuel n l = l.
Proof.
  induction l as [|b tl IH]; intros n Hn Ha; destruct n as [|n]; cbn [coerce_fuel]; try reflexivity.
  - cbn in Hn. lia.
  - cbn [forallb] in Ha. apply andb_true_iff in Ha as [Hb Ht]. unfold utf8_len. rewrite Hb.
    cbn [firstn skipn app]. f_equal. apply IH; [cbn in Hn; lia|exact Ht].
Qed.

Lemma ascii_utf8_valid l : forallb (fun b => b <? 128) l = true -> utf8_valid l = true.
Proof.
  intros H. unfold utf8_valid, json_coerce. rewrite coerce_fuel_ascii by (auto; exact H). apply bytes_eqb_eq. reflexivity.
Qed.
