(* Lemmas about Model/Rendezvous.v (C17). The hash is treated as an opaque score; nothing here
   depends on FNV or the mixer beyond being functions. *)
From Coq Require Import NArith List Bool Lia Permutation Sorted ZifyN ZifyBool.
From Verif Require Import Base.Word Model.Rendezvous.
Import ListNotations.
Local Open Scope N_scope.

(* ---------- sort_s is a canonical form of the multiset ---------- *)
Definition lex_le (a b : bytes) : Prop := lex_leb a b = true.

Lemma insert_s_perm x l : Permutation (insert_s x l) (x :: l).
Proof.
  induction l as [|y tl IH]; cbn; [reflexivity|].
  destruct (lex_leb x y); [reflexivity|].
  rewrite IH. apply perm_swap.
Qed.

Lemma sort_s_perm l : Permutation (sort_s l) l.
Proof.
  induction l as [|x tl IH]; cbn; [reflexivity|].
  rewrite insert_s_perm. constructor. exact IH.
Qed.

Lemma insert_s_sorted x l : StronglySorted lex_le l -> StronglySorted lex_le (insert_s x l).
Proof.
  induction l as [|y tl IH]; cbn; intros Hs.
  - repeat constructor.
  - inversion Hs as [|? ? Htl Hy]; subst.
    destruct (lex_leb x y) eqn:E.
    + constructor; [exact Hs|]. constructor; [exact E|].
      eapply Forall_impl; [|exact Hy]. intros z Hz. unfold lex_le in *. eapply lex_leb_trans; eauto.
    + constructor; [auto|].
      assert (Hyx : lex_le y x). { destruct (lex_leb_total x y) as [H|H]; [congruence|exact H]. }
      eapply Permutation_Forall; [symmetry; apply insert_s_perm|]. constructor; assumption.
Qed.

Lemma sort_s_sorted l : StronglySorted lex_le (sort_s l).
Proof. induction l as [|x tl IH]; cbn; [constructor|]. apply insert_s_sorted, IH. Qed.

Lemma sorted_perm_unique l1 l2 :
  StronglySorted lex_le l1 -> StronglySorted lex_le l2 -> Permutation l1 l2 -> l1 = l2.
Proof.
  revert l2; induction l1 as [|x t1 IH]; intros l2 H1 H2 Hp.
  - apply Permutation_nil in Hp. auto.
  - destruct l2 as [|y t2]; [symmetry in Hp; apply Permutation_nil in Hp; discriminate|].
    inversion H1 as [|? ? Ht1 Hx]; inversion H2 as [|? ? Ht2 Hy]; subst.
    assert (x = y) as ->.
    { assert (In x (y :: t2)) as Hin1 by (eapply Permutation_in; [exact Hp|left; reflexivity]).
      assert (In y (x :: t1)) as Hin2 by (eapply Permutation_in; [symmetry; exact Hp|left; reflexivity]).
      destruct Hin1 as [->|Hin1]; [reflexivity|]. destruct Hin2 as [->|Hin2]; [reflexivity|].
      rewrite Forall_forall in Hx, Hy. apply lex_leb_antisym; [apply Hx|apply Hy]; assumption. }
    f_equal. apply IH; auto. eapply Permutation_cons_inv; eauto.
Qed.

Lemma sort_s_perm_eq l1 l2 : Permutation l1 l2 -> sort_s l1 = sort_s l2.
Proof.
  intros Hp. apply sorted_perm_unique; try apply sort_s_sorted.
  rewrite !sort_s_perm. exact Hp.
Qed.

Lemma mem_s_In x l : mem_s x l = true <-> In x l.
Proof.
  unfold mem_s. rewrite existsb_exists. split.
  - intros (y & Hy & E). apply bytes_eqb_eq in E. subst. exact Hy.
  - intros H. exists x. split; [exact H|apply bytes_eqb_eq; reflexivity].
Qed.

Lemma mem_s_perm x l1 l2 : Permutation l1 l2 -> mem_s x l1 = mem_s x l2.
Proof.
  intros Hp. destruct (mem_s x l1) eqn:E1; destruct (mem_s x l2) eqn:E2; try reflexivity.
  - apply mem_s_In in E1. eapply Permutation_in in E1; [|exact Hp]. apply mem_s_In in E1. congruence.
  - apply mem_s_In in E2. eapply Permutation_in in E2; [|symmetry; exact Hp]. apply mem_s_In in E2. congruence.
Qed.

(* every configuration order gives the same node list *)
Lemma new_node_perm id c1 c2 : Permutation c1 c2 -> peers (new_node id c1) = peers (new_node id c2).
Proof.
  intros Hp. unfold new_node; cbn. rewrite (mem_s_perm id c1 c2 Hp).
  destruct (mem_s id c2); apply sort_s_perm_eq; [exact Hp|].
  apply Permutation_app_tail. exact Hp.
Qed.

Lemma owner_perm_invariant k id c1 c2 :
  Permutation c1 c2 -> owner k (peers (new_node id c1)) = owner k (peers (new_node id c2)).
Proof. intros Hp. rewrite (new_node_perm id c1 c2 Hp). reflexivity. Qed.

(* two different nodes configured with permutations of one list that contains both of them *)
Lemma owner_all_nodes_agree k id1 id2 c1 c2 :
  Permutation c1 c2 -> In id1 c1 -> In id2 c1 ->
  owner k (peers (new_node id1 c1)) = owner k (peers (new_node id2 c2)).
Proof.
  intros Hp H1 H2. unfold new_node; cbn.
  assert (mem_s id1 c1 = true) as -> by (apply mem_s_In; exact H1).
  assert (mem_s id2 c2 = true) as -> by (apply mem_s_In; eapply Permutation_in; eauto).
  rewrite (sort_s_perm_eq c1 c2 Hp). reflexivity.
Qed.

(* ---------- AddPeer in any order ---------- *)
Definition add_peer (l : list bytes) (p : bytes) : list bytes :=
  if mem_s p l then l else sort_s (l ++ [p]).

Lemma add_peer_sorted l p : StronglySorted lex_le l -> StronglySorted lex_le (add_peer l p).
Proof. unfold add_peer. destruct (mem_s p l); auto. intros _. apply sort_s_sorted. Qed.

Lemma add_peer_In l p x : In x (add_peer l p) <-> In x l \/ x = p.
Proof.
  unfold add_peer. destruct (mem_s p l) eqn:E.
  - apply mem_s_In in E. split; [auto|]. intros [H| ->]; assumption.
  - split.
    + intros H. eapply Permutation_in in H; [|apply sort_s_perm]. apply in_app_or in H.
      destruct H as [H|[H|[]]]; auto.
    + intros H. eapply Permutation_in; [symmetry; apply sort_s_perm|]. apply in_or_app.
      destruct H as [H| ->]; [left; exact H|right; left; reflexivity].
Qed.

Lemma add_peer_NoDup l p : NoDup l -> NoDup (add_peer l p).
Proof.
  unfold add_peer. destruct (mem_s p l) eqn:E; auto. intros Hn.
  eapply Permutation_NoDup; [symmetry; apply sort_s_perm|].
  eapply Permutation_NoDup; [apply Permutation_cons_append|]. constructor; [|exact Hn].
  intros Hin. apply mem_s_In in Hin. congruence.
Qed.

Lemma adds_inv l ps :
  StronglySorted lex_le l -> NoDup l ->
  StronglySorted lex_le (fold_left add_peer ps l) /\ NoDup (fold_left add_peer ps l) /\
  (forall x, In x (fold_left add_peer ps l) <-> In x l \/ In x ps).
Proof.
  revert l; induction ps as [|p ps IH]; intros l Hs Hn; cbn [fold_left].
  - repeat split; auto. intros [H|[]]; exact H.
  - destruct (IH (add_peer l p) (add_peer_sorted l p Hs) (add_peer_NoDup l p Hn)) as (A & B & C).
    repeat split; auto.
    + intros H. apply C in H. rewrite add_peer_In in H. cbn. destruct H as [[H|H]|H]; auto.
    + intros H. apply C. rewrite add_peer_In. cbn in H. destruct H as [H|[H|H]]; auto.
Qed.

Lemma add_order_invariant l ps1 ps2 :
  StronglySorted lex_le l -> NoDup l -> Permutation ps1 ps2 ->
  fold_left add_peer ps1 l = fold_left add_peer ps2 l.
Proof.
  intros Hs Hn Hp.
  destruct (adds_inv l ps1 Hs Hn) as (A1 & B1 & C1).
  destruct (adds_inv l ps2 Hs Hn) as (A2 & B2 & C2).
  apply sorted_perm_unique; auto. apply NoDup_Permutation; auto.
  intros x. rewrite C1, C2. split; intros [H|H]; auto; right.
  - eapply Permutation_in; eauto.
  - eapply Permutation_in; [symmetry|]; eauto.
Qed.

(* ---------- the arg-max fold ---------- *)
Section Fold.
  Variable sc : bytes -> N.
  Let stp := best_step_g sc.

  Lemma fold_ge l acc : snd acc <= snd (fold_left stp l acc).
  Proof.
    revert acc; induction l as [|y tl IH]; intros acc; cbn [fold_left]; [lia|].
    specialize (IH (stp acc y)). unfold stp, best_step_g in *. destruct (snd acc <? sc y) eqn:E; cbn in *; lia.
  Qed.

  Lemma fold_max l acc : forall n, In n l -> sc n <= snd (fold_left stp l acc).
  Proof.
    revert acc; induction l as [|y tl IH]; intros acc n Hin; [destruct Hin|].
    cbn [fold_left]. destruct Hin as [->|Hin]; [|apply IH; exact Hin].
    pose proof (fold_ge tl (stp acc n)) as H. unfold stp, best_step_g in *.
    destruct (snd acc <? sc n) eqn:E; cbn in *; lia.
  Qed.

  (* the winner is the initial accumulator or an element of the list carrying its own score *)
  Lemma fold_in l acc :
    fold_left stp l acc = acc \/
    (In (fst (fold_left stp l acc)) l /\ snd (fold_left stp l acc) = sc (fst (fold_left stp l acc))
     /\ snd acc < snd (fold_left stp l acc)).
  Proof.
    revert acc; induction l as [|y tl IH]; intros acc; cbn [fold_left]; [left; reflexivity|].
    destruct (IH (stp acc y)) as [H|(H1 & H2 & H3)].
    - rewrite H. unfold stp, best_step_g. destruct (snd acc <? sc y) eqn:E; [right|left; reflexivity].
      cbn. repeat split; auto. lia.
    - right. repeat split; [right; exact H1|exact H2|].
      unfold stp, best_step_g in *. destruct (snd acc <? sc y) eqn:E; cbn in *; lia.
  Qed.

  (* two accumulators: the larger one survives unchanged, or both runs end equal *)
  Lemma fold_two l a1 a2 : snd a1 <= snd a2 ->
    fold_left stp l a2 = a2 \/ fold_left stp l a1 = fold_left stp l a2.
  Proof.
    revert a1 a2; induction l as [|y tl IH]; intros a1 a2 Hle; cbn [fold_left]; [left; reflexivity|].
    destruct (snd a2 <? sc y) eqn:E2.
    - assert (stp a2 y = (y, sc y)) as -> by (unfold stp, best_step_g; rewrite E2; reflexivity).
      assert (stp a1 y = (y, sc y)) as ->.
      { unfold stp, best_step_g. assert (snd a1 <? sc y = true) as -> by lia. reflexivity. }
      right. reflexivity.
    - assert (stp a2 y = a2) as -> by (unfold stp, best_step_g; rewrite E2; reflexivity).
      apply IH. unfold stp, best_step_g. destruct (snd a1 <? sc y) eqn:E1; cbn; lia.
  Qed.

  (* removing the first occurrence of a name that did not win does not change the result *)
  Lemma fold_remove p l acc :
    fst (fold_left stp l acc) <> p -> fold_left stp (remove_first p l) acc = fold_left stp l acc.
  Proof.
    revert acc; induction l as [|y tl IH]; intros acc Hne; cbn [remove_first fold_left]; [reflexivity|].
    cbn [fold_left] in Hne.
    destruct (bytes_eqb y p) eqn:E.
    - apply bytes_eqb_eq in E. subst y.
      destruct (snd acc <? sc p) eqn:E1.
      + assert (stp acc p = (p, sc p)) as Hs by (unfold stp, best_step_g; rewrite E1; reflexivity).
        rewrite Hs in *.
        destruct (fold_two tl acc (p, sc p)) as [H|H]; [cbn; lia| |exact H].
        rewrite H in Hne. cbn in Hne. congruence.
      + assert (stp acc p = acc) as -> by (unfold stp, best_step_g; rewrite E1; reflexivity). reflexivity.
    - cbn [fold_left]. apply IH. exact Hne.
  Qed.
End Fold.

(* ---------- the zero-score edge, exactly (abstract score function) ---------- *)
Section FoldZero.
  Variable sc : bytes -> N.
  Let stp := best_step_g sc.

  (* no element beats the accumulator: the accumulator survives *)
  Lemma fold_le_id l acc : (forall n, In n l -> sc n <= snd acc) -> fold_left stp l acc = acc.
  Proof.
    revert acc; induction l as [|y tl IH]; intros acc H; cbn [fold_left]; [reflexivity|].
    assert (stp acc y = acc) as ->.
    { unfold stp, best_step_g. pose proof (H y (or_introl eq_refl)).
      destruct (snd acc <? sc y) eqn:E; [lia|reflexivity]. }
    apply IH. intros n Hn. apply H. right; exact Hn.
  Qed.

  (* the winner is the FIRST element whose score is maximal and exceeds the start value *)
  Lemma fold_first l acc :
    fold_left stp l acc = acc \/
    exists l1 w l2, l = l1 ++ w :: l2 /\ fold_left stp l acc = (w, sc w) /\ snd acc < sc w /\
                    (forall n, In n l1 -> sc n < sc w) /\ (forall n, In n l2 -> sc n <= sc w).
  Proof.
    revert acc; induction l as [|y tl IH]; intros acc; cbn [fold_left]; [left; reflexivity|].
    destruct (snd acc <? sc y) eqn:E.
    - assert (stp acc y = (y, sc y)) as Hs by (unfold stp, best_step_g; rewrite E; reflexivity).
      rewrite Hs. right. destruct (IH (y, sc y)) as [H|(l1 & w & l2 & H1 & H2 & H3 & H4 & H5)].
      + exists [], y, tl. split; [reflexivity|]. split; [exact H|]. split; [lia|]. split; [intros n []|].
        intros n Hn. pose proof (fold_max sc tl (y, sc y) n Hn) as Hm. fold stp in Hm. rewrite H in Hm. exact Hm.
      + exists (y :: l1), w, l2. cbn in H3. split; [rewrite H1; reflexivity|]. split; [exact H2|].
        split; [lia|]. split; [|exact H5]. intros n [<-|Hn]; [exact H3|apply H4; exact Hn].
    - assert (stp acc y = acc) as -> by (unfold stp, best_step_g; rewrite E; reflexivity).
      destruct (IH acc) as [H|(l1 & w & l2 & H1 & H2 & H3 & H4 & H5)]; [left; exact H|right].
      exists (y :: l1), w, l2. split; [rewrite H1; reflexivity|]. split; [exact H2|]. split; [exact H3|].
      split; [|exact H5]. intros n [<-|Hn]; [lia|apply H4; exact Hn].
  Qed.
End FoldZero.

Definition arg_g (sc : bytes -> N) (l : list bytes) : bytes * N := fold_left (best_step_g sc) l ([], 0).

Lemma owner_g_two sc a b tl : owner_g sc (a :: b :: tl) = fst (arg_g sc (a :: b :: tl)).
Proof. reflexivity. Qed.

(* every score is 0 (and there are at least two nodes): the owner is the empty string *)
Lemma owner_g_all_zero sc l :
  (2 <= length l)%nat -> (forall n, In n l -> sc n = 0) -> owner_g sc l = [].
Proof.
  intros Hlen Hz. destruct l as [|a [|b tl]]; [cbn in Hlen; lia|cbn in Hlen; lia|].
  rewrite owner_g_two. unfold arg_g. rewrite fold_le_id; [reflexivity|].
  intros n Hn. rewrite (Hz n Hn). cbn. lia.
Qed.

(* some score is positive: the owner is the first node with the maximal score *)
Lemma owner_g_first_max sc l :
  (2 <= length l)%nat -> (exists n, In n l /\ 0 < sc n) ->
  exists l1 l2, l = l1 ++ owner_g sc l :: l2 /\ 0 < sc (owner_g sc l) /\
                (forall n, In n l1 -> sc n < sc (owner_g sc l)) /\
                (forall n, In n l2 -> sc n <= sc (owner_g sc l)).
Proof.
  intros Hlen (n & Hn & Hpos). destruct l as [|a [|b tl]]; [cbn in Hlen; lia|cbn in Hlen; lia|].
  rewrite owner_g_two. unfold arg_g.
  destruct (fold_first sc (a :: b :: tl) ([], 0)) as [H|(l1 & w & l2 & H1 & H2 & H3 & H4 & H5)].
  - exfalso. pose proof (fold_max sc (a :: b :: tl) ([], 0) n Hn) as Hm. rewrite H in Hm. cbn in Hm. lia.
  - rewrite H2. cbn [fst]. exists l1, l2. cbn in H3. repeat split; auto.
Qed.

(* membership, exactly: the owner is a peer iff some score is positive or "" is itself a peer *)
Lemma owner_g_in_iff sc l :
  (2 <= length l)%nat -> (In (owner_g sc l) l <-> (exists n, In n l /\ 0 < sc n) \/ In [] l).
Proof.
  intros Hlen. split.
  - intros Hin. destruct l as [|a [|b tl]]; [cbn in Hlen; lia|cbn in Hlen; lia|].
    rewrite owner_g_two in Hin. unfold arg_g in Hin.
    destruct (fold_in sc (a :: b :: tl) ([], 0)) as [H|(H1 & H2 & H3)].
    + right. rewrite H in Hin. exact Hin.
    + left. eexists. split; [exact H1|]. rewrite <- H2. cbn in H3. exact H3.
  - intros [Hex|Hnil].
    + destruct (owner_g_first_max sc l Hlen Hex) as (l1 & l2 & H1 & _). rewrite H1 at 2.
      apply in_or_app. right. left. reflexivity.
    + destruct l as [|a [|b tl]]; [cbn in Hlen; lia|cbn in Hlen; lia|].
      rewrite owner_g_two. unfold arg_g.
      destruct (fold_in sc (a :: b :: tl) ([], 0)) as [H|(H1 & _)]; [rewrite H; exact Hnil|exact H1].
Qed.

(* with all scores 0 membership and removal-minimality fail (for a score function; whether the
   FNV/Wang score ever has an all-zero row is not decided here) *)
Definition sc0 : bytes -> N := fun _ => 0.
Lemma owner_g_zero_not_member : ~ In (owner_g sc0 [[97]; [98]]) [[97]; [98]].
Proof. vm_compute. intros [H|[H|[]]]; discriminate. Qed.
Lemma removal_minimal_g_zero_refuted :
  owner_g sc0 (remove_first [97] [[97]; [98]]) <> owner_g sc0 [[97]; [98]] /\ owner_g sc0 [[97]; [98]] <> [97].
Proof. vm_compute. split; discriminate. Qed.

(* ---------- guarded forms (no zero score) ---------- *)
Definition pos_g (sc : bytes -> N) (l : list bytes) : Prop := forall n, In n l -> 0 < sc n.

Lemma owner_g_is_arg sc l : l <> [] -> pos_g sc l -> owner_g sc l = fst (arg_g sc l).
Proof.
  intros Hne Hpos. destruct l as [|a [|b tl]]; [congruence| |reflexivity].
  cbn. unfold best_step_g. cbn. specialize (Hpos a (or_introl eq_refl)).
  assert (0 <? sc a = true) as -> by lia. reflexivity.
Qed.

Lemma arg_g_in sc l : l <> [] -> pos_g sc l -> In (fst (arg_g sc l)) l.
Proof.
  intros Hne Hpos. unfold arg_g. destruct (fold_in sc l ([], 0)) as [H|(H & _)]; [|exact H].
  exfalso. destruct l as [|a tl]; [congruence|].
  pose proof (fold_max sc (a :: tl) ([], 0) a (or_introl eq_refl)) as Hm.
  rewrite H in Hm. cbn in Hm. specialize (Hpos a (or_introl eq_refl)). lia.
Qed.

Lemma owner_g_in sc l : l <> [] -> pos_g sc l -> In (owner_g sc l) l.
Proof. intros. rewrite owner_g_is_arg by assumption. apply arg_g_in; assumption. Qed.

Lemma owner_g_max sc l : l <> [] -> pos_g sc l -> forall n, In n l -> sc n <= sc (owner_g sc l).
Proof.
  intros Hne Hpos n Hin. rewrite owner_g_is_arg by assumption. unfold arg_g.
  pose proof (fold_max sc l ([], 0) n Hin) as Hm.
  destruct (fold_in sc l ([], 0)) as [H|(_ & H2 & _)].
  - rewrite H in Hm. cbn in Hm. specialize (Hpos n Hin). lia.
  - rewrite <- H2. exact Hm.
Qed.

Lemma remove_first_in x p l : In x (remove_first p l) -> In x l.
Proof.
  induction l as [|y tl IH]; cbn; [auto|]. destruct (bytes_eqb y p); cbn; [auto|]. intros [H|H]; auto.
Qed.


Lemma removal_minimal_g sc l p :
  pos_g sc l -> owner_g sc (remove_first p l) <> owner_g sc l -> owner_g sc l = p.
Proof.
  intros Hpos Hne.
  destruct (list_eq_dec N.eq_dec (owner_g sc l) p) as [E|E]; [exact E|exfalso].
  destruct l as [|a tl]; [apply Hne; reflexivity|].
  assert (Hl : a :: tl <> []) by discriminate.
  rewrite (owner_g_is_arg sc (a :: tl) Hl Hpos) in E, Hne.
  assert (Hrm : remove_first p (a :: tl) <> []).
  { intros Hnil. pose proof (arg_g_in sc (a :: tl) Hl Hpos) as Hin.
    cbn in Hnil. destruct (bytes_eqb a p) eqn:Eap; [|discriminate]. subst tl.
    apply bytes_eqb_eq in Eap. subst a. unfold arg_g in E. cbn in E, Hin. destruct Hin as [Hin|[]]. congruence. }
  assert (Hpos' : pos_g sc (remove_first p (a :: tl))).
  { intros n Hn. apply Hpos. eapply remove_first_in; eauto. }
  rewrite (owner_g_is_arg sc _ Hrm Hpos') in Hne. apply Hne. unfold arg_g.
  f_equal. apply fold_remove. exact E.
Qed.

(* the code's instance: sc := score k *)
Definition scores_pos (k : bytes) (l : list bytes) : Prop := forall n, In n l -> 0 < score k n.
Definition arg (k : bytes) (l : list bytes) : bytes * N := arg_g (score k) l.

Lemma owner_in k l : l <> [] -> scores_pos k l -> In (owner k l) l.
Proof. exact (owner_g_in (score k) l). Qed.

Lemma owner_max k l : l <> [] -> scores_pos k l -> forall n, In n l -> score k n <= score k (owner k l).
Proof. exact (owner_g_max (score k) l). Qed.

Lemma removal_minimal k l p :
  scores_pos k l -> owner k (remove_first p l) <> owner k l -> owner k l = p.
Proof. exact (removal_minimal_g (score k) l p). Qed.

(* ---------- ranked ---------- *)
Lemma insert_r_perm x l : Permutation (insert_r x l) (x :: l).
Proof.
  induction l as [|y tl IH]; cbn; [reflexivity|].
  destruct (fst y <=? fst x); [reflexivity|]. rewrite IH. apply perm_swap.
Qed.

Lemma sort_r_perm l : Permutation (fold_right insert_r [] l) l.
Proof. induction l as [|x tl IH]; cbn; [reflexivity|]. rewrite insert_r_perm. constructor. exact IH. Qed.

Lemma ranked_g_perm sc l : Permutation (ranked_g sc l) l.
Proof.
  destruct l as [|a [|b tl]]; [reflexivity|reflexivity|].
  unfold ranked_g. set (d := map _ (a :: b :: tl)).
  rewrite (Permutation_map snd (sort_r_perm d)). subst d. rewrite map_map. cbn [snd]. rewrite map_id. reflexivity.
Qed.
Lemma ranked_perm k l : Permutation (ranked k l) l.
Proof. exact (ranked_g_perm _ l). Qed.

Definition ge_fst (a b : N * bytes) : Prop := fst b <= fst a.

Lemma insert_r_sorted x l : StronglySorted ge_fst l -> StronglySorted ge_fst (insert_r x l).
Proof.
  induction l as [|y tl IH]; cbn; intros Hs; [repeat constructor|].
  inversion Hs as [|? ? Htl Hy]; subst.
  destruct (fst y <=? fst x) eqn:E.
  - constructor; [exact Hs|]. constructor; [unfold ge_fst; lia|].
    eapply Forall_impl; [|exact Hy]. unfold ge_fst. intros; lia.
  - constructor; [auto|]. eapply Permutation_Forall; [symmetry; apply insert_r_perm|].
    constructor; [unfold ge_fst; lia|exact Hy].
Qed.

Lemma sort_r_sorted l : StronglySorted ge_fst (fold_right insert_r [] l).
Proof. induction l as [|x tl IH]; cbn; [constructor|]. apply insert_r_sorted, IH. Qed.

Lemma ranked_g_head_max sc l h r : ranked_g sc l = h :: r -> forall n, In n l -> sc n <= sc h.
Proof.
  destruct l as [|a [|b tl]]; [discriminate| |].
  - intros H n [->|[]]. injection H as <- _. lia.
  - unfold ranked_g. set (d := map _ (a :: b :: tl)). intros H n Hin.
    pose proof (sort_r_sorted d) as Hs. pose proof (sort_r_perm d) as Hp.
    destruct (fold_right insert_r [] d) as [|[hs hn] rest] eqn:Ed; [discriminate|].
    cbn in H. injection H as <- _.
    assert (Hd : forall x, In x d -> fst x = sc (snd x)).
    { subst d. intros x Hx. apply in_map_iff in Hx. destruct Hx as (m & <- & _). reflexivity. }
    assert (Hh : hs = sc hn).
    { apply (Hd (hs, hn)). eapply Permutation_in; [exact Hp|left; reflexivity]. }
    assert (In (sc n, n) d) as Hnd by (subst d; apply in_map_iff; exists n; split; [reflexivity|exact Hin]).
    eapply Permutation_in in Hnd; [|symmetry; exact Hp].
    inversion Hs as [|? ? _ Hall]; subst. destruct Hnd as [E|Hnd].
    + injection E as E1 E2. subst. lia.
    + rewrite Forall_forall in Hall. specialize (Hall _ Hnd). unfold ge_fst in Hall. cbn in Hall. lia.
Qed.

Definition inj_g (sc : bytes -> N) (l : list bytes) : Prop :=
  forall a b, In a l -> In b l -> sc a = sc b -> a = b.
Definition scores_inj (k : bytes) (l : list bytes) : Prop :=
  forall a b, In a l -> In b l -> score k a = score k b -> a = b.

Lemma ranked_g_head_owner sc l h r :
  pos_g sc l -> inj_g sc l -> ranked_g sc l = h :: r -> h = owner_g sc l.
Proof.
  intros Hpos Hinj Hr.
  assert (Hl : l <> []) by (intros ->; discriminate).
  assert (Hh : In h l) by (eapply Permutation_in; [apply ranked_g_perm|]; rewrite Hr; left; reflexivity).
  pose proof (owner_g_in sc l Hl Hpos) as Ho.
  apply Hinj; auto. apply N.le_antisymm.
  - apply owner_g_max; auto.
  - eapply ranked_g_head_max; eauto.
Qed.
Lemma ranked_head_owner k l h r :
  scores_pos k l -> scores_inj k l -> ranked k l = h :: r -> h = owner k l.
Proof. exact (ranked_g_head_owner (score k) l h r). Qed.

(* all scores 0: the ranked list is the node list itself (sorted order), its head is a node, while
   the owner is "" (owner_g_all_zero): GetOwner and the node Allocate routes to disagree *)
Lemma ranked_g_all_zero sc l : (forall n, In n l -> sc n = 0) -> ranked_g sc l = l.
Proof.
  intros Hz. destruct l as [|a [|b tl]]; [reflexivity|reflexivity|].
  unfold ranked_g. remember (a :: b :: tl) as l0 eqn:El. clear El a b tl.
  assert (H : fold_right insert_r [] (map (fun n => (sc n, n)) l0) = map (fun n => (0, n)) l0).
  { induction l0 as [|x tl IH]; [reflexivity|]. cbn [map fold_right].
    rewrite IH by (intros n Hn; apply Hz; right; exact Hn). rewrite (Hz x (or_introl eq_refl)).
    destruct tl; reflexivity. }
  rewrite H, map_map. cbn [snd]. apply map_id.
Qed.

(* ---------- health ---------- *)
Lemma first_eligible_healthy_self self un r :
  mem_s self un = false -> first_eligible self un r = first_healthy un r.
Proof.
  intros Hs. induction r as [|n tl IH]; cbn; [reflexivity|].
  destruct (bytes_eqb n self) eqn:E.
  - apply bytes_eqb_eq in E. subst. rewrite Hs. reflexivity.
  - cbn. rewrite IH. reflexivity.
Qed.

Lemma first_healthy_some un r x : In x r -> mem_s x un = false -> first_healthy un r <> None.
Proof.
  induction r as [|n tl IH]; cbn; [tauto|]. intros [->|Hin] Hx.
  - rewrite Hx. discriminate.
  - destruct (mem_s n un); cbn; [auto|discriminate].
Qed.

(* every node that the shared health vector considers healthy computes the same owner *)
Lemma healthy_nodes_agree s1 s2 un k l :
  In s1 l -> In s2 l -> mem_s s1 un = false -> mem_s s2 un = false ->
  healthy_owner s1 un k l = healthy_owner s2 un k l.
Proof.
  intros H1 H2 U1 U2. unfold healthy_owner.
  rewrite !first_eligible_healthy_self by assumption.
  destruct (first_healthy un (ranked k l)) eqn:E; [reflexivity|].
  exfalso. eapply (first_healthy_some un (ranked k l) s1); eauto.
  eapply Permutation_in; [symmetry; apply ranked_perm|exact H1].
Qed.

Lemma first_healthy_minimal un p r :
  first_healthy (p :: un) r <> first_healthy un r -> first_healthy un r = Some p.
Proof.
  induction r as [|n tl IH]; cbn; [congruence|].
  destruct (bytes_eqb n p) eqn:E; cbn.
  - apply bytes_eqb_eq in E. subst. destruct (mem_s p un); cbn; auto.
  - fold (mem_s n un). destruct (mem_s n un); cbn; auto. intros H; congruence.
Qed.

(* marking p unhealthy moves only the subscribers p was serving (seen from a healthy node s <> p) *)
Lemma unhealthy_minimal s un p k l :
  In s l -> mem_s s (p :: un) = false ->
  healthy_owner s (p :: un) k l <> healthy_owner s un k l -> healthy_owner s un k l = p.
Proof.
  intros Hin Hs. assert (Hs' : mem_s s un = false).
  { cbn in Hs. apply orb_false_iff in Hs. tauto. }
  unfold healthy_owner. rewrite !first_eligible_healthy_self by assumption.
  intros Hne. destruct (first_healthy un (ranked k l)) eqn:E2.
  - pose proof (first_healthy_minimal un p (ranked k l)) as Hm. rewrite E2 in Hm.
    assert (Some b = Some p) as Heq; [|injection Heq; auto].
    apply Hm. intros Heq. apply Hne. rewrite Heq. reflexivity.
  - exfalso. eapply (first_healthy_some un (ranked k l) s); eauto.
    eapply Permutation_in; [symmetry; apply ranked_perm|exact Hin].
Qed.

(* the node that the vector marks unhealthy still elects itself: two nodes, one subscriber, two owners *)
Definition ha : bytes := [97].          (* "a" *)
Definition hb : bytes := [98].          (* "b" *)
Lemma agree_under_health_refuted :
  exists k, healthy_owner ha [hb] k [ha; hb] <> healthy_owner hb [hb] k [ha; hb].
Proof. exists [115; 117; 98; 45; 50]. vm_compute. discriminate. Qed.

(* non-vacuity of the guards on concrete peer sets *)
Definition scores_pos_b (k : bytes) (l : list bytes) : bool := forallb (fun n => 0 <? score k n) l.
Lemma scores_pos_b_ok k l : scores_pos_b k l = true -> scores_pos k l.
Proof. unfold scores_pos_b, scores_pos. rewrite forallb_forall. intros H n Hn. specialize (H n Hn). lia. Qed.
