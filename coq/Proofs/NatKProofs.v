(* Proofs about Model/NatK.v: the Manager with a real subscriber_nat map, under every pattern of
   map-call failures (fault oracles, capacity) and log-writer failures.
   - every K history is a base history (of Model/Nat.v, with the effective fault oracles): all the
     theorems over [hist] hold for every fault pattern;
   - the datapath map mirrors the allocation table after every operation, also a failed one;
   - the monitor [kaccept] accepts every trace of the K Model (refinement). *)
From Coq Require Import ZArith NArith List Bool Lia ZifyN ZifyNat ZifyBool.
From Verif Require Import Base.Check Model.Nat Model.NatSpec Model.NatK Model.NatKSpec Proofs.NatProofs.
Import ListNotations.
Local Open Scope Z_scope.

(* keys from 192.168.0.0 upwards are the harness's own (foreign) entries; subscribers are below *)
Definition FB : Z := 3232235520.

Definition kop_ok (o : kop) : bool :=
  match o with
  | KO o0 => match op_priv o0 with Some p => p <? FB | None => true end
  | KPut k | KDel k => FB <=? k
  | KDump => true
  end.
Definition kops_ok (ops : list kop) : Prop := Forall (fun o => kop_ok o = true) ops.

Definition knext (ks : kstate) (o : kop) : kstate := fst (fst (kstep ks o)).

Lemma krun_cons ks o ops : krun ks (o :: ops) = krun (knext ks o) ops.
Proof. reflexivity. Qed.

(* ------------------------------------------------------------------ K histories are base histories *)
Lemma knext_ko ks o0 : k_s (knext ks (KO o0)) = next (k_s ks) (kbase ks o0).
Proof.
  unfold knext, next, kstep. destruct (step (k_s ks) (kbase ks o0)) as [[s' r] mk]. reflexivity.
Qed.

Lemma knext_other ks o : (forall o0, o <> KO o0) -> k_s (knext ks o) = k_s ks.
Proof.
  intros H. unfold knext, kstep. destruct o as [o0|k|k|]; cbn; try reflexivity.
  - exfalso. apply (H o0). reflexivity.
  - destruct (kmap_room _ _ _); reflexivity.
Qed.

Fixpoint kproj (ks : kstate) (ops : list kop) : list op :=
  match ops with
  | [] => []
  | o :: tl => match o with KO o0 => [kbase ks o0] | _ => [] end ++ kproj (knext ks o) tl
  end.

Lemma krun_proj ops : forall ks, k_s (krun ks ops) = run (k_s ks) (kproj ks ops).
Proof.
  induction ops as [|o tl IH]; intros ks; [reflexivity|]. rewrite krun_cons, IH. cbn [kproj].
  destruct o as [o0|k|k|].
  - cbn [app]. rewrite run_cons, knext_ko. reflexivity.
  - cbn [app]. rewrite knext_other; [reflexivity|intros; discriminate].
  - cbn [app]. rewrite knext_other; [reflexivity|intros; discriminate].
  - cbn [app]. rewrite knext_other; [reflexivity|intros; discriminate].
Qed.

Definition khist (c : cfg) (m : logmode) (mx : Z) (ops : list kop) : kstate := krun (kinit c m mx) ops.

Lemma khist_is_hist c m mx ops : k_s (khist c m mx ops) = hist c m (kproj (kinit c m mx) ops).
Proof. unfold khist, hist. rewrite krun_proj. reflexivity. Qed.

(* the log-fault guard carries over *)
Definition klossless (o : kop) : bool := match o with KO o0 => lossless o0 | _ => true end.

Lemma lossless_kbase ks o0 : lossless (kbase ks o0) = lossless o0.
Proof. destruct o0; reflexivity. Qed.

Lemma kproj_lossless ops : forall ks, Forall (fun o => klossless o = true) ops -> all_lossless (kproj ks ops).
Proof.
  induction ops as [|o tl IH]; intros ks H; [constructor|]. inversion H; subst. cbn [kproj].
  apply Forall_app. split; [|apply IH; assumption].
  destruct o; try constructor; [|constructor]. rewrite lossless_kbase. assumption.
Qed.

(* ------------------------------------------------------------------ how one base step changes the table *)
Lemma op_priv_kbase ks o0 : op_priv (kbase ks o0) = op_priv o0.
Proof. destruct o0; reflexivity. Qed.

Lemma plain_kbase ks o0 : plain (kbase ks o0) = plain o0.
Proof. destruct o0; reflexivity. Qed.

Lemma do_alloc_allocs s q fm fl :
  s_allocs (fst (fst (do_alloc s q fm fl))) = s_allocs s \/
  (find_alloc q (s_allocs s) = None /\
   exists anew, s_allocs (fst (fst (do_alloc s q fm fl))) = anew :: s_allocs s /\ a_priv anew = q).
Proof.
  unfold do_alloc. destruct (find_alloc q (s_allocs s)) eqn:Ef; cbn; auto.
  destruct (select_pool _ _) as [[[i p] b]|]; cbn; auto.
  destruct (find_sid _ _); destruct fm; cbn; auto; right; (split; [reflexivity|]); eexists; split; reflexivity.
Qed.

Lemma do_dealloc_allocs s q fm fl :
  s_allocs (fst (fst (do_dealloc s q fm fl))) = s_allocs s \/
  (exists a, find_alloc q (s_allocs s) = Some a) /\
  s_allocs (fst (fst (do_dealloc s q fm fl))) = remove_alloc q (s_allocs s).
Proof.
  unfold do_dealloc. destruct (find_alloc q (s_allocs s)) eqn:Ef; cbn; auto.
  destruct fm; cbn; auto. right. split; [eexists; reflexivity|reflexivity].
Qed.

Inductive tab_change (s : state) (o : op) : Prop :=
| TC_same : s_allocs (next s o) = s_allocs s -> tab_change s o
| TC_new q anew : op_priv o = Some q -> find_alloc q (s_allocs s) = None ->
    s_allocs (next s o) = anew :: s_allocs s -> a_priv anew = q -> tab_change s o
| TC_gone q a : op_priv o = Some q -> find_alloc q (s_allocs s) = Some a ->
    s_allocs (next s o) = remove_alloc q (s_allocs s) -> tab_change s o.

Lemma step_tab_change s o : tab_change s o.
Proof.
  assert (HA : forall q fm fl o', op_priv o' = Some q ->
            next s o' = fst (fst (do_alloc (tick s) q fm fl)) -> tab_change s o').
  { intros q fm fl o' Hp Hn. destruct (do_alloc_allocs (tick s) q fm fl) as [H|[Hf [anew [H1 H2]]]].
    - apply TC_same. rewrite Hn. exact H.
    - apply (TC_new s o' q anew); auto. rewrite Hn. exact H1. }
  assert (HD : forall q fm fl o', op_priv o' = Some q ->
            next s o' = fst (fst (do_dealloc (tick s) q fm fl)) -> tab_change s o').
  { intros q fm fl o' Hp Hn. destruct (do_dealloc_allocs (tick s) q fm fl) as [H|[[a Hf] H1]].
    - apply TC_same. rewrite Hn. exact H.
    - apply (TC_gone s o' q a); auto. rewrite Hn. exact H1. }
  destruct o as [ip|q|q|q| |co|q fm fl|q fm fl].
  - apply TC_same. unfold next, step, step_body. cbn. destruct (existsb _ _); reflexivity.
  - apply (HA q false false); reflexivity.
  - apply (HD q false false); reflexivity.
  - apply TC_same. reflexivity.
  - apply TC_same. reflexivity.
  - apply TC_same. reflexivity.
  - apply (HA q fm fl); reflexivity.
  - apply (HD q fm fl); reflexivity.
Qed.

(* ------------------------------------------------------------------ facts about the map as a list *)
Lemma kdel_in k l e : In e (kmap_del k l) <-> In e l /\ ke_key e <> k.
Proof.
  unfold kmap_del. rewrite filter_In. split; intros [H1 H2]; split; auto.
  - apply negb_true_iff, Z.eqb_neq in H2. exact H2.
  - apply negb_true_iff, Z.eqb_neq. exact H2.
Qed.

Lemma nodup_map_filter {A B} (f : A -> B) (g : A -> bool) l : NoDup (map f l) -> NoDup (map f (filter g l)).
Proof.
  induction l as [|x tl IH]; cbn; intros H; [constructor|]. inversion H as [|? ? Hx Ht]; subst.
  destruct (g x); cbn; [|apply IH; exact Ht]. constructor; [|apply IH; exact Ht].
  intros Hin. apply Hx. apply in_map_iff in Hin. destruct Hin as [y [Hy Hin]]. apply filter_In in Hin.
  apply in_map_iff. exists y. tauto.
Qed.

Lemma kins_nodup e l : NoDup (map ke_key l) -> NoDup (map ke_key (kmap_ins e l)).
Proof.
  intros H. unfold kmap_ins. cbn. constructor.
  - intros Hin. apply in_map_iff in Hin. destruct Hin as [y [Hy Hin]]. apply kdel_in in Hin. tauto.
  - apply nodup_map_filter. exact H.
Qed.

Lemma kfind_nodup l : NoDup (map ke_key l) -> forall e, In e l -> kfind (ke_key e) l = Some e.
Proof.
  unfold kfind. induction l as [|x tl IH]; cbn; intros H e Hin; [contradiction|].
  inversion H as [|? ? Hx Ht]; subst. destruct Hin as [->|Hin]; [rewrite Z.eqb_refl; reflexivity|].
  destruct (ke_key x =? ke_key e) eqn:E; [|apply IH; assumption].
  exfalso. apply Hx. apply Z.eqb_eq in E. rewrite E. apply in_map. exact Hin.
Qed.

Lemma nodupb_true l : NoDup l -> nodupb l = true.
Proof.
  induction 1 as [|x tl Hx _ IH]; cbn; [reflexivity|]. rewrite IH, andb_true_r. apply negb_true_iff.
  destruct (existsb (Z.eqb x) tl) eqn:E; [|reflexivity]. exfalso. apply Hx.
  apply existsb_exists in E. destruct E as [y [Hy E]]. apply Z.eqb_eq in E. subst. exact Hy.
Qed.

Lemma find_alloc_removed q l : NoDup (map a_priv l) -> find_alloc q (remove_alloc q l) = None.
Proof.
  intros Hd. destruct (find_alloc q (remove_alloc q l)) as [x|] eqn:Ex; [|reflexivity].
  exfalso. destruct (find_alloc_some _ _ _ Ex) as [Hin Hp]. exact (remove_alloc_drops _ _ _ Hd Hin Hp).
Qed.

(* ------------------------------------------------------------------ the invariant: map mirrors table *)
Record KInv (ks : kstate) : Prop := {
  K_inv : Inv (k_s ks);
  K_nodup : NoDup (map ke_key (k_map ks));
  K_tab : forall a, In a (s_allocs (k_s ks)) -> In (kentry_of (s_cfg (k_s ks)) a) (k_map ks);
  K_only : forall e, In e (k_map ks) ->
      (exists a, In a (s_allocs (k_s ks)) /\ e = kentry_of (s_cfg (k_s ks)) a) \/
      (FB <= ke_key e /\ e = kentry_foreign (ke_key e));
  K_priv : forall a, In a (s_allocs (k_s ks)) -> a_priv a < FB
}.

Lemma kinv_init c m mx : KInv (kinit c m mx).
Proof. constructor; cbn; try tauto; [apply inv_init|constructor]. Qed.

(* the map after a Manager call, by the change of the table *)
Lemma kstep_map ks o0 :
  k_map (knext ks (KO o0)) =
  match op_priv o0 with
  | None => k_map ks
  | Some priv =>
      match find_alloc priv (s_allocs (k_s ks)), find_alloc priv (s_allocs (next (k_s ks) (kbase ks o0))) with
      | None, Some a => kmap_ins (kentry_of (s_cfg (k_s ks)) a) (k_map ks)
      | Some _, None => kmap_del priv (k_map ks)
      | _, _ => k_map ks
      end
  end.
Proof. unfold knext, next, kstep. destruct (step (k_s ks) (kbase ks o0)) as [[s' r] mk]. reflexivity. Qed.

Lemma kstep_inv ks o : kop_ok o = true -> KInv ks -> KInv (knext ks o).
Proof.
  intros Hok [HI Hnd Htab Honly Hpriv]. destruct o as [o0|k|k|].
  - (* a Manager call *)
    cbn in Hok.
    assert (HI' : Inv (k_s (knext ks (KO o0)))) by (rewrite knext_ko; apply step_inv; exact HI).
    assert (Hcf : s_cfg (k_s (knext ks (KO o0))) = s_cfg (k_s ks)) by (rewrite knext_ko; apply step_cfg).
    pose proof (step_tab_change (k_s ks) (kbase ks o0)) as TC.
    pose proof (kstep_map ks o0) as Hmap.
    destruct TC as [Hsame|q anew Hp Hf Hnew Hq|q a Hp Hf Hgone]; rewrite ?op_priv_kbase in *.
    + (* table unchanged: so is the map *)
      assert (Hm : k_map (knext ks (KO o0)) = k_map ks).
      { rewrite Hmap. destruct (op_priv o0) as [p|]; [|reflexivity]. rewrite Hsame.
        destruct (find_alloc p (s_allocs (k_s ks))); reflexivity. }
      constructor; rewrite ?Hm, ?Hcf, ?knext_ko, ?Hsame; auto. rewrite <- knext_ko. exact HI'.
    + (* a new allocation: its entry was put *)
      rewrite Hp in Hok. apply Z.ltb_lt in Hok.
      assert (Hm : k_map (knext ks (KO o0)) = kmap_ins (kentry_of (s_cfg (k_s ks)) anew) (k_map ks)).
      { rewrite Hmap, Hp, Hf, Hnew. cbn. rewrite Hq, Z.eqb_refl. reflexivity. }
      constructor; rewrite ?Hm, ?Hcf; try (rewrite knext_ko, Hnew).
      * exact HI'.
      * apply kins_nodup. exact Hnd.
      * intros a [<-|Ha]; [left; reflexivity|]. right. apply kdel_in. split; [apply Htab; exact Ha|].
        cbn. rewrite Hq. intros He. apply (find_alloc_none _ _ Hf). rewrite <- He. apply in_map. exact Ha.
      * intros e [<-|He].
        -- left. exists anew. split; [left; reflexivity|reflexivity].
        -- apply kdel_in in He. destruct He as [He _]. destruct (Honly e He) as [[a [Ha ->]]|Hfo]; [left|right; exact Hfo].
           exists a. split; [right; exact Ha|reflexivity].
      * intros a [<-|Ha]; [lia|apply Hpriv; exact Ha].
    + (* a release: its entry was deleted *)
      assert (Hm : k_map (knext ks (KO o0)) = kmap_del q (k_map ks)).
      { rewrite Hmap, Hp, Hf, Hgone. rewrite (find_alloc_removed q _ (I_priv _ HI)). reflexivity. }
      constructor; rewrite ?Hm, ?Hcf; try (rewrite knext_ko, Hgone).
      * exact HI'.
      * apply nodup_map_filter. exact Hnd.
      * intros x Hx. pose proof (remove_alloc_drops _ _ _ (I_priv _ HI) Hx) as Hne.
        apply remove_alloc_in in Hx. apply kdel_in. split; [apply Htab; exact Hx|exact Hne].
      * intros e He. apply kdel_in in He. destruct He as [He Hk].
        destruct (Honly e He) as [[a0 [Ha0 ->]]|Hfo]; [left|right; exact Hfo].
        exists a0. split; [|reflexivity]. apply remove_alloc_keeps; [exact Ha0|exact Hk].
      * intros x Hx. apply Hpriv. eapply remove_alloc_in. exact Hx.
  - (* the harness puts a foreign key *)
    cbn in Hok. apply Z.leb_le in Hok. unfold knext, kstep.
    destruct (kmap_room (k_max ks) k (k_map ks)); cbn; [|constructor; assumption].
    constructor; cbn; auto.
    + exact (kins_nodup (kentry_foreign k) _ Hnd).
    + intros a Ha. right. apply kdel_in. split; [apply Htab; exact Ha|]. cbn. pose proof (Hpriv a Ha). lia.
    + intros e [<-|He]; [right; cbn; split; [exact Hok|reflexivity]|]. apply kdel_in in He. apply Honly. tauto.
  - (* the harness deletes a foreign key *)
    cbn in Hok. apply Z.leb_le in Hok. unfold knext, kstep. cbn. constructor; cbn; auto.
    + apply nodup_map_filter. exact Hnd.
    + intros a Ha. apply kdel_in. split; [apply Htab; exact Ha|]. cbn. pose proof (Hpriv a Ha). lia.
    + intros e He. apply kdel_in in He. apply Honly. tauto.
  - constructor; assumption.
Qed.

Lemma krun_inv ops : forall ks, kops_ok ops -> KInv ks -> KInv (krun ks ops).
Proof.
  induction ops as [|o tl IH]; intros ks Hok H; [exact H|]. inversion Hok; subst. rewrite krun_cons.
  apply IH; [assumption|]. apply kstep_inv; assumption.
Qed.

Lemma khist_inv c m mx ops : kops_ok ops -> KInv (khist c m mx ops).
Proof. intros H. apply krun_inv; [exact H|apply kinv_init]. Qed.

Lemma khist_cfg c m mx ops : s_cfg (k_s (khist c m mx ops)) = c.
Proof. rewrite khist_is_hist. apply hist_cfg. Qed.

(* ------------------------------------------------------------------ statements *)
(* after every operation, for every pattern of failing map calls / log writes and every map capacity:
   one subscriber_nat entry per holder carrying its block, nothing else below the foreign keys *)
Lemma c10_datapath_mirrors_table c m mx ops : kops_ok ops ->
  let ks := khist c m mx ops in
  (forall a, In a (s_allocs (k_s ks)) -> In (kentry_of c a) (k_map ks)) /\
  (forall e, In e (k_map ks) -> ke_key e < FB -> exists a, In a (s_allocs (k_s ks)) /\ e = kentry_of c a) /\
  NoDup (map ke_key (k_map ks)).
Proof.
  intros Hok. cbn zeta. destruct (khist_inv c m mx ops Hok) as [HI Hnd Htab Honly Hpriv].
  rewrite (khist_cfg c m mx ops) in Htab, Honly. repeat split; auto.
  intros e He Hk. destruct (Honly e He) as [H|[H _]]; [exact H|lia].
Qed.

(* no two subscribers' entries of the datapath map overlap on one public address *)
Lemma c10_datapath_no_overlap c m mx ops e1 e2 : cfg_ok c -> kops_ok ops ->
  In e1 (k_map (khist c m mx ops)) -> In e2 (k_map (khist c m mx ops)) ->
  ke_key e1 < FB -> ke_key e2 < FB -> ke_key e1 <> ke_key e2 -> ke_pub e1 = ke_pub e2 ->
  ke_end e1 < ke_start e2 \/ ke_end e2 < ke_start e1.
Proof.
  intros Hc Hok H1 H2 K1 K2 Hne Hpub.
  destruct (c10_datapath_mirrors_table c m mx ops Hok) as [_ [Honly _]].
  destruct (Honly e1 H1 K1) as [a1 [A1 ->]]. destruct (Honly e2 H2 K2) as [a2 [A2 ->]].
  rewrite khist_is_hist in A1, A2. cbn in *.
  exact (c10_no_overlap c m _ a1 a2 Hc A1 A2 Hne Hpub).
Qed.

(* the cursor the datapath starts from lies inside the block *)
Lemma c10_datapath_entry_in_range c m mx ops e : cfg_ok c -> kops_ok ops ->
  In e (k_map (khist c m mx ops)) -> ke_key e < FB ->
  c_start c <= ke_start e /\ ke_start e <= ke_next e <= ke_end e /\ ke_end e <= c_end c /\
  ke_end e - ke_start e + 1 = c_pps c.
Proof.
  intros Hc Hok H1 K1.
  destruct (c10_datapath_mirrors_table c m mx ops Hok) as [_ [Honly _]].
  destruct (Honly e H1 K1) as [a [A ->]]. rewrite khist_is_hist in A. cbn.
  pose proof (c10_in_range c m _ a Hc A). pose proof (c10_block_size c m _ a Hc A). lia.
Qed.

(* ------------------------------------------------------------------ refinement: kaccept accepts the K Model *)
Definition KRel (ks : kstate) (kss : ksstate) : Prop :=
  Rel (k_s ks) (ks_ss kss) /\ forall e, In e (k_map ks) -> FB <= ke_key e -> In (ke_key e) (ks_foreign kss).

Definition kseq_op (o : kop) : Prop := match o with KO o0 => seq_op o0 | _ => True end.

Lemma kentry_is_of c a : kentry_is (blk_of a) (kentry_of c a) = true.
Proof. unfold kentry_is. cbn. rewrite !Z.eqb_refl. reflexivity. Qed.

Lemma kdump_ok ks kss : KInv ks -> KRel ks kss ->
  kmap_ok (ss_tab (ks_ss kss)) (ks_foreign kss) (k_map ks) = true.
Proof.
  intros [HI Hnd Htab Honly Hpriv] [[_ [_ Rt]] Rf]. unfold kmap_ok. rewrite Rt.
  apply andb_true_iff. split; [apply andb_true_iff; split|].
  - apply forallb_forall. intros b Hb. apply in_map_iff in Hb. destruct Hb as [a [<- Ha]].
    pose proof (kfind_nodup _ Hnd _ (Htab a Ha)) as Hf. cbn in Hf. cbn. rewrite Hf. apply kentry_is_of.
  - apply forallb_forall. intros e He. apply orb_true_iff.
    destruct (Honly e He) as [[a [Ha ->]]|[Hk _]].
    + left. apply existsb_exists. exists (blk_of a). split; [apply in_map; exact Ha|]. cbn. apply Z.eqb_refl.
    + right. apply existsb_exists. exists (ke_key e). split; [apply Rf; assumption|apply Z.eqb_refl].
  - apply nodupb_true. exact Hnd.
Qed.

Lemma kmap_foreign_sub ks o0 e : KInv ks -> kop_ok (KO o0) = true ->
  In e (k_map (knext ks (KO o0))) -> FB <= ke_key e -> In e (k_map ks).
Proof.
  intros [HI Hnd Htab Honly Hpriv] Hok He Hk. rewrite kstep_map in He. cbn in Hok.
  destruct (op_priv o0) as [p|]; [|exact He]. apply Z.ltb_lt in Hok.
  destruct (find_alloc p (s_allocs (k_s ks))) as [a1|] eqn:E1;
    destruct (find_alloc p (s_allocs (next (k_s ks) (kbase ks o0)))) as [a2|] eqn:E2; try exact He.
  - apply kdel_in in He. tauto.
  - destruct He as [<-|He]; [|apply kdel_in in He; tauto].
    cbn in Hk. destruct (find_alloc_some _ _ _ E2) as [_ Hp]. lia.
Qed.

Lemma kstep_accepted ks kss o : KInv ks -> cfg_ok (s_cfg (k_s ks)) -> KRel ks kss ->
  kop_ok o = true -> kseq_op o -> klossless o = true ->
  exists kss', kaccept kss o (snd (fst (kstep ks o))) = inl kss' /\ KRel (knext ks o) kss'.
Proof.
  intros HK Hc HR Hok Hseq Hl. pose proof HK as [HI Hnd Htab Honly Hpriv]. pose proof HR as [R1 Rf].
  destruct o as [o0|k|k|].
  - (* a Manager call: the base refinement, then the extra stats clause *)
    cbn in Hseq, Hl.
    assert (Hseq' : seq_op (kbase ks o0)) by (destruct o0; exact Hseq).
    assert (Hl' : lossless (kbase ks o0) = true) by (rewrite lossless_kbase; exact Hl).
    destruct (step_accepted (k_s ks) (ks_ss kss) (kbase ks o0) HI Hc R1 Hseq' Hl') as [ss' [Ha HR']].
    assert (Ha' : accept (ks_ss kss) o0 (snd (fst (step (k_s ks) (kbase ks o0)))) = inl ss').
    { unfold accept in *. rewrite plain_kbase in Ha. exact Ha. }
    assert (Hout : snd (fst (kstep ks (KO o0))) = KOut (snd (fst (step (k_s ks) (kbase ks o0))))).
    { unfold kstep. destruct (step (k_s ks) (kbase ks o0)) as [[s' r] mk]. reflexivity. }
    rewrite Hout. exists {| ks_ss := ss'; ks_foreign := ks_foreign kss |}. split.
    + unfold kaccept. rewrite Ha'.
      destruct o0 as [ip|q|q|q| |co|q fm fl|q fm fl]; try reflexivity.
      (* Stats *)
      destruct HR' as [_ [_ Rt']]. unfold step, step_body. cbn. rewrite Rt'. unfold next, step, step_body. cbn.
      rewrite map_length, Z.eqb_refl. reflexivity.
    + split; [rewrite knext_ko; exact HR'|]. cbn. intros e He Hk. apply Rf; [|exact Hk].
      exact (kmap_foreign_sub ks o0 e HK Hok He Hk).
  - (* KPut *)
    unfold knext, kstep, kaccept. destruct (kmap_room (k_max ks) k (k_map ks)); cbn.
    + eexists. split; [reflexivity|]. split; [exact R1|]. cbn. intros e [<-|He] Hk; [left; reflexivity|].
      right. apply kdel_in in He. apply Rf; tauto.
    + eexists. split; [reflexivity|exact HR].
  - (* KDel *)
    unfold knext, kstep, kaccept. cbn. eexists. split; [reflexivity|]. split; [exact R1|]. cbn.
    intros e He Hk. apply kdel_in in He. destruct He as [He Hne]. apply filter_In. split; [apply Rf; assumption|].
    apply negb_true_iff, Z.eqb_neq. exact Hne.
  - (* KDump *)
    unfold knext, kstep, kaccept. cbn. rewrite (kdump_ok ks kss HK HR). eexists. split; [reflexivity|exact HR].
Qed.

Fixpoint kmtrace (ks : kstate) (ops : list kop) : list (kop * kout) :=
  match ops with
  | [] => []
  | o :: tl => (o, snd (fst (kstep ks o))) :: kmtrace (knext ks o) tl
  end.

Lemma knext_cfg ks o : s_cfg (k_s (knext ks o)) = s_cfg (k_s ks).
Proof.
  destruct o as [o0|k|k|]; [rewrite knext_ko; apply step_cfg| | |]; rewrite knext_other; try reflexivity; intros; discriminate.
Qed.

Lemma kmodel_accepted ops : forall ks kss i, KInv ks -> cfg_ok (s_cfg (k_s ks)) -> KRel ks kss ->
  kops_ok ops -> Forall kseq_op ops -> Forall (fun o => klossless o = true) ops ->
  accept_trace kaccept i kss (kmtrace ks ops) = (0%N, 0%N).
Proof.
  induction ops as [|o tl IH]; intros ks kss i HK Hc HR Hok Hseq Hl; [reflexivity|].
  inversion Hok; subst. inversion Hseq; subst. inversion Hl; subst. cbn.
  destruct (kstep_accepted ks kss o HK Hc HR) as [kss' [Ha HR']]; try assumption.
  rewrite Ha. apply IH; auto.
  - apply kstep_inv; assumption.
  - rewrite knext_cfg. exact Hc.
Qed.

Lemma kmtrace_check ops : forall ks,
  map (fun x => (fst (fst x), snd (fst x))) (model_trace kstep ks ops) = kmtrace ks ops.
Proof.
  induction ops as [|o tl IH]; intros ks; [reflexivity|]. cbn. unfold knext.
  destruct (kstep ks o) as [[ks' r] mk]. cbn. rewrite IH. reflexivity.
Qed.

Lemma c10_kmodel_refines_spec c m mx ops : cfg_ok c -> kops_ok ops -> Forall kseq_op ops ->
  Forall (fun o => klossless o = true) ops ->
  accept_trace kaccept 1%N (ksinit c m)
    (map (fun x => (fst (fst x), snd (fst x))) (model_trace kstep (kinit c m mx) ops)) = (0%N, 0%N).
Proof.
  intros Hc Hok Hseq Hl. rewrite kmtrace_check. apply kmodel_accepted; auto.
  - apply kinv_init.
  - split; [repeat split|]. cbn. tauto.
Qed.

(* non-vacuity + the seeded shape: a tiny map; the update for B fails, B retries in vain, A releases
   while the delete fails (refused), then releases, B succeeds *)
Definition kex_cfg : cfg := {| c_pps := 1000; c_start := 60000; c_end := 65535 |}.
Definition kex_ops : list kop :=
  [KO (AddIP 9); KO (Alloc 1); KO (Alloc 2); KDump; KO (Get 2); KO (DeallocF 1 true false); KDump;
   KO (Dealloc 1); KO (Alloc 2); KDump].
Lemma c10_kexample :
  cfg_ok kex_cfg /\ kops_ok kex_ops /\ Forall kseq_op kex_ops /\ Forall (fun o => klossless o = true) kex_ops /\
  map (fun x => snd (fst x)) (model_trace kstep (kinit kex_cfg LogBulk 1) kex_ops) =
  [KOut (mk_out RNone []);
   KOut (mk_out (RAlloc {| v_priv := 1; v_pub := 9; v_start := 60000; v_end := 60999; v_pool := 0; v_sid := 1 |})
                [LBulk true 1 1 9 60000 60999 1000]);
   KOut (mk_out (RErr 3) []);
   KMap [{| ke_key := 1; ke_pub := 9; ke_start := 60000; ke_end := 60999; ke_next := 60000; ke_sid := 1; ke_log2 := 9; ke_rest0 := true |}];
   KOut (mk_out (RGet None) []);
   KOut (mk_out (RErr 4) []);
   KMap [{| ke_key := 1; ke_pub := 9; ke_start := 60000; ke_end := 60999; ke_next := 60000; ke_sid := 1; ke_log2 := 9; ke_rest0 := true |}];
   KOut (mk_out RNone [LBulk false 0 1 9 60000 0 0]);
   KOut (mk_out (RAlloc {| v_priv := 2; v_pub := 9; v_start := 60000; v_end := 60999; v_pool := 0; v_sid := 2 |})
                [LBulk true 2 2 9 60000 60999 1000]);
   KMap [{| ke_key := 2; ke_pub := 9; ke_start := 60000; ke_end := 60999; ke_next := 60000; ke_sid := 2; ke_log2 := 9; ke_rest0 := true |}]].
Proof.
  split; [reflexivity|]. split; [repeat constructor|]. split; [repeat constructor|]. split; [repeat constructor|].
  vm_compute. reflexivity.
Qed.
